/-
  T2N.Lemmas.EnExt — extensions of the unbounded English round-trip (T2N.Lemmas.C01En):
  leading zeros (C16), ordinals (C04), digit dictation (C08), decimals (C05).
-/
import T2N.Lemmas.C01En
import T2N.Lemmas.SimpleCC
import T2N.Spec.Spellers

namespace T2N.EnExt
open T2N T2N.DS T2N.Spec T2N.C01En

/-! ## Part 1 — leading zeros: the English interpreter does not look at `lz` -/

/-- the same builder with `k` leading zeros -/
def setLz (k : Nat) (b : DS) : DS := { b with lz := k }

/-- guards that do not read the leading-zero counter -/
def gLz : Guard → Bool
  | .tt => true
  | .neg g => gLz g
  | .and a b => gLz a && gLz b
  | .or a b => gLz a && gLz b
  | .peekEq _ _ => true
  | .peekLt _ _ => true
  | .peekLen _ _ => true
  | .null => true
  | .rangeFree _ _ => true
  | .flag _ => true
  | .markerOrd => true
  | .markerNone => true
  | .groupOne _ => true
  | .free _ => false
  | .empty => false
  | .lenGe _ => false
  | .lenEq _ => false

theorem gLz_eval (g : Guard) (b : DS) (k : Nat) (h : gLz g = true) : g.eval (setLz k b) = g.eval b := by
  induction g with
  | tt => rfl
  | neg g ih => simp only [Guard.eval, ih h]
  | and x y ihx ihy =>
    simp only [gLz, Bool.and_eq_true] at h
    simp only [Guard.eval, ihx h.1, ihy h.2]
  | or x y ihx ihy =>
    simp only [gLz, Bool.and_eq_true] at h
    simp only [Guard.eval, ihx h.1, ihy h.2]
  | peekEq _ _ => rfl
  | peekLt _ _ => rfl
  | peekLen _ _ => rfl
  | null => rfl
  | rangeFree _ _ => rfl
  | flag _ => rfl
  | markerOrd => rfl
  | markerNone => rfl
  | groupOne _ => rfl
  | free _ => exact absurd h Bool.false_ne_true
  | empty => exact absurd h Bool.false_ne_true
  | lenGe _ => exact absurd h Bool.false_ne_true
  | lenEq _ => exact absurd h Bool.false_ne_true

/-- instructions all of whose guards are `lz`-blind -/
def okAct : Act → Bool
  | .ite g a b => gLz g && okAct a && okAct b
  | .block _ a => okAct a
  | _ => true

theorem put_lz_mono (b : DS) (ds : List Nat) : b.lz ≤ (b.put ds).2.lz := by
  unfold DS.put
  repeat' (split <;> try simp_all)

theorem put_lz (b : DS) (ds : List Nat) (k : Nat) (h : (b.put ds).2.lz = b.lz) :
    (setLz k b).put ds = ((b.put ds).1, setLz k (b.put ds).2) := by
  cases b with
  | mk r z f fl m =>
    unfold DS.put at *
    simp only [setLz] at *
    by_cases hf : f = true <;> by_cases h1 : (r.isEmpty && ds == [0]) = true <;>
      by_cases h2 : allZero ds = true <;> by_cases h3 : r.isEmpty = true <;>
      by_cases h4 : r.length < ds.length <;> by_cases h5 : allZero (r.take ds.length) = true <;>
      simp_all <;> (try simp only [if_neg (Nat.not_lt.mpr ‹_ ≤ _›)])

theorem fput_lz (b : DS) (ds : List Nat) (k : Nat) :
    (setLz k b).fput ds = ((b.fput ds).1, setLz k (b.fput ds).2) ∧ (b.fput ds).2.lz = b.lz := by
  unfold DS.fput
  simp only [setLz]
  split <;> simp_all

theorem push_lz (b : DS) (ds : List Nat) (k : Nat) :
    (setLz k b).push ds = ((b.push ds).1, setLz k (b.push ds).2) ∧ (b.push ds).2.lz = b.lz := by
  unfold DS.push
  simp only [setLz]
  split <;> simp_all

theorem putAt_lz (b : DS) (d p k : Nat) :
    (setLz k b).putDigitAt d p = ((b.putDigitAt d p).1, setLz k (b.putDigitAt d p).2) ∧
      (b.putDigitAt d p).2.lz = b.lz := by
  unfold DS.putDigitAt
  simp only [setLz]
  repeat' (split <;> try simp_all)

theorem shift_lz (b : DS) (p k : Nat) :
    (setLz k b).shift p = ((b.shift p).1, setLz k (b.shift p).2) ∧ (b.shift p).2.lz = b.lz := by
  unfold DS.shift
  simp only [setLz]
  repeat' (split <;> try simp_all)

theorem exec_lz_mono (a : Act) : ∀ b : DS, b.lz ≤ (a.exec b).2.1.lz := by
  induction a with
  | put ds => intro b; simp only [Act.exec]; exact put_lz_mono b ds
  | fput ds => intro b; simp only [Act.exec]; rw [(fput_lz b ds 0).2]; exact Nat.le_refl _
  | shift p => intro b; simp only [Act.exec]; rw [(shift_lz b p 0).2]; exact Nat.le_refl _
  | putAt d p => intro b; simp only [Act.exec]; rw [(putAt_lz b d p 0).2]; exact Nat.le_refl _
  | push ds => intro b; simp only [Act.exec]; rw [(push_lz b ds 0).2]; exact Nat.le_refl _
  | fail e => intro b; exact Nat.le_refl _
  | ite g x y ihx ihy => intro b; simp only [Act.exec]; split; exact ihx b; exact ihy b
  | block m a ih => intro b; simp only [Act.exec]; exact ih b

/-- a `lz`-blind instruction that did not add a leading zero does the same on any number of zeros -/
theorem exec_lz (a : Act) (h : okAct a = true) : ∀ (b : DS) (k : Nat), (a.exec b).2.1.lz = b.lz →
    a.exec (setLz k b) = ((a.exec b).1, setLz k (a.exec b).2.1, (a.exec b).2.2) := by
  induction a with
  | put ds => intro b k hl; simp only [Act.exec] at *; rw [put_lz b ds k hl]
  | fput ds => intro b k _; simp only [Act.exec]; rw [(fput_lz b ds k).1]
  | shift p => intro b k _; simp only [Act.exec]; rw [(shift_lz b p k).1]
  | putAt d p => intro b k _; simp only [Act.exec]; rw [(putAt_lz b d p k).1]
  | push ds => intro b k _; simp only [Act.exec]; rw [(push_lz b ds k).1]
  | fail e => intro b k _; rfl
  | ite g x y ihx ihy =>
    intro b k hl
    simp only [okAct, Bool.and_eq_true] at h
    simp only [Act.exec] at *
    rw [gLz_eval g b k h.1.1]
    by_cases hg : g.eval b = true
    · simp only [if_pos hg] at hl ⊢; exact ihx h.1.2 b k hl
    · simp only [if_neg hg] at hl ⊢; exact ihy h.2 b k hl
  | block m a ih =>
    intro b k hl
    simp only [okAct] at h
    simp only [Act.exec] at *
    rw [ih h b k hl]

/-! ### word level -/

theorem lookup_mem {α : Type} (key : Word) (a : α) : ∀ l : List (Word × α), l.lookup key = some a → (key, a) ∈ l := by
  intro l
  induction l with
  | nil => intro h; exact absurd h (by simp [List.lookup])
  | cons p l ih =>
    intro h
    obtain ⟨k', a'⟩ := p
    rw [List.lookup] at h
    cases hk : (key == k') with
    | true =>
      rw [hk] at h
      have e1 : key = k' := by simpa using hk
      have e2 : a' = a := by simpa using h
      rw [e1, e2]; exact List.mem_cons_self
    | false =>
      rw [hk] at h
      exact List.mem_cons_of_mem _ (ih h)

theorem vocab_all_ok : En.vocab.all (fun p => okAct p.2 || p.1 == w!"and") = true := by decide

theorem vocab_ok (key : Word) (a : Act) (h : En.vocab.lookup key = some a) : okAct a = true ∨ key = w!"and" := by
  have hm := lookup_mem key a _ h
  have := List.all_eq_true.mp vocab_all_ok _ hm
  simp only [Bool.or_eq_true, beq_iff_eq] at this
  exact this

/-- the post-processing of `apply` for a word without hyphen (ordinal marker, freeze) -/
def post (w : Word) (t : Res × DS × Nat) : Res × DS :=
  if t.1.isNone && (endsWith (En.lemmatize w) w!"th" || w == w!"first" || w == w!"second" ||
      En.lemmatize w == w!"third") then
    (t.1, { t.2.1 with marker := En.morph w, frozen := true })
  else (t.1, t.2.1)

theorem applyFuel_nohyphen (f : Nat) (w : Word) (b : DS) (h : w.contains '-' = false) :
    En.applyFuel (f + 1) w b = post w (((En.vocab.lookup (En.lemmatize w)).getD (.fail .nan)).exec b) := by
  rw [En.applyFuel, if_neg (by rw [h]; exact Bool.false_ne_true)]
  rfl

theorem post_fst (w : Word) (t : Res × DS × Nat) : (post w t).1 = t.1 := by
  unfold post; split <;> rfl

theorem post_lz (w : Word) (t : Res × DS × Nat) : (post w t).2.lz = t.2.1.lz := by
  unfold post; split <;> rfl

theorem post_setLz (w : Word) (r : Res) (b : DS) (n k : Nat) :
    post w (r, setLz k b, n) = ((post w (r, b, n)).1, setLz k (post w (r, b, n)).2) := by
  unfold post; split <;> rfl

theorem mergeGroup_lz_mono (b ds : DS) (mk : Marker) : b.lz ≤ (mergeGroup b ds false mk).2.lz := by
  unfold mergeGroup
  split
  · exact Nat.le_refl _
  · have hm := put_lz_mono b ds.rbuf.reverse
    rcases hp : b.put ds.rbuf.reverse with ⟨r, b1⟩
    rw [hp] at hm
    cases r with
    | some e => exact hm
    | none =>
      dsimp only
      cases mk.isOrdinal <;> exact hm

theorem mergeGroup_lz (b ds : DS) (mk : Marker) (k : Nat) (h : (mergeGroup b ds false mk).2.lz = b.lz) :
    mergeGroup (setLz k b) ds false mk = ((mergeGroup b ds false mk).1, setLz k (mergeGroup b ds false mk).2) := by
  unfold mergeGroup at *
  have e : (setLz k b).rangeFree 3 5 = b.rangeFree 3 5 := rfl
  rw [e]
  by_cases hc : (decide (ds.len > 3) && decide (ds.len ≤ 6) && !b.rangeFree 3 5) = true
  · simp only [if_pos hc]
  · simp only [if_neg hc] at h ⊢
    rcases hp : b.put ds.rbuf.reverse with ⟨r, b1⟩
    rw [hp] at h
    have hl : (b.put ds.rbuf.reverse).2.lz = b.lz := by
      rw [hp]
      cases r with
      | some e => exact h
      | none =>
        dsimp only at h
        cases hm : mk.isOrdinal <;> rw [hm] at h <;> exact h
    rw [put_lz b _ k hl, hp]
    cases r with
    | some e => rfl
    | none =>
      dsimp only
      cases hm : mk.isOrdinal <;> rfl

theorem applyFuel_lz_mono (f : Nat) (w : Word) (b : DS) : b.lz ≤ (En.applyFuel f w b).2.lz := by
  cases f with
  | zero => exact Nat.le_refl _
  | succ f =>
    by_cases hc : w.contains '-' = true
    · rw [En.applyFuel, if_pos hc]
      cases execGroup (En.applyFuel f) (splitOnChar '-' w) with
      | error e => exact Nat.le_refl _
      | ok ds => exact mergeGroup_lz_mono b ds _
    · rw [applyFuel_nohyphen f w b (by simpa using hc), post_lz]
      exact exec_lz_mono _ b

/-- **`lz`-independence of the English interpreter**: a word that is accepted (or `Incomplete`)
without adding a leading zero behaves the same whatever the number of leading zeros -/
theorem applyFuel_lz (f : Nat) (w : Word) (b : DS) (k : Nat) (hk : b.lz ≤ k)
    (hst : (En.applyFuel f w b).1 = none ∨ (En.applyFuel f w b).1 = some .incomplete)
    (hlz : (En.applyFuel f w b).2.lz = b.lz) :
    En.applyFuel f w (setLz k b) = ((En.applyFuel f w b).1, setLz k (En.applyFuel f w b).2) := by
  cases f with
  | zero => rcases hst with h | h <;> exact absurd h (by simp [En.applyFuel])
  | succ f =>
    by_cases hc : w.contains '-' = true
    · rw [En.applyFuel, if_pos hc] at hlz ⊢
      rw [En.applyFuel, if_pos hc]
      cases hx : execGroup (En.applyFuel f) (splitOnChar '-' w) with
      | error e => rfl
      | ok ds =>
        rw [hx] at hlz
        exact mergeGroup_lz b ds _ k hlz
    · have hc' : w.contains '-' = false := by simpa using hc
      rw [applyFuel_nohyphen f w b hc'] at hst hlz ⊢
      rw [applyFuel_nohyphen f w _ hc']
      rw [post_fst] at hst
      rw [post_lz] at hlz
      cases hlk : En.vocab.lookup (En.lemmatize w) with
      | none =>
        rw [hlk] at hst
        rcases hst with h | h <;> exact absurd h (by simp [Act.exec])
      | some a =>
        rw [hlk] at hst hlz
        simp only [Option.getD_some] at hst hlz ⊢
        have e : a.exec (setLz k b) = ((a.exec b).1, setLz k (a.exec b).2.1, (a.exec b).2.2) := by
          rcases vocab_ok _ a hlk with hok | hand
          · exact exec_lz a hok b k hlz
          · rw [hand] at hlk
            have ea : a = .when (.lenGe 2) (.fail .incomplete) := by
              have : En.vocab.lookup w!"and" = some (.when (.lenGe 2) (.fail .incomplete)) := rfl
              rw [this] at hlk
              exact (Option.some.inj hlk).symm
            subst ea
            simp only [Act.when, Act.exec] at hst ⊢
            by_cases hg : (Guard.lenGe 2).eval b = true
            · have hg' : (Guard.lenGe 2).eval (setLz k b) = true := by
                simp only [Guard.eval, DS.len, setLz, ge_iff_le, decide_eq_true_eq] at hg ⊢
                omega
              simp only [if_pos hg, if_pos hg']
            · simp only [if_neg hg] at hst
              rcases hst with h | h <;> exact absurd h (by simp)
        rw [e, post_setLz]

/-! ### run level -/

theorem run_lz_mono : ∀ (ws : List Word) (b : DS) (inc : Bool) (r : DS),
    execGroupFrom En.apply ws b inc = .ok r → b.lz ≤ r.lz := by
  intro ws
  induction ws with
  | nil =>
    intro b inc r h
    rw [execGroupFrom] at h
    cases inc with
    | true => exact absurd h (by simp)
    | false =>
      have : b = r := by simpa using h
      rw [this]; exact Nat.le_refl _
  | cons w ws ih =>
    intro b inc r h
    rw [execGroupFrom] at h
    have hm : b.lz ≤ (En.apply w b).2.lz := applyFuel_lz_mono 2 w b
    rcases hx : En.apply w b with ⟨st, b1⟩
    rw [hx] at h hm
    cases st with
    | none => exact Nat.le_trans hm (ih b1 false r h)
    | some e =>
      cases e with
      | incomplete => exact Nat.le_trans hm (ih b1 true r h)
      | overlap => exact absurd h (by simp)
      | nan => exact absurd h (by simp)
      | frozen => exact absurd h (by simp)

/-- a run that added no leading zero is reproduced verbatim on `k` leading zeros -/
theorem run_lz_append (k : Nat) (rest : List Word) : ∀ (ws : List Word) (b : DS) (inc : Bool) (r : DS), b.lz ≤ k →
    execGroupFrom En.apply ws b inc = .ok r → r.lz = b.lz →
    execGroupFrom En.apply (ws ++ rest) (setLz k b) inc = execGroupFrom En.apply rest (setLz k r) false := by
  intro ws
  induction ws with
  | nil =>
    intro b inc r _ h _
    rw [execGroupFrom] at h
    cases inc with
    | true => exact absurd h (by simp)
    | false =>
      have : b = r := by simpa using h
      rw [this]; rfl
  | cons w ws ih =>
    intro b inc r hk h hl
    rw [execGroupFrom] at h
    rw [List.cons_append, execGroupFrom]
    have hm : b.lz ≤ (En.apply w b).2.lz := applyFuel_lz_mono 2 w b
    have ht := applyFuel_lz 2 w b k hk
    rcases hx : En.apply w b with ⟨st, b1⟩
    have hx' : En.applyFuel 2 w b = (st, b1) := hx
    rw [hx] at h hm
    rw [hx'] at ht
    dsimp only at ht hm
    cases st with
    | none =>
      have hm2 := run_lz_mono ws b1 false r h
      have hb1 : b1.lz = b.lz := by omega
      have e : En.apply w (setLz k b) = (none, setLz k b1) := ht (Or.inl rfl) hb1
      rw [e]
      exact ih b1 false r (by omega) h (by omega)
    | some e =>
      cases e with
      | incomplete =>
        have hm2 := run_lz_mono ws b1 true r h
        have hb1 : b1.lz = b.lz := by omega
        have e : En.apply w (setLz k b) = (some .incomplete, setLz k b1) := ht (Or.inr rfl) hb1
        rw [e]
        exact ih b1 true r (by omega) h (by omega)
      | overlap => exact absurd h (by simp)
      | nan => exact absurd h (by simp)
      | frozen => exact absurd h (by simp)

theorem run_lz (k : Nat) (ws : List Word) (b : DS) (inc : Bool) (r : DS) (hk : b.lz ≤ k)
    (h : execGroupFrom En.apply ws b inc = .ok r) (hl : r.lz = b.lz) :
    execGroupFrom En.apply ws (setLz k b) inc = .ok (setLz k r) := by
  have := run_lz_append k [] ws b inc r hk h hl
  rw [List.append_nil] at this
  rw [this, execGroupFrom, if_neg Bool.false_ne_true]

/-! ### C16 -/

theorem zeros_run (rest : List Word) : ∀ (k j : Nat),
    execGroupFrom En.apply (List.replicate k En.zeroWord ++ rest) (setLz j DS.new) false =
      execGroupFrom En.apply rest (setLz (j + k) DS.new) false := by
  intro k
  induction k with
  | zero => intro j; rfl
  | succ k ih =>
    intro j
    have e : En.apply En.zeroWord (setLz j DS.new) = (none, setLz (j + 1) DS.new) := rfl
    rw [List.replicate_succ, List.cons_append, execGroupFrom, e]
    dsimp only
    rw [ih (j + 1)]
    have : j + 1 + k = j + (k + 1) := by omega
    rw [this]

/-- the run of a non-zero cardinal on the empty builder (from `cardinal_steps`) -/
theorem cardinal_run (v : Var) (n : Nat) (hn : n ≠ 0) (h : n < 10 ^ 12) :
    execGroupFrom En.apply (En.cardinal v n) DS.new false = .ok (mk (lsb n)) := by
  have hs := cardinal_steps v n hn h []
  rw [List.append_nil, lsb_zero, mk_nil] at hs
  rw [hs, execGroupFrom, if_neg Bool.false_ne_true]

theorem cardinal_run_lz (v : Var) (k n : Nat) (hn : n ≠ 0) (h : n < 10 ^ 12) :
    execGroupFrom En.apply (En.cardinal v n) (setLz k DS.new) false = .ok (setLz k (mk (lsb n))) :=
  run_lz k _ DS.new false _ (Nat.zero_le _) (cardinal_run v n hn h) rfl

theorem replicate_map {α β} (f : α → β) (k : Nat) (a : α) : (List.replicate k a).map f = List.replicate k (f a) := by
  induction k with
  | zero => rfl
  | succ k ih => rw [List.replicate_succ, List.map_cons, ih, List.replicate_succ]

/-- rendering of a number with `k` leading zeros -/
theorem format_lz (k n : Nat) (hn : n ≠ 0) :
    (setLz k (mk (lsb n))).isEmpty = false ∧
    En.lang.formatW (setLz k (mk (lsb n))) =
      .ok (List.replicate k '0' ++ decChars n, .dec (List.replicate k 0 ++ decDigits n) []) := by
  have hne := lsb_ne_nil hn
  have hrender : (setLz k (mk (lsb n))).render = List.replicate k 0 ++ decDigits n := by
    show List.replicate k 0 ++ (lsb n).reverse = _
    rw [lsb_rev_dec n hn]
  constructor
  · show ((lsb n).isEmpty && k == 0) = false
    cases hl : lsb n with
    | nil => exact absurd hl hne
    | cons a t => rfl
  · have hrne : (setLz k (mk (lsb n))).render.isEmpty = false := by
      rw [hrender, ← lsb_rev_dec n hn]
      cases hl : lsb n with
      | nil => exact absurd hl hne
      | cons a t => simp
    unfold Lang.formatW
    rw [hrne, if_neg Bool.false_ne_true]
    show Except.ok (renderChars (setLz k (mk (lsb n))), Value.dec (setLz k (mk (lsb n))).render []) = _
    unfold renderChars decChars
    rw [hrender, List.map_append, replicate_map]
    rfl

/-- **C16 for English, every number of leading zeros** (`n < 10^12`) -/
theorem C16_validate_en' (v : Spec.Var) (k n : Nat) (hn : 0 < n) (h : n < 10 ^ 12) :
    text2digitsWords En.lang (List.replicate k Spec.En.zeroWord ++ Spec.En.cardinal v n) =
      .ok (List.replicate k '0' ++ decChars n) := by
  have hn' : n ≠ 0 := by omega
  have hex : execGroup En.lang.apply (List.replicate k Spec.En.zeroWord ++ Spec.En.cardinal v n) =
      .ok (setLz k (mk (lsb n))) := by
    show execGroupFrom En.apply _ (setLz 0 DS.new) false = _
    rw [zeros_run, Nat.zero_add, cardinal_run_lz v k n hn' h]
  unfold text2digitsWords
  rw [hex]
  dsimp only
  rw [(format_lz k n hn').1, if_neg Bool.false_ne_true, (format_lz k n hn').2]

theorem C16_validate_en (v : Spec.Var) (k n : Nat) (hn : 0 < n) (h : n < 10 ^ 9) :
    text2digitsWords En.lang (List.replicate k Spec.En.zeroWord ++ Spec.En.cardinal v n) =
      .ok (List.replicate k '0' ++ decChars n) :=
  C16_validate_en' v k n hn (Nat.lt_trans h (by decide))

example : text2digitsWords En.lang (List.replicate 3 Spec.En.zeroWord ++ Spec.En.cardinal (fun _ => 1) 100045) =
    .ok (List.replicate 3 '0' ++ decChars 100045) := C16_validate_en _ 3 _ (by decide) (by decide)

/-- `k ≥ 1` zeros alone validate to `k` digits `0` -/
theorem C16_zeros_only_en (k : Nat) (hk : 0 < k) :
    text2digitsWords En.lang (List.replicate k Spec.En.zeroWord) = .ok (List.replicate k '0') := by
  have hex : execGroup En.lang.apply (List.replicate k Spec.En.zeroWord) = .ok (setLz k DS.new) := by
    have := zeros_run [] k 0
    rw [List.append_nil, Nat.zero_add] at this
    show execGroupFrom En.apply _ (setLz 0 DS.new) false = _
    rw [this, execGroupFrom, if_neg Bool.false_ne_true]
  unfold text2digitsWords
  rw [hex]
  dsimp only
  have he : (setLz k DS.new).isEmpty = false := by
    show (([] : List Nat).isEmpty && k == 0) = false
    have : (k == 0) = false := by simp; omega
    rw [this]; rfl
  rw [he, if_neg Bool.false_ne_true]
  have hr : (setLz k DS.new).render = List.replicate k 0 := by
    show List.replicate k 0 ++ [] = _
    rw [List.append_nil]
  unfold Lang.formatW
  have hrne : (setLz k DS.new).render.isEmpty = false := by
    rw [hr]; cases k with
    | zero => omega
    | succ k => rfl
  rw [hrne, if_neg Bool.false_ne_true]
  show ValOut.ok (renderChars (setLz k DS.new)) = _
  unfold renderChars
  rw [hr, replicate_map]
  rfl

theorem C16_lone_zero_en : text2digitsWords En.lang [Spec.En.zeroWord] = .ok ['0'] :=
  C16_zeros_only_en 1 (by decide)

/-- `zero` after a non-zero number is refused with `Overlap` and leaves the builder unchanged
(whatever the number of leading zeros said before) -/
theorem C16_zero_after_en (v : Spec.Var) (k n : Nat) (hn : 0 < n) (h : n < 10 ^ 9) :
    ∃ b, execGroup En.lang.apply (List.replicate k Spec.En.zeroWord ++ Spec.En.cardinal v n) = .ok b ∧
      En.lang.apply Spec.En.zeroWord b = (some .overlap, b) ∧
      text2digitsWords En.lang (List.replicate k Spec.En.zeroWord ++ Spec.En.cardinal v n ++ [Spec.En.zeroWord]) =
        .err .overlap := by
  have hn' : n ≠ 0 := by omega
  have h12 : n < 10 ^ 12 := Nat.lt_trans h (by decide)
  have hz : En.apply Spec.En.zeroWord (setLz k (mk (lsb n))) = (some .overlap, setLz k (mk (lsb n))) := by
    cases hl : lsb n with
    | nil => exact absurd hl (lsb_ne_nil hn')
    | cons a t => rfl
  refine ⟨setLz k (mk (lsb n)), ?_, hz, ?_⟩
  · show execGroupFrom En.apply _ (setLz 0 DS.new) false = _
    rw [zeros_run, Nat.zero_add, cardinal_run_lz v k n hn' h12]
  · unfold text2digitsWords
    have : execGroup En.lang.apply (List.replicate k Spec.En.zeroWord ++ Spec.En.cardinal v n ++ [Spec.En.zeroWord]) =
        .error .overlap := by
      show execGroupFrom En.apply _ (setLz 0 DS.new) false = _
      rw [List.append_assoc, zeros_run, Nat.zero_add]
      rw [run_lz_append k [Spec.En.zeroWord] _ DS.new false _ (Nat.zero_le _) (cardinal_run v n hn' h12) rfl,
        execGroupFrom, hz]
    rw [this]

/-! ## Part 2 — ordinals (C04) -/

/-- what the ordinal post-processing does to the builder -/
def mark (m : Mk) (b : DS) : DS := { b with marker := .ordinal m, frozen := true }

/-- `w'` is an ordinal form (without hyphen) bound to instruction `a`, with marker `m` -/
def OrdW (w' : Word) (a : Act) (m : Mk) : Prop :=
  w'.contains '-' = false ∧ En.vocab.lookup (En.lemmatize w') = some a ∧
    (endsWith (En.lemmatize w') w!"th" || w' == w!"first" || w' == w!"second" ||
      En.lemmatize w' == w!"third") = true ∧
    En.morph w' = .ordinal m

theorem ord_of_plain (f : Nat) (w w' : Word) (a : Act) (m : Mk) (b b' : DS) (hp : Plain w a) (ho : OrdW w' a m)
    (h : En.applyFuel (f + 1) w b = (none, b')) : En.applyFuel (f + 1) w' b = (none, mark m b') := by
  rw [applyFuel_plain f w a b hp] at h
  have h1 : (a.exec b).1 = none := congrArg Prod.fst h
  have h2 : (a.exec b).2.1 = b' := congrArg Prod.snd h
  rw [applyFuel_nohyphen f w' b ho.1, ho.2.1]
  simp only [Option.getD_some]
  unfold post
  rw [ho.2.2.1, ho.2.2.2, h1, h2]
  rfl

/-- replacing the word `w` by `w'` turns an accepted step into the same step, marked and frozen -/
def OrdPair (ap : Word → DS → Res × DS) (w w' : Word) (m : Mk) : Prop :=
  ∀ b b', ap w b = (none, b') → ap w' b = (none, mark m b')

theorem OrdPair.of_plain (f : Nat) {w w' : Word} {a : Act} {m : Mk} (hp : Plain w a) (ho : OrdW w' a m) :
    OrdPair (En.applyFuel (f + 1)) w w' m := fun b b' h => ord_of_plain f w w' a m b b' hp ho h

theorem swap_last (ap : Word → DS → Res × DS) (w w' : Word) (m : Mk) (hp : OrdPair ap w w' m) :
    ∀ (pre : List Word) (b : DS) (inc : Bool) (r : DS), execGroupFrom ap (pre ++ [w]) b inc = .ok r →
      execGroupFrom ap (pre ++ [w']) b inc = .ok (mark m r) := by
  intro pre
  induction pre with
  | nil =>
    intro b inc r h
    rw [List.nil_append, execGroupFrom] at h ⊢
    rcases hx : ap w b with ⟨st, b1⟩
    rw [hx] at h
    cases st with
    | none =>
      dsimp only at h
      rw [execGroupFrom, if_neg Bool.false_ne_true] at h
      have : b1 = r := by simpa using h
      subst this
      rw [hp b b1 hx]
      dsimp only
      rw [execGroupFrom, if_neg Bool.false_ne_true]
    | some e =>
      cases e with
      | incomplete =>
        dsimp only at h
        rw [execGroupFrom, if_pos rfl] at h
        exact absurd h (by simp)
      | overlap => exact absurd h (by simp)
      | nan => exact absurd h (by simp)
      | frozen => exact absurd h (by simp)
  | cons x pre ih =>
    intro b inc r h
    rw [List.cons_append, execGroupFrom] at h ⊢
    rcases hx : ap x b with ⟨st, b1⟩
    rw [hx] at h
    cases st with
    | none => exact ih b1 false r h
    | some e =>
      cases e with
      | incomplete => exact ih b1 true r h
      | overlap => exact absurd h (by simp)
      | nan => exact absurd h (by simp)
      | frozen => exact absurd h (by simp)

theorem mergeGroup_mark (b ds b' : DS) (mk0 : Marker) (m : Mk) (h : mergeGroup b ds false mk0 = (none, b')) :
    mergeGroup b (mark m ds) false (.ordinal m) = (none, mark m b') := by
  unfold mergeGroup at *
  have e1 : (mark m ds).len = ds.len := rfl
  have e2 : (mark m ds).rbuf = ds.rbuf := rfl
  rw [e1, e2]
  by_cases hc : (decide (ds.len > 3) && decide (ds.len ≤ 6) && !b.rangeFree 3 5) = true
  · rw [if_pos hc] at h
    exact absurd (congrArg Prod.fst h) (by simp)
  · rw [if_neg hc] at h ⊢
    rcases hp : b.put ds.rbuf.reverse with ⟨r, b1⟩
    rw [hp] at h
    cases r with
    | some e => exact absurd (congrArg Prod.fst h) (by simp)
    | none =>
      dsimp only at h ⊢
      have h2 := congrArg Prod.snd h
      dsimp only at h2
      rw [← h2]
      cases mk0.isOrdinal <;> rfl

/-- hyphenated `tens-unit`: making the unit ordinal marks the whole compound -/
theorem OrdPair.compound (T U U' : Word) (m : Mk) (hT : T.contains '-' = false) (hU : U.contains '-' = false)
    (hU' : U'.contains '-' = false) (hp : OrdPair (En.applyFuel 1) U U' m) :
    OrdPair En.apply (T ++ ['-'] ++ U) (T ++ ['-'] ++ U') m := by
  intro b b' h
  rw [En.apply, En.applyFuel, if_pos (contains_hyphen _ _), splitOnChar_hyphen _ _ hT hU] at h
  rw [En.apply, En.applyFuel, if_pos (contains_hyphen _ _), splitOnChar_hyphen _ _ hT hU']
  cases hx : execGroup (En.applyFuel 1) [T, U] with
  | error e =>
    rw [hx] at h
    exact absurd (congrArg Prod.fst h) (by simp)
  | ok ds =>
    rw [hx] at h
    have hx' : execGroup (En.applyFuel 1) [T, U'] = .ok (mark m ds) :=
      swap_last (En.applyFuel 1) U U' m hp [T] DS.new false ds hx
    rw [hx']
    exact mergeGroup_mark b ds b' _ m h

/-! ### the ordinal vocabulary -/

def pl (plural : Bool) (w : Word) : Word := if plural then w ++ ['s'] else w

/-- marker of the ordinal whose last word spells `lv` (`0` for `hundred` and the scale words) -/
def mkOf (lv : Nat) (plural : Bool) : Mk :=
  if lv == 1 then .st else if lv == 2 then .nd else if lv == 3 then (if plural then .rds else .rd)
  else if plural then .ths else .th

theorem ord_unit (d : Nat) (h0 : d ≠ 0) (h9 : d < 10) (plural : Bool) (hp : plural = true → d ≠ 1 ∧ d ≠ 2) :
    OrdW (pl plural (En.ordUnitWords.getD d [])) (T2N.En.unit d) (mkOf d plural) := by
  have : d = 1 ∨ d = 2 ∨ d = 3 ∨ d = 4 ∨ d = 5 ∨ d = 6 ∨ d = 7 ∨ d = 8 ∨ d = 9 := by omega
  rcases this with rfl | rfl | rfl | rfl | rfl | rfl | rfl | rfl | rfl <;> cases plural <;>
    first
      | exact ⟨by decide, by rfl, by decide, by decide⟩
      | exact absurd rfl (hp rfl).1
      | exact absurd rfl (hp rfl).2

theorem ord_teen (b : Nat) (h9 : b < 10) (plural : Bool) :
    OrdW (pl plural (En.ordUnitWords.getD (10 + b) [])) (.put [1, b]) (mkOf (10 + b) plural) := by
  have : b = 0 ∨ b = 1 ∨ b = 2 ∨ b = 3 ∨ b = 4 ∨ b = 5 ∨ b = 6 ∨ b = 7 ∨ b = 8 ∨ b = 9 := by omega
  rcases this with rfl | rfl | rfl | rfl | rfl | rfl | rfl | rfl | rfl | rfl <;> cases plural <;>
    exact ⟨by decide, by rfl, by decide, by decide⟩

theorem ord_tens (v : Var) (t : Nat) (h2 : 2 ≤ t) (h9 : t < 10) (plural : Bool) :
    OrdW (pl plural (if (10 * t == 40 && flag v (cp 0 2)) = true then w!"fourtieth" else En.ordTensWords.getD t []))
      (.put [t, 0]) (mkOf (10 * t) plural) := by
  have : t = 2 ∨ t = 3 ∨ t = 4 ∨ t = 5 ∨ t = 6 ∨ t = 7 ∨ t = 8 ∨ t = 9 := by omega
  rcases this with rfl | rfl | rfl | rfl | rfl | rfl | rfl | rfl <;> cases plural <;>
    cases flag v (cp 0 2) <;> exact ⟨by decide, by rfl, by decide, by decide⟩

theorem ord_hundred (plural : Bool) : OrdW (pl plural (w!"hundred" ++ w!"th")) T2N.En.hundred (mkOf 0 plural) := by
  cases plural <;> exact ⟨by decide, by rfl, by decide, by decide⟩

theorem ord_thousand (plural : Bool) :
    OrdW (pl plural (w!"thousand" ++ w!"th")) (.when (.rangeFree 3 5) (.shift 3)) (mkOf 0 plural) := by
  cases plural <;> exact ⟨by decide, by rfl, by decide, by decide⟩

theorem ord_million (plural : Bool) :
    OrdW (pl plural (w!"million" ++ w!"th")) (.when (.rangeFree 6 8) (.shift 6)) (mkOf 0 plural) := by
  cases plural <;> exact ⟨by decide, by rfl, by decide, by decide⟩

theorem ord_billion (plural : Bool) : OrdW (pl plural (w!"billion" ++ w!"th")) (.shift 9) (mkOf 0 plural) := by
  cases plural <;> exact ⟨by decide, by rfl, by decide, by decide⟩

/-! ### the last word of a cardinal spelling -/

/-- the variant function used by `Spec.En.ordinal`: scale words singular -/
def sing (v : Var) : Var := fun i => if i % 16 == 3 then 0 else v i

theorem scaleWord_sing (v : Var) (g : Nat) :
    En.scaleWord (sing v) g = (match g with | 1 => w!"thousand" | 2 => w!"million" | _ => w!"billion") := by
  unfold En.scaleWord
  have : flag (sing v) (cp g 3) = false := by
    unfold flag sing cp
    have : (16 * g + 3) % 16 = 3 := by omega
    simp [this]
  rw [this]
  rfl

/-- last word of `below100 v g r` -/
def lastB (v : Var) (g r : Nat) : Word :=
  if r < 20 then En.unitWord r
  else if r % 10 = 0 then En.tensWord v g (r / 10)
  else if flag v (cp g 0) = true then En.unitWord (r % 10)
  else En.tensWord v g (r / 10) ++ ['-'] ++ En.unitWord (r % 10)

theorem below100_last (v : Var) (g r : Nat) : (En.below100 v g r).getLast? = some (lastB v g r) := by
  unfold En.below100 lastB
  by_cases h20 : r < 20
  · rw [if_pos h20, if_pos h20]; rfl
  · rw [if_neg h20, if_neg h20]
    dsimp only
    by_cases hu : r % 10 = 0
    · rw [if_pos (by simp [hu]), if_pos hu]; rfl
    · rw [if_neg (by simp [hu]), if_neg hu]
      by_cases hf : flag v (cp g 0) = true
      · rw [if_pos hf, if_pos hf]; rfl
      · rw [if_neg hf, if_neg hf]; rfl

theorem group_last (v : Var) (g n : Nat) (first : Bool) (h0 : n ≠ 0) (_h1 : n < 1000) :
    (En.group v g n first).getLast? =
      some (if n % 100 = 0 then w!"hundred" else lastB v g (n % 100)) := by
  unfold En.group
  dsimp only
  by_cases hr : n % 100 = 0
  · have hl : (n / 100 != 0 && n % 100 != 0 && flag v (cp g 1)) = false := by simp [hr]
    have hr' : (n % 100 == 0) = true := by simp [hr]
    have hh : (n / 100 == 0) = false := by
      have : n / 100 ≠ 0 := by omega
      simp [this]
    rw [hl, if_neg Bool.false_ne_true, if_pos hr', List.append_nil, List.append_nil, if_pos hr, hh,
      if_neg Bool.false_ne_true]
    split <;> rfl
  · have hr' : ¬ ((n % 100 == 0) = true) := by simp [hr]
    rw [if_neg hr', if_neg hr, List.getLast?_append, below100_last, Option.some_or]

theorem scaled_last (v : Var) (g n : Nat) (first : Bool) (h0 : n ≠ 0) :
    (En.scaled v g n first).getLast? = some (En.scaleWord v g) := by
  unfold En.scaled
  have : (n == 0) = false := by simp [h0]
  rw [this, if_neg Bool.false_ne_true]
  split
  · rfl
  · simp

theorem scaled_zero (v : Var) (g : Nat) (first : Bool) : En.scaled v g 0 first = [] := rfl

/-- last word of `cardinal v n` -/
def lastW (v : Var) (n : Nat) : Word :=
  if n % 1000 = 0 then
    (if n / 1000 % 1000 ≠ 0 then En.scaleWord v 1
     else if n / 1000000 % 1000 ≠ 0 then En.scaleWord v 2 else En.scaleWord v 3)
  else if n % 1000 % 100 = 0 then w!"hundred" else lastB v 0 (n % 1000 % 100)

theorem cardinal_last (v : Var) (n : Nat) (hn : n ≠ 0) (h12 : n < 10 ^ 12) : (En.cardinal v n).getLast? = some (lastW v n) := by
  unfold En.cardinal lastW
  have hn' : (n == 0) = false := by simp [hn]
  rw [hn', if_neg Bool.false_ne_true]
  dsimp only
  by_cases h0 : n % 1000 = 0
  · have hl : ∀ (c d : Bool), (c && n % 1000 != 0 && d) = false := by intro c d; simp [h0]
    have h0' : (n % 1000 == 0) = true := by simp [h0]
    rw [if_pos h0', List.append_nil, if_pos h0]
    generalize hgen : (En.scaled v 3 (n / 1000000000 % 1000) true ++
      En.scaled v 2 (n / 1000000 % 1000) (n / 1000000000 % 1000 == 0) ++
      En.scaled v 1 (n / 1000 % 1000) (n / 1000000000 % 1000 == 0 && n / 1000000 % 1000 == 0)) = hi
    have hlink : (if (!hi.isEmpty && n % 1000 != 0 && decide (n % 1000 < 100) && flag v (cp 0 6)) = true
        then [w!"and"] else ([] : List Word)) = [] := by
      rw [if_neg]; simp [h0]
    rw [hlink, List.append_nil, ← hgen]
    by_cases h1 : n / 1000 % 1000 = 0
    · rw [if_neg (by simpa using h1), h1, scaled_zero, List.append_nil]
      by_cases h2 : n / 1000000 % 1000 = 0
      · rw [if_neg (by simpa using h2), h2, scaled_zero, List.append_nil]
        have h3 : n / 1000000000 % 1000 ≠ 0 := by omega
        exact scaled_last v 3 _ _ h3
      · rw [if_pos h2, List.getLast?_append, scaled_last v 2 _ _ h2, Option.some_or]
    · rw [if_pos h1, List.getLast?_append, scaled_last v 1 _ _ h1, Option.some_or]
  · have h0' : ¬ ((n % 1000 == 0) = true) := by simp [h0]
    rw [if_neg h0', if_neg h0, List.getLast?_append, group_last v 0 _ _ h0 (by omega), Option.some_or]

/-! ### the ordinal spelling -/

/-- the number spelled by the last word, as computed by `Spec.En.ordinal` -/
def lastVal (n : Nat) : Nat :=
  let g0 := n % 1000
  if g0 % 100 != 0 then (if g0 % 100 < 20 then g0 % 100 else if g0 % 10 != 0 then g0 % 10 else g0 % 100)
  else 0

/-- the new last word, as computed by `Spec.En.ordinal` -/
def newLastOf (v : Var) (lv : Nat) (last : Word) : Word :=
  if lv == 0 then last ++ w!"th"
  else if last.contains '-' then
    let parts := last.splitOn '-' |>.reverse
    match parts with
    | u :: ts => (ts.reverse.foldr (fun t acc => t ++ ['-'] ++ acc) []) ++ En.ordinalOfLast v lv u
    | [] => last
  else En.ordinalOfLast v lv last

theorem ordinal_eq (v : Var) (n : Nat) (plural : Bool) (pre : List Word) (last : Word)
    (h : En.cardinal (sing v) n = pre ++ [last]) :
    En.ordinal v n plural = pre ++ [pl plural (newLastOf v (lastVal n) last)] := by
  have h' : En.cardinal (fun i => if i % 16 == 3 then 0 else v i) n = pre ++ [last] := h
  unfold En.ordinal
  dsimp only
  rw [h', List.reverse_append, List.reverse_singleton, List.singleton_append]
  dsimp only
  rw [List.reverse_cons, List.reverse_reverse]
  rfl

/-- value of the last word of `below100 v g r` -/
def lvB (r : Nat) : Nat := if r < 20 then r else if r % 10 = 0 then r else r % 10

theorem lastVal_eq (n : Nat) : lastVal n = if n % 1000 % 100 = 0 then 0 else lvB (n % 1000 % 100) := by
  unfold lastVal lvB
  dsimp only
  have e : n % 1000 % 100 % 10 = n % 1000 % 10 := by omega
  by_cases h : n % 1000 % 100 = 0
  · rw [if_pos h, if_neg (by simp [h])]
  · rw [if_neg h, if_pos (by simp; omega), e]
    by_cases h20 : n % 1000 % 100 < 20
    · rw [if_pos h20, if_pos h20]
    · rw [if_neg h20, if_neg h20]
      by_cases hu : n % 1000 % 10 = 0
      · rw [if_neg (by simp [hu]), if_pos hu]
      · rw [if_pos (by simp; omega), if_neg hu]

theorem getD_ordUnit (r : Nat) (w : Word) (h0 : r ≠ 0) (h : r < 20) :
    En.ordUnitWords.getD r w = En.ordUnitWords.getD r [] := by
  have : r = 1 ∨ r = 2 ∨ r = 3 ∨ r = 4 ∨ r = 5 ∨ r = 6 ∨ r = 7 ∨ r = 8 ∨ r = 9 ∨ r = 10 ∨ r = 11 ∨ r = 12 ∨
      r = 13 ∨ r = 14 ∨ r = 15 ∨ r = 16 ∨ r = 17 ∨ r = 18 ∨ r = 19 := by omega
  rcases this with rfl | rfl | rfl | rfl | rfl | rfl | rfl | rfl | rfl | rfl | rfl | rfl | rfl | rfl | rfl | rfl |
    rfl | rfl | rfl <;> rfl

theorem getD_ordTens (t : Nat) (w : Word) (h2 : 2 ≤ t) (h : t < 10) :
    En.ordTensWords.getD t w = En.ordTensWords.getD t [] := by
  have : t = 2 ∨ t = 3 ∨ t = 4 ∨ t = 5 ∨ t = 6 ∨ t = 7 ∨ t = 8 ∨ t = 9 := by omega
  rcases this with rfl | rfl | rfl | rfl | rfl | rfl | rfl | rfl <;> rfl

theorem plain_below20 (r : Nat) (h0 : r ≠ 0) (h : r < 20) :
    ∃ a, Plain (En.unitWord r) a ∧ ∀ plural, (plural = true → r ≠ 1 ∧ r ≠ 2) →
      OrdW (pl plural (En.ordUnitWords.getD r [])) a (mkOf r plural) := by
  by_cases h10 : r < 10
  · exact ⟨_, plain_unit r h0 h10, fun plural hp => ord_unit r h0 h10 plural hp⟩
  · obtain ⟨b, rfl⟩ : ∃ b, r = 10 + b := ⟨r - 10, by omega⟩
    exact ⟨_, plain_teen b (by omega), fun plural _ => ord_teen b (by omega) plural⟩

theorem newLast_nohyphen (v : Var) (lv : Nat) (last : Word) (h0 : lv ≠ 0) (hc : last.contains '-' = false) :
    newLastOf v lv last = En.ordinalOfLast v lv last := by
  unfold newLastOf
  rw [if_neg (by simp [h0]), hc, if_neg Bool.false_ne_true]

theorem newLast_compound (v : Var) (lv : Nat) (T U : Word) (h0 : lv ≠ 0) (hT : T.contains '-' = false)
    (hU : U.contains '-' = false) :
    newLastOf v lv (T ++ ['-'] ++ U) = T ++ ['-'] ++ En.ordinalOfLast v lv U := by
  unfold newLastOf
  rw [if_neg (by simp [h0]), contains_hyphen, if_pos rfl]
  have hT' : '-' ∉ T := by simpa using hT
  have hU' : '-' ∉ U := by simpa using hU
  have : (T ++ ['-'] ++ U).splitOn '-' = [T, U] := by
    rw [List.append_assoc, List.singleton_append, List.splitOn_append_cons_self_of_not_mem hT',
      List.splitOn_eq_singleton hU']
  dsimp only
  rw [this]
  simp

theorem pl_append (plural : Bool) (a b : Word) : pl plural (a ++ b) = a ++ pl plural b := by
  cases plural
  · rfl
  · simp [pl]

/-- the last word of a group below 100 and its ordinal form -/
theorem key_below (v : Var) (r : Nat) (plural : Bool) (h0 : r ≠ 0) (h1 : r < 100)
    (hp : plural = true → lvB r ≠ 1 ∧ lvB r ≠ 2) :
    OrdPair En.apply (lastB (sing v) 0 r) (pl plural (newLastOf v (lvB r) (lastB (sing v) 0 r)))
      (mkOf (lvB r) plural) := by
  unfold lastB lvB at *
  by_cases h20 : r < 20
  · rw [if_pos h20] at hp
    rw [if_pos h20, if_pos h20]
    obtain ⟨a, hpl, hord⟩ := plain_below20 r h0 h20
    rw [newLast_nohyphen v r _ h0 hpl.1, En.ordinalOfLast, if_pos h20, getD_ordUnit r _ h0 h20]
    exact OrdPair.of_plain 1 hpl (hord plural hp)
  · rw [if_neg h20] at hp
    rw [if_neg h20, if_neg h20]
    by_cases hu : r % 10 = 0
    · rw [if_pos hu, if_pos hu]
      obtain ⟨t, rfl⟩ : ∃ t, r = 10 * t := ⟨r / 10, by omega⟩
      have ht : 10 * t / 10 = t := by omega
      rw [ht]
      have hpl := plain_tens (sing v) 0 t (by omega) (by omega)
      rw [newLast_nohyphen v _ _ h0 hpl.1, En.ordinalOfLast, if_neg h20,
        if_pos (by simp; omega), ht, getD_ordTens t _ (by omega) (by omega)]
      exact OrdPair.of_plain 1 hpl (ord_tens v t (by omega) (by omega) plural)
    · rw [if_neg hu] at hp
      rw [if_neg hu, if_neg hu]
      have hu9 : r % 10 < 10 := by omega
      have hlt : r % 10 < 20 := by omega
      have hplU := plain_unit (r % 10) hu hu9
      have hordU := ord_unit (r % 10) hu hu9 plural hp
      by_cases hf : flag (sing v) (cp 0 0) = true
      · rw [if_pos hf]
        rw [newLast_nohyphen v _ _ hu hplU.1, En.ordinalOfLast, if_pos hlt, getD_ordUnit _ _ hu hlt]
        exact OrdPair.of_plain 1 hplU hordU
      · rw [if_neg hf]
        have hplT := plain_tens (sing v) 0 (r / 10) (by omega) (by omega)
        rw [newLast_compound v _ _ _ hu hplT.1 hplU.1, En.ordinalOfLast, if_pos hlt, getD_ordUnit _ _ hu hlt,
          pl_append]
        exact OrdPair.compound _ _ _ _ hplT.1 hplU.1 hordU.1 (OrdPair.of_plain 0 hplU hordU)

/-- **the last word of a cardinal and the last word of the ordinal** -/
theorem key_last (v : Var) (n : Nat) (plural : Bool)
    (hp : plural = true → lastVal n ≠ 1 ∧ lastVal n ≠ 2) :
    OrdPair En.apply (lastW (sing v) n) (pl plural (newLastOf v (lastVal n) (lastW (sing v) n)))
      (mkOf (lastVal n) plural) := by
  rw [lastVal_eq] at hp ⊢
  unfold lastW
  have nl0 : ∀ w, newLastOf v 0 w = w ++ w!"th" := fun w => rfl
  by_cases h0 : n % 1000 = 0
  · have hr : n % 1000 % 100 = 0 := by omega
    rw [if_pos h0, if_pos hr, nl0]
    by_cases h1 : n / 1000 % 1000 = 0
    · rw [if_neg (by simpa using h1)]
      by_cases h2 : n / 1000000 % 1000 = 0
      · rw [if_neg (by simpa using h2)]
        have hpl := plain_billion (sing v)
        rw [scaleWord_sing] at hpl ⊢
        exact OrdPair.of_plain 1 hpl (ord_billion plural)
      · rw [if_pos h2]
        have hpl := plain_million (sing v)
        rw [scaleWord_sing] at hpl ⊢
        exact OrdPair.of_plain 1 hpl (ord_million plural)
    · rw [if_pos h1]
      have hpl := plain_thousand (sing v)
      rw [scaleWord_sing] at hpl ⊢
      exact OrdPair.of_plain 1 hpl (ord_thousand plural)
  · rw [if_neg h0]
    by_cases hr : n % 1000 % 100 = 0
    · rw [if_pos hr, if_pos hr, nl0]
      exact OrdPair.of_plain 1 plain_hundred (ord_hundred plural)
    · rw [if_neg hr] at hp
      rw [if_neg hr, if_neg hr]
      exact key_below v _ plural hr (by omega) hp

/-! ### the marker -/

set_option maxRecDepth 100000 in
theorem marker_table : ∀ r, r < 100 → ∀ plural : Bool, (plural = true → En.pluralOk r = true) →
    ((mkOf (lastVal r) plural).chars = En.ordinalMarker r plural ∧
      (plural = true → lastVal r ≠ 1 ∧ lastVal r ≠ 2)) := by decide

theorem lastVal_mod (n : Nat) : lastVal n = lastVal (n % 100) := by
  unfold lastVal
  dsimp only
  have e1 : n % 100 % 1000 % 100 = n % 1000 % 100 := by omega
  have e2 : n % 100 % 1000 % 10 = n % 1000 % 10 := by omega
  rw [e1, e2]

theorem ordinalMarker_mod (n : Nat) (plural : Bool) : En.ordinalMarker n plural = En.ordinalMarker (n % 100) plural := by
  unfold En.ordinalMarker
  dsimp only
  have e1 : n % 100 % 100 = n % 100 := by omega
  have e2 : n % 100 % 10 = n % 10 := by omega
  rw [e1, e2]

theorem pluralOk_mod (n : Nat) : En.pluralOk n = En.pluralOk (n % 100) := by
  unfold En.pluralOk
  dsimp only
  have e1 : n % 100 % 100 = n % 100 := by omega
  have e2 : n % 100 % 10 = n % 10 := by omega
  rw [e1, e2]

theorem marker_eq (n : Nat) (plural : Bool) (hp : plural = true → En.pluralOk n = true) :
    (mkOf (lastVal n) plural).chars = En.ordinalMarker n plural ∧
      (plural = true → lastVal n ≠ 1 ∧ lastVal n ≠ 2) := by
  rw [lastVal_mod, ordinalMarker_mod]
  rw [pluralOk_mod] at hp
  exact marker_table (n % 100) (by omega) plural hp

/-- **C04 for English, unbounded** (`n < 10^12`; the specification spells ordinals up to `10^6`) -/
theorem C04_validate_en' (v : Spec.Var) (n : Nat) (hn : 0 < n) (h : n < 10 ^ 12) (plural : Bool)
    (hp : plural = true → Spec.En.pluralOk n = true) :
    text2digitsWords En.lang (Spec.En.ordinal v n plural) = .ok (decChars n ++ Spec.En.ordinalMarker n plural) := by
  have hn' : n ≠ 0 := by omega
  obtain ⟨hmk, hlv⟩ := marker_eq n plural hp
  obtain ⟨pre, hpre⟩ := List.getLast?_eq_some_iff.mp (cardinal_last (sing v) n hn' h)
  have run := cardinal_run (sing v) n hn' h
  rw [hpre] at run
  have hex : execGroup En.lang.apply (Spec.En.ordinal v n plural) =
      .ok (mark (mkOf (lastVal n) plural) (mk (lsb n))) := by
    rw [ordinal_eq v n plural pre _ hpre]
    exact swap_last En.apply _ _ _ (key_last v n plural hlv) pre DS.new false _ run
  have hne := lsb_ne_nil hn'
  have hemp : (mark (mkOf (lastVal n) plural) (mk (lsb n))).isEmpty = false := by
    show ((lsb n).isEmpty && (0 : Nat) == 0) = false
    cases hl : lsb n with
    | nil => exact absurd hl hne
    | cons a t => rfl
  have hrender : (mark (mkOf (lastVal n) plural) (mk (lsb n))).render = decDigits n := by
    show List.replicate 0 0 ++ (lsb n).reverse = _
    rw [lsb_rev_dec n hn']; rfl
  have hrne : (mark (mkOf (lastVal n) plural) (mk (lsb n))).render.isEmpty = false := by
    rw [hrender, ← lsb_rev_dec n hn']
    cases hl : lsb n with
    | nil => exact absurd hl hne
    | cons a t => simp
  unfold text2digitsWords
  rw [hex]
  dsimp only
  rw [hemp, if_neg Bool.false_ne_true]
  unfold Lang.formatW
  rw [hrne, if_neg Bool.false_ne_true]
  show ValOut.ok (renderChars (mark (mkOf (lastVal n) plural) (mk (lsb n))) ++ (mkOf (lastVal n) plural).chars) = _
  unfold renderChars decChars
  rw [hrender, hmk]

theorem C04_validate_en (v : Spec.Var) (n : Nat) (hn : 0 < n) (h : n ≤ 10 ^ 6) (plural : Bool)
    (hp : plural = true → Spec.En.pluralOk n = true) :
    text2digitsWords En.lang (Spec.En.ordinal v n plural) = .ok (decChars n ++ Spec.En.ordinalMarker n plural) :=
  C04_validate_en' v n hn (Nat.lt_of_le_of_lt h (by decide)) plural hp

/-- the hypotheses are satisfiable: a plural (`three hundred and twenty-thirds`) and a singular -/
example : text2digitsWords En.lang (Spec.En.ordinal (fun _ => 0) 323 true) = .ok (decChars 323 ++ w!"rds") :=
  C04_validate_en _ 323 (by decide) (by decide) true (fun _ => by decide)
example : text2digitsWords En.lang (Spec.En.ordinal (fun _ => 1) 1000000 false) = .ok (decChars 1000000 ++ w!"th") :=
  C04_validate_en _ 1000000 (by decide) (by decide) false (fun h => absurd h (by decide))

/-! ## Part 3 — the scanner on a phrase of words -/

/-- word token / space token of `wordTokens` -/
def wt (w : Word) : Tok := { text := w, lower := w }
def sp : Tok := { text := [' '], lower := [' '] }

/-- is the word token skipped by the scanner (`"-"` or blank)? -/
def skipW (w : Word) : Bool := w == ['-'] || w.all simpleCC.isWhitespace

/-- the scanner loop over the word tokens of a phrase (space tokens are skipped) -/
def pushWords (cfg : ScanCfg) : Scanner → Nat → List Word → Except Fault Scanner
  | s, _, [] => .ok s
  | s, i, w :: ws =>
    match s.push cfg i (wt w) with
    | .error f => .error f
    | .ok s' => pushWords cfg s' (i + 2) ws

theorem pushAll_wordTokens (l : Lang) (thr : Nat → Bool) : ∀ (ws : List Word) (s : Scanner) (i : Nat),
    Scanner.pushAll (scanCfg l thr) s (enumFrom i (wordTokens ws)) = pushWords (scanCfg l thr) s i ws := by
  intro ws
  induction ws with
  | nil => intro s i; rfl
  | cons w ws ih =>
    intro s i
    cases ws with
    | nil =>
      show (match s.push (scanCfg l thr) i (wt w) with
        | Except.error f => Except.error f
        | Except.ok s' => Scanner.pushAll (scanCfg l thr) s' []) = _
      rw [pushWords]
      cases s.push (scanCfg l thr) i (wt w) <;> rfl
    | cons w2 ws' =>
      show (match s.push (scanCfg l thr) i (wt w) with
        | Except.error f => Except.error f
        | Except.ok s' => Scanner.pushAll (scanCfg l thr) s' ((i + 1, sp) :: enumFrom (i + 1 + 1) (wordTokens (w2 :: ws')))) = _
      rw [pushWords]
      cases s.push (scanCfg l thr) i (wt w) with
      | error f => rfl
      | ok s' =>
        dsimp only
        rw [Scanner.pushAll]
        have : s'.push (scanCfg l thr) (i + 1) sp = .ok s' := rfl
        rw [this]
        exact ih s' (i + 1 + 1)

theorem findNumbers_words (l : Lang) (thr : Nat → Bool) (ws : List Word) :
    findNumbers (scanCfg l thr) (wordTokens ws) =
      match pushWords (scanCfg l thr) {} 0 ws with
      | .error f => .error f
      | .ok s =>
        match s.finalize (scanCfg l thr) with
        | .error f => .error f
        | .ok s' => .ok s'.tracker.queue := by
  unfold findNumbers
  rw [pushAll_wordTokens]
  rfl

theorem testWord_eq (l : Lang) (thr : Nat → Bool) (s : Scanner) (w : Word) :
    Scanner.testWord (scanCfg l thr) s (wt w) = w := by
  unfold Scanner.testWord
  cases s.previous with
  | none => rfl
  | some prev =>
    show (if (s.parser.hasNumber && false) = true then [','] else w) = w
    rw [Bool.and_false, if_neg Bool.false_ne_true]

theorem push_word (l : Lang) (thr : Nat → Bool) (s : Scanner) (pos : Nat) (w : Word) (hsk : skipW w = false) :
    s.push (scanCfg l thr) pos (wt w) =
      match s.parser.push l w with
      | (none, p') => .ok { s with parser := p', tracker := s.tracker.advanced pos, previous := some (wt w) }
      | (some .incomplete, p') => .ok { s with parser := p', previous := some (wt w) }
      | (some _, p') => Scanner.pushRejected (scanCfg l thr) { s with parser := p' } pos (wt w) := by
  unfold Scanner.push
  have h1 : Scanner.isSkipped (scanCfg l thr) (wt w) = false := hsk
  have h2 : (wt w).nan = false := rfl
  rw [h1, if_neg Bool.false_ne_true, h2, if_neg Bool.false_ne_true, testWord_eq]
  rw [show (scanCfg l thr).lang = l from rfl]
  rcases s.parser.push l w with ⟨r, p'⟩
  cases r with
  | none => rfl
  | some e => cases e <;> rfl

/-- the parser on a word that is not the decimal separator, in integer mode -/
theorem parser_push_nosep (l : Lang) (p : Parser) (w : Word) (hd : p.isDec = false) (hs : l.isDecSep w = false) :
    p.push l w = ((l.apply w p.int).1, { p with int := (l.apply w p.int).2 }) := by
  unfold Parser.push
  rw [hd, if_neg Bool.false_ne_true, hs]
  rcases l.apply w p.int with ⟨r, i⟩
  dsimp only
  rw [Bool.and_false, if_neg Bool.false_ne_true]

/-- what the tracker keeps of an occurrence that is not put on hold -/
theorem tracker_numberEnd (t : Tracker) (isOrd : Bool) (text : Word) (value : Value) (h : t.onHold = none) :
    (t.numberEnd isOrd text value false).onHold = none ∧
      (t.numberEnd isOrd text value false).queue = t.queue ++ [⟨t.mstart, t.mend, text, value, isOrd⟩] := by
  unfold Tracker.numberEnd
  dsimp only
  by_cases hk : (t.last == (if isOrd = true then Kind.ordinal else Kind.cardinal)) = true
  · simp [hk, h]
  · simp [hk]

theorem tracker_advanced (t : Tracker) (pos : Nat) :
    (t.advanced pos).onHold = t.onHold ∧ (t.advanced pos).queue = t.queue := ⟨rfl, rfl⟩

/-- end of an integer (non-ordinal) number -/
theorem numberEnd_int (cfg : ScanCfg) (s : Scanner) (hd : s.parser.isDec = false) (hm : s.parser.int.marker = .none)
    (hr : s.parser.int.render.isEmpty = false) :
    s.numberEnd cfg = .ok { s with parser := {}, tracker := (s.tracker.numberEnd false (renderChars s.parser.int)
      (.dec s.parser.int.render [])
      ((utf8Len (renderChars s.parser.int) == 1 || false) && cfg.small (.dec s.parser.int.render []))) } := by
  unfold Scanner.numberEnd
  have ho : s.parser.isOrdinal = false := by
    unfold Parser.isOrdinal DS.isOrdinal; rw [hm]; rfl
  have hf : s.parser.finish cfg.lang = .ok (renderChars s.parser.int, .dec s.parser.int.render []) := by
    unfold Parser.finish
    rw [hd, Bool.false_and, if_neg Bool.false_ne_true]
    unfold Lang.formatW
    rw [hr, if_neg Bool.false_ne_true, hm]
  rw [hf, ho]

/-! ## Part 4 — digit dictation (C08) -/

def pendL : Option Nat → List Nat
  | none => []
  | some e => [e]

/-- parser states reached while digits are dictated: `z` leading zeros, then at most one non-zero digit -/
def pz (z : Nat) (pend : Option Nat) : Parser := { int := { rbuf := pendL pend, lz := z } }

/-- abstraction of the scanner state: parser `pz z pend`, nothing on hold, texts of the queue -/
def St (s : Scanner) (z : Nat) (pend : Option Nat) (q : List Word) : Prop :=
  s.parser = pz z pend ∧ s.tracker.onHold = none ∧ s.tracker.queue.map (·.text) = q

def grpDigits (z : Nat) (pend : Option Nat) : List Nat := List.replicate z 0 ++ pendL pend

/-- the dictation groups still to come from state `(z, pend)` on the digits `ds` -/
def dg : Nat → Option Nat → List Nat → List (List Nat)
  | z, none, [] => if z = 0 then [] else [grpDigits z none]
  | z, some e, [] => [grpDigits z (some e)]
  | z, none, d :: ds => if d = 0 then dg (z + 1) none ds else dg z (some d) ds
  | z, some e, d :: ds => grpDigits z (some e) :: (if d = 0 then dg 1 none ds else dg 0 (some d) ds)

theorem dg_spec : ∀ (ds : List Nat) (z : Nat),
    dg z none ds = dictationGroups.go ds (List.replicate z 0) ∧
    ∀ e, dg z (some e) ds = (List.replicate z 0 ++ [e]) :: dictationGroups.go ds [] := by
  intro ds
  induction ds with
  | nil =>
    intro z
    constructor
    · rw [dg, dictationGroups.go]
      cases z with
      | zero => rfl
      | succ z => simp [grpDigits, pendL]
    · intro e; rfl
  | cons d ds ih =>
    intro z
    have hgo : ∀ zs, dictationGroups.go (d :: ds) zs =
        if (d == 0) = true then dictationGroups.go ds (zs ++ [0]) else (zs ++ [d]) :: dictationGroups.go ds [] :=
      fun zs => by rw [dictationGroups.go]
    constructor
    · rw [dg, hgo]
      by_cases hd : d = 0
      · rw [if_pos hd, if_pos (by simp [hd]), (ih (z + 1)).1, List.replicate_succ']
      · rw [if_neg hd, if_neg (by simp [hd]), (ih z).2]
    · intro e
      rw [dg, hgo]
      by_cases hd : d = 0
      · rw [if_pos hd, if_pos (by simp [hd]), (ih 1).1]; rfl
      · rw [if_neg hd, if_neg (by simp [hd]), (ih 0).2]; rfl

theorem dg_dictation (ds : List Nat) : dg 0 none ds = dictationGroups ds := (dg_spec ds 0).1

/-! ### the four kinds of step of the interpreter -/

theorem apply_zero_empty (z : Nat) :
    En.apply (En.digitWord 0) { rbuf := [], lz := z } = (none, { rbuf := [], lz := z + 1 }) := rfl

theorem apply_zero_pend (z e : Nat) :
    En.apply (En.digitWord 0) { rbuf := [e], lz := z } = (some .overlap, { rbuf := [e], lz := z }) := rfl

theorem apply_digit_empty (z d : Nat) (h0 : d ≠ 0) (h9 : d < 10) :
    En.apply (En.digitWord d) { rbuf := [], lz := z } = (none, { rbuf := [d], lz := z }) := by
  have : d = 1 ∨ d = 2 ∨ d = 3 ∨ d = 4 ∨ d = 5 ∨ d = 6 ∨ d = 7 ∨ d = 8 ∨ d = 9 := by omega
  rcases this with rfl | rfl | rfl | rfl | rfl | rfl | rfl | rfl | rfl <;> rfl

theorem apply_digit_pend (z e d : Nat) (he : e ≠ 0) (h0 : d ≠ 0) (h9 : d < 10) :
    En.apply (En.digitWord d) { rbuf := [e], lz := z } = (some .overlap, { rbuf := [e], lz := z }) := by
  show En.applyFuel (1 + 1) (En.unitWord d) _ = _
  rw [applyFuel_plain 1 _ _ _ (plain_unit d h0 h9)]
  simp [T2N.En.unit, Act.when, Act.exec, Guard.eval, DS.peek, DS.put, allZero, he, h0]

theorem digit_noskip (d : Nat) (h9 : d < 10) :
    skipW (En.digitWord d) = false ∧ En.lang.isDecSep (En.digitWord d) = false := by
  have : d = 0 ∨ d = 1 ∨ d = 2 ∨ d = 3 ∨ d = 4 ∨ d = 5 ∨ d = 6 ∨ d = 7 ∨ d = 8 ∨ d = 9 := by omega
  rcases this with rfl | rfl | rfl | rfl | rfl | rfl | rfl | rfl | rfl | rfl <;> exact ⟨by decide, by decide⟩

/-! ### scanner steps -/

/-- an accepted digit word -/
theorem step_accept (s : Scanner) (pos z z' : Nat) (pend pend' : Option Nat) (q : List Word) (w : Word)
    (hw : skipW w = false ∧ En.lang.isDecSep w = false) (hst : St s z pend q)
    (ha : En.apply w { rbuf := pendL pend, lz := z } = (none, { rbuf := pendL pend', lz := z' })) :
    ∃ s', s.push (scanCfg En.lang zeroThr) pos (wt w) = .ok s' ∧ St s' z' pend' q := by
  obtain ⟨hp, hh, hq⟩ := hst
  have hpush : s.parser.push En.lang w = (none, pz z' pend') := by
    rw [parser_push_nosep En.lang s.parser w (by rw [hp]; rfl) hw.2, hp]
    have ha' : En.lang.apply w (pz z pend).int = (none, { rbuf := pendL pend', lz := z' }) := ha
    rw [ha']; rfl
  rw [push_word En.lang zeroThr s pos w hw.1, hpush]
  exact ⟨_, rfl, rfl, hh, hq⟩

/-- a refused digit word: the pending number ends, the word starts the next one -/
theorem step_reject (s : Scanner) (pos z z' e : Nat) (pend' : Option Nat) (q : List Word) (w : Word)
    (hw : skipW w = false ∧ En.lang.isDecSep w = false) (hst : St s z (some e) q)
    (ha : En.apply w { rbuf := [e], lz := z } = (some .overlap, { rbuf := [e], lz := z }))
    (hb : En.apply w {} = (none, { rbuf := pendL pend', lz := z' })) :
    ∃ s', s.push (scanCfg En.lang zeroThr) pos (wt w) = .ok s' ∧
      St s' z' pend' (q ++ [(grpDigits z (some e)).map digitChar]) := by
  obtain ⟨hp, hh, hq⟩ := hst
  have hpush : s.parser.push En.lang w = (some .overlap, pz z (some e)) := by
    rw [parser_push_nosep En.lang s.parser w (by rw [hp]; rfl) hw.2, hp]
    have ha' : En.lang.apply w (pz z (some e)).int = (some .overlap, { rbuf := [e], lz := z }) := ha
    rw [ha']; rfl
  rw [push_word En.lang zeroThr s pos w hw.1, hpush]
  dsimp only
  unfold Scanner.pushRejected
  have hn : ({ s with parser := pz z (some e) } : Scanner).parser.hasNumber = true := rfl
  rw [if_pos hn]
  have hr : (pz z (some e)).int.render.isEmpty = false := by
    show (List.replicate z 0 ++ [e]).isEmpty = false
    simp
  rw [numberEnd_int _ _ rfl rfl hr]
  dsimp only
  have hpush2 : ({} : Parser).push En.lang w = (none, pz z' pend') := by
    rw [parser_push_nosep En.lang {} w rfl hw.2]
    have hb' : En.lang.apply w ({} : Parser).int = (none, { rbuf := pendL pend', lz := z' }) := hb
    rw [hb']; rfl
  have hpush2' : Parser.push (scanCfg En.lang zeroThr).lang {} (wt w).lower = (none, pz z' pend') := hpush2
  rw [hpush2']
  have hforget : ((utf8Len (renderChars (pz z (some e)).int) == 1 || false) &&
      (scanCfg En.lang zeroThr).small (Value.dec (pz z (some e)).int.render [])) = false := by
    have : (scanCfg En.lang zeroThr).small (Value.dec (pz z (some e)).int.render []) = false := rfl
    rw [this, Bool.and_false]
  rw [hforget]
  obtain ⟨t1, t2⟩ := tracker_numberEnd s.tracker false (renderChars (pz z (some e)).int)
    (Value.dec (pz z (some e)).int.render []) hh
  refine ⟨_, rfl, rfl, t1, ?_⟩
  show List.map (·.text) (s.tracker.numberEnd false (renderChars (pz z (some e)).int)
    (Value.dec (pz z (some e)).int.render []) false).queue = _
  rw [t2, List.map_append, hq]
  rfl

theorem finalize_empty (s : Scanner) (q : List Word) (hst : St s 0 none q) :
    ∃ sf, s.finalize (scanCfg En.lang zeroThr) = .ok sf ∧ sf.tracker.queue.map (·.text) = q := by
  obtain ⟨hp, _, hq⟩ := hst
  unfold Scanner.finalize
  have : s.parser.hasNumber = false := by rw [hp]; rfl
  rw [this, if_neg Bool.false_ne_true]
  exact ⟨s, rfl, hq⟩

theorem finalize_pending (s : Scanner) (z : Nat) (pend : Option Nat) (q : List Word) (hst : St s z pend q)
    (hne : z ≠ 0 ∨ pend ≠ none) :
    ∃ sf, s.finalize (scanCfg En.lang zeroThr) = .ok sf ∧
      sf.tracker.queue.map (·.text) = q ++ [(grpDigits z pend).map digitChar] := by
  obtain ⟨hp, hh, hq⟩ := hst
  unfold Scanner.finalize
  have hgne : grpDigits z pend ≠ [] := by
    unfold grpDigits
    rcases hne with h | h
    · cases z with
      | zero => exact absurd rfl h
      | succ z => simp [List.replicate_succ]
    · cases pend with
      | none => exact absurd rfl h
      | some e => simp [pendL]
  have hrd : (pz z pend).int.render = grpDigits z pend := by
    cases pend <;> rfl
  have hn : s.parser.hasNumber = true := by
    rw [hp]
    show (!(((pendL pend).isEmpty) && z == 0)) = true
    rcases hne with h | h
    · have : (z == 0) = false := by simp [h]
      rw [this, Bool.and_false]; rfl
    · cases pend with
      | none => exact absurd rfl h
      | some e => rfl
  have hr : s.parser.int.render.isEmpty = false := by
    rw [hp, hrd]
    cases hg : grpDigits z pend with
    | nil => exact absurd hg hgne
    | cons a t => rfl
  rw [hn, if_pos rfl, numberEnd_int _ s (by rw [hp]; rfl) (by rw [hp]; rfl) hr]
  have hforget : ((utf8Len (renderChars s.parser.int) == 1 || false) &&
      (scanCfg En.lang zeroThr).small (Value.dec s.parser.int.render [])) = false := by
    have : (scanCfg En.lang zeroThr).small (Value.dec s.parser.int.render []) = false := rfl
    rw [this, Bool.and_false]
  rw [hforget]
  obtain ⟨_, t2⟩ := tracker_numberEnd s.tracker false (renderChars s.parser.int) (Value.dec s.parser.int.render []) hh
  refine ⟨_, rfl, ?_⟩
  show List.map (·.text) (s.tracker.numberEnd false (renderChars s.parser.int)
    (Value.dec s.parser.int.render []) false).queue = _
  rw [t2, List.map_append, hq]
  show _ ++ [renderChars s.parser.int] = _
  unfold renderChars
  rw [hp, hrd]

/-- **the scanner on dictated digits**, from any state `(z, pend)` -/
theorem dict_run : ∀ (ds : List Nat), (∀ d ∈ ds, d < 10) → ∀ (s : Scanner) (z : Nat) (pend : Option Nat)
    (q : List Word) (i : Nat), St s z pend q → (∀ e, pend = some e → e ≠ 0) →
    ∃ s' sf, pushWords (scanCfg En.lang zeroThr) s i (ds.map En.digitWord) = .ok s' ∧
      s'.finalize (scanCfg En.lang zeroThr) = .ok sf ∧
      sf.tracker.queue.map (·.text) = q ++ (dg z pend ds).map (fun g => g.map digitChar) := by
  intro ds
  induction ds with
  | nil =>
    intro _ s z pend q i hst _
    refine ⟨s, ?_⟩
    cases pend with
    | none =>
      by_cases hz : z = 0
      · subst hz
        obtain ⟨sf, h1, h2⟩ := finalize_empty s q hst
        exact ⟨sf, rfl, h1, by rw [h2]; simp [dg]⟩
      · obtain ⟨sf, h1, h2⟩ := finalize_pending s z none q hst (Or.inl hz)
        exact ⟨sf, rfl, h1, by rw [h2, dg, if_neg hz]; rfl⟩
    | some e =>
      obtain ⟨sf, h1, h2⟩ := finalize_pending s z (some e) q hst (Or.inr (by simp))
      exact ⟨sf, rfl, h1, by rw [h2, dg]; rfl⟩
  | cons d ds ih =>
    intro hds s z pend q i hst hpe
    have hd9 : d < 10 := hds d List.mem_cons_self
    have hds' : ∀ x ∈ ds, x < 10 := fun x hx => hds x (List.mem_cons_of_mem _ hx)
    have hw := digit_noskip d hd9
    rw [List.map_cons, pushWords]
    cases pend with
    | none =>
      by_cases hd : d = 0
      · subst hd
        obtain ⟨s1, e1, st1⟩ := step_accept s i z (z + 1) none none q _ hw hst (apply_zero_empty z)
        obtain ⟨s', sf, r1, r2, r3⟩ := ih hds' s1 (z + 1) none q (i + 2) st1 (fun e h => by simp at h)
        refine ⟨s', sf, by rw [e1]; exact r1, r2, ?_⟩
        rw [r3, dg, if_pos rfl]
      · obtain ⟨s1, e1, st1⟩ := step_accept s i z z none (some d) q _ hw hst (apply_digit_empty z d hd hd9)
        obtain ⟨s', sf, r1, r2, r3⟩ := ih hds' s1 z (some d) q (i + 2) st1
          (fun e h => by have : d = e := by simpa using h
                         rw [← this]; exact hd)
        refine ⟨s', sf, by rw [e1]; exact r1, r2, ?_⟩
        rw [r3, dg, if_neg hd]
    | some e =>
      have he : e ≠ 0 := hpe e rfl
      by_cases hd : d = 0
      · subst hd
        obtain ⟨s1, e1, st1⟩ := step_reject s i z 1 e none q _ hw hst (apply_zero_pend z e) (apply_zero_empty 0)
        obtain ⟨s', sf, r1, r2, r3⟩ := ih hds' s1 1 none _ (i + 2) st1 (fun e h => by simp at h)
        refine ⟨s', sf, by rw [e1]; exact r1, r2, ?_⟩
        rw [r3, dg, if_pos rfl, List.map_cons, List.append_assoc]
        rfl
      · obtain ⟨s1, e1, st1⟩ := step_reject s i z 0 e (some d) q _ hw hst (apply_digit_pend z e d he hd hd9)
          (apply_digit_empty 0 d hd hd9)
        obtain ⟨s', sf, r1, r2, r3⟩ := ih hds' s1 0 (some d) _ (i + 2) st1
          (fun e h => by have : d = e := by simpa using h
                         rw [← this]; exact hd)
        refine ⟨s', sf, by rw [e1]; exact r1, r2, ?_⟩
        rw [r3, dg, if_neg hd, List.map_cons, List.append_assoc]
        rfl

/-- **C08 for English, every digit sequence**: the scanner groups dictated digits exactly as
`Spec.dictationGroups` (zeros attach to the following non-zero digit, trailing zeros stand alone) -/
theorem C08_dictation_en (ds : List Nat) (h : ∀ d ∈ ds, d < 10) :
    occTexts En.lang zeroThr (ds.map Spec.En.digitWord) =
      some ((dictationGroups ds).map (fun g => g.map digitChar)) := by
  have hst : St {} 0 none [] := ⟨rfl, rfl, rfl⟩
  obtain ⟨s', sf, r1, r2, r3⟩ := dict_run ds h {} 0 none [] 0 hst (fun e h => by simp at h)
  unfold occTexts
  rw [findNumbers_words, r1]
  dsimp only
  rw [r2]
  dsimp only
  rw [r3, dg_dictation, List.nil_append]

/-- the same statement on `findNumbers` -/
theorem C08_dictation_en_occ (ds : List Nat) (h : ∀ d ∈ ds, d < 10) :
    ∃ occs, findNumbers (scanCfg En.lang zeroThr) (wordTokens (ds.map Spec.En.digitWord)) = .ok occs ∧
      occs.map (·.text) = (dictationGroups ds).map (fun g => g.map digitChar) := by
  have hst : St {} 0 none [] := ⟨rfl, rfl, rfl⟩
  obtain ⟨s', sf, r1, r2, r3⟩ := dict_run ds h {} 0 none [] 0 hst (fun e h => by simp at h)
  refine ⟨sf.tracker.queue, ?_, by rw [r3, dg_dictation, List.nil_append]⟩
  rw [findNumbers_words, r1]
  dsimp only
  rw [r2]

example : occTexts En.lang zeroThr ([0, 0, 7, 0, 1, 2, 0, 0].map Spec.En.digitWord) =
    some [w!"007", w!"01", w!"2", w!"00"] := C08_dictation_en _ (by decide)

/-! ## Part 5 — lifting an interpreter run to the scanner; decimals (C05) -/

theorem vocab_keys_ok : En.vocab.all (fun p => !p.1.isEmpty && p.1.all (fun c => !simpleIsWs c)) = true := by decide

theorem lemmatize_all_ws (w : Word) (h : w.all simpleIsWs = true) : (En.lemmatize w).all simpleIsWs = true := by
  unfold En.lemmatize
  split
  · unfold trimEndBy
    rw [List.all_eq_true] at h ⊢
    intro c hc
    have h1 : c ∈ w.reverse.dropWhile (· == 's') := by simpa using hc
    have h2 : c ∈ w.reverse := (List.dropWhile_sublist _).subset h1
    exact h c (by simpa using h2)
  · exact h

/-- a word that the interpreter accepts (or answers `Incomplete` to) is neither skipped by the scanner
nor the decimal separator -/
theorem accepted_word (w : Word) (b : DS)
    (h : (En.apply w b).1 = none ∨ (En.apply w b).1 = some .incomplete) :
    skipW w = false ∧ En.lang.isDecSep w = false := by
  have hnan : ∀ w', w = w' → En.apply w' b = (some .nan, b) → False := by
    intro w' e hx
    rw [e, hx] at h
    rcases h with h | h <;> exact absurd h (by simp)
  constructor
  · unfold skipW
    rw [Bool.or_eq_false_iff]
    constructor
    · cases hq : (w == ['-']) with
      | false => rfl
      | true => exact (hnan ['-'] (by simpa using hq) rfl).elim
    · cases hq : w.all simpleCC.isWhitespace with
      | false => rfl
      | true =>
        exfalso
        have hq' : w.all simpleIsWs = true := hq
        by_cases hc : w.contains '-' = true
        · have hm : '-' ∈ w := List.contains_iff_mem.mp hc
          have := List.all_eq_true.mp hq' '-' hm
          exact absurd this (by decide)
        · have hc' : w.contains '-' = false := by simpa using hc
          have hx : (En.apply w b).1 = (((En.vocab.lookup (En.lemmatize w)).getD (.fail .nan)).exec b).1 := by
            show (En.applyFuel (1 + 1) w b).1 = _
            rw [applyFuel_nohyphen 1 w b hc', post_fst]
          rw [hx] at h
          cases hlk : En.vocab.lookup (En.lemmatize w) with
          | none =>
            rw [hlk] at h
            rcases h with h | h <;> exact absurd h (by simp [Act.exec])
          | some a =>
            have hm := lookup_mem _ a _ hlk
            have hk := List.all_eq_true.mp vocab_keys_ok _ hm
            have hl := lemmatize_all_ws w hq'
            simp only [Bool.and_eq_true, Bool.not_eq_true'] at hk
            cases hkey : En.lemmatize w with
            | nil => rw [hkey] at hk; exact absurd hk.1 (by simp)
            | cons c t =>
              rw [hkey] at hk hl
              have h1 : simpleIsWs c = true := (List.all_eq_true.mp hl) c List.mem_cons_self
              have h2 := (List.all_eq_true.mp hk.2) c List.mem_cons_self
              rw [h1] at h2
              exact absurd h2 (by decide)
  · cases hq : En.lang.isDecSep w with
    | false => rfl
    | true =>
      have : w = w!"point" := by
        have : (w == w!"point") = true := hq
        simpa using this
      exact (hnan _ this rfl).elim

theorem pushWords_append (cfg : ScanCfg) : ∀ (a b : List Word) (s : Scanner) (i : Nat),
    pushWords cfg s i (a ++ b) =
      match pushWords cfg s i a with
      | .error f => .error f
      | .ok s' => pushWords cfg s' (i + 2 * a.length) b := by
  intro a
  induction a with
  | nil => intro b s i; rfl
  | cons w a ih =>
    intro b s i
    rw [List.cons_append, pushWords, pushWords]
    cases s.push cfg i (wt w) with
    | error f => rfl
    | ok s' =>
      dsimp only
      rw [ih b s' (i + 2)]
      have : i + 2 + 2 * a.length = i + 2 * (w :: a).length := by
        rw [List.length_cons]; omega
      rw [this]

/-- integer phase: the parser holds `b`, nothing has been emitted -/
def SI (s : Scanner) (b : DS) : Prop :=
  s.parser = { int := b } ∧ s.tracker.queue = [] ∧ s.tracker.onHold = none

/-- **lifting**: a successful interpreter run is reproduced by the scanner, word by word, as one open match -/
theorem lift_run (thr : Nat → Bool) : ∀ (ws : List Word) (b : DS) (inc : Bool) (r : DS),
    execGroupFrom En.apply ws b inc = .ok r → ∀ (s : Scanner) (i : Nat), SI s b →
    ∃ s', pushWords (scanCfg En.lang thr) s i ws = .ok s' ∧ SI s' r := by
  intro ws
  induction ws with
  | nil =>
    intro b inc r h s i hs
    rw [execGroupFrom] at h
    cases inc with
    | true => exact absurd h (by simp)
    | false =>
      have : b = r := by simpa using h
      rw [← this]
      exact ⟨s, rfl, hs⟩
  | cons w ws ih =>
    intro b inc r h s i hs
    rw [execGroupFrom] at h
    obtain ⟨hp, hq, hh⟩ := hs
    rcases hx : En.apply w b with ⟨st, b1⟩
    rw [hx] at h
    have hx' : En.lang.apply w s.parser.int = (st, b1) := by rw [hp]; exact hx
    have hpush : st = none ∨ st = some .incomplete → s.parser.push En.lang w = (st, { int := b1 }) := by
      intro hst
      have hw := accepted_word w b (by rw [hx]; exact hst)
      rw [parser_push_nosep En.lang s.parser w (by rw [hp]) hw.2, hx', hp]
    rw [pushWords]
    cases st with
    | none =>
      have hw := accepted_word w b (by rw [hx]; exact Or.inl rfl)
      rw [push_word En.lang thr s i w hw.1, hpush (Or.inl rfl)]
      exact ih b1 false r h _ (i + 2) ⟨rfl, hq, hh⟩
    | some e =>
      cases e with
      | incomplete =>
        have hw := accepted_word w b (by rw [hx]; exact Or.inr rfl)
        rw [push_word En.lang thr s i w hw.1, hpush (Or.inr rfl)]
        exact ih b1 true r h _ (i + 2) ⟨rfl, hq, hh⟩
      | overlap => exact absurd h (by simp)
      | nan => exact absurd h (by simp)
      | frozen => exact absurd h (by simp)

/-! ### the separator and the fraction digits -/

/-- decimal phase: integer part `I`, fraction digits `R` (last first), nothing emitted -/
def SD (s : Scanner) (I : DS) (R : List Nat) : Prop :=
  s.parser = { int := I, dec := { rbuf := R }, isDec := true } ∧ s.tracker.queue = [] ∧ s.tracker.onHold = none

theorem parser_push_sep (p : Parser) (hd : p.isDec = false) (hne : p.int.isEmpty = false)
    (hm : p.int.marker = .none) :
    p.push En.lang En.sepWord = (some .incomplete, { p with isDec := true }) := by
  unfold Parser.push
  rw [hd, if_neg Bool.false_ne_true]
  have ha : En.lang.apply En.sepWord p.int = (some .nan, p.int) := rfl
  rw [ha]
  dsimp only
  rw [hne, hm]
  rfl

theorem parser_push_dec (p : Parser) (w : Word) (d : Nat) (hd : p.isDec = true) (hf : p.dec.frozen = false)
    (hl : En.decVocab.lookup w = some d) :
    p.push En.lang w = (none, { p with dec := { p.dec with rbuf := d :: p.dec.rbuf } }) := by
  unfold Parser.push
  rw [hd, if_pos rfl]
  have ha : En.lang.applyDecimal w p.dec = (none, { p.dec with rbuf := d :: p.dec.rbuf }) := by
    show En.applyDecimal w _ = _
    unfold En.applyDecimal
    rw [hl]
    dsimp only
    unfold DS.push
    rw [hf, if_neg Bool.false_ne_true]
    rfl
  rw [ha]
  rfl

theorem step_point (thr : Nat → Bool) (s : Scanner) (i : Nat) (I : DS) (hs : SI s I) (hne : I.isEmpty = false)
    (hm : I.marker = .none) :
    ∃ s', s.push (scanCfg En.lang thr) i (wt En.sepWord) = .ok s' ∧ SD s' I [] := by
  obtain ⟨hp, hq, hh⟩ := hs
  have hpush : s.parser.push En.lang En.sepWord = (some .incomplete, { int := I, dec := {}, isDec := true }) := by
    rw [parser_push_sep s.parser (by rw [hp]) (by rw [hp]; exact hne) (by rw [hp]; exact hm), hp]
  rw [push_word En.lang thr s i En.sepWord (by decide), hpush]
  exact ⟨_, rfl, rfl, hq, hh⟩

/-- the word of the fraction digit `d` at index `i` -/
def fracWord (v : Var) (p : Nat × Nat) : Word :=
  if p.2 == 0 then (match pick v (cp 15 (p.1 % 16)) 2 with | 0 => w!"zero" | _ => w!"nought") else En.unitWord p.2

theorem fraction_eq (v : Var) (ds : List Nat) :
    En.fraction v ds = ((List.range ds.length).zip ds).map (fracWord v) := rfl

theorem fracWord_ok (v : Var) (p : Nat × Nat) (h : p.2 < 10) :
    skipW (fracWord v p) = false ∧ En.decVocab.lookup (fracWord v p) = some p.2 := by
  obtain ⟨i, d⟩ := p
  unfold fracWord
  dsimp only at h ⊢
  by_cases hd : d = 0
  · subst hd
    have h00 : ((0 : Nat) == 0) = true := rfl
    rw [if_pos h00]
    generalize pick v (cp 15 (i % 16)) 2 = k
    cases k with
    | zero => exact ⟨by decide, by rfl⟩
    | succ k =>
      show skipW w!"nought" = false ∧ List.lookup w!"nought" En.decVocab = some 0
      exact ⟨by decide, by rfl⟩
  · rw [if_neg (by simp [hd])]
    have : d = 1 ∨ d = 2 ∨ d = 3 ∨ d = 4 ∨ d = 5 ∨ d = 6 ∨ d = 7 ∨ d = 8 ∨ d = 9 := by omega
    rcases this with rfl | rfl | rfl | rfl | rfl | rfl | rfl | rfl | rfl <;> exact ⟨by decide, by rfl⟩

theorem step_frac (thr : Nat → Bool) (s : Scanner) (i : Nat) (I : DS) (R : List Nat) (w : Word) (d : Nat)
    (hs : SD s I R) (hw : skipW w = false) (hl : En.decVocab.lookup w = some d) :
    ∃ s', s.push (scanCfg En.lang thr) i (wt w) = .ok s' ∧ SD s' I (d :: R) := by
  obtain ⟨hp, hq, hh⟩ := hs
  have hpush : s.parser.push En.lang w = (none, { int := I, dec := { rbuf := d :: R }, isDec := true }) := by
    rw [parser_push_dec s.parser w d (by rw [hp]) (by rw [hp]) hl, hp]
  rw [push_word En.lang thr s i w hw, hpush]
  exact ⟨_, rfl, rfl, hq, hh⟩

theorem frac_run (thr : Nat → Bool) (v : Var) (I : DS) : ∀ (l : List (Nat × Nat)), (∀ p ∈ l, p.2 < 10) →
    ∀ (s : Scanner) (i : Nat) (R : List Nat), SD s I R →
    ∃ s', pushWords (scanCfg En.lang thr) s i (l.map (fracWord v)) = .ok s' ∧
      SD s' I ((l.map Prod.snd).reverse ++ R) := by
  intro l
  induction l with
  | nil => intro _ s i R hs; exact ⟨s, rfl, hs⟩
  | cons p l ih =>
    intro hl s i R hs
    obtain ⟨h1, h2⟩ := fracWord_ok v p (hl p List.mem_cons_self)
    obtain ⟨s1, e1, hs1⟩ := step_frac thr s i I R _ p.2 hs h1 h2
    obtain ⟨s', e2, hs2⟩ := ih (fun q hq => hl q (List.mem_cons_of_mem _ hq)) s1 (i + 2) (p.2 :: R) hs1
    refine ⟨s', ?_, ?_⟩
    · rw [List.map_cons, pushWords, e1]; exact e2
    · rw [List.map_cons, List.reverse_cons, List.append_assoc]; exact hs2

/-- end of a decimal number: exactly one occurrence, whatever the threshold -/
theorem finalize_decimal (thr : Nat → Bool) (s : Scanner) (I : DS) (R : List Nat) (hs : SD s I R)
    (hne : I.isEmpty = false) (hm : I.marker = .none) (hR : R ≠ []) :
    ∃ sf a b, s.finalize (scanCfg En.lang thr) = .ok sf ∧
      sf.tracker.queue = [⟨a, b, renderChars I ++ ['.'] ++ R.reverse.map digitChar, .dec I.render R.reverse, false⟩] := by
  obtain ⟨hp, hq, hh⟩ := hs
  unfold Scanner.finalize
  have hn : s.parser.hasNumber = true := by
    rw [hp]; show (!I.isEmpty) = true; rw [hne]; rfl
  rw [hn, if_pos rfl]
  unfold Scanner.numberEnd
  have ho : s.parser.isOrdinal = false := by
    rw [hp]; show I.marker.isOrdinal = false; rw [hm]; rfl
  have hdr : ({ rbuf := R } : DS).render = R.reverse := rfl
  obtain ⟨x, xs, hrr⟩ : ∃ x xs, R.reverse = x :: xs := by
    cases hrv : R.reverse with
    | nil => exact absurd (by simpa using hrv) hR
    | cons x xs => exact ⟨x, xs, rfl⟩
  have hf : s.parser.finish (scanCfg En.lang thr).lang =
      .ok (renderChars I ++ ['.'] ++ R.reverse.map digitChar, .dec I.render R.reverse) := by
    rw [hp]
    unfold Parser.finish
    have hde : ({ rbuf := R } : DS).isEmpty = false := by
      show (R.isEmpty && (0 : Nat) == 0) = false
      cases R with
      | nil => exact absurd rfl hR
      | cons a t => rfl
    dsimp only
    rw [hde]
    show ((scanCfg En.lang thr).lang.formatDecimalW I { rbuf := R }) = _
    unfold Lang.formatDecimalW
    have hrc2 : renderChars ({ rbuf := R } : DS) = R.reverse.map digitChar := rfl
    have hc : (I.render.isEmpty && R.reverse.isEmpty) = false := by rw [hrr]; simp
    rw [hrc2, hdr, hc, if_neg Bool.false_ne_true]
    rfl
  rw [hf, ho]
  dsimp only
  have hsm : (scanCfg En.lang thr).small (.dec I.render R.reverse) = false := by
    rw [hrr]; rfl
  rw [hsm, Bool.and_false]
  obtain ⟨_, t2⟩ := tracker_numberEnd s.tracker false (renderChars I ++ ['.'] ++ R.reverse.map digitChar)
    (.dec I.render R.reverse) hh
  refine ⟨_, s.tracker.mstart, s.tracker.mend, rfl, ?_⟩
  show (s.tracker.numberEnd false _ _ false).queue = _
  rw [t2, hq]
  rfl

/-- **C05 for English**: integer part `n < 10^12`, any non-empty fraction, any threshold: exactly one
occurrence, whose text is `<digits of n>.<fraction digits>` -/
theorem C05_decimal_en_occ (v : Spec.Var) (n : Nat) (ds : List Nat) (thr : Nat → Bool) (h : n < 10 ^ 12)
    (hds : ds ≠ []) (h9 : ∀ d ∈ ds, d < 10) :
    ∃ a b, findNumbers (scanCfg En.lang thr)
        (wordTokens (Spec.En.cardinal v n ++ [Spec.En.sepWord] ++ Spec.En.fraction v ds)) =
      .ok [⟨a, b, decChars n ++ ['.'] ++ ds.map digitChar, .dec (decDigits n) ds, false⟩] := by
  -- the integer part as an interpreter run
  obtain ⟨I, hrun, hne, hm, hrc, hrd⟩ : ∃ I, execGroupFrom En.apply (En.cardinal v n) DS.new false = .ok I ∧
      I.isEmpty = false ∧ I.marker = .none ∧ renderChars I = decChars n ∧ I.render = decDigits n := by
    by_cases hn : n = 0
    · subst hn
      have e0 : decDigits 0 = [0] := by rw [decDigits, if_pos (by decide)]
      refine ⟨setLz 1 DS.new, rfl, rfl, rfl, ?_, ?_⟩
      · unfold decChars; rw [e0]; rfl
      · rw [e0]; rfl
    · refine ⟨C01En.mk (lsb n), cardinal_run v n hn h, ?_, rfl, ?_, ?_⟩
      · have := (format_lz 0 n hn).1; exact this
      · have hr : (C01En.mk (lsb n)).render = decDigits n := by
          show List.replicate 0 0 ++ (lsb n).reverse = _
          rw [lsb_rev_dec n hn]; rfl
        unfold renderChars decChars; rw [hr]
      · show List.replicate 0 0 ++ (lsb n).reverse = _
        rw [lsb_rev_dec n hn]; rfl
  have hs0 : SI {} DS.new := ⟨rfl, rfl, rfl⟩
  obtain ⟨s1, e1, hs1⟩ := lift_run thr _ _ _ _ hrun {} 0 hs0
  obtain ⟨s2, e2, hs2⟩ := step_point thr s1 (0 + 2 * (En.cardinal v n).length) I hs1 hne hm
  have hl : ∀ p ∈ (List.range ds.length).zip ds, p.2 < 10 := by
    intro p hp
    exact h9 p.2 (List.of_mem_zip hp).2
  obtain ⟨s3, e3, hs3⟩ := frac_run thr v I _ hl s2 (0 + 2 * (En.cardinal v n).length + 2) [] hs2
  have hsnd : ((List.range ds.length).zip ds).map Prod.snd = ds :=
    List.map_snd_zip (by rw [List.length_range]; exact Nat.le_refl _)
  rw [hsnd, List.append_nil] at hs3
  obtain ⟨sf, a, b, e4, hq⟩ := finalize_decimal thr s3 I ds.reverse hs3 hne hm (by simpa using hds)
  rw [List.reverse_reverse, hrc, hrd] at hq
  refine ⟨a, b, ?_⟩
  rw [findNumbers_words, List.append_assoc, pushWords_append, e1]
  dsimp only
  rw [List.singleton_append, pushWords, e2]
  dsimp only
  rw [fraction_eq, e3]
  dsimp only
  rw [e4]
  dsimp only
  rw [hq]

theorem C05_decimal_en (v : Spec.Var) (n : Nat) (ds : List Nat) (thr : Nat → Bool) (h : n < 10 ^ 12)
    (hds : ds ≠ []) (h9 : ∀ d ∈ ds, d < 10) :
    occTexts En.lang thr (Spec.En.cardinal v n ++ [Spec.En.sepWord] ++ Spec.En.fraction v ds) =
      some [decChars n ++ [Spec.En.decMark] ++ ds.map digitChar] := by
  obtain ⟨a, b, e⟩ := C05_decimal_en_occ v n ds thr h hds h9
  unfold occTexts
  rw [e]
  rfl

example : occTexts En.lang (fun _ => true) (Spec.En.cardinal (fun _ => 0) 0 ++ [Spec.En.sepWord] ++
    Spec.En.fraction (fun _ => 0) [0, 0, 7]) = some [decChars 0 ++ ['.'] ++ w!"007"] :=
  C05_decimal_en (fun _ => 0) 0 [0, 0, 7] (fun _ => true) (by decide) (by decide) (by decide)

/-! ## Part 6 — from validation to the scanner (threshold 0) -/

theorem small_zeroThr (l : Lang) (val : Value) : (scanCfg l zeroThr).small val = false := by
  cases val with
  | dec i d => cases d <;> rfl
  | recip i => rfl

/-- end of a pending integer-mode number under threshold 0: its text is appended to the queue -/
theorem finalize_run (s : Scanner) (r : DS) (text : Word) (val : Value) (hs : SI s r) (hne : r.isEmpty = false)
    (hf : En.lang.formatW r = .ok (text, val)) :
    ∃ sf, s.finalize (scanCfg En.lang zeroThr) = .ok sf ∧ sf.parser = {} ∧ sf.tracker.onHold = none ∧
      sf.tracker.queue.map (·.text) = [text] := by
  obtain ⟨hp, hq, hh⟩ := hs
  unfold Scanner.finalize
  have hn : s.parser.hasNumber = true := by
    rw [hp]; show (!r.isEmpty) = true; rw [hne]; rfl
  rw [hn, if_pos rfl]
  unfold Scanner.numberEnd
  have hfin : s.parser.finish (scanCfg En.lang zeroThr).lang = .ok (text, val) := by
    rw [hp]; exact hf
  rw [hfin]
  dsimp only
  rw [small_zeroThr, Bool.and_false]
  obtain ⟨t1, t2⟩ := tracker_numberEnd s.tracker s.parser.isOrdinal text val hh
  refine ⟨_, rfl, rfl, t1, ?_⟩
  show List.map (·.text) (s.tracker.numberEnd s.parser.isOrdinal text val false).queue = _
  rw [t2, hq]
  rfl

/-- **whatever validates is found by the scanner** (English, threshold 0): a word list accepted by
`text2digitsWords` yields exactly one occurrence, with the same text -/
theorem scan_of_validate (ws : List Word) (t : Word) (h : text2digitsWords En.lang ws = .ok t) :
    occTexts En.lang zeroThr ws = some [t] := by
  unfold text2digitsWords at h
  cases hx : execGroup En.lang.apply ws with
  | error e => rw [hx] at h; exact absurd h (by simp)
  | ok r =>
    rw [hx] at h
    dsimp only at h
    cases hne : r.isEmpty with
    | true => rw [hne, if_pos rfl] at h; exact absurd h (by simp)
    | false =>
      rw [hne, if_neg Bool.false_ne_true] at h
      cases hf : En.lang.formatW r with
      | error f => rw [hf] at h; exact absurd h (by simp)
      | ok tv =>
        obtain ⟨t', val⟩ := tv
        rw [hf] at h
        have : t' = t := by simpa using h
        subst this
        obtain ⟨s1, e1, hs1⟩ := lift_run zeroThr ws DS.new false r hx {} 0 ⟨rfl, rfl, rfl⟩
        obtain ⟨sf, e2, _, _, hq⟩ := finalize_run s1 r t' val hs1 hne hf
        unfold occTexts
        rw [findNumbers_words, e1]
        dsimp only
        rw [e2]
        dsimp only
        rw [hq]

/-- a word refused with `Overlap` while an integer-mode number is open: that number is emitted and the
word starts the next one -/
theorem step_reject_run (s : Scanner) (pos z' : Nat) (pend' : Option Nat) (r : DS) (text : Word) (val : Value)
    (w : Word) (hw : skipW w = false ∧ En.lang.isDecSep w = false) (hs : SI s r) (hne : r.isEmpty = false)
    (hf : En.lang.formatW r = .ok (text, val))
    (ha : En.apply w r = (some .overlap, r))
    (hb : En.apply w {} = (none, { rbuf := pendL pend', lz := z' })) :
    ∃ s', s.push (scanCfg En.lang zeroThr) pos (wt w) = .ok s' ∧ St s' z' pend' [text] := by
  obtain ⟨hp, hq, hh⟩ := hs
  have hpush : s.parser.push En.lang w = (some .overlap, { int := r }) := by
    rw [parser_push_nosep En.lang s.parser w (by rw [hp]) hw.2, hp]
    have ha' : En.lang.apply w ({ int := r } : Parser).int = (some .overlap, r) := ha
    rw [ha']
  rw [push_word En.lang zeroThr s pos w hw.1, hpush]
  dsimp only
  unfold Scanner.pushRejected
  have hn : ({ s with parser := { int := r } } : Scanner).parser.hasNumber = true := by
    show (!r.isEmpty) = true; rw [hne]; rfl
  rw [if_pos hn]
  unfold Scanner.numberEnd
  have hfin : ({ s with parser := { int := r } } : Scanner).parser.finish (scanCfg En.lang zeroThr).lang =
      .ok (text, val) := hf
  rw [hfin]
  dsimp only
  rw [small_zeroThr, Bool.and_false]
  have hpush2 : Parser.push (scanCfg En.lang zeroThr).lang {} (wt w).lower = (none, pz z' pend') := by
    show ({} : Parser).push En.lang w = _
    rw [parser_push_nosep En.lang {} w rfl hw.2]
    have hb' : En.lang.apply w ({} : Parser).int = (none, { rbuf := pendL pend', lz := z' }) := hb
    rw [hb']; rfl
  rw [hpush2]
  obtain ⟨t1, t2⟩ := tracker_numberEnd s.tracker r.isOrdinal text val hh
  refine ⟨_, rfl, rfl, t1, ?_⟩
  show List.map (·.text) (s.tracker.numberEnd r.isOrdinal text val false).queue = _
  rw [t2, hq]
  rfl

/-- **C16, `zero` after a number, at the scanner**: the number ends and the zero is a number of its own -/
theorem C16_zero_after_scan_en (v : Spec.Var) (k n : Nat) (hn : 0 < n) (h : n < 10 ^ 12) :
    occTexts En.lang zeroThr (List.replicate k Spec.En.zeroWord ++ Spec.En.cardinal v n ++ [Spec.En.zeroWord]) =
      some [List.replicate k '0' ++ decChars n, ['0']] := by
  have hn' : n ≠ 0 := by omega
  have hrun : execGroupFrom En.apply (List.replicate k Spec.En.zeroWord ++ Spec.En.cardinal v n) DS.new false =
      .ok (setLz k (C01En.mk (lsb n))) := by
    show execGroupFrom En.apply _ (setLz 0 DS.new) false = _
    rw [zeros_run, Nat.zero_add, cardinal_run_lz v k n hn' h]
  have hz : En.apply Spec.En.zeroWord (setLz k (C01En.mk (lsb n))) = (some .overlap, setLz k (C01En.mk (lsb n))) := by
    cases hl : lsb n with
    | nil => exact absurd hl (lsb_ne_nil hn')
    | cons a t => rfl
  obtain ⟨hne, hf⟩ := format_lz k n hn'
  obtain ⟨s1, e1, hs1⟩ := lift_run zeroThr _ DS.new false _ hrun {} 0 ⟨rfl, rfl, rfl⟩
  obtain ⟨s2, e2, hs2⟩ := step_reject_run s1 (0 + 2 * (List.replicate k Spec.En.zeroWord ++ Spec.En.cardinal v n).length)
    1 none _ _ _ Spec.En.zeroWord ⟨by decide, by decide⟩ hs1 hne hf hz rfl
  obtain ⟨sf, e3, hq⟩ := finalize_pending s2 1 none _ hs2 (Or.inl (by decide))
  unfold occTexts
  rw [findNumbers_words, pushWords_append, e1]
  dsimp only
  rw [pushWords, e2]
  dsimp only
  rw [pushWords]
  dsimp only
  rw [e3]
  dsimp only
  rw [hq]
  rfl

theorem C01_scan_en (v : Spec.Var) (n : Nat) (h : n < 10 ^ 12) :
    occTexts En.lang zeroThr (Spec.En.cardinal v n) = some [decChars n] :=
  scan_of_validate _ _ (C01_validate_en v n h)

theorem C16_scan_en (v : Spec.Var) (k n : Nat) (hn : 0 < n) (h : n < 10 ^ 12) :
    occTexts En.lang zeroThr (List.replicate k Spec.En.zeroWord ++ Spec.En.cardinal v n) =
      some [List.replicate k '0' ++ decChars n] :=
  scan_of_validate _ _ (C16_validate_en' v k n hn h)

theorem C04_scan_en (v : Spec.Var) (n : Nat) (hn : 0 < n) (h : n < 10 ^ 12) (plural : Bool)
    (hp : plural = true → Spec.En.pluralOk n = true) :
    occTexts En.lang zeroThr (Spec.En.ordinal v n plural) = some [decChars n ++ Spec.En.ordinalMarker n plural] :=
  scan_of_validate _ _ (C04_validate_en' v n hn h plural hp)

end T2N.EnExt
