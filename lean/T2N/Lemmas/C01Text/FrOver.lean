/-
  T2N.Lemmas.C01Text.FrOver — every word of a spelled French cardinal is a word over the alphabet (a letter,
  then letters or hyphens). French words are numerals or lists of numerals joined by hyphens.
-/
import T2N.Lemmas.C01Text

namespace T2N.C01Text.FrOver
open T2N T2N.Spec T2N.C01Text

theorem unit_ok : ∀ d, d < 17 → isOver (Spec.Fr.unitWord d) = true := by decide

theorem tens_ok : ∀ t, t < 7 → 2 ≤ t → isOver (Spec.Fr.tensWords.getD t []) = true := by decide

theorem teens_ok (n : Nat) (h : n < 20) : allOver (Spec.Fr.teens n) = true := by
  unfold Spec.Fr.teens
  by_cases h17 : n < 17
  · rw [if_pos h17, allOver_cons, allOver_nil, unit_ok n h17]; rfl
  · rw [if_neg h17, allOver_cons, allOver_cons, allOver_nil, unit_ok _ (by omega)]; decide

theorem regular_ok (t : Word) (u : Nat) (ht : isOver t = true) (hu : u < 10) :
    allOver (Spec.Fr.regular t u) = true := by
  unfold Spec.Fr.regular
  split
  · rw [allOver_cons, allOver_nil, ht]; rfl
  · split
    · rw [allOver_cons, allOver_cons, allOver_cons, allOver_nil, ht]; decide
    · rw [allOver_cons, allOver_cons, allOver_nil, ht, unit_ok u (by omega)]; rfl

theorem below100_ok (v : Var) (g n : Nat) (sOk : Bool) (h : n < 100) :
    allOver (Spec.Fr.below100 v g n sOk) = true := by
  unfold Spec.Fr.below100
  by_cases h20 : n < 20
  · rw [if_pos h20]; exact teens_ok n h20
  · rw [if_neg h20]
    dsimp only
    have hu : n % 10 < 10 := Nat.mod_lt _ (by decide)
    split
    · exact regular_ok _ _ (tens_ok _ (by omega) (by omega)) hu
    · split
      · split
        · exact regular_ok _ _ (by decide) hu
        · split
          · decide
          · rw [allOver_cons, teens_ok _ (by omega)]; decide
      · split
        · split
          · split
            · rw [allOver_cons, allOver_cons, allOver_nil]
              split <;> decide
            · rw [allOver_cons, allOver_cons, allOver_cons, allOver_nil, unit_ok _ (by omega)]; decide
          · exact regular_ok _ _ (by decide) hu
          · exact regular_ok _ _ (by decide) hu
        · split
          · exact regular_ok _ _ (by decide) hu
          · rw [allOver_cons, allOver_cons, teens_ok _ (by omega)]; decide

/-- a non-empty list of words over the alphabet, hyphenated, is a word over the alphabet -/
theorem hyphenate_ok : ∀ ws : List Word, ws ≠ [] → allOver ws = true → isOver (Spec.Fr.hyphenate ws) = true
  | [], h, _ => absurd rfl h
  | [w], _, h => by
    rw [allOver_cons, Bool.and_eq_true] at h
    exact h.1
  | w :: w2 :: ws, _, h => by
    rw [allOver_cons, Bool.and_eq_true] at h
    show isOver (w ++ ['-'] ++ Spec.Fr.hyphenate (w2 :: ws)) = true
    exact isOver_hyphen h.1 (hyphenate_ok (w2 :: ws) (by simp) h.2)

theorem hundreds_ok (v : Var) (g h : Nat) (sOk : Bool) (h9 : h < 10) :
    allOver (Spec.Fr.hundreds v g h sOk) = true := by
  unfold Spec.Fr.hundreds
  split
  · rfl
  · split
    · decide
    · rw [allOver_cons, allOver_cons, allOver_nil, unit_ok _ (by omega)]
      split <;> decide

theorem hundreds_ne (v : Var) (g h : Nat) (sOk : Bool) (h0 : h ≠ 0) : Spec.Fr.hundreds v g h sOk ≠ [] := by
  unfold Spec.Fr.hundreds
  rw [if_neg (by simp [h0])]
  split <;> simp

theorem group_ok (v : Var) (g n : Nat) (sOk : Bool) (n0 : n ≠ 0) (n1 : n < 1000) :
    allOver (Spec.Fr.group v g n sOk) = true := by
  unfold Spec.Fr.group
  dsimp only
  have hh := hundreds_ok v g (n / 100) (sOk && n % 100 == 0) (by omega)
  have hhne : n % 100 = 0 → Spec.Fr.hundreds v g (n / 100) (sOk && n % 100 == 0) ≠ [] :=
    fun hr => hundreds_ne v g _ _ (by omega)
  have hr : allOver (if (n % 100 == 0) = true then [] else Spec.Fr.below100 v g (n % 100) sOk) = true := by
    split
    · rfl
    · exact below100_ok v g _ sOk (Nat.mod_lt _ (by decide))
  have hrne : n % 100 ≠ 0 →
      (if (n % 100 == 0) = true then [] else Spec.Fr.below100 v g (n % 100) sOk) ≠ [] := by
    intro h
    rw [if_neg (by simp [h])]
    exact T2N.C01Fr.below100_ne v g _ sOk
  generalize Spec.Fr.hundreds v g (n / 100) (sOk && n % 100 == 0) = hs at hh hhne
  generalize (if (n % 100 == 0) = true then [] else Spec.Fr.below100 v g (n % 100) sOk) = rs at hr hrne
  have hne : hs ++ rs ≠ [] := by
    intro e
    have ⟨e1, e2⟩ := List.append_eq_nil_iff.mp e
    by_cases h : n % 100 = 0
    · exact hhne h e1
    · exact hrne h e2
  split
  · rw [allOver_append, hh, Bool.true_and]
    split
    · rfl
    · split
      · exact hr
      · rename_i hemp _
        rw [allOver_cons, allOver_nil, hyphenate_ok rs (by intro e; rw [e] at hemp; exact hemp rfl) hr]; rfl
  · rw [allOver_append, hh, hr]; rfl
  · rw [allOver_cons, allOver_nil, hyphenate_ok _ hne (by rw [allOver_append, hh, hr]; rfl)]; rfl

theorem thousands_ok (v : Var) (n : Nat) (mil : Bool) (n1 : n < 1000) :
    allOver (Spec.Fr.thousands v n mil) = true := by
  unfold Spec.Fr.thousands
  by_cases h0 : n = 0
  · rw [if_pos (by simp [h0])]; rfl
  · rw [if_neg (by simp [h0])]
    split
    · rw [allOver_cons, allOver_nil]
      split <;> decide
    · have hg : allOver (Spec.Fr.group v 1 n false ++ [w!"mille"]) = true := by
        rw [allOver_append, group_ok v 1 n false h0 n1]; decide
      split
      · rw [allOver_cons, allOver_nil, hyphenate_ok _ (by simp) hg]; rfl
      · exact hg

theorem scaled_ok (v : Var) (g n : Nat) (n1 : n < 1000) : allOver (Spec.Fr.scaled v g n) = true := by
  unfold Spec.Fr.scaled
  by_cases h0 : n = 0
  · rw [if_pos (by simp [h0])]; rfl
  · rw [if_neg (by simp [h0])]
    dsimp only
    rw [allOver_append, group_ok v g n true h0 n1, allOver_cons, allOver_nil]
    split <;> split <;> decide

theorem low_ok (v : Var) (g1 g0 : Nat) (mil : Bool) (h1 : g1 < 1000) (h0 : g0 < 1000) :
    allOver (Spec.Fr.low v g1 g0 mil) = true := by
  unfold Spec.Fr.low
  dsimp only
  have hp0 : allOver (if (g0 == 0) = true then [] else Spec.Fr.group v 0 g0 true) = true := by
    by_cases hz : g0 = 0
    · rw [if_pos (by simp [hz])]; rfl
    · rw [if_neg (by simp [hz])]; exact group_ok v 0 g0 true hz h0
  have hall : allOver (Spec.Fr.thousands v g1 mil ++
      (if (g0 == 0) = true then [] else Spec.Fr.group v 0 g0 true)) = true := by
    rw [allOver_append, thousands_ok v g1 mil h1, hp0]; rfl
  by_cases hc : (g1 != 0 && g0 != 0 && Spec.Fr.reform v 1 && Spec.Fr.reform v 0) = true
  · rw [if_pos hc, allOver_cons, allOver_nil, hyphenate_ok _ ?_ hall]; rfl
    simp only [Bool.and_eq_true, bne_iff_ne] at hc
    have g1ne : g1 ≠ 0 := hc.1.1.1
    intro e
    have ⟨e1, _⟩ := List.append_eq_nil_iff.mp e
    unfold Spec.Fr.thousands at e1
    rw [if_neg (by simp [g1ne])] at e1
    revert e1
    split
    · simp
    · split <;> simp
  · rw [if_neg hc]; exact hall

theorem cardinal_ok (v : Var) (n : Nat) : allOver (Spec.Fr.cardinal v n) = true := by
  unfold Spec.Fr.cardinal
  split
  · decide
  · dsimp only
    rw [allOver_append, allOver_append, scaled_ok v 3 _ (Nat.mod_lt _ (by decide)),
      scaled_ok v 2 _ (Nat.mod_lt _ (by decide)),
      low_ok v _ _ _ (Nat.mod_lt _ (by decide)) (Nat.mod_lt _ (by decide))]
    rfl

/-- every word of a spelled French cardinal is over the alphabet -/
theorem cardinal_over (v : Var) (n : Nat) : ∀ w ∈ Spec.Fr.cardinal v n, isOver w = true :=
  allOver_mem (cardinal_ok v n)

end T2N.C01Text.FrOver
