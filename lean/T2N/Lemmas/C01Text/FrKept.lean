/-
  T2N.Lemmas.C01Text.FrKept — the converse of the French text theorem for the lone `neuf`: when the words before
  it make the pass fire (`frNeufMarked pre = true`), the `neuf` is marked "not a number" and the text is left
  unchanged, at every threshold. So for `n = 9` the hypothesis of the French theorem is necessary and sufficient.
-/
import T2N.Lemmas.C01Text.Fr
import T2N.Lemmas.C01Text.Assemble
import T2N.Lemmas.LangFacts

namespace T2N.C01Text.Fr
open T2N T2N.Lift T2N.Spec T2N.C01Text T2N.ResetText

theorem evens_append : ∀ (a c n : Nat), evens n (a + c) = evens n a ++ evens (n + 2 * a) c
  | 0, c, n => by rw [Nat.zero_add]; rfl
  | a + 1, c, n => by
    have e : a + 1 + c = (a + c) + 1 := by omega
    rw [e, evens, evens, evens_append a c (n + 2), List.cons_append]
    have e2 : n + 2 + 2 * a = n + 2 * (a + 1) := by omega
    rw [e2]

theorem mem_evens : ∀ (k n x : Nat), x ∈ evens n k → ∃ j, j < k ∧ x = n + 2 * j
  | 0, _, _, h => by cases h
  | k + 1, n, x, h => by
    rw [evens] at h
    rcases List.mem_cons.mp h with rfl | h
    · exact ⟨0, by omega, rfl⟩
    · obtain ⟨j, hj, rfl⟩ := mem_evens k (n + 2) x h
      exact ⟨j + 1, by omega, by omega⟩

/-- the only `neuf` of `pre ++ [neuf] ++ post` (refused words around) is at position `|pre|` -/
theorem amb_lone (pre post : List Word) (hpre : ∀ w ∈ pre, w ≠ w!"neuf") (hpost : ∀ w ∈ post, w ≠ w!"neuf") :
    idxsFrom (fun i => lowerAt (wordTokens (pre ++ [w!"neuf"] ++ post)) i == w!"neuf") 0
      (evens 0 (pre ++ [w!"neuf"] ++ post).length) = [pre.length] := by
  have hlen : (pre ++ [w!"neuf"] ++ post).length = pre.length + (1 + post.length) := by
    simp only [List.length_append, List.length_cons, List.length_nil]; omega
  have hlow : ∀ k, k < (pre ++ [w!"neuf"] ++ post).length →
      lowerAt (wordTokens (pre ++ [w!"neuf"] ++ post)) (2 * k) = (pre ++ [w!"neuf"] ++ post).getD k [] :=
    fun k hk => lowerAt_wordTokens _ k hk
  rw [hlen, evens_append, idxsFrom_append, length_evens]
  have e1 : evens (0 + 2 * pre.length) (1 + post.length) =
      (2 * pre.length) :: evens (2 * pre.length + 2) post.length := by
    rw [Nat.add_comm 1, evens, Nat.zero_add]
  rw [e1, idxsFrom_cons]
  have hA : idxsFrom (fun i => lowerAt (wordTokens (pre ++ [w!"neuf"] ++ post)) i == w!"neuf") 0
      (evens 0 pre.length) = [] := by
    apply idxsFrom_none
    intro x hx
    obtain ⟨j, hj, rfl⟩ := mem_evens _ _ _ hx
    rw [Nat.zero_add, hlow j (by omega), List.append_assoc, getD_pre pre _ j hj]
    rw [beq_eq_false_iff_ne]
    exact hpre _ (getD_mem hj)
  have hC : idxsFrom (fun i => lowerAt (wordTokens (pre ++ [w!"neuf"] ++ post)) i == w!"neuf") (0 + pre.length + 1)
      (evens (2 * pre.length + 2) post.length) = [] := by
    apply idxsFrom_none
    intro x hx
    obtain ⟨j, hj, rfl⟩ := mem_evens _ _ _ hx
    have e : 2 * pre.length + 2 + 2 * j = 2 * (pre.length + 1 + j) := by omega
    rw [e, hlow _ (by omega)]
    have := getD_post pre [w!"neuf"] post j
    simp only [List.length_cons, List.length_nil] at this
    rw [this, beq_eq_false_iff_ne]
    exact hpost _ (getD_mem hj)
  have hB : (lowerAt (wordTokens (pre ++ [w!"neuf"] ++ post)) (2 * pre.length) == w!"neuf") = true := by
    rw [hlow _ (by omega)]
    have := getD_mid pre [w!"neuf"] post 0 (by simp)
    rw [Nat.add_zero] at this
    rw [this]
    rfl
  rw [hA, hB, if_pos rfl, hC]
  simp

/-- the token of a marked `neuf` -/
def nanNeuf : Tok := { text := w!"neuf", lower := w!"neuf", nan := true }

/-- the pass marks the lone `neuf` -/
theorem annotateFr_lone {cc : CharClasses} (L : TextLaws cc) (pre post : List Word)
    (hpre : ∀ w ∈ pre, T2N.Fr.lang.Rejects w) (hpost : ∀ w ∈ post, T2N.Fr.lang.Rejects w)
    (htok : ∀ w ∈ pre ++ [w!"neuf"] ++ post, isTokWord cc w = true) (hm : frNeufMarked pre = true) :
    annotateFr cc T2N.Fr.lang.apply T2N.Fr.lang.isDecSep (wordTokens (pre ++ [w!"neuf"] ++ post)) =
      preToks pre ++ [nanNeuf] ++ postToks post := by
  have hnr : ∀ w, T2N.Fr.lang.Rejects w → w ≠ w!"neuf" := fun w h => ne_of_rejects h neuf_acc
  rw [annotateFr_eq, tw_wordTokens L _ htok,
    amb_lone pre post (fun w hw => hnr w (hpre w hw)) (fun w hw => hnr w (hpost w hw)), frLoop_step]
  have hi : pre.length < (pre ++ [w!"neuf"] ++ post).length := by
    simp only [List.length_append, List.length_cons, List.length_nil]; omega
  rw [frDec_wordTokens _ _ hi, frDecW_lone pre post hpre hpost, hm, if_pos rfl, getD_evens _ _ _ hi, Nat.zero_add]
  show setNan _ _ = _
  have htoks : wordTokens (pre ++ [w!"neuf"] ++ post) = preToks pre ++ [wtok w!"neuf"] ++ postToks post := by
    rw [List.append_assoc, wordTokens_pre pre ([w!"neuf"] ++ post) (by simp), wordTokens_post [w!"neuf"] post (by simp),
      List.append_assoc]
    rfl
  have e : 2 * pre.length = 0 + (preToks pre).length := by rw [length_preToks]; omega
  rw [htoks, e, setNan_mid (preToks pre) [wtok w!"neuf"] (postToks post) 0 (by simp)]
  rfl

/-- the scanner finds nothing in a stream of refused words, spaces and a marked token -/
theorem findNumbers_lone {cc : CharClasses} (L : TextLaws cc) (thr : Nat → Bool) (pre post : List Word)
    (hpre : ∀ w ∈ pre, T2N.Fr.lang.Rejects w) (hpost : ∀ w ∈ post, T2N.Fr.lang.Rejects w) :
    findNumbers { lang := T2N.Fr.lang, cc := cc, sep := noSep, thrLt := thr }
      (preToks pre ++ [nanNeuf] ++ postToks post) = .ok [] := by
  have hq : ∀ t ∈ preToks pre ++ [nanNeuf] ++ postToks post,
      Quiet { lang := T2N.Fr.lang, cc := cc, sep := noSep, thrLt := thr } t := by
    have hword : ∀ w, T2N.Fr.lang.Rejects w →
        Quiet { lang := T2N.Fr.lang, cc := cc, sep := noSep, thrLt := thr } (wtok w) := fun w hw =>
      Or.inr (Or.inr ⟨rejectsSame_of_rejects T2N.Fr.lang Fr.apply_err_same Fr.applyDecimal_err_same w hw,
        Or.inl (fun _ => rfl)⟩)
    have hsp : Quiet { lang := T2N.Fr.lang, cc := cc, sep := noSep, thrLt := thr } sp :=
      Or.inl (skipped_sp _ L.space_ws)
    intro t ht
    rw [List.mem_append, List.mem_append] at ht
    rcases ht with (ht | ht) | ht
    · rcases mem_preToks ht with rfl | ⟨w, hw, rfl⟩
      · exact hsp
      · exact hword w (hpre w hw)
    · rw [List.mem_singleton] at ht
      subst ht
      exact Or.inr (Or.inl rfl)
    · rcases mem_postToks ht with rfl | ⟨w, hw, rfl⟩
      · exact hsp
      · exact hword w (hpost w hw)
  have := findNumbers_quiet_suffix { lang := T2N.Fr.lang, cc := cc, sep := noSep, thrLt := thr } [] _ hq
  rw [List.nil_append] at this
  rw [this]
  rfl

/-- **the lone `neuf` after words that make the pass fire is kept**: the text is unchanged, at every threshold -/
theorem replaceText_lone_kept {cc : CharClasses} (L : TextLaws cc) (A : AlphaLaws cc) (thr : Nat → Bool)
    (pre post : List Word) (hpre : ∀ w ∈ pre, Ordinary cc T2N.Fr.lang w) (hpost : ∀ w ∈ post, Ordinary cc T2N.Fr.lang w)
    (hm : frNeufMarked pre = true) :
    replaceText cc .french thr (joinWords (pre ++ [w!"neuf"] ++ post)) =
      .ok (joinWords (pre ++ [w!"neuf"] ++ post)) := by
  have hplain := plain_of_parts L A T2N.Fr.lang pre [w!"neuf"] post hpre
    (fun w hw => by rw [List.mem_singleton.mp hw]; decide) hpost
  unfold replaceText replaceTextWith
  dsimp only
  rw [tokenize_join L _ hplain]
  have hann : Language.french.annotate cc (wordTokens (pre ++ [w!"neuf"] ++ post)) =
      preToks pre ++ [nanNeuf] ++ postToks post :=
    annotateFr_lone L pre post (fun w hw => (hpre w hw).1) (fun w hw => (hpost w hw).1)
      (fun w hw => isPlainWord_tok (hplain w hw)) hm
  have hfind : findNumbers { lang := Language.french.interp, cc := cc, sep := noSep, thrLt := thr }
      (preToks pre ++ [nanNeuf] ++ postToks post) = .ok [] :=
    findNumbers_lone L thr pre post (fun w hw => (hpre w hw).1) (fun w hw => (hpost w hw).1)
  rw [hann, hfind]
  show Except.ok ((preToks pre ++ [nanNeuf] ++ postToks post).flatMap (·.text)) = _
  simp only [List.flatMap_append, List.flatMap_cons, List.flatMap_nil, List.append_nil]
  have h1 := flatMap_text_postToks post w!"neuf" []
  rw [List.nil_append] at h1
  have e : joinWords [w!"neuf"] = w!"neuf" := rfl
  rw [e] at h1
  show Except.ok ((preToks pre).flatMap (·.text) ++ w!"neuf" ++ (postToks post).flatMap (·.text)) = _
  rw [List.append_assoc, h1, flatMap_text_preToks pre ([w!"neuf"] ++ post) (by simp), List.append_assoc]

/-- every spelling of 9 is the single word `neuf` -/
theorem cardinal_nine (v : Var) : Spec.Fr.cardinal v 9 = [w!"neuf"] := by
  have hg : Spec.Fr.group v 0 9 true = [w!"neuf"] := by
    unfold Spec.Fr.group
    dsimp only
    split <;> rfl
  have : Spec.Fr.cardinal v 9 = Spec.Fr.group v 0 9 true := by
    unfold Spec.Fr.cardinal Spec.Fr.scaled Spec.Fr.low Spec.Fr.thousands
    rfl
  rw [this, hg]

end T2N.C01Text.Fr
