/-
  T2N.Lemmas.C01Text.Fr — the French annotation pass (`neuf`: nine / new) on a sentence that contains a spelled
  cardinal.

  F1. on `wordTokens W` the decision of the pass for the word `W[i] = neuf` is a function `frDecW W i` of the
      words alone;
  F2. semantics of the French interpreter: a word accepted in some state is accepted by the fresh builder; a word
      answered `Incomplete` ends with the numeral `et`;
  F3. structure of `Spec.Fr.cardinal`: no word other than `et` ends with `et`; `et` never stands next to `neuf`;
  F4. hence a `neuf` of the spelling that has a neighbour in the spelling is never marked; a lone `neuf` (n = 9)
      is marked exactly when the words before it say so.
-/
import T2N.Lemmas.C01Text
import T2N.Lemmas.ErrFresh
import T2N.Lemmas.C01Fr
import T2N.Lemmas.C01Sent

namespace T2N.C01Text.Fr
open T2N T2N.Lift T2N.Spec T2N.C01Text T2N.ResetText

/-! ## F1. the pass on `wordTokens W` -/

/-- `n, n+2, …` (`k` terms) -/
def evens : Nat → Nat → List Nat
  | _, 0 => []
  | n, k + 1 => n :: evens (n + 2) k

theorem length_evens : ∀ (k n : Nat), (evens n k).length = k
  | 0, _ => rfl
  | k + 1, n => by rw [evens, List.length_cons, length_evens k]

theorem getD_evens : ∀ (k n j : Nat), j < k → (evens n k).getD j 0 = n + 2 * j
  | 0, _, _, h => by omega
  | k + 1, n, 0, _ => rfl
  | k + 1, n, j + 1, h => by
    rw [evens, List.getD_cons_succ, getD_evens k (n + 2) j (by omega)]
    omega

theorem trueWord_sp {cc : CharClasses} (L : TextLaws cc) : isTrueWord cc sp = false := by
  unfold isTrueWord sp
  dsimp only
  rw [List.all_cons, List.all_nil, L.space_not_alnum]
  rfl

theorem trueWord_wtok {cc : CharClasses} {w : Word} (h : isTokWord cc w = true) : isTrueWord cc (wtok w) = true := by
  obtain ⟨c, cs, rfl, hc⟩ := isTokWord_head h
  unfold isTrueWord wtok
  dsimp only
  rw [List.all_cons, hc]
  rfl

theorem idxs_postToks {cc : CharClasses} (L : TextLaws cc) : ∀ (l : List Word) (n : Nat),
    (∀ w ∈ l, isTokWord cc w = true) →
    idxsFrom (isTrueWord cc) n (postToks l) = evens (n + 1) l.length
  | [], _, _ => rfl
  | w :: l, n, h => by
    show idxsFrom (isTrueWord cc) n (sp :: wtok w :: postToks l) = _
    rw [idxsFrom_cons, trueWord_sp L, if_neg Bool.false_ne_true, idxsFrom_cons,
      trueWord_wtok (h w (List.mem_cons_self ..)), if_pos rfl,
      idxs_postToks L l (n + 1 + 1) (fun x hx => h x (List.mem_cons_of_mem _ hx))]
    rfl

/-- the "true words" of `wordTokens W` are the tokens at the even positions -/
theorem tw_wordTokens {cc : CharClasses} (L : TextLaws cc) (W : List Word) (h : ∀ w ∈ W, isTokWord cc w = true) :
    idxsFrom (isTrueWord cc) 0 (wordTokens W) = evens 0 W.length := by
  cases W with
  | nil => rfl
  | cons w l =>
    rw [wordTokens_cons, idxsFrom_cons, trueWord_wtok (h w (List.mem_cons_self ..)), if_pos rfl,
      idxs_postToks L l 1 (fun x hx => h x (List.mem_cons_of_mem _ hx))]
    rfl

theorem postToks_eq (w : Word) (l : List Word) : postToks (w :: l) = sp :: wordTokens (w :: l) := by
  rw [wordTokens_cons]; rfl

theorem get_wordTokens : ∀ (W : List Word) (k : Nat) (w : Word), W[k]? = some w →
    (wordTokens W)[2 * k]? = some (wtok w)
  | [], _, _, h => by cases h
  | w0 :: l, 0, w, h => by
    rw [wordTokens_cons]
    simp only [List.getElem?_cons_zero, Option.some.injEq] at h
    rw [h]
    rfl
  | w0 :: l, k + 1, w, h => by
    rw [List.getElem?_cons_succ] at h
    cases l with
    | nil => cases h
    | cons w1 l' =>
      have ih := get_wordTokens (w1 :: l') k w h
      rw [wordTokens_cons, postToks_eq]
      have e : 2 * (k + 1) = 2 * k + 1 + 1 := by omega
      rw [e, List.getElem?_cons_succ, List.getElem?_cons_succ]
      exact ih

theorem lowerAt_wordTokens (W : List Word) (k : Nat) (hk : k < W.length) :
    lowerAt (wordTokens W) (2 * k) = W.getD k [] := by
  have h1 : W[k]? = some (W[k]) := List.getElem?_eq_getElem hk
  have h2 := get_wordTokens W k _ h1
  rw [lowerAt_of_get h2, List.getD_eq_getElem?_getD, h1]
  rfl

/-- the decision of the pass for the word at position `i`, as a function of the words: two or three words before
stands an article, the word before is neither `numéro` nor the decimal separator, and neither neighbour is accepted
by the fresh builder (no following word counts as refused) -/
def frDecW (W : List Word) (i : Nat) : Bool :=
  decide (2 ≤ i) &&
  (frArticles.contains (W.getD (i - 2) []) || (decide (i > 2) && frArticles.contains (W.getD (i - 3) []))) &&
  (W.getD (i - 1) [] != w!"numéro" && !T2N.Fr.lang.isDecSep (W.getD (i - 1) [])) &&
  (T2N.Fr.apply (W.getD (i - 1) []) DS.new).1.isSome &&
  (T2N.Fr.apply (if i + 1 < W.length then W.getD (i + 1) [] else []) DS.new).1.isSome

theorem frWord_wordTokens (W : List Word) (k : Nat) (hk : k < W.length) :
    frWord (evens 0 W.length) (wordTokens W) k = W.getD k [] := by
  unfold frWord
  rw [getD_evens _ _ _ hk, Nat.zero_add, lowerAt_wordTokens W k hk]

theorem snd_of_isSome (w : Word) (h : (T2N.Fr.apply w DS.new).1.isSome = true) : (T2N.Fr.apply w DS.new).2 = DS.new := by
  cases hr : (T2N.Fr.apply w DS.new).1 with
  | none => rw [hr] at h; cases h
  | some e => exact ErrFreshAll.fr_apply_fresh w e hr

theorem frDec_wordTokens (W : List Word) (i : Nat) (hi : i < W.length) :
    frDec T2N.Fr.lang.apply T2N.Fr.lang.isDecSep (evens 0 W.length) i (wordTokens W) = frDecW W i := by
  unfold frDec frDecW
  by_cases h2 : 2 ≤ i
  · rw [frWord_wordTokens W (i - 2) (by omega), frWord_wordTokens W (i - 3) (by omega),
      frWord_wordTokens W (i - 1) (by omega), length_evens]
    have e : (if i + 1 < W.length then frWord (evens 0 W.length) (wordTokens W) (i + 1) else []) =
        (if i + 1 < W.length then W.getD (i + 1) [] else []) := by
      by_cases h : i + 1 < W.length
      · rw [if_pos h, if_pos h, frWord_wordTokens W (i + 1) h]
      · rw [if_neg h, if_neg h]
    rw [e]
    show (_ && (T2N.Fr.apply (W.getD (i - 1) []) DS.new).1.isSome &&
      (T2N.Fr.apply _ (T2N.Fr.apply (W.getD (i - 1) []) DS.new).2).1.isSome) = _
    cases hs : (T2N.Fr.apply (W.getD (i - 1) []) DS.new).1.isSome with
    | false => simp only [Bool.and_false, Bool.false_and]
    | true => rw [snd_of_isSome _ hs]
  · rw [decide_eq_false h2]
    simp only [Bool.false_and]

/-- the French pass on `wordTokens W` leaves the tokens alone when the decision is negative for every `neuf` -/
theorem annotateFr_wordTokens {cc : CharClasses} (L : TextLaws cc) (W : List Word)
    (htok : ∀ w ∈ W, isTokWord cc w = true)
    (h : ∀ i, i < W.length → W.getD i [] = w!"neuf" → frDecW W i = false) :
    annotateFr cc T2N.Fr.lang.apply T2N.Fr.lang.isDecSep (wordTokens W) = wordTokens W := by
  rw [annotateFr_eq, tw_wordTokens L W htok]
  apply frLoop_id
  intro i hi
  obtain ⟨x, hx, hn⟩ := mem_idxs _ _ i hi
  have hlt : i < W.length := by
    have := lt_of_getElem? hx
    rwa [length_evens] at this
  have hx' : x = 2 * i := by
    have := getD_evens W.length 0 i hlt
    rw [List.getD_eq_getElem?_getD, hx] at this
    simpa using this
  rw [frDec_wordTokens W i hlt]
  apply h i hlt
  rw [hx', lowerAt_wordTokens W i hlt] at hn
  exact eq_of_beq hn

/-! ## F2. semantics of the French interpreter -/

/-- the instruction fails on every builder -/
def alwaysFails : Act → Bool
  | .fail _ => true
  | .ite _ a b => alwaysFails a && alwaysFails b
  | .block _ a => alwaysFails a
  | _ => false

theorem alwaysFails_exec (a : Act) : alwaysFails a = true → ∀ b, (a.exec b).1 ≠ none := by
  induction a with
  | fail e => intro _ b h; cases h
  | ite g x y ihx ihy =>
    intro h b
    simp only [alwaysFails, Bool.and_eq_true] at h
    simp only [Act.exec]
    split
    · exact ihx h.1 b
    · exact ihy h.2 b
  | block m x ih =>
    intro h b
    simp only [alwaysFails] at h
    simp only [Act.exec]
    exact ih h b
  | put _ => intro h; cases h
  | fput _ => intro h; cases h
  | shift _ => intro h; cases h
  | putAt _ _ => intro h; cases h
  | push _ => intro h; cases h

/-- the instruction may answer `Incomplete` -/
def canInc : Act → Bool
  | .fail e => e == .incomplete
  | .ite _ a b => canInc a || canInc b
  | .block _ a => canInc a
  | _ => false

theorem put_not_inc (b : DS) (ds : List Nat) : (b.put ds).1 ≠ some .incomplete := by
  unfold DS.put
  repeat' split
  all_goals (intro h; cases h)

theorem fput_not_inc (b : DS) (ds : List Nat) : (b.fput ds).1 ≠ some .incomplete := by
  unfold DS.fput
  repeat' split
  all_goals (intro h; cases h)

theorem push_not_inc (b : DS) (ds : List Nat) : (b.push ds).1 ≠ some .incomplete := by
  unfold DS.push
  repeat' split
  all_goals (intro h; cases h)

theorem putAt_not_inc (b : DS) (d p : Nat) : (b.putDigitAt d p).1 ≠ some .incomplete := by
  unfold DS.putDigitAt
  repeat' split
  all_goals (intro h; cases h)

theorem shift_not_inc (b : DS) (p : Nat) : (b.shift p).1 ≠ some .incomplete := by
  unfold DS.shift
  repeat' split
  all_goals (intro h; cases h)

theorem canInc_exec (a : Act) : ∀ b, (a.exec b).1 = some .incomplete → canInc a = true := by
  induction a with
  | fail e => intro b h; simp only [Act.exec] at h; cases h; rfl
  | ite g x y ihx ihy =>
    intro b h
    simp only [Act.exec] at h
    simp only [canInc, Bool.or_eq_true]
    split at h
    · exact Or.inl (ihx b h)
    · exact Or.inr (ihy b h)
  | block m x ih =>
    intro b h
    simp only [Act.exec] at h
    exact ih b h
  | put ds => intro b h; simp only [Act.exec] at h; exact absurd h (put_not_inc b ds)
  | fput ds => intro b h; simp only [Act.exec] at h; exact absurd h (fput_not_inc b ds)
  | shift k => intro b h; simp only [Act.exec] at h; exact absurd h (shift_not_inc b k)
  | putAt d p => intro b h; simp only [Act.exec] at h; exact absurd h (putAt_not_inc b d p)
  | push ds => intro b h; simp only [Act.exec] at h; exact absurd h (push_not_inc b ds)

/-- the numeral is `et` (up to the plural mark the lemmatizer strips) -/
def isEt (a : Word) : Bool := T2N.Fr.lemmatize a == w!"et"

/-- the last `-`-separated part of a word -/
def lastPart (w : Word) : Word := ((splitOnChar '-' w).getLast?).getD []

theorem vocab_fresh :
    (T2N.Fr.vocab.all fun p => (fun a => (a.exec DS.new).1.isNone || alwaysFails a) p.2) = true := by decide

theorem vocab_inc : (T2N.Fr.vocab.all fun p => (fun k a => !canInc a || k == w!"et") p.1 p.2) = true := by decide

theorem lookup_pair (P : Word → Act → Bool) (l : List (Word × Act)) (hl : (l.all fun p => P p.1 p.2) = true)
    (k : Word) (a : Act) (h : l.lookup k = some a) : P k a = true := by
  induction l with
  | nil => cases h
  | cons p ps ih =>
    cases p with
    | mk k' v =>
      rw [List.all_cons, Bool.and_eq_true] at hl
      rw [List.lookup_cons] at h
      cases hk : (k == k') with
      | true =>
        rw [hk] at h
        have e1 : k = k' := eq_of_beq hk
        have e2 : v = a := by injection h
        rw [e1, ← e2]
        exact hl.1
      | false =>
        rw [hk] at h
        exact ih hl.2 h

/-- the status of a hyphen-free word is that of its instruction -/
theorem atom_fst (f : Nat) (w : Word) (b : DS) (h : w.contains '-' = false) :
    (T2N.Fr.applyFuel (f + 1) w b).1 =
      (((T2N.Fr.vocab.lookup (T2N.Fr.lemmatize w)).getD (.fail .nan)).exec b).1 := by
  unfold T2N.Fr.applyFuel
  rw [if_neg (by rw [h]; exact Bool.false_ne_true)]
  dsimp only
  cases hr : ((T2N.Fr.vocab.lookup (T2N.Fr.lemmatize w)).getD (.fail .nan)).exec b with
  | mk r rest =>
    cases rest with
    | mk b' tb =>
      dsimp only
      split <;> rfl

theorem atom_acc (f : Nat) (w : Word) (b : DS) (h : w.contains '-' = false)
    (hn : (T2N.Fr.applyFuel (f + 1) w b).1 = none) : (T2N.Fr.applyFuel (f + 1) w DS.new).1 = none := by
  rw [atom_fst f w b h] at hn
  rw [atom_fst f w DS.new h]
  have := ErrFreshAll.lookup_all (fun a => (a.exec DS.new).1.isNone || alwaysFails a) T2N.Fr.vocab vocab_fresh
    (by decide) (T2N.Fr.lemmatize w)
  rw [Bool.or_eq_true] at this
  rcases this with h1 | h1
  · exact Option.isNone_iff_eq_none.mp h1
  · exact absurd hn (alwaysFails_exec _ h1 b)

theorem atom_inc (f : Nat) (w : Word) (b : DS) (h : w.contains '-' = false)
    (hi : (T2N.Fr.applyFuel (f + 1) w b).1 = some .incomplete) : isEt w = true := by
  rw [atom_fst f w b h] at hi
  have hc := canInc_exec _ b hi
  cases hl : T2N.Fr.vocab.lookup (T2N.Fr.lemmatize w) with
  | none => rw [hl] at hc; cases hc
  | some a =>
    rw [hl] at hc
    have := lookup_pair (fun k a => !canInc a || k == w!"et") T2N.Fr.vocab vocab_inc _ a hl
    have hc' : canInc a = true := hc
    rw [hc'] at this
    exact this

theorem merge_fresh (b ds : DS) (cf : Bool) (m : Marker) (h : (mergeGroup b ds cf m).1 = none) :
    (mergeGroup DS.new ds cf m).1 = none := by
  unfold mergeGroup at h ⊢
  have hrf : DS.new.rangeFree 3 5 = true := rfl
  rw [hrf]
  simp only [Bool.not_true, Bool.and_false, Bool.false_eq_true, if_false]
  split at h
  · cases h
  · have hput : (b.put ds.rbuf.reverse).1 = none := by
      cases hp : b.put ds.rbuf.reverse with
      | mk r b' =>
        rw [hp] at h
        cases r with
        | none => rfl
        | some e => cases h
    have hnew : (DS.new.put ds.rbuf.reverse).1 = none := by
      unfold DS.put at hput ⊢
      have hf : DS.new.frozen = false := rfl
      have he : DS.new.rbuf.isEmpty = true := rfl
      rw [hf, he]
      simp only [Bool.false_eq_true, if_false, Bool.true_and, if_true]
      by_cases h0 : (ds.rbuf.reverse == [0]) = true
      · rw [if_pos h0]
      · rw [if_neg h0]
        by_cases hz : allZero ds.rbuf.reverse = true
        · exfalso
          split at hput
          · cases hput
          · split at hput
            · rename_i hc
              rw [Bool.and_eq_true] at hc
              exact h0 hc.2
            · cases hput
        · rw [if_neg hz]
    cases hp : DS.new.put ds.rbuf.reverse with
    | mk r b' =>
      rw [hp] at hnew
      cases r with
      | none => rfl
      | some e => cases hnew

theorem splitOnChar_go_ne_nil (c : Char) : ∀ (w cur : Word), splitOnChar.go c w cur ≠ [] := by
  intro w
  induction w with
  | nil => intro cur; simp [splitOnChar.go]
  | cons x xs ih =>
    intro cur
    unfold splitOnChar.go
    split
    · simp
    · exact ih _

theorem splitOnChar_ne_nil (c : Char) (w : Word) : splitOnChar c w ≠ [] := splitOnChar_go_ne_nil c w []

/-- **a word accepted in some state is accepted by the fresh builder** -/
theorem acc_of_none (w : Word) (b : DS) (h : (T2N.Fr.apply w b).1 = none) : (T2N.Fr.apply w DS.new).1 = none := by
  by_cases hc : w.contains '-' = true
  · unfold T2N.Fr.apply T2N.Fr.applyFuel at h ⊢
    rw [if_pos hc] at h ⊢
    cases hx : execGroup (T2N.Fr.applyFuel 1) (splitOnChar '-' w) with
    | error e => rw [hx] at h; cases h
    | ok ds =>
      rw [hx] at h
      exact merge_fresh b ds true ds.marker h
  · have hc' : w.contains '-' = false := by simpa using hc
    exact atom_acc 1 w b hc' h

/-- `execGroupFrom` answers `Incomplete` only when the last word does -/
theorem execGroupFrom_inc (f : Word → DS → Res × DS) : ∀ (l : List Word) (b : DS) (inc : Bool),
    execGroupFrom f l b inc = .error .incomplete →
    (l = [] ∧ inc = true) ∨ ∃ x b', l.getLast? = some x ∧ (f x b').1 = some .incomplete := by
  intro l
  induction l with
  | nil =>
    intro b inc h
    left
    unfold execGroupFrom at h
    cases inc with
    | true => exact ⟨rfl, rfl⟩
    | false => cases h
  | cons w ws ih =>
    intro b inc h
    right
    unfold execGroupFrom at h
    cases hr : f w b with
    | mk r b' =>
      rw [hr] at h
      cases r with
      | none =>
        dsimp only at h
        rcases ih b' false h with ⟨_, h2⟩ | ⟨x, b'', h1, h2⟩
        · cases h2
        · refine ⟨x, b'', ?_, h2⟩
          cases ws with
          | nil => cases h1
          | cons y ys => rw [List.getLast?_cons_cons]; exact h1
      | some e =>
        cases e with
        | incomplete =>
          dsimp only at h
          rcases ih b' true h with ⟨h1, _⟩ | ⟨x, b'', h1, h2⟩
          · subst h1
            exact ⟨w, b, rfl, by rw [hr]⟩
          · refine ⟨x, b'', ?_, h2⟩
            cases ws with
            | nil => cases h1
            | cons y ys => rw [List.getLast?_cons_cons]; exact h1
        | overlap => cases h
        | nan => cases h
        | frozen => cases h

theorem merge_not_inc (b ds : DS) (cf : Bool) (m : Marker) : (mergeGroup b ds cf m).1 ≠ some .incomplete := by
  unfold mergeGroup
  split
  · intro h; cases h
  · cases hp : b.put ds.rbuf.reverse with
    | mk r b' =>
      have := put_not_inc b ds.rbuf.reverse
      rw [hp] at this
      cases r with
      | none => intro h; cases h
      | some e => exact this

/-- a part (of fuel 1) answered `Incomplete` is the numeral `et` -/
theorem part_inc (x : Word) (b : DS) (h : (T2N.Fr.applyFuel 1 x b).1 = some .incomplete) : isEt x = true := by
  by_cases hc : x.contains '-' = true
  · exfalso
    unfold T2N.Fr.applyFuel at h
    rw [if_pos hc] at h
    obtain ⟨y, ys, hy⟩ := List.exists_cons_of_ne_nil (splitOnChar_ne_nil '-' x)
    rw [hy] at h
    have : execGroup (T2N.Fr.applyFuel 0) (y :: ys) = .error .nan := rfl
    rw [this] at h
    cases h
  · have hc' : x.contains '-' = false := by simpa using hc
    exact atom_inc 0 x b hc' h

theorem split_atom' (w : Word) (h : w.contains '-' = false) : splitOnChar '-' w = [w] := by
  unfold splitOnChar
  have := C01En.splitOnChar_go_nohyphen w [] [] h
  rw [List.append_nil] at this
  rw [this, splitOnChar.go]
  simp

/-- **a word answered `Incomplete` ends with the numeral `et`** -/
theorem etEnd_of_inc (w : Word) (b : DS) (h : (T2N.Fr.apply w b).1 = some .incomplete) :
    isEt (lastPart w) = true := by
  by_cases hc : w.contains '-' = true
  · unfold T2N.Fr.apply T2N.Fr.applyFuel at h
    rw [if_pos hc] at h
    cases hx : execGroup (T2N.Fr.applyFuel 1) (splitOnChar '-' w) with
    | ok ds =>
      rw [hx] at h
      exact absurd h (merge_not_inc b ds true ds.marker)
    | error e =>
      rw [hx] at h
      have he : e = .incomplete := by injection h
      subst he
      rcases execGroupFrom_inc _ _ _ _ hx with ⟨_, h2⟩ | ⟨x, b', h1, h2⟩
      · cases h2
      · unfold lastPart
        rw [h1]
        exact part_inc x b' h2
  · have hc' : w.contains '-' = false := by simpa using hc
    unfold lastPart
    rw [split_atom' w hc']
    exact atom_inc 1 w b hc' h

/-! ## F3. structure of the French spellings: where `et` stands -/

/-- the word does not end with the numeral `et` -/
def okEnd (w : Word) : Bool := !isEt (lastPart w)

/-- every word is `et` or does not end with `et`; the last word is not `et`; `et` and `neuf` are never neighbours -/
def wordsOK : List Word → Bool
  | [] => true
  | [a] => okEnd a
  | a :: b :: t => (a == w!"et" || okEnd a) && (a != w!"et" || b != w!"neuf") && (b != w!"et" || a != w!"neuf") &&
      wordsOK (b :: t)

def headOK : List Word → Bool
  | [] => true
  | b :: _ => b != w!"et"

/-- `wordsOK`, and the first word is not `et` -/
def good (l : List Word) : Bool := headOK l && wordsOK l

theorem okEnd_ne_et {a : Word} (h : okEnd a = true) : (a == w!"et") = false := by
  cases he : (a == w!"et") with
  | false => rfl
  | true =>
    have := eq_of_beq he
    subst this
    exact absurd h (by decide)

theorem wordsOK_cons2 (a b : Word) (t : List Word) :
    wordsOK (a :: b :: t) = ((a == w!"et" || okEnd a) && (a != w!"et" || b != w!"neuf") &&
      (b != w!"et" || a != w!"neuf") && wordsOK (b :: t)) := rfl

theorem wordsOK_append : ∀ (l1 l2 : List Word), wordsOK l1 = true → wordsOK l2 = true → headOK l2 = true →
    wordsOK (l1 ++ l2) = true
  | [], _, _, h2, _ => h2
  | [a], [], h1, _, _ => h1
  | [a], b :: t2, h1, h2, hh => by
    have h1' : okEnd a = true := h1
    have ha := okEnd_ne_et h1'
    have hb : (b != w!"et") = true := hh
    show wordsOK (a :: b :: t2) = true
    rw [wordsOK_cons2, h1', h2, hb]
    simp only [bne, ha, Bool.not_false, Bool.or_true, Bool.true_or, Bool.and_self]
  | a :: a2 :: t, l2, h1, h2, hh => by
    rw [wordsOK_cons2] at h1
    simp only [Bool.and_eq_true] at h1
    have ih := wordsOK_append (a2 :: t) l2 h1.2 h2 hh
    show wordsOK (a :: a2 :: (t ++ l2)) = true
    rw [wordsOK_cons2]
    simp only [Bool.and_eq_true]
    exact ⟨h1.1, ih⟩

theorem good_nil : good [] = true := rfl

theorem good_append {l1 l2 : List Word} (h1 : good l1 = true) (h2 : good l2 = true) : good (l1 ++ l2) = true := by
  unfold good at *
  rw [Bool.and_eq_true] at *
  refine ⟨?_, wordsOK_append l1 l2 h1.2 h2.2 h2.1⟩
  cases l1 with
  | nil => exact h2.1
  | cons a t => exact h1.1

theorem good_of_okEnd : ∀ (l : List Word), (∀ a ∈ l, okEnd a = true) → good l = true
  | [], _ => rfl
  | [a], h => by
    have ha := h a (List.mem_singleton.mpr rfl)
    unfold good headOK wordsOK
    rw [ha, Bool.and_true]
    simp only [bne, okEnd_ne_et ha, Bool.not_false]
  | a :: b :: t, h => by
    have ha := h a (List.mem_cons_self ..)
    have ih := good_of_okEnd (b :: t) (fun x hx => h x (List.mem_cons_of_mem _ hx))
    unfold good at ih ⊢
    rw [Bool.and_eq_true] at ih ⊢
    have hb : (b != w!"et") = true := ih.1
    refine ⟨?_, ?_⟩
    · show (a != w!"et") = true
      simp only [bne, okEnd_ne_et ha, Bool.not_false]
    · rw [wordsOK_cons2, ha, ih.2, hb]
      simp only [bne, okEnd_ne_et ha, Bool.not_false, Bool.or_true, Bool.true_or, Bool.and_self]

theorem wordsOK_last : ∀ (l : List Word), wordsOK l = true → ∀ a, l.getLast? = some a → okEnd a = true
  | [], _, _, h => by cases h
  | [a], h, x, hx => by
    have : a = x := by simpa using hx
    subst this; exact h
  | a :: b :: t, h, x, hx => by
    rw [wordsOK_cons2] at h
    simp only [Bool.and_eq_true] at h
    rw [List.getLast?_cons_cons] at hx
    exact wordsOK_last (b :: t) h.2 x hx

theorem wordsOK_mem : ∀ (l : List Word), wordsOK l = true → ∀ a ∈ l, a = w!"et" ∨ okEnd a = true
  | [], _, _, h => by cases h
  | [a], h, x, hx => by
    have : x = a := by simpa using hx
    subst this; exact Or.inr h
  | a :: b :: t, h, x, hx => by
    rw [wordsOK_cons2] at h
    simp only [Bool.and_eq_true, Bool.or_eq_true] at h
    rcases List.mem_cons.mp hx with rfl | hx
    · rcases h.1.1.1 with h1 | h1
      · exact Or.inl (eq_of_beq h1)
      · exact Or.inr h1
    · exact wordsOK_mem (b :: t) h.2 x hx

/-- neighbours: `et` is not followed by `neuf`, `neuf` is not followed by `et` -/
theorem wordsOK_pair : ∀ (l : List Word), wordsOK l = true → ∀ (k : Nat) (x y : Word), l[k]? = some x →
    l[k + 1]? = some y → (x = w!"et" → y ≠ w!"neuf") ∧ (y = w!"et" → x ≠ w!"neuf")
  | [], _, _, _, _, h, _ => by cases h
  | [a], _, 0, _, _, _, h => by cases h
  | [a], _, k + 1, _, _, h, _ => by cases h
  | a :: b :: t, h, 0, x, y, hx, hy => by
    rw [wordsOK_cons2] at h
    simp only [Bool.and_eq_true, Bool.or_eq_true] at h
    have e1 : a = x := by simpa using hx
    have e2 : b = y := by simpa using hy
    subst e1 e2
    constructor
    · intro hxe hyn
      rcases h.1.1.2 with h1 | h1
      · rw [hxe] at h1; exact absurd h1 (by decide)
      · rw [hyn] at h1; exact absurd h1 (by decide)
    · intro hye hxn
      rcases h.1.2 with h1 | h1
      · rw [hye] at h1; exact absurd h1 (by decide)
      · rw [hxn] at h1; exact absurd h1 (by decide)
  | a :: b :: t, h, k + 1, x, y, hx, hy => by
    rw [wordsOK_cons2] at h
    simp only [Bool.and_eq_true] at h
    rw [List.getElem?_cons_succ] at hx hy
    exact wordsOK_pair (b :: t) h.2 k x y hx hy

/-! ### hyphenated words -/

theorem okEnd_atom {a : Word} (h : a.contains '-' = false) : okEnd a = !isEt a := by
  unfold okEnd lastPart
  rw [split_atom' a h]
  rfl

theorem okEnd_hyphenate (l : List Word) (hat : C01Fr.Atoms l) (hne : l ≠ []) (hw : wordsOK l = true) :
    okEnd (Spec.Fr.hyphenate l) = true := by
  unfold okEnd lastPart
  rw [C01Fr.split_hyphenate_atoms l hat hne]
  cases hl : l.getLast? with
  | none => exact absurd (List.getLast?_eq_none_iff.mp hl) hne
  | some a =>
    have h1 := wordsOK_last l hw a hl
    have hmem : a ∈ l := List.mem_of_getLast? hl
    rw [okEnd_atom (hat a hmem)] at h1
    exact h1

theorem okEnd_hyphen (X Y : Word) : okEnd (X ++ ['-'] ++ Y) = okEnd Y := by
  unfold okEnd lastPart
  rw [C01Fr.split_hyphen, List.getLast?_append]
  cases hl : (splitOnChar '-' Y).getLast? with
  | none => exact absurd (List.getLast?_eq_none_iff.mp hl) (splitOnChar_ne_nil '-' Y)
  | some a => rfl

theorem good_single {W : Word} (h : okEnd W = true) : good [W] = true :=
  good_of_okEnd [W] (fun a ha => by rw [List.mem_singleton.mp ha]; exact h)

/-! ### the speller, bottom-up -/

theorem unit_okEnd (n : Nat) : okEnd (Spec.Fr.unitWord n) = true := by
  by_cases h : n < 17
  · have : ∀ n, n < 17 → okEnd (Spec.Fr.unitWord n) = true := by decide
    exact this n h
  · obtain ⟨k, rfl⟩ : ∃ k, n = k + 17 := ⟨n - 17, by omega⟩
    rfl

theorem tens_okEnd (t : Nat) : okEnd (Spec.Fr.tensWords.getD t []) = true := by
  by_cases h : t < 7
  · have : ∀ t, t < 7 → okEnd (Spec.Fr.tensWords.getD t []) = true := by decide
    exact this t h
  · obtain ⟨k, rfl⟩ : ∃ k, t = k + 7 := ⟨t - 7, by omega⟩
    rfl

theorem tens_ne_neuf (t : Nat) : (Spec.Fr.tensWords.getD t [] != w!"neuf") = true := by
  by_cases h : t < 7
  · have : ∀ t, t < 7 → (Spec.Fr.tensWords.getD t [] != w!"neuf") = true := by decide
    exact this t h
  · obtain ⟨k, rfl⟩ : ∃ k, t = k + 7 := ⟨t - 7, by omega⟩
    rfl

theorem teens_good (n : Nat) : good (Spec.Fr.teens n) = true := by
  unfold Spec.Fr.teens
  split
  · exact good_single (unit_okEnd n)
  · apply good_of_okEnd
    intro a ha
    simp only [List.mem_cons, List.not_mem_nil, or_false] at ha
    rcases ha with rfl | rfl
    · decide
    · exact unit_okEnd _

theorem regular_good (tens : Word) (u : Nat) (h1 : okEnd tens = true) (h2 : (tens != w!"neuf") = true) :
    good (Spec.Fr.regular tens u) = true := by
  unfold Spec.Fr.regular
  split
  · exact good_single h1
  · split
    · have he := okEnd_ne_et h1
      unfold good headOK
      rw [wordsOK_cons2, h1, h2]
      simp only [bne, he, Bool.not_false, Bool.or_true, Bool.true_or, Bool.and_self, Bool.true_and]
      decide
    · apply good_of_okEnd
      intro a ha
      simp only [List.mem_cons, List.not_mem_nil, or_false] at ha
      rcases ha with rfl | rfl
      · exact h1
      · exact unit_okEnd _

theorem below100_good (v : Var) (g n : Nat) (sOk : Bool) : good (Spec.Fr.below100 v g n sOk) = true := by
  unfold Spec.Fr.below100
  split
  · exact teens_good n
  · dsimp only
    split
    · exact regular_good _ _ (tens_okEnd _) (tens_ne_neuf _)
    · split
      · split
        · exact regular_good _ _ (by decide) (by decide)
        · split
          · decide
          · exact good_append (l1 := [w!"soixante"]) (by decide) (teens_good _)
      · split
        · split
          · split
            · apply good_of_okEnd
              intro a ha
              simp only [List.mem_cons, List.not_mem_nil, or_false] at ha
              rcases ha with rfl | rfl
              · decide
              · split <;> decide
            · apply good_of_okEnd
              intro a ha
              simp only [List.mem_cons, List.not_mem_nil, or_false] at ha
              rcases ha with rfl | rfl | rfl
              · decide
              · decide
              · exact unit_okEnd _
          · exact regular_good _ _ (by decide) (by decide)
          · exact regular_good _ _ (by decide) (by decide)
        · split
          · exact regular_good _ _ (by decide) (by decide)
          · exact good_append (l1 := [w!"quatre", w!"vingt"]) (by decide) (teens_good _)

theorem hundreds_good (v : Var) (g h : Nat) (sOk : Bool) : good (Spec.Fr.hundreds v g h sOk) = true := by
  unfold Spec.Fr.hundreds
  split
  · rfl
  · split
    · decide
    · apply good_of_okEnd
      intro a ha
      simp only [List.mem_cons, List.not_mem_nil, or_false] at ha
      rcases ha with rfl | rfl
      · exact unit_okEnd _
      · split <;> decide

theorem gw_good (v : Var) (g n : Nat) (sOk : Bool) : good (C01Fr.gw v g n sOk) = true := by
  unfold C01Fr.gw
  apply good_append (hundreds_good _ _ _ _)
  split
  · rfl
  · exact below100_good _ _ _ _

theorem good_wordsOK {l : List Word} (h : good l = true) : wordsOK l = true := by
  unfold good at h
  rw [Bool.and_eq_true] at h
  exact h.2

theorem gw_hyph_okEnd (v : Var) (g n : Nat) (sOk : Bool) (n0 : n ≠ 0) (n1 : n < 1000) :
    okEnd (Spec.Fr.hyphenate (C01Fr.gw v g n sOk)) = true :=
  okEnd_hyphenate _ (C01Fr.gw_atoms v g n sOk) (C01Fr.gw_ne v g n sOk n0 n1) (good_wordsOK (gw_good v g n sOk))

theorem group_good (v : Var) (g n : Nat) (sOk : Bool) (n0 : n ≠ 0) (n1 : n < 1000) :
    good (Spec.Fr.group v g n sOk) = true := by
  unfold Spec.Fr.group
  dsimp only
  split
  · -- traditional hyphens
    apply good_append (hundreds_good _ _ _ _)
    by_cases hr : n % 100 = 0
    · have e : (n % 100 == 0) = true := by simp [hr]
      rw [if_pos e, if_pos (by rfl)]
      rfl
    · have e : ¬ ((n % 100 == 0) = true) := by simp [hr]
      rw [if_neg e]
      have hne := C01Fr.below100_ne v g (n % 100) sOk
      have hat := C01Fr.below100_atoms v g (n % 100) sOk
      have hg := below100_good v g (n % 100) sOk
      generalize Spec.Fr.below100 v g (n % 100) sOk = rs at hne hat hg ⊢
      have hemp : ¬ (rs.isEmpty = true) := by
        cases rs with
        | nil => exact absurd rfl hne
        | cons a t => exact Bool.false_ne_true
      rw [if_neg hemp]
      split
      · exact hg
      · exact good_single (okEnd_hyphenate rs hat hne (good_wordsOK hg))
  · -- spaces
    exact gw_good v g n sOk
  · -- 1990 reform
    exact good_single (gw_hyph_okEnd v g n sOk n0 n1)

theorem thousands_good (v : Var) (n : Nat) (mil : Bool) (n1 : n < 1000) :
    good (Spec.Fr.thousands v n mil) = true := by
  unfold Spec.Fr.thousands
  split
  · rfl
  · split
    · split <;> decide
    · rename_i h0 h1
      have n0 : n ≠ 0 := by simpa using h0
      split
      · rename_i hr
        rw [C01Fr.group_reform v 1 n false hr]
        show good [Spec.Fr.hyphenate (C01Fr.gw v 1 n false) ++ ['-'] ++ w!"mille"] = true
        apply good_single
        rw [okEnd_hyphen]
        decide
      · exact good_append (group_good v 1 n false n0 n1) (by decide)

theorem scaled_good (v : Var) (g n : Nat) (n1 : n < 1000) : good (Spec.Fr.scaled v g n) = true := by
  unfold Spec.Fr.scaled
  split
  · rfl
  · rename_i h0
    have n0 : n ≠ 0 := by simpa using h0
    dsimp only
    apply good_append (group_good v g n true n0 n1)
    apply good_single
    split <;> split <;> decide

theorem low_good (v : Var) (g1 g0 : Nat) (mil : Bool) (h1 : g1 < 1000) (h0 : g0 < 1000) :
    good (Spec.Fr.low v g1 g0 mil) = true := by
  unfold Spec.Fr.low
  dsimp only
  by_cases hc : (g1 != 0 && g0 != 0 && Spec.Fr.reform v 1 && Spec.Fr.reform v 0) = true
  · rw [if_pos hc]
    simp only [Bool.and_eq_true, bne_iff_ne] at hc
    obtain ⟨⟨⟨n1, n0⟩, r1⟩, r0⟩ := hc
    obtain ⟨W, e, _, _⟩ := C01Fr.thousands_reform v g1 mil r1 n1 h1
    rw [e, if_neg (by simp [n0]), C01Fr.group_reform v 0 g0 true r0]
    show good [W ++ ['-'] ++ Spec.Fr.hyphenate (C01Fr.gw v 0 g0 true)] = true
    apply good_single
    rw [okEnd_hyphen]
    exact gw_hyph_okEnd v 0 g0 true n0 h0
  · rw [if_neg hc]
    apply good_append (thousands_good v g1 mil h1)
    split
    · rfl
    · rename_i hg
      exact group_good v 0 g0 true (by simpa using hg) h0

/-- **F3**: in every spelling of a cardinal, no word other than `et` ends with `et`, the last word is not `et`, and
`et` and `neuf` are never neighbours -/
theorem cardinal_good (v : Var) (n : Nat) : good (Spec.Fr.cardinal v n) = true := by
  unfold Spec.Fr.cardinal
  split
  · decide
  · dsimp only
    exact good_append (good_append (scaled_good v 3 _ (Nat.mod_lt _ (by decide)))
      (scaled_good v 2 _ (Nat.mod_lt _ (by decide))))
      (low_good v _ _ _ (Nat.mod_lt _ (by decide)) (Nat.mod_lt _ (by decide)))

/-! ## F4. the pass on a sentence that contains a spelled cardinal -/

/-- accepted by the fresh builder -/
def Acc (w : Word) : Prop := (T2N.Fr.apply w DS.new).1 = none

/-- a word of a valid phrase that is not `et` and does not end with `et` is accepted by the fresh builder -/
theorem acc_of_valid (ws : List Word) (b0 : DS) (hst : stepsOk T2N.Fr.apply ws b0) (hw : wordsOK ws = true)
    (x : Word) (hx : x ∈ ws) (hne : x ≠ w!"et") : Acc x := by
  obtain ⟨b', hb'⟩ := stepsOk_mem _ _ _ hst x hx
  rcases hb' with h | h
  · exact acc_of_none x b' h
  · have h1 := etEnd_of_inc x b' h
    rcases wordsOK_mem ws hw x hx with h2 | h2
    · exact absurd h2 hne
    · unfold okEnd at h2
      rw [h1] at h2
      cases h2

theorem getD_mid (pre ws post : List Word) (p : Nat) (hp : p < ws.length) :
    (pre ++ ws ++ post).getD (pre.length + p) [] = ws.getD p [] := by
  rw [List.getD_eq_getElem?_getD, List.getD_eq_getElem?_getD, List.append_assoc,
    List.getElem?_append_right (by omega), Nat.add_sub_cancel_left, List.getElem?_append_left hp]

theorem getD_pre (pre rest : List Word) (k : Nat) (hk : k < pre.length) :
    (pre ++ rest).getD k [] = pre.getD k [] := by
  rw [List.getD_eq_getElem?_getD, List.getD_eq_getElem?_getD, List.getElem?_append_left hk]

theorem getD_post (pre ws post : List Word) (q : Nat) :
    (pre ++ ws ++ post).getD (pre.length + ws.length + q) [] = post.getD q [] := by
  rw [List.getD_eq_getElem?_getD, List.getD_eq_getElem?_getD,
    List.getElem?_append_right (by rw [List.length_append]; omega), List.length_append,
    Nat.add_sub_cancel_left]

theorem getD_mem {l : List Word} {k : Nat} (hk : k < l.length) : l.getD k [] ∈ l := by
  rw [List.getD_eq_getElem?_getD, List.getElem?_eq_getElem hk]
  exact List.getElem_mem hk

theorem neuf_acc : Acc w!"neuf" := by
  show (T2N.Fr.apply w!"neuf" DS.new).1 = none
  decide

/-- the decision for a lone `neuf` (the spelling of 9) after the words `pre`: an article two or three words
before, and the word before is not `numéro` -/
def frNeufMarked (pre : List Word) : Bool :=
  decide (2 ≤ pre.length) &&
  (frArticles.contains (pre.getD (pre.length - 2) []) ||
    (decide (pre.length > 2) && frArticles.contains (pre.getD (pre.length - 3) []))) &&
  (pre.getD (pre.length - 1) [] != w!"numéro")

theorem decChars_inj (n m : Nat) (h : decChars n = decChars m) : n = m := by
  unfold decChars at h
  have := C01Sent.map_digitChar_inj _ _ (C01Sent.decDigits_lt m) h
  rw [← valueOfMSB_decDigits n, ← valueOfMSB_decDigits m, this]

/-- **F4**: the decision of the French pass is negative for every `neuf` of a sentence `pre ++ ws ++ post` in
which `ws` is a valid phrase with the structure of a spelled cardinal and `pre`, `post` are refused words —
except for a lone `neuf` (`ws = [neuf]`), where it is `frNeufMarked pre` -/
theorem frDecW_sentence (pre ws post : List Word) (b0 : DS) (hst : stepsOk T2N.Fr.apply ws b0)
    (hw : wordsOK ws = true)
    (hpre : ∀ w ∈ pre, T2N.Fr.lang.Rejects w) (hpost : ∀ w ∈ post, T2N.Fr.lang.Rejects w)
    (hlone : ws = [w!"neuf"] → frNeufMarked pre = false) :
    ∀ i, i < (pre ++ ws ++ post).length → (pre ++ ws ++ post).getD i [] = w!"neuf" →
      frDecW (pre ++ ws ++ post) i = false := by
  intro i hi hn
  have hnr : ∀ w, T2N.Fr.lang.Rejects w → w ≠ w!"neuf" := fun w h => ne_of_rejects h neuf_acc
  -- the `neuf` is in `ws`
  have h1 : pre.length ≤ i := by
    cases Nat.lt_or_ge i pre.length with
    | inr h => exact h
    | inl h =>
      exfalso
      rw [List.append_assoc, getD_pre pre _ i h] at hn
      exact hnr _ (hpre _ (getD_mem h)) hn
  have h2 : i < pre.length + ws.length := by
    cases Nat.lt_or_ge i (pre.length + ws.length) with
    | inl h => exact h
    | inr h =>
      exfalso
      obtain ⟨q, rfl⟩ : ∃ q, i = pre.length + ws.length + q := ⟨i - (pre.length + ws.length), by omega⟩
      rw [getD_post] at hn
      have hq : q < post.length := by
        simp only [List.length_append] at hi; omega
      exact hnr _ (hpost _ (getD_mem hq)) hn
  obtain ⟨p, rfl⟩ : ∃ p, i = pre.length + p := ⟨i - pre.length, by omega⟩
  have hp : p < ws.length := by omega
  rw [getD_mid pre ws post p hp] at hn
  have hget : ∀ k, k < ws.length → ws[k]? = some (ws.getD k []) := by
    intro k hk
    rw [List.getD_eq_getElem?_getD, List.getElem?_eq_getElem hk]
    rfl
  unfold frDecW
  by_cases hp0 : p = 0
  · subst hp0
    by_cases hlen : 2 ≤ ws.length
    · -- the next word is a number word accepted by the fresh builder
      have hy := hget 1 hlen
      have hx := hget 0 (by omega)
      rw [hn] at hx
      have hne : ws.getD 1 [] ≠ w!"et" := fun he => (wordsOK_pair ws hw 0 _ _ hx hy).2 he rfl
      have hacc := acc_of_valid ws b0 hst hw _ (getD_mem hlen) hne
      have hlt : pre.length + 0 + 1 < (pre ++ ws ++ post).length := by
        simp only [List.length_append]; omega
      rw [if_pos hlt, getD_mid pre ws post 1 hlen, hacc]
      simp only [Option.isSome_none, Bool.and_false]
    · -- a lone `neuf`
      have hws : ws = [w!"neuf"] := by
        cases ws with
        | nil => simp at hp
        | cons a t =>
          cases t with
          | nil =>
            have : a = w!"neuf" := by simpa using hn
            rw [this]
          | cons b t' => simp at hlen
      have hm := hlone hws
      unfold frNeufMarked at hm
      subst hws
      rw [Nat.add_zero]
      by_cases h2 : 2 ≤ pre.length
      · have e1 : (pre ++ [w!"neuf"] ++ post).getD (pre.length - 2) [] = pre.getD (pre.length - 2) [] := by
          rw [List.append_assoc, getD_pre pre _ _ (by omega)]
        have e2 : (pre ++ [w!"neuf"] ++ post).getD (pre.length - 3) [] = pre.getD (pre.length - 3) [] := by
          rw [List.append_assoc, getD_pre pre _ _ (by omega)]
        have e3 : (pre ++ [w!"neuf"] ++ post).getD (pre.length - 1) [] = pre.getD (pre.length - 1) [] := by
          rw [List.append_assoc, getD_pre pre _ _ (by omega)]
        rw [e1, e2, e3]
        rw [Bool.and_eq_false_iff] at hm
        rcases hm with hm | hm
        · rw [hm]
          simp only [Bool.false_and]
        · rw [hm]
          simp only [Bool.and_false, Bool.false_and]
      · rw [decide_eq_false h2]
        simp only [Bool.false_and]
  · -- the word before is a number word accepted by the fresh builder
    have hx := hget (p - 1) (by omega)
    have hy := hget p hp
    rw [hn] at hy
    have e : p - 1 + 1 = p := by omega
    have hne : ws.getD (p - 1) [] ≠ w!"et" := by
      intro he
      have := (wordsOK_pair ws hw (p - 1) _ _ hx (by rw [e]; exact hy)).1 he
      exact this rfl
    have hacc := acc_of_valid ws b0 hst hw _ (getD_mem (show p - 1 < ws.length by omega)) hne
    have e2 : pre.length + p - 1 = pre.length + (p - 1) := by omega
    rw [e2, getD_mid pre ws post (p - 1) (by omega), hacc]
    simp only [Option.isSome_none, Bool.and_false, Bool.false_and]

/-- **the French pass leaves the tokens of the sentence alone** -/
theorem annotateFr_cardinal {cc : CharClasses} (L : TextLaws cc) (v : Var) (n : Nat)
    (hval : text2digitsWords T2N.Fr.lang (Spec.Fr.cardinal v n) = .ok (decChars n))
    (pre post : List Word) (hpre : ∀ w ∈ pre, T2N.Fr.lang.Rejects w) (hpost : ∀ w ∈ post, T2N.Fr.lang.Rejects w)
    (htok : ∀ w ∈ pre ++ Spec.Fr.cardinal v n ++ post, isTokWord cc w = true)
    (hneuf : n = 9 → frNeufMarked pre = false) :
    annotateFr cc T2N.Fr.lang.apply T2N.Fr.lang.isDecSep (wordTokens (pre ++ Spec.Fr.cardinal v n ++ post)) =
      wordTokens (pre ++ Spec.Fr.cardinal v n ++ post) := by
  obtain ⟨ds0, _, hx0, _, _⟩ := text2digitsWords_ok hval
  have hst := execGroupFrom_stepsOk _ _ _ _ _ hx0
  apply annotateFr_wordTokens L _ htok
  apply frDecW_sentence pre _ post DS.new hst (good_wordsOK (cardinal_good v n)) hpre hpost
  intro hws
  apply hneuf
  rw [hws] at hval
  have e9 : decChars 9 = ['9'] := by
    unfold decChars; rw [decDigits, if_pos (by decide)]; rfl
  have e : text2digitsWords T2N.Fr.lang [w!"neuf"] = .ok (decChars 9) := by rw [e9]; decide
  rw [e] at hval
  have : decChars 9 = decChars n := by injection hval
  exact (decChars_inj 9 n this).symm

/-- no article among the words before: the lone `neuf` is not marked -/
theorem frNeufMarked_of_no_article (pre : List Word) (h : ∀ a ∈ pre, frArticles.contains a = false) :
    frNeufMarked pre = false := by
  unfold frNeufMarked
  by_cases h2 : 2 ≤ pre.length
  · rw [h _ (getD_mem (show pre.length - 2 < pre.length by omega)),
      h _ (getD_mem (show pre.length - 3 < pre.length by omega))]
    simp only [Bool.and_false, Bool.or_self, Bool.false_and]
  · rw [decide_eq_false h2]
    simp only [Bool.false_and]

/-! ### the hypothesis on a lone `neuf` is exactly the decision of the pass -/

theorem not_acc_of_rejects {w : Word} (h : T2N.Fr.lang.Rejects w) : (T2N.Fr.apply w DS.new).1.isSome = true := by
  have := not_accepted_of_rejects T2N.Fr.lang w h
  cases hr : (T2N.Fr.apply w DS.new).1 with
  | none => exact absurd hr this
  | some e => rfl

theorem not_decSep_of_rejects {w : Word} (h : T2N.Fr.lang.Rejects w) : T2N.Fr.lang.isDecSep w = false := by
  cases hs : T2N.Fr.lang.isDecSep w with
  | false => rfl
  | true =>
    exfalso
    have hw : w = w!"virgule" := eq_of_beq hs
    subst hw
    obtain ⟨e, he, hne⟩ := h { int := { rbuf := [1] } }
    have : (({ int := { rbuf := [1] } } : Parser).push T2N.Fr.lang w!"virgule").1 = some .incomplete := by decide
    rw [this] at he
    injection he with he
    exact hne he.symm

/-- for the sentence `pre ++ [neuf] ++ post` (refused words around) the decision of the pass for the `neuf` is
`frNeufMarked pre` -/
theorem frDecW_lone (pre post : List Word) (hpre : ∀ w ∈ pre, T2N.Fr.lang.Rejects w)
    (hpost : ∀ w ∈ post, T2N.Fr.lang.Rejects w) :
    frDecW (pre ++ [w!"neuf"] ++ post) pre.length = frNeufMarked pre := by
  unfold frDecW frNeufMarked
  by_cases h2 : 2 ≤ pre.length
  · have e1 : (pre ++ [w!"neuf"] ++ post).getD (pre.length - 2) [] = pre.getD (pre.length - 2) [] := by
      rw [List.append_assoc, getD_pre pre _ _ (by omega)]
    have e2 : (pre ++ [w!"neuf"] ++ post).getD (pre.length - 3) [] = pre.getD (pre.length - 3) [] := by
      rw [List.append_assoc, getD_pre pre _ _ (by omega)]
    have e3 : (pre ++ [w!"neuf"] ++ post).getD (pre.length - 1) [] = pre.getD (pre.length - 1) [] := by
      rw [List.append_assoc, getD_pre pre _ _ (by omega)]
    have hlast := hpre _ (getD_mem (show pre.length - 1 < pre.length by omega))
    have hnext : (T2N.Fr.apply (if pre.length + 1 < (pre ++ [w!"neuf"] ++ post).length then
        (pre ++ [w!"neuf"] ++ post).getD (pre.length + 1) [] else []) DS.new).1.isSome = true := by
      split
      · rename_i hlt
        have hq : 0 < post.length := by
          simp only [List.length_append, List.length_cons, List.length_nil] at hlt; omega
        have := getD_post pre [w!"neuf"] post 0
        simp only [List.length_cons, List.length_nil, Nat.add_zero] at this
        rw [this]
        exact not_acc_of_rejects (hpost _ (getD_mem hq))
      · decide
    rw [e1, e2, e3, hnext, not_acc_of_rejects hlast, not_decSep_of_rejects hlast]
    simp only [Bool.not_false, Bool.and_true]
  · rw [decide_eq_false h2]
    simp only [Bool.false_and]

end T2N.C01Text.Fr
