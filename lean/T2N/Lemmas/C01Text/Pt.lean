/-
  T2N.Lemmas.C01Text.Pt — every word of a spelled Portuguese cardinal is a word over the alphabet (a letter,
  then letters or hyphens).
-/
import T2N.Lemmas.C01Text

namespace T2N.C01Text.Pt
open T2N T2N.Spec T2N.C01Text

theorem unit_ok (v : Var) (g : Nat) (fem : Bool) (n : Nat) (hn : n < 20) :
    isOver (Spec.Pt.unitWord v g fem n) = true := by
  have : ∀ (fem br f : Bool) (n : Nat), n < 20 → isOver (
      if (fem && n == 1) = true then w!"uma"
      else if (fem && n == 2) = true then w!"duas"
      else if (br && n == 14 && f) = true then w!"quatorze"
      else if (br && n == 16) = true then w!"dezesseis"
      else if (br && n == 17) = true then w!"dezessete"
      else if (br && n == 19) = true then w!"dezenove"
      else Spec.Pt.unitWords.getD n []) = true := by
    intro fem br f; cases fem <;> cases br <;> cases f <;> decide
  exact this fem (Spec.Pt.brazilian v) (flag v (cp g 3)) n hn

theorem tens_ok : ∀ t, t < 10 → 2 ≤ t → isOver (Spec.Pt.tensWords.getD t []) = true := by decide

theorem conj_ok : isOver Spec.Pt.conj = true := by decide

theorem hundred_ok : ∀ (fem : Bool) (h r : Nat), 1 ≤ h → h < 10 → r < 100 →
    isOver (Spec.Pt.hundredWord fem h r) = true := by
  intro fem h r h1 h9 _
  have : ∀ (fem z : Bool) (h : Nat), h < 10 → 1 ≤ h → isOver (
      if (h == 1) = true then (if z = true then w!"cem" else w!"cento")
      else Spec.Pt.hundredStems.getD h [] ++ (if fem = true then w!"as" else w!"os")) = true := by
    intro fem z; cases fem <;> cases z <;> decide
  exact this fem (r == 0) h h9 h1

theorem below100_ok (v : Var) (g : Nat) (fem : Bool) (n : Nat) (hn : n < 100) :
    allOver (Spec.Pt.below100 v g fem n) = true := by
  unfold Spec.Pt.below100
  by_cases h20 : n < 20
  · rw [if_pos h20, allOver_cons, allOver_nil, unit_ok v g fem n h20]; rfl
  · rw [if_neg h20]
    dsimp only
    have ht := tens_ok (n / 10) (by omega) (by omega)
    split
    · rw [allOver_cons, allOver_nil, ht]; rfl
    · rw [allOver_cons, allOver_cons, allOver_cons, allOver_nil, ht, conj_ok, unit_ok v g fem _ (by omega)]; rfl

theorem group_ok (v : Var) (g : Nat) (fem : Bool) (n : Nat) (hn : n < 1000) :
    allOver (Spec.Pt.group v g fem n) = true := by
  unfold Spec.Pt.group
  dsimp only
  rw [allOver_append, allOver_append, Bool.and_eq_true, Bool.and_eq_true]
  refine ⟨⟨?_, ?_⟩, ?_⟩
  · by_cases h0 : n / 100 = 0
    · rw [if_pos (by simp [h0])]; rfl
    · rw [if_neg (by simp [h0]), allOver_cons, allOver_nil,
        hundred_ok fem _ _ (by omega) (by omega) (Nat.mod_lt _ (by decide))]; rfl
  · split
    · decide
    · rfl
  · split
    · rfl
    · exact below100_ok v g fem _ (Nat.mod_lt _ (by decide))

theorem thousands_ok (v : Var) (g : Nat) (fem : Bool) (n : Nat) (hn : n < 1000) :
    allOver (Spec.Pt.thousands v g fem n) = true := by
  unfold Spec.Pt.thousands
  split
  · rfl
  · split
    · decide
    · rw [allOver_append, group_ok v g fem n hn]; decide

theorem billion_ok (v : Var) (p : Bool) : isOver (Spec.Pt.billionWord v p) = true := by
  unfold Spec.Pt.billionWord
  cases flag v _ <;> cases p <;> decide

theorem million_ok (p : Bool) : isOver (Spec.Pt.millionWord p) = true := by
  cases p <;> decide

theorem optConj_ok (p : Prop) [Decidable p] : allOver (if p then [Spec.Pt.conj] else []) = true := by
  by_cases h : p
  · rw [if_pos h]; decide
  · rw [if_neg h]; rfl

theorem cardinal_allOver (v : Var) (n : Nat) : allOver (Spec.Pt.cardinal v n) = true := by
  unfold Spec.Pt.cardinal
  split
  · decide
  · dsimp only
    have h3 : n / 1000000000 % 1000 < 1000 := Nat.mod_lt _ (by decide)
    have h2 : n / 1000000 % 1000 < 1000 := Nat.mod_lt _ (by decide)
    have h1 : n / 1000 % 1000 < 1000 := Nat.mod_lt _ (by decide)
    have h0 : n % 1000 < 1000 := Nat.mod_lt _ (by decide)
    simp only [allOver_append, Bool.and_eq_true]
    refine ⟨⟨⟨⟨⟨⟨?_, ?_⟩, ?_⟩, ?_⟩, ?_⟩, ?_⟩, ?_⟩
    · split
      · rfl
      · split
        · rw [allOver_append, group_ok v 3 false _ h3, allOver_cons, allOver_nil, billion_ok]; rfl
        · exact thousands_ok v 3 false _ h3
    · exact optConj_ok _
    · split
      · split
        · decide
        · rfl
      · rw [allOver_append, group_ok v 2 false _ h2, allOver_cons, allOver_nil, million_ok]; rfl
    · exact optConj_ok _
    · exact thousands_ok v 1 _ _ h1
    · exact optConj_ok _
    · split
      · rfl
      · exact group_ok v 0 _ _ h0

/-- every word of a spelled Portuguese cardinal is over the alphabet -/
theorem cardinal_over (v : Var) (n : Nat) : ∀ w ∈ Spec.Pt.cardinal v n, isOver w = true :=
  allOver_mem (cardinal_allOver v n)

end T2N.C01Text.Pt
