/-
  T2N.Lemmas.C01Text.Assemble — the text-level statement for a spelled cardinal whose words are over the
  alphabet, between ordinary words (refused by the language, single tokens, lower case).
-/
import T2N.Lemmas.C01Text

namespace T2N.C01Text
open T2N T2N.Lift T2N.Spec

/-- an ordinary word of a sentence: refused by the language in every state, a single token, lower case -/
def Ordinary (cc : CharClasses) (l : Lang) (w : Word) : Prop := l.Rejects w ∧ isPlainWord cc w = true

theorem plain_of_parts {cc : CharClasses} (L : TextLaws cc) (A : AlphaLaws cc) (l : Lang) (pre ws post : List Word)
    (hpre : ∀ w ∈ pre, Ordinary cc l w) (hws : ∀ w ∈ ws, isOver w = true) (hpost : ∀ w ∈ post, Ordinary cc l w) :
    ∀ w ∈ pre ++ ws ++ post, isPlainWord cc w = true := by
  intro w hw
  rw [List.mem_append, List.mem_append] at hw
  rcases hw with (hw | hw) | hw
  · exact (hpre w hw).2
  · exact isPlainWord_of_over L A (hws w hw)
  · exact (hpost w hw).2

/-- the text-level statement, generic in the language; `hann`: the annotation pass leaves the tokens alone -/
theorem replaceText_cardinal {cc : CharClasses} (L : TextLaws cc) (A : AlphaLaws cc) (l : Language) (thr : Nat → Bool)
    (hmem : l.interp ∈ allLangs) (hl : LangAgree l.interp)
    (ws : List Word) (n : Nat) (hthr : n < 10 → thr n = false)
    (hval : text2digitsWords l.interp ws = .ok (decChars n))
    (hfirst : ∀ w ∈ ws.head?, (l.interp.apply w DS.new).1 = none)
    (hover : ∀ w ∈ ws, isOver w = true)
    (pre post : List Word) (hpre : ∀ w ∈ pre, Ordinary cc l.interp w) (hpost : ∀ w ∈ post, Ordinary cc l.interp w)
    (hann : l.annotate cc (wordTokens (pre ++ ws ++ post)) = wordTokens (pre ++ ws ++ post)) :
    replaceText cc l thr (joinWords (pre ++ ws ++ post)) = .ok (joinWords (pre ++ [decChars n] ++ post)) :=
  replaceText_valid L l thr hmem hl ws n hthr hval hfirst pre post (fun w hw => (hpre w hw).1)
    (fun w hw => (hpost w hw).1) (plain_of_parts L A l.interp pre ws post hpre hover hpost) hann

/-- a word that is refused on every builder with an error other than `Incomplete`, is not the decimal
separator, and is a single lower-case token is `Ordinary` -/
theorem ordinary_of_apply (cc : CharClasses) (l : Lang) (w : Word)
    (h1 : ∀ b, ∃ e, (l.apply w b).1 = some e ∧ e ≠ Err.incomplete)
    (h2 : ∀ b, ∃ e, (l.applyDecimal w b).1 = some e ∧ e ≠ Err.incomplete)
    (h3 : l.isDecSep w = false) (h4 : isPlainWord cc w = true) : Ordinary cc l w :=
  ⟨Lang.rejects_of_apply l w h1 h2 h3, h4⟩

end T2N.C01Text
