/-
  T2N.Lemmas.C01Text.It — every word of a spelled Italian cardinal is a word over the alphabet. The Italian
  words are compounds (`duemilatrecentoquarantacinque`, `centottanta`, `ventuno`, `ventitré`, `ventun`): every
  word is made of letters only and is not empty.
-/
import T2N.Lemmas.C01Text

namespace T2N.C01Text.It
open T2N T2N.Spec T2N.C01Text

/-- letters only, not empty -/
def Q (w : Word) : Bool := isLetters w && decide (1 ≤ w.length)

/-- letters only, at least two characters (what remains after an apocope is not empty) -/
def P2 (w : Word) : Bool := isLetters w && decide (2 ≤ w.length)

/-- the words of group `g`: `P2`, or the conjunction `e` (units group only) -/
def PG (g : Nat) (w : Word) : Bool := P2 w || (g == 0 && w == Spec.It.conj)

theorem Q_iff {w : Word} : Q w = true ↔ isLetters w = true ∧ 1 ≤ w.length := by
  unfold Q
  rw [Bool.and_eq_true, decide_eq_true_eq]

theorem P2_iff {w : Word} : P2 w = true ↔ isLetters w = true ∧ 2 ≤ w.length := by
  unfold P2
  rw [Bool.and_eq_true, decide_eq_true_eq]

theorem Q_of_P2 {w : Word} (h : P2 w = true) : Q w = true := by
  rw [P2_iff] at h
  rw [Q_iff]
  exact ⟨h.1, by omega⟩

theorem Q_of_PG {g : Nat} {w : Word} (h : PG g w = true) : Q w = true := by
  unfold PG at h
  rw [Bool.or_eq_true, Bool.and_eq_true] at h
  rcases h with h | ⟨_, h⟩
  · exact Q_of_P2 h
  · rw [eq_of_beq h]; decide

theorem P2_of_PG {g : Nat} (hg : g ≠ 0) {w : Word} (h : PG g w = true) : P2 w = true := by
  unfold PG at h
  rw [Bool.or_eq_true, Bool.and_eq_true] at h
  rcases h with h | ⟨h, _⟩
  · exact h
  · exact absurd (eq_of_beq h) hg

theorem PG_of_P2 {g : Nat} {w : Word} (h : P2 w = true) : PG g w = true := by
  unfold PG
  rw [h]
  rfl

theorem isOver_of_Q {w : Word} (h : Q w = true) : isOver w = true := by
  rw [Q_iff] at h
  refine isOver_of_letters h.1 ?_
  intro e
  rw [e] at h
  exact absurd h.2 (by decide)

theorem all_mono {p q : Word → Bool} (hpq : ∀ w, p w = true → q w = true) {l : List Word}
    (h : l.all p = true) : l.all q = true := by
  rw [List.all_eq_true] at *
  exact fun w hw => hpq w (h w hw)

theorem isLetters_dropLast {w : Word} (h : isLetters w = true) : isLetters w.dropLast = true := by
  unfold isLetters at *
  rw [List.all_eq_true] at *
  exact fun x hx => h x (List.dropLast_subset w hx)

theorem Q_dropLast {w : Word} (h : P2 w = true) : Q w.dropLast = true := by
  rw [P2_iff] at h
  rw [Q_iff, List.length_dropLast]
  exact ⟨isLetters_dropLast h.1, by omega⟩

theorem P2_append {a b : Word} (ha : P2 a = true) (hb : isLetters b = true) : P2 (a ++ b) = true := by
  rw [P2_iff] at *
  rw [List.length_append]
  exact ⟨isLetters_append ha.1 hb, by omega⟩

theorem Q_append {a b : Word} (ha : Q a = true) (hb : isLetters b = true) : Q (a ++ b) = true := by
  rw [Q_iff] at *
  rw [List.length_append]
  exact ⟨isLetters_append ha.1 hb, by omega⟩

theorem letters_of_Q {w : Word} (h : Q w = true) : isLetters w = true := (Q_iff.mp h).1

theorem letters_of_P2 {w : Word} (h : P2 w = true) : isLetters w = true := (P2_iff.mp h).1

/-! ### the tables -/

theorem unit_P2 : ∀ d, d < 20 → P2 (Spec.It.unitWord d) = true := by decide

theorem tens_P2 : ∀ t, t < 10 → 2 ≤ t → P2 (Spec.It.tensWord t) = true := by decide

theorem tensDrop_P2 : ∀ t, t < 10 → 2 ≤ t → P2 (Spec.It.tensWord t).dropLast = true := by decide

theorem hundred_P2 : ∀ h, h < 10 → 1 ≤ h → P2 (Spec.It.hundredWord h) = true := by decide

theorem hundredDrop_P2 : ∀ h, h < 10 → 1 ≤ h → P2 (Spec.It.hundredWord h).dropLast = true := by decide

/-! ### the speller, bottom-up -/

theorem below100_P2 (lvl n : Nat) (hn : n < 100) : (Spec.It.below100 lvl n).all P2 = true := by
  unfold Spec.It.below100
  by_cases h20 : n < 20
  · rw [if_pos h20, List.all_cons, List.all_nil, unit_P2 n h20]; rfl
  · rw [if_neg h20]
    dsimp only
    have ht2 : 2 ≤ n / 10 := by omega
    have ht9 : n / 10 < 10 := by omega
    have hu : n % 10 < 20 := by omega
    split
    · rw [List.all_cons, List.all_nil, tens_P2 _ ht9 ht2]; rfl
    · split
      · rw [List.all_cons, List.all_nil,
          P2_append (tensDrop_P2 _ ht9 ht2) (letters_of_P2 (unit_P2 _ hu))]; rfl
      · split
        · rw [List.all_cons, List.all_cons, List.all_nil, tens_P2 _ ht9 ht2, unit_P2 _ hu]; rfl
        · rw [List.all_cons, List.all_nil,
            P2_append (tens_P2 _ ht9 ht2) (letters_of_P2 (unit_P2 _ hu))]; rfl

theorem glueCento_P2 (v : Var) (g : Nat) (c w : Word) (hc : P2 c = true) (hd : P2 c.dropLast = true)
    (hw : isLetters w = true) : P2 (Spec.It.glueCento v g c w) = true := by
  have : ∀ b : Bool, P2 ((if b = true then c.dropLast else c) ++ w) = true := by
    intro b
    cases b
    · exact P2_append hc hw
    · exact P2_append hd hw
  exact this _

theorem group_PG (v : Var) (g lvl n : Nat) (hn : n < 1000) : (Spec.It.group v g lvl n).all (PG g) = true := by
  unfold Spec.It.group
  dsimp only
  have hr : n % 100 < 100 := by omega
  have hb := below100_P2 lvl (n % 100) hr
  by_cases h0 : n / 100 = 0
  · rw [if_pos (by simp [h0])]
    exact all_mono (fun _ => PG_of_P2) hb
  · rw [if_neg (by simp [h0])]
    have hh9 : n / 100 < 10 := by omega
    have hh1 : 1 ≤ n / 100 := by omega
    have hH := hundred_P2 _ hh9 hh1
    split
    · rw [List.all_cons, List.all_nil, PG_of_P2 hH]; rfl
    · split
      · rw [List.all_append, List.all_append, List.all_cons, List.all_nil, PG_of_P2 hH,
          all_mono (fun _ => PG_of_P2) hb]
        split
        · next hc =>
          rw [Bool.and_eq_true] at hc
          rw [List.all_cons, List.all_nil]
          unfold PG
          rw [hc.1]
          decide
        · rfl
      · generalize Spec.It.below100 lvl (n % 100) = l at hb
        cases l with
        | nil =>
          show [Spec.It.hundredWord (n / 100)].all (PG g) = true
          rw [List.all_cons, List.all_nil, PG_of_P2 hH]; rfl
        | cons w rest =>
          show (Spec.It.glueCento v g (Spec.It.hundredWord (n / 100)) w :: rest).all (PG g) = true
          rw [List.all_cons, Bool.and_eq_true] at hb
          rw [List.all_cons, all_mono (fun _ => PG_of_P2) hb.2,
            PG_of_P2 (glueCento_P2 v g _ w hH (hundredDrop_P2 _ hh9 hh1) (letters_of_P2 hb.1))]
          rfl

theorem accent_Q (v : Var) (g : Nat) (w : Word) (h : Q w = true) : Q (Spec.It.accent v g w) = true := by
  unfold Spec.It.accent
  split
  · rw [Q_iff, List.length_append]
    refine ⟨isLetters_append (isLetters_dropLast (letters_of_Q h)) (by decide), ?_⟩
    simp only [List.length_cons, List.length_nil]
    omega
  · exact h

theorem map_accent_Q (v : Var) (g : Nat) (l : List Word) (h : l.all Q = true) :
    (l.map (Spec.It.accent v g)).all Q = true := by
  rw [List.all_map]
  rw [List.all_eq_true] at *
  exact fun w hw => accent_Q v g w (h w hw)

theorem thousands_Q (v : Var) (lvl n : Nat) (hn : n < 1000) : (Spec.It.thousands v lvl n).all Q = true := by
  unfold Spec.It.thousands
  split
  · decide
  · have hg := all_mono (fun _ => Q_of_PG) (group_PG v 1 lvl n hn)
    generalize Spec.It.group v 1 lvl n = l at hg
    split
    · rw [List.all_cons, List.all_nil, Bool.and_true] at hg
      rw [List.all_cons, List.all_nil, Q_append hg (by decide)]; rfl
    · rw [List.all_append, hg]; decide

theorem belowMillion_Q (v : Var) (n : Nat) (hn : n < 1000000) : (Spec.It.belowMillion v n).all Q = true := by
  unfold Spec.It.belowMillion
  dsimp only
  have h1 := thousands_Q v (pick v (cp 0 0) 4) (n / 1000) (by omega)
  have h0 := all_mono (fun _ => Q_of_PG) (group_PG v 0 (pick v (cp 0 0) 4) (n % 1000) (by omega))
  generalize Spec.It.thousands v (pick v (cp 0 0) 4) (n / 1000) = p1 at h1
  generalize Spec.It.group v 0 (pick v (cp 0 0) 4) (n % 1000) = p0 at h0
  split
  · exact map_accent_Q v 0 p0 h0
  · split
    · exact map_accent_Q v 1 p1 h1
    · split
      · split
        · rw [List.all_cons, List.all_nil, Bool.and_true] at h0 h1
          rw [List.all_cons, List.all_nil, accent_Q v 0 _ (Q_append h1 (letters_of_Q h0))]; rfl
        · rw [List.all_append, h1, h0]; rfl
      · rw [List.all_append, List.all_append, map_accent_Q v 1 p1 h1, map_accent_Q v 0 p0 h0]
        split
        · decide
        · rfl

theorem scaleWord_Q (g : Nat) (b : Bool) : Q (Spec.It.scaleWord g b) = true := by
  unfold Spec.It.scaleWord
  split <;> decide

/-- the apocope `ventuno` ↦ `ventun` of the last word -/
theorem apocope_Q (ws : List Word) (h : ws.all P2 = true) :
    (match ws.reverse with | l :: rest => (l.dropLast :: rest).reverse | [] => ws).all Q = true := by
  have hr : ws.reverse.all P2 = true := by rw [List.all_reverse]; exact h
  generalize ws.reverse = r at hr
  cases r with
  | nil => exact all_mono (fun _ => Q_of_P2) h
  | cons l rest =>
    show (l.dropLast :: rest).reverse.all Q = true
    rw [List.all_cons, Bool.and_eq_true] at hr
    rw [List.all_reverse, List.all_cons, Q_dropLast hr.1, all_mono (fun _ => Q_of_P2) hr.2]
    rfl

theorem scaled_Q (v : Var) (g n : Nat) (hg : g ≠ 0) (hn : n < 1000) : (Spec.It.scaled v g n).all Q = true := by
  unfold Spec.It.scaled
  split
  · rfl
  · split
    · rw [List.all_cons, List.all_cons, List.all_nil, scaleWord_Q]; decide
    · dsimp only
      have hgr := all_mono (fun _ => P2_of_PG hg) (group_PG v g (pick v (cp g 0) 4) n hn)
      rw [List.all_append, List.all_cons, List.all_nil, scaleWord_Q]
      rw [Bool.and_true, Bool.and_true]
      apply map_accent_Q
      split
      · exact apocope_Q _ hgr
      · exact all_mono (fun _ => Q_of_P2) hgr

theorem cardinal_Q (v : Var) (n : Nat) : (Spec.It.cardinal v n).all Q = true := by
  unfold Spec.It.cardinal
  split
  · decide
  · dsimp only
    simp only [List.all_append, Bool.and_eq_true]
    refine ⟨⟨⟨⟨?_, ?_⟩, ?_⟩, ?_⟩, ?_⟩
    · exact scaled_Q v 3 _ (by decide) (Nat.mod_lt _ (by decide))
    · split
      · decide
      · rfl
    · exact scaled_Q v 2 _ (by decide) (Nat.mod_lt _ (by decide))
    · split
      · decide
      · rfl
    · split
      · rfl
      · exact belowMillion_Q v _ (Nat.mod_lt _ (by decide))

/-- every word of a spelled Italian cardinal is made of letters only and is not empty -/
theorem cardinal_letters (v : Var) (n : Nat) : ∀ w ∈ Spec.It.cardinal v n, isLetters w = true ∧ w ≠ [] := by
  intro w hw
  have h := Q_iff.mp (List.all_eq_true.mp (cardinal_Q v n) w hw)
  refine ⟨h.1, ?_⟩
  intro e
  rw [e] at h
  exact absurd h.2 (by decide)

/-- every word of a spelled Italian cardinal is over the alphabet -/
theorem cardinal_over (v : Var) (n : Nat) : ∀ w ∈ Spec.It.cardinal v n, isOver w = true :=
  fun w hw => isOver_of_Q (List.all_eq_true.mp (cardinal_Q v n) w hw)

end T2N.C01Text.It
