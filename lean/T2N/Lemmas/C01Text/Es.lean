/-
  T2N.Lemmas.C01Text.Es — every word of a spelled Spanish cardinal is a word over the alphabet (a letter, then
  letters or hyphens).
-/
import T2N.Lemmas.C01Text

namespace T2N.C01Text.Es
open T2N T2N.Spec T2N.C01Text

theorem unit_ok : ∀ d, d < 30 → isOver (Spec.Es.unitWord d) = true := by decide

theorem tens_ok : ∀ t, t < 10 → 2 ≤ t → isOver (Spec.Es.tensWord t) = true := by decide

theorem one_ok (f : Nat) : isOver (Spec.Es.oneWord f) = true := by
  unfold Spec.Es.oneWord
  split <;> decide

theorem twentyOne_ok (f : Nat) : isOver (Spec.Es.twentyOneWord f) = true := by
  unfold Spec.Es.twentyOneWord
  split <;> decide

theorem hundred_ok (fem : Bool) : ∀ h, h < 10 → 2 ≤ h → isOver (Spec.Es.hundredWord h fem) = true := by
  cases fem <;> decide

theorem million_ok (v : Var) (plural : Bool) : isOver (Spec.Es.millionWord v plural) = true := by
  unfold Spec.Es.millionWord
  split
  · decide
  · split <;> decide

theorem below100_ok (v : Var) (g n f : Nat) (hn : n < 100) : allOver (Spec.Es.below100 v g n f) = true := by
  unfold Spec.Es.below100
  split
  · rw [allOver_cons, one_ok]; rfl
  · split
    · rw [allOver_cons, twentyOne_ok]; rfl
    · by_cases h30 : n < 30
      · rw [if_pos h30, allOver_cons, unit_ok n h30]; rfl
      · rw [if_neg h30]
        dsimp only
        have ht2 : 2 ≤ n / 10 := by omega
        have ht9 : n / 10 < 10 := by omega
        have hu : isOver (if (n % 10 == 1) = true then Spec.Es.oneWord f else Spec.Es.unitWord (n % 10)) = true := by
          split
          · exact one_ok f
          · exact unit_ok _ (by omega)
        split
        · rw [allOver_cons, tens_ok _ ht9 ht2]; rfl
        · split
          · rw [allOver_cons, allOver_cons, tens_ok _ ht9 ht2, hu]; rfl
          · rw [allOver_cons, allOver_cons, allOver_cons, tens_ok _ ht9 ht2, hu]; rfl

theorem group_ok (v : Var) (g n : Nat) (hn : n < 1000) : allOver (Spec.Es.group v g n) = true := by
  unfold Spec.Es.group
  dsimp only
  rw [allOver_append, Bool.and_eq_true]
  refine ⟨?_, ?_⟩
  · by_cases h0 : n / 100 = 0
    · rw [if_pos (by simp [h0])]; rfl
    · rw [if_neg (by simp [h0])]
      by_cases h1 : n / 100 = 1
      · rw [if_pos (by simp [h1])]
        split <;> decide
      · rw [if_neg (by simp [h1]), allOver_cons, hundred_ok _ _ (by omega) (by omega)]; rfl
  · split
    · rfl
    · exact below100_ok v g _ _ (by omega)

theorem thousands_ok (v : Var) (g n : Nat) (hn : n < 1000) : allOver (Spec.Es.thousands v g n) = true := by
  unfold Spec.Es.thousands
  split
  · rfl
  · split
    · decide
    · rw [allOver_append, group_ok v g n hn]; decide

theorem cardinal_allOver (v : Var) (n : Nat) : allOver (Spec.Es.cardinal v n) = true := by
  unfold Spec.Es.cardinal
  split
  · decide
  · dsimp only
    simp only [allOver_append, Bool.and_eq_true]
    refine ⟨⟨⟨?_, ?_⟩, ?_⟩, ?_⟩
    · exact thousands_ok v 3 _ (Nat.mod_lt _ (by decide))
    · split
      · rfl
      · rw [allOver_append, Bool.and_eq_true]
        refine ⟨?_, ?_⟩
        · split
          · rfl
          · exact group_ok v 2 _ (Nat.mod_lt _ (by decide))
        · rw [allOver_cons, million_ok]; rfl
    · exact thousands_ok v 1 _ (Nat.mod_lt _ (by decide))
    · split
      · rfl
      · exact group_ok v 0 _ (Nat.mod_lt _ (by decide))

/-- every word of a spelled Spanish cardinal is over the alphabet -/
theorem cardinal_over (v : Var) (n : Nat) : ∀ w ∈ Spec.Es.cardinal v n, isOver w = true :=
  allOver_mem (cardinal_allOver v n)

end T2N.C01Text.Es
