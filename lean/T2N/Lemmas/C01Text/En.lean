/-
  T2N.Lemmas.C01Text.En — every word of a spelled English cardinal is a word over the alphabet (a letter, then
  letters or hyphens) of at least two characters (in particular it is not `o`).
-/
import T2N.Lemmas.C01Text

namespace T2N.C01Text.En
open T2N T2N.Spec T2N.C01Text

/-- over the alphabet, at least two characters -/
def P (w : Word) : Bool := isOver w && decide (2 ≤ w.length)

theorem unit_P : ∀ d, d < 20 → P (Spec.En.unitWord d) = true := by decide

theorem tens_P (v : Var) (g t : Nat) (h2 : 2 ≤ t) (h9 : t < 10) : P (Spec.En.tensWord v g t) = true := by
  have : ∀ (f : Bool) (t : Nat), t < 10 → 2 ≤ t →
      P (if (t == 4 && f) = true then w!"fourty" else Spec.En.tensWords.getD t []) = true := by
    intro f; cases f <;> decide
  exact this (flag v (cp g 2)) t h9 h2

theorem compound_P (v : Var) (g t u : Nat) (h2 : 2 ≤ t) (h9 : t < 10) (u9 : u < 10) :
    P (Spec.En.tensWord v g t ++ ['-'] ++ Spec.En.unitWord u) = true := by
  have ht := tens_P v g t h2 h9
  have hu := unit_P u (by omega)
  unfold P at *
  rw [Bool.and_eq_true] at *
  refine ⟨isOver_hyphen ht.1 hu.1, ?_⟩
  have := of_decide_eq_true ht.2
  simp only [List.length_append, decide_eq_true_eq]
  omega

theorem scale_P (v : Var) (g : Nat) : P (Spec.En.scaleWord v g) = true := by
  rcases g with _ | _ | _ | g
  · unfold Spec.En.scaleWord; dsimp only; cases flag v _ <;> decide
  · unfold Spec.En.scaleWord; dsimp only; cases flag v _ <;> decide
  · unfold Spec.En.scaleWord; dsimp only; cases flag v _ <;> decide
  · have e : Spec.En.scaleWord v (g + 1 + 1 + 1) =
        if flag v (cp (g + 1 + 1 + 1) 3) then w!"billion" ++ ['s'] else w!"billion" := rfl
    rw [e]
    cases flag v _ <;> decide

theorem below100_P (v : Var) (g r : Nat) (h1 : r < 100) : (Spec.En.below100 v g r).all P = true := by
  unfold Spec.En.below100
  by_cases h20 : r < 20
  · rw [if_pos h20, List.all_cons, List.all_nil, unit_P r h20]; rfl
  · rw [if_neg h20]
    dsimp only
    have ht2 : 2 ≤ r / 10 := by omega
    have ht9 : r / 10 < 10 := by omega
    by_cases hu : r % 10 = 0
    · rw [if_pos (by simp [hu]), List.all_cons, List.all_nil, tens_P v g _ ht2 ht9]; rfl
    · rw [if_neg (by simp [hu])]
      split
      · rw [List.all_cons, List.all_cons, List.all_nil, tens_P v g _ ht2 ht9, unit_P _ (by omega)]; rfl
      · rw [List.all_cons, List.all_nil, compound_P v g _ _ ht2 ht9 (by omega)]; rfl

theorem group_P (v : Var) (g n : Nat) (first : Bool) (hn : n < 1000) :
    (Spec.En.group v g n first).all P = true := by
  unfold Spec.En.group
  dsimp only
  rw [List.all_append, List.all_append, Bool.and_eq_true, Bool.and_eq_true]
  refine ⟨⟨?_, ?_⟩, ?_⟩
  · split
    · rfl
    · split
      · decide
      · rw [List.all_cons, List.all_cons, List.all_nil, unit_P _ (by omega)]; decide
  · split
    · decide
    · rfl
  · split
    · rfl
    · exact below100_P v g _ (by omega)

theorem scaled_P (v : Var) (g n : Nat) (first : Bool) (hn : n < 1000) :
    (Spec.En.scaled v g n first).all P = true := by
  unfold Spec.En.scaled
  split
  · rfl
  · split
    · rw [List.all_cons, List.all_nil, scale_P]; rfl
    · rw [List.all_append, group_P v g n first hn, List.all_cons, List.all_nil, scale_P]; rfl

theorem cardinal_P (v : Var) (n : Nat) : (Spec.En.cardinal v n).all P = true := by
  unfold Spec.En.cardinal
  split
  · decide
  · dsimp only
    simp only [List.all_append, Bool.and_eq_true]
    refine ⟨⟨⟨⟨?_, ?_⟩, ?_⟩, ?_⟩, ?_⟩
    · exact scaled_P v 3 _ _ (Nat.mod_lt _ (by decide))
    · exact scaled_P v 2 _ _ (Nat.mod_lt _ (by decide))
    · exact scaled_P v 1 _ _ (Nat.mod_lt _ (by decide))
    · split
      · decide
      · rfl
    · split
      · rfl
      · exact group_P v 0 _ _ (Nat.mod_lt _ (by decide))

/-- every word of a spelled English cardinal is over the alphabet -/
theorem cardinal_over (v : Var) (n : Nat) : ∀ w ∈ Spec.En.cardinal v n, isOver w = true := by
  intro w hw
  have := List.all_eq_true.mp (cardinal_P v n) w hw
  unfold P at this
  rw [Bool.and_eq_true] at this
  exact this.1

/-- … and is not the word `o` -/
theorem cardinal_not_o (v : Var) (n : Nat) : ∀ w ∈ Spec.En.cardinal v n, w ≠ ['o'] := by
  intro w hw e
  have := List.all_eq_true.mp (cardinal_P v n) w hw
  rw [e] at this
  cases this

end T2N.C01Text.En
