/-
  T2N.Lemmas.C01Text.De — every word of a spelled German cardinal is a word over the alphabet. The words are
  compounds: every atom is a non-empty word made of letters, and `render` concatenates atoms.
-/
import T2N.Lemmas.C01Text

namespace T2N.C01Text.De
open T2N T2N.Spec T2N.C01Text

/-- a non-empty word made of letters -/
def GW (w : Word) : Bool := isLetters w && !w.isEmpty

/-- an atom whose word is a non-empty word made of letters -/
def G (a : Spec.De.Atom) : Bool := GW a.w

theorem GW_letters {w : Word} (h : GW w = true) : isLetters w = true := by
  unfold GW at h
  rw [Bool.and_eq_true] at h
  exact h.1

theorem GW_ne {w : Word} (h : GW w = true) : w ≠ [] := by
  intro e
  subst e
  cases h

/-! ### `render` -/

theorem render_over (L : Nat) : ∀ (atoms : List Spec.De.Atom) (cur : Word),
    atoms.all G = true → isLetters cur = true → allOver (Spec.De.render L atoms cur) = true := by
  intro atoms
  induction atoms with
  | nil =>
    intro cur _ hc
    unfold Spec.De.render
    cases cur with
    | nil => rfl
    | cons c cs =>
      show allOver [c :: cs] = true
      rw [allOver_cons, isOver_of_letters hc (by intro e; cases e)]
      rfl
  | cons a rest ih =>
    intro cur h hc
    rw [List.all_cons, Bool.and_eq_true] at h
    have ha : GW a.w = true := h.1
    have hl : isLetters (cur ++ a.w) = true := isLetters_append hc (GW_letters ha)
    have hne : cur ++ a.w ≠ [] := by
      intro e
      exact GW_ne ha (List.append_eq_nil_iff.mp e).2
    unfold Spec.De.render
    split
    · rw [allOver_cons, isOver_of_letters hl hne, ih [] h.2 isLetters_nil]
      rfl
    · exact ih _ h.2 hl

/-! ### `setLastB` keeps the words -/

theorem setLastB_G (b : Nat) : ∀ (l : List Spec.De.Atom), l.all G = true → (Spec.De.setLastB b l).all G = true
  | [], _ => rfl
  | [a], h => by
    show ([({ a with b := b } : Spec.De.Atom)]).all G = true
    exact h
  | a :: a2 :: rest, h => by
    rw [List.all_cons, Bool.and_eq_true] at h
    show (a :: Spec.De.setLastB b (a2 :: rest)).all G = true
    rw [List.all_cons, h.1, setLastB_G b (a2 :: rest) h.2]
    rfl

/-! ### tables -/

theorem units_G : ∀ n, n < 20 → GW (Spec.De.unitWords.getD n []) = true := by decide

theorem unitWord_G (one : Word) (zwo : Bool) (n : Nat) (h1 : GW one = true) (hn : n < 20) :
    GW (Spec.De.unitWord one zwo n) = true := by
  unfold Spec.De.unitWord
  split
  · exact h1
  · split
    · decide
    · exact units_G n hn

theorem tensWord_G (v : Var) (g t : Nat) (h2 : 2 ≤ t) (h9 : t < 10) : GW (Spec.De.tensWord v g t) = true := by
  have : ∀ (f : Bool) (t : Nat), t < 10 → 2 ≤ t →
      GW (if (t == 3 && f) = true then w!"dreissig" else Spec.De.tensWords.getD t []) = true := by
    intro f; cases f <;> decide
  exact this (flag v (cp g 0)) t h9 h2

theorem ein_G : GW w!"ein" = true := by decide

/-! ### the speller, bottom-up -/

theorem below100_G (v : Var) (g n : Nat) (one : Word) (h1 : GW one = true) (hn : n < 100) :
    (Spec.De.below100 v g n one).all G = true := by
  unfold Spec.De.below100
  dsimp only
  by_cases h20 : n < 20
  · rw [if_pos h20, List.all_cons, List.all_nil]
    show (GW (Spec.De.unitWord one _ n) && true) = true
    rw [unitWord_G one _ n h1 h20]
    rfl
  · rw [if_neg h20]
    have ht2 : 2 ≤ n / 10 := by omega
    have ht9 : n / 10 < 10 := by omega
    have ht := tensWord_G v g _ ht2 ht9
    split
    · rw [List.all_cons, List.all_nil]
      show (GW (Spec.De.tensWord v g (n / 10)) && true) = true
      rw [ht]
      rfl
    · rw [List.all_cons, List.all_cons, List.all_cons, List.all_nil]
      show (GW (Spec.De.unitWord w!"ein" _ (n % 10)) && (GW w!"und" && (GW (Spec.De.tensWord v g (n / 10)) && true)))
        = true
      rw [ht, unitWord_G w!"ein" _ (n % 10) ein_G (by omega)]
      decide

theorem group_G (v : Var) (g n : Nat) (first : Bool) (one : Word) (h1 : GW one = true) (hn : n < 1000) :
    (Spec.De.group v g n first one).all G = true := by
  unfold Spec.De.group
  dsimp only
  rw [List.all_append, List.all_append, Bool.and_eq_true, Bool.and_eq_true]
  refine ⟨⟨?_, ?_⟩, ?_⟩
  · split
    · rfl
    · split
      · decide
      · rw [List.all_cons, List.all_cons, List.all_nil]
        show (GW (Spec.De.unitWord w!"ein" _ (n / 100)) && (GW w!"hundert" && true)) = true
        rw [unitWord_G w!"ein" _ (n / 100) ein_G (by omega)]
        decide
  · split
    · decide
    · rfl
  · split
    · rfl
    · exact below100_G v g _ one h1 (by omega)

theorem scaled_G (v : Var) (g n : Nat) (first : Bool) (hn : n < 1000) :
    (Spec.De.scaled v g n first).all G = true := by
  unfold Spec.De.scaled
  split
  · rfl
  · split
    · split
      · decide
      · rw [List.all_append, setLastB_G _ _ (group_G v g n first w!"ein" ein_G hn)]
        decide
    · dsimp only
      split
      · cases flag v (cp g 5) <;> by_cases hg : (g == 2) = true
        all_goals first
          | (rw [if_pos hg]; decide)
          | (rw [if_neg hg]; decide)
      · rw [List.all_append, setLastB_G _ _ (group_G v g n first w!"ein" ein_G hn)]
        by_cases hg : (g == 2) = true
        · rw [if_pos hg]; decide
        · rw [if_neg hg]; decide

theorem cardinalAtoms_G (v : Var) (n : Nat) : (Spec.De.cardinalAtoms v n).all G = true := by
  unfold Spec.De.cardinalAtoms
  dsimp only
  simp only [List.all_append, Bool.and_eq_true]
  refine ⟨⟨⟨?_, ?_⟩, ?_⟩, ?_⟩
  · exact scaled_G v 3 _ _ (Nat.mod_lt _ (by decide))
  · exact scaled_G v 2 _ _ (Nat.mod_lt _ (by decide))
  · exact scaled_G v 1 _ _ (Nat.mod_lt _ (by decide))
  · split
    · rfl
    · exact group_G v 0 _ _ w!"eins" (by decide) (Nat.mod_lt _ (by decide))

theorem cardinal_allOver (v : Var) (n : Nat) : allOver (Spec.De.cardinal v n) = true := by
  unfold Spec.De.cardinal
  split
  · decide
  · exact render_over _ _ [] (cardinalAtoms_G v n) isLetters_nil

/-- every word of a spelled German cardinal is over the alphabet (for every variant function, every `n`) -/
theorem cardinal_over (v : Var) (n : Nat) : ∀ w ∈ Spec.De.cardinal v n, isOver w = true :=
  allOver_mem (cardinal_allOver v n)

end T2N.C01Text.De
