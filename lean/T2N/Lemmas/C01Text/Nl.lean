/-
  T2N.Lemmas.C01Text.Nl — every word of a spelled Dutch cardinal is a word over the alphabet. Dutch words are
  compounds built by concatenation (`vijfenzeventigduizend`, `drieëntwintig`, `één`): every word is a
  non-empty string of letters (no hyphen at all).
-/
import T2N.Lemmas.C01Text

namespace T2N.C01Text.Nl
open T2N T2N.Spec T2N.C01Text

/-- letters only, at least one -/
def L (w : Word) : Bool := isLetters w && !w.isEmpty

theorem L_letters {w : Word} (h : L w = true) : isLetters w = true := by
  unfold L at h
  rw [Bool.and_eq_true] at h
  exact h.1

theorem L_ne {w : Word} (h : L w = true) : w ≠ [] := by
  unfold L at h
  rw [Bool.and_eq_true] at h
  intro e
  rw [e] at h
  cases h.2

theorem L_over {w : Word} (h : L w = true) : isOver w = true :=
  isOver_of_letters (L_letters h) (L_ne h)

theorem L_intro {w : Word} (h : isLetters w = true) (hne : w ≠ []) : L w = true := by
  unfold L
  rw [h, Bool.true_and]
  cases w with
  | nil => exact absurd rfl hne
  | cons c cs => rfl

theorem L_append_left {a b : Word} (ha : L a = true) (hb : isLetters b = true) : L (a ++ b) = true := by
  refine L_intro (isLetters_append (L_letters ha) hb) ?_
  intro e
  exact L_ne ha (List.append_eq_nil_iff.mp e).1

theorem L_append_right {a b : Word} (ha : isLetters a = true) (hb : L b = true) : L (a ++ b) = true := by
  refine L_intro (isLetters_append ha (L_letters hb)) ?_
  intro e
  exact L_ne hb (List.append_eq_nil_iff.mp e).2

theorem foldr_letters : ∀ ws : List Word, ws.all L = true → isLetters (ws.foldr (· ++ ·) []) = true
  | [], _ => rfl
  | w :: ws, h => by
    rw [List.all_cons, Bool.and_eq_true] at h
    rw [List.foldr_cons]
    exact isLetters_append (L_letters h.1) (foldr_letters ws h.2)

/-- the fusion of letter words is a letter word -/
theorem fuse_L (ws : List Word) (h : ws.all L = true) : (Spec.Nl.fuse ws).all L = true := by
  unfold Spec.Nl.fuse
  cases ws with
  | nil => rfl
  | cons w ws =>
    rw [if_neg (by simp)]
    rw [List.all_cons, Bool.and_eq_true] at h
    rw [List.all_cons, List.all_nil, Bool.and_true, List.foldr_cons]
    exact L_append_left h.1 (foldr_letters ws h.2)

theorem unit_L (v : Var) (g n : Nat) (h : n < 20) : L (Spec.Nl.unitWord v g n) = true := by
  have : ∀ (f : Bool) (n : Nat), n < 20 →
      L (if (n == 1 && f) = true then w!"één" else Spec.Nl.unitWords.getD n []) = true := by
    intro f; cases f <;> decide
  exact this (flag v (cp g 3)) n h

theorem tens_L (t : Nat) (h2 : 2 ≤ t) (h9 : t < 10) : L (Spec.Nl.tensWord t) = true := by
  have : ∀ t, t < 10 → 2 ≤ t → L (Spec.Nl.tensWord t) = true := by decide
  exact this t h9 h2

theorem link_letters (v : Var) (g u : Nat) : isLetters (Spec.Nl.linkWord v g u) = true := by
  unfold Spec.Nl.linkWord
  split
  · decide
  · split
    · split <;> decide
    · decide

theorem below100_L (v : Var) (g n : Nat) (se : Bool) (h : n < 100) :
    (Spec.Nl.below100 v g n se).all L = true := by
  unfold Spec.Nl.below100
  by_cases h20 : n < 20
  · rw [if_pos h20, List.all_cons, List.all_nil, unit_L v g n h20]; rfl
  · rw [if_neg h20]
    dsimp only
    have ht2 : 2 ≤ n / 10 := by omega
    have ht9 : n / 10 < 10 := by omega
    have hu : n % 10 < 20 := by omega
    split
    · rw [List.all_cons, List.all_nil, tens_L _ ht2 ht9]; rfl
    · split
      · rw [List.all_cons, List.all_cons, List.all_cons, List.all_nil, tens_L _ ht2 ht9, unit_L v g _ hu]; decide
      · rw [List.all_cons, List.all_nil, Bool.and_true]
        exact L_append_left (L_append_left (unit_L v g _ hu) (link_letters v g _)) (L_letters (tens_L _ ht2 ht9))

theorem group_L (v : Var) (g n : Nat) (h : n < 1000) : (Spec.Nl.group v g n).all L = true := by
  unfold Spec.Nl.group
  dsimp only
  have hh : n / 100 < 20 := by omega
  have hhs : (if (n / 100 == 0) = true then ([] : List Word)
      else if (n / 100 == 1) = true then [w!"honderd"]
      else if pick v (cp g 1) 4 ≥ 2 then [Spec.Nl.unitWord v g (n / 100), w!"honderd"]
      else [Spec.Nl.unitWord v g (n / 100) ++ w!"honderd"]).all L = true := by
    split
    · rfl
    · split
      · decide
      · split
        · rw [List.all_cons, List.all_cons, List.all_nil, unit_L v g _ hh]; decide
        · rw [List.all_cons, List.all_nil, Bool.and_true]
          exact L_append_left (unit_L v g _ hh) (by decide)
  have hrs : (if (n % 100 == 0) = true then ([] : List Word)
      else Spec.Nl.below100 v g (n % 100) (pick v (cp g 1) 4 == 3)).all L = true := by
    split
    · rfl
    · exact below100_L v g _ _ (by omega)
  have : ∀ (a b : List Word), a.all L = true → b.all L = true → (a ++ b).all L = true := by
    intro a b ha hb
    rw [List.all_append, ha, hb]; rfl
  split
  · exact fuse_L _ (this _ _ hhs hrs)
  · exact this _ _ hhs hrs

theorem scale_L (g : Nat) : L (Spec.Nl.scaleWord g) = true := by
  unfold Spec.Nl.scaleWord
  split <;> decide

theorem scaled_L (v : Var) (g n : Nat) (h : n < 1000) : (Spec.Nl.scaled v g n).all L = true := by
  unfold Spec.Nl.scaled
  split
  · rfl
  · split
    · rw [List.all_cons, List.all_nil, scale_L]; rfl
    · dsimp only
      have hws : (Spec.Nl.group v g n ++ [Spec.Nl.scaleWord g]).all L = true := by
        rw [List.all_append, group_L v g n h, List.all_cons, List.all_nil, scale_L]; rfl
      split
      · exact fuse_L _ hws
      · exact hws

theorem cardinal_L (v : Var) (n : Nat) : (Spec.Nl.cardinal v n).all L = true := by
  unfold Spec.Nl.cardinal
  split
  · decide
  · dsimp only
    have h3 := scaled_L v 3 (n / 1000000000 % 1000) (Nat.mod_lt _ (by decide))
    have h2 := scaled_L v 2 (n / 1000000 % 1000) (Nat.mod_lt _ (by decide))
    have h1 := scaled_L v 1 (n / 1000 % 1000) (Nat.mod_lt _ (by decide))
    have h0 : (if (n % 1000 == 0) = true then ([] : List Word) else Spec.Nl.group v 0 (n % 1000)).all L = true := by
      split
      · rfl
      · exact group_L v 0 _ (Nat.mod_lt _ (by decide))
    generalize (if (n % 1000 == 0) = true then ([] : List Word) else Spec.Nl.group v 0 (n % 1000)) = p0 at h0 ⊢
    split
    · rw [List.all_append, List.all_append, h3, h2, fuse_L _ (by rw [List.all_append, h1, h0]; rfl)]; rfl
    · rw [List.all_append, List.all_append, List.all_append, h3, h2, h1, h0]; rfl

/-- every word of a spelled Dutch cardinal is over the alphabet -/
theorem cardinal_over (v : Var) (n : Nat) : ∀ w ∈ Spec.Nl.cardinal v n, isOver w = true := by
  intro w hw
  exact L_over (List.all_eq_true.mp (cardinal_L v n) w hw)

/-- … and is made of letters only (no hyphen), at least one -/
theorem cardinal_letters (v : Var) (n : Nat) :
    ∀ w ∈ Spec.Nl.cardinal v n, isLetters w = true ∧ w ≠ [] := by
  intro w hw
  have := List.all_eq_true.mp (cardinal_L v n) w hw
  exact ⟨L_letters this, L_ne this⟩

end T2N.C01Text.Nl
