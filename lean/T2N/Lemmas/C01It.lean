/-
  T2N.Lemmas.C01It — the unbounded cardinal round-trip for Italian (property C01):
  for every `n < 10^12` and every variant function `v`, validating `Spec.It.cardinal v n` with the model
  of the Italian interpreter yields the decimal digits of `n`.

  Structure of the proof (the language-independent part is imported from `T2N.Lemmas.C01En`):
  * `C01It/Split.lean`: the leftmost-longest splitter on a concatenation of atoms (`chainTo`, `splitWord_chain`);
  * `C01It/Sem.lean`: one arithmetic step lemma per vocabulary word in frame form (arbitrary higher part),
    `StepsF`, the atoms of a group (`gToks`) and `gToks_steps`, compound words (`compound_apply`, `word_step`);
  * `C01It/Tables.lean`: kernel-evaluated tables over the groups 1..999 (closed facts about their atoms);
  * `C01It/Words.lean`: the one-word group (`gword_step`), `…mila` (`tword_step`), the glued word below one
    million (`lword_step`);
  * this file: the specification's spelling, level by level (`group_steps`, `thousands_steps`,
    `belowMillion_steps`, `scaled_steps`, `cardinal_steps`) and the final theorems.
-/
import T2N.Lemmas.C01It.Words

set_option maxRecDepth 100000

namespace T2N.C01It
open T2N T2N.Spec
open T2N.C01En (mk lsb lsb_zero lsb_ne_nil lsb_rev_dec mk_nil)

/-! ## the specification's words as lists of atoms -/

theorem flag_constVar (alt : Bool) (i : Nat) : flag (constVar alt) i = alt := by
  cases alt <;> rfl

theorem below100_lvl (lvl r : Nat) (h : lvl < 3) : It.below100 lvl r = It.below100 0 r := by
  unfold It.below100
  dsimp only
  rw [if_neg (by omega : ¬ lvl ≥ 3), if_neg (by decide : ¬ 0 ≥ 3)]

theorem glueCento_const (v : Var) (g : Nat) (c w : Word) :
    It.glueCento v g c w = It.glueCento (constVar (flag v (cp g 4))) 0 c w := by
  unfold It.glueCento
  dsimp only
  rw [flag_constVar]

/-- at the glued levels the group only depends on the elision choice -/
theorem group_low (v : Var) (g lvl n : Nat) (hl : lvl < 2) :
    It.group v g lvl n = It.group (constVar (flag v (cp g 4))) 0 0 n := by
  unfold It.group
  dsimp only
  rw [if_neg (by omega : ¬ lvl ≥ 2), if_neg (by decide : ¬ 0 ≥ 2), below100_lvl lvl _ (by omega)]
  cases It.below100 0 (n % 100) with
  | nil => rfl
  | cons w rest => dsimp only; rw [glueCento_const]

theorem uTok_false (u : Nat) : uTok false u = It.unitWord u := by simp [uTok]
theorem elTok_false (t u : Nat) : elTok false t u = elidedWord t u := by simp [elTok]

/-- is `r` below 100 spelled with one atom? -/
def single (r : Nat) : Prop := r < 20 ∨ r % 10 = 0 ∨ r % 10 = 1 ∨ r % 10 = 8

instance (r : Nat) : Decidable (single r) := by unfold single; infer_instance

theorem rToks_single (r : Nat) (h0 : r ≠ 0) (h : single r) :
    rToks false false r = [flat (rToks false false r)] := by
  unfold rToks
  rw [if_neg (by simp [h0])]
  by_cases h20 : r < 20
  · rw [if_pos h20, flat_single]
  · rw [if_neg h20]
    by_cases hu : r % 10 = 0
    · rw [if_pos (by simp [hu]), flat_single]
    · rw [if_neg (by simp [hu])]
      have : r % 10 = 1 ∨ r % 10 = 8 := by unfold single at h; omega
      rw [if_pos (by simpa using this), flat_single]

theorem rToks_pair (r : Nat) (h : ¬ single r) :
    rToks false false r = [It.tensWord (r / 10), It.unitWord (r % 10)] := by
  unfold single at h
  unfold rToks
  rw [if_neg (by simp; omega), if_neg (by omega), if_neg (by simp; omega), if_neg (by simp; omega), uTok_false]

theorem flat_pair (a b : Word) : flat [a, b] = a ++ b := by simp [flat]

/-- `below100` in atoms -/
theorem below100_eq (lvl r : Nat) (h0 : r ≠ 0) :
    It.below100 lvl r = if lvl ≥ 3 ∧ ¬ single r then rToks false false r else [flat (rToks false false r)] := by
  by_cases hs : single r
  · rw [if_neg (by simp [hs]), ← rToks_single r h0 hs]
    unfold single at hs
    unfold It.below100 rToks
    dsimp only
    rw [if_neg (show ¬ ((r == 0) = true) by simp [h0])]
    by_cases h20 : r < 20
    · rw [if_pos h20, if_pos h20, uTok_false]
    · rw [if_neg h20, if_neg h20]
      by_cases hu : r % 10 = 0
      · rw [if_pos (show (r % 10 == 0) = true by simp [hu]), if_pos (show (r % 10 == 0) = true by simp [hu])]
      · rw [if_neg (show ¬ ((r % 10 == 0) = true) by simp [hu]), if_neg (show ¬ ((r % 10 == 0) = true) by simp [hu])]
        have : r % 10 = 1 ∨ r % 10 = 8 := by omega
        rw [if_pos (show (r % 10 == 1 || r % 10 == 8) = true by simpa using this),
          if_pos (show (r % 10 == 1 || r % 10 == 8) = true by simpa using this), elTok_false]
        rfl
  · have hp := rToks_pair r hs
    unfold single at hs
    unfold It.below100
    dsimp only
    rw [if_neg (show ¬ r < 20 by omega), if_neg (show ¬ ((r % 10 == 0) = true) by simp; omega),
      if_neg (show ¬ ((r % 10 == 1 || r % 10 == 8) = true) by simp; omega)]
    by_cases h3 : lvl ≥ 3
    · rw [if_pos h3, if_pos ⟨h3, by unfold single; omega⟩, hp]
    · rw [if_neg h3, if_neg (by intro h; exact h3 h.1), hp, flat_pair]

theorem hundredWord_eq (alt : Bool) (h : Nat) (h0 : h ≠ 0) (h9 : h < 10) :
    It.hundredWord h = flat (gToks alt false false (100 * h)) := by
  have e1 : 100 * h / 100 = h := by omega
  have e2 : 100 * h % 100 = 0 := by omega
  unfold gToks
  rw [e1, e2, if_neg (by simp)]
  have : elides alt h 0 = false := by simp [elides]
  rw [this, if_neg Bool.false_ne_true]
  have hr : rToks false false 0 = [] := rfl
  rw [hr, List.append_nil]
  unfold It.hundredWord hToks
  rw [if_neg (show ¬ ((h == 0) = true) by simp [h0])]
  by_cases h1 : h = 1
  · subst h1; rfl
  · rw [if_neg (show ¬ ((h == 1) = true) by simp [h1]), if_neg (show ¬ ((h == 1) = true) by simp [h1]), flat_pair]

/-! ## accent and apocope -/

theorem accent_eq (v : Var) (g : Nat) (w : Word) : It.accent v g w = accB (!flag v (cp g 3)) w := rfl

theorem accB_false (w : Word) : accB false w = w := by simp [accB]

/-- the accent rule maps a group word to a group word -/
theorem accent_gword (v : Var) (g : Nat) (alt : Bool) (m : Nat) (m0 : m ≠ 0) (m1 : m < 1000) :
    ∃ acc, It.accent v g (flat (gToks alt false false m)) = flat (gToks alt acc false m) := by
  rw [accent_eq]
  cases !flag v (cp g 3)
  · exact ⟨false, accB_false _⟩
  · exact ⟨m != 3, (baseFacts alt m m0 m1).accB⟩

/-- the apocope of the specification: the last word loses its last letter -/
def apoOp (apo : Bool) (ws : List Word) : List Word :=
  if apo then (match ws.reverse with | l :: rest => (l.dropLast :: rest).reverse | [] => ws) else ws

theorem apoOp_false (ws : List Word) : apoOp false ws = ws := rfl

theorem apoOp_single (w : Word) : apoOp true [w] = [w.dropLast] := rfl

theorem apoOp_append (apo : Bool) (pre B : List Word) (hB : B ≠ []) : apoOp apo (pre ++ B) = pre ++ apoOp apo B := by
  cases apo
  · rfl
  · rw [← List.dropLast_concat_getLast hB]
    unfold apoOp
    simp

/-- **a group written in one word**, with the accent rule and possibly the apocope applied -/
theorem single_word_steps (v : Var) (g : Nat) (alt : Bool) (m N : Nat) (apo : Bool) (m0 : m ≠ 0) (m1 : m < 1000)
    (hN : N % 1000 = 0 ∨ (m < 100 ∧ N % 100 = 0)) (hapo : apo = true → m % 10 = 1 ∧ 20 < m % 100) :
    StepsF 1 ((apoOp apo [flat (gToks alt false false m)]).map (It.accent v g)) N (N + m) := by
  cases apo
  · rw [apoOp_false, List.map_cons, List.map_nil]
    obtain ⟨acc, e⟩ := accent_gword v g alt m m0 m1
    rw [e]
    exact gword_step alt acc false m N m0 m1 hN
  · obtain ⟨h1, h2⟩ := hapo rfl
    obtain ⟨_, _, h3⟩ := apoFacts alt m m1 h1
    obtain ⟨e1, e2⟩ := h3 h2
    rw [apoOp_single, List.map_cons, List.map_nil, e1, accent_eq]
    have : accB (!flag v (cp g 3)) (flat (gToks alt false true m)) = flat (gToks alt false true m) := by
      cases !flag v (cp g 3)
      · exact accB_false _
      · exact e2
    rw [this]
    exact gword_step alt false true m N m0 m1 hN

theorem map_accent_atoms (v : Var) (g r : Nat) (h : r < 100) :
    (rToks false false r).map (It.accent v g) = rToks false false r := by
  have e : It.accent v g = accB (!flag v (cp g 3)) := funext (accent_eq v g)
  rw [e]
  cases !flag v (cp g 3)
  · have : accB false = id := funext accB_false
    rw [this, List.map_id]
  · have := rowAtoms_all r h
    unfold rowAtoms at this
    exact beq_iff_eq.mp this

theorem pick_lt4 (v : Var) (i : Nat) : pick v i 4 < 4 := by
  unfold pick
  rw [if_neg (by decide)]
  exact Nat.mod_lt _ (by decide)

/-- **the part below 100 of a group at the split levels 2, 3** -/
theorem b100_steps (v : Var) (g lvl r N : Nat) (apo : Bool) (r0 : r ≠ 0) (r1 : r < 100)
    (hN : N % 100 = 0) (hapo : apo = true → r % 10 = 1 ∧ 20 < r) :
    StepsF 1 ((apoOp apo (It.below100 lvl r)).map (It.accent v g)) N (N + r) := by
  rw [below100_eq lvl r r0]
  by_cases hc : lvl ≥ 3 ∧ ¬ single r
  · rw [if_pos hc]
    have ha : apo = false := by
      cases apo
      · rfl
      · exact absurd (Or.inr (Or.inr (Or.inl (hapo rfl).1))) hc.2
    subst ha
    rw [apoOp_false, map_accent_atoms v g r r1]
    exact rToks_steps 1 false false r N r1 hN
  · rw [if_neg hc, ← gToks_lt100 false false false r r1]
    exact single_word_steps v g false r N apo r0 (by omega) (Or.inr ⟨r1, hN⟩)
      (fun h => ⟨(hapo h).1, by have := (hapo h).2; omega⟩)

theorem accent_conj (v : Var) (g : Nat) : It.accent v g It.conj = It.conj := by
  rw [accent_eq]; cases !flag v (cp g 3) <;> rfl

/-- shape of a group: one word (equal to the glued spelling) or at least two words -/
theorem group_shape (v : Var) (g lvl n : Nat) (hl : lvl < 4) (n0 : n ≠ 0) (n1 : n < 1000) :
    It.group v g lvl n = [flat (gToks (flag v (cp g 4)) false false n)] ∨
    ∃ x y rest, It.group v g lvl n = x :: y :: rest := by
  by_cases hl2 : lvl < 2
  · left
    rw [group_low v g lvl n hl2]
    exact (baseFacts _ n n0 n1).spec
  · unfold It.group
    dsimp only
    by_cases hh : n / 100 = 0
    · rw [if_pos (by simp [hh])]
      have hr : n % 100 = n := by omega
      rw [hr, below100_eq lvl n n0]
      by_cases hc : lvl ≥ 3 ∧ ¬ single n
      · right
        rw [if_pos hc, rToks_pair n hc.2]
        exact ⟨_, _, _, rfl⟩
      · left
        rw [if_neg hc, gToks_lt100 _ false false n (by omega)]
    · rw [if_neg (by simp [hh])]
      by_cases hr : n % 100 = 0
      · left
        rw [if_pos (by simp [hr]), hundredWord_eq (flag v (cp g 4)) (n / 100) hh (by omega)]
        have : 100 * (n / 100) = n := by omega
        rw [this]
      · right
        rw [if_neg (by simp [hr]), if_pos (by omega : lvl ≥ 2)]
        have hb : It.below100 lvl (n % 100) ≠ [] := by
          rw [below100_eq lvl _ hr]
          split
          · rw [rToks_pair _ (by rename_i h; exact h.2)]; simp
          · simp
        obtain ⟨x, rest, e⟩ := List.exists_cons_of_ne_nil hb
        rw [e]
        split
        · exact ⟨_, _, _, rfl⟩
        · exact ⟨_, _, _, rfl⟩

/-- **a group 1..999 at any split level**, on three free positions (arbitrary higher part), with the
accent rule applied to every word, the optional `e` (units group) and possibly the apocope -/
theorem group_steps (v : Var) (g lvl n N : Nat) (apo : Bool) (hl : lvl < 4) (n0 : n ≠ 0) (n1 : n < 1000)
    (hN : N % 1000 = 0) (hapo : apo = true → n % 10 = 1 ∧ 20 < n % 100) :
    StepsF 1 ((apoOp apo (It.group v g lvl n)).map (It.accent v g)) N (N + n) := by
  by_cases hl2 : lvl < 2
  · rw [group_low v g lvl n hl2, (baseFacts _ n n0 n1).spec]
    exact single_word_steps v g _ n N apo n0 n1 (Or.inl hN) hapo
  · unfold It.group
    dsimp only
    by_cases hh : n / 100 = 0
    · rw [if_pos (by simp [hh])]
      have hr : n % 100 = n := by omega
      rw [hr]
      exact b100_steps v g lvl n N apo n0 (by omega) (by omega)
        (fun h => ⟨(hapo h).1, by have := (hapo h).2; omega⟩)
    · rw [if_neg (by simp [hh])]
      have hw := hundredWord_eq false (n / 100) hh (by omega)
      have s1 := single_word_steps v g false (100 * (n / 100)) N false (by omega) (by omega) (Or.inl hN)
        (fun h => by cases h)
      rw [apoOp_false, ← hw] at s1
      by_cases hr : n % 100 = 0
      · rw [if_pos (by simp [hr])]
        have ha : apo = false := by
          cases apo
          · rfl
          · have := (hapo rfl).1; omega
        subst ha
        rw [apoOp_false]
        exact s1.cast (by omega)
      · rw [if_neg (by simp [hr]), if_pos (by omega : lvl ≥ 2)]
        have hb : It.below100 lvl (n % 100) ≠ [] := by
          rw [below100_eq lvl _ hr]
          split
          · rw [rToks_pair _ (by rename_i h; exact h.2)]; simp
          · simp
        have sB := b100_steps v g lvl (n % 100) (N + 100 * (n / 100)) apo hr (by omega) (by omega)
          (fun h => ⟨by have := (hapo h).1; omega, (hapo h).2⟩)
        rw [apoOp_append apo _ _ hb, List.map_append, List.map_append, List.map_cons, List.map_nil]
        have sE : StepsF 1 ((if (g == 0 && flag v (cp 0 2)) = true then [It.conj] else []).map (It.accent v g) ++
            (apoOp apo (It.below100 lvl (n % 100))).map (It.accent v g)) (N + 100 * (n / 100))
            (N + 100 * (n / 100) + n % 100) := by
          split
          · rw [List.map_cons, List.map_nil, accent_conj, List.singleton_append]
            exact StepsF.e (by omega) sB (sB.ne_nil (by omega))
          · exact sB
        rw [List.append_assoc]
        exact (StepsF.append s1 sE).cast (by omega)

/-! ## thousands, the word(s) below one million -/

theorem accB_fixed (a : Bool) (w : Word) (h : accB true w = w) : accB a w = w := by
  cases a
  · exact accB_false w
  · exact h

theorem thousands_steps (v : Var) (lvl n N : Nat) (hl : lvl < 4) (n0 : n ≠ 0) (n1 : n < 1000) (hN : N % 10 ^ 6 = 0) :
    StepsF 1 ((It.thousands v lvl n).map (It.accent v 1)) N (N + n * 1000) := by
  unfold It.thousands
  by_cases h1 : n = 1
  · subst h1
    rw [if_pos (by decide), List.map_cons, List.map_nil, accent_eq, accB_fixed _ w!"mille" (by decide)]
    exact mille_step 1 N hN
  · rw [if_neg (by simp [h1])]
    rcases group_shape v 1 lvl n hl n0 n1 with e | ⟨x, y, rest, e⟩
    · rw [e]
      dsimp only
      rw [List.map_cons, List.map_nil, accent_eq]
      have := accB_mila (!flag v (cp 1 3)) (flat (gToks (flag v (cp 1 4)) false false n))
      unfold mila at this
      rw [this]
      exact tword_step _ n N (by omega) n1 hN
    · have hg := group_steps v 1 lvl n N false hl n0 n1 (by rw [pow6] at hN; omega) (fun h => by cases h)
      rw [apoOp_false] at hg
      rw [e] at hg ⊢
      show StepsF 1 (List.map (It.accent v 1) ((x :: y :: rest) ++ [w!"mila"])) N _
      rw [List.map_append, List.map_cons (l := []), List.map_nil, accent_eq, accB_fixed _ w!"mila" (by decide)]
      exact StepsF.append hg (mila_step 1 N n hN (by omega) n1)

theorem flat_pToks (alt : Bool) (g : Nat) :
    flat (pToks alt g) = if g == 1 then w!"mille" else flat (gToks alt false false g) ++ w!"mila" := by
  unfold pToks
  split
  · rfl
  · rw [flat_append, flat_single]; rfl

/-- **the number below one million** (one word, or several, at every split level), on six free positions -/
theorem belowMillion_steps (v : Var) (n N : Nat) (n0 : n ≠ 0) (n1 : n < 10 ^ 6) (hN : N % 10 ^ 6 = 0) :
    StepsF 1 (It.belowMillion v n) N (N + n) := by
  rw [pow6] at n1
  have hN3 : N % 1000 = 0 := by rw [pow6] at hN; omega
  have hl := pick_lt4 v (cp 0 0)
  unfold It.belowMillion
  dsimp only
  by_cases h1 : n / 1000 = 0
  · rw [if_pos (by simp [h1])]
    have := group_steps v 0 (pick v (cp 0 0) 4) (n % 1000) N false hl (by omega) (by omega) hN3 (fun h => by cases h)
    rw [apoOp_false] at this
    exact this.cast (by omega)
  · rw [if_neg (by simp [h1])]
    have sT := thousands_steps v (pick v (cp 0 0) 4) (n / 1000) N hl h1 (by omega) hN
    by_cases h0 : n % 1000 = 0
    · rw [if_pos (by simp [h0])]
      exact sT.cast (by omega)
    · rw [if_neg (by simp [h0])]
      by_cases hz : pick v (cp 0 0) 4 = 0
      · rw [hz, if_pos (by decide)]
        -- one word
        have e0 : It.group v 0 0 (n % 1000) = [flat (gToks (flag v (cp 0 4)) false false (n % 1000))] := by
          rw [group_low v 0 0 _ (by decide)]
          exact (baseFacts _ _ h0 (by omega)).spec
        have e1 : It.thousands v 0 (n / 1000) = [flat (pToks (flag v (cp 1 4)) (n / 1000))] := by
          unfold It.thousands
          rw [flat_pToks]
          by_cases h11 : n / 1000 = 1
          · rw [h11]; rfl
          · rw [if_neg (by simp [h11]), if_neg (by simp [h11]), group_low v 1 0 _ (by decide),
              (baseFacts _ _ h1 (by omega)).spec]
        rw [e0, e1]
        dsimp only
        have B := baseFacts (flag v (cp 0 4)) (n % 1000) h0 (by omega)
        have hP : flat (pToks (flag v (cp 1 4)) (n / 1000)) ≠ [] := by
          intro e
          have := flat_pToks_l (flag v (cp 1 4)) (n / 1000)
          rw [e] at this
          cases this
        rw [accent_eq, accB_glue _ _ _ hP B.len]
        have : (if (!flag v (cp 0 3)) = true then accP (flat (gToks (flag v (cp 0 4)) false false (n % 1000)))
            else flat (gToks (flag v (cp 0 4)) false false (n % 1000))) =
            flat (gToks (flag v (cp 0 4)) (!flag v (cp 0 3)) false (n % 1000)) := by
          cases !flag v (cp 0 3)
          · rfl
          · exact B.accP
        rw [this]
        exact (lword_step _ _ _ (n / 1000) (n % 1000) N h1 (by omega) h0 (by omega) hN).cast (by omega)
      · rw [if_neg (by simp [hz])]
        have sG := group_steps v 0 (pick v (cp 0 0) 4) (n % 1000) (N + n / 1000 * 1000) false hl h0 (by omega)
          (by omega) (fun h => by cases h)
        rw [apoOp_false] at sG
        have sE : StepsF 1 ((if flag v (cp 1 1) = true then [It.conj] else []) ++
            (It.group v 0 (pick v (cp 0 0) 4) (n % 1000)).map (It.accent v 0)) (N + n / 1000 * 1000)
            (N + n / 1000 * 1000 + n % 1000) := by
          split
          · rw [List.singleton_append]
            exact StepsF.e (by omega) sG (sG.ne_nil (by omega))
          · exact sG
        rw [List.append_assoc]
        exact (StepsF.append sT sE).cast (by omega)

/-! ## millions, milliards, the whole number -/

theorem scaled_eq (v : Var) (g n : Nat) :
    It.scaled v g n = if n == 0 then [] else if n == 1 then [w!"un", It.scaleWord g false]
      else (apoOp (n % 10 == 1 && decide (n % 100 > 20) && flag v (cp g 5)) (It.group v g (pick v (cp g 0) 4) n)).map
        (It.accent v g) ++ [It.scaleWord g true] := rfl

theorem un_step (N : Nat) (hN : N % 100 = 0) : StepsF 1 [w!"un"] N (N + 1) :=
  StepsF.atom plain_un (unitFree_exec 1 N (by decide) (by decide) hN)

theorem scaled_group_steps (v : Var) (g n N : Nat) (n0 : n ≠ 0) (n1 : n < 1000) (hN : N % 1000 = 0) :
    StepsF 1 ((apoOp (n % 10 == 1 && decide (n % 100 > 20) && flag v (cp g 5))
      (It.group v g (pick v (cp g 0) 4) n)).map (It.accent v g)) N (N + n) := by
  apply group_steps v g _ n N _ (pick_lt4 v _) n0 n1 hN
  intro h
  simp only [Bool.and_eq_true, beq_iff_eq, decide_eq_true_eq] at h
  exact ⟨h.1.1, h.1.2⟩

theorem scaled2_steps (v : Var) (n N : Nat) (n1 : n < 1000) (hN : N % 10 ^ 9 = 0) :
    StepsF 1 (It.scaled v 2 n) N (N + n * 10 ^ 6) := by
  have hN3 : N % 1000 = 0 := by rw [pow9] at hN; omega
  rw [scaled_eq]
  by_cases h0 : n = 0
  · subst h0; rw [if_pos (by decide)]; exact (StepsF.nil 1 N).cast (by simp)
  · rw [if_neg (by simp [h0])]
    by_cases h1 : n = 1
    · subst h1
      rw [if_pos (by decide)]
      have s2 : StepsF 1 [w!"milione"] (N + 1) (N + 10 ^ 6) := StepsF.atom plain_milione (milione_exec N hN)
      exact (StepsF.append (un_step N (by omega)) s2).cast (by omega)
    · rw [if_neg (by simp [h1])]
      have s2 : StepsF 1 [w!"milioni"] (N + n) (N + n * 10 ^ 6) :=
        StepsF.atom plain_milioni (milioni_exec N n hN (by omega) n1)
      exact StepsF.append (scaled_group_steps v 2 n N h0 n1 hN3) s2

theorem scaled3_steps (v : Var) (n : Nat) (n1 : n < 1000) : StepsF 1 (It.scaled v 3 n) 0 (n * 10 ^ 9) := by
  rw [scaled_eq]
  by_cases h0 : n = 0
  · subst h0; rw [if_pos (by decide)]; exact (StepsF.nil 1 0).cast (by simp)
  · rw [if_neg (by simp [h0])]
    by_cases h1 : n = 1
    · subst h1
      rw [if_pos (by decide)]
      have s2 : StepsF 1 [w!"miliardo"] (0 + 1) (10 ^ 9) := StepsF.atom plain_miliardo miliardo_exec
      exact (StepsF.append (un_step 0 (by decide)) s2).cast (by omega)
    · rw [if_neg (by simp [h1])]
      have s2 : StepsF 1 [w!"miliardi"] (0 + n) (n * 10 ^ 9) := by
        rw [Nat.zero_add]; exact StepsF.atom plain_miliardi (miliardi_exec n (by omega) n1)
      exact StepsF.append (scaled_group_steps v 3 n 0 h0 n1 (by decide)) s2

theorem cardinal_steps (v : Var) (n : Nat) (hn : n ≠ 0) (h : n < 10 ^ 12) : StepsF 1 (It.cardinal v n) 0 n := by
  unfold It.cardinal
  rw [if_neg (by simp [hn])]
  dsimp only
  obtain ⟨g3, hg3⟩ : ∃ g3, g3 = n / 1000000000 % 1000 := ⟨_, rfl⟩
  obtain ⟨g2, hg2⟩ : ∃ g2, g2 = n / 1000000 % 1000 := ⟨_, rfl⟩
  obtain ⟨lo, hlo⟩ : ∃ lo, lo = n % 1000000 := ⟨_, rfl⟩
  rw [← hg3, ← hg2, ← hlo]
  have s3 := scaled3_steps v g3 (by omega)
  have s2 := scaled2_steps v g2 (g3 * 10 ^ 9) (by omega) (by rw [pow9]; omega)
  rw [pow6, pow9] at s2
  rw [pow9] at s3
  have hsum : g3 * 1000000000 + g2 * 1000000 + lo = n := by omega
  have s0 : StepsF 1 (if (lo == 0) = true then [] else It.belowMillion v lo) (g3 * 1000000000 + g2 * 1000000) n := by
    by_cases hz : lo = 0
    · rw [if_pos (by simp [hz])]
      have e : g3 * 1000000000 + g2 * 1000000 = n := by
        rw [hz, Nat.add_zero] at hsum; exact hsum
      exact StepsF.cast (StepsF.nil 1 (g3 * 1000000000 + g2 * 1000000)) e
    · rw [if_neg (by simp [hz])]
      exact (belowMillion_steps v lo _ hz (by rw [pow6]; omega) (by rw [pow6]; omega)).cast hsum
  generalize (if (lo == 0) = true then [] else It.belowMillion v lo) = p0 at s0
  have t2 : StepsF 1 ((if (g2 != 0 && lo != 0 && flag v (cp 2 1)) = true then [It.conj] else []) ++ p0)
      (g3 * 1000000000 + g2 * 1000000) n := by
    split
    · rename_i hc
      simp only [Bool.and_eq_true, bne_iff_ne, ne_eq] at hc
      rw [List.singleton_append]
      exact StepsF.e (by omega) s0 (s0.ne_nil (by omega))
    · exact s0
  have t3 := StepsF.append s2 t2
  have t4 : StepsF 1 ((if (g3 != 0 && (g2 != 0 || lo != 0) && flag v (cp 3 1)) = true then [It.conj] else []) ++
      (It.scaled v 2 g2 ++ ((if (g2 != 0 && lo != 0 && flag v (cp 2 1)) = true then [It.conj] else []) ++ p0)))
      (g3 * 1000000000) n := by
    split
    · rename_i hc
      simp only [Bool.and_eq_true, Bool.or_eq_true, bne_iff_ne, ne_eq] at hc
      rw [List.singleton_append]
      exact StepsF.e (by omega) t3 (t3.ne_nil (by omega))
    · exact t3
  have t5 := StepsF.append s3 t4
  simp only [List.append_assoc]
  exact t5

/-- **C01 for Italian, unbounded**: every cardinal below 10^12, in every accepted spelling variant (every
split level of every group, optional `e`, accent `tré|tre`, `cento` elisions, apocope), validates to its
decimal digits. No restriction on the variant function. -/
theorem C01_validate_it (v : T2N.Spec.Var) (n : Nat) (h : n < 10 ^ 12) :
    T2N.text2digitsWords T2N.It.lang (T2N.Spec.It.cardinal v n) = .ok (T2N.Spec.decChars n) := by
  by_cases hn : n = 0
  · subst hn
    have e : decChars 0 = ['0'] := by
      unfold decChars; rw [decDigits, if_pos (by decide)]; decide
    rw [e]
    show text2digitsWords T2N.It.lang [w!"zero"] = _
    decide
  · have hs := cardinal_steps v n hn h []
    rw [List.append_nil, lsb_zero, mk_nil] at hs
    have hex : execGroup T2N.It.lang.apply (It.cardinal v n) = .ok (mk (lsb n)) := by
      show execGroupFrom (T2N.It.applyFuel (1 + 1)) (It.cardinal v n) DS.new false = _
      rw [hs, execGroupFrom, if_neg Bool.false_ne_true]
    have hne := lsb_ne_nil hn
    have hemp : (mk (lsb n)).isEmpty = false := by
      show ((lsb n).isEmpty && (0 : Nat) == 0) = false
      cases hl : lsb n with
      | nil => exact absurd hl hne
      | cons a t => rfl
    have hrender : (mk (lsb n)).render = decDigits n := by
      show List.replicate 0 0 ++ (lsb n).reverse = _
      rw [lsb_rev_dec n hn]; rfl
    have hrne : (mk (lsb n)).render.isEmpty = false := by
      rw [hrender, ← lsb_rev_dec n hn]
      cases hl : lsb n with
      | nil => exact absurd hl hne
      | cons a t => simp
    unfold text2digitsWords
    rw [hex]
    dsimp only
    rw [hemp, if_neg Bool.false_ne_true]
    unfold Lang.formatW
    rw [hrne, if_neg Bool.false_ne_true]
    show ValOut.ok (renderChars (mk (lsb n))) = _
    unfold renderChars decChars
    rw [hrender]

/-- the most split spelling (split level 3 in every group) is a special case -/
theorem C01_validate_it_split3 (v : T2N.Spec.Var) (n : Nat) (h : n < 10 ^ 12)
    (_h0 : pick v (cp 0 0) 4 = 3) (_h2 : pick v (cp 2 0) 4 = 3) (_h3 : pick v (cp 3 0) 4 = 3) :
    T2N.text2digitsWords T2N.It.lang (T2N.Spec.It.cardinal v n) = .ok (T2N.Spec.decChars n) :=
  C01_validate_it v n h

/-- the hypotheses of `C01_validate_it_split3` are satisfiable: every choice point answers 3 -/
example : T2N.text2digitsWords T2N.It.lang (T2N.Spec.It.cardinal (fun _ => 3) 999888777666) =
    .ok (T2N.Spec.decChars 999888777666) := C01_validate_it_split3 _ _ (by decide) rfl rfl rfl

/-- instances: the standard orthography (one word below a million) and every switch on -/
example : T2N.text2digitsWords T2N.It.lang (T2N.Spec.It.cardinal (fun _ => 0) 123456789012) =
    .ok (T2N.Spec.decChars 123456789012) := C01_validate_it _ _ (by decide)
example : T2N.text2digitsWords T2N.It.lang (T2N.Spec.It.cardinal (fun _ => 3) 123456789012) =
    .ok (T2N.Spec.decChars 123456789012) := C01_validate_it _ _ (by decide)

end T2N.C01It
