/-
  T2N.Lemmas.CharLaws — the laws about the character classes, made CHECKABLE.

  The text-level theorems are parameterised by `cc : CharClasses` (Rust's `char::is_whitespace`, `is_alphabetic`,
  `is_alphanumeric`, `to_lowercase`) and assume laws about `cc`, each a `Prop` quantifying over all `Char`s.
  T2N/Driver/Laws.lean defines, from the model only, a Boolean checker for each law, built on
  `allChars p` = "`p` holds of every Unicode scalar value" (a loop over the 1 112 064 code points).  Here:

    * `allChars_sound : allChars p = true → ∀ c : Char, p c = true` (no evaluation at compile time: induction on
      the fuel of the loop);
    * `checkX_sound : checkX cc = true → X cc` for every law `X`, `checkAllLaws_eq_spec` and
      `checkAllLaws_sound` for the list printed by the driver's `laws` request;
    * `sepLetters_eq`, `alphabet_eq`: the letter lists copied into the driver file are the ones of the proof files;
    * the headline text-level theorems restated with the Boolean premise (`C17_text_scan_checked`, …), so that
      "the driver answers `X=1` on the table dumped from Rust `std`" + the theorem gives the statement for Rust's
      tables (up to the faithfulness of the table loader `CC.Table.toCC`, which is tested, not proved).

  Result on the real table (`t2n-harness cc-dump`, std of rustc 1.95.0): every law below evaluates to `1`.
-/
import T2N.Driver.Laws
import T2N.Lemmas.WsText
import T2N.Lemmas.C01Text
import T2N.Lemmas.Hints
import T2N.Props.C11
import T2N.Props.C17.Text
import T2N.Props.C01.Text
import T2N.Props.C15.Hints

namespace T2N.CharLaws
open T2N

/-! ### `allChars` -/

theorem allFrom_sound (p : Char → Bool) : ∀ (fuel i : Nat), allFrom p i fuel = true →
    ∀ j, i ≤ j → j < i + fuel → p (Char.ofNat j) = true := by
  intro fuel
  induction fuel with
  | zero => intro i _ j h1 h2; omega
  | succ k ih =>
    intro i h j h1 h2
    unfold allFrom at h
    by_cases hp : p (Char.ofNat i) = true
    · rw [if_pos hp] at h
      by_cases hj : j = i
      · subst hj; exact hp
      · exact ih (i + 1) h j (by omega) (by omega)
    · rw [if_neg hp] at h; cases h

theorem allFrom_complete (p : Char → Bool) (hp : ∀ c, p c = true) : ∀ (fuel i : Nat), allFrom p i fuel = true := by
  intro fuel
  induction fuel with
  | zero => intro i; rfl
  | succ k ih => intro i; unfold allFrom; rw [if_pos (hp _)]; exact ih (i + 1)

/-- **soundness of the exhaustive check**: if the loop over all code points answers `true`, the predicate holds of
every `Char` -/
theorem allChars_sound {p : Char → Bool} (h : allChars p = true) : ∀ c : Char, p c = true := by
  intro c
  unfold allChars at h
  rw [Bool.and_eq_true] at h
  have hv : c.toNat < 55296 ∨ 57343 < c.toNat ∧ c.toNat < 1114112 := c.valid
  rw [← Char.ofNat_toNat c]
  rcases hv with hv | hv
  · exact allFrom_sound p _ _ h.1 c.toNat (Nat.zero_le _) (by omega)
  · exact allFrom_sound p _ _ h.2 c.toNat (by omega) (by omega)

/-- … and the check is complete: it answers `true` whenever the predicate holds of every `Char` -/
theorem allChars_complete {p : Char → Bool} (hp : ∀ c, p c = true) : allChars p = true := by
  unfold allChars
  rw [allFrom_complete p hp, allFrom_complete p hp]; rfl

theorem allChars_iff {p : Char → Bool} : allChars p = true ↔ ∀ c : Char, p c = true :=
  ⟨allChars_sound, allChars_complete⟩

/-! ### the copied letter lists are the original ones -/

theorem sepLetters_eq (l : Language) : sepLetters l = C17.sepLetters l := by
  cases l <;> rfl

theorem alphabet_eq : alphabet = C01Text.alphabet := rfl

theorem needsLowerWs_iff (l : Language) : needsLowerWs l = true ↔ (l = .english ∨ l = .french) := by
  cases l <;> simp [needsLowerWs]

/-! ### small Boolean facts -/

theorem imp_of_not_or {a b : Bool} (h : (!a || b) = true) (ha : a = true) : b = true := by
  subst ha; simpa using h

theorem imp_of_or {a b : Bool} (h : (a || b) = true) (ha : a = false) : b = true := by
  subst ha; simpa using h

theorem eq_false_of_not {a : Bool} (h : (!a) = true) : a = false := by
  cases a <;> simp_all

theorem ne_nil_of_not_isEmpty {α : Type} {l : List α} (h : (!l.isEmpty) = true) : l ≠ [] := by
  intro e; subst e; cases h

/-! ### soundness of each checker -/

/-- `WsText.WsLaws` -/
theorem checkWsLaws_sound {cc : CharClasses} (h : checkWsLaws cc = true) : WsText.WsLaws cc := by
  unfold checkWsLaws at h
  rw [Bool.and_eq_true, Bool.and_eq_true] at h
  obtain ⟨⟨h1, h2⟩, h3⟩ := h
  have key : ∀ c, cc.isWhitespace c = true → (!cc.isAlphanumeric c && !cc.isAlphabetic c) = true :=
    fun c hc => imp_of_not_or (allChars_sound h1 c) hc
  refine ⟨fun c hc => ?_, fun c hc => ?_, eq_false_of_not h2, eq_false_of_not h3⟩
  · have := key c hc; rw [Bool.and_eq_true] at this; exact eq_false_of_not this.1
  · have := key c hc; rw [Bool.and_eq_true] at this; exact eq_false_of_not this.2

/-- `WsText.LowerWs` -/
theorem checkLowerWs_sound {cc : CharClasses} (h : checkLowerWs cc = true) : WsText.LowerWs cc :=
  fun c hc => imp_of_not_or (allChars_sound h c) hc

/-- `WsText.LowerWsNe` -/
theorem checkLowerWsNe_sound {cc : CharClasses} (h : checkLowerWsNe cc = true) : WsText.LowerWsNe cc :=
  fun c hc => ne_nil_of_not_isEmpty (imp_of_not_or (allChars_sound h c) hc)

/-- `WsText.SepInert` -/
theorem checkSepInert_sound {cc : CharClasses} {ls : List Char} (h : checkSepInert cc ls = true) :
    WsText.SepInert cc ls := by
  intro c hc d hd hl
  have h1 := imp_of_or (allChars_sound h c) hc
  have h2 := List.all_eq_true.mp h1 d hd
  have h3 : ls.contains d = true := List.contains_iff_mem.mpr hl
  rw [h3] at h2; cases h2

/-- the hypothesis `hlow` of `WsText.sepInert_of_alnum` -/
theorem checkLowerNonAlnum_sound {cc : CharClasses} (h : checkLowerNonAlnum cc = true) :
    ∀ c, cc.isAlphanumeric c = false → (cc.lower c).all (fun d => !cc.isAlphanumeric d) = true :=
  fun c hc => imp_of_or (allChars_sound h c) hc

/-- `C17.TextLaws cc l`, for each language -/
theorem checkTextLaws_sound {cc : CharClasses} {l : Language} (h : checkTextLaws cc l = true) :
    C17.TextLaws cc l := by
  unfold checkTextLaws at h
  rw [Bool.and_eq_true, Bool.and_eq_true] at h
  obtain ⟨⟨h1, h2⟩, h3⟩ := h
  refine ⟨checkWsLaws_sound h1, ?_, fun hl => ?_⟩
  · rw [← sepLetters_eq]; exact checkSepInert_sound h2
  · exact checkLowerWs_sound (imp_of_not_or h3 ((needsLowerWs_iff l).mpr hl))

/-- `C11.CaseLaws` -/
theorem checkCaseLaws_sound {cc : CharClasses} (h : checkCaseLaws cc = true) : C11.CaseLaws cc := by
  have key : ∀ c, caseLawsAt cc c = true := allChars_sound h
  unfold caseLawsAt at key
  refine ⟨fun c => ?_, fun c => ?_, fun c => ?_, fun c hc => ?_⟩
  · have := key c; simp only [Bool.and_eq_true] at this
    exact ne_nil_of_not_isEmpty this.1.1.1
  · have := key c; simp only [Bool.and_eq_true] at this
    exact eq_of_beq this.1.1.2
  · have := key c; simp only [Bool.and_eq_true] at this
    exact eq_of_beq this.1.2
  · have := key c; simp only [Bool.and_eq_true] at this
    exact eq_of_beq (imp_of_not_or this.2 hc)

/-- `C11.Recasing cc f`, for every recasing function `f` -/
theorem checkRecasing_sound {cc : CharClasses} {f : Char → Char} (h : checkRecasing cc f = true) :
    C11.Recasing cc f := by
  have key : ∀ c, recasingAt cc f c = true := allChars_sound h
  unfold recasingAt at key
  simp only [Bool.and_eq_true] at key
  exact ⟨fun c => eq_of_beq (key c).1.1.1.1.1.1, fun c => eq_of_beq (key c).1.1.1.1.1.2,
    fun c => eq_of_beq (key c).1.1.1.1.2, fun c => eq_of_beq (key c).1.1.1.2, fun c => eq_of_beq (key c).1.1.2,
    fun c => eq_of_beq (key c).1.2, fun c => eq_of_beq (key c).2⟩

/-- `C01Text.TextLaws` -/
theorem checkC01TextLaws_sound {cc : CharClasses} (h : checkC01TextLaws cc = true) : C01Text.TextLaws cc := by
  unfold checkC01TextLaws at h
  simp only [Bool.and_eq_true] at h
  obtain ⟨⟨⟨⟨h1, h2⟩, h3⟩, h4⟩, h5⟩ := h
  exact ⟨h1, eq_of_beq h2, fun c hc => eq_false_of_not (imp_of_not_or (allChars_sound h3 c) hc),
    eq_false_of_not h4, eq_of_beq h5⟩

/-- `C01Text.AlphaLaws` (the checker is run on the copied `alphabet`) -/
theorem checkAlphaLaws_sound {cc : CharClasses} (h : checkAlphaLaws cc alphabet = true) : C01Text.AlphaLaws cc := by
  have key : ∀ c, C01Text.isLetter c = true → (cc.isAlphanumeric c && cc.lower c == [c]) = true := by
    intro c hc
    unfold checkAlphaLaws at h
    refine List.all_eq_true.mp h c ?_
    rw [alphabet_eq]
    exact List.contains_iff_mem.mp hc
  refine ⟨fun c hc => ?_, fun c hc => ?_⟩
  · have := key c hc; rw [Bool.and_eq_true] at this; exact this.1
  · have := key c hc; rw [Bool.and_eq_true] at this; exact eq_of_beq this.2

/-- `Hints.CommaChar` -/
theorem checkCommaChar_sound {cc : CharClasses} (h : checkCommaChar cc = true) : Hints.CommaChar cc := by
  unfold checkCommaChar at h
  rw [Bool.and_eq_true] at h
  exact ⟨eq_false_of_not h.1, eq_false_of_not h.2⟩

/-- the in-line hypothesis `hspace` of the token-level C01 / C07 theorems -/
theorem checkSpaceWs_sound {cc : CharClasses} (h : checkSpaceWs cc = true) : cc.isWhitespace ' ' = true := h

/-! ### the checkers are complete as well (so a `0` answer of the driver means that the law is FALSE of the table) -/

theorem checkLowerWs_complete {cc : CharClasses} (H : WsText.LowerWs cc) : checkLowerWs cc = true := by
  apply allChars_complete
  intro c
  unfold lowerWsAt
  cases hc : cc.isWhitespace c with
  | false => rfl
  | true => exact H c hc

theorem checkSepInert_complete {cc : CharClasses} {ls : List Char} (H : WsText.SepInert cc ls) :
    checkSepInert cc ls = true := by
  apply allChars_complete
  intro c
  unfold sepInertAt
  cases hc : cc.isAlphanumeric c with
  | true => rfl
  | false =>
    rw [Bool.false_or, List.all_eq_true]
    intro d hd
    cases hl : ls.contains d with
    | false => rfl
    | true => exact absurd (List.contains_iff_mem.mp hl) (H c hc d hd)

/-! ### the list printed by the driver -/

/-- the list evaluated by the driver (passes shared) is the specification list -/
theorem checkAllLaws_eq_spec (cc : CharClasses) : checkAllLaws cc = checkAllLawsSpec cc := rfl

/-- every entry of the driver's answer, read back as a law -/
theorem checkAllLaws_sound (cc : CharClasses) (h : ∀ e ∈ checkAllLaws cc, e.2 = true) :
    WsText.WsLaws cc ∧ WsText.LowerWs cc ∧ WsText.LowerWsNe cc ∧
    (∀ l : Language, WsText.SepInert cc (C17.sepLetters l)) ∧ (∀ l : Language, C17.TextLaws cc l) ∧
    C11.CaseLaws cc ∧ C11.Recasing cc Char.toUpper ∧ C11.Recasing cc Char.toLower ∧
    C01Text.TextLaws cc ∧ C01Text.AlphaLaws cc ∧ Hints.CommaChar cc ∧ cc.isWhitespace ' ' = true := by
  rw [checkAllLaws_eq_spec] at h
  have hm : ∀ (n : String) (b : Bool), (n, b) ∈ checkAllLawsSpec cc → b = true := fun n b hb => h (n, b) hb
  have hsep : ∀ l : Language, checkSepInert cc (sepLetters l) = true := by
    intro l
    refine hm ("SepInert." ++ langName l) _ ?_
    unfold checkAllLawsSpec
    cases l <;> simp [languages]
  have htl : ∀ l : Language, checkTextLaws cc l = true := by
    intro l
    refine hm ("C17.TextLaws." ++ langName l) _ ?_
    unfold checkAllLawsSpec
    cases l <;> simp [languages]
  refine ⟨checkWsLaws_sound (hm "WsLaws" _ (by simp [checkAllLawsSpec])),
    checkLowerWs_sound (hm "LowerWs" _ (by simp [checkAllLawsSpec])),
    checkLowerWsNe_sound (hm "LowerWsNe" _ (by simp [checkAllLawsSpec])),
    fun l => by rw [← sepLetters_eq]; exact checkSepInert_sound (hsep l),
    fun l => checkTextLaws_sound (htl l),
    checkCaseLaws_sound (hm "C11.CaseLaws" _ (by simp [checkAllLawsSpec])),
    checkRecasing_sound (hm "C11.Recasing.asciiUpper" _ (by simp [checkAllLawsSpec])),
    checkRecasing_sound (hm "C11.Recasing.asciiLower" _ (by simp [checkAllLawsSpec])),
    checkC01TextLaws_sound (hm "C01Text.TextLaws" _ (by simp [checkAllLawsSpec])),
    checkAlphaLaws_sound (hm "C01Text.AlphaLaws" _ (by simp [checkAllLawsSpec])),
    checkCommaChar_sound (hm "CommaChar" _ (by simp [checkAllLawsSpec])),
    checkSpaceWs_sound (hm "SpaceWs" _ (by simp [checkAllLawsSpec]))⟩

/-! ### non-vacuity: the checkers accept the explicit classes `simpleCC` (by the completeness of `allChars`, not by
evaluation) -/

example : checkLowerWs simpleCC = true := checkLowerWs_complete C17.simpleCC_lowerWs
example (l : Language) : checkSepInert simpleCC (C17.sepLetters l) = true :=
  checkSepInert_complete (C17.simpleCC_sepInert l)
example : checkCommaChar simpleCC = true := by decide
example : checkSpaceWs simpleCC = true := by decide

/-! ### headline text-level theorems with the Boolean premise -/

/-- **C17 (text, search)** with the checked premise: if the driver answers `C17.TextLaws.<l>=1` for the table,
replacing whitespace runs by other non-empty whitespace runs does not change the occurrences found -/
theorem C17_text_scan_checked (cc : CharClasses) (l : Language) (hc : checkTextLaws cc l = true) (thr : Nat → Bool)
    {s s' : Word} (h : WsText.WsSubst cc s s') :
    findNumbers (WsText.textCfg cc l.interp thr) (l.annotate cc (tokenize cc s)) =
      findNumbers (WsText.textCfg cc l.interp thr) (l.annotate cc (tokenize cc s')) :=
  C17.C17_text_scan cc l (checkTextLaws_sound hc) thr h

/-- **C17 (text, rewriting)** with the checked premise -/
theorem C17_text_rewrite_checked (cc : CharClasses) (l : Language) (hc : checkTextLaws cc l = true) (thr : Nat → Bool)
    {s s' : Word} (h : WsText.WsSubst cc s s') :
    ∃ out out', replaceText cc l thr s = .ok out ∧ replaceText cc l thr s' = .ok out' ∧
      WsText.WsSubst cc out out' :=
  C17.C17_text_rewrite cc l (checkTextLaws_sound hc) thr h

/-- **C17 (text, validation)** with the checked premises -/
theorem C17_text_validate_checked (cc : CharClasses) (h1 : checkLowerWs cc = true) (h2 : checkLowerWsNe cc = true)
    (l : Lang) {s s' : Word} (h : WsText.WsSubst cc s s') (u v u' v' : Word)
    (hu : u.all cc.isWhitespace = true) (hv : v.all cc.isWhitespace = true)
    (hu' : u'.all cc.isWhitespace = true) (hv' : v'.all cc.isWhitespace = true) :
    text2digits cc l (u ++ s ++ v) = text2digits cc l (u' ++ s' ++ v') :=
  C17.C17_text_validate cc (checkLowerWs_sound h1) (checkLowerWsNe_sound h2) l h u v u' v' hu hv hu' hv'

/-- **C01 (en), text level** with the checked premises -/
theorem C01_text_en_checked {cc : CharClasses} (hL : checkC01TextLaws cc = true)
    (hA : checkAlphaLaws cc alphabet = true) (thr : Nat → Bool)
    (v : Spec.Var) (n : Nat) (h : n < 10 ^ 12) (hthr : n < 10 → thr n = false)
    (pre post : List Word) (hpre : ∀ w ∈ pre, C01Text.Ordinary cc En.lang w)
    (hpost : ∀ w ∈ post, C01Text.Ordinary cc En.lang w) :
    replaceText cc .english thr (Spec.joinWords (pre ++ Spec.En.cardinal v n ++ post)) =
      .ok (Spec.joinWords (pre ++ [Spec.decChars n] ++ post)) :=
  C01.C01_text_en (checkC01TextLaws_sound hL) (checkAlphaLaws_sound hA) thr v n h hthr pre post hpre hpost

/-- **C11 (raw tests)** with the checked premise -/
theorem C11_raw_tests_case_insensitive_checked (cc : CharClasses) (hc : checkCaseLaws cc = true) (t t' : Word)
    (h : cc.lowerStr t = cc.lowerStr t') :
    t.all cc.isWhitespace = t'.all cc.isWhitespace ∧
    t.all (fun c => !cc.isAlphabetic c) = t'.all (fun c => !cc.isAlphabetic c) :=
  C11.C11_raw_tests_case_insensitive cc (checkCaseLaws_sound hc) t t' h

/-- **C11 (text)** with the checked premise, for any recasing function `f` (the driver checks ASCII upper- and
lower-casing, `Char.toUpper` / `Char.toLower`) -/
theorem C11_text_scan_checked (cfg : ScanCfg) (hsep : cfg.sep = noSep) (f : Char → Char)
    (hc : checkRecasing cfg.cc f = true) (s : Word) :
    findNumbers cfg (tokenize cfg.cc (s.map f)) = findNumbers cfg (tokenize cfg.cc s) :=
  C11.C11_text_scan cfg hsep f (checkRecasing_sound hc) s

/-- **C15 (a separation is a spoken comma)** with the checked premise -/
theorem C15_sep_as_comma_builtin_checked (cfg : ScanCfg) (hb : cfg.lang ∈ allLangs)
    (hc : checkCommaChar cfg.cc = true)
    (A B : List Tok) (t p : Tok) (hp : Hints.prevSig cfg A = some p) (hsep : cfg.sep t p = true)
    (hs : Scanner.isSkipped cfg t = false) (hnan : t.nan = false) :
    ∃ occs, findNumbers cfg (A ++ t :: B) = .ok occs ∧
      findNumbers cfg (A ++ Hints.commaTok :: t :: B) = .ok (occs.map (Hints.shiftFrom A.length)) :=
  C15.C15_sep_as_comma_builtin cfg hb (checkCommaChar_sound hc) A B t p hp hsep hs hnan

end T2N.CharLaws
