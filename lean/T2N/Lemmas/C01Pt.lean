/-
  T2N.Lemmas.C01Pt — the unbounded cardinal round-trip for Portuguese (property C01):
  for every `n < 10^12` and every variant function `v` (European / Brazilian teens, `catorze|quatorze`,
  gender, `mil milhões | bilhões | biliões`, the obligatory conjunction `e` and the optional extra `e`),
  validating `Spec.Pt.cardinal v n` with the model of the Portuguese interpreter yields the decimal
  digits of `n`.

  Structure of the proof (the list-level and `lsb` lemmas are those of `T2N.Lemmas.C01En`)
  * `mkP r fl`: the builder states reached — only `rbuf` and `flags` are ever non-default; the
    primitives `put`, `shift` do not look at the flags (`put_mkP`, `shift_mkP`);
  * `PlainP w a`: `w` is a cardinal word (marker `none`) bound to instruction `a`; `apply_ok`, `apply_e`;
  * one step lemma per kind of word with the flags before / after (`unit_apply`, `teen_apply`,
    `tens_apply`, `hundreds_apply`, `cem_apply`, `mil_apply`, `mil_apply_one`, `milhao_apply_*`,
    `bilhao_apply`, `e_apply`);
  * `Steps ws N fl N' fl'`: running the words `ws` from state `(N, fl)` is continuing from `(N', fl')`;
    `below100_steps`, `group_steps`, `thousands_steps`, `hi2_steps`, `cardinal_steps`;
  * `C01_validate_pt`: rendering of the final state.
-/
import T2N.Model.Pt
import T2N.Model.Scanner
import T2N.Spec.SpellPt
import T2N.Lemmas.DS
import T2N.Lemmas.Act
import T2N.Lemmas.C01En

namespace T2N.C01Pt
open T2N T2N.Spec T2N.C01En

/-! ## builder states with flags -/

/-- the builder states reached while interpreting a Portuguese cardinal -/
def mkP (r : List Nat) (fl : Nat) : DS := { rbuf := r, flags := fl }

theorem mkP_zero (r : List Nat) : mkP r 0 = mk r := rfl

/-- `put` does not read the flags -/
theorem put_flags (b : DS) (ds : List Nat) (fl : Nat) :
    ({ b with flags := fl }).put ds = ((b.put ds).1, { (b.put ds).2 with flags := fl }) := by
  unfold DS.put
  dsimp only
  repeat (first | rfl | split)

/-- `shift` does not read the flags -/
theorem shift_flags (b : DS) (p : Nat) (fl : Nat) :
    ({ b with flags := fl }).shift p = ((b.shift p).1, { (b.shift p).2 with flags := fl }) := by
  unfold DS.shift
  dsimp only
  by_cases h1 : b.frozen = true
  · rw [if_pos h1, if_pos h1]
  · rw [if_neg h1, if_neg h1]
    by_cases h2 : (p == 0) = true
    · rw [if_pos h2, if_pos h2]
    · rw [if_neg h2, if_neg h2]
      cases DS.shiftBuf (if b.rbuf.isEmpty = true then [1] else b.rbuf) p <;> rfl

theorem put_mkP {r r' : List Nat} {ds : List Nat} (fl : Nat) (h : (mk r).put ds = (none, mk r')) :
    (mkP r fl).put ds = (none, mkP r' fl) := by
  have := put_flags (mk r) ds fl
  rw [h] at this
  exact this

theorem shift_mkP {r r' : List Nat} {p : Nat} (fl : Nat) (h : (mk r).shift p = (none, mk r')) :
    (mkP r fl).shift p = (none, mkP r' fl) := by
  have := shift_flags (mk r) p fl
  rw [h] at this
  exact this

/-! ## the interpreter on cardinal words -/

/-- `w` is a cardinal word: its morphological marker is `none` and its lemma is bound to `a`
(in the vocabulary for words without marker) -/
def PlainP (w : Word) (a : Act) : Prop :=
  Pt.morph w = .none ∧ (Pt.vocab true).lookup (Pt.lemmatize w) = some a

/-- an accepted word: the flags become the `to_block` value of the instruction -/
theorem apply_ok {w : Word} {a : Act} {r r' : List Nat} {fl fl' nx : Nat} (h : PlainP w a)
    (he : a.exec (mkP r fl) = (none, mkP r' fl', nx)) : Pt.apply w (mkP r fl) = (none, mkP r' nx) := by
  unfold Pt.apply
  dsimp only
  rw [h.1]
  have hm : (!(mkP r fl).isEmpty && Marker.none != (mkP r fl).marker) = false := by
    show (!(mkP r fl).isEmpty && Marker.none != Marker.none) = false
    simp
  have e : Marker.none.isNone = true := rfl
  rw [hm, if_neg Bool.false_ne_true, e, h.2, Option.getD_some, he]
  rfl

/-- a word answered `Incomplete`: the flags become CONJUNCTION -/
theorem apply_inc {w : Word} {a : Act} {r r' : List Nat} {fl fl' nx : Nat} (h : PlainP w a)
    (he : a.exec (mkP r fl) = (some .incomplete, mkP r' fl', nx)) :
    Pt.apply w (mkP r fl) = (some .incomplete, mkP r' 1) := by
  unfold Pt.apply
  dsimp only
  rw [h.1]
  have hm : (!(mkP r fl).isEmpty && Marker.none != (mkP r fl).marker) = false := by
    show (!(mkP r fl).isEmpty && Marker.none != Marker.none) = false
    simp
  have e : Marker.none.isNone = true := rfl
  rw [hm, if_neg Bool.false_ne_true, e, h.2, Option.getD_some, he]
  rfl

/-! ### the vocabulary -/

theorem plain_unit (v : Var) (g : Nat) (fem : Bool) (d : Nat) (h0 : d ≠ 0) (h9 : d < 10) :
    PlainP (Spec.Pt.unitWord v g fem d) (T2N.Pt.unit true d) := by
  unfold Spec.Pt.unitWord
  generalize Spec.Pt.brazilian v = br
  generalize flag v (cp g 3) = f
  have : d = 1 ∨ d = 2 ∨ d = 3 ∨ d = 4 ∨ d = 5 ∨ d = 6 ∨ d = 7 ∨ d = 8 ∨ d = 9 := by omega
  rcases this with rfl | rfl | rfl | rfl | rfl | rfl | rfl | rfl | rfl <;>
    cases fem <;> cases br <;> cases f <;> exact ⟨by decide, by rfl⟩

theorem plain_teen (v : Var) (g : Nat) (fem : Bool) (b : Nat) (h9 : b < 10) :
    PlainP (Spec.Pt.unitWord v g fem (10 + b)) (T2N.Pt.small true [1, b]) := by
  unfold Spec.Pt.unitWord
  generalize Spec.Pt.brazilian v = br
  generalize flag v (cp g 3) = f
  have : b = 0 ∨ b = 1 ∨ b = 2 ∨ b = 3 ∨ b = 4 ∨ b = 5 ∨ b = 6 ∨ b = 7 ∨ b = 8 ∨ b = 9 := by omega
  rcases this with rfl | rfl | rfl | rfl | rfl | rfl | rfl | rfl | rfl | rfl <;>
    cases fem <;> cases br <;> cases f <;> exact ⟨by decide, by rfl⟩

theorem plain_tens (t : Nat) (h2 : 2 ≤ t) (h9 : t < 10) :
    PlainP (Spec.Pt.tensWords.getD t []) (T2N.Pt.small true [t, 0]) := by
  have : t = 2 ∨ t = 3 ∨ t = 4 ∨ t = 5 ∨ t = 6 ∨ t = 7 ∨ t = 8 ∨ t = 9 := by omega
  rcases this with rfl | rfl | rfl | rfl | rfl | rfl | rfl | rfl <;> exact ⟨by decide, by rfl⟩

theorem plain_cem : PlainP w!"cem" (.when (.neg Pt.onlyMult) (.block Pt.ONLY_MULTIPLIERS (.put [1, 0, 0]))) :=
  ⟨by decide, by rfl⟩

theorem plain_cento : PlainP w!"cento" (T2N.Pt.hundreds [1, 0, 0]) := ⟨by decide, by rfl⟩

theorem plain_hundreds (fem : Bool) (h : Nat) (h2 : 2 ≤ h) (h9 : h < 10) :
    PlainP (Spec.Pt.hundredStems.getD h [] ++ (if fem then w!"as" else w!"os")) (T2N.Pt.hundreds [h, 0, 0]) := by
  have : h = 2 ∨ h = 3 ∨ h = 4 ∨ h = 5 ∨ h = 6 ∨ h = 7 ∨ h = 8 ∨ h = 9 := by omega
  rcases this with rfl | rfl | rfl | rfl | rfl | rfl | rfl | rfl <;> cases fem <;> exact ⟨by decide, by rfl⟩

theorem plain_e : PlainP Spec.Pt.conj
    (.when (.and (.lenGe 2) (.and .markerNone (.neg Pt.onlyMult))) (.fail .incomplete)) :=
  ⟨by decide, by rfl⟩

theorem plain_mil : PlainP w!"mil" Pt.mil := ⟨by decide, by rfl⟩

theorem plain_milhao (pl : Bool) : PlainP (Spec.Pt.millionWord pl) Pt.milhao := by
  cases pl <;> exact ⟨by decide, by rfl⟩

theorem plain_bilhao (v : Var) (pl : Bool) : PlainP (Spec.Pt.billionWord v pl) (.shift 9) := by
  unfold Spec.Pt.billionWord
  cases flag v (cp 3 7) <;> cases pl <;> exact ⟨by decide, by rfl⟩

/-! ## list-level facts needed besides those of `C01En` -/

theorem put3_empty (a : Nat) (ha : a ≠ 0) : (mk []).put [a, 0, 0] = (none, mk [0, 0, a]) := by
  simp [DS.put, mk, allZero, ha]

theorem put3_cons (a : Nat) (r : List Nat) (ha : a ≠ 0) :
    (mk (0 :: 0 :: 0 :: r)).put [a, 0, 0] = (none, mk (0 :: 0 :: a :: r)) := by
  simp [DS.put, mk, allZero, ha]

theorem put3_lsb (a N : Nat) (h0 : a ≠ 0) (h9 : a < 10) (hN : N % 1000 = 0) :
    (mk (lsb N)).put [a, 0, 0] = (none, mk (lsb (N + 100 * a))) := by
  by_cases hz : N = 0
  · subst hz
    have e : 0 + 100 * a = 0 + 10 * (0 + 10 * (a + 10 * 0)) := by omega
    rw [lsb_zero, put3_empty a h0, e, lsb_cons 0 _ (by decide) (Or.inr (by omega)),
      lsb_cons 0 _ (by decide) (Or.inr (by omega)), lsb_cons a 0 h9 (Or.inl h0), lsb_zero]
  · obtain ⟨m, rfl⟩ : ∃ m, N = 0 + 10 * (0 + 10 * (0 + 10 * m)) := ⟨N / 1000, by omega⟩
    have hm : m ≠ 0 := by omega
    have e : 0 + 10 * (0 + 10 * (0 + 10 * m)) + 100 * a = 0 + 10 * (0 + 10 * (a + 10 * m)) := by omega
    rw [e, lsb_cons 0 _ (by decide) (Or.inr (by omega)), lsb_cons 0 _ (by decide) (Or.inr (by omega)),
      lsb_cons 0 m (by decide) (Or.inr hm), lsb_cons 0 _ (by decide) (Or.inr (by omega)),
      lsb_cons 0 _ (by decide) (Or.inr (by omega)), lsb_cons a m h9 (Or.inl h0), put3_cons a _ h0]

/-- the low four positions of a multiple of 10^4 are free -/
theorem free4_lsb (N fl : Nat) (hN : N % 10000 = 0) : (mkP (lsb N) fl).isFree 4 = true := by
  by_cases hz : N = 0
  · subst hz; rw [lsb_zero]; rfl
  · obtain ⟨m, rfl⟩ : ∃ m, N = 0 + 10 * (0 + 10 * (0 + 10 * (0 + 10 * m))) := ⟨N / 10000, by omega⟩
    have hm : m ≠ 0 := by omega
    rw [lsb_cons 0 _ (by decide) (Or.inr (by omega)), lsb_cons 0 _ (by decide) (Or.inr (by omega)),
      lsb_cons 0 _ (by decide) (Or.inr (by omega)), lsb_cons 0 m (by decide) (Or.inr hm)]
    simp [DS.isFree, mkP, allZero]

theorem lsb_1000 : lsb 1000 = [0, 0, 0, 1] := by
  have := lsb_mul_pow 1 3 (by decide)
  rw [lsb_digit 1 (by decide) (by decide)] at this
  exact this

/-- `mil` after a higher group: the implicit `1` is inserted at position 3 -/
theorem shift3_one (A : Nat) (hA : A ≠ 0) :
    (mk (lsb (10 ^ 6 * A))).shift 3 = (none, mk (lsb (1000 + 10 ^ 6 * A))) := by
  have e1 : lsb (10 ^ 6 * A) = [0, 0, 0, 0, 0, 0] ++ lsb A := by
    rw [Nat.mul_comm]; exact lsb_mul_pow A 6 hA
  have e2 : lsb (1000 + 10 ^ 6 * A) = [0, 0, 0, 1, 0, 0] ++ lsb A := by
    rw [lsb_add_pow 6 1000 A hA (by decide), lsb_1000]; rfl
  rw [e1, e2]
  simp [DS.shift, mk, DS.shiftBuf, DS.shiftSig, allZero]

/-- `peek(3) == "100"` only when the low group is exactly 100 -/
theorem peek3_ne (N fl : Nat) (h : N % 1000 ≠ 100) : (Guard.peekEq 3 [1, 0, 0]).eval (mkP (lsb N) fl) = false := by
  show ((((lsb N).take 3).reverse) == [1, 0, 0]) = false
  by_cases h0 : N = 0
  · subst h0; rw [lsb_zero]; rfl
  · rw [lsb_pos h0]
    by_cases h1 : N / 10 = 0
    · rw [h1, lsb_zero]; simp
    · rw [lsb_pos h1]
      by_cases h2 : N / 10 / 10 = 0
      · rw [h2, lsb_zero]; simp
      · rw [lsb_pos h2]
        simp only [List.take_succ_cons, List.take_zero, List.reverse_cons, List.reverse_nil, List.nil_append,
          List.cons_append]
        apply Bool.eq_false_iff.mpr
        intro hc
        simp only [beq_iff_eq, List.cons.injEq, and_true] at hc
        omega

/-- `peek(2) == "1"` only when the builder holds exactly `1` -/
theorem peek2_ne (N fl : Nat) (h : N ≠ 1) : (Guard.peekEq 2 [1]).eval (mkP (lsb N) fl) = false := by
  show ((((lsb N).take 2).reverse) == [1]) = false
  by_cases h0 : N = 0
  · subst h0; rw [lsb_zero]; rfl
  · rw [lsb_pos h0]
    by_cases h1 : N / 10 = 0
    · rw [h1, lsb_zero]
      apply Bool.eq_false_iff.mpr
      intro hc
      simp at hc
      omega
    · rw [lsb_pos h1]
      simp

/-! ## guards -/

theorem hb02 : hasBits 0 2 = false := by decide
theorem hb12 : hasBits 1 2 = false := by decide
theorem hb22 : hasBits 2 2 = true := by decide
theorem hb01 : hasBits 0 1 = false := by decide
theorem hb11 : hasBits 1 1 = true := by decide

theorem not_blocked (N fl : Nat) (h : fl = 1 ∨ (fl = 0 ∧ N % 10000 = 0)) :
    (Guard.neg (Pt.smallerBlocked true)).eval (mkP (lsb N) fl) = true := by
  rcases h with rfl | ⟨rfl, h⟩
  · show (!(hasBits 1 2 || (!(hasBits 1 1) && !((mkP (lsb N) 1).isFree 4)))) = true
    rw [hb12, hb11]; rfl
  · show (!(hasBits 0 2 || (!(hasBits 0 1) && !((mkP (lsb N) 0).isFree 4)))) = true
    rw [hb02, hb01, free4_lsb N 0 h]; rfl

theorem not_onlyMult (r : List Nat) (fl : Nat) (h : fl = 0 ∨ fl = 1) :
    (Guard.neg Pt.onlyMult).eval (mkP r fl) = true := by
  rcases h with rfl | rfl
  · show (!(hasBits 0 2)) = true
    rw [hb02]; rfl
  · show (!(hasBits 1 2)) = true
    rw [hb12]; rfl

theorem mil_guard (N fl : Nat) (h : fl = 2 ∨ N % 1000 ≠ 100) :
    (Guard.or Pt.onlyMult (.neg (.peekEq 3 [1, 0, 0]))).eval (mkP (lsb N) fl) = true := by
  rcases h with rfl | h
  · show (hasBits 2 2 || !((Guard.peekEq 3 [1, 0, 0]).eval (mkP (lsb N) 2))) = true
    rw [hb22]; rfl
  · show (Pt.onlyMult.eval (mkP (lsb N) fl) || !((Guard.peekEq 3 [1, 0, 0]).eval (mkP (lsb N) fl))) = true
    rw [peek3_ne N fl h]; simp

theorem pow33 : (10 : Nat) ^ (3 + 3) = 1000000 := by decide
theorem pow63 : (10 : Nat) ^ (6 + 3) = 1000000000 := by decide

/-! ## one lemma per kind of word: state `(N, flags)` ↦ state `(N', flags')` -/

theorem unit_apply (v : Var) (g : Nat) (fem : Bool) (d N fl : Nat) (h0 : d ≠ 0) (h9 : d < 10)
    (hN : N % 10 = 0) (hx : N / 10 % 10 ≠ 1) (hfl : fl = 1 ∨ (fl = 0 ∧ N % 10000 = 0)) :
    Pt.apply (Spec.Pt.unitWord v g fem d) (mkP (lsb N) fl) = (none, mkP (lsb (N + d)) 0) := by
  apply apply_ok (plain_unit v g fem d h0 h9) (fl' := fl)
  simp only [T2N.Pt.unit, Act.when, Act.exec]
  have hg : (Guard.and (.neg (.peekEq 2 [1, 0])) (.neg (Pt.smallerBlocked true))).eval (mkP (lsb N) fl) = true := by
    show (((Guard.neg (.peekEq 2 [1, 0])).eval (mkP (lsb N) fl)) &&
      ((Guard.neg (Pt.smallerBlocked true)).eval (mkP (lsb N) fl))) = true
    have h1 : (Guard.neg (.peekEq 2 [1, 0])).eval (mkP (lsb N) fl) = true := unit_guard_lsb N hN hx
    rw [not_blocked N fl hfl, h1]; rfl
  rw [if_pos hg, put_mkP fl (put1_lsb d N h0 h9 hN)]

theorem teen_apply (v : Var) (g : Nat) (fem : Bool) (b N fl : Nat) (hb : b < 10)
    (hN : N % 100 = 0) (hfl : fl = 1 ∨ (fl = 0 ∧ N % 10000 = 0)) :
    Pt.apply (Spec.Pt.unitWord v g fem (10 + b)) (mkP (lsb N) fl) = (none, mkP (lsb (N + (10 + b))) 0) := by
  apply apply_ok (plain_teen v g fem b hb) (fl' := fl)
  simp only [T2N.Pt.small, Act.when, Act.exec]
  rw [if_pos (not_blocked N fl hfl), put_mkP fl (put2_lsb 1 b N (by decide) (by decide) hb hN)]

theorem tens_apply (t N fl : Nat) (h2 : 2 ≤ t) (h9 : t < 10)
    (hN : N % 100 = 0) (hfl : fl = 1 ∨ (fl = 0 ∧ N % 10000 = 0)) :
    Pt.apply (Spec.Pt.tensWords.getD t []) (mkP (lsb N) fl) = (none, mkP (lsb (N + 10 * t)) 0) := by
  apply apply_ok (plain_tens t h2 h9) (fl' := fl)
  simp only [T2N.Pt.small, Act.when, Act.exec]
  rw [if_pos (not_blocked N fl hfl), put_mkP fl (put2_lsb t 0 N (by omega) h9 (by decide) hN)]
  rfl

theorem hundreds_apply (fem : Bool) (h N fl : Nat) (h2 : 2 ≤ h) (h9 : h < 10)
    (hN : N % 1000 = 0) (hfl : fl = 0 ∨ fl = 1) :
    Pt.apply (Spec.Pt.hundredStems.getD h [] ++ (if fem then w!"as" else w!"os")) (mkP (lsb N) fl) =
      (none, mkP (lsb (N + 100 * h)) 0) := by
  apply apply_ok (plain_hundreds fem h h2 h9) (fl' := fl)
  simp only [T2N.Pt.hundreds, Act.when, Act.exec]
  rw [if_pos (not_onlyMult _ fl hfl), put_mkP fl (put3_lsb h N (by omega) h9 hN)]

theorem cento_apply (N fl : Nat) (hN : N % 1000 = 0) (hfl : fl = 0 ∨ fl = 1) :
    Pt.apply w!"cento" (mkP (lsb N) fl) = (none, mkP (lsb (N + 100)) 0) := by
  apply apply_ok plain_cento (fl' := fl)
  simp only [T2N.Pt.hundreds, Act.when, Act.exec]
  rw [if_pos (not_onlyMult _ fl hfl), put_mkP fl (put3_lsb 1 N (by decide) (by decide) hN)]

/-- `cem` sets ONLY_MULTIPLIERS -/
theorem cem_apply (N fl : Nat) (hN : N % 1000 = 0) (hfl : fl = 0 ∨ fl = 1) :
    Pt.apply w!"cem" (mkP (lsb N) fl) = (none, mkP (lsb (N + 100)) 2) := by
  apply apply_ok plain_cem (fl' := fl)
  simp only [Act.when, Act.exec]
  rw [if_pos (not_onlyMult _ fl hfl), put_mkP fl (put3_lsb 1 N (by decide) (by decide) hN)]
  rfl

/-- `e` is answered `Incomplete`, leaves the digits alone and sets CONJUNCTION -/
theorem e_apply (N fl : Nat) (hN : 10 ≤ N) (hfl : fl = 0 ∨ fl = 1) :
    Pt.apply Spec.Pt.conj (mkP (lsb N) fl) = (some .incomplete, mkP (lsb N) 1) := by
  apply apply_inc plain_e (fl' := fl) (nx := 0)
  have hg : (Guard.and (.lenGe 2) (.and .markerNone (.neg Pt.onlyMult))).eval (mkP (lsb N) fl) = true := by
    show ((Guard.lenGe 2).eval (mkP (lsb N) fl) && (true && (Guard.neg Pt.onlyMult).eval (mkP (lsb N) fl))) = true
    have h1 : (Guard.lenGe 2).eval (mkP (lsb N) fl) = true := by
      have := lsb_length_ge2 hN
      simp only [Guard.eval, DS.len, mkP]
      simp; omega
    rw [h1, not_onlyMult _ fl hfl]; rfl
  simp only [Act.when, Act.exec]
  rw [if_pos hg]

/-- `mil` after a group `g` (the digits above the 6 low positions are arbitrary) -/
theorem mil_apply (N0 g fl : Nat) (hN : N0 % 1000000 = 0) (g0 : g ≠ 0) (g1 : g < 1000) (hne : N0 + g ≠ 1)
    (hfl : fl = 2 ∨ g ≠ 100) :
    Pt.apply w!"mil" (mkP (lsb (N0 + g)) fl) = (none, mkP (lsb (N0 + g * 1000)) 0) := by
  have hp := pow33
  obtain ⟨A, rfl⟩ : ∃ A, N0 = 10 ^ (3 + 3) * A := ⟨N0 / 1000000, by omega⟩
  rw [Nat.add_comm _ g, Nat.add_comm _ (g * _)]
  apply apply_ok plain_mil (fl' := fl)
  have hg : (Guard.and (.rangeFree 3 5) (.or Pt.onlyMult (.neg (.peekEq 3 [1, 0, 0])))).eval
      (mkP (lsb (g + 10 ^ (3 + 3) * A)) fl) = true := by
    show ((mk (lsb (g + 10 ^ (3 + 3) * A))).rangeFree 3 (3 + 2) &&
      (Guard.or Pt.onlyMult (.neg (.peekEq 3 [1, 0, 0]))).eval (mkP (lsb (g + 10 ^ (3 + 3) * A)) fl)) = true
    rw [rangeFree_lsb 3 g A (by decide) g1, mil_guard _ fl (by omega)]; rfl
  simp only [Pt.mil, Act.when, Act.exec]
  rw [if_pos hg, if_neg (by rw [peek2_ne _ fl (by omega)]; exact Bool.false_ne_true),
    shift_mkP fl (shift_lsb 3 g A (by decide) g0 g1)]

/-- `mil` not preceded by a group: implicit `1` -/
theorem mil_apply_one (N0 fl : Nat) (hN : N0 % 1000000 = 0) :
    Pt.apply w!"mil" (mkP (lsb N0) fl) = (none, mkP (lsb (N0 + 1000)) 0) := by
  have hp := pow33
  obtain ⟨A, rfl⟩ : ∃ A, N0 = 10 ^ (3 + 3) * A := ⟨N0 / 1000000, by omega⟩
  apply apply_ok plain_mil (fl' := fl)
  have hg : (Guard.and (.rangeFree 3 5) (.or Pt.onlyMult (.neg (.peekEq 3 [1, 0, 0])))).eval
      (mkP (lsb (10 ^ (3 + 3) * A)) fl) = true := by
    show ((mk (lsb (10 ^ (3 + 3) * A))).rangeFree 3 (3 + 2) &&
      (Guard.or Pt.onlyMult (.neg (.peekEq 3 [1, 0, 0]))).eval (mkP (lsb (10 ^ (3 + 3) * A)) fl)) = true
    have := rangeFree_lsb 3 0 A (by decide) (by decide)
    rw [Nat.zero_add] at this
    rw [this, mil_guard _ fl (by omega)]; rfl
  simp only [Pt.mil, Act.when, Act.exec]
  rw [if_pos hg, if_neg (by rw [peek2_ne _ fl (by omega)]; exact Bool.false_ne_true)]
  by_cases hA : A = 0
  · subst hA
    have e : lsb (10 ^ (3 + 3) * 0 + 1000) = List.replicate 3 0 ++ [1] := by rw [lsb_1000]; rfl
    rw [Nat.mul_zero, lsb_zero, shift_mkP fl (shift_empty 3 (by decide))]
    rw [Nat.mul_zero] at e
    rw [e]
  · rw [shift_mkP fl (shift3_one A hA), Nat.add_comm]

/-- `milhão / milhões` after a group `g`, anything above the 9 low positions -/
theorem milhao_apply (pl : Bool) (N0 g fl : Nat) (hN : N0 % 1000000000 = 0) (g0 : g ≠ 0) (g1 : g < 1000) :
    Pt.apply (Spec.Pt.millionWord pl) (mkP (lsb (N0 + g)) fl) = (none, mkP (lsb (N0 + g * 1000000)) 0) := by
  have hp := pow63
  have hp6 : (10 : Nat) ^ 6 = 1000000 := by decide
  obtain ⟨A, rfl⟩ : ∃ A, N0 = 10 ^ (6 + 3) * A := ⟨N0 / 1000000000, by omega⟩
  rw [Nat.add_comm _ g, Nat.add_comm _ (g * _), ← hp6]
  apply apply_ok (plain_milhao pl) (fl' := fl)
  have hg : (Guard.rangeFree 6 8).eval (mkP (lsb (g + 10 ^ (6 + 3) * A)) fl) = true :=
    rangeFree_lsb 6 g A (by decide) g1
  simp only [Pt.milhao, Act.when, Act.exec]
  rw [if_pos hg, shift_mkP fl (shift_lsb 6 g A (by decide) g0 g1)]

/-- `milhões` after the number of millions `M < 10^6` standing alone (European long scale) -/
theorem milhao_apply_top (pl : Bool) (M fl : Nat) (M0 : M ≠ 0) (M1 : M < 1000000) :
    Pt.apply (Spec.Pt.millionWord pl) (mkP (lsb M) fl) = (none, mkP (lsb (M * 1000000)) 0) := by
  have hp6 : (10 : Nat) ^ 6 = 1000000 := by decide
  have hlen : (lsb M).length ≤ 6 := lsb_length_le 6 M (by omega)
  apply apply_ok (plain_milhao pl) (fl' := fl)
  have hg : (Guard.rangeFree 6 8).eval (mkP (lsb M) fl) = true := by
    show (decide (6 ≥ (lsb M).length) || _) = true
    rw [decide_eq_true hlen]; rfl
  simp only [Pt.milhao, Act.when, Act.exec]
  rw [if_pos hg, shift_mkP fl (shift_top (lsb M) 6 (lsb_ne_nil M0) hlen (by decide)), ← hp6, lsb_mul_pow M 6 M0]

/-- `bilhão / bilhões / bilião / biliões` after the first group -/
theorem bilhao_apply (v : Var) (pl : Bool) (g fl : Nat) (g0 : g ≠ 0) (g1 : g < 1000) :
    Pt.apply (Spec.Pt.billionWord v pl) (mkP (lsb g) fl) = (none, mkP (lsb (g * 1000000000)) 0) := by
  have hp9 : (10 : Nat) ^ 9 = 1000000000 := by decide
  have hlen : (lsb g).length ≤ 9 := by have := lsb_len3 g g1; omega
  apply apply_ok (plain_bilhao v pl) (fl' := fl)
  simp only [Act.exec]
  rw [shift_mkP fl (shift_top (lsb g) 9 (lsb_ne_nil g0) hlen (by decide)), ← hp9, lsb_mul_pow g 9 g0]

/-! ## sequences of words -/

/-- running `ws` (then anything) from state `(N, fl)` is running the rest from state `(N', fl')` -/
def Steps (ws : List Word) (N fl N' fl' : Nat) : Prop :=
  ∀ rest, execGroupFrom Pt.apply (ws ++ rest) (mkP (lsb N) fl) false =
    execGroupFrom Pt.apply rest (mkP (lsb N') fl') false

theorem Steps.nil (N fl : Nat) : Steps [] N fl N fl := fun _ => rfl

theorem Steps.append {a b : List Word} {N fl N' fl' N'' fl'' : Nat} (h1 : Steps a N fl N' fl')
    (h2 : Steps b N' fl' N'' fl'') : Steps (a ++ b) N fl N'' fl'' := by
  intro rest; rw [List.append_assoc, h1, h2]

theorem Steps.single {w : Word} {N fl N' fl' : Nat}
    (h : Pt.apply w (mkP (lsb N) fl) = (none, mkP (lsb N') fl')) : Steps [w] N fl N' fl' := by
  intro rest
  rw [List.singleton_append, execGroupFrom, h]

theorem Steps.cast {ws : List Word} {N fl N' fl' M : Nat} (h : Steps ws N fl N' fl') (e : N' = M) :
    Steps ws N fl M fl' := e ▸ h

theorem Steps.castf {ws : List Word} {N fl N' fl' f : Nat} (h : Steps ws N fl N' fl') (e : fl' = f) :
    Steps ws N fl N' f := e ▸ h

/-- `e` is accepted as `Incomplete`, sets CONJUNCTION, and the next word clears the pending status -/
theorem Steps.e {ws : List Word} {N fl N' fl' : Nat} (hN : 10 ≤ N) (hfl : fl = 0 ∨ fl = 1)
    (h : Steps ws N 1 N' fl') (hne : ws ≠ []) : Steps (Spec.Pt.conj :: ws) N fl N' fl' := by
  intro rest
  obtain ⟨w, ws', rfl⟩ := List.exists_cons_of_ne_nil hne
  rw [List.cons_append, execGroupFrom, e_apply N fl hN hfl]
  dsimp only
  have := h rest
  rw [List.cons_append, execGroupFrom] at this
  rw [List.cons_append, execGroupFrom]
  exact this

/-- an optional `e` in front of a non-empty piece -/
theorem Steps.optE {ws : List Word} {N N' fl' : Nat} (c : Bool) (hc : c = true → 10 ≤ N)
    (h1 : c = true → Steps ws N 1 N' fl') (h0 : c = false → Steps ws N 0 N' fl') (hne : ws ≠ []) :
    Steps ((if c = true then [Spec.Pt.conj] else []) ++ ws) N 0 N' fl' := by
  cases c
  · rw [if_neg Bool.false_ne_true, List.nil_append]; exact h0 rfl
  · rw [if_pos rfl]; exact Steps.e (hc rfl) (Or.inl rfl) (h1 rfl) hne

/-! ## the spelling, group by group -/

theorem below100_steps (v : Var) (g : Nat) (fem : Bool) (r N fl : Nat) (h0 : r ≠ 0) (h1 : r < 100)
    (hN : N % 100 = 0) (hfl : fl = 1 ∨ (fl = 0 ∧ N % 10000 = 0)) :
    Steps (Spec.Pt.below100 v g fem r) N fl (N + r) 0 ∧ Spec.Pt.below100 v g fem r ≠ [] := by
  unfold Spec.Pt.below100
  by_cases h20 : r < 20
  · rw [if_pos h20]
    refine ⟨Steps.single ?_, by simp⟩
    by_cases h10 : r < 10
    · exact unit_apply v g fem r N fl h0 h10 (by omega) (by omega) hfl
    · obtain ⟨b, rfl⟩ : ∃ b, r = 10 + b := ⟨r - 10, by omega⟩
      exact teen_apply v g fem b N fl (by omega) hN hfl
  · rw [if_neg h20]
    dsimp only
    have ht2 : 2 ≤ r / 10 := by omega
    have ht9 : r / 10 < 10 := by omega
    have s1 : Steps [Spec.Pt.tensWords.getD (r / 10) []] N fl (N + 10 * (r / 10)) 0 :=
      Steps.single (tens_apply (r / 10) N fl ht2 ht9 hN hfl)
    by_cases hu : r % 10 = 0
    · rw [if_pos (by simp [hu])]
      exact ⟨s1.cast (by omega), by simp⟩
    · rw [if_neg (by simp [hu])]
      refine ⟨?_, by simp⟩
      have s2 : Steps [Spec.Pt.unitWord v g fem (r % 10)] (N + 10 * (r / 10)) 1 (N + 10 * (r / 10) + r % 10) 0 :=
        Steps.single (unit_apply v g fem (r % 10) _ 1 hu (by omega) (by omega) (by omega) (Or.inl rfl))
      exact (Steps.append s1 (Steps.e (by omega) (Or.inl rfl) s2 (by simp))).cast (by omega)

/-- the hundreds word of a group -/
theorem hundredWord_steps (fem : Bool) (h r N fl : Nat) (h0 : h ≠ 0) (h9 : h < 10) (hN : N % 1000 = 0)
    (hfl : fl = 0 ∨ fl = 1) :
    Steps [Spec.Pt.hundredWord fem h r] N fl (N + 100 * h) (if h = 1 ∧ r = 0 then 2 else 0) := by
  unfold Spec.Pt.hundredWord
  by_cases h1 : h = 1
  · subst h1
    have e1 : ((1 : Nat) == 1) = true := rfl
    rw [e1, if_pos rfl]
    by_cases hr : r = 0
    · subst hr
      have e2 : ((0 : Nat) == 0) = true := rfl
      rw [e2, if_pos rfl, if_pos ⟨rfl, rfl⟩]
      exact Steps.single (cem_apply N fl hN hfl)
    · have e2 : (r == 0) = false := by simp [hr]
      rw [e2, if_neg Bool.false_ne_true, if_neg (c := 1 = 1 ∧ r = 0) (by omega)]
      exact Steps.single (cento_apply N fl hN hfl)
  · have e1 : (h == 1) = false := by simp [h1]
    rw [e1, if_neg Bool.false_ne_true, if_neg (c := h = 1 ∧ r = 0) (by omega)]
    exact Steps.single (hundreds_apply fem h N fl (by omega) h9 hN hfl)

/-- **per-group theorem**: a group `1 ≤ n ≤ 999` spelled on a state whose three low positions are free adds `n`.
A group below 100 needs either the conjunction flag or a free fourth position; the flags afterwards are
ONLY_MULTIPLIERS exactly for `cem`. -/
theorem group_steps (v : Var) (g : Nat) (fem : Bool) (n N fl : Nat) (n0 : n ≠ 0) (n1 : n < 1000)
    (hN : N % 1000 = 0) (hfl : fl = 1 ∨ (fl = 0 ∧ (N % 10000 = 0 ∨ 100 ≤ n))) :
    Steps (Spec.Pt.group v g fem n) N fl (N + n) (if n = 100 then 2 else 0) ∧ Spec.Pt.group v g fem n ≠ [] := by
  unfold Spec.Pt.group
  dsimp only
  have hfl' : fl = 0 ∨ fl = 1 := by omega
  by_cases hh : n / 100 = 0
  · have hr : n % 100 ≠ 0 := by omega
    have e1 : (n / 100 == 0) = true := by simp [hh]
    have e2 : (n / 100 != 0 && n % 100 != 0) = false := by simp [hh]
    have e3 : (n % 100 == 0) = false := by simp [hr]
    rw [e1, e2, e3, if_pos rfl, if_neg Bool.false_ne_true, if_neg Bool.false_ne_true, List.nil_append,
      List.nil_append, if_neg (by omega)]
    have := below100_steps v g fem (n % 100) N fl hr (by omega) (by omega) (by omega)
    exact ⟨this.1.cast (by omega), this.2⟩
  · have e1 : (n / 100 == 0) = false := by simp [hh]
    rw [e1, if_neg Bool.false_ne_true]
    have sh := hundredWord_steps fem (n / 100) (n % 100) N fl hh (by omega) hN hfl'
    by_cases hr : n % 100 = 0
    · have e2 : (n / 100 != 0 && n % 100 != 0) = false := by simp [hr]
      have e3 : (n % 100 == 0) = true := by simp [hr]
      rw [e2, e3, if_neg Bool.false_ne_true, if_pos rfl, List.append_nil, List.append_nil]
      refine ⟨?_, by simp⟩
      by_cases h100 : n = 100
      · rw [if_pos h100]
        rw [if_pos (by omega)] at sh
        exact sh.cast (by omega)
      · rw [if_neg h100]
        rw [if_neg (by omega)] at sh
        exact sh.cast (by omega)
    · have e2 : (n / 100 != 0 && n % 100 != 0) = true := by simp [hh, hr]
      have e3 : (n % 100 == 0) = false := by simp [hr]
      rw [e2, e3, if_pos rfl, if_neg Bool.false_ne_true, if_neg (by omega)]
      rw [if_neg (by omega)] at sh
      refine ⟨?_, by simp⟩
      obtain ⟨sb, hb⟩ := below100_steps v g fem (n % 100) (N + 100 * (n / 100)) 1 hr (by omega) (by omega)
        (Or.inl rfl)
      rw [List.append_assoc]
      exact (Steps.append sh (Steps.e (by omega) (Or.inl rfl) sb hb)).cast (by omega)

/-- `n` thousand: `mil` alone for 1, otherwise the group followed by `mil` -/
theorem thousands_steps (v : Var) (g : Nat) (fem : Bool) (n N0 fl : Nat) (n0 : n ≠ 0) (n1 : n < 1000)
    (hN : N0 % 1000000 = 0) (hfl : fl = 0 ∨ fl = 1) :
    Steps (Spec.Pt.thousands v g fem n) N0 fl (N0 + n * 1000) 0 ∧ Spec.Pt.thousands v g fem n ≠ [] := by
  unfold Spec.Pt.thousands
  rw [if_neg (by simp [n0])]
  by_cases h1 : n = 1
  · subst h1
    have e1 : ((1 : Nat) == 1) = true := rfl
    rw [e1, if_pos rfl]
    exact ⟨(Steps.single (mil_apply_one N0 fl hN)).cast (by omega), by simp⟩
  · rw [if_neg (by simp [h1])]
    refine ⟨?_, by simp⟩
    have sg := (group_steps v g fem n N0 fl n0 n1 (by omega) (by omega)).1
    have sm : Steps [w!"mil"] (N0 + n) (if n = 100 then 2 else 0) (N0 + n * 1000) 0 := by
      apply Steps.single
      apply mil_apply N0 n _ hN n0 n1 (by omega)
      by_cases h100 : n = 100
      · left; rw [if_pos h100]
      · right; exact h100
    exact Steps.append sg sm

/-! ## composition over the four groups -/

theorem takesE_zero : Spec.Pt.takesE 0 = false := rfl

theorem takesE_false {x : Nat} (h : Spec.Pt.takesE x = false) (hx : x ≠ 0) : 100 ≤ x := by
  unfold Spec.Pt.takesE at h
  simp [hx] at h
  omega

theorem thousands_ne (v : Var) (g : Nat) (fem : Bool) (n : Nat) (n0 : n ≠ 0) :
    Spec.Pt.thousands v g fem n ≠ [] := by
  unfold Spec.Pt.thousands
  rw [if_neg (by simp [n0])]
  split <;> simp

/-- the 10^9 part: `… bilhões` (Brazilian) or the thousands of the number of millions (European) -/
def P3 (v : Var) (g3 : Nat) : List Word :=
  if g3 == 0 then []
  else if Spec.Pt.brazilian v then Spec.Pt.group v 3 false g3 ++ [Spec.Pt.billionWord v (g3 != 1)]
  else Spec.Pt.thousands v 3 false g3

/-- `e` before the millions group -/
def E2 (v : Var) (g3 g2 g1 g0 : Nat) : Bool :=
  g3 != 0 && Spec.Pt.takesE g2 &&
    (if Spec.Pt.brazilian v then (g1 == 0 && g0 == 0) || flag v (cp 2 6) else true)

/-- the millions group with its scale word -/
def P2 (v : Var) (g3 g2 : Nat) : List Word :=
  if g2 == 0 then (if g3 != 0 && !Spec.Pt.brazilian v then [Spec.Pt.millionWord true] else [])
  else Spec.Pt.group v 2 false g2 ++ [Spec.Pt.millionWord (!(g2 == 1 && (Spec.Pt.brazilian v || g3 == 0)))]

def Hi2 (v : Var) (g3 g2 g1 g0 : Nat) : List Word :=
  P3 v g3 ++ (if E2 v g3 g2 g1 g0 then [Spec.Pt.conj] else []) ++ P2 v g3 g2

/-- everything above the units group -/
def Hi (v : Var) (fem : Bool) (g3 g2 g1 g0 : Nat) : List Word :=
  Hi2 v g3 g2 g1 g0 ++
    (if !(Hi2 v g3 g2 g1 g0).isEmpty && Spec.Pt.takesE g1 && (g0 == 0 || flag v (cp 1 6)) then [Spec.Pt.conj]
      else []) ++
    Spec.Pt.thousands v 1 fem g1

theorem cardinal_eq (v : Var) (n : Nat) (hn : n ≠ 0) :
    Spec.Pt.cardinal v n =
      Hi v (Spec.Pt.feminine v) (n / 1000000000 % 1000) (n / 1000000 % 1000) (n / 1000 % 1000) (n % 1000) ++
      (if !(Hi v (Spec.Pt.feminine v) (n / 1000000000 % 1000) (n / 1000000 % 1000) (n / 1000 % 1000)
          (n % 1000)).isEmpty && Spec.Pt.takesE (n % 1000) then [Spec.Pt.conj] else []) ++
      (if n % 1000 == 0 then [] else Spec.Pt.group v 0 (Spec.Pt.feminine v) (n % 1000)) := by
  unfold Spec.Pt.cardinal
  rw [if_neg (by simp [hn])]
  rfl

/-! ### the part above 10^6 -/

theorem p3_steps_br (v : Var) (g3 : Nat) (hb : Spec.Pt.brazilian v = true) (h3 : g3 < 1000) :
    Steps (P3 v g3) 0 0 (g3 * 1000000000) 0 := by
  unfold P3
  by_cases z3 : g3 = 0
  · subst z3
    have e : ((0 : Nat) == 0) = true := rfl
    rw [e, if_pos rfl]
    exact Steps.nil 0 0
  · have e : (g3 == 0) = false := by simp [z3]
    rw [e, if_neg Bool.false_ne_true, hb, if_pos rfl]
    have sg := (group_steps v 3 false g3 0 0 z3 h3 rfl (Or.inr ⟨rfl, Or.inl rfl⟩)).1
    have sb : Steps [Spec.Pt.billionWord v (g3 != 1)] (0 + g3) (if g3 = 100 then 2 else 0) (g3 * 1000000000) 0 :=
      Steps.single (by rw [Nat.zero_add]; exact bilhao_apply v _ g3 _ z3 h3)
    exact Steps.append sg sb

theorem p3_steps_eu (v : Var) (g3 : Nat) (hb : Spec.Pt.brazilian v = false) (h3 : g3 < 1000) :
    Steps (P3 v g3) 0 0 (g3 * 1000) 0 := by
  unfold P3
  by_cases z3 : g3 = 0
  · subst z3
    have e : ((0 : Nat) == 0) = true := rfl
    rw [e, if_pos rfl]
    exact Steps.nil 0 0
  · have e : (g3 == 0) = false := by simp [z3]
    rw [e, if_neg Bool.false_ne_true, hb, if_neg Bool.false_ne_true]
    exact (thousands_steps v 3 false g3 0 0 z3 h3 rfl (Or.inl rfl)).1.cast (by omega)

theorem E2_true {v : Var} {g3 g2 g1 g0 : Nat} (h : E2 v g3 g2 g1 g0 = true) : g3 ≠ 0 := by
  unfold E2 at h
  simp only [Bool.and_eq_true, bne_iff_ne] at h
  exact h.1.1

theorem E2_eu {v : Var} (g3 g2 g1 g0 : Nat) (hb : Spec.Pt.brazilian v = false) :
    E2 v g3 g2 g1 g0 = (g3 != 0 && Spec.Pt.takesE g2) := by
  unfold E2
  rw [hb, if_neg Bool.false_ne_true, Bool.and_true]

theorem e2p2_steps_br (v : Var) (g3 g2 g1 g0 : Nat) (hb : Spec.Pt.brazilian v = true) (h2 : g2 < 1000) :
    Steps ((if E2 v g3 g2 g1 g0 then [Spec.Pt.conj] else []) ++ P2 v g3 g2) (g3 * 1000000000) 0
      ((g3 * 1000 + g2) * 1000000) 0 := by
  by_cases z2 : g2 = 0
  · subst z2
    have hc : E2 v g3 0 g1 g0 = false := by unfold E2; rw [takesE_zero]; simp
    have e : ((0 : Nat) == 0) = true := rfl
    have e' : (g3 != 0 && !true) = false := by simp
    unfold P2
    rw [hc, if_neg Bool.false_ne_true, List.nil_append, e, if_pos rfl, hb, e', if_neg Bool.false_ne_true]
    exact (Steps.nil _ _).cast (by omega)
  · have e : (g2 == 0) = false := by simp [z2]
    unfold P2
    rw [e, if_neg Bool.false_ne_true]
    have piece : ∀ fl, fl = 0 ∨ fl = 1 →
        Steps (Spec.Pt.group v 2 false g2 ++
          [Spec.Pt.millionWord (!(g2 == 1 && (Spec.Pt.brazilian v || g3 == 0)))]) (g3 * 1000000000) fl
          ((g3 * 1000 + g2) * 1000000) 0 := by
      intro fl hfl
      have sg := (group_steps v 2 false g2 (g3 * 1000000000) fl z2 h2 (by omega) (by omega)).1
      have sm := Steps.single (milhao_apply (!(g2 == 1 && (Spec.Pt.brazilian v || g3 == 0))) (g3 * 1000000000) g2
        (if g2 = 100 then 2 else 0) (by omega) z2 h2)
      exact (Steps.append sg sm).cast (by omega)
    apply Steps.optE
    · intro h; have := E2_true h; omega
    · intro _; exact piece 1 (Or.inr rfl)
    · intro _; exact piece 0 (Or.inl rfl)
    · simp

theorem e2p2_steps_eu (v : Var) (g3 g2 g1 g0 : Nat) (hb : Spec.Pt.brazilian v = false) (h3 : g3 < 1000)
    (h2 : g2 < 1000) :
    Steps ((if E2 v g3 g2 g1 g0 then [Spec.Pt.conj] else []) ++ P2 v g3 g2) (g3 * 1000) 0
      ((g3 * 1000 + g2) * 1000000) 0 := by
  by_cases z2 : g2 = 0
  · subst z2
    have hc : E2 v g3 0 g1 g0 = false := by unfold E2; rw [takesE_zero]; simp
    have e : ((0 : Nat) == 0) = true := rfl
    unfold P2
    rw [hc, if_neg Bool.false_ne_true, List.nil_append, e, if_pos rfl, hb]
    by_cases z3 : g3 = 0
    · subst z3
      have e' : ((0 : Nat) != 0 && !false) = false := rfl
      rw [e', if_neg Bool.false_ne_true]
      exact Steps.nil _ _
    · have e' : (g3 != 0 && !false) = true := by simp [z3]
      rw [e', if_pos rfl]
      exact (Steps.single (milhao_apply_top true (g3 * 1000) 0 (by omega) (by omega))).cast (by omega)
  · have e : (g2 == 0) = false := by simp [z2]
    unfold P2
    rw [e, if_neg Bool.false_ne_true]
    have piece : ∀ fl, fl = 1 ∨ (fl = 0 ∧ (g3 = 0 ∨ 100 ≤ g2)) →
        Steps (Spec.Pt.group v 2 false g2 ++
          [Spec.Pt.millionWord (!(g2 == 1 && (Spec.Pt.brazilian v || g3 == 0)))]) (g3 * 1000) fl
          ((g3 * 1000 + g2) * 1000000) 0 := by
      intro fl hfl
      have sg := (group_steps v 2 false g2 (g3 * 1000) fl z2 h2 (by omega) (by omega)).1
      have sm := Steps.single (milhao_apply_top (!(g2 == 1 && (Spec.Pt.brazilian v || g3 == 0))) (g3 * 1000 + g2)
        (if g2 = 100 then 2 else 0) (by omega) (by omega))
      exact Steps.append sg sm
    apply Steps.optE
    · intro h; have := E2_true h; omega
    · intro _; exact piece 1 (Or.inl rfl)
    · intro h
      rw [E2_eu g3 g2 g1 g0 hb] at h
      apply piece 0 (Or.inr ⟨rfl, ?_⟩)
      by_cases z3 : g3 = 0
      · exact Or.inl z3
      · right
        have : Spec.Pt.takesE g2 = false := by simpa [z3] using h
        exact takesE_false this z2
    · simp

theorem hi2_steps (v : Var) (g3 g2 g1 g0 : Nat) (h3 : g3 < 1000) (h2 : g2 < 1000) :
    Steps (Hi2 v g3 g2 g1 g0) 0 0 ((g3 * 1000 + g2) * 1000000) 0 := by
  unfold Hi2
  rw [List.append_assoc]
  cases hb : Spec.Pt.brazilian v
  · exact Steps.append (p3_steps_eu v g3 hb h3) (e2p2_steps_eu v g3 g2 g1 g0 hb h3 h2)
  · exact Steps.append (p3_steps_br v g3 hb h3) (e2p2_steps_br v g3 g2 g1 g0 hb h2)

theorem hi2_isEmpty (v : Var) (g3 g2 g1 g0 : Nat) : (Hi2 v g3 g2 g1 g0).isEmpty = (g3 == 0 && g2 == 0) := by
  unfold Hi2
  by_cases z3 : g3 = 0
  · subst z3
    have e1 : P3 v 0 = [] := rfl
    have e2 : E2 v 0 g2 g1 g0 = false := rfl
    rw [e1, e2, if_neg Bool.false_ne_true, List.nil_append, List.nil_append]
    unfold P2
    by_cases z2 : g2 = 0
    · subst z2; rfl
    · have e : (g2 == 0) = false := by simp [z2]
      rw [e, if_neg Bool.false_ne_true]
      simp
  · have e : (g3 == 0) = false := by simp [z3]
    have hne : (P3 v g3).isEmpty = false := by
      unfold P3
      rw [e, if_neg Bool.false_ne_true]
      split
      · simp
      · have := thousands_ne v 3 false g3 z3
        cases h : Spec.Pt.thousands v 3 false g3 with
        | nil => exact absurd h this
        | cons a t => rfl
    rw [isEmpty_append, isEmpty_append, hne, e]
    rfl

/-! ### the part above 10^3 -/

theorem hi_steps (v : Var) (fem : Bool) (g3 g2 g1 g0 : Nat) (h3 : g3 < 1000) (h2 : g2 < 1000) (h1 : g1 < 1000) :
    Steps (Hi v fem g3 g2 g1 g0) 0 0 (g3 * 1000000000 + g2 * 1000000 + g1 * 1000) 0 := by
  unfold Hi
  rw [List.append_assoc, hi2_isEmpty]
  apply Steps.append (hi2_steps v g3 g2 g1 g0 h3 h2)
  by_cases z1 : g1 = 0
  · subst z1
    have e : (!(g3 == 0 && g2 == 0) && Spec.Pt.takesE 0 && (g0 == 0 || flag v (cp 1 6))) = false := by
      rw [takesE_zero]; simp
    have e' : Spec.Pt.thousands v 1 fem 0 = [] := rfl
    rw [e, e', if_neg Bool.false_ne_true]
    exact (Steps.nil _ _).cast (by omega)
  · obtain ⟨st, hne⟩ : (∀ fl, fl = 0 ∨ fl = 1 →
        Steps (Spec.Pt.thousands v 1 fem g1) ((g3 * 1000 + g2) * 1000000) fl
          (g3 * 1000000000 + g2 * 1000000 + g1 * 1000) 0) ∧ Spec.Pt.thousands v 1 fem g1 ≠ [] := by
      refine ⟨fun fl hfl => ?_, thousands_ne v 1 fem g1 z1⟩
      exact (thousands_steps v 1 fem g1 ((g3 * 1000 + g2) * 1000000) fl z1 h1 (by omega) hfl).1.cast (by omega)
    apply Steps.optE
    · intro h
      simp only [Bool.and_eq_true, Bool.not_eq_true', Bool.and_eq_false_iff, beq_eq_false_iff_ne] at h
      have := h.1.1
      omega
    · intro _; exact st 1 (Or.inr rfl)
    · intro _; exact st 0 (Or.inl rfl)
    · exact hne

theorem hi_isEmpty (v : Var) (fem : Bool) (g3 g2 g1 g0 : Nat) :
    (Hi v fem g3 g2 g1 g0).isEmpty = (g3 == 0 && g2 == 0 && g1 == 0) := by
  unfold Hi
  rw [isEmpty_append, isEmpty_append, hi2_isEmpty]
  by_cases z1 : g1 = 0
  · subst z1
    have e : (!(g3 == 0 && g2 == 0) && Spec.Pt.takesE 0 && (g0 == 0 || flag v (cp 1 6))) = false := by
      rw [takesE_zero]; simp
    have e' : Spec.Pt.thousands v 1 fem 0 = [] := rfl
    rw [e, e', if_neg Bool.false_ne_true]
    simp
  · have hne : (Spec.Pt.thousands v 1 fem g1).isEmpty = false := by
      have := thousands_ne v 1 fem g1 z1
      cases h : Spec.Pt.thousands v 1 fem g1 with
      | nil => exact absurd h this
      | cons a t => rfl
    have e : (g1 == 0) = false := by simp [z1]
    rw [hne, e]
    simp

/-! ### the whole number -/

theorem cardinal_steps (v : Var) (n : Nat) (hn : n ≠ 0) (h : n < 10 ^ 12) :
    ∃ fl, Steps (Spec.Pt.cardinal v n) 0 0 n fl := by
  rw [cardinal_eq v n hn, hi_isEmpty]
  obtain ⟨g3, hg3⟩ : ∃ g3, g3 = n / 1000000000 % 1000 := ⟨_, rfl⟩
  obtain ⟨g2, hg2⟩ : ∃ g2, g2 = n / 1000000 % 1000 := ⟨_, rfl⟩
  obtain ⟨g1, hg1⟩ : ∃ g1, g1 = n / 1000 % 1000 := ⟨_, rfl⟩
  obtain ⟨g0, hg0⟩ : ∃ g0, g0 = n % 1000 := ⟨_, rfl⟩
  rw [← hg3, ← hg2, ← hg1, ← hg0]
  have shi := hi_steps v (Spec.Pt.feminine v) g3 g2 g1 g0 (by omega) (by omega) (by omega)
  generalize Hi v (Spec.Pt.feminine v) g3 g2 g1 g0 = hi at shi
  have hsum : g3 * 1000000000 + g2 * 1000000 + g1 * 1000 + g0 = n := by omega
  by_cases z0 : g0 = 0
  · have e : (!(g3 == 0 && g2 == 0 && g1 == 0) && Spec.Pt.takesE g0) = false := by
      rw [z0, takesE_zero]; simp
    have e' : (g0 == 0) = true := by simp [z0]
    rw [e, e', if_neg Bool.false_ne_true, if_pos rfl, List.append_nil, List.append_nil]
    have hs' : g3 * 1000000000 + g2 * 1000000 + g1 * 1000 = n := by
      rw [z0, Nat.add_zero] at hsum; exact hsum
    exact ⟨0, shi.cast hs'⟩
  · have e : (g0 == 0) = false := by simp [z0]
    rw [e, if_neg Bool.false_ne_true, List.append_assoc]
    refine ⟨if g0 = 100 then 2 else 0, (Steps.append shi ?_).cast hsum⟩
    apply Steps.optE
    · intro hc
      simp only [Bool.and_eq_true, Bool.not_eq_true', Bool.and_eq_false_iff, beq_eq_false_iff_ne] at hc
      have := hc.1
      omega
    · intro _
      exact (group_steps v 0 (Spec.Pt.feminine v) g0 _ 1 z0 (by omega) (by omega) (Or.inl rfl)).1
    · intro hc
      refine (group_steps v 0 (Spec.Pt.feminine v) g0 _ 0 z0 (by omega) (by omega) (Or.inr ⟨rfl, ?_⟩)).1
      by_cases hz : (g3 == 0 && g2 == 0 && g1 == 0) = true
      · left
        simp only [Bool.and_eq_true, beq_iff_eq] at hz
        obtain ⟨⟨a, b⟩, c⟩ := hz
        subst a; subst b; subst c; rfl
      · right
        have : Spec.Pt.takesE g0 = false := by simpa [hz] using hc
        exact takesE_false this z0
    · exact (group_steps v 0 (Spec.Pt.feminine v) g0 0 0 z0 (by omega) rfl (Or.inr ⟨rfl, Or.inl rfl⟩)).2

/-- **C01 for Portuguese, unbounded**: every cardinal below 10^12, in every accepted spelling variant
(European / Brazilian teens, `catorze | quatorze`, gender, `mil milhões | bilhões | biliões`, obligatory `e`
and the optional extra `e`), validates to its decimal digits. -/
theorem C01_validate_pt (v : T2N.Spec.Var) (n : Nat) (h : n < 10 ^ 12) :
    T2N.text2digitsWords T2N.Pt.lang (T2N.Spec.Pt.cardinal v n) = .ok (T2N.Spec.decChars n) := by
  by_cases hn : n = 0
  · subst hn
    have e : decChars 0 = ['0'] := by
      unfold decChars; rw [decDigits, if_pos (by decide)]; decide
    rw [e]
    show text2digitsWords T2N.Pt.lang [w!"zero"] = _
    decide
  · obtain ⟨fl, hs⟩ := cardinal_steps v n hn h
    have hs := hs []
    rw [List.append_nil, lsb_zero] at hs
    have hex : execGroup T2N.Pt.lang.apply (Spec.Pt.cardinal v n) = .ok (mkP (lsb n) fl) := by
      show execGroupFrom T2N.Pt.apply (Spec.Pt.cardinal v n) (mkP [] 0) false = _
      rw [hs, execGroupFrom, if_neg Bool.false_ne_true]
    have hne := lsb_ne_nil hn
    have hemp : (mkP (lsb n) fl).isEmpty = false := by
      show ((lsb n).isEmpty && (0 : Nat) == 0) = false
      cases hl : lsb n with
      | nil => exact absurd hl hne
      | cons a t => rfl
    have hrender : (mkP (lsb n) fl).render = decDigits n := by
      show List.replicate 0 0 ++ (lsb n).reverse = _
      rw [lsb_rev_dec n hn]; rfl
    have hrne : (mkP (lsb n) fl).render.isEmpty = false := by
      rw [hrender, ← lsb_rev_dec n hn]
      cases hl : lsb n with
      | nil => exact absurd hl hne
      | cons a t => simp
    unfold text2digitsWords
    rw [hex]
    dsimp only
    rw [hemp, if_neg Bool.false_ne_true]
    unfold Lang.formatW
    rw [hrne, if_neg Bool.false_ne_true]
    show ValOut.ok (renderChars (mkP (lsb n) fl)) = _
    unfold renderChars decChars
    rw [hrender]

/-- the hypothesis is satisfiable; instances: European long scale, and Brazilian feminine with every switch on -/
example : T2N.text2digitsWords T2N.Pt.lang (T2N.Spec.Pt.cardinal (fun _ => 0) 53020243724) =
    .ok (T2N.Spec.decChars 53020243724) := C01_validate_pt _ _ (by decide)

example : T2N.text2digitsWords T2N.Pt.lang (T2N.Spec.Pt.cardinal (fun _ => 1) 123456789012) =
    .ok (T2N.Spec.decChars 123456789012) := C01_validate_pt _ _ (by decide)

end T2N.C01Pt
