/-
  T2N.Lemmas.PairsEs — the pair rule of property C08 for Spanish:
  two complete numbers below 100 spoken one after the other, optionally joined by the conjunction `y`,
  are rewritten either as both numbers in order, or as the single number whose spelling consists of exactly
  those words (`treinta` + `y`? + `uno … nueve`); a leading `cero` attaches to the following number when no
  conjunction separates them. No other fusion happens (`veinte doce` ↦ `20 12`, `veinte y cinco` ↦ `20 5`).

  Structure:
  * `fused`, `expected`: the explicit statement; `fused_is_spelling`: every fusion is a spelling of the fused number;
  * `SQ`, `lift_run_q`, `finalize_q`, `step_reject_restart`, `step_reject_drop`: the scanner lifting of
    `T2N.Lemmas.ExtEs` generalised to a non-empty queue of already decided occurrences;
  * `reject_head`: the first word of `std b` is refused by the builder that holds `a` (unless the pair fuses);
  * `C08_pairs_es`.
-/
import T2N.Lemmas.ExtEs
import T2N.Lemmas.SpecCheck
import T2N.Lemmas.Finite

namespace T2N.PairsEs
open T2N T2N.Spec
open T2N.C01En (lsb lsb_zero lsb_pos lsb_cons lsb_digit lsb_ne_nil mk mk_nil)
open T2N.C01Es (Plain plain_unit plain_one plain_teen plain_twentyOne plain_tens plain_y y_apply)
open T2N.EnExt (setLz wt skipW pushWords findNumbers_words push_word parser_push_nosep tracker_numberEnd
  pushWords_append small_zeroThr)
open T2N.ExtEs (apply_plain_gen post accepted_word inc_nonempty cardinal_run format_lz zeros_run apply_zero_after)

/-! ## the statement -/

/-- the standard spelling -/
def std (n : Nat) : List Word := Spec.Es.cardinal (tableVar 0) n

/-- the joiner: nothing, or the conjunction `y` -/
def joiner (cj : Bool) : List Word := if cj then [Spec.Es.conj] else []

/-- **the only fusion**: a round ten from `treinta` to `noventa`, followed (with or without `y`) by a unit
`uno … nueve`, is the number `a + b` (`treinta y uno`, `treinta uno`) -/
def fused (a b : Nat) (_cj : Bool) : Option Nat :=
  if 30 ≤ a ∧ a % 10 = 0 ∧ 1 ≤ b ∧ b ≤ 9 then some (a + b) else none

/-- what the scanner reports for `std a ++ joiner cj ++ std b`: the fused number; or, for `cero` directly followed by
a number, that number with a leading zero (`cero cinco` ↦ `05`, `cero cero` ↦ `00`); otherwise both numbers -/
def expected (a b : Nat) (cj : Bool) : List Word :=
  match fused a b cj with
  | some c => [decChars c]
  | none => if a = 0 ∧ cj = false then ['0' :: decChars b] else [decChars a, decChars b]

/-- normalised words: the conjunction is optional (Spanish spellings contain no hyphen) -/
def norm (ws : List Word) : List Word := ws.filter (fun w => w != Spec.Es.conj)


/-! ## the scanner with a queue of already decided occurrences -/

/-- integer-mode parser holding `b`, nothing on hold, the texts of the decided occurrences are `q` -/
def SQ (s : Scanner) (b : DS) (q : List Word) : Prop :=
  s.parser = { int := b } ∧ s.tracker.onHold = none ∧ s.tracker.queue.map (·.text) = q

/-- **lifting**: a successful interpreter run is reproduced by the scanner word by word; the queue is untouched -/
theorem lift_run_q (q : List Word) : ∀ (ws : List Word) (b : DS) (inc : Bool) (r : DS),
    execGroupFrom Es.apply ws b inc = .ok r → ∀ (s : Scanner) (i : Nat), SQ s b q →
    ∃ s', pushWords (scanCfg Es.lang zeroThr) s i ws = .ok s' ∧ SQ s' r q := by
  intro ws
  induction ws with
  | nil =>
    intro b inc r h s i hs
    rw [execGroupFrom] at h
    cases inc with
    | true => exact absurd h (by simp)
    | false =>
      have : b = r := by simpa using h
      rw [← this]
      exact ⟨s, rfl, hs⟩
  | cons w ws ih =>
    intro b inc r h s i hs
    rw [execGroupFrom] at h
    obtain ⟨hp, hh, hq⟩ := hs
    rcases hx : Es.apply w b with ⟨st, b1⟩
    rw [hx] at h
    have hx' : Es.lang.apply w s.parser.int = (st, b1) := by rw [hp]; exact hx
    have hpush : st = none ∨ st = some .incomplete → s.parser.push Es.lang w = (st, { int := b1 }) := by
      intro hst
      have hw := accepted_word w b (by rw [hx]; exact hst)
      rw [parser_push_nosep Es.lang s.parser w (by rw [hp]) hw.2, hx', hp]
    rw [pushWords]
    cases st with
    | none =>
      have hw := accepted_word w b (by rw [hx]; exact Or.inl rfl)
      rw [push_word Es.lang zeroThr s i w hw.1, hpush (Or.inl rfl)]
      exact ih b1 false r h _ (i + 2) ⟨rfl, hh, hq⟩
    | some e =>
      cases e with
      | incomplete =>
        have hw := accepted_word w b (by rw [hx]; exact Or.inr rfl)
        rw [push_word Es.lang zeroThr s i w hw.1, hpush (Or.inr rfl)]
        exact ih b1 true r h _ (i + 2) ⟨rfl, hh, hq⟩
      | overlap => exact absurd h (by simp)
      | nan => exact absurd h (by simp)
      | frozen => exact absurd h (by simp)

/-- the end of a pending integer-mode number (threshold 0): its text joins the queue, the parser is reset -/
theorem numberEnd_q (s : Scanner) (r : DS) (text : Word) (val : Value) (q : List Word) (hs : SQ s r q)
    (hf : Es.lang.formatW r = .ok (text, val)) :
    ∃ s1, s.numberEnd (scanCfg Es.lang zeroThr) = .ok s1 ∧ SQ s1 {} (q ++ [text]) := by
  obtain ⟨hp, hh, hq⟩ := hs
  unfold Scanner.numberEnd
  have hfin : s.parser.finish (scanCfg Es.lang zeroThr).lang = .ok (text, val) := by
    rw [hp]; exact hf
  rw [hfin]
  dsimp only
  rw [small_zeroThr, Bool.and_false]
  obtain ⟨t1, t2⟩ := tracker_numberEnd s.tracker s.parser.isOrdinal text val hh
  refine ⟨_, rfl, rfl, t1, ?_⟩
  show List.map (·.text) (s.tracker.numberEnd s.parser.isOrdinal text val false).queue = _
  rw [t2, List.map_append, hq]
  rfl

theorem finalize_q (s : Scanner) (r : DS) (text : Word) (val : Value) (q : List Word) (hs : SQ s r q)
    (hne : r.isEmpty = false) (hf : Es.lang.formatW r = .ok (text, val)) :
    ∃ sf, s.finalize (scanCfg Es.lang zeroThr) = .ok sf ∧ sf.tracker.queue.map (·.text) = q ++ [text] := by
  obtain ⟨s1, e1, _, _, h3⟩ := numberEnd_q s r text val q hs hf
  unfold Scanner.finalize
  have hn : s.parser.hasNumber = true := by
    rw [hs.1]; show (!r.isEmpty) = true; rw [hne]; rfl
  rw [hn, if_pos rfl]
  exact ⟨s1, e1, h3⟩

/-- a word refused (not `Incomplete`) while a number is open, and accepted by the fresh builder: the open number is
emitted and the word starts the next one -/
theorem step_reject_restart (s : Scanner) (pos : Nat) (r b2 : DS) (text : Word) (val : Value) (q : List Word)
    (w : Word) (e : Err) (hs : SQ s r q) (hne : r.isEmpty = false)
    (hf : Es.lang.formatW r = .ok (text, val)) (ha : Es.apply w r = (some e, r)) (he : e ≠ .incomplete)
    (hb : Es.apply w {} = (none, b2)) :
    ∃ s', s.push (scanCfg Es.lang zeroThr) pos (wt w) = .ok s' ∧ SQ s' b2 (q ++ [text]) := by
  have hw := accepted_word w {} (by rw [hb]; exact Or.inl rfl)
  have hp := hs.1
  have hpush : s.parser.push Es.lang w = (some e, { int := r }) := by
    rw [parser_push_nosep Es.lang s.parser w (by rw [hp]) hw.2, hp]
    have ha' : Es.lang.apply w ({ int := r } : Parser).int = (some e, r) := ha
    rw [ha']
  have hsq : SQ ({ s with parser := { int := r } } : Scanner) r q := ⟨rfl, hs.2.1, hs.2.2⟩
  obtain ⟨s1, e1, p1, h1, q1⟩ := numberEnd_q _ r text val q hsq hf
  have hrej : s.push (scanCfg Es.lang zeroThr) pos (wt w) =
      Scanner.pushRejected (scanCfg Es.lang zeroThr) { s with parser := { int := r } } pos (wt w) := by
    rw [push_word Es.lang zeroThr s pos w hw.1, hpush]
    cases e with
    | incomplete => exact absurd rfl he
    | overlap => rfl
    | nan => rfl
    | frozen => rfl
  rw [hrej]
  unfold Scanner.pushRejected
  have hn : ({ s with parser := { int := r } } : Scanner).parser.hasNumber = true := by
    show (!r.isEmpty) = true; rw [hne]; rfl
  rw [if_pos hn, e1]
  dsimp only
  have hpush2 : Parser.push (scanCfg Es.lang zeroThr).lang s1.parser (wt w).lower = (none, { int := b2 }) := by
    show s1.parser.push Es.lang w = _
    rw [parser_push_nosep Es.lang s1.parser w (by rw [p1]) hw.2, p1]
    have hb' : Es.lang.apply w ({ int := {} } : Parser).int = (none, b2) := hb
    rw [hb']
  rw [hpush2]
  exact ⟨_, rfl, rfl, h1, q1⟩

/-- a word refused (not `Incomplete`) while a number is open, and refused by the fresh builder too: the open number
is emitted and the word is dropped -/
theorem step_reject_drop (s : Scanner) (pos : Nat) (r : DS) (text : Word) (val : Value) (q : List Word)
    (w : Word) (e e2 : Err) (hw : skipW w = false ∧ Es.lang.isDecSep w = false) (hs : SQ s r q)
    (hne : r.isEmpty = false) (hf : Es.lang.formatW r = .ok (text, val)) (ha : Es.apply w r = (some e, r))
    (he : e ≠ .incomplete) (hb : Es.apply w {} = (some e2, {})) :
    ∃ s', s.push (scanCfg Es.lang zeroThr) pos (wt w) = .ok s' ∧ SQ s' {} (q ++ [text]) := by
  have hp := hs.1
  have hpush : s.parser.push Es.lang w = (some e, { int := r }) := by
    rw [parser_push_nosep Es.lang s.parser w (by rw [hp]) hw.2, hp]
    have ha' : Es.lang.apply w ({ int := r } : Parser).int = (some e, r) := ha
    rw [ha']
  have hsq : SQ ({ s with parser := { int := r } } : Scanner) r q := ⟨rfl, hs.2.1, hs.2.2⟩
  obtain ⟨s1, e1, p1, h1, q1⟩ := numberEnd_q _ r text val q hsq hf
  have hrej : s.push (scanCfg Es.lang zeroThr) pos (wt w) =
      Scanner.pushRejected (scanCfg Es.lang zeroThr) { s with parser := { int := r } } pos (wt w) := by
    rw [push_word Es.lang zeroThr s pos w hw.1, hpush]
    cases e with
    | incomplete => exact absurd rfl he
    | overlap => rfl
    | nan => rfl
    | frozen => rfl
  rw [hrej]
  unfold Scanner.pushRejected
  have hn : ({ s with parser := { int := r } } : Scanner).parser.hasNumber = true := by
    show (!r.isEmpty) = true; rw [hne]; rfl
  rw [if_pos hn, e1]
  dsimp only
  have hpush2 : Parser.push (scanCfg Es.lang zeroThr).lang s1.parser (wt w).lower = (some e2, { int := {} }) := by
    show s1.parser.push Es.lang w = _
    rw [parser_push_nosep Es.lang s1.parser w (by rw [p1]) hw.2, p1]
    have hb' : Es.lang.apply w ({ int := {} } : Parser).int = (some e2, {}) := hb
    rw [hb']
  rw [hpush2]
  dsimp only
  rw [if_neg (by simp)]
  -- `Incomplete` on the fresh parser leaves the scanner as it is; any other error goes through `outside`
  by_cases hinc : e2 = .incomplete
  · subst hinc
    rw [if_pos (by rfl)]
    exact ⟨_, rfl, rfl, h1, q1⟩
  rw [if_neg (by cases e2 <;> first | exact absurd rfl hinc | decide)]
  obtain ⟨o1, o2, _, _⟩ := T2N.Lift.outside_tracker (scanCfg Es.lang zeroThr)
    ({ s1 with parser := { int := {} } } : Scanner) (wt w)
  refine ⟨_, rfl, ?_, ?_, ?_⟩
  · show (Scanner.outside (scanCfg Es.lang zeroThr) ({ s1 with parser := { int := {} } } : Scanner) (wt w)).parser = _
    rw [T2N.outside_eq]
    split <;> rfl
  · show (Scanner.outside (scanCfg Es.lang zeroThr) ({ s1 with parser := { int := {} } } : Scanner) (wt w)).tracker.onHold = _
    rw [o2]; exact h1
  · show List.map (·.text)
      (Scanner.outside (scanCfg Es.lang zeroThr) ({ s1 with parser := { int := {} } } : Scanner) (wt w)).tracker.queue = _
    rw [o1]; exact q1


/-- a word answered `Incomplete` (the conjunction after a number ≥ 10): the scanner waits -/
theorem step_incomplete (s : Scanner) (pos : Nat) (r r' : DS) (q : List Word) (w : Word) (hs : SQ s r q)
    (ha : Es.apply w r = (some .incomplete, r')) :
    ∃ s', s.push (scanCfg Es.lang zeroThr) pos (wt w) = .ok s' ∧ SQ s' r' q := by
  have hw := accepted_word w r (by rw [ha]; exact Or.inr rfl)
  have hp := hs.1
  have hpush : s.parser.push Es.lang w = (some .incomplete, { int := r' }) := by
    rw [parser_push_nosep Es.lang s.parser w (by rw [hp]) hw.2, hp]
    have ha' : Es.lang.apply w ({ int := r } : Parser).int = (some .incomplete, r') := ha
    rw [ha']
  rw [push_word Es.lang zeroThr s pos w hw.1, hpush]
  exact ⟨_, rfl, rfl, hs.2.1, hs.2.2⟩

theorem pushWords_app (s s1 : Scanner) (i : Nat) (a b : List Word)
    (h : pushWords (scanCfg Es.lang zeroThr) s i a = .ok s1) :
    pushWords (scanCfg Es.lang zeroThr) s i (a ++ b) =
      pushWords (scanCfg Es.lang zeroThr) s1 (i + 2 * a.length) b := by
  rw [pushWords_append, h]

theorem occ_of (ws : List Word) (q : List Word) (s' sf : Scanner)
    (h1 : pushWords (scanCfg Es.lang zeroThr) {} 0 ws = .ok s')
    (h2 : s'.finalize (scanCfg Es.lang zeroThr) = .ok sf) (h3 : sf.tracker.queue.map (·.text) = q) :
    occTexts Es.lang zeroThr ws = some q := by
  unfold occTexts
  rw [findNumbers_words, h1]
  dsimp only
  rw [h2]
  dsimp only
  rw [h3]

/-- a whole number scanned from the fresh parser and the end of the phrase -/
theorem tail_fresh (s : Scanner) (i : Nat) (q : List Word) (ws : List Word) (r2 : DS) (tb : Word) (vb : Value)
    (hs : SQ s {} q) (hrun : execGroupFrom Es.apply ws DS.new false = .ok r2) (hne2 : r2.isEmpty = false)
    (hf2 : Es.lang.formatW r2 = .ok (tb, vb)) :
    ∃ s' sf, pushWords (scanCfg Es.lang zeroThr) s i ws = .ok s' ∧
      s'.finalize (scanCfg Es.lang zeroThr) = .ok sf ∧ sf.tracker.queue.map (·.text) = q ++ [tb] := by
  obtain ⟨s1, e1, hs1⟩ := lift_run_q q ws DS.new false r2 hrun s i hs
  obtain ⟨sf, e2, hq⟩ := finalize_q s1 r2 tb vb q hs1 hne2 hf2
  exact ⟨s1, sf, e1, e2, hq⟩

/-- the first word of a run from the fresh builder is accepted -/
theorem run_cons_fresh (w : Word) (rest : List Word) (r : DS)
    (h : execGroupFrom Es.apply (w :: rest) DS.new false = .ok r) :
    ∃ b1, Es.apply w {} = (none, b1) ∧ execGroupFrom Es.apply rest b1 false = .ok r := by
  rw [execGroupFrom] at h
  rcases hx : Es.apply w DS.new with ⟨st, b1⟩
  rw [hx] at h
  cases st with
  | none => exact ⟨b1, hx, h⟩
  | some e =>
    cases e with
    | incomplete =>
      have := inc_nonempty w DS.new (by rw [hx])
      exact absurd this (by decide)
    | overlap => exact absurd h (by simp)
    | nan => exact absurd h (by simp)
    | frozen => exact absurd h (by simp)

/-- the open number is ended by the refused first word of the next one, which is then scanned to the end -/
theorem tail_restart (s : Scanner) (i : Nat) (r : DS) (q : List Word) (ta : Word) (va : Value) (w : Word)
    (rest : List Word) (e : Err) (r2 : DS) (tb : Word) (vb : Value) (hs : SQ s r q) (hne : r.isEmpty = false)
    (hf : Es.lang.formatW r = .ok (ta, va)) (ha : Es.apply w r = (some e, r)) (he : e ≠ .incomplete)
    (hrun : execGroupFrom Es.apply (w :: rest) DS.new false = .ok r2) (hne2 : r2.isEmpty = false)
    (hf2 : Es.lang.formatW r2 = .ok (tb, vb)) :
    ∃ s' sf, pushWords (scanCfg Es.lang zeroThr) s i (w :: rest) = .ok s' ∧
      s'.finalize (scanCfg Es.lang zeroThr) = .ok sf ∧ sf.tracker.queue.map (·.text) = q ++ [ta, tb] := by
  obtain ⟨b1, hb, hrest⟩ := run_cons_fresh w rest r2 hrun
  obtain ⟨s1, e1, hs1⟩ := step_reject_restart s i r b1 ta va q w e hs hne hf ha he hb
  obtain ⟨s2, e2, hs2⟩ := lift_run_q (q ++ [ta]) rest b1 false r2 hrest s1 (i + 2) hs1
  obtain ⟨sf, e3, hq⟩ := finalize_q s2 r2 tb vb _ hs2 hne2 hf2
  refine ⟨s2, sf, ?_, e3, ?_⟩
  · rw [pushWords, e1]; exact e2
  · rw [hq, List.append_assoc]; rfl


/-! ## the builder after `std a`, and the first word of `std b` -/

theorem decChars_zero : decChars 0 = ['0'] := by
  unfold decChars; rw [decDigits, if_pos (by decide)]; decide

theorem std_zero : std 0 = [Spec.Es.zeroWord] := by decide

theorem std_pos_run (n : Nat) (hn0 : n ≠ 0) (hn : n < 100) :
    execGroupFrom Es.apply (std n) DS.new false = .ok (mk (lsb n)) :=
  cardinal_run (tableVar 0) n hn0 (Nat.lt_trans hn (by decide))

theorem fmt_pos (n : Nat) (hn0 : n ≠ 0) :
    (mk (lsb n)).isEmpty = false ∧ ∃ v, Es.lang.formatW (mk (lsb n)) = .ok (decChars n, v) := by
  obtain ⟨h1, h2⟩ := format_lz 0 n hn0
  exact ⟨h1, _, h2⟩

theorem std_zero_run : execGroupFrom Es.apply (std 0) DS.new false = .ok (setLz 1 DS.new) := by
  rw [std_zero]
  exact zeros_run [] 1 0

theorem fmt_zero : (setLz 1 DS.new).isEmpty = false ∧
    ∃ v, Es.lang.formatW (setLz 1 DS.new) = .ok (decChars 0, v) := by
  rw [decChars_zero]
  exact ⟨rfl, _, rfl⟩

/-- every `std b` runs from the fresh builder to a non-empty builder that renders `b` -/
theorem std_fresh (b : Nat) (hb : b < 100) : ∃ r v, execGroupFrom Es.apply (std b) DS.new false = .ok r ∧
    r.isEmpty = false ∧ Es.lang.formatW r = .ok (decChars b, v) := by
  by_cases hb0 : b = 0
  · subst hb0
    obtain ⟨h1, v, h2⟩ := fmt_zero
    exact ⟨_, v, std_zero_run, h1, h2⟩
  · obtain ⟨h1, v, h2⟩ := fmt_pos b hb0
    exact ⟨_, v, std_pos_run b hb0 hb, h1, h2⟩

/-- the first word of `std b` -/
def headWord (b : Nat) : Word := if b < 30 then Spec.Es.unitWord b else Spec.Es.tensWord (b / 10)

set_option maxRecDepth 100000 in
theorem head_table : checkRange (fun b => (std b).head? == some (headWord b)) 0 100 = true := by decide +kernel

theorem std_head (b : Nat) (hb : b < 100) : ∃ rest, std b = headWord b :: rest := by
  have h := checkRange_spec _ 100 0 head_table b (Nat.zero_le _) (by omega)
  have h' : (std b).head? = some (headWord b) := by simpa using h
  cases hs : std b with
  | nil => rw [hs] at h'; cases h'
  | cons w rest =>
    rw [hs] at h'
    have : w = headWord b := by simpa using h'
    exact ⟨rest, by rw [this]⟩

/-- the instruction bound to the first word of `std b`, `b ≠ 0`: a unit, or a two-digit `put` -/
theorem head_plain (b : Nat) (hb0 : b ≠ 0) (hb : b < 100) :
    (b < 10 ∧ Plain (headWord b) (T2N.Es.unit b)) ∨
    (10 ≤ b ∧ ∃ x y, x ≠ 0 ∧ Plain (headWord b) (.put [x, y])) := by
  unfold headWord
  by_cases h30 : b < 30
  · rw [if_pos h30]
    by_cases h10 : b < 10
    · left
      refine ⟨h10, ?_⟩
      by_cases h1 : b = 1
      · subst h1; exact plain_one 0
      · exact plain_unit b (by omega) h10
    · right
      refine ⟨by omega, b / 10, b % 10, by omega, ?_⟩
      by_cases h21 : b = 21
      · subst h21; exact plain_twentyOne 0
      · exact plain_teen b (by omega) h30 h21
  · rw [if_neg h30]
    right
    exact ⟨by omega, b / 10, 0, by omega, plain_tens (b / 10) (by omega) (by omega)⟩

/-- the two shapes of the builder that holds `1 ≤ a ≤ 99` -/
theorem lsb_shape (a : Nat) (ha0 : a ≠ 0) (ha : a < 100) :
    (a < 10 ∧ lsb a = [a]) ∨ (10 ≤ a ∧ lsb a = [a % 10, a / 10]) := by
  by_cases h10 : a < 10
  · exact Or.inl ⟨h10, lsb_digit a h10 ha0⟩
  · right
    refine ⟨by omega, ?_⟩
    have e : a = a % 10 + 10 * (a / 10) := by omega
    conv => lhs; rw [e]
    rw [lsb_cons (a % 10) (a / 10) (by omega) (Or.inr (by omega)), lsb_digit (a / 10) (by omega) (by omega)]

/-- `cero` after a number: `Overlap` -/
theorem reject_zero (a : Nat) (ha0 : a ≠ 0) :
    Es.apply (headWord 0) (mk (lsb a)) = (some .overlap, mk (lsb a)) := apply_zero_after 0 a ha0

/-- a unit word after `1 ≤ a ≤ 99` that is not a round ten ≥ 30: `Overlap` (units digit taken) or `NaN` (after
`diez`, `veinte`) -/
theorem reject_unit (w : Word) (d a : Nat) (hw : Plain w (T2N.Es.unit d)) (hd0 : d ≠ 0) (ha0 : a ≠ 0)
    (ha : a < 100) (hnf : ¬ (30 ≤ a ∧ a % 10 = 0)) :
    ∃ e, Es.apply w (mk (lsb a)) = (some e, mk (lsb a)) ∧ e ≠ .incomplete := by
  rw [apply_plain_gen w _ _ hw rfl]
  rcases lsb_shape a ha0 ha with ⟨_, hl⟩ | ⟨h10, hl⟩
  · rw [hl]
    refine ⟨.overlap, ?_, by simp⟩
    simp [post, T2N.Es.unit, Act.when, Act.exec, Guard.eval, DS.peek, DS.put, allZero, mk, ha0, hd0]
  · rw [hl]
    by_cases hu : a % 10 = 0
    · have ht : a / 10 = 1 ∨ a / 10 = 2 := by omega
      refine ⟨.nan, ?_, by simp⟩
      rcases ht with ht | ht <;>
        simp [post, T2N.Es.unit, Act.when, Act.exec, Guard.eval, DS.peek, mk, hu, ht]
    · refine ⟨.overlap, ?_, by simp⟩
      simp [post, T2N.Es.unit, Act.when, Act.exec, Guard.eval, DS.peek, DS.put, allZero, mk, hu, hd0]

/-- a two-digit word (`diez` … `veintinueve`, `treinta` … `noventa`) after `1 ≤ a ≤ 99`: `Overlap` -/
theorem reject_put2 (w : Word) (x y a : Nat) (hw : Plain w (.put [x, y])) (hx : x ≠ 0) (ha0 : a ≠ 0)
    (ha : a < 100) : Es.apply w (mk (lsb a)) = (some .overlap, mk (lsb a)) := by
  rw [apply_plain_gen w _ _ hw rfl]
  rcases lsb_shape a ha0 ha with ⟨_, hl⟩ | ⟨h10, hl⟩
  · rw [hl]
    simp [post, Act.exec, DS.put, allZero, mk, hx]
  · rw [hl]
    have ht : a / 10 ≠ 0 := by omega
    simp [post, Act.exec, DS.put, allZero, mk, hx, ht]

/-- **no other fusion**: unless the pair fuses, the first word of `std b` is refused by the builder holding `a` -/
theorem reject_head (a b : Nat) (ha0 : a ≠ 0) (ha : a < 100) (hb : b < 100) (cj : Bool)
    (hnf : fused a b cj = none) :
    ∃ e, Es.apply (headWord b) (mk (lsb a)) = (some e, mk (lsb a)) ∧ e ≠ .incomplete := by
  by_cases hb0 : b = 0
  · subst hb0
    exact ⟨.overlap, reject_zero a ha0, by simp⟩
  · rcases head_plain b hb0 hb with ⟨h10, hp⟩ | ⟨_, x, y, hx, hp⟩
    · refine reject_unit _ b a hp hb0 ha0 ha ?_
      intro hc
      unfold fused at hnf
      rw [if_pos ⟨hc.1, hc.2, by omega, by omega⟩] at hnf
      cases hnf
    · exact ⟨.overlap, reject_put2 _ x y a hp hx ha0 ha, by simp⟩

/-- the conjunction on a builder that holds fewer than two digits: `NaN` -/
theorem y_reject (r : DS) (hm : r.marker = .none) (hl : r.len < 2) : Es.apply w!"y" r = (some .nan, r) := by
  rw [apply_plain_gen _ _ _ plain_y hm]
  have hg : (Guard.lenGe 2).eval r = false := by
    simp only [Guard.eval, ge_iff_le, decide_eq_false_iff_not]
    omega
  simp only [Act.when, Act.exec]
  rw [hg]
  rfl


/-! ## the fusions are spellings -/

/-- the variant that differs from the standard spelling only by leaving out `y` between tens and units -/
def noY : Var := fun i => if i = 0 then 1 else 0

/-- row `n = 10·t + u` of the fusion table: `std (10·t) ++ [y] ++ std u` is the standard spelling of `n`, and
`std (10·t) ++ std u` is its spelling without `y` -/
def fusedRow (n : Nat) : Bool :=
  if 30 ≤ n / 10 * 10 ∧ 1 ≤ n % 10 then
    (std (n / 10 * 10) ++ [Spec.Es.conj] ++ std (n % 10) == std n) &&
    (std (n / 10 * 10) ++ std (n % 10) == Spec.Es.cardinal noY n)
  else true

set_option maxRecDepth 100000 in
theorem fused_table : checkRange fusedRow 0 100 = true := by decide +kernel

theorem fused_some (a b c : Nat) (cj : Bool) (h : fused a b cj = some c) :
    30 ≤ a ∧ a % 10 = 0 ∧ 1 ≤ b ∧ b ≤ 9 ∧ c = a + b := by
  unfold fused at h
  by_cases hc : 30 ≤ a ∧ a % 10 = 0 ∧ 1 ≤ b ∧ b ≤ 9
  · rw [if_pos hc] at h
    have : a + b = c := by simpa using h
    exact ⟨hc.1, hc.2.1, hc.2.2.1, hc.2.2.2, this.symm⟩
  · rw [if_neg hc] at h; cases h

/-- **the fused words are a spelling of the fused number**, exactly: with `y` the standard spelling, without `y`
the accepted variant `treinta uno` -/
theorem fused_words (a b c : Nat) (cj : Bool) (ha : a < 100) (h : fused a b cj = some c) :
    std a ++ joiner cj ++ std b = Spec.Es.cardinal (if cj then tableVar 0 else noY) c := by
  obtain ⟨h1, h2, h3, h4, rfl⟩ := fused_some a b _ cj h
  have hrow := checkRange_spec _ 100 0 fused_table (a + b) (Nat.zero_le _) (by omega)
  have e1 : (a + b) / 10 * 10 = a := by omega
  have e2 : (a + b) % 10 = b := by omega
  unfold fusedRow at hrow
  rw [e1, e2, if_pos ⟨h1, h3⟩] at hrow
  simp only [Bool.and_eq_true, beq_iff_eq] at hrow
  cases cj with
  | true => exact hrow.1
  | false =>
    show std a ++ [] ++ std b = _
    rw [List.append_nil]
    exact hrow.2

/-- **C08, fusions are spellings**: if the pair fuses into `c`, the words of `a` (+ `y`) + the words of `b` are,
up to the optional conjunction, the words of the standard spelling of `c` (variant table index 0) -/
theorem fused_is_spelling (a b c : Nat) (cj : Bool) (ha : a < 100) (h : fused a b cj = some c) :
    ∃ k, k < 48 ∧ norm (Spec.Es.cardinal (tableVar k) c) = norm (std a ++ joiner cj ++ std b) := by
  refine ⟨0, by decide, ?_⟩
  obtain ⟨h1, h2, h3, h4, rfl⟩ := fused_some a b _ cj h
  have hrow := checkRange_spec _ 100 0 fused_table (a + b) (Nat.zero_le _) (by omega)
  have e1 : (a + b) / 10 * 10 = a := by omega
  have e2 : (a + b) % 10 = b := by omega
  unfold fusedRow at hrow
  rw [e1, e2, if_pos ⟨h1, h3⟩] at hrow
  simp only [Bool.and_eq_true, beq_iff_eq] at hrow
  have hy : norm (std a ++ [Spec.Es.conj] ++ std b) = norm (std a ++ std b) := by
    unfold norm
    rw [List.filter_append, List.filter_append, List.filter_append]
    have : List.filter (fun w => w != Spec.Es.conj) [Spec.Es.conj] = [] := by decide
    rw [this, List.append_nil]
  show norm (std (a + b)) = _
  rw [← hrow.1, hy]
  cases cj with
  | true => exact hy.symm
  | false =>
    show _ = norm (std a ++ [] ++ std b)
    rw [List.append_nil]


/-! ## the pair rule -/

theorem sq_init : SQ {} {} [] := ⟨rfl, rfl, rfl⟩

theorem expected_none (a b : Nat) (cj : Bool) (h : fused a b cj = none) :
    expected a b cj = if a = 0 ∧ cj = false then ['0' :: decChars b] else [decChars a, decChars b] := by
  unfold expected
  rw [h]

/-- `a ≠ 0`, no conjunction, no fusion: the first word of `std b` ends `a` and starts `b` -/
theorem pair_plain (a b : Nat) (ha0 : a ≠ 0) (ha : a < 100) (hb : b < 100) (hnf : fused a b false = none) :
    occTexts Es.lang zeroThr (std a ++ joiner false ++ std b) = some [decChars a, decChars b] := by
  show occTexts Es.lang zeroThr (std a ++ [] ++ std b) = _
  rw [List.append_nil]
  obtain ⟨hne, va, hf⟩ := fmt_pos a ha0
  obtain ⟨r2, vb, hrun2, hne2, hf2⟩ := std_fresh b hb
  obtain ⟨rest, hhead⟩ := std_head b hb
  obtain ⟨e, hrej, he⟩ := reject_head a b ha0 ha hb false hnf
  obtain ⟨s1, e1, hs1⟩ := lift_run_q [] (std a) DS.new false _ (std_pos_run a ha0 ha) {} 0 sq_init
  rw [hhead] at hrun2 ⊢
  obtain ⟨s2, sf, e2, e3, hq⟩ := tail_restart s1 (0 + 2 * (std a).length) _ [] _ va _ rest e r2 _ vb hs1 hne hf
    hrej he hrun2 hne2 hf2
  exact occ_of _ _ s2 sf (by rw [pushWords_app _ _ _ _ _ e1]; exact e2) e3 hq

/-- `a ≥ 10`, conjunction, no fusion: `y` is awaited (`Incomplete`), then the first word of `std b` ends `a` -/
theorem pair_conj_big (a b : Nat) (ha10 : 10 ≤ a) (ha : a < 100) (hb : b < 100) (hnf : fused a b true = none) :
    occTexts Es.lang zeroThr (std a ++ joiner true ++ std b) = some [decChars a, decChars b] := by
  show occTexts Es.lang zeroThr (std a ++ [w!"y"] ++ std b) = _
  have ha0 : a ≠ 0 := by omega
  obtain ⟨hne, va, hf⟩ := fmt_pos a ha0
  obtain ⟨r2, vb, hrun2, hne2, hf2⟩ := std_fresh b hb
  obtain ⟨rest, hhead⟩ := std_head b hb
  obtain ⟨e, hrej, he⟩ := reject_head a b ha0 ha hb true hnf
  obtain ⟨s1, e1, hs1⟩ := lift_run_q [] (std a) DS.new false _ (std_pos_run a ha0 ha) {} 0 sq_init
  obtain ⟨s1', e1', hs1'⟩ := step_incomplete s1 (0 + 2 * (std a).length) _ _ [] w!"y" hs1 (y_apply a ha10)
  rw [hhead] at hrun2 ⊢
  obtain ⟨s2, sf, e2, e3, hq⟩ := tail_restart s1' (0 + 2 * (std a).length + 2) _ [] _ va _ rest e r2 _ vb hs1'
    hne hf hrej he hrun2 hne2 hf2
  refine occ_of _ _ s2 sf ?_ e3 hq
  rw [List.append_assoc, pushWords_app _ _ _ _ _ e1, List.singleton_append, pushWords, e1']
  exact e2

/-- `a ≤ 9` (a digit or `cero`), conjunction: `y` is refused (`NaN`: fewer than two digits), which ends `a`; `y` is
dropped and `b` is scanned afresh -/
theorem pair_conj_small (a b : Nat) (ha : a < 10) (hb : b < 100) :
    occTexts Es.lang zeroThr (std a ++ joiner true ++ std b) = some [decChars a, decChars b] := by
  show occTexts Es.lang zeroThr (std a ++ [w!"y"] ++ std b) = _
  obtain ⟨r2, vb, hrun2, hne2, hf2⟩ := std_fresh b hb
  obtain ⟨r, va, hrun, hne, hf, hm, hl⟩ : ∃ r va, execGroupFrom Es.apply (std a) DS.new false = .ok r ∧
      r.isEmpty = false ∧ Es.lang.formatW r = .ok (decChars a, va) ∧ r.marker = .none ∧ r.len < 2 := by
    by_cases ha0 : a = 0
    · subst ha0
      obtain ⟨h1, v, h2⟩ := fmt_zero
      exact ⟨_, v, std_zero_run, h1, h2, rfl, by decide⟩
    · obtain ⟨h1, v, h2⟩ := fmt_pos a ha0
      refine ⟨_, v, std_pos_run a ha0 (by omega), h1, h2, rfl, ?_⟩
      rw [lsb_digit a ha ha0]
      show [a].length + 0 < 2
      simp
  obtain ⟨s1, e1, hs1⟩ := lift_run_q [] (std a) DS.new false _ hrun {} 0 sq_init
  obtain ⟨s1', e1', hs1'⟩ := step_reject_drop s1 (0 + 2 * (std a).length) r _ va [] w!"y" .nan .nan
    ⟨by decide, by decide⟩ hs1 hne hf (y_reject r hm hl) (by simp) (y_reject {} rfl (by decide))
  obtain ⟨s2, sf, e2, e3, hq⟩ := tail_fresh s1' (0 + 2 * (std a).length + 2) _ (std b) r2 _ vb hs1' hrun2 hne2 hf2
  refine occ_of _ _ s2 sf ?_ e3 hq
  rw [List.append_assoc, pushWords_app _ _ _ _ _ e1, List.singleton_append, pushWords, e1']
  exact e2

/-- `cero` directly followed by a number: the zero attaches (`cero cinco` ↦ `05`, `cero cero` ↦ `00`) -/
theorem pair_zero (b : Nat) (hb : b < 100) :
    occTexts Es.lang zeroThr (std 0 ++ joiner false ++ std b) = some ['0' :: decChars b] := by
  show occTexts Es.lang zeroThr (std 0 ++ [] ++ std b) = _
  rw [List.append_nil, std_zero]
  by_cases hb0 : b = 0
  · subst hb0
    rw [std_zero, decChars_zero]
    exact T2N.ExtEs.C16_zeros_only_scan_es 2 (by decide)
  · exact T2N.ExtEs.C16_scan_es (tableVar 0) 1 b (by omega) (Nat.lt_trans hb (by decide))

/-- **C08, pair rule, Spanish**: for all `a, b < 100` and both joiners (nothing / `y`), the scanner (threshold 0) on
the standard spelling of `a`, the joiner, the standard spelling of `b` reports exactly `expected a b cj`: the fused
number if the words spell one number, `0b` for `cero` directly followed by `b`, otherwise `a` and `b` in order. -/
theorem C08_pairs_es (a b : Nat) (ha : a < 100) (hb : b < 100) (cj : Bool) :
    occTexts Es.lang zeroThr (std a ++ joiner cj ++ std b) = some (expected a b cj) := by
  cases hfu : fused a b cj with
  | some c =>
    have hc := fused_some a b c cj hfu
    unfold expected
    rw [hfu, fused_words a b c cj ha hfu]
    exact T2N.ExtEs.C01_scan_es _ c (by omega)
  | none =>
    rw [expected_none a b cj hfu]
    cases cj with
    | false =>
      by_cases ha0 : a = 0
      · subst ha0
        rw [if_pos ⟨rfl, rfl⟩]
        exact pair_zero b hb
      · rw [if_neg (fun h => ha0 h.1)]
        exact pair_plain a b ha0 ha hb hfu
    | true =>
      rw [if_neg (fun h => Bool.noConfusion h.2)]
      by_cases h10 : a < 10
      · exact pair_conj_small a b h10 hb
      · exact pair_conj_big a b (by omega) ha hb hfu

/-- the rule in the form of the property: both numbers in order, or the leading-zero reading, or the single number
that the words spell — nothing else -/
theorem C08_pairs_es_cases (a b : Nat) (ha : a < 100) (hb : b < 100) (cj : Bool) :
    occTexts Es.lang zeroThr (std a ++ joiner cj ++ std b) = some [decChars a, decChars b] ∨
    (a = 0 ∧ cj = false ∧ occTexts Es.lang zeroThr (std a ++ joiner cj ++ std b) = some ['0' :: decChars b]) ∨
    (∃ c k, k < 48 ∧ norm (Spec.Es.cardinal (tableVar k) c) = norm (std a ++ joiner cj ++ std b) ∧
      occTexts Es.lang zeroThr (std a ++ joiner cj ++ std b) = some [decChars c]) := by
  have h := C08_pairs_es a b ha hb cj
  cases hfu : fused a b cj with
  | some c =>
    right; right
    obtain ⟨k, hk, hn⟩ := fused_is_spelling a b c cj ha hfu
    refine ⟨c, k, hk, hn, ?_⟩
    rw [h]; unfold expected; rw [hfu]
  | none =>
    rw [expected_none a b cj hfu] at h
    by_cases hz : a = 0 ∧ cj = false
    · rw [if_pos hz] at h
      exact Or.inr (Or.inl ⟨hz.1, hz.2, h⟩)
    · rw [if_neg hz] at h
      exact Or.inl h

/-- concrete instances: the phrase and the output written out -/
theorem pairs_instance (a b : Nat) (cj : Bool) (ws out : List Word) (ha : a < 100) (hb : b < 100)
    (e1 : std a ++ joiner cj ++ std b = ws) (e2 : expected a b cj = out) :
    occTexts Es.lang zeroThr ws = some out := by
  rw [← e1, ← e2]; exact C08_pairs_es a b ha hb cj

/-- `veinte doce` ↦ `20 12` (never 32) -/
example : occTexts Es.lang zeroThr [w!"veinte", w!"doce"] = some [w!"20", w!"12"] := by
  have e2 : expected 20 12 false = [w!"20", w!"12"] := by decide +kernel
  exact pairs_instance 20 12 false [w!"veinte", w!"doce"] [w!"20", w!"12"] (by decide) (by decide) (by decide) e2

/-- `veinte y cinco` ↦ `20 5` (25 is `veinticinco`) -/
example : occTexts Es.lang zeroThr [w!"veinte", w!"y", w!"cinco"] = some [w!"20", w!"5"] := by
  have e2 : expected 20 5 true = [w!"20", w!"5"] := by decide +kernel
  exact pairs_instance 20 5 true [w!"veinte", w!"y", w!"cinco"] [w!"20", w!"5"] (by decide) (by decide) (by decide) e2

/-- `cuarenta dos` ↦ `42`, `cuarenta y dos` ↦ `42` -/
example : occTexts Es.lang zeroThr [w!"cuarenta", w!"dos"] = some [w!"42"] := by
  have e2 : expected 40 2 false = [w!"42"] := by decide +kernel
  exact pairs_instance 40 2 false [w!"cuarenta", w!"dos"] [w!"42"] (by decide) (by decide) (by decide) e2

example : occTexts Es.lang zeroThr [w!"cuarenta", w!"y", w!"dos"] = some [w!"42"] := by
  have e2 : expected 40 2 true = [w!"42"] := by decide +kernel
  exact pairs_instance 40 2 true [w!"cuarenta", w!"y", w!"dos"] [w!"42"] (by decide) (by decide) (by decide) e2

/-- `cero siete` ↦ `07`, `cero y siete` ↦ `0 7` -/
example : occTexts Es.lang zeroThr [w!"cero", w!"siete"] = some [w!"07"] := by
  have e2 : expected 0 7 false = [w!"07"] := by decide +kernel
  exact pairs_instance 0 7 false [w!"cero", w!"siete"] [w!"07"] (by decide) (by decide) (by decide) e2

example : occTexts Es.lang zeroThr [w!"cero", w!"y", w!"siete"] = some [w!"0", w!"7"] := by
  have e2 : expected 0 7 true = [w!"0", w!"7"] := by decide +kernel
  exact pairs_instance 0 7 true [w!"cero", w!"y", w!"siete"] [w!"0", w!"7"] (by decide) (by decide) (by decide) e2

/-- `noventa y nueve noventa y nueve` ↦ `99 99` -/
example : occTexts Es.lang zeroThr [w!"noventa", w!"y", w!"nueve", w!"noventa", w!"y", w!"nueve"] =
    some [w!"99", w!"99"] := by
  have e2 : expected 99 99 false = [w!"99", w!"99"] := by decide +kernel
  exact pairs_instance 99 99 false [w!"noventa", w!"y", w!"nueve", w!"noventa", w!"y", w!"nueve"] [w!"99", w!"99"]
    (by decide) (by decide) (by decide) e2

end T2N.PairsEs
