/-
  T2N.Lemmas.ResetText — text-level glue for C10 (context independence).

  A. the tokenizer splits at a boundary where the character class changes (`tokenize_append3`);
  B. the two annotation passes are local: over `TA ++ TS ++ TB`, where `TS` contains enough ordinary tokens,
     they annotate `TA` and `TB` as if each were alone and leave `TS` untouched (`annotateEn_local`,
     `annotateFr_local`);
  C. a suffix of "quiet" tokens (skipped, hinted, or refused by the language without changing what the
     parser would report) is the same as the end of input: `findNumbers (A ++ S) = findNumbers A`
     (`findNumbers_quiet_suffix`).
-/
import T2N.Lemmas.Reset
import T2N.Lemmas.LangFacts
import T2N.Model.Api

namespace T2N.ResetText
open T2N

/-! ### A. the tokenizer splits where the character class changes -/

/-- the boundary test on the last character `a` of the left text and the first character `s` of the right
text: an alphanumeric character followed by a character that cannot continue a word, or a character that
cannot be part of a word followed by an alphanumeric one. (`-` and `'` on the left are excluded: they may
end a word token or a separator token.) -/
def boundaryOk (cc : CharClasses) (a s : Char) : Bool :=
  (cc.isAlphanumeric a && !isWordChar cc s) || (!isWordChar cc a && cc.isAlphanumeric s)

/-- the decidable side condition for splitting `A ++ S`: either text is empty, or the boundary characters
pass `boundaryOk` -/
def splitOk (cc : CharClasses) (A S : Word) : Bool :=
  match A.getLast?, S.head? with
  | some a, some s => boundaryOk cc a s
  | _, _ => true

/-- last character of `a :: X` -/
def lastD : Word → Char → Char
  | [], a => a
  | x :: xs, _ => lastD xs x

theorem getLast?_cons_lastD (a : Char) (X : Word) : (a :: X).getLast? = some (lastD X a) := by
  induction X generalizing a with
  | nil => rfl
  | cons x xs ih => rw [List.getLast?_cons_cons]; exact ih x

theorem alnum_wordChar (cc : CharClasses) (c : Char) (h : cc.isAlphanumeric c = true) : isWordChar cc c = true := by
  unfold isWordChar; rw [h]; rfl

theorem not_wordChar_alnum (cc : CharClasses) (c : Char) (h : isWordChar cc c = false) :
    cc.isAlphanumeric c = false := by
  cases h' : cc.isAlphanumeric c with
  | false => rfl
  | true => rw [alnum_wordChar cc c h'] at h; cases h

theorem tokenizeWords_cons (cc : CharClasses) (y : Char) (ys : Word) :
    tokenizeWords cc (y :: ys) = tokenizeAux cc (some (cc.isAlphanumeric y)) [y] ys := by
  unfold tokenizeWords; rw [tokenizeAux]

theorem aux_nil (cc : CharClasses) (b : Bool) (a : Char) (cur : Word) :
    tokenizeAux cc (some b) (a :: cur) [] = [(a :: cur).reverse] := by
  cases b <;> simp [tokenizeAux]

theorem aux_true (cc : CharClasses) (cur : Word) (c : Char) (cs : Word) :
    tokenizeAux cc (some true) cur (c :: cs) =
      if isWordChar cc c then tokenizeAux cc (some true) (c :: cur) cs
      else cur.reverse :: tokenizeAux cc (some false) [c] cs := by
  rw [tokenizeAux]

theorem aux_false (cc : CharClasses) (cur : Word) (c : Char) (cs : Word) :
    tokenizeAux cc (some false) cur (c :: cs) =
      if cc.isAlphanumeric c then cur.reverse :: tokenizeAux cc (some true) [c] cs
      else tokenizeAux cc (some false) (c :: cur) cs := by
  rw [tokenizeAux]

/-- the tokenizer state `(b, a :: cur)` is consistent: inside a word the last character read is a word
character, inside a separator it is not alphanumeric -/
theorem tokenizeAux_split (cc : CharClasses) (y : Char) (ys : Word) :
    ∀ (X : Word) (b : Bool) (a : Char) (cur : Word),
      (b = true → isWordChar cc a = true) → (b = false → cc.isAlphanumeric a = false) →
      boundaryOk cc (lastD X a) y = true →
      tokenizeAux cc (some b) (a :: cur) (X ++ y :: ys) =
        tokenizeAux cc (some b) (a :: cur) X ++ tokenizeWords cc (y :: ys) := by
  intro X
  induction X with
  | nil =>
    intro b a cur hw hs hb
    simp only [lastD, boundaryOk, Bool.or_eq_true, Bool.and_eq_true, Bool.not_eq_eq_eq_not, Bool.not_true] at hb
    rw [tokenizeWords_cons, aux_nil, List.nil_append]
    cases b with
    | true =>
      have hwa := hw rfl
      rcases hb with ⟨_, h2⟩ | ⟨h1, _⟩
      · rw [aux_true, if_neg (by rw [h2]; simp), not_wordChar_alnum cc y h2]
        rfl
      · rw [hwa] at h1; cases h1
    | false =>
      have hsa := hs rfl
      rcases hb with ⟨h1, _⟩ | ⟨_, h2⟩
      · rw [hsa] at h1; cases h1
      · rw [aux_false, if_pos h2, h2]
        rfl
  | cons x xs ih =>
    intro b a cur hw hs hb
    simp only [lastD] at hb
    simp only [List.cons_append]
    cases b with
    | true =>
      rw [aux_true, aux_true]
      by_cases hx : isWordChar cc x = true
      · rw [if_pos hx, if_pos hx]
        exact ih true x (a :: cur) (fun _ => hx) (fun h => by cases h) hb
      · rw [if_neg hx, if_neg hx, List.cons_append]
        have hx' : isWordChar cc x = false := by simpa using hx
        rw [ih false x [] (fun h => by cases h) (fun _ => not_wordChar_alnum cc x hx') hb]
    | false =>
      rw [aux_false, aux_false]
      by_cases hx : cc.isAlphanumeric x = true
      · rw [if_pos hx, if_pos hx, List.cons_append]
        rw [ih true x [] (fun _ => alnum_wordChar cc x hx) (fun h => by cases h) hb]
      · rw [if_neg hx, if_neg hx]
        have hx' : cc.isAlphanumeric x = false := by simpa using hx
        exact ih false x (a :: cur) (fun h => by cases h) (fun _ => hx') hb

/-- **the tokenizer splits at a class change**: the words of `A ++ S` are the words of `A` followed by the
words of `S` -/
theorem tokenizeWords_append (cc : CharClasses) (A S : Word) (h : splitOk cc A S = true) :
    tokenizeWords cc (A ++ S) = tokenizeWords cc A ++ tokenizeWords cc S := by
  cases A with
  | nil => simp [tokenizeWords, tokenizeAux]
  | cons a X =>
    cases S with
    | nil => simp [tokenizeWords, tokenizeAux]
    | cons y ys =>
      unfold splitOk at h
      rw [getLast?_cons_lastD] at h
      simp only [List.head?_cons] at h
      rw [List.cons_append, tokenizeWords_cons, tokenizeWords_cons]
      apply tokenizeAux_split cc y ys X (cc.isAlphanumeric a) a [] _ _ h
      · intro ha; exact alnum_wordChar cc a ha
      · intro ha; exact ha

theorem tokenize_append (cc : CharClasses) (A S : Word) (h : splitOk cc A S = true) :
    tokenize cc (A ++ S) = tokenize cc A ++ tokenize cc S := by
  unfold tokenize; rw [tokenizeWords_append cc A S h, List.map_append]

theorem splitOk_append_right (cc : CharClasses) (A S B : Word) (hne : S ≠ []) :
    splitOk cc A (S ++ B) = splitOk cc A S := by
  cases S with
  | nil => exact absurd rfl hne
  | cons s ss => unfold splitOk; simp

/-- three-part form: a non-empty separator text `S` with a class change at both ends -/
theorem tokenize_append3 (cc : CharClasses) (A S B : Word) (hne : S ≠ [])
    (h1 : splitOk cc A S = true) (h2 : splitOk cc S B = true) :
    tokenize cc (A ++ S ++ B) = tokenize cc A ++ tokenize cc S ++ tokenize cc B := by
  rw [List.append_assoc, tokenize_append cc A (S ++ B) (by rw [splitOk_append_right cc A S B hne]; exact h1),
    tokenize_append cc S B h2, List.append_assoc]

/-! ### B. the annotation passes are local -/

/-! #### indices of the elements satisfying a test -/

def idxsFrom {α} (g : α → Bool) (n : Nat) (l : List α) : List Nat :=
  (enumFrom n l).filterMap (fun (k, x) => if g x then some k else none)

theorem idxsFrom_nil {α} (g : α → Bool) (n : Nat) : idxsFrom g n [] = [] := rfl

theorem idxsFrom_cons {α} (g : α → Bool) (n : Nat) (x : α) (xs : List α) :
    idxsFrom g n (x :: xs) = if g x then n :: idxsFrom g (n + 1) xs else idxsFrom g (n + 1) xs := by
  unfold idxsFrom
  simp only [enumFrom, List.filterMap_cons]
  by_cases h : g x = true
  · simp [h]
  · simp [h]

theorem indicesWhere_eq (p : Tok → Bool) (toks : List Tok) : indicesWhere p toks = idxsFrom p 0 toks := rfl

theorem idxsFrom_shift {α} (g : α → Bool) (k : Nat) (l : List α) :
    ∀ n, idxsFrom g (n + k) l = (idxsFrom g n l).map (· + k) := by
  induction l with
  | nil => intro n; rfl
  | cons x xs ih =>
    intro n
    rw [idxsFrom_cons, idxsFrom_cons, Nat.add_right_comm n k 1, ih (n + 1)]
    by_cases h : g x = true
    · rw [if_pos h, if_pos h]; rfl
    · rw [if_neg h, if_neg h]

theorem idxsFrom_append {α} (g : α → Bool) (l1 l2 : List α) :
    ∀ n, idxsFrom g n (l1 ++ l2) = idxsFrom g n l1 ++ idxsFrom g (n + l1.length) l2 := by
  induction l1 with
  | nil => intro n; rfl
  | cons x xs ih =>
    intro n
    rw [List.cons_append, idxsFrom_cons, idxsFrom_cons, ih (n + 1)]
    have : n + 1 + xs.length = n + (x :: xs).length := by simp only [List.length_cons]; omega
    rw [this]
    by_cases h : g x = true
    · rw [if_pos h, if_pos h]; rfl
    · rw [if_neg h, if_neg h]

theorem idxs_append {α} (g : α → Bool) (l1 l2 : List α) :
    idxsFrom g 0 (l1 ++ l2) = idxsFrom g 0 l1 ++ (idxsFrom g 0 l2).map (· + l1.length) := by
  rw [idxsFrom_append, idxsFrom_shift g l1.length l2 0]

theorem idxsFrom_congr {α} (g g' : α → Bool) (l : List α) (h : ∀ x ∈ l, g x = g' x) :
    ∀ n, idxsFrom g n l = idxsFrom g' n l := by
  induction l with
  | nil => intro n; rfl
  | cons x xs ih =>
    intro n
    rw [idxsFrom_cons, idxsFrom_cons, h x (by simp), ih (fun y hy => h y (by simp [hy]))]

theorem idxsFrom_map {α β} (g : β → Bool) (f : α → β) (l : List α) :
    ∀ n, idxsFrom g n (l.map f) = idxsFrom (fun x => g (f x)) n l := by
  induction l with
  | nil => intro n; rfl
  | cons x xs ih => intro n; rw [List.map_cons, idxsFrom_cons, idxsFrom_cons, ih]

theorem idxsFrom_none {α} (g : α → Bool) (l : List α) (h : ∀ x ∈ l, g x = false) :
    ∀ n, idxsFrom g n l = [] := by
  induction l with
  | nil => intro n; rfl
  | cons x xs ih =>
    intro n
    rw [idxsFrom_cons, h x (by simp), ih (fun y hy => h y (by simp [hy]))]
    rfl

theorem mem_idxsFrom {α} (g : α → Bool) (l : List α) :
    ∀ n k, k ∈ idxsFrom g n l → n ≤ k ∧ ∃ x, l[k - n]? = some x ∧ g x = true := by
  induction l with
  | nil => intro n k h; cases h
  | cons x xs ih =>
    intro n k h
    rw [idxsFrom_cons] at h
    have tail : k ∈ idxsFrom g (n + 1) xs → n ≤ k ∧ ∃ y, (x :: xs)[k - n]? = some y ∧ g y = true := by
      intro h'
      obtain ⟨h1, y, h2, h3⟩ := ih (n + 1) k h'
      refine ⟨by omega, y, ?_, h3⟩
      have : k - n = (k - (n + 1)) + 1 := by omega
      rw [this, List.getElem?_cons_succ]; exact h2
    by_cases hg : g x = true
    · rw [if_pos hg] at h
      rcases List.mem_cons.mp h with h | h
      · subst h; exact ⟨Nat.le_refl _, x, by simp, hg⟩
      · exact tail h
    · rw [if_neg hg] at h; exact tail h

theorem mem_idxs {α} (g : α → Bool) (l : List α) (k : Nat) (h : k ∈ idxsFrom g 0 l) :
    ∃ x, l[k]? = some x ∧ g x = true := by
  obtain ⟨_, x, h1, h2⟩ := mem_idxsFrom g l 0 k h
  exact ⟨x, by simpa using h1, h2⟩

theorem lt_of_getElem? {α} {l : List α} {k : Nat} {x : α} (h : l[k]? = some x) : k < l.length := by
  cases hk : decide (k < l.length) with
  | true => simpa using hk
  | false =>
    have : l.length ≤ k := by simpa using hk
    rw [List.getElem?_eq_none this] at h; cases h

/-! #### `lowerAt` and `setNan` on concatenations -/

theorem lowerAt_of_get {toks : List Tok} {i : Nat} {t : Tok} (h : toks[i]? = some t) :
    lowerAt toks i = t.lower := by
  unfold lowerAt; rw [List.getD_eq_getElem?_getD, h]; rfl

theorem lowerAt_append_left (X Y : List Tok) (i : Nat) (h : i < X.length) :
    lowerAt (X ++ Y) i = lowerAt X i := by
  unfold lowerAt; rw [List.getD_eq_getElem?_getD, List.getD_eq_getElem?_getD, List.getElem?_append_left h]

theorem lowerAt_append_right (X Y : List Tok) (i : Nat) :
    lowerAt (X ++ Y) (i + X.length) = lowerAt Y i := by
  unfold lowerAt
  rw [List.getD_eq_getElem?_getD, List.getD_eq_getElem?_getD, List.getElem?_append_right (by omega)]
  simp

theorem lowerAt_mid (P M Q : List Tok) (i : Nat) (h : i < M.length) :
    lowerAt (P ++ M ++ Q) (i + P.length) = lowerAt M i := by
  rw [List.append_assoc, lowerAt_append_right, lowerAt_append_left _ _ _ h]

theorem lowerAt_setNan (toks : List Tok) (k i : Nat) : lowerAt (setNan toks k) i = lowerAt toks i := by
  unfold lowerAt setNan
  simp only [List.getD_eq_getElem?_getD, List.getElem?_modify]
  by_cases h : k = i
  · subst h
    cases toks[k]? <;> simp
  · simp [h]

theorem length_setNan (toks : List Tok) (k : Nat) : (setNan toks k).length = toks.length := by
  unfold setNan; rw [List.length_modify]

theorem setNan_append_left (M Q : List Tok) : ∀ i, i < M.length → setNan (M ++ Q) i = setNan M i ++ Q := by
  induction M with
  | nil => intro i h; cases h
  | cons m ms ih =>
    intro i h
    cases i with
    | zero => rfl
    | succ i =>
      have h' : i < ms.length := by simpa using h
      have := ih i h'
      unfold setNan at this ⊢
      rw [List.cons_append, List.modify_succ_cons, List.modify_succ_cons, this]; rfl

theorem setNan_append_right (P M : List Tok) (i : Nat) : setNan (P ++ M) (i + P.length) = P ++ setNan M i := by
  induction P with
  | nil => rfl
  | cons p ps ih =>
    unfold setNan at ih ⊢
    rw [List.cons_append, List.length_cons, ← Nat.add_assoc, List.modify_succ_cons, ih]; rfl

theorem setNan_mid (P M Q : List Tok) (i : Nat) (h : i < M.length) :
    setNan (P ++ M ++ Q) (i + P.length) = P ++ setNan M i ++ Q := by
  rw [List.append_assoc, setNan_append_right, setNan_append_left M Q i h, List.append_assoc]

/-! #### the English pass (`o`) -/

/-- a failing probe on the fresh scratch builder leaves it fresh (`Lang.ErrFresh` for the interpreter) -/
def ProbeFresh (apply : Word → DS → Res × DS) : Prop :=
  ∀ w e, (apply w DS.new).1 = some e → (apply w DS.new).2 = DS.new

/-- the word is accepted on a fresh builder -/
def acc (apply : Word → DS → Res × DS) (w : Word) : Bool := (apply w DS.new).1.isNone

/-- the decision for the `o` at significant position `j`, as a function of the neighbouring words -/
def enDec (apply : Word → DS → Res × DS) (sig : List Nat) (j : Nat) (toks : List Tok) : Bool :=
  (decide (j > 0) && acc apply (lowerAt toks (sig.getD (j - 1) 0))) ||
  (decide (j + 1 < sig.length) && acc apply (lowerAt toks (sig.getD (j + 1) 0)))

theorem probe_fresh (apply : Word → DS → Res × DS) (hf : ProbeFresh apply) (w : Word) :
    probe apply w DS.new = (acc apply w, if acc apply w then (apply w DS.new).2 else DS.new) := by
  unfold probe acc
  cases hr : (apply w DS.new).1 with
  | none => simp [hr]
  | some e => simp [hr, hf w e hr]

theorem enDecide_eq (apply : Word → DS → Res × DS) (hf : ProbeFresh apply) (sig : List Nat) (j : Nat)
    (toks : List Tok) :
    (enDecide apply sig j toks DS.new).1 = enDec apply sig j toks ∧
    ((enDecide apply sig j toks DS.new).1 = false → (enDecide apply sig j toks DS.new).2 = DS.new) := by
  unfold enDecide enDec
  generalize lowerAt toks (sig.getD (j - 1) 0) = wp
  generalize lowerAt toks (sig.getD (j + 1) 0) = wn
  by_cases hj : j > 0
  · rw [if_pos hj, probe_fresh apply hf]
    cases hp : acc apply wp with
    | true => simp [hj]
    | false =>
      simp only [Bool.false_eq_true, if_false, decide_eq_true hj, Bool.and_false, Bool.false_or]
      by_cases hn : j + 1 < sig.length
      · rw [if_pos hn, probe_fresh apply hf]
        cases hq : acc apply wn with
        | true => simp [hn]
        | false => simp [hn]
      · rw [if_neg hn]; simp [hn]
  · rw [if_neg hj]
    simp only [Bool.false_eq_true, if_false, decide_eq_false hj, Bool.false_and, Bool.false_or]
    by_cases hn : j + 1 < sig.length
    · rw [if_pos hn, probe_fresh apply hf]
      cases hq : acc apply wn with
      | true => simp [hn]
      | false => simp [hn]
    · rw [if_neg hn]; simp [hn]

/-- one step of the loop, without the scratch builder -/
theorem enLoop_step (apply : Word → DS → Res × DS) (hf : ProbeFresh apply) (sig : List Nat) (i : Nat)
    (rest : List Nat) (j : Nat) (toks : List Tok) :
    annotateEnLoop apply sig (i :: rest) j DS.new toks =
      annotateEnLoop apply sig rest (j + 1) DS.new
        (if (lowerAt toks i == ['o'] && !enDec apply sig j toks) = true then setNan toks i else toks) := by
  conv => lhs; unfold annotateEnLoop
  obtain ⟨h1, h2⟩ := enDecide_eq apply hf sig j toks
  by_cases ho : (lowerAt toks i == ['o']) = true
  · rw [if_pos ho]
    dsimp only
    cases hd : enDec apply sig j toks with
    | true =>
      rw [hd] at h1
      rw [if_pos h1, if_neg (by simp [ho])]
    | false =>
      rw [hd] at h1
      rw [if_neg (by rw [h1]; simp), h2 h1, if_pos (by simp [ho])]
  · rw [if_neg ho, if_neg (by simp [ho])]

theorem enDec_setNan (apply : Word → DS → Res × DS) (sig : List Nat) (j : Nat) (toks : List Tok) (k : Nat) :
    enDec apply sig j (setNan toks k) = enDec apply sig j toks := by
  unfold enDec; simp only [lowerAt_setNan]

theorem enLoop_length (apply : Word → DS → Res × DS) (sig : List Nat) :
    ∀ (rest : List Nat) (j : Nat) (b : DS) (toks : List Tok),
      (annotateEnLoop apply sig rest j b toks).length = toks.length := by
  intro rest
  induction rest with
  | nil => intro j b toks; rfl
  | cons i rest ih =>
    intro j b toks
    unfold annotateEnLoop
    split
    · dsimp only
      split
      · exact ih _ _ _
      · rw [ih, length_setNan]
    · exact ih _ _ _

theorem enLoop_append (apply : Word → DS → Res × DS) (hf : ProbeFresh apply) (sig : List Nat) (r2 : List Nat) :
    ∀ (r1 : List Nat) (j : Nat) (toks : List Tok),
      annotateEnLoop apply sig (r1 ++ r2) j DS.new toks =
        annotateEnLoop apply sig r2 (j + r1.length) DS.new (annotateEnLoop apply sig r1 j DS.new toks) := by
  intro r1
  induction r1 with
  | nil => intro j toks; rfl
  | cons i r1 ih =>
    intro j toks
    rw [List.cons_append, enLoop_step apply hf, enLoop_step apply hf, ih]
    have : j + 1 + r1.length = j + (i :: r1).length := by simp only [List.length_cons]; omega
    rw [this]

/-- positions that do not carry an `o` are not touched -/
theorem enLoop_no_o (apply : Word → DS → Res × DS) (sig : List Nat) :
    ∀ (rest : List Nat) (j : Nat) (b : DS) (toks : List Tok),
      (∀ i ∈ rest, (lowerAt toks i == ['o']) = false) → annotateEnLoop apply sig rest j b toks = toks := by
  intro rest
  induction rest with
  | nil => intro j b toks _; rfl
  | cons i rest ih =>
    intro j b toks h
    unfold annotateEnLoop
    rw [if_neg (by rw [h i (by simp)]; simp)]
    exact ih _ _ _ (fun k hk => h k (by simp [hk]))

/-- the loop over the tokens `M` embedded in `P ++ M ++ Q` (indices shifted by `P.length`, positions in
the significant list shifted by `d`) marks the same tokens as the loop over `M` alone, provided the
decisions agree -/
theorem enLoop_embed (apply : Word → DS → Res × DS) (hf : ProbeFresh apply) (sigBig sigM : List Nat)
    (P Q : List Tok) (d : Nat) :
    ∀ (rest : List Nat) (j : Nat) (M : List Tok),
      (∀ i ∈ rest, i < M.length) →
      (∀ k, k < rest.length → enDec apply sigBig (j + k + d) (P ++ M ++ Q) = enDec apply sigM (j + k) M) →
      annotateEnLoop apply sigBig (rest.map (· + P.length)) (j + d) DS.new (P ++ M ++ Q) =
        P ++ annotateEnLoop apply sigM rest j DS.new M ++ Q := by
  intro rest
  induction rest with
  | nil => intro j M _ _; rfl
  | cons i rest ih =>
    intro j M hlt hdec
    have hi : i < M.length := hlt i (by simp)
    rw [List.map_cons, enLoop_step apply hf, enLoop_step apply hf, lowerAt_mid P M Q i hi]
    have h0 := hdec 0 (by simp)
    rw [Nat.add_zero] at h0
    rw [h0]
    have hj : j + d + 1 = j + 1 + d := by omega
    rw [hj]
    by_cases hc : (lowerAt M i == ['o'] && !enDec apply sigM j M) = true
    · rw [if_pos hc, if_pos hc, setNan_mid P M Q i hi]
      apply ih (j + 1) (setNan M i)
      · intro k hk; rw [length_setNan]; exact hlt k (by simp [hk])
      · intro k hk
        rw [← setNan_mid P M Q i hi, enDec_setNan, enDec_setNan]
        have := hdec (k + 1) (by simp only [List.length_cons]; omega)
        have e1 : j + (k + 1) + d = j + 1 + k + d := by omega
        have e2 : j + (k + 1) = j + 1 + k := by omega
        rw [e1, e2] at this; exact this
    · rw [if_neg hc, if_neg hc]
      apply ih (j + 1) M
      · intro k hk; exact hlt k (by simp [hk])
      · intro k hk
        have := hdec (k + 1) (by simp only [List.length_cons]; omega)
        have e1 : j + (k + 1) + d = j + 1 + k + d := by omega
        have e2 : j + (k + 1) = j + 1 + k := by omega
        rw [e1, e2] at this; exact this

theorem getD_append_left (l1 l2 : List Nat) (k : Nat) (h : k < l1.length) :
    (l1 ++ l2).getD k 0 = l1.getD k 0 := by
  rw [List.getD_eq_getElem?_getD, List.getD_eq_getElem?_getD, List.getElem?_append_left h]

theorem getD_append_right (l1 l2 : List Nat) (k : Nat) :
    (l1 ++ l2).getD (l1.length + k) 0 = l2.getD k 0 := by
  rw [List.getD_eq_getElem?_getD, List.getD_eq_getElem?_getD, List.getElem?_append_right (by omega)]
  simp

theorem getD_map_add (l : List Nat) (off k : Nat) (h : k < l.length) :
    (l.map (· + off)).getD k 0 = l.getD k 0 + off := by
  rw [List.getD_eq_getElem?_getD, List.getD_eq_getElem?_getD, List.getElem?_map,
    List.getElem?_eq_getElem h]
  rfl

theorem getD_mem (l : List Nat) (k : Nat) (h : k < l.length) : l.getD k 0 ∈ l := by
  rw [List.getD_eq_getElem?_getD, List.getElem?_eq_getElem h]
  exact List.getElem_mem h

/-- decisions in a prefix `s1` of the significant list: only the forward look of the last element leaves
the prefix, and it lands on a word that is not accepted -/
theorem enDec_prefix (apply : Word → DS → Res × DS) (s1 s2 : List Nat) (big M : List Tok) (k : Nat)
    (hk : k < s1.length) (hlow : ∀ i ∈ s1, lowerAt big i = lowerAt M i)
    (hnext : acc apply (lowerAt big (s2.getD 0 0)) = false) :
    enDec apply (s1 ++ s2) k big = enDec apply s1 k M := by
  unfold enDec
  congr 1
  · by_cases hj : k > 0
    · rw [getD_append_left s1 s2 (k - 1) (by omega), hlow _ (getD_mem s1 (k - 1) (by omega))]
    · rw [decide_eq_false hj, Bool.false_and, Bool.false_and]
  · by_cases hn : k + 1 < s1.length
    · have : k + 1 < (s1 ++ s2).length := by rw [List.length_append]; omega
      rw [decide_eq_true this, decide_eq_true hn, getD_append_left s1 s2 (k + 1) hn,
        hlow _ (getD_mem s1 (k + 1) hn)]
    · rw [decide_eq_false hn, Bool.false_and]
      have hk1 : k + 1 = s1.length + 0 := by omega
      rw [hk1, getD_append_right, hnext, Bool.and_false]

/-- decisions in a suffix `s2` (indices shifted by `off`): only the backward look of the first element
leaves the suffix, and it lands on a word that is not accepted -/
theorem enDec_suffix (apply : Word → DS → Res × DS) (s1 s2 : List Nat) (off : Nat) (big M : List Tok) (k : Nat)
    (hk : k < s2.length) (hlow : ∀ i ∈ s2, lowerAt big (i + off) = lowerAt M i)
    (hprev : acc apply (lowerAt big (s1.getD (s1.length - 1) 0)) = false) :
    enDec apply (s1 ++ s2.map (· + off)) (k + s1.length) big = enDec apply s2 k M := by
  unfold enDec
  congr 1
  · by_cases hj : k > 0
    · have e : k + s1.length - 1 = s1.length + (k - 1) := by omega
      have hj' : k + s1.length > 0 := by omega
      rw [decide_eq_true hj, decide_eq_true hj', e, getD_append_right,
        getD_map_add s2 off (k - 1) (by omega), hlow _ (getD_mem s2 (k - 1) (by omega))]
    · rw [decide_eq_false hj, Bool.false_and]
      have hk0 : k = 0 := by omega
      subst hk0
      by_cases h1 : s1.length > 0
      · rw [Nat.zero_add, getD_append_left s1 _ (s1.length - 1) (by omega), hprev, Bool.and_false]
      · have : ¬ (0 + s1.length > 0) := by omega
        rw [decide_eq_false this, Bool.false_and]
  · have e : k + s1.length + 1 = s1.length + (k + 1) := by omega
    rw [e]
    by_cases hn : k + 1 < s2.length
    · have : s1.length + (k + 1) < (s1 ++ s2.map (· + off)).length := by
        rw [List.length_append, List.length_map]; omega
      rw [decide_eq_true this, decide_eq_true hn, getD_append_right, getD_map_add s2 off (k + 1) hn,
        hlow _ (getD_mem s2 (k + 1) hn)]
    · have : ¬ s1.length + (k + 1) < (s1 ++ s2.map (· + off)).length := by
        rw [List.length_append, List.length_map]; omega
      rw [decide_eq_false this, decide_eq_false hn, Bool.false_and, Bool.false_and]

theorem idxsFrom_ne_nil {α} (g : α → Bool) (l : List α) (h : ∃ x ∈ l, g x = true) :
    ∀ n, idxsFrom g n l ≠ [] := by
  induction l with
  | nil => obtain ⟨x, hx, _⟩ := h; cases hx
  | cons y ys ih =>
    intro n
    rw [idxsFrom_cons]
    by_cases hy : g y = true
    · rw [if_pos hy]; exact List.cons_ne_nil _ _
    · rw [if_neg hy]
      obtain ⟨x, hx, hgx⟩ := h
      rcases List.mem_cons.mp hx with rfl | hx
      · exact absurd hgx hy
      · exact ih ⟨x, hx, hgx⟩ (n + 1)

/-- the English loop over `TA ++ TS ++ TB`, index form: `sA`, `sS`, `sB` are the significant indices of the
three parts; `TS` has a significant token, its significant tokens are not accepted as number words and are
not `o` -/
theorem enLoop_local (apply : Word → DS → Res × DS) (hf : ProbeFresh apply) (TA TS TB : List Tok)
    (sA sS sB sig : List Nat)
    (hsig : sig = sA ++ sS.map (· + TA.length) ++ sB.map (· + (TA.length + TS.length)))
    (hA : ∀ i ∈ sA, i < TA.length) (hB : ∀ i ∈ sB, i < TB.length) (hSne : sS ≠ [])
    (hSw : ∀ i ∈ sS, i < TS.length ∧ acc apply (lowerAt TS i) = false ∧ (lowerAt TS i == ['o']) = false) :
    annotateEnLoop apply sig sig 0 DS.new (TA ++ TS ++ TB) =
      annotateEnLoop apply sA sA 0 DS.new TA ++ TS ++ annotateEnLoop apply sB sB 0 DS.new TB := by
  have lenA : (annotateEnLoop apply sA sA 0 DS.new TA).length = TA.length := enLoop_length _ _ _ _ _ _
  have hSpos : 0 < sS.length := List.length_pos_iff.mpr hSne
  -- the words of `S` inside the big list
  have hSbig : ∀ (X : List Tok), X.length = TA.length → ∀ i ∈ sS,
      lowerAt (X ++ TS ++ TB) (i + TA.length) = lowerAt TS i := by
    intro X hX i hi
    rw [← hX]; exact lowerAt_mid X TS TB i (hSw i hi).1
  -- step 1: the `o`s of `A`
  have dec1 : ∀ k, k < sA.length →
      enDec apply sig (0 + k + 0) ([] ++ TA ++ (TS ++ TB)) = enDec apply sA (0 + k) TA := by
    intro k hk
    rw [Nat.zero_add, Nat.add_zero, List.nil_append, hsig, List.append_assoc sA]
    apply enDec_prefix apply sA _ _ TA k hk
    · intro i hi; exact lowerAt_append_left TA _ i (hA i hi)
    · obtain ⟨i0, rest0, hs⟩ := List.exists_cons_of_ne_nil hSne
      have hi0 : i0 ∈ sS := by rw [hs]; simp
      have : (sS.map (· + TA.length) ++ sB.map (· + (TA.length + TS.length))).getD 0 0 = i0 + TA.length := by
        rw [hs]; rfl
      rw [this, ← List.append_assoc, hSbig TA rfl i0 hi0]; exact (hSw i0 hi0).2.1
  have step1 : annotateEnLoop apply sig sA 0 DS.new (TA ++ (TS ++ TB)) =
      annotateEnLoop apply sA sA 0 DS.new TA ++ (TS ++ TB) := by
    have e := enLoop_embed apply hf sig sA [] (TS ++ TB) 0 sA 0 TA hA dec1
    simp only [List.length_nil, Nat.add_zero, List.map_id', List.nil_append] at e
    exact e
  -- step 2: nothing to do in `S`
  have step2 : annotateEnLoop apply sig (sS.map (· + TA.length)) (0 + sA.length) DS.new
      (annotateEnLoop apply sA sA 0 DS.new TA ++ (TS ++ TB)) =
      annotateEnLoop apply sA sA 0 DS.new TA ++ (TS ++ TB) := by
    apply enLoop_no_o
    intro i hi
    obtain ⟨i', hi', rfl⟩ := List.mem_map.mp hi
    rw [← List.append_assoc, hSbig _ lenA i' hi']; exact (hSw i' hi').2.2
  -- step 3: the `o`s of `B`
  have hP : (annotateEnLoop apply sA sA 0 DS.new TA ++ TS).length = TA.length + TS.length := by
    rw [List.length_append, lenA]
  have dec3 : ∀ k, k < sB.length →
      enDec apply sig (0 + k + (sA ++ sS.map (· + TA.length)).length)
        (annotateEnLoop apply sA sA 0 DS.new TA ++ TS ++ TB ++ []) = enDec apply sB (0 + k) TB := by
    intro k hk
    rw [Nat.zero_add, hsig]
    apply enDec_suffix apply (sA ++ sS.map (· + TA.length)) sB (TA.length + TS.length) _ TB k hk
    · intro i hi
      rw [← hP]; exact lowerAt_mid _ TB [] i (hB i hi)
    · have hlen : (sA ++ sS.map (· + TA.length)).length - 1 = sA.length + (sS.length - 1) := by
        rw [List.length_append, List.length_map]; omega
      have hm : sS.getD (sS.length - 1) 0 ∈ sS := getD_mem sS _ (by omega)
      rw [hlen, getD_append_right, getD_map_add sS TA.length (sS.length - 1) (by omega), List.append_nil,
        hSbig _ lenA _ hm]
      exact (hSw _ hm).2.1
  have step3 : annotateEnLoop apply sig (sB.map (· + (TA.length + TS.length)))
      (0 + (sA ++ sS.map (· + TA.length)).length) DS.new
      (annotateEnLoop apply sA sA 0 DS.new TA ++ (TS ++ TB)) =
      annotateEnLoop apply sA sA 0 DS.new TA ++ TS ++ annotateEnLoop apply sB sB 0 DS.new TB := by
    have e := enLoop_embed apply hf sig sB (annotateEnLoop apply sA sA 0 DS.new TA ++ TS) []
      (sA ++ sS.map (· + TA.length)).length sB 0 TB hB dec3
    rw [hP, List.append_nil, List.append_nil] at e
    rw [← List.append_assoc]; exact e
  have e0 : annotateEnLoop apply sig sig 0 DS.new (TA ++ TS ++ TB) =
      annotateEnLoop apply sig (sA ++ sS.map (· + TA.length) ++ sB.map (· + (TA.length + TS.length))) 0 DS.new
        (TA ++ (TS ++ TB)) := by
    rw [← hsig, List.append_assoc]
  rw [e0, enLoop_append apply hf sig _ (sA ++ sS.map (· + TA.length)) 0,
    enLoop_append apply hf sig _ sA 0, step1, step2, step3]

/-- a token is significant for the English pass when it is not all whitespace -/
def isSig (cc : CharClasses) (t : Tok) : Bool := !(t.lower.all cc.isWhitespace)

theorem idxs_facts (g : Tok → Bool) (T : List Tok) (i : Nat) (h : i ∈ idxsFrom g 0 T) :
    i < T.length ∧ ∃ t ∈ T, g t = true ∧ lowerAt T i = t.lower := by
  obtain ⟨t, h1, h2⟩ := mem_idxs g T i h
  exact ⟨lt_of_getElem? h1, t, List.mem_of_getElem? h1, h2, lowerAt_of_get h1⟩

/-- **the English pass is local**: over `TA ++ TS ++ TB`, where `TS` contains at least one significant token
and none of its significant tokens is accepted as a number word on a fresh builder or is `o`, the pass marks
the `o`s of `TA` and of `TB` as if each stream were alone, and leaves `TS` untouched. (The pass looks at the
nearest significant neighbour on each side only.) -/
theorem annotateEn_local (cc : CharClasses) (apply : Word → DS → Res × DS) (hf : ProbeFresh apply)
    (TA TS TB : List Tok) (hsig : ∃ t ∈ TS, isSig cc t = true)
    (hS : ∀ t ∈ TS, isSig cc t = true → acc apply t.lower = false ∧ (t.lower == ['o']) = false) :
    annotateEn cc apply (TA ++ TS ++ TB) = annotateEn cc apply TA ++ TS ++ annotateEn cc apply TB := by
  show annotateEnLoop apply (idxsFrom (isSig cc) 0 (TA ++ TS ++ TB)) (idxsFrom (isSig cc) 0 (TA ++ TS ++ TB)) 0
      DS.new (TA ++ TS ++ TB) =
    annotateEnLoop apply (idxsFrom (isSig cc) 0 TA) (idxsFrom (isSig cc) 0 TA) 0 DS.new TA ++ TS ++
      annotateEnLoop apply (idxsFrom (isSig cc) 0 TB) (idxsFrom (isSig cc) 0 TB) 0 DS.new TB
  apply enLoop_local apply hf TA TS TB _ (idxsFrom (isSig cc) 0 TS) _ _
  · rw [idxs_append, idxs_append, List.length_append]
  · intro i hi; exact (idxs_facts _ _ i hi).1
  · intro i hi; exact (idxs_facts _ _ i hi).1
  · exact idxsFrom_ne_nil _ _ hsig 0
  · intro i hi
    obtain ⟨h1, t, ht, hg, hl⟩ := idxs_facts _ _ i hi
    rw [hl]
    exact ⟨h1, hS t ht hg⟩

/-! #### the French pass (`neuf`) -/

theorem frLoop_scratch (apply : Word → DS → Res × DS) (isDecSep : Word → Bool) (tw : List Nat)
    (amb : List Nat) (b b' : DS) (toks : List Tok) :
    annotateFrLoop apply isDecSep tw amb b toks = annotateFrLoop apply isDecSep tw amb b' toks := by
  induction amb generalizing b b' toks with
  | nil => rfl
  | cons i rest ih =>
    unfold annotateFrLoop
    by_cases hi : i < 2
    · rw [if_pos hi, if_pos hi]; exact ih b b' toks
    · rw [if_neg hi, if_neg hi]

def frWord (tw : List Nat) (toks : List Tok) (k : Nat) : Word := lowerAt toks (tw.getD k 0)

def frDec (apply : Word → DS → Res × DS) (isDecSep : Word → Bool) (tw : List Nat) (i : Nat) (toks : List Tok) : Bool :=
  decide (2 ≤ i) &&
  (frArticles.contains (frWord tw toks (i - 2)) || (decide (i > 2) && frArticles.contains (frWord tw toks (i - 3)))) &&
  (frWord tw toks (i - 1) != w!"numéro" && !isDecSep (frWord tw toks (i - 1))) &&
  (apply (frWord tw toks (i - 1)) DS.new).1.isSome &&
  (apply (if i + 1 < tw.length then frWord tw toks (i + 1) else []) (apply (frWord tw toks (i - 1)) DS.new).2).1.isSome

set_option linter.unusedSimpArgs false in
theorem frLoop_step (apply : Word → DS → Res × DS) (isDecSep : Word → Bool) (tw : List Nat) (i : Nat)
    (rest : List Nat) (b : DS) (toks : List Tok) :
    annotateFrLoop apply isDecSep tw (i :: rest) b toks =
      annotateFrLoop apply isDecSep tw rest DS.new
        (if frDec apply isDecSep tw i toks = true then setNan toks (tw.getD i 0) else toks) := by
  conv => lhs; unfold annotateFrLoop
  unfold frDec frWord
  by_cases hi : i < 2
  · rw [if_pos hi]
    have : ¬ 2 ≤ i := by omega
    rw [decide_eq_false this]
    simp only [Bool.false_and, Bool.false_eq_true, if_false]
    exact frLoop_scratch _ _ _ _ _ _ _
  · rw [if_neg hi]
    have : 2 ≤ i := by omega
    rw [decide_eq_true this]
    dsimp only
    generalize (frArticles.contains (lowerAt toks (tw.getD (i - 2) 0)) ||
      decide (i > 2) && frArticles.contains (lowerAt toks (tw.getD (i - 3) 0))) = c1
    generalize (lowerAt toks (tw.getD (i - 1) 0) != ['n', 'u', 'm', 'é', 'r', 'o'] &&
      !isDecSep (lowerAt toks (tw.getD (i - 1) 0))) = c2
    generalize apply (lowerAt toks (tw.getD (i - 1) 0)) DS.new = r1
    generalize apply (if i + 1 < tw.length then lowerAt toks (tw.getD (i + 1) 0) else []) r1.snd = r2
    cases c1 <;> cases c2 <;> cases h3 : r1.fst.isSome <;> cases h4 : r2.fst.isSome <;>
      simp only [Bool.true_and, Bool.false_and, Bool.and_false, Bool.and_true, Bool.false_eq_true, if_true,
        if_false] <;>
      exact frLoop_scratch _ _ _ _ _ _ _

theorem frDec_setNan (apply : Word → DS → Res × DS) (isDecSep : Word → Bool) (tw : List Nat) (i : Nat)
    (toks : List Tok) (k : Nat) :
    frDec apply isDecSep tw i (setNan toks k) = frDec apply isDecSep tw i toks := by
  unfold frDec frWord; simp only [lowerAt_setNan]

theorem frLoop_length (apply : Word → DS → Res × DS) (isDecSep : Word → Bool) (tw : List Nat) :
    ∀ (rest : List Nat) (b : DS) (toks : List Tok),
      (annotateFrLoop apply isDecSep tw rest b toks).length = toks.length := by
  intro rest
  induction rest with
  | nil => intro b toks; rfl
  | cons i rest ih =>
    intro b toks
    rw [frLoop_step, ih]
    split
    · exact length_setNan _ _
    · rfl

theorem frLoop_append (apply : Word → DS → Res × DS) (isDecSep : Word → Bool) (tw : List Nat) (r2 : List Nat) :
    ∀ (r1 : List Nat) (b : DS) (toks : List Tok),
      annotateFrLoop apply isDecSep tw (r1 ++ r2) b toks =
        annotateFrLoop apply isDecSep tw r2 DS.new (annotateFrLoop apply isDecSep tw r1 b toks) := by
  intro r1
  induction r1 with
  | nil => intro b toks; exact frLoop_scratch _ _ _ _ _ _ _
  | cons i r1 ih =>
    intro b toks
    rw [List.cons_append, frLoop_step, frLoop_step, ih]

theorem frLoop_embed (apply : Word → DS → Res × DS) (isDecSep : Word → Bool) (twBig twM : List Nat)
    (P Q : List Tok) (d : Nat) :
    ∀ (rest : List Nat) (b b' : DS) (M : List Tok),
      (∀ k ∈ rest, twM.getD k 0 < M.length ∧ twBig.getD (k + d) 0 = twM.getD k 0 + P.length) →
      (∀ k ∈ rest, frDec apply isDecSep twBig (k + d) (P ++ M ++ Q) = frDec apply isDecSep twM k M) →
      annotateFrLoop apply isDecSep twBig (rest.map (· + d)) b (P ++ M ++ Q) =
        P ++ annotateFrLoop apply isDecSep twM rest b' M ++ Q := by
  intro rest
  induction rest with
  | nil => intro b b' M _ _; rfl
  | cons k rest ih =>
    intro b b' M hidx hdec
    obtain ⟨hlt, hget⟩ := hidx k (by simp)
    rw [List.map_cons, frLoop_step, frLoop_step, hdec k (by simp), hget]
    by_cases hc : frDec apply isDecSep twM k M = true
    · rw [if_pos hc, if_pos hc, setNan_mid P M Q _ hlt]
      apply ih DS.new DS.new (setNan M (twM.getD k 0))
      · intro k' hk'; rw [length_setNan]; exact hidx k' (by simp [hk'])
      · intro k' hk'
        rw [← setNan_mid P M Q _ hlt, frDec_setNan, frDec_setNan]
        exact hdec k' (by simp [hk'])
    · rw [if_neg hc, if_neg hc]
      apply ih DS.new DS.new M
      · intro k' hk'; exact hidx k' (by simp [hk'])
      · intro k' hk'; exact hdec k' (by simp [hk'])

/-- decisions in a prefix `t1` of the true words: only the forward look of the last element leaves the
prefix; it lands on a word that is refused on every builder, as the empty word is -/
theorem frDec_prefix (apply : Word → DS → Res × DS) (isDecSep : Word → Bool) (t1 t2 : List Nat)
    (big M : List Tok) (k : Nat) (hk : k < t1.length) (hlow : ∀ i ∈ t1, lowerAt big i = lowerAt M i)
    (hnext : ∀ b, (apply (lowerAt big (t2.getD 0 0)) b).1.isSome = true)
    (hnil : ∀ b, (apply [] b).1.isSome = true) :
    frDec apply isDecSep (t1 ++ t2) k big = frDec apply isDecSep t1 k M := by
  have w1 : ∀ m, m ≤ k → lowerAt big ((t1 ++ t2).getD m 0) = lowerAt M (t1.getD m 0) := fun m hm => by
    rw [getD_append_left _ _ m (by omega), hlow _ (getD_mem t1 m (by omega))]
  unfold frDec frWord
  rw [w1 (k - 2) (by omega), w1 (k - 3) (by omega), w1 (k - 1) (by omega)]
  congr 1
  by_cases hn : k + 1 < t1.length
  · have : k + 1 < (t1 ++ t2).length := by rw [List.length_append]; omega
    rw [if_pos this, if_pos hn, getD_append_left _ _ _ hn, hlow _ (getD_mem t1 _ hn)]
  · rw [if_neg hn, hnil]
    by_cases h2 : k + 1 < (t1 ++ t2).length
    · have e : k + 1 = t1.length + 0 := by omega
      rw [if_pos h2, e, getD_append_right, hnext]
    · rw [if_neg h2, hnil]

/-- decisions in a suffix `t2` (indices shifted by `off`) after at least three true words that are not
articles: the backward looks that leave the suffix land on those words -/
theorem frDec_suffix (apply : Word → DS → Res × DS) (isDecSep : Word → Bool) (t1 t2 : List Nat) (off : Nat)
    (big M : List Tok) (k : Nat) (hk : k < t2.length) (hlow : ∀ i ∈ t2, lowerAt big (i + off) = lowerAt M i)
    (h3 : 3 ≤ t1.length)
    (hart : ∀ m, m < 3 → frArticles.contains (lowerAt big (t1.getD (t1.length - 1 - m) 0)) = false) :
    frDec apply isDecSep (t1 ++ t2.map (· + off)) (k + t1.length) big = frDec apply isDecSep t2 k M := by
  have hB1 : ∀ m, m < t1.length →
      lowerAt big ((t1 ++ t2.map (· + off)).getD m 0) = lowerAt big (t1.getD m 0) := fun m hm => by
    rw [getD_append_left _ _ m hm]
  have hB2 : ∀ m, m < t2.length →
      lowerAt big ((t1 ++ t2.map (· + off)).getD (t1.length + m) 0) = lowerAt M (t2.getD m 0) := fun m hm => by
    rw [getD_append_right, getD_map_add t2 off m hm, hlow _ (getD_mem t2 m hm)]
  have hlenBig : (t1 ++ t2.map (· + off)).length = t1.length + t2.length := by
    rw [List.length_append, List.length_map]
  unfold frDec frWord
  rw [hlenBig]
  by_cases hk2 : k < 2
  · have hr : decide (2 ≤ k) = false := decide_eq_false (by omega)
    have a1 : frArticles.contains
        (lowerAt big ((t1 ++ t2.map (· + off)).getD (k + t1.length - 2) 0)) = false := by
      rw [hB1 _ (by omega)]
      have := hart (1 - k) (by omega)
      have e : t1.length - 1 - (1 - k) = k + t1.length - 2 := by omega
      rw [e] at this; exact this
    have a2 : frArticles.contains
        (lowerAt big ((t1 ++ t2.map (· + off)).getD (k + t1.length - 3) 0)) = false := by
      rw [hB1 _ (by omega)]
      have := hart (2 - k) (by omega)
      have e : t1.length - 1 - (2 - k) = k + t1.length - 3 := by omega
      rw [e] at this; exact this
    rw [hr, a1, a2]
    simp only [Bool.and_false, Bool.false_and, Bool.or_false]
  · have e2 : k + t1.length - 2 = t1.length + (k - 2) := by omega
    have e1 : k + t1.length - 1 = t1.length + (k - 1) := by omega
    have e3 : k + t1.length + 1 = t1.length + (k + 1) := by omega
    have d1 : decide (2 ≤ k + t1.length) = true := decide_eq_true (by omega)
    have d2 : decide (2 ≤ k) = true := decide_eq_true (by omega)
    have d3 : decide (k + t1.length > 2) = true := decide_eq_true (by omega)
    rw [e2, e1, hB2 (k - 2) (by omega), hB2 (k - 1) (by omega), d1, d2, d3]
    have hthird : frArticles.contains (lowerAt big ((t1 ++ t2.map (· + off)).getD (k + t1.length - 3) 0)) =
        (decide (k > 2) && frArticles.contains (lowerAt M (t2.getD (k - 3) 0))) := by
      by_cases hk3 : k > 2
      · have e : k + t1.length - 3 = t1.length + (k - 3) := by omega
        rw [decide_eq_true hk3, e, hB2 (k - 3) (by omega), Bool.true_and]
      · have e : k + t1.length - 3 = t1.length - 1 - 0 := by omega
        rw [decide_eq_false hk3, Bool.false_and, e, hB1 _ (by omega)]
        exact hart 0 (by omega)
    rw [Bool.true_and (frArticles.contains (lowerAt big ((t1 ++ t2.map (· + off)).getD (k + t1.length - 3) 0))),
      hthird]
    by_cases hn : k + 1 < t2.length
    · have hn' : k + t1.length + 1 < t1.length + t2.length := by omega
      rw [if_pos hn', if_pos hn, e3, hB2 (k + 1) hn]
    · have hn' : ¬ k + t1.length + 1 < t1.length + t2.length := by omega
      rw [if_neg hn', if_neg hn]

/-- the French loop over `TA ++ TS ++ TB`, index form: `twA`, `twS`, `twB` are the true-word indices of the
three parts, `ambA`, `ambB` the positions of the `neuf`s (none in `TS`); `TS` has at least three true words,
all refused by the interpreter on every builder and none an article -/
theorem frLoop_local (apply : Word → DS → Res × DS) (isDecSep : Word → Bool) (TA TS TB : List Tok)
    (twA twS twB tw ambA ambB amb : List Nat)
    (htw : tw = twA ++ twS.map (· + TA.length) ++ twB.map (· + (TA.length + TS.length)))
    (hamb : amb = ambA ++ ambB.map (· + (twA ++ twS.map (· + TA.length)).length))
    (hA : ∀ i ∈ twA, i < TA.length) (hB : ∀ i ∈ twB, i < TB.length)
    (hambA : ∀ k ∈ ambA, k < twA.length) (hambB : ∀ k ∈ ambB, k < twB.length)
    (hS3 : 3 ≤ twS.length) (hSlt : ∀ i ∈ twS, i < TS.length)
    (hfirst : ∀ b, (apply (lowerAt TS (twS.getD 0 0)) b).1.isSome = true)
    (hart : ∀ m, m < 3 → frArticles.contains (lowerAt TS (twS.getD (twS.length - 1 - m) 0)) = false)
    (hnil : ∀ b, (apply [] b).1.isSome = true) :
    annotateFrLoop apply isDecSep tw amb DS.new (TA ++ TS ++ TB) =
      annotateFrLoop apply isDecSep twA ambA DS.new TA ++ TS ++ annotateFrLoop apply isDecSep twB ambB DS.new TB := by
  have lenA : (annotateFrLoop apply isDecSep twA ambA DS.new TA).length = TA.length := frLoop_length _ _ _ _ _ _
  have hSbig : ∀ (X : List Tok), X.length = TA.length → ∀ i ∈ twS,
      lowerAt (X ++ TS ++ TB) (i + TA.length) = lowerAt TS i := by
    intro X hX i hi
    rw [← hX]; exact lowerAt_mid X TS TB i (hSlt i hi)
  -- step 1: the `neuf`s of `A`
  have idx1 : ∀ k ∈ ambA, twA.getD k 0 < TA.length ∧ tw.getD (k + 0) 0 = twA.getD k 0 + ([] : List Tok).length := by
    intro k hk
    refine ⟨hA _ (getD_mem twA k (hambA k hk)), ?_⟩
    rw [htw, List.append_assoc, Nat.add_zero, getD_append_left _ _ k (hambA k hk)]; rfl
  have dec1 : ∀ k ∈ ambA, frDec apply isDecSep tw (k + 0) ([] ++ TA ++ (TS ++ TB)) = frDec apply isDecSep twA k TA := by
    intro k hk
    rw [Nat.add_zero, List.nil_append, htw, List.append_assoc twA]
    apply frDec_prefix apply isDecSep twA _ _ TA k (hambA k hk)
    · intro i hi; exact lowerAt_append_left TA _ i (hA i hi)
    · have hne : twS ≠ [] := by intro h; rw [h] at hS3; simp at hS3
      obtain ⟨i0, rest0, hs⟩ := List.exists_cons_of_ne_nil hne
      have hi0 : i0 ∈ twS := by rw [hs]; simp
      have : (twS.map (· + TA.length) ++ twB.map (· + (TA.length + TS.length))).getD 0 0 = i0 + TA.length := by
        rw [hs]; rfl
      have hfirst' := hfirst
      rw [hs] at hfirst'
      rw [this, ← List.append_assoc, hSbig TA rfl i0 hi0]; exact hfirst'
    · exact hnil
  have step1 : annotateFrLoop apply isDecSep tw ambA DS.new (TA ++ (TS ++ TB)) =
      annotateFrLoop apply isDecSep twA ambA DS.new TA ++ (TS ++ TB) := by
    have e := frLoop_embed apply isDecSep tw twA [] (TS ++ TB) 0 ambA DS.new DS.new TA idx1 dec1
    simp only [Nat.add_zero, List.map_id', List.nil_append] at e
    exact e
  -- step 3: the `neuf`s of `B`
  have hP : (annotateFrLoop apply isDecSep twA ambA DS.new TA ++ TS).length = TA.length + TS.length := by
    rw [List.length_append, lenA]
  have idx3 : ∀ k ∈ ambB, twB.getD k 0 < TB.length ∧
      tw.getD (k + (twA ++ twS.map (· + TA.length)).length) 0 =
        twB.getD k 0 + (annotateFrLoop apply isDecSep twA ambA DS.new TA ++ TS).length := by
    intro k hk
    refine ⟨hB _ (getD_mem twB k (hambB k hk)), ?_⟩
    rw [htw, Nat.add_comm k, getD_append_right, getD_map_add twB _ k (hambB k hk), hP]
  have dec3 : ∀ k ∈ ambB,
      frDec apply isDecSep tw (k + (twA ++ twS.map (· + TA.length)).length)
        (annotateFrLoop apply isDecSep twA ambA DS.new TA ++ TS ++ TB ++ []) = frDec apply isDecSep twB k TB := by
    intro k hk
    rw [htw]
    apply frDec_suffix apply isDecSep (twA ++ twS.map (· + TA.length)) twB (TA.length + TS.length) _ TB k
      (hambB k hk)
    · intro i hi
      rw [← hP]; exact lowerAt_mid _ TB [] i (hB i hi)
    · rw [List.length_append, List.length_map]; omega
    · intro m hm
      have hlen : (twA ++ twS.map (· + TA.length)).length - 1 - m = twA.length + (twS.length - 1 - m) := by
        rw [List.length_append, List.length_map]; omega
      have hmem : twS.getD (twS.length - 1 - m) 0 ∈ twS := getD_mem twS _ (by omega)
      rw [hlen, getD_append_right, getD_map_add twS TA.length (twS.length - 1 - m) (by omega), List.append_nil,
        hSbig _ lenA _ hmem]
      exact hart m hm
  have step3 : annotateFrLoop apply isDecSep tw (ambB.map (· + (twA ++ twS.map (· + TA.length)).length)) DS.new
      (annotateFrLoop apply isDecSep twA ambA DS.new TA ++ (TS ++ TB)) =
      annotateFrLoop apply isDecSep twA ambA DS.new TA ++ TS ++ annotateFrLoop apply isDecSep twB ambB DS.new TB := by
    have e := frLoop_embed apply isDecSep tw twB (annotateFrLoop apply isDecSep twA ambA DS.new TA ++ TS) []
      (twA ++ twS.map (· + TA.length)).length ambB DS.new DS.new TB idx3 dec3
    rw [List.append_nil, List.append_nil] at e
    rw [← List.append_assoc]; exact e
  rw [hamb, frLoop_append, List.append_assoc TA, step1, step3]

/-- a token is a "true word" for the French pass when it contains an alphanumeric character -/
def isTrueWord (cc : CharClasses) (t : Tok) : Bool := !(t.lower.all (fun c => !cc.isAlphanumeric c))

theorem annotateFr_eq (cc : CharClasses) (apply : Word → DS → Res × DS) (isDecSep : Word → Bool) (toks : List Tok) :
    annotateFr cc apply isDecSep toks =
      annotateFrLoop apply isDecSep (idxsFrom (isTrueWord cc) 0 toks)
        (idxsFrom (fun i => lowerAt toks i == w!"neuf") 0 (idxsFrom (isTrueWord cc) 0 toks)) DS.new toks := rfl

/-- **the French pass is local** (weakest form): over `TA ++ TS ++ TB`, where `TS` contains at least three true
words, the first of them is refused by the interpreter on every builder, the last three are not articles
(`un`, `le`, `du`, `l'`) and none is `neuf`, the pass marks the `neuf`s of `TA` and of `TB` as if each stream were
alone, and leaves `TS` untouched. (The pass looks three true words back and one forward; the empty word, which
stands for "no next word", must be refused on every builder too.) -/
theorem annotateFr_local_weak (cc : CharClasses) (apply : Word → DS → Res × DS) (isDecSep : Word → Bool)
    (TA TS TB : List Tok) (hnil : ∀ b, (apply [] b).1.isSome = true)
    (hS3 : 3 ≤ (idxsFrom (isTrueWord cc) 0 TS).length)
    (hfirst : ∀ b, (apply (lowerAt TS ((idxsFrom (isTrueWord cc) 0 TS).getD 0 0)) b).1.isSome = true)
    (hart : ∀ m, m < 3 → frArticles.contains (lowerAt TS ((idxsFrom (isTrueWord cc) 0 TS).getD
      ((idxsFrom (isTrueWord cc) 0 TS).length - 1 - m) 0)) = false)
    (hneuf : ∀ t ∈ TS, isTrueWord cc t = true → (t.lower == w!"neuf") = false) :
    annotateFr cc apply isDecSep (TA ++ TS ++ TB) =
      annotateFr cc apply isDecSep TA ++ TS ++ annotateFr cc apply isDecSep TB := by
  rw [annotateFr_eq, annotateFr_eq, annotateFr_eq]
  have htw : idxsFrom (isTrueWord cc) 0 (TA ++ TS ++ TB) =
      idxsFrom (isTrueWord cc) 0 TA ++ (idxsFrom (isTrueWord cc) 0 TS).map (· + TA.length) ++
        (idxsFrom (isTrueWord cc) 0 TB).map (· + (TA.length + TS.length)) := by
    rw [idxs_append, idxs_append, List.length_append]
  apply frLoop_local apply isDecSep TA TS TB _ (idxsFrom (isTrueWord cc) 0 TS) _ _ _ _ _ htw
  · -- the positions of `neuf`
    rw [htw, idxs_append, idxs_append, idxsFrom_map, idxsFrom_map]
    have e1 : idxsFrom (fun i => lowerAt (TA ++ TS ++ TB) i == w!"neuf") 0 (idxsFrom (isTrueWord cc) 0 TA) =
        idxsFrom (fun i => lowerAt TA i == w!"neuf") 0 (idxsFrom (isTrueWord cc) 0 TA) := by
      apply idxsFrom_congr
      intro i hi
      rw [List.append_assoc, lowerAt_append_left TA _ i (idxs_facts _ _ i hi).1]
    have e2 : idxsFrom (fun i => lowerAt (TA ++ TS ++ TB) (i + TA.length) == w!"neuf") 0
        (idxsFrom (isTrueWord cc) 0 TS) = [] := by
      apply idxsFrom_none
      intro i hi
      obtain ⟨h1, t, ht, hg, hl⟩ := idxs_facts _ _ i hi
      rw [lowerAt_mid TA TS TB i h1, hl]
      exact hneuf t ht hg
    have e3 : idxsFrom (fun i => lowerAt (TA ++ TS ++ TB) (i + (TA.length + TS.length)) == w!"neuf") 0
        (idxsFrom (isTrueWord cc) 0 TB) =
        idxsFrom (fun i => lowerAt TB i == w!"neuf") 0 (idxsFrom (isTrueWord cc) 0 TB) := by
      apply idxsFrom_congr
      intro i hi
      have : TA.length + TS.length = (TA ++ TS).length := by rw [List.length_append]
      rw [this, lowerAt_append_right]
    rw [e1, e2, e3, List.map_nil, List.append_nil]
  · intro i hi; exact (idxs_facts _ _ i hi).1
  · intro i hi; exact (idxs_facts _ _ i hi).1
  · intro k hk; exact lt_of_getElem? (mem_idxs _ _ k hk).choose_spec.1
  · intro k hk; exact lt_of_getElem? (mem_idxs _ _ k hk).choose_spec.1
  · exact hS3
  · intro i hi; exact (idxs_facts _ _ i hi).1
  · exact hfirst
  · exact hart
  · exact hnil

/-- **the French pass is local** (token form): at least three true words in `TS`, each true word of `TS` refused
by the interpreter on every builder, none an article, none `neuf` -/
theorem annotateFr_local (cc : CharClasses) (apply : Word → DS → Res × DS) (isDecSep : Word → Bool)
    (TA TS TB : List Tok) (hnil : ∀ b, (apply [] b).1.isSome = true)
    (hS3 : 3 ≤ (idxsFrom (isTrueWord cc) 0 TS).length)
    (hS : ∀ t ∈ TS, isTrueWord cc t = true → (∀ b, (apply t.lower b).1.isSome = true) ∧
      frArticles.contains t.lower = false ∧ (t.lower == w!"neuf") = false) :
    annotateFr cc apply isDecSep (TA ++ TS ++ TB) =
      annotateFr cc apply isDecSep TA ++ TS ++ annotateFr cc apply isDecSep TB := by
  have hw : ∀ k, k < (idxsFrom (isTrueWord cc) 0 TS).length →
      ∃ t ∈ TS, isTrueWord cc t = true ∧ lowerAt TS ((idxsFrom (isTrueWord cc) 0 TS).getD k 0) = t.lower := by
    intro k hk
    obtain ⟨_, t, ht, hg, hl⟩ := idxs_facts _ _ _ (getD_mem _ k hk)
    exact ⟨t, ht, hg, hl⟩
  apply annotateFr_local_weak cc apply isDecSep TA TS TB hnil hS3
  · obtain ⟨t, ht, hg, hl⟩ := hw 0 (by omega)
    rw [hl]; exact (hS t ht hg).1
  · intro m hm
    obtain ⟨t, ht, hg, hl⟩ := hw ((idxsFrom (isTrueWord cc) 0 TS).length - 1 - m) (by omega)
    rw [hl]; exact (hS t ht hg).2.1
  · intro t ht hg; exact (hS t ht hg).2.2

/-! ### C. a suffix of quiet tokens is the same as the end of input -/

/-- the parser refuses the word in every state, with an error other than `Incomplete`, and what it would
report if the number ended now (`finish`, ordinal flag, "holds a number") is unchanged. (The builder itself
may change: the French interpreter clears its blocking flags when it refuses a word.) -/
def RejectsSame (l : Lang) (w : Word) : Prop :=
  ∀ p : Parser, ∃ e, (p.push l w).1 = some e ∧ e ≠ Err.incomplete ∧
    (p.push l w).2.finish l = p.finish l ∧ (p.push l w).2.isOrdinal = p.isOrdinal ∧
    (p.push l w).2.hasNumber = p.hasNumber

theorem RejectsSame.rejects {l : Lang} {w : Word} (h : RejectsSame l w) : l.Rejects w := by
  intro p
  obtain ⟨e, h1, h2, _⟩ := h p
  exact ⟨e, h1, h2⟩

/-- from facts about the interpreter alone: both per-word functions refuse the word with `NaN` and
return the builder unchanged, and the word is not the decimal separator -/
theorem rejectsSame_of_apply (l : Lang) (w : Word) (e : Err) (he : e ≠ Err.incomplete)
    (h1 : ∀ b, l.apply w b = (some e, b)) (h2 : ∀ b, l.applyDecimal w b = (some e, b))
    (h3 : l.isDecSep w = false) : RejectsSame l w := by
  intro p
  have hp : p.push l w = (some e, p) := by
    unfold Parser.push
    rw [h3]
    simp only [Bool.and_false, Bool.false_eq_true, if_false]
    by_cases hd : p.isDec = true
    · rw [if_pos hd]
      refine Prod.ext (show (l.applyDecimal w p.dec).1 = some e from congrArg Prod.fst (h2 p.dec)) ?_
      show ({ p with dec := (l.applyDecimal w p.dec).2 } : Parser) = p
      rw [h2]
    · rw [if_neg hd]
      refine Prod.ext (show (l.apply w p.int).1 = some e from congrArg Prod.fst (h1 p.int)) ?_
      show ({ p with int := (l.apply w p.int).2 } : Parser) = p
      rw [h1]
  rw [hp]
  exact ⟨e, rfl, he, rfl, rfl, rfl⟩

/-- builders that agree on everything but the blocking flags report the same number -/
theorem parser_same (l : Lang) (p p' : Parser) (hi : SameButFlags p.int p'.int) (hd : SameButFlags p.dec p'.dec)
    (hb : p'.isDec = p.isDec) :
    p'.finish l = p.finish l ∧ p'.isOrdinal = p.isOrdinal ∧ p'.hasNumber = p.hasNumber := by
  obtain ⟨i, d, c⟩ := p
  obtain ⟨i', d', c'⟩ := p'
  obtain ⟨r1, z1, f1, g1, m1⟩ := i
  obtain ⟨r2, z2, f2, g2, m2⟩ := i'
  obtain ⟨r3, z3, f3, g3, m3⟩ := d
  obtain ⟨r4, z4, f4, g4, m4⟩ := d'
  obtain ⟨a1, a2, a3, a4⟩ := hi
  obtain ⟨b1, b2, b3, b4⟩ := hd
  dsimp only at a1 a2 a3 a4 b1 b2 b3 b4 hb
  subst a1 a2 a3 a4 b1 b2 b3 b4 hb
  exact ⟨rfl, rfl, rfl⟩

/-- for an interpreter whose refusals leave no trace except in the blocking flags (true of the seven
built-ins: `L.apply_err_same`, `L.applyDecimal_err_same` in T2N/Lemmas/LangFacts.lean), a word refused in
every state is refused without changing what the parser would report -/
theorem rejectsSame_of_rejects (l : Lang)
    (h1 : ∀ w b e, (l.apply w b).1 = some e → SameButFlags b (l.apply w b).2)
    (h2 : ∀ w b e, (l.applyDecimal w b).1 = some e → SameButFlags b (l.applyDecimal w b).2)
    (w : Word) (hr : l.Rejects w) : RejectsSame l w := by
  intro p
  obtain ⟨e, he, hne⟩ := hr p
  refine ⟨e, he, hne, ?_⟩
  unfold Parser.push at he ⊢
  by_cases hd : p.isDec = true
  · simp only [hd, if_true, Bool.not_true, Bool.and_false, Bool.false_and, Bool.false_eq_true, if_false] at he ⊢
    exact parser_same l p _ (SameButFlags.refl _) (h2 w p.dec e he) hd.symm
  · have hd' : p.isDec = false := by simpa using hd
    simp only [hd', Bool.false_eq_true, if_false] at he ⊢
    cases hs : (l.apply w p.int).1 with
    | none => simp [hs] at he
    | some e' =>
      have hsame := h1 w p.int e' hs
      by_cases hc : (true && !false && !(l.apply w p.int).2.isEmpty && (l.apply w p.int).2.marker.isNone &&
          l.isDecSep w) = true
      · simp only [hs, Option.isSome_some, Bool.not_false, Bool.true_and] at hc he ⊢
        rw [if_pos hc] at he
        exact absurd (Option.some.inj he).symm hne
      · simp only [hs, Option.isSome_some, Bool.not_false, Bool.true_and] at hc he ⊢
        rw [if_neg hc]
        exact parser_same l p _ hsame (SameButFlags.refl _) (by first | rfl | exact hd'.symm)

/-- a token that does not influence what is reported for the tokens before it: skipped, or hinted as "not part
of a number", or refused (`RejectsSame`; if the token may declare itself separated from its predecessor, the
forced stop `","` tried first must be refused in the same way) -/
def Quiet (cfg : ScanCfg) (tok : Tok) : Prop :=
  Scanner.isSkipped cfg tok = true ∨ tok.nan = true ∨
    (RejectsSame cfg.lang tok.lower ∧ ((∀ prev, cfg.sep tok prev = false) ∨ RejectsSame cfg.lang [',']))

/-- a quiet token that is not skipped and breaks a sequence is a hard breaker -/
theorem hardBreaker_of_quiet (cfg : ScanCfg) (tok : Tok) (hq : Quiet cfg tok)
    (hs : Scanner.isSkipped cfg tok = false) (hb : breaks cfg tok = true) : HardBreaker cfg tok := by
  refine ⟨hs, hb, ?_⟩
  rcases hq with h | h | ⟨h1, h2⟩
  · rw [hs] at h; cases h
  · exact Or.inl h
  · refine Or.inr ⟨h1.rejects, ?_⟩
    rcases h2 with h2 | h2
    · exact Or.inl h2
    · exact Or.inr h2.rejects

/-- what `find_numbers` would return if the input ended in this state -/
def finQ (cfg : ScanCfg) (σ : Scanner) : Except Fault (List Occ) :=
  match σ.finalize cfg with
  | .error f => .error f
  | .ok s => .ok s.tracker.queue

theorem findNumbers_eq_finQ (cfg : ScanCfg) (toks : List Tok) :
    findNumbers cfg toks =
      match Scanner.pushAll cfg {} (enumFrom 0 toks) with
      | .error f => .error f
      | .ok s => finQ cfg s := by
  unfold findNumbers finQ; rfl

theorem finQ_idle (cfg : ScanCfg) (σ : Scanner) (h : σ.parser.hasNumber = false) :
    finQ cfg σ = .ok σ.tracker.queue := by
  unfold finQ Scanner.finalize; rw [h]; rfl

theorem finQ_number (cfg : ScanCfg) (σ s1 : Scanner) (h : σ.parser.hasNumber = true)
    (h1 : σ.numberEnd cfg = .ok s1) : finQ cfg σ = .ok s1.tracker.queue := by
  unfold finQ Scanner.finalize; rw [if_pos h, h1]

theorem outside_queue (cfg : ScanCfg) (σ : Scanner) (tok : Tok) :
    (σ.outside cfg tok).tracker.queue = σ.tracker.queue := by
  rw [outside_eq]; split <;> rfl

theorem numberEnd_setParser (cfg : ScanCfg) (σ : Scanner) (p' : Parser)
    (h1 : p'.finish cfg.lang = σ.parser.finish cfg.lang) (h2 : p'.isOrdinal = σ.parser.isOrdinal) :
    Scanner.numberEnd cfg { σ with parser := p' } = σ.numberEnd cfg := by
  unfold Scanner.numberEnd
  dsimp only
  rw [h1, h2]

theorem finQ_setParser (cfg : ScanCfg) (σ : Scanner) (p' : Parser)
    (h1 : p'.finish cfg.lang = σ.parser.finish cfg.lang) (h2 : p'.isOrdinal = σ.parser.isOrdinal)
    (h3 : p'.hasNumber = σ.parser.hasNumber) :
    finQ cfg { σ with parser := p' } = finQ cfg σ := by
  unfold finQ Scanner.finalize
  dsimp only
  rw [h3]
  by_cases hn : σ.parser.hasNumber = true
  · rw [if_pos hn, if_pos hn, numberEnd_setParser cfg σ p' h1 h2]
  · rw [if_neg hn, if_neg hn]

theorem pushNan_quiet (cfg : ScanCfg) (σ : Scanner) (pos : Nat) (tok : Tok) (h : ScInv σ pos) :
    ∃ σ', Scanner.pushNan cfg σ tok = .ok σ' ∧ ScInv σ' (pos + 1) ∧ finQ cfg σ' = finQ cfg σ := by
  obtain ⟨σ', e1, i1⟩ := pushNan_ok cfg σ pos tok h
  refine ⟨σ', e1, i1, ?_⟩
  unfold Scanner.pushNan at e1
  by_cases hn : σ.parser.hasNumber = true
  · rw [if_pos hn] at e1
    cases hne : σ.numberEnd cfg with
    | error f => rw [hne] at e1; cases e1
    | ok s1 =>
      rw [hne] at e1; cases e1
      rw [finQ_number cfg σ s1 hn hne, finQ_idle]
      · exact congrArg Except.ok (outside_queue cfg s1 tok)
      · show (Scanner.outside cfg s1 tok).parser.hasNumber = false
        rw [outside_parser, numberEnd_parser cfg σ s1 hne]; rfl
  · rw [if_neg hn] at e1; cases e1
    have hn' : σ.parser.hasNumber = false := by simpa using hn
    rw [finQ_idle cfg σ hn', finQ_idle]
    · exact congrArg Except.ok (outside_queue cfg σ tok)
    · show (Scanner.outside cfg σ tok).parser.hasNumber = false
      rw [outside_parser]; exact hn'

theorem pushRejected_quiet (cfg : ScanCfg) (σ : Scanner) (pos : Nat) (tok : Tok) (h : ScInv σ pos)
    (hr : RejectsSame cfg.lang tok.lower) :
    ∃ σ', Scanner.pushRejected cfg σ pos tok = .ok σ' ∧ ScInv σ' (pos + 1) ∧ finQ cfg σ' = finQ cfg σ := by
  obtain ⟨σ', e1, i1⟩ := pushRejected_ok cfg σ pos tok h
  refine ⟨σ', e1, i1, ?_⟩
  unfold Scanner.pushRejected at e1
  by_cases hn : σ.parser.hasNumber = true
  · rw [if_pos hn] at e1
    cases hne : σ.numberEnd cfg with
    | error f => rw [hne] at e1; cases e1
    | ok s1 =>
      rw [hne] at e1
      dsimp only at e1
      obtain ⟨e, he, hne', _, _, hnum⟩ := hr s1.parser
      rw [if_neg (by rw [he]; simp)] at e1
      rw [if_neg (by rw [he]; cases e <;> first | exact absurd rfl hne' | decide)] at e1
      cases e1
      rw [finQ_number cfg σ s1 hn hne, finQ_idle]
      · exact congrArg Except.ok (outside_queue cfg _ tok)
      · show (Scanner.outside cfg _ tok).parser.hasNumber = false
        rw [outside_parser]
        show (s1.parser.push cfg.lang tok.lower).2.hasNumber = false
        rw [hnum, numberEnd_parser cfg σ s1 hne]; rfl
  · rw [if_neg hn] at e1; cases e1
    have hn' : σ.parser.hasNumber = false := by simpa using hn
    rw [finQ_idle cfg σ hn', finQ_idle]
    · exact congrArg Except.ok (outside_queue cfg σ tok)
    · show (Scanner.outside cfg σ tok).parser.hasNumber = false
      rw [outside_parser]; exact hn'

/-- pushing a quiet token does not change what would be reported if the input ended -/
theorem push_quiet (cfg : ScanCfg) (σ : Scanner) (pos : Nat) (tok : Tok) (h : ScInv σ pos)
    (hq : Quiet cfg tok) :
    ∃ σ', σ.push cfg pos tok = .ok σ' ∧ ScInv σ' (pos + 1) ∧ finQ cfg σ' = finQ cfg σ := by
  unfold Scanner.push
  by_cases hs : Scanner.isSkipped cfg tok = true
  · rw [if_pos hs]; exact ⟨σ, rfl, TrInv.mono h (by omega), rfl⟩
  rw [if_neg hs]
  by_cases hnan : tok.nan = true
  · rw [if_pos hnan]; exact pushNan_quiet cfg σ pos tok h
  rw [if_neg hnan]
  rcases hq with hq | hq | ⟨hr, hsep⟩
  · exact absurd hq hs
  · exact absurd hq hnan
  have hw : RejectsSame cfg.lang (Scanner.testWord cfg σ tok) := by
    rcases testWord_cases_reset cfg σ tok with hw | ⟨hw, prev, hprev⟩
    · rw [hw]; exact hr
    · rw [hw]
      rcases hsep with hsep | hsep
      · rw [hsep prev] at hprev; cases hprev
      · exact hsep
  obtain ⟨e, he, hne, f1, f2, f3⟩ := hw σ.parser
  dsimp only
  have hsc : ScInv ({ σ with parser := (σ.parser.push cfg.lang (Scanner.testWord cfg σ tok)).2 } : Scanner) pos := h
  obtain ⟨σ', e2, i2, q2⟩ := pushRejected_quiet cfg _ pos tok hsc hr
  rw [finQ_setParser cfg σ _ f1 f2 f3] at q2
  rw [he]
  cases e with
  | incomplete => exact absurd rfl hne
  | overlap => exact ⟨σ', e2, i2, q2⟩
  | nan => exact ⟨σ', e2, i2, q2⟩
  | frozen => exact ⟨σ', e2, i2, q2⟩

theorem pushAll_quiet (cfg : ScanCfg) (S : List Tok) (hS : ∀ t ∈ S, Quiet cfg t) :
    ∀ (σ : Scanner) (pos : Nat), ScInv σ pos →
      ∃ σ', Scanner.pushAll cfg σ (enumFrom pos S) = .ok σ' ∧ finQ cfg σ' = finQ cfg σ := by
  induction S with
  | nil => intro σ pos _; exact ⟨σ, rfl, rfl⟩
  | cons t ts ih =>
    intro σ pos h
    obtain ⟨s1, e1, i1, q1⟩ := push_quiet cfg σ pos t h (hS t (by simp))
    obtain ⟨s2, e2, q2⟩ := ih (fun u hu => hS u (by simp [hu])) s1 (pos + 1) i1
    refine ⟨s2, ?_, by rw [q2, q1]⟩
    simp only [enumFrom, Scanner.pushAll, e1, e2]

/-- **a quiet suffix is the same as the end of input**: the occurrences found in `A ++ S` are those found in
`A` alone (same spans), at every threshold — in particular a small number held back at the end of `A` is
decided by `A` alone -/
theorem findNumbers_quiet_suffix (cfg : ScanCfg) (A S : List Tok) (hS : ∀ t ∈ S, Quiet cfg t) :
    findNumbers cfg (A ++ S) = findNumbers cfg A := by
  rw [findNumbers_eq_finQ, findNumbers_eq_finQ, enumFrom_append, Scanner.pushAll_append]
  obtain ⟨σA, eA, iA⟩ := pushAll_ok cfg A {} 0 TrInv.init
  rw [eA]
  obtain ⟨σ', e1, q1⟩ := pushAll_quiet cfg S hS σA (0 + A.length) iA
  dsimp only
  rw [e1]
  exact q1

end T2N.ResetText
