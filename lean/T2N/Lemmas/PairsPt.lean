/-
  T2N.Lemmas.PairsPt — property C08, first half, for Portuguese: two complete numbers below 100 spoken one after the
  other, optionally with the conjunction `e` between them.

  * `fused a b cj`: the only case in which the words of `a` (+ `e`) + the words of `b` are read as ONE number:
    a whole number of tens `vinte … noventa`, the conjunction, a unit `um … nove`  ↦  `a + b`
    (`trinta e dois` is the standard spelling of 32 — `fused_is_spelling`).
  * `expected a b cj`: that single number; otherwise, for a spoken `zero` directly followed by `b` (no conjunction), the
    zero attaches to `b` as a leading zero (`zero doze` ↦ `012`, `zero zero` ↦ `00`; the dictation half of C08);
    otherwise the two numbers `a`, `b` in order.
  * `C08_pairs_pt`: the scanner (threshold 0) on `std a ++ joiner ++ std b` reports exactly `expected a b cj`, for ALL
    `a b < 100` and both joiners. No 100 × 100 table: the state after `std a` is known from the C01 development
    (`below100_steps`: digits `lsb a`, flags 0); the first word of `std b` (a unit, a teen or a tens word) is refused there —
    without conjunction because `smaller_blocked` holds (`NaN`), after `e` (flag CONJUNCTION) because the `put` overlaps or
    `peek(2) == "10"` (`Overlap` / `NaN`), `zero` always with `Overlap` —, which ends the first number; `b` is then scanned
    afresh (`Scan.two_numbers`).
-/
import T2N.Lemmas.PairsPt.Scan
import T2N.Lemmas.SpecCheck

set_option maxRecDepth 100000

namespace T2N.PairsPt
open T2N T2N.DS T2N.Spec T2N.C01En T2N.C01Pt

/-! ## the statement -/

/-- the standard spelling variant (`= tableVar 0`) -/
def v0 : Var := fun _ => 0

theorem v0_eq : v0 = tableVar 0 := rfl

/-- the standard spelling of `n` -/
def std (n : Nat) : List Word := Spec.Pt.cardinal v0 n

/-- nothing, or the conjunction `e` -/
def joiner (cj : Bool) : List Word := if cj then [Spec.Pt.conj] else []

/-- the pairs that are one number: `vinte … noventa` + `e` + `um … nove` -/
def fused (a b : Nat) (cj : Bool) : Option Nat :=
  if cj = true ∧ 20 ≤ a ∧ a ≤ 90 ∧ a % 10 = 0 ∧ 1 ≤ b ∧ b ≤ 9 then some (a + b) else none

/-- the texts the scanner must report for `std a ++ joiner cj ++ std b` -/
def expected (a b : Nat) (cj : Bool) : List Word :=
  match fused a b cj with
  | some c => [decChars c]
  | none => if a = 0 ∧ cj = false then ['0' :: decChars b] else [decChars a, decChars b]

/-! ## the spelling -/

theorem std_tbl : checkRange (fun n => std n == Spec.Pt.below100 v0 0 false n) 1 99 = true := by decide +kernel

theorem std_pos (n : Nat) (h0 : n ≠ 0) (h : n < 100) : std n = Spec.Pt.below100 v0 0 false n := by
  have := checkRange_spec _ 99 1 std_tbl n (by omega) (by omega)
  exact eq_of_beq this

theorem std_zero : std 0 = [Spec.Pt.zeroWord] := rfl

theorem fuse_tbl : checkRange (fun t => checkRange (fun b =>
    std (10 * t) ++ [Spec.Pt.conj] ++ std b == std (10 * t + b)) 1 9) 2 8 = true := by decide +kernel

theorem fuse_eq (t b : Nat) (h2 : 2 ≤ t) (h9 : t ≤ 9) (hb1 : 1 ≤ b) (hb9 : b ≤ 9) :
    std (10 * t) ++ [Spec.Pt.conj] ++ std b = std (10 * t + b) := by
  have h1 := checkRange_spec _ 8 2 fuse_tbl t h2 (by omega)
  have h2 := checkRange_spec _ 9 1 h1 b hb1 (by omega)
  exact eq_of_beq h2

/-- normalised words: hyphens opened, conjunction dropped -/
def norm (ws : List Word) : List Word := (ws.flatMap (splitOnChar '-')).filter (· != Spec.Pt.conj)

theorem norm_append (x y : List Word) : norm (x ++ y) = norm x ++ norm y := by
  unfold norm; rw [List.flatMap_append, List.filter_append]

theorem norm_conj : norm [Spec.Pt.conj] = [] := by decide

/-- **`fused` is justified by the speller**: the fused number, in the standard variant, is spelled with exactly the
words of `a` and of `b` (conjunction aside) -/
theorem fused_is_spelling (a b : Nat) (cj : Bool) (c : Nat) (h : fused a b cj = some c) :
    ∃ k, k < 48 ∧ norm (Spec.Pt.cardinal (tableVar k) c) = norm (std a ++ std b) := by
  unfold fused at h
  split at h
  · rename_i hc
    obtain ⟨_, h20, h90, h10, hb1, hb9⟩ := hc
    have hc' : a + b = c := by simpa using h
    subst hc'
    obtain ⟨t, rfl⟩ : ∃ t, a = 10 * t := ⟨a / 10, by omega⟩
    refine ⟨0, by decide, ?_⟩
    show norm (std (10 * t + b)) = _
    rw [← fuse_eq t b (by omega) (by omega) hb1 hb9, norm_append, norm_append, norm_conj, List.append_nil,
      norm_append]
  · exact absurd h (by simp)

example : fused 30 2 true = some 32 := by decide
example : fused 20 12 true = none := by decide
example : fused 30 2 false = none := by decide

/-! ## the interpreter: the state after `std a` -/

theorem decChars0 : decChars 0 = ['0'] := by
  unfold decChars; rw [decDigits, if_pos (by decide)]; decide

/-- the builder after the words of `a`: one leading zero for `zero`, else the digits of `a`, flags clear -/
def stA (a : Nat) : DS := if a = 0 then EnExt.setLz 1 DS.new else mkP (lsb a) 0

theorem stA_pos (a : Nat) (h0 : a ≠ 0) : stA a = mkP (lsb a) 0 := by unfold stA; rw [if_neg h0]

theorem run_std (a : Nat) (h : a < 100) : execGroupFrom Pt.apply (std a) DS.new false = .ok (stA a) := by
  by_cases h0 : a = 0
  · subst h0; rfl
  · rw [stA_pos a h0]
    have hs := (below100_steps v0 0 false a 0 0 h0 h (by decide) (Or.inr ⟨rfl, by decide⟩)).1 []
    rw [List.append_nil, lsb_zero, Nat.zero_add, ← std_pos a h0 h] at hs
    show execGroupFrom Pt.apply (std a) (mkP [] 0) false = _
    rw [hs, execGroupFrom, if_neg Bool.false_ne_true]

theorem fmt_stA (a : Nat) : (stA a).isEmpty = false ∧ ∃ v, Pt.lang.formatW (stA a) = .ok (decChars a, v) := by
  by_cases h0 : a = 0
  · subst h0; rw [decChars0]; exact ⟨rfl, _, rfl⟩
  · rw [stA_pos a h0]
    obtain ⟨h1, h2⟩ := ExtPt.format_lz 0 a 0 h0
    exact ⟨h1, _, h2⟩

theorem lsb_two (a : Nat) (h10 : 10 ≤ a) (h : a < 100) : lsb a = [a % 10, a / 10] := by
  have := lsb_cons (a % 10) (a / 10) (by omega) (Or.inr (by omega))
  rw [show a % 10 + 10 * (a / 10) = a by omega] at this
  rw [this, lsb_digit (a / 10) (by omega) (by omega)]

/-- a successful run from the fresh builder starts with an accepted word -/
theorem run_head (w : Word) (tl : List Word) (r : DS) (h : execGroupFrom Pt.apply (w :: tl) DS.new false = .ok r) :
    ∃ b2, Pt.apply w {} = (none, b2) ∧ execGroupFrom Pt.apply tl b2 false = .ok r := by
  rw [execGroupFrom] at h
  rcases hx : Pt.apply w DS.new with ⟨st, b1⟩
  rw [hx] at h
  cases st with
  | none => exact ⟨b1, hx, h⟩
  | some e =>
    cases e with
    | incomplete =>
      have := ExtPt.apply_inc_nonempty w DS.new (by rw [hx])
      exact absurd this (by decide)
    | overlap => exact absurd h (by simp)
    | nan => exact absurd h (by simp)
    | frozen => exact absurd h (by simp)

/-! ## refused words -/

/-- a cardinal word whose instruction fails (not `Incomplete`) leaves the digits and clears the flags -/
theorem apply_err {w : Word} {a : Act} {r : List Nat} {fl nx : Nat} {e : Err} (h : PlainP w a)
    (he : a.exec (mkP r fl) = (some e, mkP r fl, nx)) (hne : e ≠ .incomplete) :
    Pt.apply w (mkP r fl) = (some e, mkP r 0) := by
  unfold Pt.apply
  dsimp only
  rw [h.1]
  have hm : (!(mkP r fl).isEmpty && Marker.none != (mkP r fl).marker) = false := by
    show (!(mkP r fl).isEmpty && Marker.none != Marker.none) = false
    simp
  have e1 : Marker.none.isNone = true := rfl
  rw [hm, if_neg Bool.false_ne_true, e1, h.2, Option.getD_some, he]
  cases e with
  | incomplete => exact absurd rfl hne
  | overlap => rfl
  | nan => rfl
  | frozen => rfl

/-- the first word of the spelling of `1 ≤ b < 100`: a unit, or a two-digit word (teen, tens) -/
theorem first_word (b : Nat) (h0 : b ≠ 0) (h : b < 100) :
    ∃ w tl, std b = w :: tl ∧
      ((b < 10 ∧ PlainP w (Pt.unit true b)) ∨ (10 ≤ b ∧ ∃ x y, x ≠ 0 ∧ PlainP w (Pt.small true [x, y]))) := by
  rw [std_pos b h0 h]
  unfold Spec.Pt.below100
  by_cases h20 : b < 20
  · rw [if_pos h20]
    by_cases h10 : b < 10
    · exact ⟨_, [], rfl, Or.inl ⟨h10, plain_unit v0 0 false b h0 h10⟩⟩
    · obtain ⟨c, rfl⟩ : ∃ c, b = 10 + c := ⟨b - 10, by omega⟩
      exact ⟨_, [], rfl, Or.inr ⟨by omega, 1, c, by decide, plain_teen v0 0 false c (by omega)⟩⟩
  · rw [if_neg h20]
    dsimp only
    by_cases hu : b % 10 = 0
    · rw [if_pos (by simp [hu])]
      exact ⟨_, [], rfl, Or.inr ⟨by omega, b / 10, 0, by omega, plain_tens (b / 10) (by omega) (by omega)⟩⟩
    · rw [if_neg (by simp [hu])]
      exact ⟨_, _, rfl, Or.inr ⟨by omega, b / 10, 0, by omega, plain_tens (b / 10) (by omega) (by omega)⟩⟩

/-! ### without conjunction: `smaller_blocked` -/

theorem free4_false (a : Nat) (h0 : a ≠ 0) (h : a < 100) : (mkP (lsb a) 0).isFree 4 = false := by
  by_cases h10 : a < 10
  · rw [lsb_digit a h10 h0]; simp [DS.isFree, DS.isEmpty, mkP, allZero, h0]
  · rw [lsb_two a (by omega) h]; simp [DS.isFree, DS.isEmpty, mkP, allZero]; omega

theorem blocked0 (a : Nat) (h0 : a ≠ 0) (h : a < 100) : (Pt.smallerBlocked true).eval (mkP (lsb a) 0) = true := by
  show (hasBits 0 2 || (!(hasBits 0 1) && !((mkP (lsb a) 0).isFree 4))) = true
  rw [hb02, hb01, free4_false a h0 h]; rfl

theorem unit_nan0 (a d : Nat) (h0 : a ≠ 0) (h : a < 100) :
    (Pt.unit true d).exec (mkP (lsb a) 0) = (some .nan, mkP (lsb a) 0, 0) := by
  simp only [Pt.unit, Act.when, Act.exec]
  have hg : (Guard.and (.neg (.peekEq 2 [1, 0])) (.neg (Pt.smallerBlocked true))).eval (mkP (lsb a) 0) = false := by
    show (((Guard.neg (.peekEq 2 [1, 0])).eval (mkP (lsb a) 0)) && !((Pt.smallerBlocked true).eval (mkP (lsb a) 0))) = false
    rw [blocked0 a h0 h]; simp
  rw [if_neg (by rw [hg]; exact Bool.false_ne_true)]

theorem small_nan0 (a : Nat) (ds : List Nat) (h0 : a ≠ 0) (h : a < 100) :
    (Pt.small true ds).exec (mkP (lsb a) 0) = (some .nan, mkP (lsb a) 0, 0) := by
  simp only [Pt.small, Act.when, Act.exec]
  have hg : (Guard.neg (Pt.smallerBlocked true)).eval (mkP (lsb a) 0) = false := by
    show (!((Pt.smallerBlocked true).eval (mkP (lsb a) 0))) = false
    rw [blocked0 a h0 h]; rfl
  rw [if_neg (by rw [hg]; exact Bool.false_ne_true)]

/-- **no conjunction**: after a number `1 ≤ a < 100` the first word of any `b < 100` is refused -/
theorem rej_plain (a b : Nat) (h0 : a ≠ 0) (ha : a < 100) (hb : b < 100) :
    ∃ w tl err, std b = w :: tl ∧ err ≠ .incomplete ∧ Pt.apply w (stA a) = (some err, stA a) := by
  rw [stA_pos a h0]
  by_cases hb0 : b = 0
  · subst hb0
    exact ⟨_, [], .overlap, std_zero, by decide, ExtPt.apply_zero_after 0 a 0 h0⟩
  · obtain ⟨w, tl, hs, hk⟩ := first_word b hb0 hb
    refine ⟨w, tl, .nan, hs, by decide, ?_⟩
    rcases hk with ⟨_, hp⟩ | ⟨_, x, y, _, hp⟩
    · exact apply_err hp (unit_nan0 a b h0 ha) (by decide)
    · exact apply_err hp (small_nan0 a [x, y] h0 ha) (by decide)

/-! ### after the conjunction (flag CONJUNCTION): overlap, or `peek(2) == "10"` -/

theorem unblocked1 (r : List Nat) : (Pt.smallerBlocked true).eval (mkP r 1) = false := by
  show (hasBits 1 2 || (!(hasBits 1 1) && !((mkP r 1).isFree 4))) = false
  rw [hb12, hb11]; rfl

theorem small_ovl1 (u t x y : Nat) (ht : t ≠ 0) (hx : x ≠ 0) :
    (Pt.small true [x, y]).exec (mkP [u, t] 1) = (some .overlap, mkP [u, t] 1, 0) := by
  simp only [Pt.small, Act.when, Act.exec]
  have hg : (Guard.neg (Pt.smallerBlocked true)).eval (mkP [u, t] 1) = true := by
    show (!((Pt.smallerBlocked true).eval (mkP [u, t] 1))) = true
    rw [unblocked1]; rfl
  rw [if_pos hg]
  simp [DS.put, mkP, allZero, ht, hx]

theorem unit_rej1 (u t d : Nat) (hd : d ≠ 0) (hut : u ≠ 0 ∨ (u = 0 ∧ t = 1)) :
    ∃ e, e ≠ Err.incomplete ∧ (Pt.unit true d).exec (mkP [u, t] 1) = (some e, mkP [u, t] 1, 0) := by
  simp only [Pt.unit, Act.when, Act.exec]
  rcases hut with hu | ⟨rfl, rfl⟩
  · split
    · refine ⟨.overlap, by decide, ?_⟩
      simp [DS.put, mkP, allZero, hu, hd]
    · exact ⟨.nan, by decide, rfl⟩
  · refine ⟨.nan, by decide, ?_⟩
    rw [if_neg (by decide)]

/-- **after `e`**: the first word of `b` is refused after `a e`, unless `a` is a whole number of tens ≥ 20 and `b` a unit -/
theorem rej_conj (a b : Nat) (h10 : 10 ≤ a) (ha : a < 100) (hb : b < 100) (hnf : fused a b true = none) :
    ∃ w tl err, std b = w :: tl ∧ err ≠ .incomplete ∧ Pt.apply w (mkP (lsb a) 1) = (some err, stA a) := by
  rw [stA_pos a (by omega)]
  by_cases hb0 : b = 0
  · subst hb0
    exact ⟨_, [], .overlap, std_zero, by decide, ExtPt.apply_zero_after 0 a 1 (by omega)⟩
  · obtain ⟨w, tl, hs, hk⟩ := first_word b hb0 hb
    rw [lsb_two a h10 ha]
    rcases hk with ⟨hb9, hp⟩ | ⟨_, x, y, hx, hp⟩
    · have hut : a % 10 ≠ 0 ∨ (a % 10 = 0 ∧ a / 10 = 1) := by
        unfold fused at hnf
        split at hnf
        · exact absurd hnf (by simp)
        · rename_i hc
          have hc' : ¬ (20 ≤ a ∧ a ≤ 90 ∧ a % 10 = 0 ∧ 1 ≤ b ∧ b ≤ 9) := fun h => hc ⟨rfl, h⟩
          omega
      obtain ⟨e, he, hx⟩ := unit_rej1 (a % 10) (a / 10) b hb0 hut
      exact ⟨w, tl, e, hs, he, apply_err hp hx he⟩
    · exact ⟨w, tl, .overlap, hs, by decide, apply_err hp (small_ovl1 _ _ x y (by omega) hx) (by decide)⟩

/-! ### the conjunction itself -/

theorem e_small (a : Nat) (h0 : a ≠ 0) (h : a < 10) :
    Pt.apply Spec.Pt.conj (mkP (lsb a) 0) = (some .nan, mkP (lsb a) 0) := by
  rw [lsb_digit a h h0]
  exact apply_err plain_e (nx := 0) rfl (by decide)

theorem e_rej (a : Nat) (h : a < 10) : Pt.apply Spec.Pt.conj (stA a) = (some .nan, stA a) := by
  by_cases h0 : a = 0
  · subst h0; rfl
  · rw [stA_pos a h0]; exact e_small a h0 h

theorem e_new : Pt.apply Spec.Pt.conj {} = (some .nan, {}) := by rfl

theorem e_keep (a : Nat) (h10 : 10 ≤ a) :
    Pt.apply Spec.Pt.conj (stA a) = (some .incomplete, mkP (lsb a) 1) := by
  rw [stA_pos a (by omega)]; exact e_apply a 0 h10 (Or.inl rfl)

/-! ## the scanner -/

theorem scan_first (ws : List Word) (r : DS) (h : execGroupFrom Pt.apply ws DS.new false = .ok r) :
    ∃ s1, EnExt.pushWords (scanCfg Pt.lang zeroThr) {} 0 ws = .ok s1 ∧ SQ s1 r [] :=
  lift_q Pt.lang ExtPt.accepts_pt zeroThr ws DS.new false r h {} 0 [] SQ_init

/-- the prefix `P` leaves the parser in `r`, where the first word of `std b` is refused, leaving the state of `a` -/
theorem pair_core (P : List Word) (r : DS) (a b : Nat) (hb : b < 100)
    (hP : ∃ s1, EnExt.pushWords (scanCfg Pt.lang zeroThr) {} 0 P = .ok s1 ∧ SQ s1 r [])
    (hrej : ∃ w tl err, std b = w :: tl ∧ err ≠ .incomplete ∧ Pt.apply w r = (some err, stA a)) :
    occTexts Pt.lang zeroThr (P ++ std b) = some [decChars a, decChars b] := by
  obtain ⟨w, tl, err, hstd, herr, hrej⟩ := hrej
  have hrun := run_std b hb
  rw [hstd] at hrun
  obtain ⟨b2, hb2, hR⟩ := run_head w tl _ hrun
  have hb2' : Pt.lang.apply w {} = (none, b2) := hb2
  have hw := ExtPt.accepts_pt w {} (by rw [hb2']; exact Or.inl rfl)
  obtain ⟨hne1, v1, hf1⟩ := fmt_stA a
  obtain ⟨hne2, v2, hf2⟩ := fmt_stA b
  rw [hstd]
  exact two_numbers Pt.lang ExtPt.accepts_pt P tl w r (stA a) b2 (stA b) err none _ _ v1 v2 hP herr hw hrej hne1 hf1
    hb2 hR hne2 hf2

/-- **C08, pairs, Portuguese**: every pair of numbers below 100, with or without the conjunction -/
theorem C08_pairs_pt (a b : Nat) (ha : a < 100) (hb : b < 100) (cj : Bool) :
    occTexts Pt.lang zeroThr (std a ++ joiner cj ++ std b) = some (expected a b cj) := by
  unfold expected
  cases hfu : fused a b cj with
  | some c =>
    dsimp only
    unfold fused at hfu
    split at hfu
    · rename_i hc
      obtain ⟨hcj, h20, h90, h10, hb1, hb9⟩ := hc
      have hc' : a + b = c := by simpa using hfu
      subst hc' hcj
      obtain ⟨t, rfl⟩ : ∃ t, a = 10 * t := ⟨a / 10, by omega⟩
      show occTexts Pt.lang zeroThr (std (10 * t) ++ [Spec.Pt.conj] ++ std b) = _
      rw [fuse_eq t b (by omega) (by omega) hb1 hb9]
      exact ExtPt.C01_scan_pt v0 (10 * t + b) (by omega)
    · exact absurd hfu (by simp)
  | none =>
    dsimp only
    cases cj with
    | false =>
      show occTexts Pt.lang zeroThr (std a ++ [] ++ std b) = _
      rw [List.append_nil]
      by_cases ha0 : a = 0
      · subst ha0
        rw [if_pos ⟨rfl, rfl⟩]
        by_cases hb0 : b = 0
        · subst hb0
          rw [decChars0]
          exact ExtPt.C16_zeros_only_scan_pt 2 (by decide)
        · exact ExtPt.C16_scan_pt v0 1 b (by omega) (by omega)
      · rw [if_neg (fun h => ha0 h.1)]
        exact pair_core (std a) (stA a) a b hb (scan_first _ _ (run_std a ha)) (rej_plain a b ha0 ha hb)
    | true =>
      rw [if_neg (fun h => Bool.noConfusion h.2)]
      show occTexts Pt.lang zeroThr (std a ++ [Spec.Pt.conj] ++ std b) = _
      obtain ⟨s1, e1, hs1⟩ := scan_first _ _ (run_std a ha)
      by_cases h10 : a < 10
      · -- `e` is refused after a one-digit number, and by the fresh parser too
        obtain ⟨hne1, v1, hf1⟩ := fmt_stA a
        obtain ⟨hne2, v2, hf2⟩ := fmt_stA b
        rw [List.append_assoc]
        exact two_numbers Pt.lang ExtPt.accepts_pt (std a) (std b) Spec.Pt.conj (stA a) (stA a) {} (stA b) .nan
          (some .nan) _ _ v1 v2 ⟨s1, e1, hs1⟩ (by decide) ⟨by decide, by decide⟩ (e_rej a h10) hne1 hf1 e_new
          (run_std b hb) hne2 hf2
      · -- `e` is kept (`Incomplete`), the next word is refused
        obtain ⟨s2, e2, hs2⟩ := step_keep Pt.lang ExtPt.accepts_pt zeroThr s1 (0 + 2 * (std a).length) Spec.Pt.conj
          _ _ (some .incomplete) [] (Or.inr rfl) (e_keep a (by omega)) hs1
        refine pair_core (std a ++ [Spec.Pt.conj]) (mkP (lsb a) 1) a b hb ⟨s2, ?_, hs2⟩
          (rej_conj a b (by omega) ha hb hfu)
        rw [EnExt.pushWords_append, e1]
        dsimp only
        rw [EnExt.pushWords, e2]
        rfl

/-! ## instances -/

/-- `vinte doze` ↦ `20`, `12` (never 32) -/
example : occTexts Pt.lang zeroThr [w!"vinte", w!"doze"] = some [w!"20", w!"12"] := by
  have h := C08_pairs_pt 20 12 (by decide) (by decide) false
  have e : expected 20 12 false = [w!"20", w!"12"] := by decide +kernel
  rw [e] at h; exact h

/-- `trinta e dois` ↦ `32` -/
example : occTexts Pt.lang zeroThr [w!"trinta", w!"e", w!"dois"] = some [w!"32"] := by
  have h := C08_pairs_pt 30 2 (by decide) (by decide) true
  have e : expected 30 2 true = [w!"32"] := by decide +kernel
  rw [e] at h; exact h

/-- `trinta dois` (obligatory `e` omitted) ↦ `30`, `2` -/
example : occTexts Pt.lang zeroThr [w!"trinta", w!"dois"] = some [w!"30", w!"2"] := by
  have h := C08_pairs_pt 30 2 (by decide) (by decide) false
  have e : expected 30 2 false = [w!"30", w!"2"] := by decide +kernel
  rw [e] at h; exact h

/-- `vinte e um e dois` ↦ `21`, `2` -/
example : occTexts Pt.lang zeroThr [w!"vinte", w!"e", w!"um", w!"e", w!"dois"] = some [w!"21", w!"2"] := by
  have h := C08_pairs_pt 21 2 (by decide) (by decide) true
  have e : expected 21 2 true = [w!"21", w!"2"] := by decide +kernel
  rw [e] at h; exact h

/-- `zero doze` ↦ `012` -/
example : occTexts Pt.lang zeroThr [w!"zero", w!"doze"] = some [w!"012"] := by
  have h := C08_pairs_pt 0 12 (by decide) (by decide) false
  have e : expected 0 12 false = [w!"012"] := by decide +kernel
  rw [e] at h; exact h

end T2N.PairsPt
