/-
  T2N.Lemmas.ErrFresh — the language assumptions of the scanner reset theorem (T2N/Lemmas/Reset.lean,
  property C10) for French, Spanish, Portuguese, Italian, German and Dutch (English: T2N/Props/C10.lean).

  For each language `L`:
  * `l_errFresh : L.lang.ErrFresh` — a word refused by the pristine builder leaves it pristine, flags
    included (the interpreters that rewrite the flags on failure write `0`, which is what the pristine
    builder holds; Portuguese writes `CONJUNCTION` after `Err(Incomplete)`, but no word is `Incomplete` on
    the pristine builder);
  * `l_rejects` — a syntactic condition for `L.lang.Rejects w` (the word is refused in every state with an
    error other than `Incomplete`): the word is not a compound (no `-` / not splittable), its lemma is not
    in the vocabulary, it is not the decimal separator;
  * `l_rejects_compound` (fr, it, de, nl) — the same for a compound whose group is refused (the group is
    interpreted on a fresh builder, so this does not depend on the state either);
  * `l_rejects_comma` — the forced stop `","` is refused in every state;
  * `l_hardBreaker_cfg` — for ANY configuration of that language (any char classes, any separation hints)
    a token that is not skipped, breaks sequences and whose word is refused is a hard breaker;
  * `l_hardBreaker` — the syntactic version for the configuration of `replace_numbers_in_text`.
-/
import T2N.Lemmas.Reset
import T2N.Lemmas.Act
import T2N.Lemmas.LangFacts
import T2N.Lemmas.SimpleCC

namespace T2N.ErrFreshAll
open T2N

/-! ### generic part -/

/-- the compound merge leaves the builder exactly as it was when it fails -/
theorem mergeGroup_err_eq (b ds : DS) (cf : Bool) (m : Marker) (e : Err)
    (h : (mergeGroup b ds cf m).1 = some e) : (mergeGroup b ds cf m).2 = b := by
  unfold mergeGroup at h ⊢
  split
  · rfl
  · rename_i hc
    rw [if_neg hc] at h
    cases hp : b.put ds.rbuf.reverse with
    | mk r b' =>
      cases r with
      | some e' =>
        have := put_atomic b ds.rbuf.reverse e' (by rw [hp])
        rw [hp] at this
        exact this
      | none => rw [hp] at h; cases h

/-- a compound branch that fails leaves the builder exactly as it was -/
theorem group_err_eq (b : DS) (g : Except Err DS) (cf : Bool) (mk : DS → Marker) (e : Err)
    (h : (match g with
      | .ok ds => mergeGroup b ds cf (mk ds)
      | .error e => (some e, b)).1 = some e) :
    (match g with
      | .ok ds => mergeGroup b ds cf (mk ds)
      | .error e => (some e, b)).2 = b := by
  cases g with
  | error e' => rfl
  | ok ds => exact mergeGroup_err_eq b ds cf (mk ds) e h

/-- the error of a group, if it is refused (`Except Err DS` has no decidable equality; this has) -/
def groupErr (g : Except Err DS) : Option Err :=
  match g with
  | .error e => some e
  | .ok _ => none

/-- a compound branch whose group is refused reports the error of the group -/
theorem group_error (b : DS) (g : Except Err DS) (cf : Bool) (mk : DS → Marker) (e : Err)
    (h : groupErr g = some e) :
    (match g with
      | .ok ds => mergeGroup b ds cf (mk ds)
      | .error e => (some e, b)).1 = some e := by
  cases g with
  | error e' => simp only [groupErr] at h; exact h
  | ok ds => cases h

/-- the outcome of a failing instruction -/
theorem exec_err (a : Act) (b : DS) (e : Err) (h : (a.exec b).1 = some e) :
    ∃ tb, a.exec b = (some e, b, tb) := by
  have hat := Act.exec_atomic a b e h
  cases hr : a.exec b with
  | mk r rest =>
    cases rest with
    | mk b' tb =>
      rw [hr] at h hat
      cases h
      have : b' = b := hat
      subst this
      exact ⟨tb, rfl⟩

/-- a property of all instructions of a table holds of the instruction looked up -/
theorem lookup_all (P : Act → Bool) (l : List (Word × Act)) (hl : (l.all fun p => P p.2) = true)
    (hd : P (.fail .nan) = true) (k : Word) : P ((l.lookup k).getD (.fail .nan)) = true := by
  induction l with
  | nil => exact hd
  | cons p ps ih =>
    cases p with
    | mk a v =>
      rw [List.all_cons, Bool.and_eq_true] at hl
      rw [List.lookup_cons]
      cases hk : (k == a) with
      | true => exact hl.1
      | false => exact ih hl.2

/-- whether a key is in a table depends on the keys only -/
theorem lookup_none_of_keys (l l' : List (Word × Act)) (hk : l.map Prod.fst = l'.map Prod.fst) (k : Word)
    (h : l.lookup k = none) : l'.lookup k = none := by
  induction l generalizing l' with
  | nil =>
    cases l' with
    | nil => rfl
    | cons p ps => cases hk
  | cons p ps ih =>
    cases l' with
    | nil => cases hk
    | cons p' ps' =>
      obtain ⟨a, v⟩ := p
      obtain ⟨a', v'⟩ := p'
      simp only [List.map_cons, List.cons.injEq] at hk
      obtain ⟨h1, h2⟩ := hk
      subst h1
      rw [List.lookup_cons] at h ⊢
      cases hq : (k == a) with
      | true => rw [hq] at h; cases h
      | false => rw [hq] at h; exact ih ps' h2 h

/-- the generic shape of a hard breaker, for any configuration: not skipped, breaks sequences, its word and
the forced stop `","` are refused in every state -/
theorem hardBreaker_of_rejects (cfg : ScanCfg) (tok : Tok)
    (hsk : Scanner.isSkipped cfg tok = false) (hbr : breaks cfg tok = true)
    (hr : cfg.lang.Rejects tok.lower) (hcomma : cfg.lang.Rejects [',']) : HardBreaker cfg tok :=
  ⟨hsk, hbr, Or.inr ⟨hr, Or.inr hcomma⟩⟩

/-! ### French -/

theorem fr_apply_fresh (w : Word) (e : Err) (h : (Fr.apply w {}).1 = some e) : (Fr.apply w {}).2 = {} := by
  unfold Fr.apply Fr.applyFuel at h ⊢
  by_cases hc : w.contains '-' = true
  · rw [if_pos hc] at h ⊢
    exact group_err_eq {} _ true (fun ds => ds.marker) e h
  · rw [if_neg hc] at h ⊢
    dsimp only at h ⊢
    generalize (Fr.vocab.lookup (Fr.lemmatize w)).getD (.fail .nan) = act at h ⊢
    cases hr : (act.exec {}).1 with
    | none => rw [hr] at h; simp at h <;> (split at h <;> cases h)
    | some e' =>
      obtain ⟨tb, he⟩ := exec_err act {} e' hr
      rw [he]; rfl

theorem fr_errFresh : Fr.lang.ErrFresh := fun w e h => fr_apply_fresh w e h

/-- French refuses, in every state, every word without `-` whose lemma is not in its vocabulary (and that
is not the decimal separator `virgule`) -/
theorem fr_rejects (w : Word) (h1 : w.contains '-' = false) (h2 : Fr.vocab.lookup (Fr.lemmatize w) = none)
    (h3 : (w == w!"virgule") = false) : Fr.lang.Rejects w := by
  have key : ∀ b, ∃ e, (Fr.apply w b).1 = some e ∧ e ≠ Err.incomplete := by
    intro b
    refine ⟨Err.nan, ?_, by decide⟩
    unfold Fr.apply Fr.applyFuel
    rw [if_neg (by rw [h1]; simp)]
    simp [h2, Act.exec]
  exact Lang.rejects_of_apply Fr.lang w key key h3

/-- … and every `-` compound whose group is refused (with an error other than `Incomplete`) -/
theorem fr_rejects_compound (w : Word) (e : Err) (h1 : w.contains '-' = true)
    (h2 : groupErr (execGroup (Fr.applyFuel 1) (splitOnChar '-' w)) = some e) (h3 : e ≠ Err.incomplete) :
    Fr.lang.Rejects w := by
  have key : ∀ b, ∃ e, (Fr.apply w b).1 = some e ∧ e ≠ Err.incomplete := by
    intro b
    refine ⟨e, ?_, h3⟩
    unfold Fr.apply Fr.applyFuel
    rw [if_pos h1]
    exact group_error b _ true (fun ds => ds.marker) e h2
  refine Lang.rejects_of_apply Fr.lang w key key ?_
  show (w == w!"virgule") = false
  cases hq : (w == w!"virgule") with
  | false => rfl
  | true =>
    have := eq_of_beq hq
    subst this
    revert h1; decide

theorem fr_rejects_comma : Fr.lang.Rejects [','] :=
  fr_rejects _ (by decide) (by decide) (by decide)

theorem fr_hardBreaker_cfg (cfg : ScanCfg) (hc : cfg.lang = Fr.lang) (tok : Tok)
    (hsk : Scanner.isSkipped cfg tok = false) (hbr : breaks cfg tok = true)
    (hr : Fr.lang.Rejects tok.lower) : HardBreaker cfg tok :=
  hardBreaker_of_rejects cfg tok hsk hbr (by rw [hc]; exact hr) (by rw [hc]; exact fr_rejects_comma)

theorem fr_hardBreaker (thr : Nat → Bool) (tok : Tok)
    (hsk : Scanner.isSkipped (scanCfg Fr.lang thr) tok = false) (hbr : breaks (scanCfg Fr.lang thr) tok = true)
    (h1 : tok.lower.contains '-' = false) (h2 : Fr.vocab.lookup (Fr.lemmatize tok.lower) = none)
    (h3 : (tok.lower == w!"virgule") = false) : HardBreaker (scanCfg Fr.lang thr) tok :=
  fr_hardBreaker_cfg _ rfl tok hsk hbr (fr_rejects tok.lower h1 h2 h3)

example (thr : Nat → Bool) : HardBreaker (scanCfg Fr.lang thr) { text := w!".", lower := w!"." } :=
  fr_hardBreaker thr _ rfl rfl (by decide) (by decide) (by decide)
example (thr : Nat → Bool) : HardBreaker (scanCfg Fr.lang thr) { text := w!"Chats", lower := w!"chats" } :=
  fr_hardBreaker thr _ rfl rfl (by decide) (by decide) (by decide)
example : Fr.lang.Rejects w!"chats" := fr_rejects _ (by decide) (by decide) (by decide)
example : Fr.lang.Rejects w!"peut-être" := fr_rejects_compound _ Err.nan (by decide) (by decide) (by decide)

/-! ### Spanish -/

theorem es_apply_fresh (w : Word) (e : Err) (h : (Es.apply w {}).1 = some e) : (Es.apply w {}).2 = {} := by
  unfold Es.apply at h ⊢
  dsimp only at h ⊢
  split
  · rfl
  · rename_i hc
    rw [if_neg hc] at h
    generalize (Es.vocab.lookup (Es.lemmatize w)).getD (.fail .nan) = act at h ⊢
    cases hr : (act.exec {}).1 with
    | none => rw [hr] at h; simp at h <;> (split at h <;> cases h)
    | some e' =>
      obtain ⟨tb, he⟩ := exec_err act {} e' hr
      rw [he]; rfl

theorem es_errFresh : Es.lang.ErrFresh := fun w e h => es_apply_fresh w e h

/-- Spanish refuses, in every state, every word whose lemma is not in its vocabulary (and that is not the
decimal separator `coma`): with `Overlap` when the marker pre-check fires, with `NaN` otherwise -/
theorem es_rejects (w : Word) (h2 : Es.vocab.lookup (Es.lemmatize w) = none)
    (h3 : (w == w!"coma") = false) : Es.lang.Rejects w := by
  have key : ∀ b, ∃ e, (Es.apply w b).1 = some e ∧ e ≠ Err.incomplete := by
    intro b
    unfold Es.apply
    dsimp only
    split
    · exact ⟨Err.overlap, rfl, by decide⟩
    · refine ⟨Err.nan, ?_, by decide⟩
      simp [h2, Act.exec]
  exact Lang.rejects_of_apply Es.lang w key key h3

theorem es_rejects_comma : Es.lang.Rejects [','] := es_rejects _ (by decide) (by decide)

theorem es_hardBreaker_cfg (cfg : ScanCfg) (hc : cfg.lang = Es.lang) (tok : Tok)
    (hsk : Scanner.isSkipped cfg tok = false) (hbr : breaks cfg tok = true)
    (hr : Es.lang.Rejects tok.lower) : HardBreaker cfg tok :=
  hardBreaker_of_rejects cfg tok hsk hbr (by rw [hc]; exact hr) (by rw [hc]; exact es_rejects_comma)

theorem es_hardBreaker (thr : Nat → Bool) (tok : Tok)
    (hsk : Scanner.isSkipped (scanCfg Es.lang thr) tok = false) (hbr : breaks (scanCfg Es.lang thr) tok = true)
    (h2 : Es.vocab.lookup (Es.lemmatize tok.lower) = none)
    (h3 : (tok.lower == w!"coma") = false) : HardBreaker (scanCfg Es.lang thr) tok :=
  es_hardBreaker_cfg _ rfl tok hsk hbr (es_rejects tok.lower h2 h3)

example (thr : Nat → Bool) : HardBreaker (scanCfg Es.lang thr) { text := w!".", lower := w!"." } :=
  es_hardBreaker thr _ rfl rfl (by decide) (by decide)
example (thr : Nat → Bool) : HardBreaker (scanCfg Es.lang thr) { text := w!"Gatos", lower := w!"gatos" } :=
  es_hardBreaker thr _ rfl rfl (by decide) (by decide)
example : Es.lang.Rejects w!"gatos" := es_rejects _ (by decide) (by decide)

/-! ### Portuguese -/

/-- no word is `Incomplete` on the pristine builder (`e` needs two digits) -/
theorem pt_vocab_no_incomplete (mnone : Bool) :
    ((Pt.vocab mnone).all fun p => (fun a : Act => decide ((a.exec {}).1 ≠ some Err.incomplete)) p.2) = true := by
  cases mnone <;> decide

theorem pt_apply_fresh (w : Word) (e : Err) (h : (Pt.apply w {}).1 = some e) : (Pt.apply w {}).2 = {} := by
  unfold Pt.apply at h ⊢
  dsimp only at h ⊢
  split
  · rfl
  · rename_i hc
    rw [if_neg hc] at h
    have hni := lookup_all (fun a : Act => decide ((a.exec {}).1 ≠ some Err.incomplete)) _
      (pt_vocab_no_incomplete (Pt.morph w).isNone) (by decide) (Pt.lemmatize w)
    generalize ((Pt.vocab (Pt.morph w).isNone).lookup (Pt.lemmatize w)).getD (.fail .nan) = act at h hni ⊢
    have hni' : (act.exec {}).1 ≠ some Err.incomplete := by simpa using hni
    cases hr : (act.exec {}).1 with
    | none =>
      exfalso
      cases hx : act.exec {} with
      | mk r rest =>
        cases rest with
        | mk b' tb =>
          rw [hx] at hr h
          dsimp only at hr
          subst hr
          cases h
    | some e' =>
      obtain ⟨tb, he⟩ := exec_err act {} e' hr
      rw [he]
      rw [hr] at hni'
      cases e' with
      | incomplete => exact absurd rfl hni'
      | overlap => rfl
      | nan => rfl
      | frozen => rfl

theorem pt_errFresh : Pt.lang.ErrFresh := fun w e h => pt_apply_fresh w e h

theorem pt_vocab_keys : (Pt.vocab true).map Prod.fst = (Pt.vocab false).map Prod.fst := by decide

/-- Portuguese refuses, in every state, every word whose lemma is not in its vocabulary (and that is not the
decimal separator `vírgula`): with `Overlap` when the marker pre-check fires, with `NaN` otherwise -/
theorem pt_rejects (w : Word) (h2 : (Pt.vocab true).lookup (Pt.lemmatize w) = none)
    (h3 : (w == w!"vírgula") = false) : Pt.lang.Rejects w := by
  have h2' : ∀ m, (Pt.vocab m).lookup (Pt.lemmatize w) = none := by
    intro m
    cases m with
    | true => exact h2
    | false => exact lookup_none_of_keys _ _ pt_vocab_keys _ h2
  have key : ∀ b, ∃ e, (Pt.apply w b).1 = some e ∧ e ≠ Err.incomplete := by
    intro b
    unfold Pt.apply
    dsimp only
    split
    · exact ⟨Err.overlap, rfl, by decide⟩
    · refine ⟨Err.nan, ?_, by decide⟩
      simp [h2', Act.exec]
  exact Lang.rejects_of_apply Pt.lang w key key h3

theorem pt_rejects_comma : Pt.lang.Rejects [','] := pt_rejects _ (by decide) (by decide)

theorem pt_hardBreaker_cfg (cfg : ScanCfg) (hc : cfg.lang = Pt.lang) (tok : Tok)
    (hsk : Scanner.isSkipped cfg tok = false) (hbr : breaks cfg tok = true)
    (hr : Pt.lang.Rejects tok.lower) : HardBreaker cfg tok :=
  hardBreaker_of_rejects cfg tok hsk hbr (by rw [hc]; exact hr) (by rw [hc]; exact pt_rejects_comma)

theorem pt_hardBreaker (thr : Nat → Bool) (tok : Tok)
    (hsk : Scanner.isSkipped (scanCfg Pt.lang thr) tok = false) (hbr : breaks (scanCfg Pt.lang thr) tok = true)
    (h2 : (Pt.vocab true).lookup (Pt.lemmatize tok.lower) = none)
    (h3 : (tok.lower == w!"vírgula") = false) : HardBreaker (scanCfg Pt.lang thr) tok :=
  pt_hardBreaker_cfg _ rfl tok hsk hbr (pt_rejects tok.lower h2 h3)

example (thr : Nat → Bool) : HardBreaker (scanCfg Pt.lang thr) { text := w!".", lower := w!"." } :=
  pt_hardBreaker thr _ rfl rfl (by decide) (by decide)
example (thr : Nat → Bool) : HardBreaker (scanCfg Pt.lang thr) { text := w!"Gatos", lower := w!"gatos" } :=
  pt_hardBreaker thr _ rfl rfl (by decide) (by decide)
example : Pt.lang.Rejects w!"gatos" := pt_rejects _ (by decide) (by decide)

/-! ### Italian -/

theorem it_apply_fresh (w : Word) (e : Err) (h : (It.apply w {}).1 = some e) : (It.apply w {}).2 = {} := by
  unfold It.apply It.applyFuel at h ⊢
  dsimp only at h ⊢
  by_cases hc : isSplittable It.patterns (It.lemmatize w) = true
  · rw [if_pos hc] at h ⊢
    exact group_err_eq {} _ false (fun _ => It.morph w) e h
  · rw [if_neg hc] at h ⊢
    generalize (if (It.lemmatize w == w!"non" && w == w!"non") = true then Act.fail Err.nan
        else (It.vocab.lookup (It.lemmatize w)).getD (.fail .nan)) = act at h ⊢
    cases hr : (act.exec {}).1 with
    | none => rw [hr] at h; simp at h <;> (split at h <;> cases h)
    | some e' =>
      obtain ⟨tb, he⟩ := exec_err act {} e' hr
      rw [he]; rfl

theorem it_errFresh : It.lang.ErrFresh := fun w e h => it_apply_fresh w e h

/-- Italian refuses, in every state, every word whose lemma is not splittable and not in its vocabulary (and
that is not the decimal separator `virgola`) -/
theorem it_rejects (w : Word) (h1 : isSplittable It.patterns (It.lemmatize w) = false)
    (h2 : It.vocab.lookup (It.lemmatize w) = none) (h3 : (w == w!"virgola") = false) : It.lang.Rejects w := by
  have key : ∀ b, ∃ e, (It.apply w b).1 = some e ∧ e ≠ Err.incomplete := by
    intro b
    refine ⟨Err.nan, ?_, by decide⟩
    unfold It.apply It.applyFuel
    dsimp only
    rw [if_neg (by rw [h1]; simp)]
    split <;> simp [h2, Act.exec]
  exact Lang.rejects_of_apply It.lang w key key h3

/-- … and every compound whose group is refused (with an error other than `Incomplete`) -/
theorem it_rejects_compound (w : Word) (e : Err) (h1 : isSplittable It.patterns (It.lemmatize w) = true)
    (h2 : groupErr (execGroup (It.applyFuel 1) (splitWord It.patterns (It.lemmatize w))) = some e)
    (h3 : e ≠ Err.incomplete) (h4 : (w == w!"virgola") = false) : It.lang.Rejects w := by
  have key : ∀ b, ∃ e, (It.apply w b).1 = some e ∧ e ≠ Err.incomplete := by
    intro b
    refine ⟨e, ?_, h3⟩
    unfold It.apply It.applyFuel
    dsimp only
    rw [if_pos h1]
    exact group_error b _ false (fun _ => It.morph w) e h2
  exact Lang.rejects_of_apply It.lang w key key h4

theorem it_rejects_comma : It.lang.Rejects [','] := it_rejects _ (by decide) (by decide) (by decide)

theorem it_hardBreaker_cfg (cfg : ScanCfg) (hc : cfg.lang = It.lang) (tok : Tok)
    (hsk : Scanner.isSkipped cfg tok = false) (hbr : breaks cfg tok = true)
    (hr : It.lang.Rejects tok.lower) : HardBreaker cfg tok :=
  hardBreaker_of_rejects cfg tok hsk hbr (by rw [hc]; exact hr) (by rw [hc]; exact it_rejects_comma)

theorem it_hardBreaker (thr : Nat → Bool) (tok : Tok)
    (hsk : Scanner.isSkipped (scanCfg It.lang thr) tok = false) (hbr : breaks (scanCfg It.lang thr) tok = true)
    (h1 : isSplittable It.patterns (It.lemmatize tok.lower) = false)
    (h2 : It.vocab.lookup (It.lemmatize tok.lower) = none)
    (h3 : (tok.lower == w!"virgola") = false) : HardBreaker (scanCfg It.lang thr) tok :=
  it_hardBreaker_cfg _ rfl tok hsk hbr (it_rejects tok.lower h1 h2 h3)

example (thr : Nat → Bool) : HardBreaker (scanCfg It.lang thr) { text := w!".", lower := w!"." } :=
  it_hardBreaker thr _ rfl rfl (by decide) (by decide) (by decide)
example (thr : Nat → Bool) : HardBreaker (scanCfg It.lang thr) { text := w!"Gatti", lower := w!"gatti" } :=
  it_hardBreaker thr _ rfl rfl (by decide) (by decide) (by decide)
example : It.lang.Rejects w!"gatti" := it_rejects _ (by decide) (by decide) (by decide)
/-- `conventi` contains the pattern `venti`; the gap `con` is refused -/
example : It.lang.Rejects w!"conventi" := it_rejects_compound _ Err.nan (by decide) (by decide) (by decide) (by decide)

/-! ### German -/

theorem de_apply_fresh (w : Word) (e : Err) (h : (De.apply w {}).1 = some e) : (De.apply w {}).2 = {} := by
  unfold De.apply De.applyFuel at h ⊢
  dsimp only at h ⊢
  by_cases hc : isSplittable De.patterns (De.lemmatize w) = true
  · rw [if_pos hc] at h ⊢
    exact group_err_eq {} _ false (fun ds => ds.marker) e h
  · rw [if_neg hc] at h ⊢
    generalize (De.vocab.lookup (De.lemmatize w)).getD (.fail .nan) = act at h ⊢
    cases hr : (act.exec {}).1 with
    | none => rw [hr] at h; simp at h <;> (split at h <;> cases h)
    | some e' =>
      obtain ⟨tb, he⟩ := exec_err act {} e' hr
      rw [he]; rfl

theorem de_errFresh : De.lang.ErrFresh := fun w e h => de_apply_fresh w e h

theorem de_applyDecimal_nan (w : Word) (h : De.decVocab.lookup w = none) (b : DS) :
    ∃ e, (De.applyDecimal w b).1 = some e ∧ e ≠ Err.incomplete := by
  refine ⟨Err.nan, ?_, by decide⟩
  unfold De.applyDecimal
  rw [h]

/-- German refuses, in every state, every word whose lemma is not splittable and not in its vocabulary, that
is not a decimal digit word nor the decimal separator `komma` -/
theorem de_rejects (w : Word) (h1 : isSplittable De.patterns (De.lemmatize w) = false)
    (h2 : De.vocab.lookup (De.lemmatize w) = none) (h3 : De.decVocab.lookup w = none)
    (h4 : (w == w!"komma") = false) : De.lang.Rejects w := by
  have key : ∀ b, ∃ e, (De.apply w b).1 = some e ∧ e ≠ Err.incomplete := by
    intro b
    refine ⟨Err.nan, ?_, by decide⟩
    unfold De.apply De.applyFuel
    dsimp only
    rw [if_neg (by rw [h1]; simp)]
    simp [h2, Act.exec]
  exact Lang.rejects_of_apply De.lang w key (de_applyDecimal_nan w h3) h4

/-- … and every compound whose group is refused (with an error other than `Incomplete`) -/
theorem de_rejects_compound (w : Word) (e : Err) (h1 : isSplittable De.patterns (De.lemmatize w) = true)
    (h2 : groupErr (execGroup (De.applyFuel 1) (splitWord De.patterns (De.lemmatize w))) = some e)
    (h3 : e ≠ Err.incomplete) (h4 : De.decVocab.lookup w = none) (h5 : (w == w!"komma") = false) :
    De.lang.Rejects w := by
  have key : ∀ b, ∃ e, (De.apply w b).1 = some e ∧ e ≠ Err.incomplete := by
    intro b
    refine ⟨e, ?_, h3⟩
    unfold De.apply De.applyFuel
    dsimp only
    rw [if_pos h1]
    exact group_error b _ false (fun ds => ds.marker) e h2
  exact Lang.rejects_of_apply De.lang w key (de_applyDecimal_nan w h4) h5

theorem de_rejects_comma : De.lang.Rejects [','] :=
  de_rejects _ (by decide) (by decide) (by decide) (by decide)

theorem de_hardBreaker_cfg (cfg : ScanCfg) (hc : cfg.lang = De.lang) (tok : Tok)
    (hsk : Scanner.isSkipped cfg tok = false) (hbr : breaks cfg tok = true)
    (hr : De.lang.Rejects tok.lower) : HardBreaker cfg tok :=
  hardBreaker_of_rejects cfg tok hsk hbr (by rw [hc]; exact hr) (by rw [hc]; exact de_rejects_comma)

theorem de_hardBreaker (thr : Nat → Bool) (tok : Tok)
    (hsk : Scanner.isSkipped (scanCfg De.lang thr) tok = false) (hbr : breaks (scanCfg De.lang thr) tok = true)
    (h1 : isSplittable De.patterns (De.lemmatize tok.lower) = false)
    (h2 : De.vocab.lookup (De.lemmatize tok.lower) = none) (h3 : De.decVocab.lookup tok.lower = none)
    (h4 : (tok.lower == w!"komma") = false) : HardBreaker (scanCfg De.lang thr) tok :=
  de_hardBreaker_cfg _ rfl tok hsk hbr (de_rejects tok.lower h1 h2 h3 h4)

example (thr : Nat → Bool) : HardBreaker (scanCfg De.lang thr) { text := w!".", lower := w!"." } :=
  de_hardBreaker thr _ rfl rfl (by decide) (by decide) (by decide) (by decide)
example (thr : Nat → Bool) : HardBreaker (scanCfg De.lang thr) { text := w!"Katzen", lower := w!"katzen" } :=
  de_hardBreaker thr _ rfl rfl (by decide) (by decide) (by decide) (by decide)
example : De.lang.Rejects w!"katzen" := de_rejects _ (by decide) (by decide) (by decide) (by decide)
/-- `hund` contains the pattern `und`; the gap `h` is refused -/
example : De.lang.Rejects w!"hund" :=
  de_rejects_compound _ Err.nan (by decide) (by decide) (by decide) (by decide) (by decide)
example (thr : Nat → Bool) : HardBreaker (scanCfg De.lang thr) { text := w!"Hund", lower := w!"hund" } :=
  de_hardBreaker_cfg _ rfl _ rfl rfl
    (de_rejects_compound _ Err.nan (by decide) (by decide) (by decide) (by decide) (by decide))

/-! ### Dutch -/

theorem nl_apply_fresh (w : Word) (e : Err) (h : (Nl.apply w {}).1 = some e) : (Nl.apply w {}).2 = {} := by
  unfold Nl.apply Nl.applyFuel at h ⊢
  by_cases hc : isSplittable Nl.patterns w = true
  · rw [if_pos hc] at h ⊢
    exact group_err_eq {} _ false (fun ds => ds.marker) e h
  · rw [if_neg hc] at h ⊢
    dsimp only at h ⊢
    generalize (Nl.vocab.lookup w).getD (.fail .nan) = act at h ⊢
    cases hr : (act.exec {}).1 with
    | none => rw [hr] at h; simp at h <;> (split at h <;> cases h)
    | some e' =>
      obtain ⟨tb, he⟩ := exec_err act {} e' hr
      rw [he]; rfl

theorem nl_errFresh : Nl.lang.ErrFresh := fun w e h => nl_apply_fresh w e h

/-- Dutch refuses, in every state, every word that is not splittable and not in its vocabulary (and that is
not the decimal separator `komma`) -/
theorem nl_rejects (w : Word) (h1 : isSplittable Nl.patterns w = false) (h2 : Nl.vocab.lookup w = none)
    (h3 : (w == w!"komma") = false) : Nl.lang.Rejects w := by
  have key : ∀ b, ∃ e, (Nl.apply w b).1 = some e ∧ e ≠ Err.incomplete := by
    intro b
    refine ⟨Err.nan, ?_, by decide⟩
    unfold Nl.apply Nl.applyFuel
    rw [if_neg (by rw [h1]; simp)]
    simp [h2, Act.exec]
  exact Lang.rejects_of_apply Nl.lang w key key h3

/-- … and every compound whose group is refused (with an error other than `Incomplete`) -/
theorem nl_rejects_compound (w : Word) (e : Err) (h1 : isSplittable Nl.patterns w = true)
    (h2 : groupErr (execGroup (Nl.applyFuel 1) (splitWord Nl.patterns w)) = some e)
    (h3 : e ≠ Err.incomplete) (h4 : (w == w!"komma") = false) : Nl.lang.Rejects w := by
  have key : ∀ b, ∃ e, (Nl.apply w b).1 = some e ∧ e ≠ Err.incomplete := by
    intro b
    refine ⟨e, ?_, h3⟩
    unfold Nl.apply Nl.applyFuel
    rw [if_pos h1]
    exact group_error b _ false (fun ds => ds.marker) e h2
  exact Lang.rejects_of_apply Nl.lang w key key h4

theorem nl_rejects_comma : Nl.lang.Rejects [','] := nl_rejects _ (by decide) (by decide) (by decide)

theorem nl_hardBreaker_cfg (cfg : ScanCfg) (hc : cfg.lang = Nl.lang) (tok : Tok)
    (hsk : Scanner.isSkipped cfg tok = false) (hbr : breaks cfg tok = true)
    (hr : Nl.lang.Rejects tok.lower) : HardBreaker cfg tok :=
  hardBreaker_of_rejects cfg tok hsk hbr (by rw [hc]; exact hr) (by rw [hc]; exact nl_rejects_comma)

theorem nl_hardBreaker (thr : Nat → Bool) (tok : Tok)
    (hsk : Scanner.isSkipped (scanCfg Nl.lang thr) tok = false) (hbr : breaks (scanCfg Nl.lang thr) tok = true)
    (h1 : isSplittable Nl.patterns tok.lower = false) (h2 : Nl.vocab.lookup tok.lower = none)
    (h3 : (tok.lower == w!"komma") = false) : HardBreaker (scanCfg Nl.lang thr) tok :=
  nl_hardBreaker_cfg _ rfl tok hsk hbr (nl_rejects tok.lower h1 h2 h3)

example (thr : Nat → Bool) : HardBreaker (scanCfg Nl.lang thr) { text := w!".", lower := w!"." } :=
  nl_hardBreaker thr _ rfl rfl (by decide) (by decide) (by decide)
example (thr : Nat → Bool) : HardBreaker (scanCfg Nl.lang thr) { text := w!"Fiets", lower := w!"fiets" } :=
  nl_hardBreaker thr _ rfl rfl (by decide) (by decide) (by decide)
example : Nl.lang.Rejects w!"fiets" := nl_rejects _ (by decide) (by decide) (by decide)
/-- `katten` contains the pattern `en`; the gap `katt` is refused -/
example : Nl.lang.Rejects w!"katten" :=
  nl_rejects_compound _ Err.nan (by decide) (by decide) (by decide) (by decide)
example (thr : Nat → Bool) : HardBreaker (scanCfg Nl.lang thr) { text := w!"Katten", lower := w!"katten" } :=
  nl_hardBreaker_cfg _ rfl _ rfl rfl
    (nl_rejects_compound _ Err.nan (by decide) (by decide) (by decide) (by decide))

end T2N.ErrFreshAll
