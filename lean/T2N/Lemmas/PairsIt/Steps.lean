/-
  T2N.Lemmas.PairsIt.Steps — scanner steps (threshold 0, plain word tokens) on the abstraction
  "parser holds the integer-mode builder `D`, nothing on hold, the queue holds the texts `q`":
  a word accepted, a word accepted as `Incomplete`, a word refused that starts the next number, a word refused
  that is no number at all, the end of the input. Generic in the language.
-/
import T2N.Lemmas.ExtIt.Scan

set_option maxRecDepth 100000

namespace T2N.PairsIt
open T2N T2N.Spec
open T2N.EnExt (wt skipW pushWords findNumbers_words push_word parser_push_nosep tracker_numberEnd small_zeroThr)

/-- abstraction of the scanner state -/
def SQ (s : Scanner) (D : DS) (q : List Word) : Prop :=
  s.parser = { int := D } ∧ s.tracker.onHold = none ∧ s.tracker.queue.map (·.text) = q

theorem SQ_init : SQ {} {} [] := ⟨rfl, rfl, rfl⟩

/-- a real word: not skipped by the scanner, not the decimal separator -/
def RealW (l : Lang) (w : Word) : Prop := skipW w = false ∧ l.isDecSep w = false

theorem parser_push (l : Lang) (w : Word) (D : DS) (x : Res × DS) (hw : RealW l w) (ha : l.apply w D = x) :
    ({ int := D } : Parser).push l w = (x.1, { int := x.2 }) := by
  rw [parser_push_nosep l { int := D } w rfl hw.2]
  have : l.apply w ({ int := D } : Parser).int = x := ha
  rw [this]

/-- an accepted word -/
theorem push_accept (l : Lang) (s : Scanner) (pos : Nat) (D D' : DS) (q : List Word) (w : Word) (hw : RealW l w)
    (hs : SQ s D q) (ha : l.apply w D = (none, D')) :
    ∃ s', s.push (scanCfg l zeroThr) pos (wt w) = .ok s' ∧ SQ s' D' q := by
  obtain ⟨hp, hh, hq⟩ := hs
  have hpush : s.parser.push l w = (none, { int := D' }) := by
    rw [hp]; exact parser_push l w D _ hw ha
  rw [push_word l zeroThr s pos w hw.1, hpush]
  exact ⟨_, rfl, rfl, hh, hq⟩

/-- a word accepted as `Incomplete` (the conjunction) -/
theorem push_incomplete (l : Lang) (s : Scanner) (pos : Nat) (D D' : DS) (q : List Word) (w : Word) (hw : RealW l w)
    (hs : SQ s D q) (ha : l.apply w D = (some .incomplete, D')) :
    ∃ s', s.push (scanCfg l zeroThr) pos (wt w) = .ok s' ∧ SQ s' D' q := by
  obtain ⟨hp, hh, hq⟩ := hs
  have hpush : s.parser.push l w = (some .incomplete, { int := D' }) := by
    rw [hp]; exact parser_push l w D _ hw ha
  rw [push_word l zeroThr s pos w hw.1, hpush]
  exact ⟨_, rfl, rfl, hh, hq⟩

/-- a word refused (not with `Incomplete`) while the number `D` is open: `D` is emitted; `x` is what the word does on
a fresh builder -/
theorem push_reject (l : Lang) (s : Scanner) (pos : Nat) (D : DS) (q : List Word) (text : Word) (val : Value)
    (w : Word) (er : Err) (x : Res × DS) (her : er ≠ .incomplete) (hw : RealW l w) (hs : SQ s D q)
    (hne : D.isEmpty = false) (hf : l.formatW D = .ok (text, val))
    (ha : l.apply w D = (some er, D)) (hb : l.apply w {} = x) (hx : x.1 = none ∨ x.2 = {}) :
    ∃ s', s.push (scanCfg l zeroThr) pos (wt w) = .ok s' ∧ SQ s' x.2 (q ++ [text]) := by
  obtain ⟨hp, hh, hq⟩ := hs
  have hpush : s.parser.push l w = (some er, { int := D }) := by
    rw [hp]; exact parser_push l w D _ hw ha
  have hrej : s.push (scanCfg l zeroThr) pos (wt w) =
      Scanner.pushRejected (scanCfg l zeroThr) { s with parser := { int := D } } pos (wt w) := by
    rw [push_word l zeroThr s pos w hw.1, hpush]
    cases er with
    | incomplete => exact absurd rfl her
    | overlap => rfl
    | nan => rfl
    | frozen => rfl
  rw [hrej]
  unfold Scanner.pushRejected
  have hn : ({ s with parser := { int := D } } : Scanner).parser.hasNumber = true := by
    show (!D.isEmpty) = true; rw [hne]; rfl
  rw [if_pos hn]
  unfold Scanner.numberEnd
  have hfin : ({ s with parser := { int := D } } : Scanner).parser.finish (scanCfg l zeroThr).lang =
      .ok (text, val) := hf
  rw [hfin]
  dsimp only
  rw [small_zeroThr, Bool.and_false]
  have hpush2 : Parser.push (scanCfg l zeroThr).lang {} (wt w).lower = (x.1, { int := x.2 }) :=
    parser_push l w {} x hw hb
  rw [hpush2]
  obtain ⟨t1, t2⟩ := tracker_numberEnd s.tracker D.isOrdinal text val hh
  have hq' : List.map (·.text) (s.tracker.numberEnd D.isOrdinal text val false).queue = q ++ [text] := by
    rw [t2, List.map_append, hq]; rfl
  dsimp only
  cases hr : x.1 with
  | none => exact ⟨_, rfl, rfl, t1, hq'⟩
  | some e =>
    refine ⟨_, rfl, ?_⟩
    rcases hx with hx | hx
    · rw [hr] at hx; cases hx
    · -- `Incomplete` on the fresh parser leaves the scanner as it is; any other error goes through `outside`
      cases e with
      | incomplete => exact ⟨rfl, t1, hq'⟩
      | overlap | nan | frozen =>
        show SQ (Scanner.outside _ _ _) _ _
        unfold Scanner.outside
        split
        · exact ⟨rfl, t1, hq'⟩
        · exact ⟨rfl, t1, hq'⟩

/-- end of the input while the number `D` is open -/
theorem finalize_open (l : Lang) (s : Scanner) (D : DS) (q : List Word) (text : Word) (val : Value) (hs : SQ s D q)
    (hne : D.isEmpty = false) (hf : l.formatW D = .ok (text, val)) :
    ∃ sf, s.finalize (scanCfg l zeroThr) = .ok sf ∧ sf.tracker.queue.map (·.text) = q ++ [text] := by
  obtain ⟨hp, hh, hq⟩ := hs
  unfold Scanner.finalize
  have hn : s.parser.hasNumber = true := by
    rw [hp]; show (!D.isEmpty) = true; rw [hne]; rfl
  rw [hn, if_pos rfl]
  unfold Scanner.numberEnd
  have hfin : s.parser.finish (scanCfg l zeroThr).lang = .ok (text, val) := by
    rw [hp]; exact hf
  rw [hfin]
  dsimp only
  rw [small_zeroThr, Bool.and_false]
  obtain ⟨_, t2⟩ := tracker_numberEnd s.tracker s.parser.isOrdinal text val hh
  refine ⟨_, rfl, ?_⟩
  show List.map (·.text) (s.tracker.numberEnd s.parser.isOrdinal text val false).queue = _
  rw [t2, List.map_append, hq]
  rfl

/-- from a run of the scanner loop to `occTexts` -/
theorem occTexts_of_run (l : Lang) (ws : List Word) (s sf : Scanner) (q : List Word)
    (h1 : pushWords (scanCfg l zeroThr) {} 0 ws = .ok s) (h2 : s.finalize (scanCfg l zeroThr) = .ok sf)
    (h3 : sf.tracker.queue.map (·.text) = q) : occTexts l zeroThr ws = some q := by
  unfold occTexts
  rw [findNumbers_words, h1]
  dsimp only
  rw [h2]
  dsimp only
  rw [h3]

end T2N.PairsIt
