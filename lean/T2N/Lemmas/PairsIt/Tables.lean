/-
  T2N.Lemmas.PairsIt.Tables — Italian pair rule: the kernel-checked tables (each over one number below 100).
  * `rowA n`  — the standard spelling of `n` is the one word `W n`; on an empty builder it is accepted and leaves
                `Da n`; `Da n` is formatted as the decimal text of `n`.
  * `rowB b`  — (10 ≤ b) the word `W b` either is a plain vocabulary word bound to `put [b/10, b%10]`, or a compound
                whose pieces, interpreted on a fresh builder, give `Da b`.
  * `rowS a`  — (1 ≤ a) on the state `Da a`: `zero`, `uno`, `otto` are refused; `due … nove` (not `otto`) are
                accepted exactly after a round ten ≥ 20 (giving `Da (a + d)`), refused otherwise; `e` is `Incomplete`
                from 10 on and refused below; shape facts about `Da a`.
  * `rowF a`  — the speller side of `fused`.
-/
import T2N.Lemmas.PairsIt.Defs
import T2N.Lemmas.C01It.Tables

set_option maxRecDepth 100000

namespace T2N.PairsIt
open T2N T2N.Spec

/-- refused with an error other than `Incomplete`, builder unchanged -/
def isRej (x : Res × DS) (D : DS) : Bool :=
  match x with
  | (some er, D') => er != Err.incomplete && D' == D
  | _ => false

theorem isRej_spec (x : Res × DS) (D : DS) (h : isRej x D = true) : ∃ er, er ≠ Err.incomplete ∧ x = (some er, D) := by
  obtain ⟨r, D'⟩ := x
  cases r with
  | none => exact absurd h (by simp [isRej])
  | some er =>
    simp only [isRej, Bool.and_eq_true, bne_iff_ne, ne_eq, beq_iff_eq] at h
    exact ⟨er, h.1, by rw [h.2]⟩

def fmtOk (D : DS) (t : Word) : Bool :=
  match It.lang.formatW D with
  | .ok (t', _) => t' == t
  | .error _ => false

theorem fmtOk_spec (D : DS) (t : Word) (h : fmtOk D t = true) : ∃ val, It.lang.formatW D = .ok (t, val) := by
  unfold fmtOk at h
  cases hf : It.lang.formatW D with
  | error f => rw [hf] at h; exact absurd h (by simp)
  | ok tv =>
    obtain ⟨t', val⟩ := tv
    rw [hf] at h
    exact ⟨val, by rw [beq_iff_eq.mp h]⟩

def rowA (n : Nat) : Bool :=
  std n == [W n] && It.apply (W n) {} == (none, Da n) && fmtOk (Da n) (decChars n) && !(Da n).isEmpty

def isPut : Option Act → List Nat → Bool
  | some (.put ds), ds' => ds == ds'
  | _, _ => false

theorem isPut_spec (o : Option Act) (ds : List Nat) (h : isPut o ds = true) : o = some (.put ds) := by
  cases o with
  | none => exact absurd h (by simp [isPut])
  | some a =>
    cases a with
    | put ds' =>
      simp only [isPut, beq_iff_eq] at h
      rw [h]
    | _ => exact absurd h (by simp [isPut])

def subOk (w : Word) (D : DS) : Bool :=
  match execGroup (It.applyFuel 1) (splitWord It.patterns w) with
  | .ok ds => ds == D
  | .error _ => false

theorem subOk_spec (w : Word) (D : DS) (h : subOk w D = true) :
    execGroup (It.applyFuel 1) (splitWord It.patterns w) = .ok D := by
  unfold subOk at h
  cases hx : execGroup (It.applyFuel 1) (splitWord It.patterns w) with
  | error e => rw [hx] at h; exact absurd h (by simp)
  | ok ds => rw [hx] at h; rw [beq_iff_eq.mp h]

def rowB (b : Nat) : Bool :=
  C01It.lemOk (W b) &&
    (if isSplittable It.patterns (W b) then subOk (W b) (Da b)
     else !(W b == w!"non") && isPut (It.vocab.lookup (W b)) [b / 10, b % 10])

def shapeOk (D : DS) : Bool :=
  !D.frozen && !D.rbuf.isEmpty && (decide (D.rbuf.length < 2) || !allZero (D.rbuf.take 2))

def isTen (a : Nat) : Bool := 20 ≤ a && a % 10 == 0

def rowS (a : Nat) : Bool :=
  shapeOk (Da a) &&
  [0, 1, 8].all (fun d => isRej (It.apply (W d) (Da a)) (Da a)) &&
  [2, 3, 4, 5, 6, 7, 9].all (fun d =>
    if isTen a then It.apply (W d) (Da a) == (none, Da (a + d)) else isRej (It.apply (W d) (Da a)) (Da a)) &&
  (if 10 ≤ a then It.apply Spec.It.conj (Da a) == (some .incomplete, Da a)
   else isRej (It.apply Spec.It.conj (Da a)) (Da a))

def rowF (a : Nat) : Bool :=
  checkRange (fun b => match fused a b false with
    | some c => norm (Spec.It.cardinal (tableVar 2) c) == norm (std a ++ std b)
    | none => true) 0 100

theorem tblA : checkRange rowA 0 100 = true := by decide +kernel
theorem tblB : checkRange rowB 10 90 = true := by decide +kernel
theorem tblS : checkRange rowS 1 99 = true := by decide +kernel
theorem tblF : checkRange rowF 0 100 = true := by decide +kernel

theorem rowA_all (n : Nat) (h : n < 100) : rowA n = true := checkRange_spec rowA 100 0 tblA n (by omega) (by omega)
theorem rowB_all (b : Nat) (h0 : 10 ≤ b) (h : b < 100) : rowB b = true :=
  checkRange_spec rowB 90 10 tblB b h0 (by omega)
theorem rowS_all (a : Nat) (h0 : 1 ≤ a) (h : a < 100) : rowS a = true :=
  checkRange_spec rowS 99 1 tblS a h0 (by omega)
theorem rowF_all (a : Nat) (h : a < 100) : rowF a = true := checkRange_spec rowF 100 0 tblF a (by omega) (by omega)

/-- `e` and the refused `zero` on the fresh / zero-only builder -/
theorem conj_fresh : It.apply Spec.It.conj {} = (some .nan, {}) := by decide +kernel
theorem conj_zero : It.apply Spec.It.conj (Da 0) = (some .nan, Da 0) := by decide +kernel

end T2N.PairsIt
