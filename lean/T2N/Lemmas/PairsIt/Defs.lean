/-
  T2N.Lemmas.PairsIt.Defs — Italian, C08 first half (two complete numbers below 100 spoken one after the other):
  the explicit fusion rule `fused`, the expected scanner output `expected`, the normalisation of word lists used to
  compare with the speller, and the builder state `Da a` reached after the (one-word) standard spelling of `a`.
-/
import T2N.Lemmas.SpecCheck

namespace T2N.PairsIt
open T2N T2N.Spec

/-- standard spelling (every choice point answers 0): one word below one million -/
def std (n : Nat) : List Word := Spec.It.cardinal (fun _ => 0) n

/-- the words between the two numbers: nothing, or the conjunction `e` -/
def joiner (cj : Bool) : List Word := if cj then [Spec.It.conj] else []

/-- the phrase `a (e) b` -/
def phrase (a b : Nat) (cj : Bool) : List Word := std a ++ joiner cj ++ std b

/-- **the Italian fusion rule**: a round ten `venti … novanta` followed (with or without `e`) by a unit other than
`uno` / `otto` reads as their sum (`venti due`, `venti e due` ↦ 22); nothing else fuses — in particular not
`venti uno`, `venti otto` (mandatory elision `ventuno`, `ventotto`), not `dieci due`, not `venti dodici`. -/
def fused (a b : Nat) (_cj : Bool) : Option Nat :=
  if a ∈ [20, 30, 40, 50, 60, 70, 80, 90] ∧ b ∈ [2, 3, 4, 5, 6, 7, 9] then some (a + b) else none

/-- **what the scanner must find** in `a (e) b`: the fused number; else, for a spoken `zero` directly followed by
`b` (no conjunction), the zero attaches to `b` as a leading zero (`zero sette` ↦ `07`, `zero zero` ↦ `00`: the
dictation half of C08); else both numbers, in order. -/
def expected (a b : Nat) (cj : Bool) : List Word :=
  match fused a b cj with
  | some c => [decChars c]
  | none => if a = 0 ∧ cj = false then ['0' :: decChars b] else [decChars a, decChars b]

/-- normalisation of a word list before comparing spellings: the conjunction is dropped
(Italian spellings contain no hyphen, so there is nothing to open) -/
def norm (ws : List Word) : List Word := ws.filter (fun w => w != Spec.It.conj)

/-- the builder after the standard spelling of `a < 100` on an empty builder -/
def Da (a : Nat) : DS :=
  if a = 0 then { lz := 1 } else if a < 10 then { rbuf := [a] } else { rbuf := [a % 10, a / 10] }

/-- the one word of the standard spelling of `n < 100` -/
def W (n : Nat) : Word := (std n).headD []

end T2N.PairsIt
