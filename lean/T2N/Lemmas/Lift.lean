/-
  T2N.Lemmas.Lift — from the validator to the scanner (C07 clauses 2 and 3, and the "in a sentence"
  half of C01).

  (A) A phrase that `text2digits` accepts is seen by `find_numbers` (threshold 0, no pause hints) as
      exactly ONE occurrence, with the same digit text, spanning the phrase from its first accepted word
      to its last word — also when skipped tokens are interleaved and when the phrase stands between
      tokens that are not number words:
        `valid_is_one` (first word accepted), `valid_is_one_general` (no hypothesis on the first word),
        `valid_is_one_builtin` (seven interpreters: no hypothesis on the decimal separator either),
        `valid_is_one_sentence`, `valid_is_one_words` (phrases given as words, `wordTokens`).
      English: `EnScan.scan_en_all`, `EnScan.scan_en_sentence` (every spelled cardinal below 10^12).
  (B) With threshold 0 (any pause hints), every token whose word is a valid number on its own, that was
      not set aside (`nan = false`) and that the language never answers `Incomplete` (`NeverInc`), lies
      inside some reported occurrence: `nothing_left`. For the seven interpreters a word that is valid on
      its own is never answered `Incomplete`: `neverInc_builtin` (no counter-example exists).

  Method for (A): forward simulation of the loop in three stretches — before the phrase the scanner
  stays `Closed []`; inside the phrase it is `OpenSt a e b` with `b` following `execGroupFrom`; after the
  phrase the first plain word ends the number (`Closed [occ]`). Method for (B): "position `i` is
  `Covered`" is preserved by every push at threshold 0 (`push_mono`), and established when token `i` is
  pushed (`push_covers`, using the agreement invariant `AInv` of T2N/Lemmas/Agree.lean).
-/
import T2N.Lemmas.Agree
import T2N.Lemmas.Reset
import T2N.Lemmas.SimpleCC
import T2N.Lemmas.C01En
import T2N.Model.Langs

namespace T2N.Lift
open T2N

/-! ### threshold 0: nothing is held back -/

theorem small_zero (cfg : ScanCfg) (hthr : ∀ n, cfg.thrLt n = false) (v : Value) : cfg.small v = false := by
  unfold ScanCfg.small
  split
  · exact hthr _
  · rfl

/-- with nothing on hold and `forget = false` the new occurrence goes to the queue -/
theorem numberEnd_nohold (t : Tracker) (o : Bool) (tx : Word) (v : Value) (h : t.onHold = none) :
    t.numberEnd o tx v false =
      { t with queue := t.queue ++ [⟨t.mstart, t.mend, tx, v, o⟩], onHold := none,
               last := if o then Kind.ordinal else Kind.cardinal, mstart := t.mend } := by
  unfold Tracker.numberEnd
  dsimp only
  by_cases hc : (t.last == (if o = true then Kind.ordinal else Kind.cardinal)) = true
  · rw [if_pos hc, h]; simp
  · rw [if_neg hc]; simp

theorem scanner_numberEnd_thr0 (cfg : ScanCfg) (hthr : ∀ n, cfg.thrLt n = false) (s : Scanner)
    (text : Word) (value : Value) (hf : s.parser.finish cfg.lang = .ok (text, value)) :
    s.numberEnd cfg =
      .ok { s with parser := {}, tracker := s.tracker.numberEnd s.parser.isOrdinal text value false } := by
  unfold Scanner.numberEnd
  rw [hf]
  dsimp only
  rw [small_zero cfg hthr, Bool.and_false]

/-! ### the loop -/

theorem pushAll_cons (cfg : ScanCfg) (s s1 : Scanner) (pos : Nat) (t : Tok) (ts : List Tok)
    (h : s.push cfg pos t = .ok s1) :
    Scanner.pushAll cfg s (enumFrom pos (t :: ts)) = Scanner.pushAll cfg s1 (enumFrom (pos + 1) ts) := by
  simp only [enumFrom, Scanner.pushAll, h]

theorem pushAll_append_ok (cfg : ScanCfg) (xs ys : List Tok) (s s1 : Scanner) (pos : Nat)
    (h : Scanner.pushAll cfg s (enumFrom pos xs) = .ok s1) :
    Scanner.pushAll cfg s (enumFrom pos (xs ++ ys)) = Scanner.pushAll cfg s1 (enumFrom (pos + xs.length) ys) := by
  rw [enumFrom_append, Scanner.pushAll_append, h]

theorem wordsOf_cons_skipped (cfg : ScanCfg) (t : Tok) (ts : List Tok) (h : Scanner.isSkipped cfg t = true) :
    wordsOf cfg (t :: ts) = wordsOf cfg ts := by
  simp [wordsOf, h]

theorem wordsOf_cons (cfg : ScanCfg) (t : Tok) (ts : List Tok) (h : Scanner.isSkipped cfg t = false) :
    wordsOf cfg (t :: ts) = t.lower :: wordsOf cfg ts := by
  simp [wordsOf, h]

/-! ### one push of the parser, outside decimal mode -/

theorem parser_push_ok (l : Lang) (p : Parser) (w : Word) (hd : p.isDec = false) (b' : DS)
    (ha : l.apply w p.int = (none, b')) : p.push l w = (none, { p with int := b' }) := by
  rcases Parser.push_nondec_cases l p w hd with ⟨b1, h1, hp⟩ | ⟨e, b1, h1, _, _, _⟩ | ⟨e, b1, h1, _⟩
  · rw [ha] at h1; cases h1; exact hp
  · rw [ha] at h1; cases h1
  · rw [ha] at h1; cases h1

theorem parser_push_err (l : Lang) (p : Parser) (w : Word) (hd : p.isDec = false) (e : Err) (b' : DS)
    (ha : l.apply w p.int = (some e, b')) (hs : l.isDecSep w = false) :
    p.push l w = (some e, { p with int := b' }) := by
  rcases Parser.push_nondec_cases l p w hd with ⟨b1, h1, _⟩ | ⟨e1, b1, _, h2, _, _⟩ | ⟨e1, b1, h1, hp⟩
  · rw [ha] at h1; cases h1
  · rw [hs] at h2; cases h2
  · rw [ha] at h1; cases h1; exact hp

theorem testWord_nosep (cfg : ScanCfg) (hsep : ∀ a b, cfg.sep a b = false) (s : Scanner) (tok : Tok) :
    Scanner.testWord cfg s tok = tok.lower := by
  unfold Scanner.testWord
  cases s.previous with
  | none => rfl
  | some prev => dsimp only; rw [hsep, Bool.and_false]; rfl

/-! ### states -/

/-- no number is held, no match is open, nothing is on hold; the decided occurrences are `q` -/
def Closed (q : List Occ) (s : Scanner) : Prop :=
  s.parser = {} ∧ s.tracker.queue = q ∧ s.tracker.onHold = none ∧ s.tracker.mstart = s.tracker.mend

/-- the match `[a, e)` is open, the integer builder is `b`, nothing has been decided yet -/
def OpenSt (a e : Nat) (b : DS) (s : Scanner) : Prop :=
  s.parser = { int := b } ∧ s.tracker.queue = [] ∧ s.tracker.onHold = none ∧
    s.tracker.mstart = a ∧ s.tracker.mend = e

theorem Closed.outside {q : List Occ} {s : Scanner} (h : Closed q s) (cfg : ScanCfg) (tok : Tok)
    (prev : Option Tok) : Closed q { (s.outside cfg tok) with previous := prev } := by
  rw [outside_eq]
  split
  · exact h
  · exact h

/-- a token that cannot open a number: skipped, hinted as not being part of a number, or its word is
not accepted by the fresh builder -/
def IdleTok (cfg : ScanCfg) (t : Tok) : Prop :=
  Scanner.isSkipped cfg t = true ∨ t.nan = true ∨ (cfg.lang.apply t.lower DS.new).1 ≠ none

/-- a token that ends a number: skipped (no effect), hinted as not being part of a number, or its
word is refused by the parser in every state with an error other than `Incomplete` -/
def PlainTok (cfg : ScanCfg) (t : Tok) : Prop :=
  Scanner.isSkipped cfg t = true ∨ t.nan = true ∨ cfg.lang.Rejects t.lower

theorem not_accepted_of_rejects (l : Lang) (w : Word) (h : l.Rejects w) : (l.apply w DS.new).1 ≠ none := by
  intro hn
  obtain ⟨e, he, _⟩ := h {}
  cases hr : l.apply w DS.new with
  | mk r b' =>
    rw [hr] at hn
    have hn' : r = none := hn
    subst hn'
    have := parser_push_ok l {} w rfl b' hr
    rw [this] at he
    cases he

theorem PlainTok.idle {cfg : ScanCfg} {t : Tok} (h : PlainTok cfg t) : IdleTok cfg t := by
  rcases h with h | h | h
  · exact Or.inl h
  · exact Or.inr (Or.inl h)
  · exact Or.inr (Or.inr (not_accepted_of_rejects _ _ h))

/-- an idle token leaves a closed scanner closed -/
theorem push_idle_closed (cfg : ScanCfg) (hl : LangAgree cfg.lang) (q : List Occ) (s : Scanner) (pos : Nat)
    (tok : Tok) (h : Closed q s) (ht : IdleTok cfg tok) :
    ∃ s', s.push cfg pos tok = .ok s' ∧ Closed q s' := by
  have hp : s.parser = {} := h.1
  have hnum : s.parser.hasNumber = false := by rw [hp]; rfl
  unfold Scanner.push
  by_cases hs : Scanner.isSkipped cfg tok = true
  · rw [if_pos hs]; exact ⟨s, rfl, h⟩
  rw [if_neg hs]
  by_cases hnan : tok.nan = true
  · rw [if_pos hnan]
    unfold Scanner.pushNan
    rw [if_neg (by rw [hnum]; exact Bool.false_ne_true)]
    exact ⟨_, rfl, h.outside cfg tok _⟩
  rw [if_neg hnan]
  have hna : (cfg.lang.apply tok.lower DS.new).1 ≠ none := by
    rcases ht with h1 | h1 | h1
    · exact absurd h1 hs
    · exact absurd h1 hnan
    · exact h1
  rw [testWord_idle cfg s tok hnum]
  rcases Parser.push_closed cfg.lang hl s.parser tok.lower (by rw [hp]; try rfl) (by rw [hp]; try rfl) with
    ⟨b', ha, _⟩ | ⟨e, he⟩
  · rw [ha] at hna; exact absurd rfl hna
  · rw [he]
    dsimp only
    have hcl : Closed q ({ s with parser := s.parser } : Scanner) := h
    cases e with
    | incomplete => exact ⟨_, rfl, hcl⟩
    | overlap =>
      dsimp only
      unfold Scanner.pushRejected
      rw [if_neg (by dsimp only; rw [hnum]; exact Bool.false_ne_true)]
      exact ⟨_, rfl, hcl.outside cfg tok _⟩
    | nan =>
      dsimp only
      unfold Scanner.pushRejected
      rw [if_neg (by dsimp only; rw [hnum]; exact Bool.false_ne_true)]
      exact ⟨_, rfl, hcl.outside cfg tok _⟩
    | frozen =>
      dsimp only
      unfold Scanner.pushRejected
      rw [if_neg (by dsimp only; rw [hnum]; exact Bool.false_ne_true)]
      exact ⟨_, rfl, hcl.outside cfg tok _⟩

theorem pushAll_idle_closed (cfg : ScanCfg) (hl : LangAgree cfg.lang) (q : List Occ) (ts : List Tok) :
    ∀ (s : Scanner) (pos : Nat), Closed q s → (∀ t ∈ ts, IdleTok cfg t) →
      ∃ s', Scanner.pushAll cfg s (enumFrom pos ts) = .ok s' ∧ Closed q s' := by
  induction ts with
  | nil => intro s pos h _; exact ⟨s, rfl, h⟩
  | cons t ts ih =>
    intro s pos h ht
    obtain ⟨s1, h1, c1⟩ := push_idle_closed cfg hl q s pos t h (ht t (List.mem_cons_self ..))
    obtain ⟨s2, h2, c2⟩ := ih s1 (pos + 1) c1 (fun t' ht' => ht t' (List.mem_cons_of_mem _ ht'))
    exact ⟨s2, by rw [pushAll_cons cfg s s1 pos t ts h1]; exact h2, c2⟩

/-! ### the phrase: every word is accepted or answered `Incomplete` -/

/-- what is asked of a token of the phrase: if it is not skipped, it is not hinted as foreign to numbers
and its word is not the decimal separator -/
def CoreTok (cfg : ScanCfg) (t : Tok) : Prop :=
  Scanner.isSkipped cfg t = false → t.nan = false ∧ cfg.lang.isDecSep t.lower = false

theorem OpenSt.hasNumber {a e : Nat} {b : DS} {s : Scanner} (h : OpenSt a e b s) (hb : b.isEmpty = false) :
    s.parser.hasNumber = true := by
  rw [h.1]; show (!b.isEmpty) = true; rw [hb]; rfl

/-- one word of the phrase while the match is open: one step of `execGroupFrom` -/
theorem push_open_step (cfg : ScanCfg) (hsep : ∀ x y, cfg.sep x y = false) (s : Scanner) (pos : Nat)
    (tok : Tok) (a e : Nat) (b : DS) (h : OpenSt a e b s) (hae : a < e) (hep : e ≤ pos)
    (hs : Scanner.isSkipped cfg tok = false) (hn : tok.nan = false) (hds : cfg.lang.isDecSep tok.lower = false)
    (rest : List Word) (inc : Bool) (ds : DS)
    (hx : execGroupFrom cfg.lang.apply (tok.lower :: rest) b inc = .ok ds) :
    ∃ s' e' b' inc', s.push cfg pos tok = .ok s' ∧ OpenSt a e' b' s' ∧ e ≤ e' ∧ e' ≤ pos + 1 ∧
      execGroupFrom cfg.lang.apply rest b' inc' = .ok ds ∧ (rest = [] → e' = pos + 1) := by
  obtain ⟨hp, hq, hh, hms, hme⟩ := h
  have hd : s.parser.isDec = false := by rw [hp]
  have hi : s.parser.int = b := by rw [hp]
  unfold Scanner.push
  rw [if_neg (by rw [hs]; exact Bool.false_ne_true), if_neg (by rw [hn]; exact Bool.false_ne_true)]
  rw [testWord_nosep cfg hsep]
  cases hr : cfg.lang.apply tok.lower b with
  | mk r b' =>
    cases r with
    | none =>
      rw [execGroupFrom_cons_ok hr] at hx
      rw [parser_push_ok cfg.lang s.parser tok.lower hd b' (by rw [hi]; exact hr)]
      dsimp only
      refine ⟨_, pos + 1, b', false, rfl, ⟨?_, hq, hh, ?_, rfl⟩, by omega, Nat.le_refl _, hx, fun _ => rfl⟩
      · show ({ s.parser with int := b' } : Parser) = { int := b' }
        rw [hp]
      · show (s.tracker.advanced pos).mstart = a
        rw [Tracker.advanced_open _ _ (by omega)]; exact hms
    | some err =>
      by_cases he : err = .incomplete
      · subst he
        rw [execGroupFrom_cons_inc hr] at hx
        rw [parser_push_err cfg.lang s.parser tok.lower hd _ b' (by rw [hi]; exact hr) hds]
        dsimp only
        refine ⟨_, e, b', true, rfl, ⟨?_, hq, hh, hms, hme⟩, Nat.le_refl _, by omega, hx, ?_⟩
        · show ({ s.parser with int := b' } : Parser) = { int := b' }
          rw [hp]
        · intro hrest
          rw [hrest] at hx
          simp [execGroupFrom] at hx
      · rw [execGroupFrom_cons_err hr he] at hx; cases hx

/-- **the words of the phrase after the first one**: the match stays open, the builder follows
`execGroupFrom`, and the match ends after the last word -/
theorem run_open (cfg : ScanCfg) (hsep : ∀ x y, cfg.sep x y = false) (M : List Tok) :
    ∀ (s : Scanner) (pos a e : Nat) (b : DS) (inc : Bool) (ds : DS), OpenSt a e b s → a < e → e ≤ pos →
      (∀ t ∈ M, CoreTok cfg t) → execGroupFrom cfg.lang.apply (wordsOf cfg M) b inc = .ok ds →
      ∃ s' e', Scanner.pushAll cfg s (enumFrom pos M) = .ok s' ∧ OpenSt a e' ds s' ∧ e ≤ e' ∧
        e' ≤ pos + M.length ∧
        (M ≠ [] → (∀ t ∈ M.getLast?, Scanner.isSkipped cfg t = false) → e' = pos + M.length) := by
  induction M with
  | nil =>
    intro s pos a e b inc ds h _ hep _ hx
    cases inc with
    | true => simp [wordsOf, execGroupFrom] at hx
    | false =>
      simp only [wordsOf, List.filter_nil, List.map_nil, execGroupFrom, Bool.false_eq_true, if_false] at hx
      cases hx
      exact ⟨s, e, rfl, h, Nat.le_refl _, by simpa using hep, fun hne => absurd rfl hne⟩
  | cons t ts ih =>
    intro s pos a e b inc ds h hae hep hM hx
    have hts : ∀ t' ∈ ts, CoreTok cfg t' := fun t' ht' => hM t' (List.mem_cons_of_mem _ ht')
    by_cases hs : Scanner.isSkipped cfg t = true
    · have hpush : s.push cfg pos t = .ok s := by
        unfold Scanner.push; rw [if_pos hs]
      rw [wordsOf_cons_skipped cfg t ts hs] at hx
      obtain ⟨s', e', h1, h2, h3, h4, h5⟩ := ih s (pos + 1) a e b inc ds h hae (by omega) hts hx
      refine ⟨s', e', by rw [pushAll_cons cfg s s pos t ts hpush]; exact h1, h2, h3,
        by rw [List.length_cons]; omega, ?_⟩
      intro _ hlast
      cases ts with
      | nil =>
        have := hlast t (by simp)
        rw [hs] at this; cases this
      | cons t' ts' =>
        rw [List.getLast?_cons_cons] at hlast
        have := h5 (by simp) hlast
        rw [List.length_cons]; omega
    · have hs' : Scanner.isSkipped cfg t = false := by simpa using hs
      obtain ⟨hnan, hds⟩ := hM t (List.mem_cons_self ..) hs'
      rw [wordsOf_cons cfg t ts hs'] at hx
      obtain ⟨s1, e1, b1, inc1, p1, o1, le1, ub1, x1, last1⟩ :=
        push_open_step cfg hsep s pos t a e b h hae hep hs' hnan hds (wordsOf cfg ts) inc ds hx
      obtain ⟨s', e', h1, h2, h3, h4, h5⟩ := ih s1 (pos + 1) a e1 b1 inc1 ds o1 (by omega) ub1 hts x1
      refine ⟨s', e', by rw [pushAll_cons cfg s s1 pos t ts p1]; exact h1, h2, by omega,
        by rw [List.length_cons]; omega, ?_⟩
      intro _ hlast
      cases ts with
      | nil =>
        have := last1 rfl
        simp only [List.length_nil] at h4
        simp only [List.length_cons, List.length_nil]
        omega
      | cons t' ts' =>
        rw [List.getLast?_cons_cons] at hlast
        have := h5 (by simp) hlast
        rw [List.length_cons]; omega

/-! ### the three outcomes of `push` on a word token -/

theorem push_accepted_eq (cfg : ScanCfg) (s : Scanner) (pos : Nat) (tok : Tok)
    (hs : Scanner.isSkipped cfg tok = false) (hn : tok.nan = false) (p' : Parser)
    (hpush : s.parser.push cfg.lang (Scanner.testWord cfg s tok) = (none, p')) :
    s.push cfg pos tok = .ok { s with parser := p', tracker := s.tracker.advanced pos, previous := some tok } := by
  unfold Scanner.push
  rw [if_neg (by rw [hs]; exact Bool.false_ne_true), if_neg (by rw [hn]; exact Bool.false_ne_true), hpush]

theorem push_incomplete_eq (cfg : ScanCfg) (s : Scanner) (pos : Nat) (tok : Tok)
    (hs : Scanner.isSkipped cfg tok = false) (hn : tok.nan = false) (p' : Parser)
    (hpush : s.parser.push cfg.lang (Scanner.testWord cfg s tok) = (some .incomplete, p')) :
    s.push cfg pos tok = .ok { s with parser := p', previous := some tok } := by
  unfold Scanner.push
  rw [if_neg (by rw [hs]; exact Bool.false_ne_true), if_neg (by rw [hn]; exact Bool.false_ne_true), hpush]

theorem push_rejected_eq (cfg : ScanCfg) (s : Scanner) (pos : Nat) (tok : Tok)
    (hs : Scanner.isSkipped cfg tok = false) (hn : tok.nan = false) (e : Err) (p' : Parser)
    (hpush : s.parser.push cfg.lang (Scanner.testWord cfg s tok) = (some e, p')) (hne : e ≠ .incomplete) :
    s.push cfg pos tok = Scanner.pushRejected cfg { s with parser := p' } pos tok := by
  unfold Scanner.push
  rw [if_neg (by rw [hs]; exact Bool.false_ne_true), if_neg (by rw [hn]; exact Bool.false_ne_true), hpush]
  cases e with
  | incomplete => exact absurd rfl hne
  | overlap => rfl
  | nan => rfl
  | frozen => rfl

/-! ### the first word of the phrase opens the match -/

theorem push_first (cfg : ScanCfg) (s : Scanner) (pos : Nat) (tok : Tok) (h : Closed [] s)
    (hs : Scanner.isSkipped cfg tok = false) (hn : tok.nan = false) (b0 : DS)
    (ha : cfg.lang.apply tok.lower DS.new = (none, b0)) :
    ∃ s', s.push cfg pos tok = .ok s' ∧ OpenSt pos (pos + 1) b0 s' := by
  obtain ⟨hp, hq, hh, hm⟩ := h
  have hnum : s.parser.hasNumber = false := by rw [hp]; rfl
  have hpush : s.parser.push cfg.lang (Scanner.testWord cfg s tok) = (none, { s.parser with int := b0 }) := by
    rw [testWord_idle cfg s tok hnum]
    exact parser_push_ok cfg.lang s.parser tok.lower (by rw [hp]) b0 (by rw [hp]; exact ha)
  refine ⟨_, push_accepted_eq cfg s pos tok hs hn _ hpush, ?_, hq, hh, ?_, rfl⟩
  · show ({ s.parser with int := b0 } : Parser) = { int := b0 }
    rw [hp]
  · show (s.tracker.advanced pos).mstart = pos
    exact Tracker.advanced_closed _ _ hm

/-! ### what follows the phrase ends the number -/

/-- ending the open number at threshold 0: one occurrence, nothing else -/
theorem numberEnd_closes (cfg : ScanCfg) (hthr : ∀ n, cfg.thrLt n = false) (s : Scanner) (a e : Nat)
    (b : DS) (d : Word) (v : Value) (hd : s.parser.isDec = false) (hi : s.parser.int = b)
    (hq : s.tracker.queue = []) (hh : s.tracker.onHold = none) (hms : s.tracker.mstart = a)
    (hme : s.tracker.mend = e) (hf : cfg.lang.formatW b = .ok (d, v)) :
    ∃ s1, s.numberEnd cfg = .ok s1 ∧ Closed [⟨a, e, d, v, b.isOrdinal⟩] s1 := by
  have hfin : s.parser.finish cfg.lang = .ok (d, v) := by
    unfold Parser.finish
    rw [hd, Bool.false_and, if_neg Bool.false_ne_true, hi]; exact hf
  refine ⟨_, scanner_numberEnd_thr0 cfg hthr s d v hfin, rfl, ?_, ?_, ?_⟩
  · show (s.tracker.numberEnd s.parser.isOrdinal d v false).queue = _
    rw [numberEnd_nohold _ _ _ _ hh]
    show s.tracker.queue ++ [⟨s.tracker.mstart, s.tracker.mend, d, v, s.parser.isOrdinal⟩] = _
    rw [hq, hms, hme]
    show [(⟨a, e, d, v, s.parser.int.isOrdinal⟩ : Occ)] = _
    rw [hi]
  · show (s.tracker.numberEnd s.parser.isOrdinal d v false).onHold = none
    rw [numberEnd_nohold _ _ _ _ hh]
  · show (s.tracker.numberEnd s.parser.isOrdinal d v false).mstart =
      (s.tracker.numberEnd s.parser.isOrdinal d v false).mend
    rw [numberEnd_nohold _ _ _ _ hh]

/-- the `Err(_)` arms on a word that is refused in every state: the number ends, nothing opens -/
theorem pushRejected_closes (cfg : ScanCfg) (hl : LangAgree cfg.lang) (hthr : ∀ n, cfg.thrLt n = false)
    (s : Scanner) (pos : Nat) (tok : Tok) (a e : Nat) (b : DS) (d : Word) (v : Value)
    (hd : s.parser.isDec = false) (hi : s.parser.int = b) (hne : b.isEmpty = false)
    (hq : s.tracker.queue = []) (hh : s.tracker.onHold = none) (hms : s.tracker.mstart = a)
    (hme : s.tracker.mend = e) (hf : cfg.lang.formatW b = .ok (d, v)) (hrej : cfg.lang.Rejects tok.lower) :
    ∃ s', Scanner.pushRejected cfg s pos tok = .ok s' ∧ Closed [⟨a, e, d, v, b.isOrdinal⟩] s' := by
  have hnum : s.parser.hasNumber = true := by
    show (!s.parser.int.isEmpty) = true
    rw [hi, hne]; rfl
  obtain ⟨s1, h1, c1⟩ := numberEnd_closes cfg hthr s a e b d v hd hi hq hh hms hme hf
  unfold Scanner.pushRejected
  rw [if_pos hnum, h1]
  dsimp only
  rcases Parser.push_closed cfg.lang hl s1.parser tok.lower (by rw [c1.1]; try rfl) (by rw [c1.1]; try rfl) with
    ⟨b', _, hp⟩ | ⟨e2, hp⟩
  · obtain ⟨e3, he3, _⟩ := hrej s1.parser
    rw [hp] at he3; cases he3
  · obtain ⟨e3, he3, hne3⟩ := hrej s1.parser
    rw [hp] at he3
    have he23 : e2 = e3 := by injection he3 with he3
    subst he23
    rw [hp]
    dsimp only
    rw [if_neg (by simp), if_neg (by simpa using hne3)]
    have hcl : Closed [⟨a, e, d, v, b.isOrdinal⟩] ({ s1 with parser := s1.parser } : Scanner) := c1
    exact ⟨_, rfl, hcl.outside cfg tok _⟩

/-- a plain token after the phrase: skipped (nothing happens) or the number ends -/
theorem push_plain_open (cfg : ScanCfg) (hl : LangAgree cfg.lang) (hsep : ∀ x y, cfg.sep x y = false)
    (hthr : ∀ n, cfg.thrLt n = false) (s : Scanner) (pos : Nat) (tok : Tok) (a e : Nat) (ds : DS)
    (d : Word) (v : Value) (h : OpenSt a e ds s) (hne : ds.isEmpty = false)
    (hf : cfg.lang.formatW ds = .ok (d, v)) (ht : PlainTok cfg tok) :
    ∃ s', s.push cfg pos tok = .ok s' ∧ (OpenSt a e ds s' ∨ Closed [⟨a, e, d, v, ds.isOrdinal⟩] s') := by
  have hnum := h.hasNumber hne
  obtain ⟨hp, hq, hh, hms, hme⟩ := h
  have hd : s.parser.isDec = false := by rw [hp]
  have hi : s.parser.int = ds := by rw [hp]
  by_cases hs : Scanner.isSkipped cfg tok = true
  · refine ⟨s, ?_, Or.inl ⟨hp, hq, hh, hms, hme⟩⟩
    unfold Scanner.push; rw [if_pos hs]
  have hs' : Scanner.isSkipped cfg tok = false := by simpa using hs
  by_cases hnan : tok.nan = true
  · obtain ⟨s1, h1, c1⟩ := numberEnd_closes cfg hthr s a e ds d v hd hi hq hh hms hme hf
    refine ⟨{ (s1.outside cfg tok) with previous := some tok }, ?_, Or.inr (c1.outside cfg tok _)⟩
    unfold Scanner.push
    rw [if_neg hs, if_pos hnan]
    unfold Scanner.pushNan
    rw [if_pos hnum, h1]
  have hnan' : tok.nan = false := by simpa using hnan
  have hrej : cfg.lang.Rejects tok.lower := by
    rcases ht with h1 | h1 | h1
    · exact absurd h1 hs
    · exact absurd h1 hnan
    · exact h1
  obtain ⟨e1, he1, hne1⟩ := hrej s.parser
  rcases Parser.push_nondec_cases cfg.lang s.parser tok.lower hd with
    ⟨b', _, hpp⟩ | ⟨e', b', _, _, _, hpp⟩ | ⟨e', b', ha, hpp⟩
  · rw [hpp] at he1; cases he1
  · rw [hpp] at he1; injection he1 with he1; exact absurd he1.symm hne1
  · have hee : e' = e1 := by rw [hpp] at he1; injection he1
    subst hee
    have hsame : SameButFlags ds b' := by
      have := hl.err_same tok.lower s.parser.int e' (by rw [ha])
      rw [ha, hi] at this; exact this
    have hpush : s.parser.push cfg.lang (Scanner.testWord cfg s tok) = (some e', { s.parser with int := b' }) := by
      rw [testWord_nosep cfg hsep]; exact hpp
    rw [push_rejected_eq cfg s pos tok hs' hnan' e' _ hpush hne1]
    have hf' : cfg.lang.formatW b' = .ok (d, v) := by rw [formatW_same cfg.lang hsame]; exact hf
    have hne' : b'.isEmpty = false := by rw [hsame.isEmpty_eq]; exact hne
    have hord : b'.isOrdinal = ds.isOrdinal := by
      unfold DS.isOrdinal; rw [hsame.2.2.2]
    obtain ⟨s', h1, c1⟩ := pushRejected_closes cfg hl hthr { s with parser := { s.parser with int := b' } } pos tok
      a e b' d v hd rfl hne' hq hh hms hme hf' hrej
    rw [hord] at c1
    exact ⟨s', h1, Or.inr c1⟩

theorem pushAll_plain (cfg : ScanCfg) (hl : LangAgree cfg.lang) (hsep : ∀ x y, cfg.sep x y = false)
    (hthr : ∀ n, cfg.thrLt n = false) (a e : Nat) (ds : DS) (d : Word) (v : Value)
    (hne : ds.isEmpty = false) (hf : cfg.lang.formatW ds = .ok (d, v)) (Q : List Tok) :
    ∀ (s : Scanner) (pos : Nat), (OpenSt a e ds s ∨ Closed [⟨a, e, d, v, ds.isOrdinal⟩] s) →
      (∀ t ∈ Q, PlainTok cfg t) →
      ∃ s', Scanner.pushAll cfg s (enumFrom pos Q) = .ok s' ∧
        (OpenSt a e ds s' ∨ Closed [⟨a, e, d, v, ds.isOrdinal⟩] s') := by
  induction Q with
  | nil => intro s pos h _; exact ⟨s, rfl, h⟩
  | cons t ts ih =>
    intro s pos h ht
    have hts : ∀ t' ∈ ts, PlainTok cfg t' := fun t' ht' => ht t' (List.mem_cons_of_mem _ ht')
    have hstep : ∃ s1, s.push cfg pos t = .ok s1 ∧
        (OpenSt a e ds s1 ∨ Closed [⟨a, e, d, v, ds.isOrdinal⟩] s1) := by
      rcases h with h | h
      · exact push_plain_open cfg hl hsep hthr s pos t a e ds d v h hne hf (ht t (List.mem_cons_self ..))
      · obtain ⟨s1, h1, c1⟩ := push_idle_closed cfg hl _ s pos t h (ht t (List.mem_cons_self ..)).idle
        exact ⟨s1, h1, Or.inr c1⟩
    obtain ⟨s1, h1, c1⟩ := hstep
    obtain ⟨s2, h2, c2⟩ := ih s1 (pos + 1) c1 hts
    exact ⟨s2, by rw [pushAll_cons cfg s s1 pos t ts h1]; exact h2, c2⟩

/-- at the end of the input the open number is reported -/
theorem finalize_one (cfg : ScanCfg) (hthr : ∀ n, cfg.thrLt n = false) (a e : Nat) (ds : DS) (d : Word)
    (v : Value) (hne : ds.isEmpty = false) (hf : cfg.lang.formatW ds = .ok (d, v)) (s : Scanner)
    (h : OpenSt a e ds s ∨ Closed [⟨a, e, d, v, ds.isOrdinal⟩] s) :
    ∃ s', s.finalize cfg = .ok s' ∧ s'.tracker.queue = [⟨a, e, d, v, ds.isOrdinal⟩] := by
  unfold Scanner.finalize
  rcases h with h | h
  · rw [if_pos (h.hasNumber hne)]
    obtain ⟨hp, hq, hh, hms, hme⟩ := h
    obtain ⟨s1, h1, c1⟩ := numberEnd_closes cfg hthr s a e ds d v (by rw [hp]) (by rw [hp]) hq hh hms hme hf
    exact ⟨s1, h1, c1.2.1⟩
  · have hnum : s.parser.hasNumber = false := by rw [h.1]; rfl
    rw [if_neg (by rw [hnum]; exact Bool.false_ne_true)]
    exact ⟨s, rfl, h.2.1⟩

/-! ### (A) a valid phrase is exactly one occurrence -/

theorem text2digitsWords_ok {l : Lang} {ws : List Word} {d : Word} (h : text2digitsWords l ws = .ok d) :
    ∃ ds v, execGroup l.apply ws = .ok ds ∧ ds.isEmpty = false ∧ l.formatW ds = .ok (d, v) := by
  unfold text2digitsWords at h
  cases hx : execGroup l.apply ws with
  | error e => rw [hx] at h; cases h
  | ok ds =>
    rw [hx] at h
    dsimp only at h
    cases he : ds.isEmpty with
    | true => rw [he] at h; cases h
    | false =>
      rw [he, if_neg Bool.false_ne_true] at h
      cases hf : l.formatW ds with
      | error f => rw [hf] at h; cases h
      | ok r =>
        obtain ⟨t, v⟩ := r
        rw [hf] at h
        cases h
        exact ⟨ds, v, rfl, he, hf⟩

theorem closed_init : Closed [] ({} : Scanner) := ⟨rfl, rfl, rfl, rfl⟩

/-- **(A), general form.** `core` is the phrase: its first and last tokens are word tokens, in between
skipped tokens (white space, `-`) may be interleaved; `P` precedes it (tokens that open no number), `Q`
follows it (tokens that are skipped, hinted as foreign, or refused in every state). If the validator
accepts the words of the phrase, the scanner reports exactly one occurrence: the phrase. -/
theorem valid_is_one (cfg : ScanCfg) (hl : LangAgree cfg.lang) (hsep : ∀ x y, cfg.sep x y = false)
    (hthr : ∀ n, cfg.thrLt n = false) (P core Q : List Tok) (d : Word)
    (hP : ∀ t ∈ P, IdleTok cfg t) (hQ : ∀ t ∈ Q, PlainTok cfg t) (hcore : ∀ t ∈ core, CoreTok cfg t)
    (hhead : ∀ t ∈ core.head?, Scanner.isSkipped cfg t = false ∧ (cfg.lang.apply t.lower DS.new).1 = none)
    (hlast : ∀ t ∈ core.getLast?, Scanner.isSkipped cfg t = false)
    (h : text2digitsWords cfg.lang (wordsOf cfg core) = .ok d) :
    ∃ ds v, execGroup cfg.lang.apply (wordsOf cfg core) = .ok ds ∧ cfg.lang.formatW ds = .ok (d, v) ∧
      findNumbers cfg (P ++ core ++ Q) = .ok [⟨P.length, P.length + core.length, d, v, ds.isOrdinal⟩] := by
  obtain ⟨ds, v, hx, hne, hf⟩ := text2digitsWords_ok h
  refine ⟨ds, v, hx, hf, ?_⟩
  cases core with
  | nil =>
    simp only [wordsOf, List.filter_nil, List.map_nil, execGroup, execGroupFrom, Bool.false_eq_true, if_false] at hx
    cases hx
    cases hne
  | cons t0 rest =>
    obtain ⟨hs0, ha0⟩ := hhead t0 (by simp)
    obtain ⟨hn0, _⟩ := hcore t0 (List.mem_cons_self ..) hs0
    have hrest : ∀ t ∈ rest, CoreTok cfg t := fun t ht => hcore t (List.mem_cons_of_mem _ ht)
    cases hr : cfg.lang.apply t0.lower DS.new with
    | mk r b0 =>
      rw [hr] at ha0
      have hr0 : r = none := ha0
      subst hr0
      rw [wordsOf_cons cfg t0 rest hs0] at hx
      unfold execGroup at hx
      rw [execGroupFrom_cons_ok hr] at hx
      -- before the phrase
      obtain ⟨sP, hPr, cP⟩ := pushAll_idle_closed cfg hl [] P {} 0 closed_init hP
      -- the first word
      obtain ⟨s0, h0, o0⟩ := push_first cfg sP P.length t0 cP hs0 hn0 b0 hr
      -- the other words
      obtain ⟨s1, e1, h1, o1, le1, ub1, last1⟩ := run_open cfg hsep rest s0 (P.length + 1) P.length
        (P.length + 1) b0 false ds o0 (by omega) (Nat.le_refl _) hrest hx
      have he1 : e1 = P.length + (t0 :: rest).length := by
        cases rest with
        | nil => simp only [List.length_nil, List.length_cons] at ub1 ⊢; omega
        | cons t1 rest' =>
          rw [List.getLast?_cons_cons] at hlast
          have := last1 (by simp) hlast
          simp only [List.length_cons] at this ⊢; omega
      subst he1
      -- after the phrase
      obtain ⟨s2, h2, c2⟩ := pushAll_plain cfg hl hsep hthr P.length _ ds d v hne hf Q s1
        (P.length + 1 + rest.length) (Or.inl o1) hQ
      obtain ⟨s3, h3, q3⟩ := finalize_one cfg hthr P.length _ ds d v hne hf s2 c2
      unfold findNumbers
      have hall : Scanner.pushAll cfg {} (enumFrom 0 (P ++ (t0 :: rest) ++ Q)) = .ok s2 := by
        rw [List.append_assoc, pushAll_append_ok cfg P _ {} sP 0 hPr, Nat.zero_add, List.cons_append,
          pushAll_cons cfg sP s0 P.length t0 _ h0, pushAll_append_ok cfg rest Q s0 s1 _ h1]
        exact h2
      rw [hall]
      dsimp only
      rw [h3]
      dsimp only
      rw [q3]

/-! ### (A) without the hypothesis on the first word

A phrase that validates may begin with words that the fresh builder answers `Incomplete` (German `und`,
Dutch `en`: they leave the fresh builder fresh). The scanner then opens the match at the first accepted
word: the occurrence starts after the leading idle tokens of the phrase. -/

/-- `IdleTok`, decidably -/
def idleB (cfg : ScanCfg) (t : Tok) : Bool :=
  Scanner.isSkipped cfg t || t.nan || (cfg.lang.apply t.lower DS.new).1.isSome

theorem idleTok_of_idleB {cfg : ScanCfg} {t : Tok} (h : idleB cfg t = true) : IdleTok cfg t := by
  unfold idleB at h
  simp only [Bool.or_eq_true] at h
  rcases h with (h | h) | h
  · exact Or.inl h
  · exact Or.inr (Or.inl h)
  · refine Or.inr (Or.inr ?_)
    intro hn; rw [hn] at h; cases h

/-- leading words that the fresh builder does not accept are `Incomplete` and leave it fresh -/
theorem execGroupFrom_skip_idle (cfg : ScanCfg) (hl : LangAgree cfg.lang) (lead : List Tok)
    (hlead : ∀ t ∈ lead, idleB cfg t = true) (hnan : ∀ t ∈ lead, CoreTok cfg t) (rest : List Word) (ds : DS) :
    ∀ inc, execGroupFrom cfg.lang.apply (wordsOf cfg lead ++ rest) DS.new inc = .ok ds →
      ∃ inc', execGroupFrom cfg.lang.apply rest DS.new inc' = .ok ds := by
  induction lead with
  | nil => intro inc h; exact ⟨inc, h⟩
  | cons t ts ih =>
    intro inc h
    have hts : ∀ t' ∈ ts, idleB cfg t' = true := fun t' ht' => hlead t' (List.mem_cons_of_mem _ ht')
    have hts' : ∀ t' ∈ ts, CoreTok cfg t' := fun t' ht' => hnan t' (List.mem_cons_of_mem _ ht')
    by_cases hs : Scanner.isSkipped cfg t = true
    · rw [wordsOf_cons_skipped cfg t ts hs] at h
      exact ih hts hts' inc h
    · have hs' : Scanner.isSkipped cfg t = false := by simpa using hs
      rw [wordsOf_cons cfg t ts hs', List.cons_append] at h
      have hn := (hnan t (List.mem_cons_self ..) hs').1
      have hidle := hlead t (List.mem_cons_self ..)
      unfold idleB at hidle
      rw [hs', hn, Bool.false_or, Bool.false_or] at hidle
      cases hr : cfg.lang.apply t.lower DS.new with
      | mk r b' =>
        rw [hr] at hidle
        cases r with
        | none => cases hidle
        | some e =>
          have hb : b' = DS.new := by
            have := hl.err_new t.lower e (by rw [hr])
            rw [hr] at this; exact this
          subst hb
          by_cases he : e = .incomplete
          · subst he
            rw [execGroupFrom_cons_inc hr] at h
            exact ih hts hts' true h
          · rw [execGroupFrom_cons_err hr he] at h; cases h

theorem mem_takeWhile_true {α} (p : α → Bool) : ∀ (l : List α) (t : α), t ∈ l.takeWhile p → p t = true := by
  intro l
  induction l with
  | nil => intro t ht; cases ht
  | cons x xs ih =>
    intro t ht
    rw [List.takeWhile_cons] at ht
    cases hp : p x with
    | false => rw [hp] at ht; cases ht
    | true =>
      rw [hp] at ht
      rcases List.mem_cons.mp ht with rfl | ht
      · exact hp
      · exact ih t ht

theorem execGroupFrom_inc_irrelevant (apply : Word → DS → Res × DS) (w : Word) (ws : List Word) (b : DS)
    (inc inc' : Bool) : execGroupFrom apply (w :: ws) b inc = execGroupFrom apply (w :: ws) b inc' := by
  simp only [execGroupFrom]

/-- **(A), most general form**: no hypothesis on the first word. -/
theorem valid_is_one_general (cfg : ScanCfg) (hl : LangAgree cfg.lang) (hsep : ∀ x y, cfg.sep x y = false)
    (hthr : ∀ n, cfg.thrLt n = false) (P core Q : List Tok) (d : Word)
    (hP : ∀ t ∈ P, IdleTok cfg t) (hQ : ∀ t ∈ Q, PlainTok cfg t) (hcore : ∀ t ∈ core, CoreTok cfg t)
    (hlast : ∀ t ∈ core.getLast?, Scanner.isSkipped cfg t = false)
    (h : text2digitsWords cfg.lang (wordsOf cfg core) = .ok d) :
    ∃ ds v, execGroup cfg.lang.apply (wordsOf cfg core) = .ok ds ∧ cfg.lang.formatW ds = .ok (d, v) ∧
      findNumbers cfg (P ++ core ++ Q) =
        .ok [⟨P.length + (core.takeWhile (idleB cfg)).length, P.length + core.length, d, v, ds.isOrdinal⟩] := by
  obtain ⟨ds, v, hx, hne, hf⟩ := text2digitsWords_ok h
  have hsplit : core = core.takeWhile (idleB cfg) ++ core.dropWhile (idleB cfg) :=
    (List.takeWhile_append_dropWhile).symm
  generalize hlead : core.takeWhile (idleB cfg) = lead at hsplit
  generalize hrest : core.dropWhile (idleB cfg) = core' at hsplit
  have hleadIdle : ∀ t ∈ lead, idleB cfg t = true := by
    intro t ht; rw [← hlead] at ht; exact mem_takeWhile_true _ _ t ht
  have hleadCore : ∀ t ∈ lead, CoreTok cfg t := fun t ht => hcore t (by rw [hsplit]; exact List.mem_append_left _ ht)
  have hcore' : ∀ t ∈ core', CoreTok cfg t := fun t ht => hcore t (by rw [hsplit]; exact List.mem_append_right _ ht)
  -- the validator on the words after the leading idle ones
  have hx0 := hx
  unfold execGroup at hx
  rw [hsplit, wordsOf_append] at hx
  obtain ⟨inc', hx'⟩ := execGroupFrom_skip_idle cfg hl lead hleadIdle hleadCore _ ds false hx
  cases hc : core' with
  | nil =>
    rw [hc] at hx'
    cases inc' with
    | true => simp [wordsOf, execGroupFrom] at hx'
    | false =>
      simp only [wordsOf, List.filter_nil, List.map_nil, execGroupFrom, Bool.false_eq_true, if_false] at hx'
      cases hx'; cases hne
  | cons t0 rest =>
    have hhead0 : idleB cfg t0 = false := by
      have := List.head?_dropWhile_not (idleB cfg) core
      rw [hrest, hc] at this
      exact this
    unfold idleB at hhead0
    simp only [Bool.or_eq_false_iff] at hhead0
    obtain ⟨⟨hs0, _⟩, ha0⟩ := hhead0
    have ha0' : (cfg.lang.apply t0.lower DS.new).1 = none := by
      cases hr : (cfg.lang.apply t0.lower DS.new).1 with
      | none => rfl
      | some e => rw [hr] at ha0; cases ha0
    rw [hc] at hx' hcore' hsplit
    have hval : text2digitsWords cfg.lang (wordsOf cfg (t0 :: rest)) = .ok d := by
      rw [wordsOf_cons cfg t0 rest hs0] at hx' ⊢
      rw [execGroupFrom_inc_irrelevant _ _ _ _ inc' false] at hx'
      unfold text2digitsWords execGroup
      rw [hx']
      dsimp only
      rw [hne, if_neg Bool.false_ne_true, hf]
    have hlast' : ∀ t ∈ (t0 :: rest).getLast?, Scanner.isSkipped cfg t = false := by
      intro t ht
      apply hlast t
      rw [hsplit, List.getLast?_append]
      cases hg : (t0 :: rest).getLast? with
      | none => rw [hg] at ht; cases ht
      | some x => rw [hg] at ht; exact ht
    obtain ⟨ds', v', hx2, hf2, hfind⟩ := valid_is_one cfg hl hsep hthr (P ++ lead) (t0 :: rest) Q d
      (by
        intro t ht
        rcases List.mem_append.mp ht with ht | ht
        · exact hP t ht
        · exact idleTok_of_idleB (hleadIdle t ht))
      hQ hcore' (by intro t ht; have : t = t0 := by simpa using ht.symm
                    subst this; exact ⟨hs0, ha0'⟩) hlast' hval
    -- same builder, same value
    have hds : ds' = ds := by
      rw [wordsOf_cons cfg t0 rest hs0] at hx' hx2
      rw [execGroupFrom_inc_irrelevant _ _ _ _ inc' false] at hx'
      unfold execGroup at hx2
      rw [hx'] at hx2
      cases hx2; rfl
    subst hds
    have hv : v' = v := by
      rw [hf] at hf2
      exact ((Prod.mk.inj (Except.ok.inj hf2)).2).symm
    subst hv
    refine ⟨ds', v', hx0, hf, ?_⟩
    have e1 : P ++ core ++ Q = P ++ lead ++ (t0 :: rest) ++ Q := by
      rw [hsplit]; simp only [List.append_assoc]
    have hlen : core.length = lead.length + (t0 :: rest).length := by rw [hsplit, List.length_append]
    rw [e1, hfind, hlen]
    simp only [List.length_append, Nat.add_assoc]

/-! ### phrases given as words: `wordTokens` -/

/-- the token of a word -/
def wtok (w : Word) : Tok := { text := w, lower := w }

/-- the single-space token -/
def sp : Tok := { text := [' '], lower := [' '] }

/-- `w₁ ␣ w₂ ␣ … ␣` -/
def preToks (ws : List Word) : List Tok := ws.flatMap (fun w => [wtok w, sp])

/-- `␣ w₁ ␣ w₂ …` -/
def postToks (ws : List Word) : List Tok := ws.flatMap (fun w => [sp, wtok w])

theorem wordTokens_cons (w : Word) : ∀ l : List Word, wordTokens (w :: l) = wtok w :: postToks l := by
  intro l
  induction l generalizing w with
  | nil => rfl
  | cons q l ih =>
    show wtok w :: sp :: wordTokens (q :: l) = _
    rw [ih q]; rfl

theorem postToks_append (a b : List Word) : postToks (a ++ b) = postToks a ++ postToks b := by
  simp [postToks]

theorem wordTokens_post (ws post : List Word) (hne : ws ≠ []) :
    wordTokens (ws ++ post) = wordTokens ws ++ postToks post := by
  obtain ⟨w, l, rfl⟩ := List.exists_cons_of_ne_nil hne
  rw [List.cons_append, wordTokens_cons, wordTokens_cons, postToks_append, List.cons_append]

theorem wordTokens_pre (pre ws : List Word) (hne : ws ≠ []) :
    wordTokens (pre ++ ws) = preToks pre ++ wordTokens ws := by
  induction pre with
  | nil => rfl
  | cons p pre ih =>
    obtain ⟨w, l, hl⟩ := List.exists_cons_of_ne_nil (show pre ++ ws ≠ [] by simp [hne])
    have : wordTokens (p :: (pre ++ ws)) = wtok p :: sp :: wordTokens (pre ++ ws) := by
      rw [hl]; rfl
    rw [List.cons_append, this, ih]
    rfl

theorem length_preToks (ws : List Word) : (preToks ws).length = 2 * ws.length := by
  induction ws with
  | nil => rfl
  | cons w ws ih =>
    show ([wtok w, sp] ++ preToks ws).length = _
    rw [List.length_append, ih, List.length_cons]; simp; omega

theorem length_postToks (ws : List Word) : (postToks ws).length = 2 * ws.length := by
  induction ws with
  | nil => rfl
  | cons w ws ih =>
    show ([sp, wtok w] ++ postToks ws).length = _
    rw [List.length_append, ih, List.length_cons]; simp; omega

theorem length_wordTokens (ws : List Word) : (wordTokens ws).length = 2 * ws.length - 1 := by
  cases ws with
  | nil => rfl
  | cons w l => rw [wordTokens_cons, List.length_cons, length_postToks, List.length_cons]; omega

theorem mem_preToks {t : Tok} {ws : List Word} (h : t ∈ preToks ws) : t = sp ∨ ∃ w ∈ ws, t = wtok w := by
  unfold preToks at h
  rw [List.mem_flatMap] at h
  obtain ⟨w, hw, ht⟩ := h
  simp only [List.mem_cons, List.not_mem_nil, or_false] at ht
  rcases ht with rfl | rfl
  · exact Or.inr ⟨w, hw, rfl⟩
  · exact Or.inl rfl

theorem mem_postToks {t : Tok} {ws : List Word} (h : t ∈ postToks ws) : t = sp ∨ ∃ w ∈ ws, t = wtok w := by
  unfold postToks at h
  rw [List.mem_flatMap] at h
  obtain ⟨w, hw, ht⟩ := h
  simp only [List.mem_cons, List.not_mem_nil, or_false] at ht
  rcases ht with rfl | rfl
  · exact Or.inl rfl
  · exact Or.inr ⟨w, hw, rfl⟩

theorem mem_wordTokens {t : Tok} {ws : List Word} (h : t ∈ wordTokens ws) : t = sp ∨ ∃ w ∈ ws, t = wtok w := by
  cases ws with
  | nil => cases h
  | cons w l =>
    rw [wordTokens_cons] at h
    rcases List.mem_cons.mp h with rfl | h
    · exact Or.inr ⟨w, List.mem_cons_self .., rfl⟩
    · rcases mem_postToks h with h | ⟨w', hw', rfl⟩
      · exact Or.inl h
      · exact Or.inr ⟨w', List.mem_cons_of_mem _ hw', rfl⟩

theorem skipped_sp (cfg : ScanCfg) (hspace : cfg.cc.isWhitespace ' ' = true) : Scanner.isSkipped cfg sp = true := by
  simp [Scanner.isSkipped, sp, hspace]

theorem wordsOf_postToks (cfg : ScanCfg) (hspace : cfg.cc.isWhitespace ' ' = true) (l : List Word)
    (hl : ∀ w ∈ l, Scanner.isSkipped cfg (wtok w) = false) : wordsOf cfg (postToks l) = l := by
  induction l with
  | nil => rfl
  | cons q l ih =>
    show wordsOf cfg (sp :: wtok q :: postToks l) = _
    rw [wordsOf_cons_skipped cfg _ _ (skipped_sp cfg hspace),
      wordsOf_cons cfg _ _ (hl q (List.mem_cons_self ..)), ih (fun w hw => hl w (List.mem_cons_of_mem _ hw))]
    rfl

theorem wordsOf_wordTokens (cfg : ScanCfg) (hspace : cfg.cc.isWhitespace ' ' = true) (ws : List Word)
    (hl : ∀ w ∈ ws, Scanner.isSkipped cfg (wtok w) = false) : wordsOf cfg (wordTokens ws) = ws := by
  cases ws with
  | nil => rfl
  | cons w l =>
    rw [wordTokens_cons, wordsOf_cons cfg _ _ (hl w (List.mem_cons_self ..)),
      wordsOf_postToks cfg hspace l (fun w hw => hl w (List.mem_cons_of_mem _ hw))]
    rfl

theorem getLast_wordTokens (w : Word) : ∀ (l : List Word) (t : Tok), t ∈ (wtok w :: postToks l).getLast? →
    ∃ w' ∈ w :: l, t = wtok w' := by
  intro l
  induction l generalizing w with
  | nil =>
    intro t ht
    have : t = wtok w := by simpa [postToks] using ht.symm
    exact ⟨w, List.mem_cons_self .., this⟩
  | cons q l ih =>
    intro t ht
    have e : wtok w :: postToks (q :: l) = wtok w :: sp :: wtok q :: postToks l := rfl
    rw [e, List.getLast?_cons_cons, List.getLast?_cons_cons] at ht
    obtain ⟨w', hw', rfl⟩ := ih q t ht
    exact ⟨w', List.mem_cons_of_mem _ hw', rfl⟩

/-- **(A) for a phrase given as words, inside a sentence.** `pre` and `post` are the words before and
after the phrase (possibly none); tokens are the words separated by single spaces. -/
theorem valid_is_one_sentence (cfg : ScanCfg) (hl : LangAgree cfg.lang) (hsep : ∀ x y, cfg.sep x y = false)
    (hthr : ∀ n, cfg.thrLt n = false) (hspace : cfg.cc.isWhitespace ' ' = true)
    (pre ws post : List Word) (d : Word)
    (hpre : ∀ w ∈ pre, IdleTok cfg (wtok w)) (hpost : ∀ w ∈ post, PlainTok cfg (wtok w))
    (hws : ∀ w ∈ ws, Scanner.isSkipped cfg (wtok w) = false ∧ cfg.lang.isDecSep w = false)
    (hfirst : ∀ w ∈ ws.head?, (cfg.lang.apply w DS.new).1 = none)
    (h : text2digitsWords cfg.lang ws = .ok d) :
    ∃ ds v, execGroup cfg.lang.apply ws = .ok ds ∧ cfg.lang.formatW ds = .ok (d, v) ∧
      findNumbers cfg (wordTokens (pre ++ ws ++ post)) =
        .ok [⟨2 * pre.length, 2 * pre.length + (2 * ws.length - 1), d, v, ds.isOrdinal⟩] := by
  have hne : ws ≠ [] := by
    intro hnil
    subst hnil
    obtain ⟨ds, v, hx, hemp, _⟩ := text2digitsWords_ok h
    simp only [execGroup, execGroupFrom, Bool.false_eq_true, if_false] at hx
    cases hx; cases hemp
  have hsk : ∀ w ∈ ws, Scanner.isSkipped cfg (wtok w) = false := fun w hw => (hws w hw).1
  have hwo := wordsOf_wordTokens cfg hspace ws hsk
  have hspk := skipped_sp cfg hspace
  have key := valid_is_one cfg hl hsep hthr (preToks pre) (wordTokens ws) (postToks post) d
    (by
      intro t ht
      rcases mem_preToks ht with rfl | ⟨w, hw, rfl⟩
      · exact Or.inl hspk
      · exact hpre w hw)
    (by
      intro t ht
      rcases mem_postToks ht with rfl | ⟨w, hw, rfl⟩
      · exact Or.inl hspk
      · exact hpost w hw)
    (by
      intro t ht hs
      rcases mem_wordTokens ht with rfl | ⟨w, hw, rfl⟩
      · rw [hspk] at hs; cases hs
      · exact ⟨rfl, (hws w hw).2⟩)
    (by
      obtain ⟨w, l, rfl⟩ := List.exists_cons_of_ne_nil hne
      intro t ht
      rw [wordTokens_cons] at ht
      have : t = wtok w := by simpa using ht.symm
      subst this
      exact ⟨hsk w (List.mem_cons_self ..), hfirst w (by simp)⟩)
    (by
      obtain ⟨w, l, rfl⟩ := List.exists_cons_of_ne_nil hne
      intro t ht
      rw [wordTokens_cons] at ht
      obtain ⟨w', hw', rfl⟩ := getLast_wordTokens w l t ht
      exact hsk w' hw')
    (by rw [hwo]; exact h)
  rw [hwo] at key
  obtain ⟨ds, v, hx, hf, hfind⟩ := key
  refine ⟨ds, v, hx, hf, ?_⟩
  have hsplit : wordTokens (pre ++ ws ++ post) = preToks pre ++ wordTokens ws ++ postToks post := by
    rw [List.append_assoc, wordTokens_pre pre (ws ++ post) (by simp [hne]), wordTokens_post ws post hne,
      List.append_assoc]
  rw [hsplit, hfind, length_preToks, length_wordTokens]

/-- **(A) for a phrase given as words**: `toks = wordTokens ws` -/
theorem valid_is_one_words (cfg : ScanCfg) (hl : LangAgree cfg.lang) (hsep : ∀ x y, cfg.sep x y = false)
    (hthr : ∀ n, cfg.thrLt n = false) (hspace : cfg.cc.isWhitespace ' ' = true) (ws : List Word) (d : Word)
    (hws : ∀ w ∈ ws, Scanner.isSkipped cfg (wtok w) = false ∧ cfg.lang.isDecSep w = false)
    (hfirst : ∀ w ∈ ws.head?, (cfg.lang.apply w DS.new).1 = none)
    (h : text2digitsWords cfg.lang ws = .ok d) :
    ∃ ds v, execGroup cfg.lang.apply ws = .ok ds ∧ cfg.lang.formatW ds = .ok (d, v) ∧
      findNumbers cfg (wordTokens ws) = .ok [⟨0, (wordTokens ws).length, d, v, ds.isOrdinal⟩] := by
  obtain ⟨ds, v, hx, hf, hfind⟩ := valid_is_one_sentence cfg hl hsep hthr hspace [] ws [] d
    (fun _ h => by cases h) (fun _ h => by cases h) hws hfirst h
  refine ⟨ds, v, hx, hf, ?_⟩
  rw [List.nil_append, List.append_nil] at hfind
  rw [hfind, length_wordTokens]
  simp

/-! ### (B) nothing valid is left spelled out at threshold 0 -/

/-- the language never answers `Incomplete` for the word (in either mode), and the word is not the
decimal separator -/
structure NeverInc (l : Lang) (w : Word) : Prop where
  int : ∀ b, (l.apply w b).1 ≠ some .incomplete
  dec : ∀ b, (l.applyDecimal w b).1 ≠ some .incomplete
  notSep : l.isDecSep w = false

/-- position `i` lies in a decided occurrence or in the open match -/
def Covered (t : Tracker) (i : Nat) : Prop :=
  (∃ o ∈ t.queue, o.start ≤ i ∧ i < o.stop) ∨ (t.mstart ≤ i ∧ i < t.mend)

theorem covered_advanced (t : Tracker) (pos i : Nat) (h : Covered t i) (hmp : t.mend ≤ pos) :
    Covered (t.advanced pos) i := by
  rcases h with h | ⟨h1, h2⟩
  · exact Or.inl h
  · right
    rw [Tracker.advanced_open _ _ (by omega), Tracker.advanced_mend]
    exact ⟨h1, by omega⟩

theorem advanced_covers (t : Tracker) (pos : Nat) (h1 : t.mstart ≤ t.mend) (h2 : t.mend ≤ pos) :
    Covered (t.advanced pos) pos := by
  right
  rw [Tracker.advanced_mend]
  refine ⟨?_, Nat.lt_succ_self _⟩
  by_cases hc : t.mstart = t.mend
  · rw [Tracker.advanced_closed _ _ hc]; exact Nat.le_refl _
  · rw [Tracker.advanced_open _ _ (by omega)]; omega

theorem covered_numberEnd (t : Tracker) (o : Bool) (tx : Word) (v : Value) (hh : t.onHold = none) (i : Nat)
    (h : Covered t i) : Covered (t.numberEnd o tx v false) i := by
  rw [numberEnd_nohold _ _ _ _ hh]
  left
  rcases h with ⟨x, hx, hr⟩ | hr
  · exact ⟨x, List.mem_append_left _ hx, hr⟩
  · exact ⟨_, List.mem_append_right _ (List.mem_singleton.mpr rfl), hr⟩

/-- `numberEnd` at threshold 0: the parser is reset, nothing is held back, what was covered stays covered
(the open match has become an occurrence) -/
theorem numberEnd_cov (cfg : ScanCfg) (hthr : ∀ n, cfg.thrLt n = false) (s s1 : Scanner)
    (hh : s.tracker.onHold = none) (he : s.numberEnd cfg = .ok s1) :
    s1.parser = {} ∧ s1.tracker.onHold = none ∧ s1.tracker.mstart = s.tracker.mend ∧
      s1.tracker.mend = s.tracker.mend ∧ s1.previous = s.previous ∧
      ∀ i, Covered s.tracker i → Covered s1.tracker i := by
  unfold Scanner.numberEnd at he
  cases hf : s.parser.finish cfg.lang with
  | error f => rw [hf] at he; cases he
  | ok r =>
    obtain ⟨tx, v⟩ := r
    rw [hf] at he
    dsimp only at he
    rw [small_zero cfg hthr, Bool.and_false] at he
    cases he
    refine ⟨rfl, ?_, ?_, ?_, rfl, ?_⟩
    · show (s.tracker.numberEnd s.parser.isOrdinal tx v false).onHold = none
      rw [numberEnd_nohold _ _ _ _ hh]
    · exact (Tracker.numberEnd_bounds _ _ _ _ _).1
    · exact (Tracker.numberEnd_bounds _ _ _ _ _).2
    · intro i hi
      exact covered_numberEnd _ _ _ _ hh i hi

theorem outside_tracker (cfg : ScanCfg) (s : Scanner) (tok : Tok) :
    (s.outside cfg tok).tracker.queue = s.tracker.queue ∧ (s.outside cfg tok).tracker.onHold = s.tracker.onHold ∧
    (s.outside cfg tok).tracker.mstart = s.tracker.mstart ∧ (s.outside cfg tok).tracker.mend = s.tracker.mend := by
  rw [outside_eq]
  split
  · exact ⟨rfl, rfl, rfl, rfl⟩
  · exact ⟨rfl, rfl, rfl, rfl⟩

theorem covered_outside (cfg : ScanCfg) (s : Scanner) (tok : Tok) (i : Nat) (h : Covered s.tracker i) :
    Covered (s.outside cfg tok).tracker i := by
  obtain ⟨h1, _, h3, h4⟩ := outside_tracker cfg s tok
  unfold Covered
  rw [h1, h3, h4]; exact h

/-- what every push preserves at threshold 0 -/
def Mono (s s' : Scanner) : Prop :=
  s'.tracker.onHold = none ∧ ∀ i, Covered s.tracker i → Covered s'.tracker i

theorem pushRejected_mono (cfg : ScanCfg) (hthr : ∀ n, cfg.thrLt n = false) (s s' : Scanner) (pos : Nat)
    (tok : Tok) (hh : s.tracker.onHold = none) (hmp : s.tracker.mend ≤ pos)
    (he : Scanner.pushRejected cfg s pos tok = .ok s') : Mono s s' := by
  unfold Scanner.pushRejected at he
  by_cases hn : s.parser.hasNumber = true
  · rw [if_pos hn] at he
    cases h1 : s.numberEnd cfg with
    | error f => rw [h1] at he; cases he
    | ok s1 =>
      rw [h1] at he
      dsimp only at he
      obtain ⟨_, hh1, _, hme1, _, hc1⟩ := numberEnd_cov cfg hthr s s1 hh h1
      by_cases hr : (s1.parser.push cfg.lang tok.lower).1.isNone = true
      · rw [if_pos hr] at he
        cases he
        exact ⟨hh1, fun i hi => covered_advanced _ _ _ (hc1 i hi) (by rw [hme1]; exact hmp)⟩
      · rw [if_neg hr] at he
        by_cases hinc : ((s1.parser.push cfg.lang tok.lower).1 == some Err.incomplete) = true
        · rw [if_pos hinc] at he
          cases he
          exact ⟨hh1, fun i hi => hc1 i hi⟩
        rw [if_neg hinc] at he
        cases he
        refine ⟨?_, fun i hi => ?_⟩
        · show (Scanner.outside cfg _ tok).tracker.onHold = none
          rw [(outside_tracker cfg _ tok).2.1]; exact hh1
        · exact covered_outside cfg _ tok i (hc1 i hi)
  · rw [if_neg hn] at he
    cases he
    refine ⟨?_, fun i hi => covered_outside cfg s tok i hi⟩
    show (Scanner.outside cfg _ tok).tracker.onHold = none
    rw [(outside_tracker cfg _ tok).2.1]; exact hh

theorem push_mono (cfg : ScanCfg) (hthr : ∀ n, cfg.thrLt n = false) (s s' : Scanner) (pos : Nat) (tok : Tok)
    (hh : s.tracker.onHold = none) (hmp : s.tracker.mend ≤ pos) (he : s.push cfg pos tok = .ok s') :
    Mono s s' := by
  unfold Scanner.push at he
  by_cases hs : Scanner.isSkipped cfg tok = true
  · rw [if_pos hs] at he; cases he; exact ⟨hh, fun _ hi => hi⟩
  rw [if_neg hs] at he
  by_cases hnan : tok.nan = true
  · rw [if_pos hnan] at he
    unfold Scanner.pushNan at he
    by_cases hn : s.parser.hasNumber = true
    · rw [if_pos hn] at he
      cases h1 : s.numberEnd cfg with
      | error f => rw [h1] at he; cases he
      | ok s1 =>
        rw [h1] at he; cases he
        obtain ⟨_, hh1, _, _, _, hc1⟩ := numberEnd_cov cfg hthr s s1 hh h1
        refine ⟨?_, fun i hi => covered_outside cfg s1 tok i (hc1 i hi)⟩
        show (Scanner.outside cfg _ tok).tracker.onHold = none
        rw [(outside_tracker cfg _ tok).2.1]; exact hh1
    · rw [if_neg hn] at he; cases he
      refine ⟨?_, fun i hi => covered_outside cfg s tok i hi⟩
      show (Scanner.outside cfg _ tok).tracker.onHold = none
      rw [(outside_tracker cfg _ tok).2.1]; exact hh
  rw [if_neg hnan] at he
  dsimp only at he
  cases hr : (s.parser.push cfg.lang (Scanner.testWord cfg s tok)).1 with
  | none =>
    rw [hr] at he; cases he
    exact ⟨hh, fun i hi => covered_advanced _ _ _ hi hmp⟩
  | some e =>
    rw [hr] at he
    cases e with
    | incomplete => cases he; exact ⟨hh, fun _ hi => hi⟩
    | overlap =>
      have := pushRejected_mono cfg hthr { s with parser := (s.parser.push cfg.lang (Scanner.testWord cfg s tok)).2 }
        s' pos tok hh hmp he
      exact this
    | nan =>
      have := pushRejected_mono cfg hthr { s with parser := (s.parser.push cfg.lang (Scanner.testWord cfg s tok)).2 }
        s' pos tok hh hmp he
      exact this
    | frozen =>
      have := pushRejected_mono cfg hthr { s with parser := (s.parser.push cfg.lang (Scanner.testWord cfg s tok)).2 }
        s' pos tok hh hmp he
      exact this

theorem pushAll_mono (cfg : ScanCfg) (hthr : ∀ n, cfg.thrLt n = false) (ts : List Tok) :
    ∀ (s s' : Scanner) (pos : Nat), s.tracker.onHold = none → ScInv s pos →
      Scanner.pushAll cfg s (enumFrom pos ts) = .ok s' → Mono s s' := by
  induction ts with
  | nil =>
    intro s s' pos hh _ he
    simp only [enumFrom, Scanner.pushAll] at he
    cases he
    exact ⟨hh, fun _ hi => hi⟩
  | cons t ts ih =>
    intro s s' pos hh hsc he
    obtain ⟨s1, h1, sc1⟩ := push_ok cfg s pos t hsc
    rw [pushAll_cons cfg s s1 pos t ts h1] at he
    obtain ⟨hh1, hc1⟩ := push_mono cfg hthr s s1 pos t hh hsc.2.1 h1
    obtain ⟨hh2, hc2⟩ := ih s1 s' (pos + 1) hh1 sc1 he
    exact ⟨hh2, fun i hi => hc2 i (hc1 i hi)⟩

/-- **the key step of (B)**: pushing a token whose word is a valid number on its own, and that the
language never answers `Incomplete`, puts its position inside the open match -/
theorem push_covers (cfg : ScanCfg) (hl : LangAgree cfg.lang) (hthr : ∀ n, cfg.thrLt n = false)
    (pre : List Tok) (s s' : Scanner) (tok : Tok) (hinv : AInv cfg pre s) (hh : s.tracker.onHold = none)
    (hs : Scanner.isSkipped cfg tok = false) (hn : tok.nan = false)
    (hv : (cfg.lang.apply tok.lower DS.new).1 = none) (hni : NeverInc cfg.lang tok.lower)
    (hcomma : (∀ x y, cfg.sep x y = false) ∨ ∀ b, (cfg.lang.applyDecimal [','] b).1 ≠ some .incomplete)
    (he : s.push cfg pre.length tok = .ok s') : Covered s'.tracker pre.length := by
  obtain ⟨hP, hopen, hmsme, _⟩ := hinv.strict
  have hme : s.tracker.mend ≤ pre.length := hinv.tr.2.1
  have hagree : AProp cfg pre s.parser s.tracker.mstart s.tracker.mend
      (s.tracker.queue ++ s.tracker.onHold.toList) := hinv.agree
  obtain ⟨b0, hb0⟩ : ∃ b0, cfg.lang.apply tok.lower DS.new = (none, b0) := by
    cases hr : cfg.lang.apply tok.lower DS.new with
    | mk r b0 => rw [hr] at hv; exact ⟨b0, by rw [show r = none from hv]⟩
  -- on a parser that holds no number the word is accepted
  have hfresh : ∀ p : Parser, p.isDec = false → p.int = DS.new → (p.push cfg.lang tok.lower).1 = none := by
    intro p hd hi
    rw [parser_push_ok cfg.lang p tok.lower hd b0 (by rw [hi]; exact hb0)]
  cases hpush : s.parser.push cfg.lang (Scanner.testWord cfg s tok) with
  | mk r p' =>
    cases r with
    | none =>
      rw [push_accepted_eq cfg s pre.length tok hs hn p' hpush] at he
      cases he
      exact advanced_covers _ _ hmsme hme
    | some e =>
      by_cases hinc : e = .incomplete
      · -- never `Incomplete`
        exfalso
        subst hinc
        by_cases hd : s.parser.isDec = true
        · rw [Parser.push_dec _ _ _ hd] at hpush
          have h1 : (cfg.lang.applyDecimal (Scanner.testWord cfg s tok) s.parser.dec).1 = some .incomplete := by
            injection hpush
          rcases testWord_cases_reset cfg s tok with hw | ⟨hw, prev, hprev⟩
          · rw [hw] at h1; exact hni.dec _ h1
          · rw [hw] at h1
            rcases hcomma with hc | hc
            · rw [hc] at hprev; cases hprev
            · exact hc _ h1
        · have hd' : s.parser.isDec = false := by simpa using hd
          rcases Parser.push_nondec_cases cfg.lang s.parser (Scanner.testWord cfg s tok) hd' with
            ⟨b', _, hpp⟩ | ⟨e', b', _, hsp, _, _⟩ | ⟨e', b', ha, hpp⟩
          · rw [hpp] at hpush; cases hpush
          · rcases testWord_cases cfg s tok with hw | ⟨hw, _⟩
            · rw [hw, hni.notSep] at hsp; cases hsp
            · rw [hw, hl.comma_not_sep] at hsp; cases hsp
          · rw [hpp] at hpush
            have hee : e' = .incomplete := by injection hpush with h1 _; injection h1
            subst hee
            rcases testWord_cases cfg s tok with hw | ⟨hw, _⟩
            · rw [hw] at ha; exact hni.int s.parser.int (by rw [ha])
            · rw [hw] at ha
              obtain ⟨e2, h2, hne2⟩ := hl.comma_rejected s.parser.int
              rw [ha] at h2
              injection h2 with h2
              exact hne2 h2.symm
      · -- refused: the number ends and the word is tried again on the fresh parser
        rw [push_rejected_eq cfg s pre.length tok hs hn e p' hpush hinc] at he
        obtain ⟨_, _, f3⟩ := parser_push_facts cfg.lang hl.langOk s.parser hP (Scanner.testWord cfg s tok)
        have hnum : p'.hasNumber = s.parser.hasNumber := by
          have := f3 e (by rw [hpush])
          rw [hpush] at this; exact this
        unfold Scanner.pushRejected at he
        by_cases hnp : s.parser.hasNumber = true
        · rw [if_pos (by show p'.hasNumber = true; rw [hnum]; exact hnp)] at he
          cases h1 : Scanner.numberEnd cfg { s with parser := p' } with
          | error f => rw [h1] at he; cases he
          | ok s1 =>
            rw [h1] at he
            dsimp only at he
            obtain ⟨hp1, _, hms1, hme1, _, _⟩ := numberEnd_cov cfg hthr { s with parser := p' } s1 hh h1
            have hacc := hfresh s1.parser (by rw [hp1]) (by rw [hp1]; rfl)
            rw [hacc] at he
            simp only [Option.isNone_none, if_true] at he
            cases he
            exact advanced_covers _ _ (by rw [hms1, hme1]; exact Nat.le_refl _) (by rw [hme1]; exact hme)
        · exfalso
          have hnp' : s.parser.hasNumber = false := by simpa using hnp
          have hd' : s.parser.isDec = false := by
            cases hd : s.parser.isDec with
            | false => rfl
            | true => rw [hP hd] at hnp'; cases hnp'
          have hacc := hfresh s.parser hd' (hagree.1 hnp')
          rw [testWord_idle cfg s tok hnp'] at hpush
          rw [hpush] at hacc
          cases hacc

/-- **(B)**: with threshold 0, a token that is not skipped, not set aside (`nan = false`), whose word the
fresh builder accepts (it is a valid number on its own) and that the language never answers `Incomplete`,
lies inside some reported occurrence. Pause hints are allowed when the forced stop `","` is never
answered `Incomplete` in decimal mode. -/
theorem nothing_left (cfg : ScanCfg) (hl : LangAgree cfg.lang) (hthr : ∀ n, cfg.thrLt n = false)
    (toks : List Tok) (occs : List Occ) (h : findNumbers cfg toks = .ok occs) (i : Nat) (hi : i < toks.length)
    (hs : Scanner.isSkipped cfg toks[i] = false) (hn : toks[i].nan = false)
    (hv : (cfg.lang.apply toks[i].lower DS.new).1 = none) (hni : NeverInc cfg.lang toks[i].lower)
    (hcomma : (∀ x y, cfg.sep x y = false) ∨ ∀ b, (cfg.lang.applyDecimal [','] b).1 ≠ some .incomplete) :
    ∃ o ∈ occs, o.start ≤ i ∧ i < o.stop := by
  have hsplit : toks = toks.take i ++ toks[i] :: toks.drop (i + 1) := by
    rw [← List.drop_eq_getElem_cons hi, List.take_append_drop]
  have hlen : (toks.take i).length = i := by rw [List.length_take]; omega
  generalize hpre : toks.take i = pre at hsplit hlen
  generalize hpost : toks.drop (i + 1) = post at hsplit
  generalize toks[i] = tok at hsplit hs hn hv hni
  clear hpre hpost
  subst hsplit
  subst hlen
  unfold findNumbers at h
  -- the three stretches of the loop
  obtain ⟨s1, h1, sc1⟩ := pushAll_ok cfg pre {} 0 TrInv.init
  obtain ⟨s2, h2, sc2⟩ := push_ok cfg s1 (0 + pre.length) tok sc1
  have hall : Scanner.pushAll cfg {} (enumFrom 0 (pre ++ tok :: post)) =
      Scanner.pushAll cfg s2 (enumFrom (0 + pre.length + 1) post) := by
    rw [pushAll_append_ok cfg pre _ {} s1 0 h1, pushAll_cons cfg s1 s2 _ tok post h2]
  rw [hall] at h
  rw [Nat.zero_add] at h2 sc1 sc2 h hall
  cases h3 : Scanner.pushAll cfg s2 (enumFrom (pre.length + 1) post) with
  | error f => rw [h3] at h; cases h
  | ok s3 =>
    rw [h3] at h
    dsimp only at h
    cases h4 : s3.finalize cfg with
    | error f => rw [h4] at h; cases h
    | ok s4 =>
      rw [h4] at h
      cases h
      -- invariants
      have inv1 : AInv cfg pre s1 := by
        have := pushAll_agree cfg hl pre [] {} s1 (AInv.init cfg) h1
        rw [List.nil_append] at this; exact this
      have m1 := pushAll_mono cfg hthr pre {} s1 0 rfl TrInv.init h1
      have c2 : Covered s2.tracker pre.length :=
        push_covers cfg hl hthr pre s1 s2 tok inv1 m1.1 hs hn hv hni hcomma h2
      have m2 := push_mono cfg hthr s1 s2 pre.length tok m1.1 sc1.2.1 h2
      have m3 := pushAll_mono cfg hthr post s2 s3 (pre.length + 1) m2.1 sc2 h3
      have c3 : Covered s3.tracker pre.length := m3.2 _ c2
      have inv3 : AInv cfg (pre ++ tok :: post) s3 := by
        have := pushAll_agree cfg hl (pre ++ tok :: post) [] {} s3 (AInv.init cfg)
          (by show Scanner.pushAll cfg {} (enumFrom 0 _) = _; rw [hall]; exact h3)
        rw [List.nil_append] at this; exact this
      -- the end of the input
      unfold Scanner.finalize at h4
      by_cases hnum : s3.parser.hasNumber = true
      · rw [if_pos hnum] at h4
        obtain ⟨_, _, hms4, hme4, _, hc4⟩ := numberEnd_cov cfg hthr s3 s4 m3.1 h4
        rcases hc4 _ c3 with hq | ⟨hq1, hq2⟩
        · exact hq
        · rw [hms4] at hq1; rw [hme4] at hq2; omega
      · rw [if_neg hnum] at h4
        cases h4
        rcases c3 with hq | ⟨hq1, hq2⟩
        · exact hq
        · have := inv3.strict.closed (by simpa using hnum)
          omega

/-- a word that `text2digits` accepts on its own is accepted by the fresh builder -/
theorem valid_alone {l : Lang} {w d : Word} (h : text2digitsWords l [w] = .ok d) : (l.apply w DS.new).1 = none := by
  obtain ⟨ds, _, hx, _, _⟩ := text2digitsWords_ok h
  exact execGroupFrom_last_ok l.apply w [] DS.new ds false hx


/-! ### the seven interpreters: a word that is a valid number on its own is never answered `Incomplete`

`Incomplete` is the answer of the conjunction words only (`and`, `et`, `y`, `e`, `und`, `en`), whose
instruction never succeeds; a compound whose inner group ends on a conjunction is `Incomplete` whatever
the builder, so it is not valid on its own either; the merge of a compound is never `Incomplete`. -/

/-- the instruction has no `Incomplete` leaf -/
def actNoInc : Act → Bool
  | .fail e => e != .incomplete
  | .ite _ a b => actNoInc a && actNoInc b
  | .block _ a => actNoInc a
  | _ => true

/-- the instruction has only failing leaves -/
def actNoOk : Act → Bool
  | .fail _ => true
  | .ite _ a b => actNoOk a && actNoOk b
  | .block _ a => actNoOk a
  | _ => false

theorem put_ne_inc (b : DS) (ds : List Nat) : (b.put ds).1 ≠ some .incomplete := by
  unfold DS.put; repeat' (split <;> try simp)
theorem fput_ne_inc (b : DS) (ds : List Nat) : (b.fput ds).1 ≠ some .incomplete := by
  unfold DS.fput; repeat' (split <;> try simp)
theorem push_ne_inc (b : DS) (ds : List Nat) : (b.push ds).1 ≠ some .incomplete := by
  unfold DS.push; repeat' (split <;> try simp)
theorem putDigitAt_ne_inc (b : DS) (d p : Nat) : (b.putDigitAt d p).1 ≠ some .incomplete := by
  unfold DS.putDigitAt; repeat' (split <;> try simp)
theorem shift_ne_inc (b : DS) (p : Nat) : (b.shift p).1 ≠ some .incomplete := by
  unfold DS.shift; repeat' (split <;> try simp)

theorem exec_noInc (a : Act) : ∀ b : DS, actNoInc a = true → (a.exec b).1 ≠ some .incomplete := by
  induction a with
  | put ds => intro b _; simp only [Act.exec]; exact put_ne_inc b ds
  | fput ds => intro b _; simp only [Act.exec]; exact fput_ne_inc b ds
  | shift k => intro b _; simp only [Act.exec]; exact shift_ne_inc b k
  | putAt d p => intro b _; simp only [Act.exec]; exact putDigitAt_ne_inc b d p
  | push ds => intro b _; simp only [Act.exec]; exact push_ne_inc b ds
  | fail e =>
    intro b h
    simp only [actNoInc, bne_iff_ne, ne_eq] at h
    simp only [Act.exec]
    intro he; injection he with he; exact h he
  | ite g x y ihx ihy =>
    intro b h
    simp only [actNoInc, Bool.and_eq_true] at h
    simp only [Act.exec]
    split
    · exact ihx b h.1
    · exact ihy b h.2
  | block m a ih =>
    intro b h
    simp only [actNoInc] at h
    simp only [Act.exec]
    exact ih b h

theorem exec_noOk (a : Act) : ∀ b : DS, actNoOk a = true → (a.exec b).1 ≠ none := by
  induction a with
  | put ds => intro b h; simp [actNoOk] at h
  | fput ds => intro b h; simp [actNoOk] at h
  | shift k => intro b h; simp [actNoOk] at h
  | putAt d p => intro b h; simp [actNoOk] at h
  | push ds => intro b h; simp [actNoOk] at h
  | fail e => intro b _; simp [Act.exec]
  | ite g x y ihx ihy =>
    intro b h
    simp only [actNoOk, Bool.and_eq_true] at h
    simp only [Act.exec]
    split
    · exact ihx b h.1
    · exact ihy b h.2
  | block m a ih =>
    intro b h
    simp only [actNoOk] at h
    simp only [Act.exec]
    exact ih b h

/-- an instruction of the tables that succeeds on the fresh builder is never `Incomplete` -/
theorem act_ni (a : Act) (h : (actNoInc a || actNoOk a) = true) (hv : (a.exec DS.new).1 = none) (b : DS) :
    (a.exec b).1 ≠ some .incomplete := by
  rw [Bool.or_eq_true] at h
  rcases h with h | h
  · exact exec_noInc a b h
  · exact absurd hv (exec_noOk a DS.new h)

theorem lookup_all' (P : Act → Bool) (l : List (Word × Act)) (hl : (l.all fun p => P p.2) = true)
    (hd : P (.fail .nan) = true) (k : Word) : P ((l.lookup k).getD (.fail .nan)) = true := by
  induction l with
  | nil => exact hd
  | cons p ps ih =>
    cases p with
    | mk a v =>
      rw [List.all_cons, Bool.and_eq_true] at hl
      rw [List.lookup_cons]
      cases hk : (k == a) with
      | true => exact hl.1
      | false => exact ih hl.2

theorem mergeGroup_ne_inc (b ds : DS) (cf : Bool) (m : Marker) : (mergeGroup b ds cf m).1 ≠ some .incomplete := by
  unfold mergeGroup
  split
  · simp
  · cases hp : b.put ds.rbuf.reverse with
    | mk r b' =>
      cases r with
      | some e =>
        have := put_ne_inc b ds.rbuf.reverse
        rw [hp] at this
        exact this
      | none => simp

/-- a compound: the inner group does not see the builder -/
theorem group_ni (g : Except Err DS) (cf : Bool) (mk : DS → Marker) (b : DS)
    (hv : (match g with
      | .ok ds => mergeGroup DS.new ds cf (mk ds)
      | .error e => (some e, DS.new)).1 = none) :
    (match g with
      | .ok ds => mergeGroup b ds cf (mk ds)
      | .error e => (some e, b)).1 ≠ some .incomplete := by
  cases g with
  | ok ds => exact mergeGroup_ne_inc b ds cf (mk ds)
  | error e => simp at hv

theorem decimal_ne_inc (b : DS) (o : Option Nat) :
    (match o with
      | some d => b.push [d]
      | none => (some .nan, b)).1 ≠ some .incomplete := by
  cases o with
  | none => simp
  | some d => exact push_ne_inc b [d]

/-- the table check -/
def tableOk (l : List (Word × Act)) : Bool := l.all fun p => actNoInc p.2 || actNoOk p.2

theorem table_lookup (l : List (Word × Act)) (h : tableOk l = true) (k : Word) :
    (actNoInc ((l.lookup k).getD (.fail .nan)) || actNoOk ((l.lookup k).getD (.fail .nan))) = true :=
  lookup_all' (fun a => actNoInc a || actNoOk a) l h rfl k

/-! English -/

theorem en_table : tableOk T2N.En.vocab = true := by decide

theorem en_apply_ni (w : Word) (hv : (T2N.En.apply w DS.new).1 = none) (b : DS) :
    (T2N.En.apply w b).1 ≠ some .incomplete := by
  unfold T2N.En.apply T2N.En.applyFuel at hv ⊢
  by_cases hc : w.contains '-' = true
  · rw [if_pos hc] at hv ⊢
    exact group_ni _ false (fun ds => ds.marker) b hv
  · rw [if_neg hc] at hv ⊢
    dsimp only at hv ⊢
    have ht := table_lookup T2N.En.vocab en_table (T2N.En.lemmatize w)
    have key := act_ni _ ht (by
      cases hr : ((T2N.En.vocab.lookup (T2N.En.lemmatize w)).getD (.fail .nan)).exec DS.new with
      | mk r rest =>
        rw [hr] at hv
        dsimp only at hv
        split at hv <;> exact hv) b
    cases hr : ((T2N.En.vocab.lookup (T2N.En.lemmatize w)).getD (.fail .nan)).exec b with
    | mk r rest =>
      rw [hr] at key
      dsimp only at key ⊢
      split <;> exact key

theorem neverInc_en (w : Word) (hv : (T2N.En.lang.apply w DS.new).1 = none) : NeverInc T2N.En.lang w where
  int := en_apply_ni w hv
  dec := fun b => by
    show (T2N.En.applyDecimal w b).1 ≠ _
    unfold T2N.En.applyDecimal
    exact decimal_ne_inc b _
  notSep := by
    show (w == w!"point") = false
    cases hw : (w == w!"point") with
    | false => rfl
    | true =>
      have : w = w!"point" := by simpa using hw
      subst this
      revert hv
      decide


/-! French -/

theorem fr_table : tableOk T2N.Fr.vocab = true := by decide

theorem fr_apply_ni (w : Word) (hv : (T2N.Fr.apply w DS.new).1 = none) (b : DS) :
    (T2N.Fr.apply w b).1 ≠ some .incomplete := by
  unfold T2N.Fr.apply T2N.Fr.applyFuel at hv ⊢
  by_cases hc : w.contains '-' = true
  · rw [if_pos hc] at hv ⊢
    exact group_ni _ true (fun ds => ds.marker) b hv
  · rw [if_neg hc] at hv ⊢
    dsimp only at hv ⊢
    have ht := table_lookup T2N.Fr.vocab fr_table (T2N.Fr.lemmatize w)
    have key := act_ni _ ht (by
      cases hr : ((T2N.Fr.vocab.lookup (T2N.Fr.lemmatize w)).getD (.fail .nan)).exec DS.new with
      | mk r rest =>
        rw [hr] at hv
        dsimp only at hv
        split at hv <;> exact hv) b
    cases hr : ((T2N.Fr.vocab.lookup (T2N.Fr.lemmatize w)).getD (.fail .nan)).exec b with
    | mk r rest =>
      rw [hr] at key
      dsimp only at key ⊢
      split <;> exact key

theorem neverInc_fr (w : Word) (hv : (T2N.Fr.lang.apply w DS.new).1 = none) : NeverInc T2N.Fr.lang w where
  int := fr_apply_ni w hv
  dec := fr_apply_ni w hv
  notSep := by
    show (w == w!"virgule") = false
    cases hw : (w == w!"virgule") with
    | false => rfl
    | true =>
      have : w = w!"virgule" := by simpa using hw
      subst this
      revert hv
      decide

/-! Spanish -/

theorem es_table : tableOk T2N.Es.vocab = true := by decide

theorem es_apply_ni (w : Word) (hv : (T2N.Es.apply w DS.new).1 = none) (b : DS) :
    (T2N.Es.apply w b).1 ≠ some .incomplete := by
  unfold T2N.Es.apply at hv ⊢
  dsimp only at hv ⊢
  split at hv
  · cases hv
  · split
    · simp
    · have ht := table_lookup T2N.Es.vocab es_table (T2N.Es.lemmatize w)
      have key := act_ni _ ht (by
        cases hr : ((T2N.Es.vocab.lookup (T2N.Es.lemmatize w)).getD (.fail .nan)).exec DS.new with
        | mk r rest =>
          rw [hr] at hv
          dsimp only at hv
          split at hv <;> exact hv) b
      cases hr : ((T2N.Es.vocab.lookup (T2N.Es.lemmatize w)).getD (.fail .nan)).exec b with
      | mk r rest =>
        rw [hr] at key
        dsimp only at key ⊢
        split <;> exact key

theorem neverInc_es (w : Word) (hv : (T2N.Es.lang.apply w DS.new).1 = none) : NeverInc T2N.Es.lang w where
  int := es_apply_ni w hv
  dec := es_apply_ni w hv
  notSep := by
    show (w == w!"coma") = false
    cases hw : (w == w!"coma") with
    | false => rfl
    | true =>
      have : w = w!"coma" := by simpa using hw
      subst this
      revert hv
      decide

/-! Portuguese -/

theorem pt_table (mnone : Bool) : tableOk (T2N.Pt.vocab mnone) = true := by cases mnone <;> decide

theorem pt_apply_ni (w : Word) (hv : (T2N.Pt.apply w DS.new).1 = none) (b : DS) :
    (T2N.Pt.apply w b).1 ≠ some .incomplete := by
  unfold T2N.Pt.apply at hv ⊢
  dsimp only at hv ⊢
  split at hv
  · cases hv
  · split
    · simp
    · have ht := table_lookup (T2N.Pt.vocab (T2N.Pt.morph w).isNone) (pt_table _) (T2N.Pt.lemmatize w)
      have key := act_ni _ ht (by
        cases hr : (((T2N.Pt.vocab (T2N.Pt.morph w).isNone).lookup (T2N.Pt.lemmatize w)).getD (.fail .nan)).exec DS.new with
        | mk r rest =>
          rw [hr] at hv
          dsimp only at hv
          split at hv <;> first | exact hv | cases hv) b
      cases hr : (((T2N.Pt.vocab (T2N.Pt.morph w).isNone).lookup (T2N.Pt.lemmatize w)).getD (.fail .nan)).exec b with
      | mk r rest =>
        rw [hr] at key
        dsimp only at key ⊢
        split
        · simp
        · exact absurd rfl key
        · rename_i e hne
          intro h
          injection h with h
          exact hne (by rw [h])

theorem neverInc_pt (w : Word) (hv : (T2N.Pt.lang.apply w DS.new).1 = none) : NeverInc T2N.Pt.lang w where
  int := pt_apply_ni w hv
  dec := pt_apply_ni w hv
  notSep := by
    show (w == w!"vírgula") = false
    cases hw : (w == w!"vírgula") with
    | false => rfl
    | true =>
      have : w = w!"vírgula" := by simpa using hw
      subst this
      revert hv
      decide

/-! Italian -/

theorem it_table : tableOk T2N.It.vocab = true := by decide

theorem it_apply_ni (w : Word) (hv : (T2N.It.apply w DS.new).1 = none) (b : DS) :
    (T2N.It.apply w b).1 ≠ some .incomplete := by
  unfold T2N.It.apply T2N.It.applyFuel at hv ⊢
  dsimp only at hv ⊢
  by_cases hc : isSplittable T2N.It.patterns (T2N.It.lemmatize w) = true
  · rw [if_pos hc] at hv ⊢
    exact group_ni _ false (fun _ => T2N.It.morph w) b hv
  · rw [if_neg hc] at hv ⊢
    have ht : (actNoInc (if (T2N.It.lemmatize w == w!"non" && w == w!"non") = true then Act.fail Err.nan
        else (T2N.It.vocab.lookup (T2N.It.lemmatize w)).getD (.fail .nan)) ||
        actNoOk (if (T2N.It.lemmatize w == w!"non" && w == w!"non") = true then Act.fail Err.nan
        else (T2N.It.vocab.lookup (T2N.It.lemmatize w)).getD (.fail .nan))) = true := by
      split
      · rfl
      · exact table_lookup T2N.It.vocab it_table (T2N.It.lemmatize w)
    have key := act_ni _ ht (by
      cases hr : (if (T2N.It.lemmatize w == w!"non" && w == w!"non") = true then Act.fail Err.nan
        else (T2N.It.vocab.lookup (T2N.It.lemmatize w)).getD (.fail .nan)).exec DS.new with
      | mk r rest =>
        rw [hr] at hv
        dsimp only at hv
        split at hv <;> exact hv) b
    cases hr : (if (T2N.It.lemmatize w == w!"non" && w == w!"non") = true then Act.fail Err.nan
        else (T2N.It.vocab.lookup (T2N.It.lemmatize w)).getD (.fail .nan)).exec b with
    | mk r rest =>
      rw [hr] at key
      dsimp only at key ⊢
      split <;> exact key

theorem neverInc_it (w : Word) (hv : (T2N.It.lang.apply w DS.new).1 = none) : NeverInc T2N.It.lang w where
  int := it_apply_ni w hv
  dec := it_apply_ni w hv
  notSep := by
    show (w == w!"virgola") = false
    cases hw : (w == w!"virgola") with
    | false => rfl
    | true =>
      have : w = w!"virgola" := by simpa using hw
      subst this
      revert hv
      decide

/-! German -/

theorem de_table : tableOk T2N.De.vocab = true := by decide

theorem de_apply_ni (w : Word) (hv : (T2N.De.apply w DS.new).1 = none) (b : DS) :
    (T2N.De.apply w b).1 ≠ some .incomplete := by
  unfold T2N.De.apply T2N.De.applyFuel at hv ⊢
  dsimp only at hv ⊢
  by_cases hc : isSplittable T2N.De.patterns (T2N.De.lemmatize w) = true
  · rw [if_pos hc] at hv ⊢
    exact group_ni _ false (fun ds => ds.marker) b hv
  · rw [if_neg hc] at hv ⊢
    have ht := table_lookup T2N.De.vocab de_table (T2N.De.lemmatize w)
    have key := act_ni _ ht (by
      cases hr : ((T2N.De.vocab.lookup (T2N.De.lemmatize w)).getD (.fail .nan)).exec DS.new with
      | mk r rest =>
        rw [hr] at hv
        dsimp only at hv
        split at hv <;> exact hv) b
    cases hr : ((T2N.De.vocab.lookup (T2N.De.lemmatize w)).getD (.fail .nan)).exec b with
    | mk r rest =>
      rw [hr] at key
      dsimp only at key ⊢
      split <;> exact key

theorem neverInc_de (w : Word) (hv : (T2N.De.lang.apply w DS.new).1 = none) : NeverInc T2N.De.lang w where
  int := de_apply_ni w hv
  dec := fun b => by
    show (T2N.De.applyDecimal w b).1 ≠ _
    unfold T2N.De.applyDecimal
    exact decimal_ne_inc b _
  notSep := by
    show (w == w!"komma") = false
    cases hw : (w == w!"komma") with
    | false => rfl
    | true =>
      have : w = w!"komma" := by simpa using hw
      subst this
      revert hv
      decide

/-! Dutch -/

theorem nl_table : tableOk T2N.Nl.vocab = true := by decide

theorem nl_apply_ni (w : Word) (hv : (T2N.Nl.apply w DS.new).1 = none) (b : DS) :
    (T2N.Nl.apply w b).1 ≠ some .incomplete := by
  unfold T2N.Nl.apply T2N.Nl.applyFuel at hv ⊢
  by_cases hc : isSplittable T2N.Nl.patterns w = true
  · rw [if_pos hc] at hv ⊢
    exact group_ni _ false (fun ds => ds.marker) b hv
  · rw [if_neg hc] at hv ⊢
    dsimp only at hv ⊢
    have ht := table_lookup T2N.Nl.vocab nl_table w
    have key := act_ni _ ht (by
      cases hr : ((T2N.Nl.vocab.lookup w).getD (.fail .nan)).exec DS.new with
      | mk r rest =>
        rw [hr] at hv
        dsimp only at hv
        split at hv
        · split at hv <;> exact hv
        · exact hv) b
    cases hr : ((T2N.Nl.vocab.lookup w).getD (.fail .nan)).exec b with
    | mk r rest =>
      rw [hr] at key
      dsimp only at key ⊢
      split
      · split <;> exact key
      · exact key

theorem neverInc_nl (w : Word) (hv : (T2N.Nl.lang.apply w DS.new).1 = none) : NeverInc T2N.Nl.lang w where
  int := nl_apply_ni w hv
  dec := nl_apply_ni w hv
  notSep := by
    show (w == w!"komma") = false
    cases hw : (w == w!"komma") with
    | false => rfl
    | true =>
      have : w = w!"komma" := by simpa using hw
      subst this
      revert hv
      decide

/-- **all seven**: a word that the fresh builder accepts is never answered `Incomplete` -/
theorem neverInc_builtin (l : Lang) (hl : l ∈ allLangs) (w : Word) (hv : (l.apply w DS.new).1 = none) :
    NeverInc l w := by
  simp only [allLangs, List.mem_cons, List.not_mem_nil, or_false] at hl
  rcases hl with rfl | rfl | rfl | rfl | rfl | rfl | rfl
  · exact neverInc_en w hv
  · exact neverInc_fr w hv
  · exact neverInc_es w hv
  · exact neverInc_pt w hv
  · exact neverInc_it w hv
  · exact neverInc_de w hv
  · exact neverInc_nl w hv

/-- the forced stop `","` is never answered `Incomplete` in decimal mode (en, de: `apply_decimal` knows
digit words only; the others: `apply_decimal = apply`, which refuses `","`) -/
theorem comma_dec_builtin (l : Lang) (hl : l ∈ allLangs) (hla : LangAgree l) (b : DS) :
    (l.applyDecimal [','] b).1 ≠ some .incomplete := by
  have hint : (l.apply [','] b).1 ≠ some .incomplete := by
    obtain ⟨e, he, hne⟩ := hla.comma_rejected b
    rw [he]; intro h; injection h with h; exact hne h
  simp only [allLangs, List.mem_cons, List.not_mem_nil, or_false] at hl
  rcases hl with rfl | rfl | rfl | rfl | rfl | rfl | rfl
  · have : T2N.En.lang.applyDecimal [','] b = (some .nan, b) := rfl
    rw [this]; simp
  · exact hint
  · exact hint
  · exact hint
  · exact hint
  · have : T2N.De.lang.applyDecimal [','] b = (some .nan, b) := rfl
    rw [this]; simp
  · exact hint


/-! the decimal separator is refused by `apply` in every state: a phrase that validates contains none -/

theorem stepsOk_mem (apply : Word → DS → Res × DS) : ∀ (ws : List Word) (b : DS), stepsOk apply ws b →
    ∀ w ∈ ws, ∃ b', (apply w b').1 = none ∨ (apply w b').1 = some .incomplete := by
  intro ws
  induction ws with
  | nil => intro _ _ w hw; cases hw
  | cons x xs ih =>
    intro b h w hw
    rcases List.mem_cons.mp hw with rfl | hw
    · exact ⟨b, h.1⟩
    · exact ih _ h.2 w hw

theorem sep_rejected_builtin (l : Lang) (hl : l ∈ allLangs) (w : Word) (hs : l.isDecSep w = true) (b : DS) :
    ∃ e, (l.apply w b).1 = some e ∧ e ≠ .incomplete := by
  simp only [allLangs, List.mem_cons, List.not_mem_nil, or_false] at hl
  rcases hl with rfl | rfl | rfl | rfl | rfl | rfl | rfl
  · have : w = w!"point" := by simpa [T2N.En.lang] using hs
    subst this
    exact ⟨.nan, rfl, by intro h; cases h⟩
  · have : w = w!"virgule" := by simpa [T2N.Fr.lang] using hs
    subst this
    exact ⟨.nan, rfl, by intro h; cases h⟩
  · have : w = w!"coma" := by simpa [T2N.Es.lang] using hs
    subst this
    show ∃ e, (T2N.Es.apply w!"coma" b).1 = some e ∧ e ≠ .incomplete
    unfold T2N.Es.apply; dsimp only; split
    · exact ⟨.overlap, rfl, by intro h; cases h⟩
    · exact ⟨.nan, rfl, by intro h; cases h⟩
  · have : w = w!"vírgula" := by simpa [T2N.Pt.lang] using hs
    subst this
    show ∃ e, (T2N.Pt.apply w!"vírgula" b).1 = some e ∧ e ≠ .incomplete
    unfold T2N.Pt.apply; dsimp only; split
    · exact ⟨.overlap, rfl, by intro h; cases h⟩
    · exact ⟨.nan, rfl, by intro h; cases h⟩
  · have : w = w!"virgola" := by simpa [T2N.It.lang] using hs
    subst this
    exact ⟨.nan, rfl, by intro h; cases h⟩
  · have : w = w!"komma" := by simpa [T2N.De.lang] using hs
    subst this
    exact ⟨.nan, rfl, by intro h; cases h⟩
  · have : w = w!"komma" := by simpa [T2N.Nl.lang] using hs
    subst this
    exact ⟨.nan, rfl, by intro h; cases h⟩

/-- a phrase that validates (seven interpreters) contains no decimal separator -/
theorem nosep_of_valid_builtin (l : Lang) (hl : l ∈ allLangs) (ws : List Word) (d : Word)
    (h : text2digitsWords l ws = .ok d) : ∀ w ∈ ws, l.isDecSep w = false := by
  intro w hw
  obtain ⟨ds, _, hx, _, _⟩ := text2digitsWords_ok h
  obtain ⟨b', hb'⟩ := stepsOk_mem _ _ _ (execGroupFrom_stepsOk _ _ _ _ _ hx) w hw
  cases hs : l.isDecSep w with
  | false => rfl
  | true =>
    obtain ⟨e, he, hne⟩ := sep_rejected_builtin l hl w hs b'
    rcases hb' with hb' | hb'
    · rw [he] at hb'; cases hb'
    · rw [he] at hb'; injection hb' with hb'; exact absurd hb' hne


theorem mem_wordsOf (cfg : ScanCfg) (ts : List Tok) (t : Tok) (ht : t ∈ ts)
    (hs : Scanner.isSkipped cfg t = false) : t.lower ∈ wordsOf cfg ts := by
  unfold wordsOf
  rw [List.mem_map]
  exact ⟨t, List.mem_filter.mpr ⟨ht, by rw [hs]; rfl⟩, rfl⟩

/-- (A) for the seven interpreters: the phrase need not be checked for decimal separators -/
theorem valid_is_one_builtin (cfg : ScanCfg) (hl : cfg.lang ∈ allLangs) (hla : LangAgree cfg.lang)
    (hsep : ∀ x y, cfg.sep x y = false) (hthr : ∀ n, cfg.thrLt n = false) (P core Q : List Tok) (d : Word)
    (hP : ∀ t ∈ P, IdleTok cfg t) (hQ : ∀ t ∈ Q, PlainTok cfg t)
    (hcore : ∀ t ∈ core, Scanner.isSkipped cfg t = false → t.nan = false)
    (hlast : ∀ t ∈ core.getLast?, Scanner.isSkipped cfg t = false)
    (h : text2digitsWords cfg.lang (wordsOf cfg core) = .ok d) :
    ∃ ds v, execGroup cfg.lang.apply (wordsOf cfg core) = .ok ds ∧ cfg.lang.formatW ds = .ok (d, v) ∧
      findNumbers cfg (P ++ core ++ Q) =
        .ok [⟨P.length + (core.takeWhile (idleB cfg)).length, P.length + core.length, d, v, ds.isOrdinal⟩] :=
  valid_is_one_general cfg hla hsep hthr P core Q d hP hQ
    (fun t ht hs => ⟨hcore t ht hs,
      nosep_of_valid_builtin cfg.lang hl _ d h t.lower (mem_wordsOf cfg core t ht hs)⟩)
    hlast h


/-! ### English: every spelled cardinal is found as one occurrence -/

namespace EnScan
open T2N.Spec

def enCfg : ScanCfg := scanCfg T2N.En.lang zeroThr

/-- not skipped by the scanner and not the decimal separator -/
def okw (w : Word) : Bool := !(Scanner.isSkipped enCfg (wtok w)) && !(T2N.En.lang.isDecSep w)

/-- a word without hyphen -/
def Simple (w : Word) : Prop := w.contains '-' = false ∧ okw w = true

/-- `tens-unit` -/
def Compound (w : Word) : Prop := ∃ (v : Var) (g t u : Nat), 2 ≤ t ∧ t < 10 ∧ u ≠ 0 ∧ u < 10 ∧
  w = Spec.En.tensWord v g t ++ ['-'] ++ Spec.En.unitWord u

/-- the words a cardinal is spelled with -/
def SW (w : Word) : Prop := Simple w ∨ Compound w

theorem simple_unit (d : Nat) (h : d < 20) : Simple (Spec.En.unitWord d) := by
  have : ∀ d, d < 20 → ((Spec.En.unitWord d).contains '-' = false ∧ okw (Spec.En.unitWord d) = true) := by
    decide
  exact this d h

theorem simple_tens (v : Var) (g t : Nat) (h2 : 2 ≤ t) (h9 : t < 10) : Simple (Spec.En.tensWord v g t) := by
  have : ∀ (f : Bool) (t : Nat), t < 10 → 2 ≤ t →
      (((if (t == 4 && f) = true then w!"fourty" else Spec.En.tensWords.getD t []) : Word).contains '-' = false ∧
        okw (if (t == 4 && f) = true then w!"fourty" else Spec.En.tensWords.getD t []) = true) := by
    intro f; cases f <;> decide
  exact this (flag v (cp g 2)) t h9 h2

theorem okw_compound (v : Var) (g t u : Nat) (h2 : 2 ≤ t) (h9 : t < 10) (u0 : u ≠ 0) (u9 : u < 10) :
    okw (Spec.En.tensWord v g t ++ ['-'] ++ Spec.En.unitWord u) = true := by
  have : ∀ (f : Bool) (t : Nat), t < 10 → 2 ≤ t → ∀ u, u < 10 → u ≠ 0 →
      okw ((if (t == 4 && f) = true then w!"fourty" else Spec.En.tensWords.getD t []) ++ ['-'] ++
        Spec.En.unitWord u) = true := by
    intro f; cases f <;> decide
  exact this (flag v (cp g 2)) t h9 h2 u u9 u0

theorem simple_scale (v : Var) (g : Nat) : Simple (Spec.En.scaleWord v g) := by
  rcases g with _ | _ | _ | g
  · unfold Spec.En.scaleWord; dsimp only; cases flag v _ <;> exact ⟨by decide, by decide⟩
  · unfold Spec.En.scaleWord; dsimp only; cases flag v _ <;> exact ⟨by decide, by decide⟩
  · unfold Spec.En.scaleWord; dsimp only; cases flag v _ <;> exact ⟨by decide, by decide⟩
  · have e : Spec.En.scaleWord v (g + 1 + 1 + 1) =
        if flag v (cp (g + 1 + 1 + 1) 3) then w!"billion" ++ ['s'] else w!"billion" := rfl
    rw [e]
    cases flag v _ <;> exact ⟨by decide, by decide⟩

theorem simple_hundred : Simple w!"hundred" := ⟨by decide, by decide⟩
theorem simple_and : Simple w!"and" := ⟨by decide, by decide⟩
theorem simple_zero : Simple w!"zero" := ⟨by decide, by decide⟩

theorem mem_ite {c : Prop} [Decidable c] {a b : List Word} {w : Word} (h : w ∈ if c then a else b) :
    w ∈ a ∨ w ∈ b := by
  split at h
  · exact Or.inl h
  · exact Or.inr h

theorem below100_sw (v : Var) (g r : Nat) (h1 : r < 100) : ∀ w ∈ Spec.En.below100 v g r, SW w := by
  intro w hw
  unfold Spec.En.below100 at hw
  by_cases h20 : r < 20
  · rw [if_pos h20] at hw
    have : w = Spec.En.unitWord r := by simpa using hw
    subst this; exact Or.inl (simple_unit r h20)
  · rw [if_neg h20] at hw
    dsimp only at hw
    have ht2 : 2 ≤ r / 10 := by omega
    have ht9 : r / 10 < 10 := by omega
    by_cases hu : r % 10 = 0
    · rw [if_pos (by simp [hu])] at hw
      have : w = Spec.En.tensWord v g (r / 10) := by simpa using hw
      subst this; exact Or.inl (simple_tens v g _ ht2 ht9)
    · rw [if_neg (by simp [hu])] at hw
      rcases mem_ite hw with hw | hw
      · simp only [List.mem_cons, List.not_mem_nil, or_false] at hw
        rcases hw with rfl | rfl
        · exact Or.inl (simple_tens v g _ ht2 ht9)
        · exact Or.inl (simple_unit _ (by omega))
      · have : w = Spec.En.tensWord v g (r / 10) ++ ['-'] ++ Spec.En.unitWord (r % 10) := by simpa using hw
        exact Or.inr ⟨v, g, r / 10, r % 10, ht2, ht9, hu, by omega, this⟩

theorem group_sw (v : Var) (g n : Nat) (first : Bool) (hn : n < 1000) :
    ∀ w ∈ Spec.En.group v g n first, SW w := by
  intro w hw
  unfold Spec.En.group at hw
  dsimp only at hw
  rw [List.mem_append, List.mem_append] at hw
  rcases hw with (hw | hw) | hw
  · rcases mem_ite hw with hw | hw
    · cases hw
    · rcases mem_ite hw with hw | hw
      · have : w = w!"hundred" := by simpa using hw
        subst this; exact Or.inl simple_hundred
      · simp only [List.mem_cons, List.not_mem_nil, or_false] at hw
        rcases hw with rfl | rfl
        · exact Or.inl (simple_unit _ (by omega))
        · exact Or.inl simple_hundred
  · rcases mem_ite hw with hw | hw
    · have : w = w!"and" := by simpa using hw
      subst this; exact Or.inl simple_and
    · cases hw
  · rcases mem_ite hw with hw | hw
    · cases hw
    · exact below100_sw v g (n % 100) (by omega) w hw

theorem scaled_sw (v : Var) (g n : Nat) (first : Bool) (hn : n < 1000) :
    ∀ w ∈ Spec.En.scaled v g n first, SW w := by
  intro w hw
  unfold Spec.En.scaled at hw
  rcases mem_ite hw with hw | hw
  · cases hw
  · rcases mem_ite hw with hw | hw
    · have : w = Spec.En.scaleWord v g := by simpa using hw
      subst this; exact Or.inl (simple_scale v g)
    · rw [List.mem_append] at hw
      rcases hw with hw | hw
      · exact group_sw v g n first hn w hw
      · have : w = Spec.En.scaleWord v g := by simpa using hw
        subst this; exact Or.inl (simple_scale v g)

/-- every word of a spelled cardinal is a plain number word or a `tens-unit` compound -/
theorem cardinal_sw (v : Var) (n : Nat) : ∀ w ∈ Spec.En.cardinal v n, SW w := by
  intro w hw
  unfold Spec.En.cardinal at hw
  rcases mem_ite hw with hw | hw
  · have : w = w!"zero" := by simpa using hw
    subst this; exact Or.inl simple_zero
  · dsimp only at hw
    simp only [List.mem_append] at hw
    rcases hw with (((hw | hw) | hw) | hw) | hw
    · exact scaled_sw v 3 _ _ (Nat.mod_lt _ (by decide)) w hw
    · exact scaled_sw v 2 _ _ (Nat.mod_lt _ (by decide)) w hw
    · exact scaled_sw v 1 _ _ (Nat.mod_lt _ (by decide)) w hw
    · rcases mem_ite hw with hw | hw
      · have : w = w!"and" := by simpa using hw
        subst this; exact Or.inl simple_and
      · cases hw
    · rcases mem_ite hw with hw | hw
      · cases hw
      · exact group_sw v 0 _ _ (Nat.mod_lt _ (by decide)) w hw

theorem okw_of_sw {w : Word} (h : SW w) : okw w = true := by
  rcases h with h | ⟨v, g, t, u, h2, h9, u0, u9, rfl⟩
  · exact h.2
  · exact okw_compound v g t u h2 h9 u0 u9

theorem en_new_not_incomplete :
    (T2N.En.vocab.all fun p => (p.2.exec DS.new).1 != some .incomplete) = true := by decide

/-- no English word without hyphen is answered `Incomplete` by the fresh builder (`and` needs two digits) -/
theorem simple_not_incomplete (w : Word) (h : w.contains '-' = false) :
    (T2N.En.apply w DS.new).1 ≠ some .incomplete := by
  have hni := lookup_all' (fun a => (a.exec DS.new).1 != some .incomplete) T2N.En.vocab
    en_new_not_incomplete (by decide) (T2N.En.lemmatize w)
  unfold T2N.En.apply T2N.En.applyFuel
  rw [if_neg (by rw [h]; exact Bool.false_ne_true)]
  dsimp only
  cases hr : ((T2N.En.vocab.lookup (T2N.En.lemmatize w)).getD (.fail .nan)).exec DS.new with
  | mk r rest =>
    rw [hr] at hni
    dsimp only at hni ⊢
    have hne : r ≠ some .incomplete := by
      intro he; subst he; simp at hni
    split
    · exact hne
    · exact hne

/-- the first word of a phrase that validates is accepted by the fresh builder, when it is a word of a
spelled cardinal -/
theorem sw_first (w : Word) (hsw : SW w)
    (h : (T2N.En.apply w DS.new).1 = none ∨ (T2N.En.apply w DS.new).1 = some .incomplete) :
    (T2N.En.apply w DS.new).1 = none := by
  rcases hsw with hs | ⟨v, g, t, u, h2, h9, u0, u9, rfl⟩
  · rcases h with h | h
    · exact h
    · exact absurd h (simple_not_incomplete w hs.1)
  · have := C01En.compound_apply v g t u 0 h2 h9 u0 u9 (by decide)
    rw [C01En.lsb_zero, C01En.mk_nil] at this
    rw [this]

theorem en_hws (v : Var) (n : Nat) : ∀ w ∈ Spec.En.cardinal v n,
    Scanner.isSkipped enCfg (wtok w) = false ∧ enCfg.lang.isDecSep w = false := by
  intro w hw
  have := okw_of_sw (cardinal_sw v n w hw)
  unfold okw at this
  simp only [Bool.and_eq_true, Bool.not_eq_eq_eq_not, Bool.not_true] at this
  exact this

theorem en_hfirst (v : Var) (n : Nat) (d : Word)
    (h : text2digitsWords T2N.En.lang (Spec.En.cardinal v n) = .ok d) :
    ∀ w ∈ (Spec.En.cardinal v n).head?, (enCfg.lang.apply w DS.new).1 = none := by
  intro w hw
  obtain ⟨ds, _, hx, _, _⟩ := text2digitsWords_ok h
  cases hc : Spec.En.cardinal v n with
  | nil => rw [hc] at hw; cases hw
  | cons w0 l =>
    rw [hc] at hw hx
    have : w = w0 := by simpa using hw.symm
    subst this
    have hsw : SW w := cardinal_sw v n w (by rw [hc]; exact List.mem_cons_self ..)
    have hst := execGroupFrom_stepsOk _ _ _ _ _ hx
    exact sw_first w hsw hst.1

/-- the builder the validator reaches, its text and value -/
theorem en_value (v : Var) (n : Nat) (h : n < 10 ^ 12) (ds : DS) (val : Value)
    (hx : execGroup T2N.En.lang.apply (Spec.En.cardinal v n) = .ok ds)
    (hf : T2N.En.lang.formatW ds = .ok (decChars n, val)) :
    val = .dec (decDigits n) [] ∧ ds.isOrdinal = false := by
  by_cases hn : n = 0
  · subst hn
    have hc0 : Spec.En.cardinal v 0 = [w!"zero"] := rfl
    have e0 : execGroup T2N.En.lang.apply [w!"zero"] = .ok { lz := 1 } := by rfl
    rw [hc0, e0] at hx
    cases hx
    have e1 : T2N.En.lang.formatW { lz := 1 } = .ok (['0'], .dec [0] []) := rfl
    rw [e1] at hf
    have e2 : decDigits 0 = [0] := by rw [decDigits, if_pos (by decide)]
    have := (Prod.mk.inj (Except.ok.inj hf)).2
    rw [e2]
    exact ⟨this.symm, rfl⟩
  · have hs := C01En.cardinal_steps v n hn h []
    rw [List.append_nil, C01En.lsb_zero, C01En.mk_nil] at hs
    have hex : execGroup T2N.En.lang.apply (Spec.En.cardinal v n) = .ok (C01En.mk (C01En.lsb n)) := by
      show execGroupFrom T2N.En.apply (Spec.En.cardinal v n) DS.new false = _
      rw [hs, execGroupFrom, if_neg Bool.false_ne_true]
    rw [hex] at hx
    cases hx
    have hne := C01En.lsb_ne_nil hn
    have hrender : (C01En.mk (C01En.lsb n)).render = decDigits n := by
      show List.replicate 0 0 ++ (C01En.lsb n).reverse = _
      rw [C01En.lsb_rev_dec n hn]; rfl
    have hrne : (C01En.mk (C01En.lsb n)).render.isEmpty = false := by
      rw [hrender, ← C01En.lsb_rev_dec n hn]
      cases hl : C01En.lsb n with
      | nil => exact absurd hl hne
      | cons a t => simp
    unfold Lang.formatW at hf
    rw [hrne, if_neg Bool.false_ne_true] at hf
    have hf' : (Except.ok (renderChars (C01En.mk (C01En.lsb n)), Value.dec (C01En.mk (C01En.lsb n)).render []) :
        Except Fault (Word × Value)) = .ok (decChars n, val) := hf
    rw [hrender] at hf'
    exact ⟨((Prod.mk.inj (Except.ok.inj hf')).2).symm, rfl⟩

/-- **every spelled English cardinal, alone or inside a sentence of words that are not number words, is
found by the scanner as exactly one occurrence carrying the decimal digits of the number** -/
theorem scan_en_sentence (hl : LangAgree T2N.En.lang) (v : Var) (n : Nat) (h : n < 10 ^ 12)
    (pre post : List Word) (hpre : ∀ w ∈ pre, T2N.En.lang.Rejects w) (hpost : ∀ w ∈ post, T2N.En.lang.Rejects w) :
    findNumbers enCfg (wordTokens (pre ++ Spec.En.cardinal v n ++ post)) =
      .ok [⟨2 * pre.length, 2 * pre.length + (2 * (Spec.En.cardinal v n).length - 1), decChars n,
        .dec (decDigits n) [], false⟩] := by
  have hval := C01En.C01_validate_en v n h
  obtain ⟨ds, val, hx, hf, hfind⟩ := valid_is_one_sentence enCfg hl (fun _ _ => rfl) (fun _ => rfl) rfl
    pre (Spec.En.cardinal v n) post (decChars n)
    (fun w hw => Or.inr (Or.inr (not_accepted_of_rejects _ _ (hpre w hw))))
    (fun w hw => Or.inr (Or.inr (hpost w hw)))
    (en_hws v n) (en_hfirst v n _ hval) hval
  obtain ⟨h1, h2⟩ := en_value v n h ds val hx hf
  rw [hfind, h1, h2]

theorem scan_en_all (hl : LangAgree T2N.En.lang) (v : Var) (n : Nat) (h : n < 10 ^ 12) :
    findNumbers enCfg (wordTokens (Spec.En.cardinal v n)) =
      .ok [⟨0, (wordTokens (Spec.En.cardinal v n)).length, decChars n, .dec (decDigits n) [], false⟩] := by
  have := scan_en_sentence hl v n h [] [] (fun _ h => by cases h) (fun _ h => by cases h)
  rw [List.nil_append, List.append_nil] at this
  rw [this, length_wordTokens]
  simp

end EnScan

end T2N.Lift
