/-
  T2N.Lemmas.Scanner — invariants of the generic scanner (`FindNumbers` / `NumTracker`), for every
  language, every token stream (any hints) and every threshold.
-/
import T2N.Model.Scanner

namespace T2N

/-- occurrences are ordered, non-overlapping, each `start ≤ stop`, and all end at or below `hi` -/
def OccsBelow : List Occ → Nat → Prop
  | [], _ => True
  | o :: os, hi => o.start ≤ o.stop ∧ o.stop ≤ hi ∧ (∀ o' ∈ os, o.stop ≤ o'.start) ∧ OccsBelow os hi

theorem OccsBelow.mono {os : List Occ} {a b : Nat} (h : OccsBelow os a) (hab : a ≤ b) : OccsBelow os b := by
  induction os with
  | nil => trivial
  | cons o os ih =>
    obtain ⟨h1, h2, h3, h4⟩ := h
    exact ⟨h1, by omega, h3, ih h4⟩

theorem OccsBelow.stop_le {os : List Occ} {hi : Nat} (h : OccsBelow os hi) : ∀ o ∈ os, o.stop ≤ hi := by
  induction os with
  | nil => intro o ho; cases ho
  | cons x xs ih =>
    intro o ho
    obtain ⟨_, h2, _, h4⟩ := h
    rcases List.mem_cons.mp ho with rfl | h'
    · exact h2
    · exact ih h4 o h'

theorem OccsBelow.append_one {os : List Occ} {hi hi' : Nat} {o : Occ} (h : OccsBelow os hi)
    (h1 : hi ≤ o.start) (h2 : o.start ≤ o.stop) (h3 : o.stop ≤ hi') : OccsBelow (os ++ [o]) hi' := by
  induction os with
  | nil => exact ⟨h2, h3, by simp, trivial⟩
  | cons x xs ih =>
    obtain ⟨a1, a2, a3, a4⟩ := h
    refine ⟨a1, by omega, ?_, ih a4⟩
    intro o' ho'
    rcases List.mem_append.mp ho' with hm | hm
    · exact a3 o' hm
    · have : o' = o := by simpa using hm
      subst this; omega

theorem OccsBelow.of_append_left {xs ys : List Occ} {hi : Nat} (h : OccsBelow (xs ++ ys) hi) : OccsBelow xs hi := by
  induction xs with
  | nil => trivial
  | cons x xs ih =>
    obtain ⟨a1, a2, a3, a4⟩ := h
    exact ⟨a1, a2, fun o' ho' => a3 o' (List.mem_append_left _ ho'), ih a4⟩

theorem OccsBelow.tail {o : Occ} {os : List Occ} {hi : Nat} (h : OccsBelow (o :: os) hi) : OccsBelow os hi := h.2.2.2

/-- the tracker invariant after the tokens at positions `< pos` have been pushed -/
def TrInv (t : Tracker) (pos : Nat) : Prop :=
  t.mstart ≤ t.mend ∧ t.mend ≤ pos ∧ OccsBelow (t.queue ++ t.onHold.toList) t.mstart

theorem TrInv.init : TrInv {} 0 := by
  simp [TrInv, OccsBelow]

theorem TrInv.mono {t : Tracker} {p q : Nat} (h : TrInv t p) (hpq : p ≤ q) : TrInv t q :=
  ⟨h.1, by have := h.2.1; omega, h.2.2⟩

theorem TrInv.advanced {t : Tracker} {pos : Nat} (h : TrInv t pos) : TrInv (t.advanced pos) (pos + 1) := by
  obtain ⟨h1, h2, h3⟩ := h
  unfold Tracker.advanced
  by_cases he : (t.mstart == t.mend) = true
  · have : t.mstart = t.mend := by simpa using he
    simp only [he, if_true]
    exact ⟨by dsimp only; omega, by dsimp only; omega, by dsimp only; exact h3.mono (by omega)⟩
  · simp only [he, Bool.false_eq_true, if_false]
    exact ⟨by dsimp only; omega, by dsimp only; omega, by dsimp only; exact h3⟩

theorem TrInv.breaker {t : Tracker} {pos : Nat} (h : TrInv t pos) : TrInv t.breaker pos := h

theorem TrInv.numberEnd {t : Tracker} {pos : Nat} (h : TrInv t pos) (isOrd : Bool) (text : Word)
    (value : Value) (forget : Bool) : TrInv (t.numberEnd isOrd text value forget) pos := by
  obtain ⟨h1, h2, h3⟩ := h
  have hq : OccsBelow t.queue t.mstart := h3.of_append_left
  unfold Tracker.numberEnd
  dsimp only
  generalize (if isOrd = true then Kind.ordinal else Kind.cardinal) = kind
  by_cases hc : (t.last == kind) = true
  · -- released together with the held one
    rw [if_pos hc]
    refine ⟨Nat.le_refl _, h2, ?_⟩
    dsimp only
    simp only [Option.toList, List.append_nil]
    cases hh : t.onHold with
    | none =>
      simp only [List.append_nil]
      exact hq.append_one (Nat.le_refl _) h1 (Nat.le_refl _)
    | some p =>
      rw [hh] at h3
      simp only [Option.toList] at h3
      exact h3.append_one (Nat.le_refl _) h1 (Nat.le_refl _)
  · rw [if_neg hc]
    by_cases hf : forget = true
    · -- held (a previous held one is dropped)
      rw [if_pos hf]
      refine ⟨Nat.le_refl _, h2, ?_⟩
      dsimp only
      simp only [Option.toList]
      exact hq.append_one (Nat.le_refl _) h1 (Nat.le_refl _)
    · rw [if_neg hf]
      refine ⟨Nat.le_refl _, h2, ?_⟩
      dsimp only
      simp only [Option.toList, List.append_nil]
      exact hq.append_one (Nat.le_refl _) h1 (Nat.le_refl _)

/-! ### the parser never faults when it holds a number -/

theorem formatW_ok (l : Lang) (b : DS) (h : b.isEmpty = false) : ∃ r, l.formatW b = .ok r := by
  have hr : b.render.isEmpty = false := by
    unfold DS.isEmpty at h
    unfold DS.render
    cases hb : b.rbuf with
    | nil =>
      rw [hb] at h
      have hz : b.lz ≠ 0 := by simpa using h
      cases hl : b.lz with
      | zero => exact absurd hl hz
      | succ k => simp [List.replicate_succ]
    | cons x xs => simp
  unfold Lang.formatW
  rw [hr]
  simp only [Bool.false_eq_true, if_false]
  cases b.marker <;> exact ⟨_, rfl⟩

theorem finish_ok (l : Lang) (p : Parser) (h : p.hasNumber = true) : ∃ r, p.finish l = .ok r := by
  have hi : p.int.isEmpty = false := by simpa [Parser.hasNumber] using h
  unfold Parser.finish
  split
  · unfold Lang.formatDecimalW
    have hr : p.int.render.isEmpty = false := by
      obtain ⟨r, hr⟩ := formatW_ok l p.int hi
      unfold Lang.formatW at hr
      cases hre : p.int.render.isEmpty with
      | false => rfl
      | true => rw [hre] at hr; simp at hr
    rw [hr]; simp
  · exact formatW_ok l p.int hi

/-- the scanner invariant -/
def ScInv (s : Scanner) (pos : Nat) : Prop := TrInv s.tracker pos

theorem numberEnd_ok (cfg : ScanCfg) (s : Scanner) (pos : Nat) (h : ScInv s pos)
    (hn : s.parser.hasNumber = true) : ∃ s', s.numberEnd cfg = .ok s' ∧ ScInv s' pos := by
  obtain ⟨⟨text, value⟩, hr⟩ := finish_ok cfg.lang s.parser hn
  unfold Scanner.numberEnd
  rw [hr]
  exact ⟨_, rfl, TrInv.numberEnd h _ _ _ _⟩

theorem outside_inv (cfg : ScanCfg) (s : Scanner) (tok : Tok) (pos : Nat) (h : ScInv s pos) :
    ScInv (s.outside cfg tok) pos := by
  unfold Scanner.outside
  split
  · exact h
  · exact h

theorem pushNan_ok (cfg : ScanCfg) (s : Scanner) (pos : Nat) (tok : Tok) (h : ScInv s pos) :
    ∃ s', Scanner.pushNan cfg s tok = .ok s' ∧ ScInv s' (pos + 1) := by
  unfold Scanner.pushNan
  by_cases hn : s.parser.hasNumber = true
  · obtain ⟨s1, h1, h2⟩ := numberEnd_ok cfg s pos h hn
    rw [if_pos hn, h1]
    exact ⟨_, rfl, TrInv.mono (outside_inv cfg s1 tok pos h2) (by omega)⟩
  · rw [if_neg hn]
    exact ⟨_, rfl, TrInv.mono (outside_inv cfg s tok pos h) (by omega)⟩

theorem pushRejected_ok (cfg : ScanCfg) (s : Scanner) (pos : Nat) (tok : Tok) (h : ScInv s pos) :
    ∃ s', Scanner.pushRejected cfg s pos tok = .ok s' ∧ ScInv s' (pos + 1) := by
  unfold Scanner.pushRejected
  by_cases hn : s.parser.hasNumber = true
  · obtain ⟨s1, h1, h2⟩ := numberEnd_ok cfg s pos h hn
    rw [if_pos hn, h1]
    dsimp only
    by_cases hr : (s1.parser.push cfg.lang tok.lower).1.isNone = true
    · rw [if_pos hr]; exact ⟨_, rfl, TrInv.advanced h2⟩
    · rw [if_neg hr]
      by_cases hi : ((s1.parser.push cfg.lang tok.lower).1 == some Err.incomplete) = true
      · rw [if_pos hi]; exact ⟨_, rfl, TrInv.mono h2 (by omega)⟩
      · rw [if_neg hi]; exact ⟨_, rfl, TrInv.mono (outside_inv cfg _ tok pos h2) (by omega)⟩
  · rw [if_neg hn]
    exact ⟨_, rfl, TrInv.mono (outside_inv cfg s tok pos h) (by omega)⟩

theorem push_ok (cfg : ScanCfg) (s : Scanner) (pos : Nat) (tok : Tok) (h : ScInv s pos) :
    ∃ s', s.push cfg pos tok = .ok s' ∧ ScInv s' (pos + 1) := by
  unfold Scanner.push
  by_cases hs : Scanner.isSkipped cfg tok = true
  · rw [if_pos hs]; exact ⟨s, rfl, TrInv.mono h (by omega)⟩
  rw [if_neg hs]
  by_cases hnan : tok.nan = true
  · rw [if_pos hnan]; exact pushNan_ok cfg s pos tok h
  rw [if_neg hnan]
  dsimp only
  cases hr : (s.parser.push cfg.lang (Scanner.testWord cfg s tok)).1 with
  | none => exact ⟨_, rfl, TrInv.advanced h⟩
  | some e =>
    cases e with
    | incomplete => exact ⟨_, rfl, TrInv.mono h (by omega)⟩
    | overlap => exact pushRejected_ok cfg _ pos tok h
    | nan => exact pushRejected_ok cfg _ pos tok h
    | frozen => exact pushRejected_ok cfg _ pos tok h

theorem finalize_ok (cfg : ScanCfg) (s : Scanner) (pos : Nat) (h : ScInv s pos) :
    ∃ s', s.finalize cfg = .ok s' ∧ ScInv s' pos := by
  unfold Scanner.finalize
  split
  · rename_i hn; exact numberEnd_ok cfg s pos h hn
  · exact ⟨s, rfl, h⟩

theorem pushAll_ok (cfg : ScanCfg) (toks : List Tok) :
    ∀ (s : Scanner) (pos : Nat), ScInv s pos →
      ∃ s', Scanner.pushAll cfg s (enumFrom pos toks) = .ok s' ∧ ScInv s' (pos + toks.length) := by
  induction toks with
  | nil => intro s pos h; exact ⟨s, rfl, h⟩
  | cons t ts ih =>
    intro s pos h
    obtain ⟨s1, h1, h2⟩ := push_ok cfg s pos t h
    obtain ⟨s2, h3, h4⟩ := ih s1 (pos + 1) h2
    refine ⟨s2, ?_, ?_⟩
    · simp only [enumFrom, Scanner.pushAll, h1, h3]
    · simpa [Nat.add_assoc, Nat.add_comm 1] using h4

/-- `find_numbers` returns for every input, and its occurrences are ordered, disjoint, in bounds -/
theorem findNumbers_ok (cfg : ScanCfg) (toks : List Tok) :
    ∃ occs, findNumbers cfg toks = .ok occs ∧ OccsBelow occs toks.length := by
  obtain ⟨s1, h1, h2⟩ := pushAll_ok cfg toks {} 0 TrInv.init
  obtain ⟨s2, h3, h4⟩ := finalize_ok cfg s1 _ h2
  refine ⟨s2.tracker.queue, ?_, ?_⟩
  · simp only [findNumbers, h1, h3]
  · obtain ⟨a1, a2, a3⟩ := h4
    have := a3.of_append_left
    exact this.mono (by omega)

end T2N
