/-
  T2N.Lemmas.PairsPt.Scan — scanner lemmas for "two numbers one after the other" (threshold 0): the scanner state
  `SQ s b q` (the parser holds the builder `b` in integer mode, the texts `q` have been emitted, nothing is on hold),
  its three kinds of step (kept word, refused word that ends the number, end of input) and the resulting theorem
  `two_numbers`. Language-independent (the language enters through `ExtPt.Accepts`).
-/
import T2N.Lemmas.ExtPt

namespace T2N.PairsPt
open T2N T2N.DS T2N.Spec

/-- integer phase: the parser holds `b`, the occurrences emitted so far have the texts `q`, nothing is on hold -/
def SQ (s : Scanner) (b : DS) (q : List Word) : Prop :=
  s.parser = { int := b } ∧ s.tracker.queue.map (·.text) = q ∧ s.tracker.onHold = none

theorem SQ_init : SQ {} DS.new [] := ⟨rfl, rfl, rfl⟩

/-- a word that the interpreter accepts (or answers `Incomplete` to) is kept in the open match -/
theorem step_keep (l : Lang) (hl : ExtPt.Accepts l) (thr : Nat → Bool) (s : Scanner) (i : Nat) (w : Word)
    (b b1 : DS) (st : Res) (q : List Word) (hst : st = none ∨ st = some .incomplete)
    (ha : l.apply w b = (st, b1)) (hs : SQ s b q) :
    ∃ s', s.push (scanCfg l thr) i (EnExt.wt w) = .ok s' ∧ SQ s' b1 q := by
  obtain ⟨hp, hq, hh⟩ := hs
  have hw := hl w b (by rw [ha]; exact hst)
  have ha' : l.apply w s.parser.int = (st, b1) := by rw [hp]; exact ha
  have hpush : s.parser.push l w = (st, { int := b1 }) := by
    rw [EnExt.parser_push_nosep l s.parser w (by rw [hp]) hw.2, ha', hp]
  rw [EnExt.push_word l thr s i w hw.1, hpush]
  rcases hst with rfl | rfl
  · exact ⟨_, rfl, rfl, hq, hh⟩
  · exact ⟨_, rfl, rfl, hq, hh⟩

/-- **lifting** with a non-empty queue: a successful interpreter run is reproduced by the scanner -/
theorem lift_q (l : Lang) (hl : ExtPt.Accepts l) (thr : Nat → Bool) :
    ∀ (ws : List Word) (b : DS) (inc : Bool) (r : DS), execGroupFrom l.apply ws b inc = .ok r →
    ∀ (s : Scanner) (i : Nat) (q : List Word), SQ s b q →
    ∃ s', EnExt.pushWords (scanCfg l thr) s i ws = .ok s' ∧ SQ s' r q := by
  intro ws
  induction ws with
  | nil =>
    intro b inc r h s i q hs
    rw [execGroupFrom] at h
    cases inc with
    | true => exact absurd h (by simp)
    | false =>
      have : b = r := by simpa using h
      rw [← this]
      exact ⟨s, rfl, hs⟩
  | cons w ws ih =>
    intro b inc r h s i q hs
    rw [execGroupFrom] at h
    rcases hx : l.apply w b with ⟨st, b1⟩
    rw [hx] at h
    rw [EnExt.pushWords]
    cases st with
    | none =>
      obtain ⟨s1, e1, hs1⟩ := step_keep l hl thr s i w b b1 none q (Or.inl rfl) hx hs
      rw [e1]
      exact ih b1 false r h s1 (i + 2) q hs1
    | some e =>
      cases e with
      | incomplete =>
        obtain ⟨s1, e1, hs1⟩ := step_keep l hl thr s i w b b1 (some .incomplete) q (Or.inr rfl) hx hs
        rw [e1]
        exact ih b1 true r h s1 (i + 2) q hs1
      | overlap => exact absurd h (by simp)
      | nan => exact absurd h (by simp)
      | frozen => exact absurd h (by simp)

theorem outside_same (cfg : ScanCfg) (s : Scanner) (tok : Tok) :
    (s.outside cfg tok).parser = s.parser ∧ (s.outside cfg tok).tracker.queue = s.tracker.queue ∧
      (s.outside cfg tok).tracker.onHold = s.tracker.onHold := by
  unfold Scanner.outside
  split
  · exact ⟨rfl, rfl, rfl⟩
  · exact ⟨rfl, rfl, rfl⟩

/-- a word refused (not `Incomplete`) while a number is open: that number is emitted (its text joins the queue) and
the word is offered to the fresh parser -/
theorem step_rej (l : Lang) (s : Scanner) (pos : Nat) (r r' b2 : DS) (q : List Word) (text : Word) (val : Value)
    (w : Word) (err : Err) (st2 : Res) (herr : err ≠ .incomplete)
    (hw : EnExt.skipW w = false ∧ l.isDecSep w = false) (hs : SQ s r q) (hne : r'.isEmpty = false)
    (hf : l.formatW r' = .ok (text, val)) (ha : l.apply w r = (some err, r')) (hb : l.apply w {} = (st2, b2)) :
    ∃ s', s.push (scanCfg l zeroThr) pos (EnExt.wt w) = .ok s' ∧ SQ s' b2 (q ++ [text]) := by
  obtain ⟨hp, hq, hh⟩ := hs
  have hpush : s.parser.push l w = (some err, { int := r' }) := by
    rw [EnExt.parser_push_nosep l s.parser w (by rw [hp]) hw.2, hp]
    have ha' : l.apply w ({ int := r } : Parser).int = (some err, r') := ha
    rw [ha']
  rw [ExtPt.push_word_rejected l zeroThr s pos w err _ hw.1 herr hpush]
  unfold Scanner.pushRejected
  have hn : ({ s with parser := { int := r' } } : Scanner).parser.hasNumber = true := by
    show (!r'.isEmpty) = true; rw [hne]; rfl
  rw [if_pos hn]
  unfold Scanner.numberEnd
  have hfin : ({ s with parser := { int := r' } } : Scanner).parser.finish (scanCfg l zeroThr).lang =
      .ok (text, val) := hf
  rw [hfin]
  dsimp only
  rw [EnExt.small_zeroThr, Bool.and_false]
  have hpush2 : Parser.push (scanCfg l zeroThr).lang {} (EnExt.wt w).lower = (st2, { int := b2 }) := by
    show ({} : Parser).push l w = _
    rw [EnExt.parser_push_nosep l {} w rfl hw.2]
    have hb' : l.apply w ({} : Parser).int = (st2, b2) := hb
    rw [hb']
  rw [hpush2]
  obtain ⟨t1, t2⟩ := EnExt.tracker_numberEnd s.tracker r'.isOrdinal text val hh
  have hq2 : List.map (·.text) (s.tracker.numberEnd r'.isOrdinal text val false).queue = q ++ [text] := by
    rw [t2, List.map_append, hq]; rfl
  cases st2 with
  | none => exact ⟨_, rfl, rfl, hq2, t1⟩
  | some e2 =>
    -- `Incomplete` on the fresh parser leaves the scanner as it is; any other error goes through `outside`
    cases e2 with
    | incomplete => exact ⟨_, rfl, rfl, hq2, t1⟩
    | overlap | nan | frozen =>
      refine ⟨_, rfl, ?_⟩
      dsimp only
      obtain ⟨o1, o2, o3⟩ := outside_same (scanCfg l zeroThr)
        ({ parser := { int := b2 }, tracker := s.tracker.numberEnd r'.isOrdinal text val false,
           previous := s.previous } : Scanner) (EnExt.wt w)
      refine ⟨?_, ?_, ?_⟩
      · exact o1
      · exact (congrArg (List.map (·.text)) o2).trans hq2
      · exact o3.trans t1

/-- end of input with a pending integer-mode number (threshold 0): its text joins the queue -/
theorem finalize_q (l : Lang) (s : Scanner) (r : DS) (q : List Word) (text : Word) (val : Value) (hs : SQ s r q)
    (hne : r.isEmpty = false) (hf : l.formatW r = .ok (text, val)) :
    ∃ sf, s.finalize (scanCfg l zeroThr) = .ok sf ∧ sf.tracker.queue.map (·.text) = q ++ [text] := by
  obtain ⟨hp, hq, hh⟩ := hs
  unfold Scanner.finalize
  have hn : s.parser.hasNumber = true := by
    rw [hp]; show (!r.isEmpty) = true; rw [hne]; rfl
  rw [hn, if_pos rfl]
  unfold Scanner.numberEnd
  have hfin : s.parser.finish (scanCfg l zeroThr).lang = .ok (text, val) := by
    rw [hp]; exact hf
  rw [hfin]
  dsimp only
  rw [EnExt.small_zeroThr, Bool.and_false]
  obtain ⟨_, t2⟩ := EnExt.tracker_numberEnd s.tracker s.parser.isOrdinal text val hh
  refine ⟨_, rfl, ?_⟩
  show List.map (·.text) (s.tracker.numberEnd s.parser.isOrdinal text val false).queue = _
  rw [t2, List.map_append, hq]
  rfl

/-- **two numbers**: the words `P` bring the parser to `r`; the next word `w` is refused there (not `Incomplete`),
leaving `r'` whose text is `t1`; offered to the fresh parser, `w` leaves `b2`, from where the words `R` run to `r2`,
whose text is `t2`. Then the scanner (threshold 0) reports exactly `t1`, `t2`. -/
theorem two_numbers (l : Lang) (hl : ExtPt.Accepts l) (P R : List Word) (w : Word) (r r' b2 r2 : DS)
    (err : Err) (st2 : Res) (t1 t2 : Word) (v1 v2 : Value)
    (hP : ∃ s1, EnExt.pushWords (scanCfg l zeroThr) {} 0 P = .ok s1 ∧ SQ s1 r [])
    (herr : err ≠ .incomplete) (hw : EnExt.skipW w = false ∧ l.isDecSep w = false)
    (ha : l.apply w r = (some err, r')) (hne : r'.isEmpty = false) (hf : l.formatW r' = .ok (t1, v1))
    (hb : l.apply w {} = (st2, b2))
    (hR : execGroupFrom l.apply R b2 false = .ok r2) (hne2 : r2.isEmpty = false)
    (hf2 : l.formatW r2 = .ok (t2, v2)) :
    occTexts l zeroThr (P ++ w :: R) = some [t1, t2] := by
  obtain ⟨s1, e1, hs1⟩ := hP
  obtain ⟨s2, e2, hs2⟩ := step_rej l s1 (0 + 2 * P.length) r r' b2 [] t1 v1 w err st2 herr hw hs1 hne hf ha hb
  obtain ⟨s3, e3, hs3⟩ := lift_q l hl zeroThr R b2 false r2 hR s2 (0 + 2 * P.length + 2) _ hs2
  obtain ⟨sf, e4, hq⟩ := finalize_q l s3 r2 _ t2 v2 hs3 hne2 hf2
  unfold occTexts
  rw [EnExt.findNumbers_words, EnExt.pushWords_append, e1]
  dsimp only
  rw [EnExt.pushWords, e2]
  dsimp only
  rw [e3]
  dsimp only
  rw [e4]
  dsimp only
  rw [hq]
  rfl

end T2N.PairsPt
