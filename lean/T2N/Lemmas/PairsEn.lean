/-
  T2N.Lemmas.PairsEn — property C08, first half (the pair rule), English, as a theorem over the whole
  grid `a, b < 100`, both joiners (space / `and`).

  The standard spelling of a number below 100 is ONE word (`seven`, `seventeen`, `seventy`, `seventy-one`), so a
  pair is a phrase of two or three words.  The proof follows the scanner word by word:
  * after the word of `a ≥ 1` the parser holds `mk (lsb a)`;
  * `and` is answered `Incomplete` when `a ≥ 10` (the builder is left alone) and refused (`NaN`) when `a < 10`
    (then the number `a` ends, `and` is a linking word outside any number, `b` is scanned afresh);
  * the word of `b` in state `a` is accepted only when `a ∈ {20, 30, …, 90}` and `1 ≤ b ≤ 9` (`put` of one digit on
    a free units position — the fusion `a + b`); in every other case it is refused with the builder unchanged
    (`Overlap`, or `NaN` for `ten` + unit), the number `a` ends and the word starts the number `b`;
  * `zero` + `b` (no conjunction) is the leading-zero reading `0b` (C16 / dictation).
-/
import T2N.Lemmas.EnExt
import T2N.Lemmas.SpecCheck
import T2N.Lemmas.Finite

namespace T2N.PairsEn
open T2N T2N.Spec T2N.C01En T2N.EnExt

/-- standard spelling (every variant switch off) -/
def std (n : Nat) : List Word := Spec.En.cardinal (tableVar 0) n

/-- the joiner: nothing, or the conjunction `and` -/
def joiner (cj : Bool) : List Word := if cj then [Spec.En.conj] else []

/-- **the fusions of English**: a multiple of ten `20 … 90` followed (with or without `and`) by a unit `1 … 9`
is the single number `a + b` (`twenty one`, `twenty and one` ↦ 21); nothing else fuses. -/
def fused (a b : Nat) (_cj : Bool) : Option Nat :=
  if 20 ≤ a ∧ a % 10 = 0 ∧ 1 ≤ b ∧ b ≤ 9 then some (a + b) else none

/-- what the scanner must answer on `std a ++ joiner ++ std b`: the fused number; or — `zero` directly followed
by a number (no conjunction) — the leading-zero reading `0b` (also `zero zero` ↦ `00`); or both numbers in order. -/
def expected (a b : Nat) (cj : Bool) : List Word :=
  match fused a b cj with
  | some c => [decChars c]
  | none => if a = 0 ∧ cj = false then ['0' :: decChars b] else [decChars a, decChars b]

/-! ## scanner steps with an arbitrary queue -/

/-- integer phase: the parser holds `r`, the texts emitted so far are `q`, nothing is on hold -/
def SQ (s : Scanner) (r : DS) (q : List Word) : Prop :=
  s.parser = { int := r } ∧ s.tracker.queue.map (·.text) = q ∧ s.tracker.onHold = none

theorem SQ_init : SQ {} {} [] := ⟨rfl, rfl, rfl⟩

theorem outside_parser (cfg : ScanCfg) (s : Scanner) (tok : Tok) : (s.outside cfg tok).parser = s.parser := by
  unfold Scanner.outside; split <;> rfl

theorem outside_queue (cfg : ScanCfg) (s : Scanner) (tok : Tok) :
    (s.outside cfg tok).tracker.queue = s.tracker.queue := by
  unfold Scanner.outside; split <;> rfl

theorem outside_onHold (cfg : ScanCfg) (s : Scanner) (tok : Tok) :
    (s.outside cfg tok).tracker.onHold = s.tracker.onHold := by
  unfold Scanner.outside; split <;> rfl

/-- an accepted word -/
theorem step_acc (s : Scanner) (pos : Nat) (r r' : DS) (q : List Word) (w : Word) (hs : SQ s r q)
    (ha : En.apply w r = (none, r')) :
    ∃ s', s.push (scanCfg En.lang zeroThr) pos (wt w) = .ok s' ∧ SQ s' r' q := by
  obtain ⟨hp, hq, hh⟩ := hs
  have hw := accepted_word w r (by rw [ha]; exact Or.inl rfl)
  have ha' : En.lang.apply w s.parser.int = (none, r') := by rw [hp]; exact ha
  have hpush : s.parser.push En.lang w = (none, { int := r' }) := by
    rw [parser_push_nosep En.lang s.parser w (by rw [hp]) hw.2, ha', hp]
  rw [push_word En.lang zeroThr s pos w hw.1, hpush]
  exact ⟨_, rfl, rfl, hq, hh⟩

/-- a word answered `Incomplete` (`and` inside a number) -/
theorem step_inc (s : Scanner) (pos : Nat) (r r' : DS) (q : List Word) (w : Word) (hs : SQ s r q)
    (ha : En.apply w r = (some .incomplete, r')) :
    ∃ s', s.push (scanCfg En.lang zeroThr) pos (wt w) = .ok s' ∧ SQ s' r' q := by
  obtain ⟨hp, hq, hh⟩ := hs
  have hw := accepted_word w r (by rw [ha]; exact Or.inr rfl)
  have ha' : En.lang.apply w s.parser.int = (some .incomplete, r') := by rw [hp]; exact ha
  have hpush : s.parser.push En.lang w = (some .incomplete, { int := r' }) := by
    rw [parser_push_nosep En.lang s.parser w (by rw [hp]) hw.2, ha', hp]
  rw [push_word En.lang zeroThr s pos w hw.1, hpush]
  exact ⟨_, rfl, rfl, hq, hh⟩

/-- the `Err(_)` arm: the open number `r` is emitted, the refused word is tried on a fresh parser -/
theorem rejected (s : Scanner) (pos : Nat) (r r2 : DS) (res2 : Res) (q : List Word) (text : Word) (val : Value)
    (w : Word) (hw : En.lang.isDecSep w = false) (hq : s.tracker.queue.map (·.text) = q)
    (hh : s.tracker.onHold = none) (hne : r.isEmpty = false)
    (hf : En.lang.formatW r = .ok (text, val))
    (hb : En.apply w {} = (res2, r2)) :
    ∃ s', Scanner.pushRejected (scanCfg En.lang zeroThr) { s with parser := { int := r } } pos (wt w) = .ok s' ∧
      SQ s' r2 (q ++ [text]) := by
  unfold Scanner.pushRejected
  have hn : ({ s with parser := { int := r } } : Scanner).parser.hasNumber = true := by
    show (!r.isEmpty) = true; rw [hne]; rfl
  rw [if_pos hn]
  unfold Scanner.numberEnd
  have hfin : ({ s with parser := { int := r } } : Scanner).parser.finish (scanCfg En.lang zeroThr).lang =
      .ok (text, val) := hf
  rw [hfin]
  dsimp only
  rw [small_zeroThr, Bool.and_false]
  have hpush2 : Parser.push (scanCfg En.lang zeroThr).lang {} (wt w).lower = (res2, { int := r2 }) := by
    show ({} : Parser).push En.lang w = _
    rw [parser_push_nosep En.lang {} w rfl hw]
    have hb' : En.lang.apply w ({} : Parser).int = (res2, r2) := hb
    rw [hb']
  rw [hpush2]
  obtain ⟨t1, t2⟩ := tracker_numberEnd s.tracker r.isOrdinal text val hh
  have t3 : List.map (·.text) (s.tracker.numberEnd r.isOrdinal text val false).queue = q ++ [text] := by
    rw [t2, List.map_append, hq]; rfl
  cases res2 with
  | none => exact ⟨_, rfl, rfl, t3, t1⟩
  | some e2 =>
    -- `Incomplete` on the fresh parser leaves the scanner as it is; any other error goes through `outside`,
    -- which touches neither the parser nor the queue nor the hold
    cases e2 with
    | incomplete => exact ⟨_, rfl, rfl, t3, t1⟩
    | overlap | nan | frozen =>
      refine ⟨_, rfl, ?_, ?_, ?_⟩
      · show (Scanner.outside (scanCfg En.lang zeroThr) _ (wt w)).parser = _
        rw [outside_parser]
      · show List.map (·.text) (Scanner.outside (scanCfg En.lang zeroThr) _ (wt w)).tracker.queue = _
        rw [outside_queue]; exact t3
      · show (Scanner.outside (scanCfg En.lang zeroThr) _ (wt w)).tracker.onHold = _
        rw [outside_onHold]; exact t1

/-- a refused word (any error but `Incomplete`, builder unchanged) while the number `r` is open -/
theorem step_rej (s : Scanner) (pos : Nat) (r r2 : DS) (res2 : Res) (e : Err) (q : List Word) (text : Word)
    (val : Value) (w : Word) (hw : skipW w = false ∧ En.lang.isDecSep w = false) (hs : SQ s r q)
    (hne : r.isEmpty = false) (hf : En.lang.formatW r = .ok (text, val)) (he : e ≠ .incomplete)
    (ha : En.apply w r = (some e, r)) (hb : En.apply w {} = (res2, r2)) :
    ∃ s', s.push (scanCfg En.lang zeroThr) pos (wt w) = .ok s' ∧ SQ s' r2 (q ++ [text]) := by
  obtain ⟨hp, hq, hh⟩ := hs
  have ha' : En.lang.apply w s.parser.int = (some e, r) := by rw [hp]; exact ha
  have hpush : s.parser.push En.lang w = (some e, { int := r }) := by
    rw [parser_push_nosep En.lang s.parser w (by rw [hp]) hw.2, ha', hp]
  rw [push_word En.lang zeroThr s pos w hw.1, hpush]
  cases e with
  | incomplete => exact absurd rfl he
  | overlap => exact rejected s pos r r2 res2 q text val w hw.2 hq hh hne hf hb
  | nan => exact rejected s pos r r2 res2 q text val w hw.2 hq hh hne hf hb
  | frozen => exact rejected s pos r r2 res2 q text val w hw.2 hq hh hne hf hb

/-- end of input with the number `r` open -/
theorem fin (s : Scanner) (r : DS) (q : List Word) (text : Word) (val : Value) (hs : SQ s r q)
    (hne : r.isEmpty = false) (hf : En.lang.formatW r = .ok (text, val)) :
    ∃ sf, s.finalize (scanCfg En.lang zeroThr) = .ok sf ∧ sf.tracker.queue.map (·.text) = q ++ [text] := by
  obtain ⟨hp, hq, hh⟩ := hs
  unfold Scanner.finalize
  have hn : s.parser.hasNumber = true := by
    rw [hp]; show (!r.isEmpty) = true; rw [hne]; rfl
  rw [hn, if_pos rfl]
  unfold Scanner.numberEnd
  have hfin : s.parser.finish (scanCfg En.lang zeroThr).lang = .ok (text, val) := by
    rw [hp]; exact hf
  rw [hfin]
  dsimp only
  rw [small_zeroThr, Bool.and_false]
  obtain ⟨_, t2⟩ := tracker_numberEnd s.tracker s.parser.isOrdinal text val hh
  refine ⟨_, rfl, ?_⟩
  show List.map (·.text) (s.tracker.numberEnd s.parser.isOrdinal text val false).queue = _
  rw [t2, List.map_append, hq]
  rfl

/-! ## the builder: which second words are refused -/

theorem lsb_small (a : Nat) (h1 : 1 ≤ a) (h9 : a < 10) : lsb a = [a] := lsb_digit a h9 (by omega)

theorem lsb_two (a : Nat) (h1 : 10 ≤ a) (h9 : a < 100) : lsb a = [a % 10, a / 10] := by
  have e : a = a % 10 + 10 * (a / 10) := by omega
  conv => lhs; rw [e]
  rw [lsb_cons (a % 10) (a / 10) (by omega) (Or.inr (by omega)), lsb_digit (a / 10) (by omega) (by omega)]

/-- one digit on an occupied units position -/
theorem put1_occupied (x d : Nat) (r : List Nat) (hx : x ≠ 0) (hd : d ≠ 0) :
    (mk (x :: r)).put [d] = (some .overlap, mk (x :: r)) := by
  simp [DS.put, mk, allZero, hx, hd]

/-- two digits on a one-digit number -/
theorem put2_short (x p q : Nat) (hp : p ≠ 0) : (mk [x]).put [p, q] = (some .overlap, mk [x]) := by
  simp [DS.put, mk, allZero, hp]

/-- two digits on a two-digit number -/
theorem put2_occupied (x y p q : Nat) (hy : y ≠ 0) (hp : p ≠ 0) :
    (mk [x, y]).put [p, q] = (some .overlap, mk [x, y]) := by
  simp [DS.put, mk, allZero, hp, hy]

/-- two digits `p q` (`p ≠ 0`) never fit on a number `1 … 99` -/
theorem put2_refused (a p q : Nat) (h1 : 1 ≤ a) (h2 : a < 100) (hp : p ≠ 0) :
    (mk (lsb a)).put [p, q] = (some .overlap, mk (lsb a)) := by
  by_cases h : a < 10
  · rw [lsb_small a h1 h]; exact put2_short a p q hp
  · rw [lsb_two a (by omega) h2]; exact put2_occupied _ _ p q (by omega) hp

/-- the word of a unit after a number that is not a free multiple of ten `20 … 90` -/
theorem unit_refused (a d : Nat) (h1 : 1 ≤ a) (h2 : a < 100) (d0 : d ≠ 0)
    (hnf : ¬ (20 ≤ a ∧ a % 10 = 0)) :
    ∃ e, e ≠ Err.incomplete ∧ ((T2N.En.unit d).exec (mk (lsb a))).1 = some e ∧
      ((T2N.En.unit d).exec (mk (lsb a))).2.1 = mk (lsb a) := by
  simp only [T2N.En.unit, Act.when, Act.exec]
  by_cases hg : (Guard.neg (.peekEq 2 [1, 0])).eval (mk (lsb a)) = true
  · rw [if_pos hg]
    have hx : a % 10 ≠ 0 := by
      intro h0
      by_cases h10 : a = 10
      · subst h10
        rw [lsb_two 10 (by decide) (by decide)] at hg
        exact absurd hg (by decide)
      · omega
    have e : lsb a = a % 10 :: lsb (a / 10) := lsb_pos (by omega)
    rw [e, put1_occupied _ d _ hx d0]
    exact ⟨.overlap, by decide, rfl, rfl⟩
  · rw [if_neg hg]
    exact ⟨.nan, by decide, rfl, rfl⟩

/-! ## the word of a number below 100 -/

/-- builder state after the standard word of `b` on the empty builder -/
def B (b : Nat) : DS := if b = 0 then { lz := 1 } else mk (lsb b)

/-- the pair `(a, b)` is not one of the fusions -/
def NotFused (a b : Nat) : Prop := ¬ (20 ≤ a ∧ a % 10 = 0 ∧ 1 ≤ b ∧ b ≤ 9)

/-- `w` is the standard spelling of `b`: one word; it takes the empty builder to `B b`; after a number `a` with
which it does not fuse it is refused and leaves the builder alone -/
structure WordOf (b : Nat) (w : Word) : Prop where
  spell : std b = [w]
  first : En.apply w {} = (none, B b)
  refused : ∀ a, 1 ≤ a → a < 100 → NotFused a b →
    ∃ e, e ≠ Err.incomplete ∧ En.apply w (mk (lsb a)) = (some e, mk (lsb a))

set_option maxRecDepth 100000 in
theorem std_table : checkRange (fun n => std n == (if n = 0 then [w!"zero"] else Spec.En.below100 (tableVar 0) 0 n))
    0 100 = true := by decide +kernel

theorem std_eq (n : Nat) (h0 : n ≠ 0) (h : n < 100) : std n = Spec.En.below100 (tableVar 0) 0 n := by
  have := checkRange_spec _ 100 0 std_table n (Nat.zero_le _) (by omega)
  rw [if_neg h0] at this
  simpa using this

theorem flag0 (i : Nat) : flag (tableVar 0) i = false := rfl

theorem apply_plain (w : Word) (a : Act) (s : DS) (h : Plain w a) :
    En.apply w s = ((a.exec s).1, (a.exec s).2.1) := applyFuel_plain 1 w a s h

theorem wordOf_zero : WordOf 0 w!"zero" where
  spell := rfl
  first := rfl
  refused := by
    intro a h1 _ _
    refine ⟨.overlap, by decide, ?_⟩
    cases hl : lsb a with
    | nil => exact absurd hl (lsb_ne_nil (by omega))
    | cons x t => rfl

theorem B_pos (b : Nat) (h : b ≠ 0) : B b = mk (lsb b) := if_neg h

theorem wordOf_unit (b : Nat) (h0 : b ≠ 0) (h9 : b < 10) : WordOf b (En.unitWord b) where
  spell := by
    rw [std_eq b h0 (by omega)]; unfold En.below100; rw [if_pos (by omega)]
  first := by
    have := unit_apply 1 b 0 h0 h9 (by decide) (by decide)
    rw [Nat.zero_add, lsb_zero] at this
    rw [B_pos b h0]; exact this
  refused := by
    intro a h1 h2 hnf
    obtain ⟨e, he, e1, e2⟩ := unit_refused a b h1 h2 h0 (fun h => hnf ⟨h.1, h.2, by omega, by omega⟩)
    refine ⟨e, he, ?_⟩
    rw [apply_plain _ _ _ (plain_unit b h0 h9), e1, e2]

theorem wordOf_teen (b : Nat) (h0 : 10 ≤ b) (h9 : b < 20) : WordOf b (En.unitWord b) where
  spell := by
    rw [std_eq b (by omega) (by omega)]; unfold En.below100; rw [if_pos (by omega)]
  first := by
    obtain ⟨c, rfl⟩ : ∃ c, b = 10 + c := ⟨b - 10, by omega⟩
    have := teen_apply 1 c 0 (by omega) (by decide)
    rw [Nat.zero_add, lsb_zero] at this
    rw [B_pos _ (by omega)]; exact this
  refused := by
    intro a h1 h2 _
    obtain ⟨c, rfl⟩ : ∃ c, b = 10 + c := ⟨b - 10, by omega⟩
    refine ⟨.overlap, by decide, ?_⟩
    rw [apply_plain _ _ _ (plain_teen c (by omega))]
    simp only [Act.exec]
    rw [put2_refused a 1 c h1 h2 (by decide)]

theorem wordOf_tens (t : Nat) (h2 : 2 ≤ t) (h9 : t < 10) : WordOf (10 * t) (En.tensWord (tableVar 0) 0 t) where
  spell := by
    rw [std_eq (10 * t) (by omega) (by omega)]; unfold En.below100
    rw [if_neg (by omega)]
    have e1 : 10 * t / 10 = t := by omega
    have e2 : 10 * t % 10 = 0 := by omega
    simp only [e1, e2]
    rfl
  first := by
    have := tens_apply 1 (tableVar 0) 0 t 0 h2 h9 (by decide)
    rw [Nat.zero_add, lsb_zero] at this
    rw [B_pos _ (by omega)]; exact this
  refused := by
    intro a h1 h2' _
    refine ⟨.overlap, by decide, ?_⟩
    rw [apply_plain _ _ _ (plain_tens (tableVar 0) 0 t h2 h9)]
    simp only [Act.exec]
    rw [put2_refused a t 0 h1 h2' (by omega)]

theorem wordOf_compound (t u : Nat) (h2 : 2 ≤ t) (h9 : t < 10) (u0 : u ≠ 0) (u9 : u < 10) :
    WordOf (10 * t + u) (En.tensWord (tableVar 0) 0 t ++ ['-'] ++ En.unitWord u) where
  spell := by
    rw [std_eq (10 * t + u) (by omega) (by omega)]; unfold En.below100
    rw [if_neg (by omega)]
    have e1 : (10 * t + u) / 10 = t := by omega
    have e2 : (10 * t + u) % 10 = u := by omega
    have e3 : (u == 0) = false := by simpa using u0
    simp only [e1, e2, e3, flag0]
    rfl
  first := by
    have := compound_apply (tableVar 0) 0 t u 0 h2 h9 u0 u9 (by decide)
    rw [Nat.zero_add, lsb_zero] at this
    rw [B_pos _ (by omega)]; exact this
  refused := by
    intro a h1 h2' _
    refine ⟨.overlap, by decide, ?_⟩
    have hT := (plain_tens (tableVar 0) 0 t h2 h9).1
    have hU := (plain_unit u u0 u9).1
    have hsub : execGroup (En.applyFuel 1) [En.tensWord (tableVar 0) 0 t, En.unitWord u] = .ok (mk [u, t]) := by
      rw [execGroup, execGroupFrom, ← mk_nil, ← lsb_zero, tens_apply 0 (tableVar 0) 0 t 0 h2 h9 (by decide)]
      dsimp only
      rw [execGroupFrom, unit_apply 0 u _ u0 u9 (by omega) (by omega)]
      dsimp only
      rw [execGroupFrom, if_neg (by decide)]
      have e : 0 + 10 * t + u = u + 10 * (t + 10 * 0) := by omega
      rw [e, lsb_cons u _ u9 (Or.inl u0), lsb_cons t 0 h9 (Or.inl (by omega)), lsb_zero]
    rw [En.apply, En.applyFuel, if_pos (contains_hyphen _ _), splitOnChar_hyphen _ _ hT hU, hsub]
    dsimp only
    have hlen : (mk [u, t]).len = 2 := rfl
    rw [mergeGroup, hlen, if_neg (by simp)]
    have hp : (mk [u, t]).rbuf.reverse = [t, u] := rfl
    rw [hp, put2_refused a t u h1 h2' (by omega)]

/-- every number below 100 has its word -/
theorem wordOf_exists (b : Nat) (hb : b < 100) : ∃ w, WordOf b w := by
  by_cases h0 : b = 0
  · subst h0; exact ⟨_, wordOf_zero⟩
  by_cases h10 : b < 10
  · exact ⟨_, wordOf_unit b h0 h10⟩
  by_cases h20 : b < 20
  · exact ⟨_, wordOf_teen b (by omega) h20⟩
  by_cases hu : b % 10 = 0
  · obtain ⟨t, rfl⟩ : ∃ t, b = 10 * t := ⟨b / 10, by omega⟩
    exact ⟨_, wordOf_tens t (by omega) (by omega)⟩
  · obtain ⟨t, u, rfl, hu9, hu0⟩ : ∃ t u, b = 10 * t + u ∧ u < 10 ∧ u ≠ 0 := ⟨b / 10, b % 10, by omega, by omega, hu⟩
    exact ⟨_, wordOf_compound t u (by omega) (by omega) hu0 hu9⟩

/-! ## rendering, the conjunction, `expected` -/

theorem decChars_zero : decChars 0 = ['0'] := by
  unfold decChars; rw [decDigits, if_pos (by decide)]; decide

theorem B_fmt (b : Nat) : (B b).isEmpty = false ∧ ∃ val, En.lang.formatW (B b) = .ok (decChars b, val) := by
  by_cases h0 : b = 0
  · subst h0; rw [decChars_zero]; exact ⟨rfl, _, rfl⟩
  · rw [B_pos b h0]
    have := format_lz 0 b h0
    exact ⟨this.1, _, this.2⟩

theorem and_small (a : Nat) (h1 : 1 ≤ a) (h9 : a < 10) :
    En.apply w!"and" (mk (lsb a)) = (some .nan, mk (lsb a)) := by
  rw [lsb_small a h1 h9, apply_plain _ _ _ plain_and]
  rfl

theorem and_zero : En.apply w!"and" { lz := 1 } = (some .nan, { lz := 1 }) := rfl
theorem and_empty : En.apply w!"and" {} = (some .nan, {}) := rfl
theorem and_word : skipW w!"and" = false ∧ En.lang.isDecSep w!"and" = false := ⟨by decide, by decide⟩

theorem expected_fused (a b : Nat) (cj : Bool) (h : 20 ≤ a ∧ a % 10 = 0 ∧ 1 ≤ b ∧ b ≤ 9) :
    expected a b cj = [decChars (a + b)] := by
  unfold expected fused; rw [if_pos h]

theorem expected_sep (a b : Nat) (cj : Bool) (h : NotFused a b) (h0 : a ≠ 0 ∨ cj = true) :
    expected a b cj = [decChars a, decChars b] := by
  unfold expected fused; rw [if_neg h]
  dsimp only
  rw [if_neg]
  intro hx
  rcases h0 with h0 | h0
  · exact h0 hx.1
  · rw [h0] at hx; exact absurd hx.2 (by decide)

theorem expected_zero (b : Nat) : expected 0 b false = ['0' :: decChars b] := by
  unfold expected fused; rw [if_neg (by omega)]
  dsimp only
  rw [if_pos ⟨rfl, rfl⟩]

/-! ## the main theorem -/

theorem pushWords_cons (cfg : ScanCfg) (s s' : Scanner) (i : Nat) (w : Word) (ws : List Word)
    (h : s.push cfg i (wt w) = .ok s') : pushWords cfg s i (w :: ws) = pushWords cfg s' (i + 2) ws := by
  rw [pushWords, h]

theorem occ_of (ws : List Word) (s sf : Scanner) (q : List Word)
    (h1 : pushWords (scanCfg En.lang zeroThr) {} 0 ws = .ok s)
    (h2 : s.finalize (scanCfg En.lang zeroThr) = .ok sf) (h3 : sf.tracker.queue.map (·.text) = q) :
    occTexts En.lang zeroThr ws = some q := by
  unfold occTexts
  rw [findNumbers_words, h1]
  dsimp only
  rw [h2]
  dsimp only
  rw [h3]

/-- the word of `b` arriving while the number `a ≥ 1` is open, then the end of the input -/
theorem tail (a b : Nat) (ha0 : a ≠ 0) (ha : a < 100) (hb : b < 100) (cj : Bool) (wb : Word) (hwb : WordOf b wb)
    (s : Scanner) (i : Nat) (hs : SQ s (mk (lsb a)) []) :
    ∃ s' sf, s.push (scanCfg En.lang zeroThr) i (wt wb) = .ok s' ∧
      s'.finalize (scanCfg En.lang zeroThr) = .ok sf ∧ sf.tracker.queue.map (·.text) = expected a b cj := by
  by_cases hfu : 20 ≤ a ∧ a % 10 = 0 ∧ 1 ≤ b ∧ b ≤ 9
  · have hw : wb = En.unitWord b := by
      have h1 := (wordOf_unit b (by omega) (by omega)).spell
      rw [hwb.spell] at h1
      exact List.head_eq_of_cons_eq h1
    have hacc : En.apply wb (mk (lsb a)) = (none, mk (lsb (a + b))) := by
      rw [hw]; exact unit_apply 1 b a (by omega) (by omega) hfu.2.1 (by omega)
    obtain ⟨s1, e1, h1⟩ := step_acc s i _ _ [] wb hs hacc
    obtain ⟨hne, val, hf⟩ := B_fmt (a + b)
    rw [B_pos (a + b) (by omega)] at hne hf
    obtain ⟨sf, e2, h2⟩ := fin s1 _ [] _ val h1 hne hf
    exact ⟨s1, sf, e1, e2, by rw [h2, expected_fused a b cj hfu]; rfl⟩
  · obtain ⟨e, he, hrej⟩ := hwb.refused a (by omega) ha hfu
    obtain ⟨hnea, vala, hfa⟩ := B_fmt a
    rw [B_pos a ha0] at hnea hfa
    have hw := accepted_word wb {} (by rw [hwb.first]; exact Or.inl rfl)
    obtain ⟨s1, e1, h1⟩ := step_rej s i _ (B b) none e [] _ vala wb hw hs hnea hfa he hrej hwb.first
    obtain ⟨hne, val, hf⟩ := B_fmt b
    obtain ⟨sf, e2, h2⟩ := fin s1 _ _ _ val h1 hne hf
    exact ⟨s1, sf, e1, e2, by rw [h2, expected_sep a b cj hfu (Or.inl ha0)]; rfl⟩

/-- a word arriving on a fresh parser after the texts `q` were emitted, then the end of the input -/
theorem fresh (b : Nat) (wb : Word) (hwb : WordOf b wb) (q : List Word) (s : Scanner) (i : Nat) (hs : SQ s {} q) :
    ∃ s' sf, s.push (scanCfg En.lang zeroThr) i (wt wb) = .ok s' ∧
      s'.finalize (scanCfg En.lang zeroThr) = .ok sf ∧ sf.tracker.queue.map (·.text) = q ++ [decChars b] := by
  obtain ⟨s1, e1, h1⟩ := step_acc s i _ _ q wb hs hwb.first
  obtain ⟨hne, val, hf⟩ := B_fmt b
  obtain ⟨sf, e2, h2⟩ := fin s1 _ _ _ val h1 hne hf
  exact ⟨s1, sf, e1, e2, h2⟩

set_option maxRecDepth 100000 in
theorem zero_zero : occTexts En.lang zeroThr [w!"zero", w!"zero"] = some [['0', '0']] := by decide +kernel

/-- **C08, pair rule, English**: two standard spellings of numbers below 100, one after the other, optionally
joined by `and`: the scanner (threshold 0) finds `expected a b cj`. -/
theorem C08_pairs_en (a b : Nat) (ha : a < 100) (hb : b < 100) (cj : Bool) :
    occTexts En.lang zeroThr (std a ++ joiner cj ++ std b) = some (expected a b cj) := by
  obtain ⟨wb, hwb⟩ := wordOf_exists b hb
  by_cases ha0 : a = 0
  · subst ha0
    cases cj with
    | false =>
      rw [expected_zero]
      by_cases hb0 : b = 0
      · subst hb0; rw [decChars_zero]; exact zero_zero
      · exact C16_scan_en (tableVar 0) 1 b (by omega) (Nat.lt_trans hb (by decide))
    | true =>
      rw [hwb.spell]
      show occTexts En.lang zeroThr [w!"zero", w!"and", wb] = _
      obtain ⟨s1, e1, h1⟩ := step_acc {} 0 {} { lz := 1 } [] w!"zero" SQ_init rfl
      obtain ⟨s2, e2, h2⟩ := step_rej s1 (0 + 2) { lz := 1 } {} (some .nan) .nan [] ['0'] (.dec [0] []) w!"and"
        and_word h1 rfl rfl (by decide) and_zero and_empty
      obtain ⟨s3, sf, e3, e4, h4⟩ := fresh b wb hwb _ s2 (0 + 2 + 2) h2
      refine occ_of _ s3 sf _ ?_ e4 ?_
      · rw [pushWords_cons _ _ _ _ _ _ e1, pushWords_cons _ _ _ _ _ _ e2, pushWords_cons _ _ _ _ _ _ e3]; rfl
      · rw [h4, expected_sep 0 b true (by unfold NotFused; omega) (Or.inr rfl), decChars_zero]; rfl
  · obtain ⟨wa, hwa⟩ := wordOf_exists a ha
    have hfa := hwa.first
    rw [B_pos a ha0] at hfa
    obtain ⟨s1, e1, h1⟩ := step_acc {} 0 {} _ [] wa SQ_init hfa
    rw [hwa.spell, hwb.spell]
    cases cj with
    | false =>
      show occTexts En.lang zeroThr [wa, wb] = _
      obtain ⟨s2, sf, e2, e3, h3⟩ := tail a b ha0 ha hb false wb hwb s1 (0 + 2) h1
      refine occ_of _ s2 sf _ ?_ e3 h3
      rw [pushWords_cons _ _ _ _ _ _ e1, pushWords_cons _ _ _ _ _ _ e2]; rfl
    | true =>
      show occTexts En.lang zeroThr [wa, w!"and", wb] = _
      by_cases h10 : a < 10
      · obtain ⟨hnea, vala, hfma⟩ := B_fmt a
        rw [B_pos a ha0] at hnea hfma
        obtain ⟨s2, e2, h2⟩ := step_rej s1 (0 + 2) _ {} (some .nan) .nan [] _ vala w!"and"
          and_word h1 hnea hfma (by decide) (and_small a (by omega) h10) and_empty
        obtain ⟨s3, sf, e3, e4, h4⟩ := fresh b wb hwb _ s2 (0 + 2 + 2) h2
        refine occ_of _ s3 sf _ ?_ e4 ?_
        · rw [pushWords_cons _ _ _ _ _ _ e1, pushWords_cons _ _ _ _ _ _ e2, pushWords_cons _ _ _ _ _ _ e3]; rfl
        · rw [h4, expected_sep a b true (by unfold NotFused; omega) (Or.inr rfl)]; rfl
      · obtain ⟨s2, e2, h2⟩ := step_inc s1 (0 + 2) _ _ [] w!"and" h1 (and_apply a (by omega))
        obtain ⟨s3, sf, e3, e4, h4⟩ := tail a b ha0 ha hb true wb hwb s2 (0 + 2 + 2) h2
        refine occ_of _ s3 sf _ ?_ e4 h4
        rw [pushWords_cons _ _ _ _ _ _ e1, pushWords_cons _ _ _ _ _ _ e2, pushWords_cons _ _ _ _ _ _ e3]; rfl

/-! ## `fused` against the speller -/

/-- normalised words of a phrase: hyphens opened, the conjunction dropped -/
def norm (ws : List Word) : List Word := (ws.flatMap (splitOnChar '-')).filter (· != Spec.En.conj)

/-- one row of the justification table: tens `t`, unit `u` -/
def spellRow (t u : Nat) : Bool :=
  norm (Spec.En.cardinal (tableVar 0) (10 * t + u)) == norm (std (10 * t) ++ std u) &&
  norm (Spec.En.cardinal (tableVar 0) (10 * t + u)) == norm (std (10 * t) ++ [Spec.En.conj] ++ std u) &&
  Spec.En.cardinal (tableVar 2) (10 * t + u) == std (10 * t) ++ std u

set_option maxRecDepth 100000 in
theorem spell_table : checkRange (fun n => spellRow (n / 9 + 2) (n % 9 + 1)) 0 72 = true := by decide +kernel

theorem fused_some (a b c : Nat) (cj : Bool) (h : fused a b cj = some c) :
    (20 ≤ a ∧ a % 10 = 0 ∧ 1 ≤ b ∧ b ≤ 9) ∧ c = a + b := by
  unfold fused at h
  by_cases hc : 20 ≤ a ∧ a % 10 = 0 ∧ 1 ≤ b ∧ b ≤ 9
  · rw [if_pos hc] at h
    exact ⟨hc, (Option.some.inj h).symm⟩
  · rw [if_neg hc] at h; exact absurd h (by simp)

theorem spellRow_of_fused (a b : Nat) (ha : a < 100) (h : 20 ≤ a ∧ a % 10 = 0 ∧ 1 ≤ b ∧ b ≤ 9) :
    spellRow (a / 10) b = true := by
  have := checkRange_spec _ 72 0 spell_table ((a / 10 - 2) * 9 + (b - 1)) (Nat.zero_le _) (by omega)
  have e1 : ((a / 10 - 2) * 9 + (b - 1)) / 9 + 2 = a / 10 := by omega
  have e2 : ((a / 10 - 2) * 9 + (b - 1)) % 9 + 1 = b := by omega
  have this : spellRow (((a / 10 - 2) * 9 + (b - 1)) / 9 + 2) (((a / 10 - 2) * 9 + (b - 1)) % 9 + 1) = true := this
  rw [e1, e2] at this
  exact this

/-- **every fusion is a spelling of the fused number**: the words of `a` (+ `and`) + the words of `b` are, up to
hyphenation and the optional conjunction, the words of the cardinal `c` (variant index `k`, here the standard one). -/
theorem C08_fused_is_spelling_en (a b c : Nat) (ha : a < 100) (cj : Bool) (h : fused a b cj = some c) :
    ∃ k, k < 48 ∧ norm (Spec.En.cardinal (tableVar k) c) = norm (std a ++ joiner cj ++ std b) := by
  obtain ⟨hc, rfl⟩ := fused_some a b c cj h
  have hr := spellRow_of_fused a b ha hc
  have e : 10 * (a / 10) = a := by omega
  unfold spellRow at hr
  rw [e] at hr
  simp only [Bool.and_eq_true, beq_iff_eq] at hr
  refine ⟨0, by decide, ?_⟩
  cases cj with
  | false =>
    show _ = norm (std a ++ [] ++ std b)
    rw [List.append_nil]; exact hr.1.1
  | true => exact hr.1.2

/-- without the conjunction the two words are literally a variant spelling (`twenty one`, unhyphenated) of `a + b` -/
theorem fused_is_variant_en (a b c : Nat) (ha : a < 100) (h : fused a b false = some c) :
    Spec.En.cardinal (tableVar 2) c = std a ++ std b := by
  obtain ⟨hc, rfl⟩ := fused_some a b c false h
  have hr := spellRow_of_fused a b ha hc
  have e : 10 * (a / 10) = a := by omega
  unfold spellRow at hr
  rw [e] at hr
  simp only [Bool.and_eq_true, beq_iff_eq] at hr
  exact hr.2

/-! ## instances -/

theorem decChars_one (n : Nat) (h : n < 10) : decChars n = [digitChar n] := by
  unfold decChars; rw [decDigits, if_pos h]; rfl

theorem decChars_two (n : Nat) (h1 : 10 ≤ n) (h2 : n < 100) : decChars n = [digitChar (n / 10), digitChar (n % 10)] := by
  unfold decChars
  rw [decDigits, if_neg (by omega), decDigits, if_pos (by omega)]; rfl

/-- `twenty twelve` ↦ `20 12` (never 32) -/
example : occTexts En.lang zeroThr [w!"twenty", w!"twelve"] = some [w!"20", w!"12"] := by
  have h := C08_pairs_en 20 12 (by decide) (by decide) false
  rw [expected_sep 20 12 false (by unfold NotFused; omega) (Or.inl (by decide)),
    decChars_two 20 (by decide) (by decide), decChars_two 12 (by decide) (by decide)] at h
  exact h

/-- `twenty and two` ↦ `22`: the fusion also happens across the conjunction -/
example : occTexts En.lang zeroThr [w!"twenty", w!"and", w!"two"] = some [w!"22"] := by
  have h := C08_pairs_en 20 2 (by decide) (by decide) true
  rw [expected_fused 20 2 true (by decide), decChars_two 22 (by decide) (by decide)] at h
  exact h

/-- `zero forty-two` ↦ `042`; `zero and forty-two` ↦ `0`, `42` -/
example : occTexts En.lang zeroThr [w!"zero", w!"forty-two"] = some [w!"042"] := by
  have h := C08_pairs_en 0 42 (by decide) (by decide) false
  rw [expected_zero, decChars_two 42 (by decide) (by decide)] at h
  exact h

example : occTexts En.lang zeroThr [w!"zero", w!"and", w!"forty-two"] = some [w!"0", w!"42"] := by
  have h := C08_pairs_en 0 42 (by decide) (by decide) true
  rw [expected_sep 0 42 true (by unfold NotFused; omega) (Or.inr rfl), decChars_zero,
    decChars_two 42 (by decide) (by decide)] at h
  exact h

end T2N.PairsEn
