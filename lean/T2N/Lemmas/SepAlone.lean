/-
  T2N.Lemmas.SepAlone — the decimal-separator word that separates nothing (C05, last clause).

  1. `idle_prefix`: tokens that cannot open a number (skipped, hinted as foreign, or whose word the fresh
     builder does not accept — in particular the separator word itself, `IdleTok`) standing at the START of
     the input leave the scanner pristine: the occurrences of `A ++ B` are those of `B`, shifted by `|A|`
     (every threshold, any pause hints). Hence a separator word with no number before it is in no occurrence
     and what follows it is scanned on its own.
  2. `stops_after_valid`: after a phrase that validates, tokens whose word is refused by both interpreter
     functions in every state, never with `Incomplete` (`Stops`: ordinary words AND the separator word), change
     nothing: the occurrences of `P ++ core ++ Q` are those of `P ++ core` (every threshold). The separator
     switches the parser to decimal mode (`Pend` with an empty decimal part); the next stop word — or the end of
     the input — ends the number as the integer alone, and its span ends at the last word of the number.
  3. `stop_after_decimal`: if at threshold 0 the scan of `A` ends with a decimal number, a stop word after `A`
     (e.g. a second separator: `n sep d sep …`) ends that number exactly as the end of the input would and leaves
     a clean scanner: the occurrences of `A ++ [t] ++ B` are those of `A` followed by those of `B` scanned on its
     own (every threshold). Method: at threshold 0 a last occurrence with a fractional part shows that the parser
     was in decimal mode (`mode_of_decimal`); the parser does not depend on the threshold (`Thr.lean`).
-/
import T2N.Lemmas.C01Sent
import T2N.Lemmas.Thr

namespace T2N.SepAlone
open T2N T2N.Lift

/-! ## 0. closed states (no number held), with whatever is queued / on hold -/

/-- no number is held, no match is open; the queue is `q`, `h` is on hold -/
def Cl (q : List Occ) (h : Option Occ) (s : Scanner) : Prop :=
  s.parser = {} ∧ s.tracker.queue = q ∧ s.tracker.onHold = h ∧ s.tracker.mstart = s.tracker.mend

theorem Cl.outside {q : List Occ} {h : Option Occ} {s : Scanner} (hc : Cl q h s) (cfg : ScanCfg) (tok : Tok)
    (prev : Option Tok) : Cl q h { (s.outside cfg tok) with previous := prev } := by
  rw [outside_eq]
  split
  · exact hc
  · exact hc

theorem outside_last (cfg : ScanCfg) (s : Scanner) (tok : Tok) (h : s.tracker.last = Kind.none) :
    (s.outside cfg tok).tracker.last = Kind.none := by
  rw [outside_eq]
  split
  · rfl
  · exact h

/-- an idle token leaves a closed scanner closed (queue and held occurrence unchanged), and does not set
`last_contiguous_match` -/
theorem push_idle_cl (cfg : ScanCfg) (hl : LangAgree cfg.lang) (q : List Occ) (ho : Option Occ) (s : Scanner)
    (pos : Nat) (tok : Tok) (h : Cl q ho s) (ht : IdleTok cfg tok) :
    ∃ s', s.push cfg pos tok = .ok s' ∧ Cl q ho s' ∧ (s.tracker.last = Kind.none → s'.tracker.last = Kind.none) := by
  have hp : s.parser = {} := h.1
  have hnum : s.parser.hasNumber = false := by rw [hp]; rfl
  unfold Scanner.push
  by_cases hs : Scanner.isSkipped cfg tok = true
  · rw [if_pos hs]; exact ⟨s, rfl, h, fun x => x⟩
  rw [if_neg hs]
  by_cases hnan : tok.nan = true
  · rw [if_pos hnan]
    unfold Scanner.pushNan
    rw [if_neg (by rw [hnum]; exact Bool.false_ne_true)]
    exact ⟨_, rfl, h.outside cfg tok _, fun x => outside_last cfg s tok x⟩
  rw [if_neg hnan]
  have hna : (cfg.lang.apply tok.lower DS.new).1 ≠ none := by
    rcases ht with h1 | h1 | h1
    · exact absurd h1 hs
    · exact absurd h1 hnan
    · exact h1
  rw [testWord_idle cfg s tok hnum]
  rcases Parser.push_closed cfg.lang hl s.parser tok.lower (by rw [hp]; try rfl) (by rw [hp]; try rfl) with
    ⟨b', ha, _⟩ | ⟨e, he⟩
  · rw [ha] at hna; exact absurd rfl hna
  · rw [he]
    dsimp only
    have hcl : Cl q ho ({ s with parser := s.parser } : Scanner) := h
    cases e with
    | incomplete => exact ⟨_, rfl, hcl, fun x => x⟩
    | overlap =>
      dsimp only
      unfold Scanner.pushRejected
      rw [if_neg (by dsimp only; rw [hnum]; exact Bool.false_ne_true)]
      exact ⟨_, rfl, hcl.outside cfg tok _, fun x => outside_last cfg _ tok x⟩
    | nan =>
      dsimp only
      unfold Scanner.pushRejected
      rw [if_neg (by dsimp only; rw [hnum]; exact Bool.false_ne_true)]
      exact ⟨_, rfl, hcl.outside cfg tok _, fun x => outside_last cfg _ tok x⟩
    | frozen =>
      dsimp only
      unfold Scanner.pushRejected
      rw [if_neg (by dsimp only; rw [hnum]; exact Bool.false_ne_true)]
      exact ⟨_, rfl, hcl.outside cfg tok _, fun x => outside_last cfg _ tok x⟩

theorem pushAll_idle_cl (cfg : ScanCfg) (hl : LangAgree cfg.lang) (q : List Occ) (ho : Option Occ) (ts : List Tok) :
    ∀ (s : Scanner) (pos : Nat), Cl q ho s → (∀ t ∈ ts, IdleTok cfg t) →
      ∃ s', Scanner.pushAll cfg s (enumFrom pos ts) = .ok s' ∧ Cl q ho s' ∧
        (s.tracker.last = Kind.none → s'.tracker.last = Kind.none) := by
  induction ts with
  | nil => intro s pos h _; exact ⟨s, rfl, h, fun x => x⟩
  | cons t ts ih =>
    intro s pos h ht
    obtain ⟨s1, h1, c1, l1⟩ := push_idle_cl cfg hl q ho s pos t h (ht t (List.mem_cons_self ..))
    obtain ⟨s2, h2, c2, l2⟩ := ih s1 (pos + 1) c1 (fun t' ht' => ht t' (List.mem_cons_of_mem _ ht'))
    exact ⟨s2, by rw [pushAll_cons cfg s s1 pos t ts h1]; exact h2, c2, fun x => l2 (l1 x)⟩

/-! ## 1. idle tokens at the start of the input -/

/-- **tokens that open no number, at the start of the input, are invisible**: the occurrences of `A ++ B`
are those of `B`, shifted by the length of `A` — every threshold, any pause hints -/
theorem idle_prefix (cfg : ScanCfg) (hl : LangAgree cfg.lang) (A B : List Tok) (hA : ∀ t ∈ A, IdleTok cfg t) :
    ∃ ob, findNumbers cfg B = .ok ob ∧ findNumbers cfg (A ++ B) = .ok (ob.map (shiftOcc A.length)) := by
  obtain ⟨σ0, e0, c0, l0⟩ := pushAll_idle_cl cfg hl [] none A {} 0 ⟨rfl, rfl, rfl, rfl⟩ hA
  have l0' : σ0.tracker.last = Kind.none := l0 rfl
  have hn0 : σ0.parser.hasNumber = false := by rw [c0.1]; rfl
  have hsim0 : SSim A.length [] σ0 {} := by
    refine ⟨c0.1, ?_, ?_, ?_, ?_⟩
    · rw [c0.2.1]; rfl
    · exact l0'
    · intro hne; exact absurd l0' hne
    · exact Or.inr ⟨c0.2.2.2, rfl⟩
  obtain ⟨σ1, τ1, e1, e2, hsim1, hτ1⟩ :=
    pushAll_sim cfg hl.langOk A.length [] B 0 σ0 {} hsim0 (Or.inr hn0) SInv.init TrInv.init
  have hfin := finalize_sim cfg hsim1 hτ1.2.1.mp
  have eAll : Scanner.pushAll cfg {} (enumFrom 0 (A ++ B)) = .ok σ1 := by
    rw [pushAll_append_ok cfg A B {} σ0 0 e0]; exact e1
  cases f1 : σ1.finalize cfg with
  | error f =>
    cases f2 : τ1.finalize cfg with
    | error f' =>
      exfalso
      obtain ⟨occs, hocc, _⟩ := findNumbers_ok cfg B
      simp only [findNumbers, e2, f2] at hocc
      cases hocc
    | ok τ2 => rw [f1, f2] at hfin; cases hfin
  | ok σ2 =>
    cases f2 : τ1.finalize cfg with
    | error f' => rw [f1, f2] at hfin; cases hfin
    | ok τ2 =>
      rw [f1, f2] at hfin
      refine ⟨τ2.tracker.queue, ?_, ?_⟩
      · simp only [findNumbers, e2, f2]
      · simp only [findNumbers, eAll, f1]
        rw [hfin.2.queue]
        rfl

/-- every occurrence of a shifted list starts at or after the shift -/
theorem shift_start (k : Nat) (os : List Occ) : ∀ o ∈ os.map (shiftOcc k), k ≤ o.start := by
  intro o ho
  obtain ⟨o', _, rfl⟩ := List.mem_map.mp ho
  show k ≤ o'.start + k
  omega

/-! ## 2. stop words after a number -/

/-- the word is refused by both interpreter functions in every state, never with `Incomplete`
(ordinary words, and the decimal-separator word) -/
def Stops (l : Lang) (w : Word) : Prop :=
  (∀ b, ∃ e, (l.apply w b).1 = some e ∧ e ≠ Err.incomplete) ∧
  (∀ d, ∃ e, (l.applyDecimal w d).1 = some e ∧ e ≠ Err.incomplete)

/-- a word that the parser refuses in every state is a stop word -/
theorem Stops.of_rejects {l : Lang} {w : Word} (h : l.Rejects w) : Stops l w := by
  constructor
  · intro b
    obtain ⟨e, he, hne⟩ := h { int := b }
    rcases Parser.push_nondec_cases l { int := b } w rfl with ⟨b', _, hp⟩ | ⟨e', b', _, _, _, hp⟩ | ⟨e', b', ha, hp⟩
    · rw [hp] at he; cases he
    · rw [hp] at he; injection he with he; exact absurd he.symm hne
    · rw [hp] at he
      have : e' = e := by injection he
      subst this
      have ha' : l.apply w b = (some e', b') := ha
      exact ⟨e', by rw [ha'], hne⟩
  · intro d
    obtain ⟨e, he, hne⟩ := h { dec := d, isDec := true }
    rw [Parser.push_dec l _ w rfl] at he
    exact ⟨e, he, hne⟩

theorem Stops.not_accepted {l : Lang} {w : Word} (h : Stops l w) : (l.apply w DS.new).1 ≠ none := by
  obtain ⟨e, he, _⟩ := h.1 DS.new
  rw [he]; intro hc; cases hc

/-- a token that cannot continue a number, in integer mode or in decimal mode: skipped, hinted as foreign, or
its word is a stop word -/
def StopTok (cfg : ScanCfg) (t : Tok) : Prop :=
  Scanner.isSkipped cfg t = true ∨ t.nan = true ∨ Stops cfg.lang t.lower

theorem StopTok.idle {cfg : ScanCfg} {t : Tok} (h : StopTok cfg t) : IdleTok cfg t := by
  rcases h with h | h | h
  · exact Or.inl h
  · exact Or.inr (Or.inl h)
  · exact Or.inr (Or.inr h.not_accepted)

theorem StopTok.of_plain {cfg : ScanCfg} {t : Tok} (h : PlainTok cfg t) : StopTok cfg t := by
  rcases h with h | h | h
  · exact Or.inl h
  · exact Or.inr (Or.inl h)
  · exact Or.inr (Or.inr (Stops.of_rejects h))

/-- a number is pending: the integer builder is `b` up to the blocking flags, the decimal part is empty (the
parser may or may not have been switched to decimal mode by a separator), the tracker is `T` -/
def Pend (b : DS) (T : Tracker) (s : Scanner) : Prop :=
  SameButFlags b s.parser.int ∧ s.parser.dec.isEmpty = true ∧ s.tracker = T

/-- the tracker after the pending number has been ended -/
def endT (cfg : ScanCfg) (b : DS) (d : Word) (v : Value) (T : Tracker) : Tracker :=
  T.numberEnd b.isOrdinal d v ((utf8Len d == 1 || b.isOrdinal) && cfg.small v)

theorem numberEnd_mstart (t : Tracker) (o : Bool) (tx : Word) (v : Value) (f : Bool) :
    (t.numberEnd o tx v f).mstart = (t.numberEnd o tx v f).mend := by
  unfold Tracker.numberEnd
  dsimp only
  generalize (if o = true then Kind.ordinal else Kind.cardinal) = k
  by_cases h1 : (t.last == k) = true
  · rw [if_pos h1]
  · rw [if_neg h1]
    by_cases h2 : f = true
    · rw [if_pos h2]
    · rw [if_neg h2]

theorem Pend.hasNumber {b : DS} {T : Tracker} {s : Scanner} (h : Pend b T s) (hne : b.isEmpty = false) :
    s.parser.hasNumber = true := by
  show (!s.parser.int.isEmpty) = true
  rw [h.1.isEmpty_eq, hne]; rfl

/-- ending a pending number: the integer alone, whether or not a separator was heard -/
theorem numberEnd_pend (cfg : ScanCfg) (b : DS) (d : Word) (v : Value) (T : Tracker) (s : Scanner)
    (h : Pend b T s) (hf : cfg.lang.formatW b = .ok (d, v)) :
    s.numberEnd cfg = .ok { s with parser := {}, tracker := endT cfg b d v T } := by
  obtain ⟨h1, h2, h3⟩ := h
  have hfin : s.parser.finish cfg.lang = .ok (d, v) := by
    unfold Parser.finish
    rw [h2]
    simp only [Bool.not_true, Bool.and_false, Bool.false_eq_true, if_false]
    rw [formatW_same cfg.lang h1]; exact hf
  have hord : s.parser.isOrdinal = b.isOrdinal := by
    unfold Parser.isOrdinal DS.isOrdinal; rw [h1.2.2.2]
  unfold Scanner.numberEnd
  rw [hfin]
  dsimp only
  rw [hord, h3]
  rfl

theorem cl_ended (cfg : ScanCfg) (b : DS) (d : Word) (v : Value) (T : Tracker) (s : Scanner) :
    Cl (endT cfg b d v T).queue (endT cfg b d v T).onHold
      ({ s with parser := {}, tracker := endT cfg b d v T } : Scanner) :=
  ⟨rfl, rfl, rfl, numberEnd_mstart ..⟩

/-- the `Err(_)` arms on a stop word while a number is pending: the number ends, nothing opens -/
theorem pushRejected_pend (cfg : ScanCfg) (hl : LangAgree cfg.lang) (b : DS) (d : Word) (v : Value) (T : Tracker)
    (s : Scanner) (pos : Nat) (tok : Tok) (h : Pend b T s) (hne : b.isEmpty = false)
    (hf : cfg.lang.formatW b = .ok (d, v)) (hst : Stops cfg.lang tok.lower) :
    ∃ s', Scanner.pushRejected cfg s pos tok = .ok s' ∧
      Cl (endT cfg b d v T).queue (endT cfg b d v T).onHold s' := by
  have hnum := h.hasNumber hne
  have hc1 := cl_ended cfg b d v T s
  unfold Scanner.pushRejected
  rw [if_pos hnum, numberEnd_pend cfg b d v T s h hf]
  dsimp only
  rcases Parser.push_closed cfg.lang hl ({} : Parser) tok.lower rfl rfl with ⟨b', ha, _⟩ | ⟨e2, hp⟩
  · exact absurd (by rw [ha]) hst.not_accepted
  · rw [hp]
    dsimp only
    rw [if_neg (by simp)]
    by_cases hinc : ((some e2 : Res) == some Err.incomplete) = true
    · rw [if_pos hinc]; exact ⟨_, rfl, hc1⟩
    · rw [if_neg hinc]; exact ⟨_, rfl, hc1.outside cfg tok _⟩

/-- one stop token while a number is pending: nothing happens (skipped), the parser is switched to decimal
mode (separator), or the number ends as the integer alone -/
theorem push_stop_pend (cfg : ScanCfg) (hl : LangAgree cfg.lang) (hsep : ∀ x y, cfg.sep x y = false)
    (b : DS) (d : Word) (v : Value) (T : Tracker) (s : Scanner) (pos : Nat) (tok : Tok) (h : Pend b T s)
    (hne : b.isEmpty = false) (hf : cfg.lang.formatW b = .ok (d, v)) (ht : StopTok cfg tok) :
    ∃ s', s.push cfg pos tok = .ok s' ∧
      (Pend b T s' ∨ Cl (endT cfg b d v T).queue (endT cfg b d v T).onHold s') := by
  have hnum := h.hasNumber hne
  by_cases hs : Scanner.isSkipped cfg tok = true
  · refine ⟨s, ?_, Or.inl h⟩
    unfold Scanner.push; rw [if_pos hs]
  have hs' : Scanner.isSkipped cfg tok = false := by simpa using hs
  by_cases hnan : tok.nan = true
  · refine ⟨_, ?_, Or.inr ((cl_ended cfg b d v T s).outside cfg tok (some tok))⟩
    unfold Scanner.push
    rw [if_neg hs, if_pos hnan]
    unfold Scanner.pushNan
    rw [if_pos hnum, numberEnd_pend cfg b d v T s h hf]
  have hnan' : tok.nan = false := by simpa using hnan
  have hst : Stops cfg.lang tok.lower := by
    rcases ht with h1 | h1 | h1
    · exact absurd h1 hs
    · exact absurd h1 hnan
    · exact h1
  obtain ⟨h1, h2, h3⟩ := h
  by_cases hd : s.parser.isDec = true
  · -- decimal mode (after a separator): the stop word is refused, the number ends
    obtain ⟨e, he, hne'⟩ := hst.2 s.parser.dec
    have hpush : s.parser.push cfg.lang (Scanner.testWord cfg s tok) =
        (some e, { s.parser with dec := (cfg.lang.applyDecimal tok.lower s.parser.dec).2 }) := by
      rw [testWord_nosep cfg hsep, Parser.push_dec cfg.lang s.parser tok.lower hd, he]
    rw [push_rejected_eq cfg s pos tok hs' hnan' e _ hpush hne']
    have hp' : Pend b T ({ s with parser :=
        { s.parser with dec := (cfg.lang.applyDecimal tok.lower s.parser.dec).2 } } : Scanner) :=
      ⟨h1, by show (cfg.lang.applyDecimal tok.lower s.parser.dec).2.isEmpty = true
              rw [hl.dec_err tok.lower s.parser.dec e he]; exact h2, h3⟩
    obtain ⟨s', e1, c1⟩ := pushRejected_pend cfg hl b d v T _ pos tok hp' hne hf hst
    exact ⟨s', e1, Or.inr c1⟩
  · have hd' : s.parser.isDec = false := by simpa using hd
    rcases Parser.push_nondec_cases cfg.lang s.parser tok.lower hd' with
      ⟨b', ha, _⟩ | ⟨e', b', ha, _, _, hpp⟩ | ⟨e', b', ha, hpp⟩
    · obtain ⟨e, he, _⟩ := hst.1 s.parser.int
      rw [ha] at he; cases he
    · -- the separator after a cardinal: decimal mode, the number stays pending
      have hsame : SameButFlags b b' := by
        have := hl.err_same tok.lower s.parser.int e' (by rw [ha])
        rw [ha] at this; exact h1.trans this
      have hpush : s.parser.push cfg.lang (Scanner.testWord cfg s tok) =
          (some .incomplete, { s.parser with int := b', isDec := true }) := by
        rw [testWord_nosep cfg hsep]; exact hpp
      refine ⟨_, push_incomplete_eq cfg s pos tok hs' hnan' _ hpush, Or.inl ⟨hsame, h2, h3⟩⟩
    · obtain ⟨e, he, hne'⟩ := hst.1 s.parser.int
      have hee : e' = e := by rw [ha] at he; injection he
      subst hee
      have hsame : SameButFlags b b' := by
        have := hl.err_same tok.lower s.parser.int e' (by rw [ha])
        rw [ha] at this; exact h1.trans this
      have hpush : s.parser.push cfg.lang (Scanner.testWord cfg s tok) = (some e', { s.parser with int := b' }) := by
        rw [testWord_nosep cfg hsep]; exact hpp
      rw [push_rejected_eq cfg s pos tok hs' hnan' e' _ hpush hne']
      have hp' : Pend b T ({ s with parser := { s.parser with int := b' } } : Scanner) := ⟨hsame, h2, h3⟩
      obtain ⟨s', e1, c1⟩ := pushRejected_pend cfg hl b d v T _ pos tok hp' hne hf hst
      exact ⟨s', e1, Or.inr c1⟩

theorem pushAll_stop (cfg : ScanCfg) (hl : LangAgree cfg.lang) (hsep : ∀ x y, cfg.sep x y = false)
    (b : DS) (d : Word) (v : Value) (T : Tracker) (hne : b.isEmpty = false)
    (hf : cfg.lang.formatW b = .ok (d, v)) (Q : List Tok) :
    ∀ (s : Scanner) (pos : Nat), (Pend b T s ∨ Cl (endT cfg b d v T).queue (endT cfg b d v T).onHold s) →
      (∀ t ∈ Q, StopTok cfg t) →
      ∃ s', Scanner.pushAll cfg s (enumFrom pos Q) = .ok s' ∧
        (Pend b T s' ∨ Cl (endT cfg b d v T).queue (endT cfg b d v T).onHold s') := by
  induction Q with
  | nil => intro s pos h _; exact ⟨s, rfl, h⟩
  | cons t ts ih =>
    intro s pos h ht
    have hts : ∀ t' ∈ ts, StopTok cfg t' := fun t' ht' => ht t' (List.mem_cons_of_mem _ ht')
    have hstep : ∃ s1, s.push cfg pos t = .ok s1 ∧
        (Pend b T s1 ∨ Cl (endT cfg b d v T).queue (endT cfg b d v T).onHold s1) := by
      rcases h with h | h
      · exact push_stop_pend cfg hl hsep b d v T s pos t h hne hf (ht t (List.mem_cons_self ..))
      · obtain ⟨s1, h1, c1, _⟩ := push_idle_cl cfg hl _ _ s pos t h (ht t (List.mem_cons_self ..)).idle
        exact ⟨s1, h1, Or.inr c1⟩
    obtain ⟨s1, h1, c1⟩ := hstep
    obtain ⟨s2, h2, c2⟩ := ih s1 (pos + 1) c1 hts
    exact ⟨s2, by rw [pushAll_cons cfg s s1 pos t ts h1]; exact h2, c2⟩

/-- at the end of the input the pending number is reported as the integer alone -/
theorem finalize_stop (cfg : ScanCfg) (b : DS) (d : Word) (v : Value) (T : Tracker) (hne : b.isEmpty = false)
    (hf : cfg.lang.formatW b = .ok (d, v)) (s : Scanner)
    (h : Pend b T s ∨ Cl (endT cfg b d v T).queue (endT cfg b d v T).onHold s) :
    ∃ s', s.finalize cfg = .ok s' ∧ s'.tracker.queue = (endT cfg b d v T).queue := by
  unfold Scanner.finalize
  rcases h with h | h
  · rw [if_pos (h.hasNumber hne), numberEnd_pend cfg b d v T s h hf]
    exact ⟨_, rfl, rfl⟩
  · have hnum : s.parser.hasNumber = false := by rw [h.1]; rfl
    rw [if_neg (by rw [hnum]; exact Bool.false_ne_true)]
    exact ⟨s, rfl, h.2.1⟩

/-- **stop tokens after a number change nothing** (every threshold): `core` is a phrase that validates,
standing after tokens `P` that open no number; `Q` consists of skipped tokens, tokens hinted as foreign, ordinary
words and decimal-separator words. The occurrences are exactly those found when the input ends after `core`. -/
theorem stops_after_valid (cfg : ScanCfg) (hl : LangAgree cfg.lang) (hsep : ∀ x y, cfg.sep x y = false)
    (P core Q : List Tok) (d : Word)
    (hP : ∀ t ∈ P, IdleTok cfg t) (hQ : ∀ t ∈ Q, StopTok cfg t) (hcore : ∀ t ∈ core, CoreTok cfg t)
    (hhead : ∀ t ∈ core.head?, Scanner.isSkipped cfg t = false ∧ (cfg.lang.apply t.lower DS.new).1 = none)
    (h : text2digitsWords cfg.lang (wordsOf cfg core) = .ok d) :
    findNumbers cfg (P ++ core ++ Q) = findNumbers cfg (P ++ core) := by
  obtain ⟨ds, v, hx, hne, hf⟩ := text2digitsWords_ok h
  cases core with
  | nil =>
    simp only [wordsOf, List.filter_nil, List.map_nil, execGroup, execGroupFrom, Bool.false_eq_true, if_false] at hx
    cases hx
    cases hne
  | cons t0 rest =>
    obtain ⟨hs0, ha0⟩ := hhead t0 (by simp)
    obtain ⟨hn0, _⟩ := hcore t0 (List.mem_cons_self ..) hs0
    have hrest : ∀ t ∈ rest, CoreTok cfg t := fun t ht => hcore t (List.mem_cons_of_mem _ ht)
    cases hr : cfg.lang.apply t0.lower DS.new with
    | mk r b0 =>
      rw [hr] at ha0
      have hr0 : r = none := ha0
      subst hr0
      rw [wordsOf_cons cfg t0 rest hs0] at hx
      unfold execGroup at hx
      rw [execGroupFrom_cons_ok hr] at hx
      obtain ⟨sP, hPr, cP⟩ := pushAll_idle_closed cfg hl [] P {} 0 closed_init hP
      obtain ⟨s0, h0, o0⟩ := push_first cfg sP P.length t0 cP hs0 hn0 b0 hr
      obtain ⟨s1, e1, h1, o1, _, _, _⟩ := run_open cfg hsep rest s0 (P.length + 1) P.length
        (P.length + 1) b0 false ds o0 (by omega) (Nat.le_refl _) hrest hx
      have hpend : Pend ds s1.tracker s1 := ⟨by rw [o1.1]; exact SameButFlags.refl _, by rw [o1.1]; rfl, rfl⟩
      have hcore_run : Scanner.pushAll cfg {} (enumFrom 0 (P ++ (t0 :: rest))) = .ok s1 := by
        rw [pushAll_append_ok cfg P _ {} sP 0 hPr, Nat.zero_add, pushAll_cons cfg sP s0 P.length t0 _ h0]
        exact h1
      obtain ⟨s2, h2, c2⟩ := pushAll_stop cfg hl hsep ds d v s1.tracker hne hf Q s1
        (0 + (P ++ (t0 :: rest)).length) (Or.inl hpend) hQ
      obtain ⟨s3, h3, q3⟩ := finalize_stop cfg ds d v s1.tracker hne hf s2 c2
      obtain ⟨s4, h4, q4⟩ := finalize_stop cfg ds d v s1.tracker hne hf s1 (Or.inl hpend)
      have hall : Scanner.pushAll cfg {} (enumFrom 0 (P ++ (t0 :: rest) ++ Q)) = .ok s2 := by
        rw [pushAll_append_ok cfg _ Q {} s1 0 hcore_run]; exact h2
      unfold findNumbers
      rw [hall, hcore_run]
      dsimp only
      rw [h3, h4]
      dsimp only
      rw [q3, q4]

/-! ## 3. a stop word on the pristine parser -/

/-- a stop word leaves the pristine parser pristine and is not answered `Incomplete` -/
theorem push_fresh_stop (l : Lang) (hl : LangAgree l) (w : Word) (hst : Stops l w) :
    ∃ e, ({} : Parser).push l w = (some e, {}) ∧ e ≠ Err.incomplete := by
  obtain ⟨e, he, hne⟩ := hst.1 DS.new
  rcases Parser.push_nondec_cases l {} w rfl with ⟨b', ha, _⟩ | ⟨e', b', ha, _, hnb, _⟩ | ⟨e', b', ha, hp⟩
  · have ha' : l.apply w DS.new = (none, b') := ha
    rw [ha'] at he; cases he
  · have ha' : l.apply w DS.new = (some e', b') := ha
    have := (hl.err_same w DS.new e' (by rw [ha'])).isEmpty_eq
    rw [ha', hnb] at this
    cases this
  · have ha' : l.apply w DS.new = (some e', b') := ha
    have hb : b' = DS.new := by
      have := hl.err_new w e' (by rw [ha'])
      rw [ha'] at this; exact this
    have hee : e' = e := by rw [ha'] at he; injection he
    subst hb hee
    exact ⟨e', hp, hne⟩

/-! ## 4. phrases given as words (`wordTokens`) -/

theorem idleTok_sp (cfg : ScanCfg) (hspace : cfg.cc.isWhitespace ' ' = true) : IdleTok cfg sp :=
  Or.inl (skipped_sp cfg hspace)

/-- words that open no number, at the start of a phrase: the occurrences are those of the rest of the
phrase, shifted by two tokens per word -/
theorem idle_prefix_words (cfg : ScanCfg) (hl : LangAgree cfg.lang) (hspace : cfg.cc.isWhitespace ' ' = true)
    (pre post : List Word) (hpre : ∀ w ∈ pre, IdleTok cfg (wtok w)) :
    ∃ ob, findNumbers cfg (wordTokens post) = .ok ob ∧
      findNumbers cfg (wordTokens (pre ++ post)) = .ok (ob.map (shiftOcc (2 * pre.length))) := by
  by_cases hne : post = []
  · subst hne
    obtain ⟨ob, h1, h2⟩ := idle_prefix cfg hl (wordTokens pre) [] (by
      intro t ht
      rcases mem_wordTokens ht with rfl | ⟨w, hw, rfl⟩
      · exact idleTok_sp cfg hspace
      · exact hpre w hw)
    have hob : ob = [] := by
      have : findNumbers cfg [] = .ok [] := rfl
      rw [this] at h1; cases h1; rfl
    subst hob
    refine ⟨[], rfl, ?_⟩
    rw [List.append_nil] at h2 ⊢
    exact h2
  · obtain ⟨ob, h1, h2⟩ := idle_prefix cfg hl (preToks pre) (wordTokens post) (by
      intro t ht
      rcases mem_preToks ht with rfl | ⟨w, hw, rfl⟩
      · exact idleTok_sp cfg hspace
      · exact hpre w hw)
    refine ⟨ob, h1, ?_⟩
    rw [wordTokens_pre pre post hne, h2, length_preToks]

/-- **stop words after a phrase that validates change nothing** (phrases given as words) -/
theorem stops_after_valid_words (cfg : ScanCfg) (hl : LangAgree cfg.lang) (hsep : ∀ x y, cfg.sep x y = false)
    (hspace : cfg.cc.isWhitespace ' ' = true) (pre ws post : List Word) (d : Word)
    (hpre : ∀ w ∈ pre, IdleTok cfg (wtok w)) (hpost : ∀ w ∈ post, StopTok cfg (wtok w))
    (hws : ∀ w ∈ ws, Scanner.isSkipped cfg (wtok w) = false ∧ cfg.lang.isDecSep w = false)
    (hfirst : ∀ w ∈ ws.head?, (cfg.lang.apply w DS.new).1 = none)
    (h : text2digitsWords cfg.lang ws = .ok d) :
    findNumbers cfg (wordTokens (pre ++ ws ++ post)) = findNumbers cfg (wordTokens (pre ++ ws)) := by
  have hne : ws ≠ [] := by
    intro hnil
    subst hnil
    obtain ⟨ds, v, hx, hemp, _⟩ := text2digitsWords_ok h
    simp only [execGroup, execGroupFrom, Bool.false_eq_true, if_false] at hx
    cases hx; cases hemp
  have hsk : ∀ w ∈ ws, Scanner.isSkipped cfg (wtok w) = false := fun w hw => (hws w hw).1
  have hwo := wordsOf_wordTokens cfg hspace ws hsk
  have hspk := skipped_sp cfg hspace
  have key := stops_after_valid cfg hl hsep (preToks pre) (wordTokens ws) (postToks post) d
    (by
      intro t ht
      rcases mem_preToks ht with rfl | ⟨w, hw, rfl⟩
      · exact Or.inl hspk
      · exact hpre w hw)
    (by
      intro t ht
      rcases mem_postToks ht with rfl | ⟨w, hw, rfl⟩
      · exact Or.inl hspk
      · exact hpost w hw)
    (by
      intro t ht hs
      rcases mem_wordTokens ht with rfl | ⟨w, hw, rfl⟩
      · rw [hspk] at hs; cases hs
      · exact ⟨rfl, (hws w hw).2⟩)
    (by
      obtain ⟨w, l, rfl⟩ := List.exists_cons_of_ne_nil hne
      intro t ht
      rw [wordTokens_cons] at ht
      have : t = wtok w := by simpa using ht.symm
      subst this
      exact ⟨hsk w (List.mem_cons_self ..), hfirst w (by simp)⟩)
    (by rw [hwo]; exact h)
  have hsplit : wordTokens (pre ++ ws ++ post) = preToks pre ++ wordTokens ws ++ postToks post := by
    rw [List.append_assoc, wordTokens_pre pre (ws ++ post) (by simp [hne]), wordTokens_post ws post hne,
      List.append_assoc]
  rw [hsplit, key, wordTokens_pre pre ws hne]

/-! ## 5. the seven interpreters -/

/-- the decimal-separator word of a built-in language is a stop word -/
theorem sep_stops_builtin (l : Lang) (hmem : l ∈ allLangs) (w : Word) (hs : l.isDecSep w = true) : Stops l w := by
  refine ⟨sep_rejected_builtin l hmem w hs, ?_⟩
  have hint := sep_rejected_builtin l hmem w hs
  simp only [allLangs, List.mem_cons, List.not_mem_nil, or_false] at hmem
  rcases hmem with rfl | rfl | rfl | rfl | rfl | rfl | rfl
  · have : w = w!"point" := by simpa [T2N.En.lang] using hs
    subst this
    intro d; exact ⟨.nan, rfl, by intro h; cases h⟩
  · exact hint
  · exact hint
  · exact hint
  · exact hint
  · have : w = w!"komma" := by simpa [T2N.De.lang] using hs
    subst this
    intro d; exact ⟨.nan, rfl, by intro h; cases h⟩
  · exact hint

/-- … and leaves the decimal builder unchanged up to the blocking flags -/
theorem sep_dec_same_builtin (l : Lang) (hmem : l ∈ allLangs) (hl : LangAgree l) (w : Word)
    (hs : l.isDecSep w = true) (D : DS) (e : Err) (he : (l.applyDecimal w D).1 = some e) :
    SameButFlags D (l.applyDecimal w D).2 := by
  simp only [allLangs, List.mem_cons, List.not_mem_nil, or_false] at hmem
  rcases hmem with rfl | rfl | rfl | rfl | rfl | rfl | rfl
  · have : w = w!"point" := by simpa [T2N.En.lang] using hs
    subst this
    exact SameButFlags.refl D
  · exact hl.err_same w D e he
  · exact hl.err_same w D e he
  · exact hl.err_same w D e he
  · exact hl.err_same w D e he
  · have : w = w!"komma" := by simpa [T2N.De.lang] using hs
    subst this
    exact SameButFlags.refl D
  · exact hl.err_same w D e he

/-! ## 6. statements for a built-in language and a spelled number -/

open T2N.Spec in
/-- what is used of a spelled number `ws` (the cardinal `n` of a built-in speller): it validates to the decimal
digits of `n`, none of its words is skipped by the scanner or is the separator, its first word is accepted by the
fresh builder -/
def PhraseOk (l : Lang) (ws : List Word) (n : Nat) : Prop :=
  text2digitsWords l ws = .ok (decChars n) ∧
  (∀ w ∈ ws, Scanner.isSkipped (scanCfg l zeroThr) (wtok w) = false ∧ l.isDecSep w = false) ∧
  (∀ w ∈ ws.head?, (l.apply w DS.new).1 = none)

open T2N.Spec in
/-- `PhraseOk` from validation, for a language that refuses the skipped words in every state -/
theorem PhraseOk.of_valid (l : Lang) (hmem : l ∈ allLangs)
    (hskip : ∀ w, (w = ['-'] ∨ ∀ c ∈ w, simpleIsWs c = true) →
      ∀ b, ∃ e, (l.apply w b).1 = some e ∧ e ≠ .incomplete)
    (ws : List Word) (n : Nat) (hval : text2digitsWords l ws = .ok (decChars n))
    (hfirst : ∀ w ∈ ws.head?, (l.apply w DS.new).1 ≠ some .incomplete) : PhraseOk l ws n := by
  obtain ⟨ds0, _, hx0, _, _⟩ := text2digitsWords_ok hval
  have hst := execGroupFrom_stepsOk _ _ _ _ _ hx0
  refine ⟨hval, ?_, ?_⟩
  · intro w hw
    refine ⟨?_, nosep_of_valid_builtin l hmem ws _ hval w hw⟩
    cases hs : Scanner.isSkipped (scanCfg l zeroThr) (wtok w) with
    | false => rfl
    | true =>
      obtain ⟨b', hb'⟩ := stepsOk_mem _ _ _ hst w hw
      obtain ⟨e, he, hne⟩ := hskip w (C01Sent.skipped_cases l zeroThr w hs) b'
      rcases hb' with hb' | hb'
      · rw [he] at hb'; cases hb'
      · rw [he] at hb'; injection hb' with hb'; exact absurd hb' hne
  · intro w hw
    cases ws with
    | nil => cases hw
    | cons w0 t =>
      have : w = w0 := by simpa using hw.symm
      subst this
      rcases hst.1 with h | h
      · exact h
      · exact absurd h (hfirst w (by simp))

theorem PhraseOk.words {l : Lang} {ws : List Word} {n : Nat} (h : PhraseOk l ws n) (thr : Nat → Bool) :
    ∀ w ∈ ws, Scanner.isSkipped (scanCfg l thr) (wtok w) = false ∧ (scanCfg l thr).lang.isDecSep w = false :=
  fun w hw => h.2.1 w hw

open T2N.Spec in
/-- the spelled number alone, threshold 0: one occurrence spanning the phrase -/
theorem scan_phrase_zero (l : Lang) (hl : LangAgree l) (ws : List Word) (n : Nat) (hok : PhraseOk l ws n)
    (pre : List Word) (hpre : ∀ w ∈ pre, (l.apply w DS.new).1 ≠ none) :
    findNumbers (scanCfg l zeroThr) (wordTokens (pre ++ ws)) =
      .ok [⟨2 * pre.length, 2 * pre.length + (2 * ws.length - 1), decChars n, .dec (decDigits n) [], false⟩] := by
  obtain ⟨ds, val, hx, hf, hfind⟩ := valid_is_one_sentence (scanCfg l zeroThr) hl (fun _ _ => rfl)
    (fun _ => rfl) rfl pre ws [] (decChars n)
    (fun w hw => Or.inr (Or.inr (hpre w hw))) (fun _ h => by cases h) (hok.words zeroThr) hok.2.2 hok.1
  obtain ⟨h1, h2⟩ := C01Sent.value_of_format l ds n val hf
  rw [List.append_nil] at hfind
  rw [hfind, h1, h2]

/-- **clause 1** — a separator word with no number before it (only words that open no number, or nothing):
it is in no occurrence, and what follows is scanned on its own; every threshold -/
theorem sep_alone (l : Lang) (hmem : l ∈ allLangs) (hl : LangAgree l) (thr : Nat → Bool) (sw : Word)
    (hsw : l.isDecSep sw = true) (pre post : List Word) (hpre : ∀ w ∈ pre, (l.apply w DS.new).1 ≠ none) :
    ∃ ob, findNumbers (scanCfg l thr) (wordTokens post) = .ok ob ∧
      findNumbers (scanCfg l thr) (wordTokens (pre ++ [sw] ++ post)) =
        .ok (ob.map (shiftOcc (2 * pre.length + 2))) := by
  obtain ⟨ob, h1, h2⟩ := idle_prefix_words (scanCfg l thr) hl rfl (pre ++ [sw]) post (by
    intro w hw
    rcases List.mem_append.mp hw with hw | hw
    · exact Or.inr (Or.inr (hpre w hw))
    · have : w = sw := by simpa using hw
      subst this
      exact Or.inr (Or.inr (sep_stops_builtin l hmem w hsw).not_accepted))
  refine ⟨ob, h1, ?_⟩
  rw [h2]
  have : 2 * (pre ++ [sw]).length = 2 * pre.length + 2 := by
    rw [List.length_append, List.length_singleton]; omega
  rw [this]

/-- clause 1, positions: every occurrence starts after the separator token (token `2 * pre.length`) -/
theorem sep_alone_start (l : Lang) (hmem : l ∈ allLangs) (hl : LangAgree l) (thr : Nat → Bool) (sw : Word)
    (hsw : l.isDecSep sw = true) (pre post : List Word) (hpre : ∀ w ∈ pre, (l.apply w DS.new).1 ≠ none) :
    ∃ occs, findNumbers (scanCfg l thr) (wordTokens (pre ++ [sw] ++ post)) = .ok occs ∧
      ∀ o ∈ occs, 2 * pre.length < o.start := by
  obtain ⟨ob, _, h2⟩ := sep_alone l hmem hl thr sw hsw pre post hpre
  refine ⟨_, h2, ?_⟩
  intro o ho
  have := shift_start _ _ o ho
  omega

theorem map_text_shift (k : Nat) (os : List Occ) : (os.map (shiftOcc k)).map (·.text) = os.map (·.text) := by
  rw [List.map_map]; rfl

/-- clause 1 on the texts -/
theorem sep_alone_texts (l : Lang) (hmem : l ∈ allLangs) (hl : LangAgree l) (thr : Nat → Bool) (sw : Word)
    (hsw : l.isDecSep sw = true) (pre post : List Word) (hpre : ∀ w ∈ pre, (l.apply w DS.new).1 ≠ none) :
    occTexts l thr (pre ++ [sw] ++ post) = occTexts l thr post := by
  obtain ⟨ob, h1, h2⟩ := sep_alone l hmem hl thr sw hsw pre post hpre
  unfold occTexts
  rw [h1, h2]
  dsimp only
  rw [map_text_shift]

/-- the separator word alone is not a number -/
theorem sep_only (l : Lang) (hmem : l ∈ allLangs) (hl : LangAgree l) (thr : Nat → Bool) (sw : Word)
    (hsw : l.isDecSep sw = true) : occTexts l thr [sw] = some [] := by
  have := sep_alone_texts l hmem hl thr sw hsw [] [] (fun _ h => by cases h)
  rw [List.nil_append, List.append_nil] at this
  rw [this]; rfl

open T2N.Spec in
/-- `sep <number>`: the number is found on its own, the separator stays a word -/
theorem sep_then_number (l : Lang) (hmem : l ∈ allLangs) (hl : LangAgree l) (sw : Word)
    (hsw : l.isDecSep sw = true) (ws : List Word) (n : Nat) (hok : PhraseOk l ws n) :
    findNumbers (scanCfg l zeroThr) (wordTokens ([sw] ++ ws)) =
      .ok [⟨2, 2 + (2 * ws.length - 1), decChars n, .dec (decDigits n) [], false⟩] := by
  obtain ⟨ob, h1, h2⟩ := sep_alone l hmem hl zeroThr sw hsw [] ws (fun _ h => by cases h)
  have h0 := scan_phrase_zero l hl ws n hok [] (fun _ h => by cases h)
  rw [List.nil_append] at h0
  rw [h0] at h1
  cases h1
  rw [List.nil_append] at h2
  rw [h2]
  simp only [List.map_cons, List.map_nil, shiftOcc, List.length_nil, Nat.mul_zero, Nat.zero_add]
  have : 2 * ws.length - 1 + 2 = 2 + (2 * ws.length - 1) := by omega
  rw [this]

/-- **clause 2** — stop words (the separator, ordinary words) after a spelled number change nothing: the
occurrences are those found when the input ends after the number; every threshold -/
theorem nothing_after (l : Lang) (hl : LangAgree l) (ws : List Word) (n : Nat) (hok : PhraseOk l ws n)
    (thr : Nat → Bool) (pre post : List Word) (hpre : ∀ w ∈ pre, (l.apply w DS.new).1 ≠ none)
    (hpost : ∀ w ∈ post, Stops l w) :
    findNumbers (scanCfg l thr) (wordTokens (pre ++ ws ++ post)) =
      findNumbers (scanCfg l thr) (wordTokens (pre ++ ws)) :=
  stops_after_valid_words (scanCfg l thr) hl (fun _ _ => rfl) rfl pre ws post _
    (fun w hw => Or.inr (Or.inr (hpre w hw))) (fun w hw => Or.inr (Or.inr (hpost w hw)))
    (hok.words thr) hok.2.2 hok.1

open T2N.Spec in
/-- clause 2 at threshold 0: exactly one occurrence, the integer alone; its span ends at the last word of the
number (token `2 * pre.length + 2 * ws.length - 2`), before the separator token -/
theorem nothing_after_zero (l : Lang) (hl : LangAgree l) (ws : List Word) (n : Nat) (hok : PhraseOk l ws n)
    (pre post : List Word) (hpre : ∀ w ∈ pre, (l.apply w DS.new).1 ≠ none) (hpost : ∀ w ∈ post, Stops l w) :
    findNumbers (scanCfg l zeroThr) (wordTokens (pre ++ ws ++ post)) =
      .ok [⟨2 * pre.length, 2 * pre.length + (2 * ws.length - 1), decChars n, .dec (decDigits n) [], false⟩] := by
  rw [nothing_after l hl ws n hok zeroThr pre post hpre hpost, scan_phrase_zero l hl ws n hok pre hpre]

open T2N.Spec in
theorem nothing_after_texts (l : Lang) (hl : LangAgree l) (ws : List Word) (n : Nat) (hok : PhraseOk l ws n)
    (post : List Word) (hpost : ∀ w ∈ post, Stops l w) :
    occTexts l zeroThr (ws ++ post) = some [decChars n] := by
  have := nothing_after_zero l hl ws n hok [] post (fun _ h => by cases h) hpost
  rw [List.nil_append] at this
  unfold occTexts
  rw [this]
  rfl

open T2N.Spec in
/-- the spelled number alone, threshold 0, texts -/
theorem phrase_texts (l : Lang) (hl : LangAgree l) (ws : List Word) (n : Nat) (hok : PhraseOk l ws n) :
    occTexts l zeroThr ws = some [decChars n] := by
  have := nothing_after_texts l hl ws n hok [] (fun _ h => by cases h)
  rw [List.append_nil] at this
  exact this

open T2N.Spec in
/-- the digits of a number contain no decimal mark -/
theorem decChars_no_mark (n : Nat) : ',' ∉ decChars n ∧ '.' ∉ decChars n := by
  constructor
  · intro h; have := C01Sent.decChars_dig n _ h; revert this; decide
  · intro h; have := C01Sent.decChars_dig n _ h; revert this; decide

/-! ## 7. a stop word after a decimal number (`n sep d sep …`), from the scan of `n sep d` alone -/

/-- from a clean state (pristine parser, `last_contiguous_match = None`, no open match) the rest of the input is
scanned on its own -/
theorem reset_then (cfg : ScanCfg) (hl : LangAgree cfg.lang) (A B : List Tok) (σ0 : Scanner)
    (hrun : Scanner.pushAll cfg {} (enumFrom 0 A) = .ok σ0) (p0 : σ0.parser = {})
    (l0 : σ0.tracker.last = Kind.none) (m0 : σ0.tracker.mstart = σ0.tracker.mend) :
    ∃ ob, findNumbers cfg B = .ok ob ∧
      findNumbers cfg (A ++ B) = .ok (σ0.tracker.queue ++ ob.map (shiftOcc A.length)) := by
  have hn0 : σ0.parser.hasNumber = false := by rw [p0]; rfl
  have hsim0 : SSim A.length σ0.tracker.queue σ0 {} := by
    refine ⟨p0, ?_, ?_, ?_, ?_⟩
    · simp
    · exact l0
    · intro hne'; exact absurd l0 hne'
    · exact Or.inr ⟨m0, rfl⟩
  obtain ⟨σ1, τ1, e1, e2, hsim1, hτ1⟩ :=
    pushAll_sim cfg hl.langOk A.length σ0.tracker.queue B 0 σ0 {} hsim0 (Or.inr hn0) SInv.init TrInv.init
  have hfin' := finalize_sim cfg hsim1 hτ1.2.1.mp
  have eAll : Scanner.pushAll cfg {} (enumFrom 0 (A ++ B)) = .ok σ1 := by
    rw [pushAll_append_ok cfg A B {} σ0 0 hrun]; exact e1
  cases f1 : σ1.finalize cfg with
  | error f =>
    cases f2 : τ1.finalize cfg with
    | error f' =>
      exfalso
      obtain ⟨occs, hocc, _⟩ := findNumbers_ok cfg B
      simp only [findNumbers, e2, f2] at hocc
      cases hocc
    | ok τ2 => rw [f1, f2] at hfin'; cases hfin'
  | ok σ2 =>
    cases f2 : τ1.finalize cfg with
    | error f' => rw [f1, f2] at hfin'; cases hfin'
    | ok τ2 =>
      rw [f1, f2] at hfin'
      refine ⟨τ2.tracker.queue, ?_, ?_⟩
      · simp only [findNumbers, e2, f2]
      · simp only [findNumbers, eAll, f1]
        rw [hfin'.2.queue]

/-- a word token that breaks a sequence, whose word is a stop word which, when refused in decimal mode, leaves
the decimal builder unchanged up to the blocking flags: the separator word of the seven interpreters, and every
ordinary word -/
structure StopWordTok (cfg : ScanCfg) (t : Tok) : Prop where
  notSkipped : Scanner.isSkipped cfg t = false
  notNan : t.nan = false
  breaks : breaks cfg t = true
  stops : Stops cfg.lang t.lower
  decSame : ∀ d e, (cfg.lang.applyDecimal t.lower d).1 = some e →
    SameButFlags d (cfg.lang.applyDecimal t.lower d).2

/-- `Parser.finish` looks at the decimal builder only through emptiness and digits -/
theorem finish_dec_same (l : Lang) (p : Parser) (D' : DS) (h : SameButFlags p.dec D') :
    ({ p with dec := D' } : Parser).finish l = p.finish l := by
  have hr : D'.render = p.dec.render := by unfold DS.render; rw [h.1, h.2.1]
  unfold Parser.finish
  dsimp only
  rw [h.isEmpty_eq]
  unfold Lang.formatDecimalW renderChars
  rw [hr]

/-- **a stop word met while no integer is waiting for its separator** (no number held, or decimal mode) ends what
is pending exactly as the end of the input would, and leaves a clean scanner -/
theorem push_stop_reset (cfg : ScanCfg) (hl : LangAgree cfg.lang) (hsep : ∀ x y, cfg.sep x y = false)
    (σ : Scanner) (pos : Nat) (t : Tok) (ht : StopWordTok cfg t) (hinv : RInv σ pos)
    (hmode : σ.parser.hasNumber = true → σ.parser.isDec = true) :
    ∃ σ0 σf, σ.push cfg pos t = .ok σ0 ∧ σ.finalize cfg = .ok σf ∧ σ0.parser = {} ∧
      σ0.tracker.queue = σf.tracker.queue ∧ σ0.tracker.last = Kind.none ∧
      σ0.tracker.mstart = σ0.tracker.mend := by
  obtain ⟨hS, hSc, hId⟩ := hinv
  obtain ⟨e2, hp2, hne2⟩ := push_fresh_stop cfg.lang hl t.lower ht.stops
  by_cases hn : σ.parser.hasNumber = true
  · -- decimal mode: the word is refused, the number ends as at the end of the input
    have hd := hmode hn
    obtain ⟨e, he, hne⟩ := ht.stops.2 σ.parser.dec
    have hsm := ht.decSame σ.parser.dec e he
    have hpush : σ.parser.push cfg.lang (Scanner.testWord cfg σ t) =
        (some e, { σ.parser with dec := (cfg.lang.applyDecimal t.lower σ.parser.dec).2 }) := by
      rw [testWord_nosep cfg hsep, Parser.push_dec cfg.lang σ.parser t.lower hd, he]
    obtain ⟨s1, h1, _⟩ := numberEnd_ok cfg σ pos hSc hn
    have hne' : Scanner.numberEnd cfg ({ σ with parser :=
        { σ.parser with dec := (cfg.lang.applyDecimal t.lower σ.parser.dec).2 } } : Scanner) =
        .ok { s1 with previous := σ.previous } := by
      unfold Scanner.numberEnd at h1 ⊢
      dsimp only at h1 ⊢
      rw [finish_dec_same cfg.lang σ.parser _ hsm]
      have hord : ({ σ.parser with dec := (cfg.lang.applyDecimal t.lower σ.parser.dec).2 } : Parser).isOrdinal =
          σ.parser.isOrdinal := rfl
      rw [hord]
      cases hf : σ.parser.finish cfg.lang with
      | error f => rw [hf] at h1; cases h1
      | ok r =>
        rw [hf] at h1
        dsimp only at h1 ⊢
        cases h1
        rfl
    have hfinal : σ.finalize cfg = .ok s1 := by
      unfold Scanner.finalize; rw [if_pos hn]; exact h1
    have hp1 : s1.parser = {} := numberEnd_parser cfg σ s1 h1
    have hm1 : s1.tracker.mstart = s1.tracker.mend := by
      unfold Scanner.numberEnd at h1
      cases hf : σ.parser.finish cfg.lang with
      | error f => rw [hf] at h1; cases h1
      | ok r =>
        rw [hf] at h1
        dsimp only at h1
        cases h1
        exact numberEnd_mstart ..
    have hstep : ∃ σ0, σ.push cfg pos t = .ok σ0 ∧ σ0.parser = {} ∧ σ0.tracker.queue = s1.tracker.queue ∧
        σ0.tracker.last = Kind.none ∧ σ0.tracker.mstart = σ0.tracker.mend := by
      rw [push_rejected_eq cfg σ pos t ht.notSkipped ht.notNan e _ hpush hne]
      unfold Scanner.pushRejected
      have hnum : ({ σ with parser :=
          { σ.parser with dec := (cfg.lang.applyDecimal t.lower σ.parser.dec).2 } } : Scanner).parser.hasNumber = true := hn
      rw [if_pos hnum, hne']
      dsimp only
      rw [hp1, hp2]
      dsimp only
      rw [if_neg (by simp), if_neg (by simpa using hne2)]
      refine ⟨_, rfl, ?_, ?_, ?_, ?_⟩
      · show (Scanner.outside cfg _ t).parser = {}
        rw [outside_parser]
      · show (Scanner.outside cfg _ t).tracker.queue = s1.tracker.queue
        rw [outside_eq, if_pos ht.breaks]
        rfl
      · show (Scanner.outside cfg _ t).tracker.last = Kind.none
        exact outside_breaks_last cfg _ t ht.breaks
      · show (Scanner.outside cfg _ t).tracker.mstart = (Scanner.outside cfg _ t).tracker.mend
        rw [outside_eq, if_pos ht.breaks]
        exact hm1
    obtain ⟨σ0, a1, a2, a3, a4, a5⟩ := hstep
    exact ⟨σ0, s1, a1, hfinal, a2, a3, a4, a5⟩
  · -- nothing is held: the parser is pristine, the word is refused
    have hn' : σ.parser.hasNumber = false := by simpa using hn
    have hp0 : σ.parser = {} := hId hn'
    have hpush : σ.parser.push cfg.lang (Scanner.testWord cfg σ t) = (some e2, {}) := by
      rw [testWord_nosep cfg hsep, hp0]; exact hp2
    have hfinal : σ.finalize cfg = .ok σ := by
      unfold Scanner.finalize; rw [if_neg hn]
    have hstep : ∃ σ0, σ.push cfg pos t = .ok σ0 ∧ σ0.parser = {} ∧ σ0.tracker.queue = σ.tracker.queue ∧
        σ0.tracker.last = Kind.none ∧ σ0.tracker.mstart = σ0.tracker.mend := by
      rw [push_rejected_eq cfg σ pos t ht.notSkipped ht.notNan e2 _ hpush hne2]
      unfold Scanner.pushRejected
      have hnum : ¬ ({ σ with parser := {} } : Scanner).parser.hasNumber = true := by
        show ¬ (({} : Parser).hasNumber = true); simp [Parser.hasNumber, DS.isEmpty]
      rw [if_neg hnum]
      refine ⟨_, rfl, ?_, ?_, ?_, ?_⟩
      · show (Scanner.outside cfg _ t).parser = {}
        rw [outside_parser]
      · show (Scanner.outside cfg _ t).tracker.queue = σ.tracker.queue
        rw [outside_eq, if_pos ht.breaks]
        rfl
      · show (Scanner.outside cfg _ t).tracker.last = Kind.none
        exact outside_breaks_last cfg _ t ht.breaks
      · show (Scanner.outside cfg _ t).tracker.mstart = (Scanner.outside cfg _ t).tracker.mend
        rw [outside_eq, if_pos ht.breaks]
        exact hS.closed hn'
    obtain ⟨σ0, a1, a2, a3, a4, a5⟩ := hstep
    exact ⟨σ0, σ, a1, hfinal, a2, a3, a4, a5⟩

/-- the value of a number ended outside decimal mode has no fractional part -/
theorem formatW_value (l : Lang) (b : DS) (tx : Word) (v : Value) (h : l.formatW b = .ok (tx, v)) :
    ¬ ∃ i f, v = .dec i f ∧ f ≠ [] := by
  unfold Lang.formatW at h
  by_cases he : b.render.isEmpty = true
  · rw [if_pos he] at h; cases h
  · rw [if_neg he] at h
    rintro ⟨i, f, hv, hf⟩
    cases hm : b.marker with
    | none => rw [hm] at h; cases h; cases hv; exact hf rfl
    | ordinal m => rw [hm] at h; cases h; cases hv; exact hf rfl
    | fraction m => rw [hm] at h; cases h; cases hv

/-- at threshold 0, if the last occurrence reported at the end of the input is a decimal number, no integer was
waiting for its separator: the parser held nothing or was in decimal mode -/
theorem mode_of_decimal (cfg : ScanCfg) (hthr : ∀ n, cfg.thrLt n = false) (σ σf : Scanner) (q : List Occ)
    (occ : Occ) (hfin : σ.finalize cfg = .ok σf) (hq : σf.tracker.queue = q ++ [occ]) (hdec : occ.isDecimal) :
    σ.parser.hasNumber = true → σ.parser.isDec = true := by
  intro hn
  cases hd : σ.parser.isDec with
  | true => rfl
  | false =>
    exfalso
    unfold Scanner.finalize at hfin
    rw [if_pos hn] at hfin
    cases hf : σ.parser.finish cfg.lang with
    | error f =>
      unfold Scanner.numberEnd at hfin
      rw [hf] at hfin; cases hfin
    | ok r =>
      obtain ⟨tx, v⟩ := r
      rw [scanner_numberEnd_thr0 cfg hthr σ tx v hf] at hfin
      cases hfin
      have hv : cfg.lang.formatW σ.parser.int = .ok (tx, v) := by
        unfold Parser.finish at hf
        rw [hd, Bool.false_and, if_neg Bool.false_ne_true] at hf
        exact hf
      have hlast : ∃ pre, (σ.tracker.numberEnd σ.parser.isOrdinal tx v false).queue =
          pre ++ [⟨σ.tracker.mstart, σ.tracker.mend, tx, v, σ.parser.isOrdinal⟩] := by
        unfold Tracker.numberEnd
        dsimp only
        generalize (if σ.parser.isOrdinal = true then Kind.ordinal else Kind.cardinal) = k
        by_cases h1 : (σ.tracker.last == k) = true
        · rw [if_pos h1]; exact ⟨_, rfl⟩
        · rw [if_neg h1, if_neg Bool.false_ne_true]; exact ⟨_, rfl⟩
      obtain ⟨pre, hpre⟩ := hlast
      have hq' : pre ++ [(⟨σ.tracker.mstart, σ.tracker.mend, tx, v, σ.parser.isOrdinal⟩ : Occ)] = q ++ [occ] := by
        rw [← hpre]; exact hq
      have := (List.append_inj' hq' rfl).2
      have hocc : occ = ⟨σ.tracker.mstart, σ.tracker.mend, tx, v, σ.parser.isOrdinal⟩ := by
        injection this with h1 _; exact h1.symm
      obtain ⟨i, f, hvv, hff⟩ := hdec
      rw [hocc] at hvv
      exact formatW_value cfg.lang σ.parser.int tx v hv ⟨i, f, hvv, hff⟩

/-- a skipped token at the end changes nothing -/
theorem findNumbers_snoc_skipped (cfg : ScanCfg) (A : List Tok) (s : Tok) (hs : Scanner.isSkipped cfg s = true) :
    findNumbers cfg (A ++ [s]) = findNumbers cfg A := by
  unfold findNumbers
  rw [enumFrom_append, Scanner.pushAll_append]
  cases hA : Scanner.pushAll cfg {} (enumFrom 0 A) with
  | error f => rfl
  | ok σ =>
    dsimp only
    have : σ.push cfg (0 + A.length) s = .ok σ := by unfold Scanner.push; rw [if_pos hs]
    simp only [enumFrom, Scanner.pushAll, this]

/-- **`… n sep d sep …`**: if at threshold 0 the scan of `A` ends with a decimal number, then — at every
threshold — a stop word `t` after `A` ends that number as the end of the input would, and what follows is scanned
on its own: the occurrences of `A ++ [t] ++ B` are those of `A` followed by those of `B` (shifted) -/
theorem stop_after_decimal (cfg cfg0 : ScanCfg) (h0 : ThrLe cfg0 cfg) (hthr0 : ∀ n, cfg0.thrLt n = false)
    (hl : LangAgree cfg.lang) (hsep : ∀ x y, cfg.sep x y = false) (A B : List Tok) (t : Tok)
    (ht : StopWordTok cfg t) (q : List Occ) (occ : Occ) (hA : findNumbers cfg0 A = .ok (q ++ [occ]))
    (hdec : occ.isDecimal) :
    ∃ oa ob, findNumbers cfg A = .ok oa ∧ findNumbers cfg B = .ok ob ∧
      findNumbers cfg (A ++ [t] ++ B) = .ok (oa ++ ob.map (shiftOcc (A.length + 1))) := by
  have hf : cfg.lang.ErrFresh := fun w e he => hl.err_new w e he
  obtain ⟨σ, eA, iA⟩ := pushAll_rinv cfg hl.langOk hf A {} 0 RInv.init
  -- the same run at threshold 0: same parser
  have hrel := pushAll_thr h0 (enumFrom 0 A) (s1 := {}) (s2 := {})
    ⟨rfl, rfl, rfl, rfl, rfl, List.Sublist.refl _, List.Sublist.refl _⟩
  rw [eA] at hrel
  cases hz : Scanner.pushAll cfg0 {} (enumFrom 0 A) with
  | error f => rw [hz] at hrel; cases hrel
  | ok σz =>
    rw [hz] at hrel
    have hpz : σz.parser = σ.parser := hrel.1
    unfold findNumbers at hA
    rw [hz] at hA
    dsimp only at hA
    cases hfz : σz.finalize cfg0 with
    | error f => rw [hfz] at hA; cases hA
    | ok σfz =>
      rw [hfz] at hA
      dsimp only at hA
      have hqz : σfz.tracker.queue = q ++ [occ] := by injection hA
      have hmode : σ.parser.hasNumber = true → σ.parser.isDec = true := by
        rw [← hpz]; exact mode_of_decimal cfg0 hthr0 σz σfz q occ hfz hqz hdec
      obtain ⟨σ0, σf, e0, ef, p0, q0, l0, m0⟩ := push_stop_reset cfg hl hsep σ (0 + A.length) t ht iA hmode
      have eAt : Scanner.pushAll cfg {} (enumFrom 0 (A ++ [t])) = .ok σ0 := by
        rw [pushAll_append_ok cfg A [t] {} σ 0 eA]
        simp only [enumFrom, Scanner.pushAll, e0]
      obtain ⟨ob, hB, hAll⟩ := reset_then cfg hl (A ++ [t]) B σ0 eAt p0 l0 m0
      refine ⟨σf.tracker.queue, ob, ?_, hB, ?_⟩
      · simp only [findNumbers, eA, ef]
      · rw [hAll, q0]
        have : (A ++ [t]).length = A.length + 1 := by simp
        rw [this]

theorem shiftOcc_shiftOcc (a b : Nat) (o : Occ) : shiftOcc a (shiftOcc b o) = shiftOcc (b + a) o := by
  unfold shiftOcc
  dsimp only
  rw [Nat.add_assoc, Nat.add_assoc]

/-- the tokens after the first word of a phrase, scanned alone -/
theorem findNumbers_postToks (cfg : ScanCfg) (hl : LangAgree cfg.lang) (hspace : cfg.cc.isWhitespace ' ' = true)
    (Y : List Word) :
    ∃ ob, findNumbers cfg (wordTokens Y) = .ok ob ∧ findNumbers cfg (postToks Y) = .ok (ob.map (shiftOcc 1)) := by
  cases Y with
  | nil => exact ⟨[], rfl, rfl⟩
  | cons y ys =>
    have e : postToks (y :: ys) = [sp] ++ wordTokens (y :: ys) := by
      rw [wordTokens_cons]; rfl
    obtain ⟨ob, h1, h2⟩ := idle_prefix cfg hl [sp] (wordTokens (y :: ys)) (by
      intro t ht
      have : t = sp := by simpa using ht
      subst this
      exact idleTok_sp cfg hspace)
    exact ⟨ob, h1, by rw [e, h2]; rfl⟩

/-- **`n sep d sep …` for phrases given as words**: `X` is a phrase whose scan at threshold 0 ends with a
decimal number, `sw` a stop word, `Y` any phrase -/
theorem stop_after_decimal_words (l : Lang) (hl : LangAgree l) (thr : Nat → Bool) (X Y : List Word) (sw : Word)
    (hX : X ≠ []) (ht : StopWordTok (scanCfg l thr) (wtok sw)) (q : List Occ) (occ : Occ)
    (hA : findNumbers (scanCfg l zeroThr) (wordTokens X) = .ok (q ++ [occ])) (hdec : occ.isDecimal) :
    ∃ oa ob, findNumbers (scanCfg l thr) (wordTokens X) = .ok oa ∧
      findNumbers (scanCfg l thr) (wordTokens Y) = .ok ob ∧
      findNumbers (scanCfg l thr) (wordTokens (X ++ [sw] ++ Y)) =
        .ok (oa ++ ob.map (shiftOcc (2 * X.length + 2))) := by
  have hsk0 : Scanner.isSkipped (scanCfg l zeroThr) sp = true := skipped_sp _ rfl
  have hsk : Scanner.isSkipped (scanCfg l thr) sp = true := skipped_sp _ rfl
  have h0 : ThrLe (scanCfg l zeroThr) (scanCfg l thr) := ⟨rfl, rfl, rfl, fun n hn => by cases hn⟩
  obtain ⟨oa, ob', h1, h2, h3⟩ := stop_after_decimal (scanCfg l thr) (scanCfg l zeroThr) h0 (fun _ => rfl) hl
    (fun _ _ => rfl) (wordTokens X ++ [sp]) (postToks Y) (wtok sw) ht q occ
    (by rw [findNumbers_snoc_skipped _ _ _ hsk0]; exact hA) hdec
  rw [findNumbers_snoc_skipped _ _ _ hsk] at h1
  obtain ⟨ob, h4, h5⟩ := findNumbers_postToks (scanCfg l thr) hl rfl Y
  rw [h5] at h2
  cases h2
  refine ⟨oa, ob, h1, h4, ?_⟩
  have hsplit : wordTokens (X ++ [sw] ++ Y) = wordTokens X ++ [sp] ++ [wtok sw] ++ postToks Y := by
    rw [List.append_assoc, wordTokens_post X ([sw] ++ Y) hX, postToks_append]
    simp [postToks, List.append_assoc]
  have hlen : (wordTokens X ++ [sp]).length + 1 = 2 * X.length + 1 := by
    rw [List.length_append, length_wordTokens, List.length_singleton]
    have : 0 < X.length := List.length_pos_iff.mpr hX
    omega
  rw [hsplit, h3, hlen, List.map_map]
  have : (shiftOcc (2 * X.length + 1) ∘ shiftOcc 1) = shiftOcc (2 * X.length + 2) := by
    funext o
    show shiftOcc (2 * X.length + 1) (shiftOcc 1 o) = _
    rw [shiftOcc_shiftOcc]
    congr 1; omega
  rw [this]

/-- the separator word of a built-in language, as a word token -/
theorem sep_stopWordTok (l : Lang) (hmem : l ∈ allLangs) (hl : LangAgree l) (thr : Nat → Bool) (sw : Word)
    (hsw : l.isDecSep sw = true) (hsk : Scanner.isSkipped (scanCfg l thr) (wtok sw) = false)
    (hbr : breaks (scanCfg l thr) (wtok sw) = true) : StopWordTok (scanCfg l thr) (wtok sw) where
  notSkipped := hsk
  notNan := rfl
  breaks := hbr
  stops := sep_stops_builtin l hmem sw hsw
  decSame := fun d e he => sep_dec_same_builtin l hmem hl sw hsw d e he

/-- **clause 3** — `X sep Y` where the scan of `X` is one decimal number (`X = n sep d`): the second separator
ends the number; `Y` is scanned on its own; every threshold -/
theorem sep_twice (l : Lang) (hmem : l ∈ allLangs) (hl : LangAgree l) (thr : Nat → Bool) (sw : Word)
    (hsw : l.isDecSep sw = true) (hsk : Scanner.isSkipped (scanCfg l thr) (wtok sw) = false)
    (hbr : breaks (scanCfg l thr) (wtok sw) = true) (X Y : List Word) (hX : X ≠ []) (occ0 occ : Occ)
    (hdec : occ0.isDecimal) (hA0 : findNumbers (scanCfg l zeroThr) (wordTokens X) = .ok [occ0])
    (hA : findNumbers (scanCfg l thr) (wordTokens X) = .ok [occ]) :
    ∃ ob, findNumbers (scanCfg l thr) (wordTokens Y) = .ok ob ∧
      findNumbers (scanCfg l thr) (wordTokens (X ++ [sw] ++ Y)) =
        .ok (occ :: ob.map (shiftOcc (2 * X.length + 2))) := by
  obtain ⟨oa, ob, h1, h2, h3⟩ := stop_after_decimal_words l hl thr X Y sw hX
    (sep_stopWordTok l hmem hl thr sw hsw hsk hbr) [] occ0 hA0 hdec
  rw [hA] at h1
  cases h1
  exact ⟨ob, h2, h3⟩

/-- clause 3 on the texts -/
theorem sep_twice_texts (l : Lang) (hmem : l ∈ allLangs) (hl : LangAgree l) (thr : Nat → Bool) (sw : Word)
    (hsw : l.isDecSep sw = true) (hsk : Scanner.isSkipped (scanCfg l thr) (wtok sw) = false)
    (hbr : breaks (scanCfg l thr) (wtok sw) = true) (X Y : List Word) (hX : X ≠ []) (occ0 occ : Occ)
    (hdec : occ0.isDecimal) (hA0 : findNumbers (scanCfg l zeroThr) (wordTokens X) = .ok [occ0])
    (hA : findNumbers (scanCfg l thr) (wordTokens X) = .ok [occ]) :
    occTexts l thr (X ++ [sw] ++ Y) = (occTexts l thr Y).map (occ.text :: ·) := by
  obtain ⟨ob, h1, h2⟩ := sep_twice l hmem hl thr sw hsw hsk hbr X Y hX occ0 occ hdec hA0 hA
  unfold occTexts
  rw [h1, h2]
  dsimp only
  rw [List.map_cons, map_text_shift]
  rfl

/-! ## 8. the spelled cardinals of the seven languages -/

open T2N.Spec

theorem phraseOk_en (v : Var) (n : Nat) (h : n < 10 ^ 12) : PhraseOk T2N.En.lang (Spec.En.cardinal v n) n :=
  ⟨C01En.C01_validate_en v n h, EnScan.en_hws v n, EnScan.en_hfirst v n _ (C01En.C01_validate_en v n h)⟩

theorem phraseOk_fr (v : Var) (n : Nat) (h : n < 10 ^ 12) : PhraseOk T2N.Fr.lang (Spec.Fr.cardinal v n) n :=
  PhraseOk.of_valid _ C01Sent.Fr.mem_all C01Sent.Fr.hskip _ n (C01Fr.C01_validate_fr v n h) (C01Sent.Fr.first v n)

theorem phraseOk_es (v : Var) (n : Nat) (h : n < 10 ^ 12) : PhraseOk T2N.Es.lang (Spec.Es.cardinal v n) n :=
  PhraseOk.of_valid _ C01Sent.Es.mem_all C01Sent.Es.hskip _ n (C01Es.C01_validate_es v n h)
    (fun w _ => C01Sent.Es.first w)

theorem phraseOk_pt (v : Var) (n : Nat) (h : n < 10 ^ 12) : PhraseOk T2N.Pt.lang (Spec.Pt.cardinal v n) n :=
  PhraseOk.of_valid _ C01Sent.Pt.mem_all C01Sent.Pt.hskip _ n (C01Pt.C01_validate_pt v n h)
    (fun w _ => C01Sent.Pt.first w)

theorem phraseOk_it (v : Var) (n : Nat) (h : n < 10 ^ 12) : PhraseOk T2N.It.lang (Spec.It.cardinal v n) n :=
  PhraseOk.of_valid _ C01Sent.It.mem_all C01Sent.It.hskip _ n (C01It.C01_validate_it v n h) (C01Sent.It.first v n h)

theorem phraseOk_de (v : Var) (n : Nat) (h : n < 10 ^ 12)
    (hv : flag v (cp 2 5) = true ∧ flag v (cp 3 5) = true) : PhraseOk T2N.De.lang (Spec.De.cardinal v n) n :=
  PhraseOk.of_valid _ C01Sent.De.mem_all C01Sent.De.hskip _ n (C01De.C01_validate_de v n h hv)
    (C01Sent.De.first v n h hv)

theorem phraseOk_nl (v : Var) (n : Nat) (h : n < 10 ^ 12) : PhraseOk T2N.Nl.lang (Spec.Nl.cardinal v n) n :=
  PhraseOk.of_valid _ C01Sent.Nl.mem_all C01Sent.Nl.hskip _ n (C01Nl.C01_validate_nl v n h) (C01Sent.Nl.first v n h)

end T2N.SepAlone
