/-
  T2N.Lemmas.C01De — the unbounded cardinal round-trip for German (property C01):
  for every `n < 10^12` and every variant function `v` with the `ein` value of `ein(e) Million / Milliarde`
  (`flag v (cp 2 5) ∧ flag v (cp 3 5)`; the `eine` value is a known defect of the library, see
  `C01_de_eine_million_rejected`), validating `Spec.De.cardinal v n` with the model of the German
  interpreter yields the decimal digits of `n` — at all four split levels, with every glue option.

  Part A (`C01DeA`): word-step lemmas on the builder including `flags` (frame form) and the FLAT
  interpretation of the atoms (`group_steps`, `scaled_steps`, `cardinalAtoms_steps`), generic in the fuel.
  Part S (`C01DeS`): the leftmost-longest splitter returns the atoms of a compound (`splitWord_chain`).
  Here:
  * `chunk_apply`: a compound word = its atoms interpreted on a fresh builder, merged with `put` (`put_lsb`);
  * `render_closed`, `render_end`: a run of atoms without a cut boundary is rendered as one word;
  * `RS`, `REnd`, `RSβ`: rendering + interpretation of a piece of the spelling; `chunk_RSβ`;
  * `hs_RS`, `bl_RSβ`, `group_RSβ` (levels 2, 3 piecewise; levels 0, 1 the group is one compound),
    `scaledM_RS`, `scaled1_RS`, `low_REnd0`, `low_REnd`, `cardinal_REnd`;
  * `C01_validate_de`.
-/
import T2N.Lemmas.C01DeA
import T2N.Lemmas.C01DeS

namespace T2N.C01De
open T2N T2N.DS T2N.Spec T2N.C01En

/-! ## merging the digits of a compound into the outer builder -/

theorem lsb_lt_pow (G : Nat) : G < 10 ^ (lsb G).length := by
  induction G using Nat.strongRecOn with
  | ind G ih =>
    by_cases h : G = 0
    · subst h; rw [lsb_zero]; decide
    · rw [lsb_pos h, List.length_cons, Nat.pow_succ]
      have := ih (G / 10) (by omega)
      omega

theorem put_lsb (N G f : Nat) (hG : G ≠ 0) (hN : N % 10 ^ (lsb G).length = 0) :
    (st N f false).put (lsb G).reverse = (none, st (N + G) f false) := by
  apply st_put
  obtain ⟨x, t, e, hx⟩ := lsb_rev_head G hG
  have hx' : (x == 0) = false := by simpa using hx
  unfold DS.put
  rw [if_neg (by simp [C01En.mk])]
  have c1 : ((C01En.mk (lsb N)).rbuf.isEmpty && (lsb G).reverse == [0]) = false := by
    rw [e]; simp [hx]
  have c2 : allZero (lsb G).reverse = false := by
    rw [e]; simp [allZero, hx]
  rw [c1, if_neg Bool.false_ne_true, c2, if_neg Bool.false_ne_true]
  by_cases hz : N = 0
  · subst hz
    rw [lsb_zero, if_pos (by rfl), Nat.zero_add, List.reverse_reverse]
    rfl
  · obtain ⟨A, rfl⟩ : ∃ A, N = 10 ^ (lsb G).length * A := ⟨N / 10 ^ (lsb G).length, by
      rw [Nat.mul_comm, Nat.div_mul_cancel (Nat.dvd_of_mod_eq_zero hN)]⟩
    have hA : A ≠ 0 := by intro h; apply hz; rw [h]; simp
    have e1 : lsb (10 ^ (lsb G).length * A) = List.replicate (lsb G).length 0 ++ lsb A := by
      rw [Nat.mul_comm, lsb_mul_pow A _ hA]
    have e2 : lsb (10 ^ (lsb G).length * A + G) = lsb G ++ lsb A := by
      rw [Nat.add_comm, lsb_add_pow _ G A hA (lsb_lt_pow G)]
      simp
    rw [e1, e2]
    show (if (List.replicate (lsb G).length 0 ++ lsb A).isEmpty = true then _ else _) = _
    rw [if_neg (by simp [lsb_ne_nil hA])]
    show (if (List.replicate (lsb G).length 0 ++ lsb A).length < (lsb G).reverse.length then _ else _) = _
    rw [if_neg (by simp)]
    show (if allZero ((List.replicate (lsb G).length 0 ++ lsb A).take (lsb G).reverse.length) = true then _ else _) = _
    rw [List.length_reverse, List.take_left' (by simp), if_pos (by simp [allZero])]
    show (none, ({ C01En.mk _ with rbuf := (lsb G).reverse.reverse ++
      (List.replicate (lsb G).length 0 ++ lsb A).drop (lsb G).length } : DS)) = _
    rw [List.reverse_reverse, List.drop_left' (by simp)]
    rfl


/-- **a compound word**: split into its atoms, interpreted on a fresh builder (value `G`), merged with `put` -/
theorem chunk_apply (c : List Word) (hc : Chain c) (h2 : 2 ≤ c.length) (G f' : Nat) (z' : Bool) (N f : Nat)
    (hG : G ≠ 0) (hrun : Steps 0 c (st 0 0 false) (st G f' z'))
    (hN : N % 10 ^ (lsb G).length = 0) (h6 : 3 < (lsb G).length → N % 10 ^ 6 = 0) :
    De.apply c.flatten (st N f false) = (none, st (N + G) f false) := by
  have hex : execGroup (De.applyFuel 1) c = .ok (st G f' z') := by
    have := hrun []
    rw [List.append_nil, st_zero] at this
    show execGroupFrom (De.applyFuel 1) c DS.new false = _
    rw [this, execGroupFrom, if_neg Bool.false_ne_true]
  rw [De.apply, De.applyFuel]
  dsimp only
  rw [lemmatize_chain hc, isSplittable_chain hc h2, if_pos rfl, splitWord_chain hc, hex]
  dsimp only
  have hcond : ((st G f' z').len > 3 && (st G f' z').len ≤ 6 && !(st N f false).rangeFree 3 5) = false := by
    by_cases h3 : 3 < (lsb G).length
    · have hN6 := h6 h3
      obtain ⟨A, rfl⟩ : ∃ A, N = 10 ^ 6 * A := ⟨N / 10 ^ 6, by
        rw [Nat.mul_comm, Nat.div_mul_cancel (Nat.dvd_of_mod_eq_zero hN6)]⟩
      have := rangeFree_lsb 3 0 A (by decide) (by decide)
      rw [Nat.zero_add] at this
      have hr : (st (10 ^ 6 * A) f false).rangeFree 3 5 = true := this
      rw [hr]; simp
    · have : ((st G f' z').len > 3) = False := by
        show ((lsb G).length + 0 > 3) = False
        simp; omega
      simp [this]
  unfold mergeGroup
  rw [hcond, if_neg Bool.false_ne_true]
  have hput : (st N f false).put (st G f' z').rbuf.reverse = (none, st (N + G) f false) := put_lsb N G f hG hN
  rw [hput]
  rfl


/-- a chunk (one rendered word) made of the atoms `c`: a single atom is applied directly, a compound
through `chunk_apply`; `h0` / `h1` are the flat interpretation of the atoms from the empty builder
(fuel 1) and from the outer state (fuel 2) -/
theorem chunk_steps (c : List Word) (hc : Chain c) (G f' : Nat) (z' : Bool) (N : Nat) (hG : G ≠ 0)
    (h0 : Steps 0 c (st 0 0 false) (st G f' z')) (h1 : Steps 1 c (st N 0 false) (st (N + G) f' z'))
    (hN : N % 10 ^ (lsb G).length = 0) (h6 : 3 < (lsb G).length → N % 10 ^ 6 = 0) :
    ∃ f₂ z₂, Steps 1 [c.flatten] (st N 0 false) (st (N + G) f₂ z₂) ∧ (f' = 0 → f₂ = 0) ∧
      (z' = false → z₂ = false) := by
  by_cases h2 : 2 ≤ c.length
  · exact ⟨0, false, Steps.single (chunk_apply c hc h2 G f' z' N 0 hG h0 hN h6), fun _ => rfl, fun _ => rfl⟩
  · obtain ⟨w, rfl⟩ : ∃ w, c = [w] := by
      cases c with
      | nil => exact absurd rfl hc.ne_nil
      | cons w t =>
        cases t with
        | nil => exact ⟨w, rfl⟩
        | cons _ _ => simp at h2
    refine ⟨f', z', ?_, id, id⟩
    simpa using h1

/-! ## rendering -/

/-- the compound word of a list of atoms -/
def flat (as : List De.Atom) : Word := (ws as).flatten

theorem flat_nil : flat [] = [] := rfl
theorem flat_cons (a : De.Atom) (as : List De.Atom) : flat (a :: as) = a.w ++ flat as := rfl
theorem flat_append (x y : List De.Atom) : flat (x ++ y) = flat x ++ flat y := by
  unfold flat; rw [ws_append, List.flatten_append]

/-- every boundary except possibly the last is not cut at level `L` -/
def opensInit (L : Nat) : List De.Atom → Prop
  | [] => True
  | [_] => True
  | a :: b :: rest => L < a.b ∧ opensInit L (b :: rest)

/-- all boundaries are at least `m` -/
def minB (m : Nat) (as : List De.Atom) : Prop := ∀ a ∈ as, m ≤ a.b

theorem opensInit_of_minB (L : Nat) : ∀ as : List De.Atom, minB (L + 1) as → opensInit L as
  | [], _ => trivial
  | [_], _ => trivial
  | a :: b :: rest, h =>
    ⟨h a (List.mem_cons_self ..), opensInit_of_minB L (b :: rest) (fun x hx => h x (List.mem_cons_of_mem _ hx))⟩

theorem setLastB_cons_cons (β : Nat) (a b : De.Atom) (rest : List De.Atom) :
    De.setLastB β (a :: b :: rest) = a :: De.setLastB β (b :: rest) := by
  rw [De.setLastB]
  exact fun h => List.cons_ne_nil _ _ h

theorem setLastB_ne_nil (β : Nat) (as : List De.Atom) (h : as ≠ []) : De.setLastB β as ≠ [] := by
  intro e
  have : (De.setLastB β as).isEmpty = as.isEmpty := setLastB_isEmpty β _
  rw [e] at this
  cases as with
  | nil => exact h rfl
  | cons _ _ => simp at this

theorem opensInit_setLastB (L β : Nat) : ∀ as : List De.Atom, opensInit L as → opensInit L (De.setLastB β as)
  | [], _ => trivial
  | [_], _ => trivial
  | a :: b :: rest, h => by
    have ih := opensInit_setLastB L β (b :: rest) h.2
    rw [setLastB_cons_cons]
    obtain ⟨c, t, hs⟩ := List.exists_cons_of_ne_nil (setLastB_ne_nil β (b :: rest) (List.cons_ne_nil _ _))
    rw [hs] at ih ⊢
    exact ⟨h.1, ih⟩

theorem opensInit_snoc (L : Nat) (a : De.Atom) : ∀ as : List De.Atom, minB (L + 1) as → opensInit L (as ++ [a])
  | [], _ => trivial
  | [x], h => ⟨h x (List.mem_cons_self ..), trivial⟩
  | x :: y :: rest, h =>
    ⟨h x (List.mem_cons_self ..), opensInit_snoc L a (y :: rest) (fun b hb => h b (List.mem_cons_of_mem _ hb))⟩

theorem flat_setLastB (β : Nat) (as : List De.Atom) : flat (De.setLastB β as) = flat as := by
  unfold flat; rw [ws_setLastB]

theorem setLastB_append (β : Nat) (x y : List De.Atom) (hy : y ≠ []) :
    De.setLastB β (x ++ y) = x ++ De.setLastB β y := by
  induction x with
  | nil => rfl
  | cons a x ih =>
    cases hxy : x ++ y with
    | nil =>
      have := List.append_eq_nil_iff.mp hxy
      exact absurd this.2 hy
    | cons c t =>
      rw [List.cons_append, hxy, setLastB_cons_cons, ← hxy, ih]
      rfl

theorem setLastB_setLastB (β γ : Nat) : ∀ as : List De.Atom, De.setLastB β (De.setLastB γ as) = De.setLastB β as
  | [] => rfl
  | [_] => rfl
  | a :: b :: rest => by
    have ih := setLastB_setLastB β γ (b :: rest)
    rw [setLastB_cons_cons γ, setLastB_cons_cons β]
    obtain ⟨c, t, e⟩ := List.exists_cons_of_ne_nil (setLastB_ne_nil γ (b :: rest) (List.cons_ne_nil _ _))
    rw [e] at ih ⊢
    rw [setLastB_cons_cons, ih]

/-- a chunk whose last boundary is cut: one word -/
theorem render_closed (L β : Nat) (hβ : β ≤ L) : ∀ (P : List De.Atom) (rest : List De.Atom) (cur : Word),
    P ≠ [] → opensInit L P →
    De.render L (De.setLastB β P ++ rest) cur = (cur ++ flat P) :: De.render L rest []
  | [], _, _, h, _ => absurd rfl h
  | [a], rest, cur, _, _ => by
    show De.render L ({ a with b := β } :: rest) cur = _
    rw [De.render, if_pos hβ]
    simp [flat, ws]
  | a :: b :: t, rest, cur, _, ho => by
    rw [setLastB_cons_cons, List.cons_append, De.render, if_neg (by have := ho.1; omega),
      render_closed L β hβ (b :: t) rest _ (List.cons_ne_nil _ _) ho.2, flat_cons, List.append_assoc]
    rfl

/-- a chunk at the end of the text: one word -/
theorem render_end (L : Nat) : ∀ (P : List De.Atom) (cur : Word),
    P ≠ [] → opensInit L P → cur ++ flat P ≠ [] → De.render L P cur = [cur ++ flat P]
  | [], _, h, _, _ => absurd rfl h
  | [a], cur, _, _, hne => by
    have e : flat [a] = a.w := by simp [flat, ws]
    rw [e] at hne ⊢
    rw [De.render]
    by_cases hb : a.b ≤ L
    · rw [if_pos hb]; rfl
    · rw [if_neg hb, De.render, if_neg (by simpa using hne)]
  | a :: b :: t, cur, _, ho, hne => by
    rw [flat_cons, ← List.append_assoc] at hne
    rw [De.render, if_neg (by have := ho.1; omega),
      render_end L (b :: t) _ (List.cons_ne_nil _ _) ho.2 hne, flat_cons, List.append_assoc]
    rfl


/-! ## rendering + interpretation of pieces of the spelling -/

/-- the atoms `P`, rendered at level `L` from an empty pending word and followed by anything, give the
words `W` (then the rendering of the rest); interpreting `W` leads from `b` to `b'` -/
def RS (L : Nat) (P : List De.Atom) (b b' : DS) : Prop :=
  ∃ W, (P ≠ [] → W ≠ []) ∧ (∀ rest, De.render L (P ++ rest) [] = W ++ De.render L rest []) ∧ Steps 1 W b b'

/-- the same for a piece that ends the text -/
def REnd (L : Nat) (P : List De.Atom) (b b' : DS) : Prop :=
  ∃ W, (P ≠ [] → W ≠ []) ∧ De.render L P [] = W ∧ Steps 1 W b b'

/-- a piece whose last boundary is either reset to a boundary that is cut, or ends the text -/
def RSβ (L : Nat) (P : List De.Atom) (b b' : DS) : Prop :=
  (∀ β, β ≤ L → RS L (De.setLastB β P) b b') ∧ REnd L P b b'

theorem RS.nil (L : Nat) (b : DS) : RS L [] b b :=
  ⟨[], fun h => absurd rfl h, fun _ => rfl, Steps.nil 1 b⟩

theorem RS.append {L : Nat} {P Q : List De.Atom} {b b' b'' : DS} (h1 : RS L P b b') (h2 : RS L Q b' b'') :
    RS L (P ++ Q) b b'' := by
  obtain ⟨W1, n1, r1, s1⟩ := h1
  obtain ⟨W2, n2, r2, s2⟩ := h2
  refine ⟨W1 ++ W2, fun h => ?_, fun rest => ?_, Steps.append s1 s2⟩
  · by_cases hP : P = []
    · subst hP
      have := n2 (by simpa using h)
      simp [this]
    · have := n1 hP
      simp [this]
  · rw [List.append_assoc, r1, r2, List.append_assoc]

theorem RS.toEnd {L : Nat} {P : List De.Atom} {b b' : DS} (h : RS L P b b') : REnd L P b b' := by
  obtain ⟨W, n, r, s⟩ := h
  refine ⟨W, n, ?_, s⟩
  have := r []
  rw [List.append_nil] at this
  rw [this]
  simp [De.render]

theorem RS.append_end {L : Nat} {P Q : List De.Atom} {b b' b'' : DS} (h1 : RS L P b b') (h2 : REnd L Q b' b'') :
    REnd L (P ++ Q) b b'' := by
  obtain ⟨W1, n1, r1, s1⟩ := h1
  obtain ⟨W2, n2, r2, s2⟩ := h2
  refine ⟨W1 ++ W2, fun h => ?_, by rw [r1, r2], Steps.append s1 s2⟩
  by_cases hP : P = []
  · subst hP
    have := n2 (by simpa using h)
    simp [this]
  · have := n1 hP
    simp [this]

theorem RS.appendβ {L : Nat} {P Q : List De.Atom} {b b' b'' : DS} (h1 : RS L P b b') (h2 : RSβ L Q b' b'')
    (hQ : Q ≠ []) : RSβ L (P ++ Q) b b'' := by
  refine ⟨fun β hβ => ?_, RS.append_end h1 h2.2⟩
  rw [setLastB_append β P Q hQ]
  exact RS.append h1 (h2.1 β hβ)

/-- a single atom whose boundary is cut -/
theorem RS.atom {L : Nat} {a : De.Atom} {b b' : DS} (hb : a.b ≤ L) (h : De.applyFuel 2 a.w b = (none, b')) :
    RS L [a] b b' := by
  refine ⟨[a.w], fun _ => List.cons_ne_nil _ _, fun rest => ?_, Steps.single h⟩
  rw [List.singleton_append, De.render, if_pos hb]
  rfl

/-- a chunk: atoms that are rendered as one word -/
theorem RSβ.chunk {L : Nat} {P : List De.Atom} {b b' : DS} (hP : P ≠ []) (ho : opensInit L P)
    (hne : flat P ≠ []) (h : Steps 1 [flat P] b b') : RSβ L P b b' := by
  constructor
  · intro β hβ
    refine ⟨[flat P], fun _ => List.cons_ne_nil _ _, fun rest => ?_, h⟩
    rw [render_closed L β hβ P rest [] hP ho]
    rfl
  · refine ⟨[flat P], fun _ => List.cons_ne_nil _ _, ?_, h⟩
    rw [render_end L P [] hP ho (by simpa using hne)]
    rfl

/-- `und` as a word of its own, followed by the piece `Q` -/
theorem RS.und {L γ : Nat} {Q : List De.Atom} {N f : Nat} {b' : DS} (hγ : γ ≤ L)
    (h : RS L Q (st N 0 false) b') (hQ : Q ≠ []) : RS L (⟨w!"und", γ⟩ :: Q) (st N f false) b' := by
  obtain ⟨W, n, r, s⟩ := h
  refine ⟨w!"und" :: W, fun _ => List.cons_ne_nil _ _, fun rest => ?_, Steps.und s (n hQ)⟩
  rw [List.cons_append, De.render, if_pos hγ, r]
  rfl

theorem REnd.und {L γ : Nat} {Q : List De.Atom} {N f : Nat} {b' : DS} (hγ : γ ≤ L)
    (h : REnd L Q (st N 0 false) b') (hQ : Q ≠ []) : REnd L (⟨w!"und", γ⟩ :: Q) (st N f false) b' := by
  obtain ⟨W, n, r, s⟩ := h
  refine ⟨w!"und" :: W, fun _ => List.cons_ne_nil _ _, ?_, Steps.und s (n hQ)⟩
  rw [De.render, if_pos hγ, r]
  rfl

theorem RSβ.und {L γ : Nat} {Q : List De.Atom} {N f : Nat} {b' : DS} (hγ : γ ≤ L)
    (h : RSβ L Q (st N 0 false) b') (hQ : Q ≠ []) : RSβ L (⟨w!"und", γ⟩ :: Q) (st N f false) b' := by
  refine ⟨fun β hβ => ?_, REnd.und hγ h.2 hQ⟩
  have e : De.setLastB β (⟨w!"und", γ⟩ :: Q) = ⟨w!"und", γ⟩ :: De.setLastB β Q :=
    setLastB_append β [⟨w!"und", γ⟩] Q hQ
  rw [e]
  exact RS.und hγ (h.1 β hβ) (setLastB_ne_nil β Q hQ)


/-! ## the compounds of the speller are chains -/

theorem mem_unit (one : Word) (zwo : Bool) (r : Nat) (hone : one = w!"ein" ∨ one = w!"eins") (h0 : r ≠ 0)
    (h1 : r < 20) : De.unitWord one zwo r ∈ gaps := by
  by_cases hr : r = 1
  · subst hr
    have e : De.unitWord one zwo 1 = one := rfl
    rw [e]
    rcases hone with rfl | rfl <;> decide
  · rw [unitWord_ne_one one zwo r hr]
    have : r = 2 ∨ r = 3 ∨ r = 4 ∨ r = 5 ∨ r = 6 ∨ r = 7 ∨ r = 8 ∨ r = 9 ∨ r = 10 ∨ r = 11 ∨ r = 12 ∨ r = 13 ∨
      r = 14 ∨ r = 15 ∨ r = 16 ∨ r = 17 ∨ r = 18 ∨ r = 19 := by omega
    rcases this with rfl | rfl | rfl | rfl | rfl | rfl | rfl | rfl | rfl | rfl | rfl | rfl | rfl | rfl | rfl |
      rfl | rfl | rfl <;> cases zwo <;> decide

theorem mem_tens (v : Var) (g t : Nat) (h2 : 2 ≤ t) (h9 : t < 10) : De.tensWord v g t ∈ gaps := by
  unfold De.tensWord
  have : t = 2 ∨ t = 3 ∨ t = 4 ∨ t = 5 ∨ t = 6 ∨ t = 7 ∨ t = 8 ∨ t = 9 := by omega
  rcases this with rfl | rfl | rfl | rfl | rfl | rfl | rfl | rfl <;> cases flag v (cp g 0) <;> decide

theorem und_mem : w!"und" ∈ pats3 := by decide
theorem hundert_mem : w!"hundert" ∈ pats3 := by decide
theorem tausend_mem : w!"tausend" ∈ pats3 := by decide

theorem chain_bl (v : Var) (g r : Nat) (one : Word) (hone : one = w!"ein" ∨ one = w!"eins") (h0 : r ≠ 0)
    (h1 : r < 100) : Chain (ws (De.below100 v g r one)) := by
  by_cases h20 : r < 20
  · rw [below100_lt20 v g r one h20]
    exact Chain.gap1 (mem_unit one _ r hone h0 h20)
  · by_cases hu : r % 10 = 0
    · rw [below100_tens v g r one h20 hu]
      exact Chain.gap1 (mem_tens v g (r / 10) (by omega) (by omega))
    · rw [below100_comp v g r one h20 hu]
      exact Chain.gapc (mem_unit _ _ (r % 10) (Or.inl rfl) hu (by omega)) und_mem
        (Chain.patc und_mem (Chain.gap1 (mem_tens v g (r / 10) (by omega) (by omega))))

theorem chain_hs (v : Var) (g h : Nat) (first : Bool) (h0 : h ≠ 0) (h9 : h < 10) :
    Chain (ws (hsA v g h first)) ∧ ∀ hne : ws (hsA v g h first) ≠ [], (ws (hsA v g h first)).getLast hne ∈ pats3 := by
  unfold hsA
  rw [if_neg (by simpa using h0)]
  split
  · exact ⟨Chain.pat1 hundert_mem, fun _ => hundert_mem⟩
  · exact ⟨Chain.gapc (mem_unit _ _ h (Or.inl rfl) h0 (by omega)) hundert_mem (Chain.pat1 hundert_mem),
      fun _ => hundert_mem⟩

theorem chain_group (v : Var) (g n : Nat) (first : Bool) (one : Word) (hone : one = w!"ein" ∨ one = w!"eins")
    (n0 : n ≠ 0) (n1 : n < 1000) : Chain (ws (De.group v g n first one)) := by
  rw [group_eq, ws_append, ws_append]
  by_cases hr : n % 100 = 0
  · have hl : linkA v g (n / 100) (n % 100) = [] := by
      unfold linkA; rw [if_neg (by simp [hr])]
    have hb : blA v g (n % 100) one = [] := by
      unfold blA; rw [if_pos (by simp [hr])]
    rw [hl, hb]
    simpa [ws] using (chain_hs v g (n / 100) first (by omega) (by omega)).1
  · have hb : blA v g (n % 100) one = De.below100 v g (n % 100) one := by
      unfold blA; rw [if_neg (by simp [hr])]
    rw [hb]
    have cb := chain_bl v g (n % 100) one hone hr (by omega)
    have cx : Chain (ws (linkA v g (n / 100) (n % 100)) ++ ws (De.below100 v g (n % 100) one)) := by
      unfold linkA
      split
      · exact Chain.append_last (Chain.pat1 und_mem) (fun _ => und_mem) cb
      · exact cb
    by_cases hh : n / 100 = 0
    · have : hsA v g (n / 100) first = [] := by unfold hsA; rw [if_pos (by simp [hh])]
      rw [this]
      exact cx
    · obtain ⟨ch, hlast⟩ := chain_hs v g (n / 100) first hh (by omega)
      rw [List.append_assoc]
      exact Chain.append_last ch hlast cx


/-! ## boundaries inside a group are at least 2 -/

theorem minB_append {m : Nat} {x y : List De.Atom} (hx : minB m x) (hy : minB m y) : minB m (x ++ y) := by
  intro a ha
  rcases List.mem_append.mp ha with h | h
  · exact hx a h
  · exact hy a h

theorem minB_nil (m : Nat) : minB m [] := fun _ h => by simp at h

theorem minB_setLastB {m β : Nat} (hβ : m ≤ β) : ∀ as : List De.Atom, minB m as → minB m (De.setLastB β as)
  | [], _ => minB_nil m
  | [_], _ => fun a ha => by
    simp only [De.setLastB, List.mem_singleton] at ha
    rw [ha]; exact hβ
  | x :: y :: rest, h => by
    rw [setLastB_cons_cons]
    intro a ha
    rcases List.mem_cons.mp ha with rfl | h'
    · exact h a (List.mem_cons_self ..)
    · exact minB_setLastB hβ (y :: rest) (fun b hb => h b (List.mem_cons_of_mem _ hb)) a h'

theorem minB_mono {m m' : Nat} (h : m' ≤ m) {as : List De.Atom} (ha : minB m as) : minB m' as :=
  fun a hm => Nat.le_trans h (ha a hm)

theorem minB_below100 (v : Var) (g r : Nat) (one : Word) : minB 3 (De.below100 v g r one) := by
  intro a ha
  unfold De.below100 at ha
  dsimp only at ha
  split at ha
  · simp only [List.mem_singleton] at ha; rw [ha]; exact Nat.le_refl 3
  · split at ha
    · simp only [List.mem_singleton] at ha; rw [ha]; exact Nat.le_refl 3
    · simp only [List.mem_cons, List.not_mem_nil, or_false] at ha
      rcases ha with rfl | rfl | rfl <;> exact Nat.le_refl 3

theorem minB_hsA (v : Var) (g h : Nat) (first : Bool) : minB 2 (hsA v g h first) := by
  intro a ha
  unfold hsA at ha
  split at ha
  · simp at ha
  · split at ha
    · simp only [List.mem_singleton] at ha; rw [ha]; exact Nat.le_refl 2
    · simp only [List.mem_cons, List.not_mem_nil, or_false] at ha
      rcases ha with rfl | rfl
      · dsimp only; split <;> decide
      · exact Nat.le_refl 2

theorem minB_linkA (v : Var) (g h r : Nat) : minB 2 (linkA v g h r) := by
  intro a ha
  unfold linkA at ha
  split at ha
  · simp only [List.mem_singleton] at ha; rw [ha]; exact Nat.le_refl 2
  · simp at ha

theorem minB_group (v : Var) (g n : Nat) (first : Bool) (one : Word) : minB 2 (De.group v g n first one) := by
  rw [group_eq]
  refine minB_append (minB_append (minB_hsA v g _ first) (minB_linkA v g _ _)) ?_
  unfold blA
  split
  · exact minB_nil 2
  · exact minB_mono (m := 3) (by decide) (minB_below100 v g _ one)


/-! ## chunks of atoms -/

theorem mod_pow_of_le {k q N : Nat} (hk : k ≤ q) (h : N % 10 ^ q = 0) : N % 10 ^ k = 0 :=
  Nat.mod_eq_zero_of_dvd (Nat.dvd_trans (Nat.pow_dvd_pow 10 hk) (Nat.dvd_of_mod_eq_zero h))

theorem ws_ne_nil {P : List De.Atom} (h : ws P ≠ []) : P ≠ [] := by
  intro e; apply h; rw [e]; rfl

/-- **a chunk of atoms**: rendered as one word (last boundary cut, or end of text), interpreted as the
flat sequence of its atoms (`h0`: from the empty builder with the inner interpreter, `h1`: from the outer state) -/
theorem chunk_RSβ (L : Nat) (P : List De.Atom) (hc : Chain (ws P)) (ho : opensInit L P) (G f' : Nat) (z' : Bool)
    (N q : Nat) (hG : G ≠ 0) (hq : G < 10 ^ q) (hN : N % 10 ^ q = 0) (h6 : q ≤ 3 ∨ N % 10 ^ 6 = 0)
    (h0 : Steps 0 (ws P) (st 0 0 false) (st G f' z')) (h1 : Steps 1 (ws P) (st N 0 false) (st (N + G) f' z')) :
    ∃ f₂ z₂, RSβ L P (st N 0 false) (st (N + G) f₂ z₂) ∧ (f' = 0 → f₂ = 0) ∧ (z' = false → z₂ = false) := by
  have hlen : (lsb G).length ≤ q := lsb_length_le q G hq
  obtain ⟨f₂, z₂, hs, hf, hz⟩ := chunk_steps (ws P) hc G f' z' N hG h0 h1 (mod_pow_of_le hlen hN) (by
    intro h3
    rcases h6 with h | h
    · omega
    · exact h)
  exact ⟨f₂, z₂, RSβ.chunk (ws_ne_nil hc.ne_nil) ho hc.flatten_ne_nil hs, hf, hz⟩

/-- a single atom (any boundary): a word of its own when its boundary is cut or it ends the text -/
theorem RSβ.atom {L : Nat} {a : De.Atom} {b b' : DS} (hne : a.w ≠ []) (h : De.applyFuel 2 a.w b = (none, b')) :
    RSβ L [a] b b' := by
  have e : flat [a] = a.w := by simp [flat, ws]
  refine RSβ.chunk (List.cons_ne_nil _ _) trivial (by rw [e]; exact hne) ?_
  rw [e]
  exact Steps.single h

theorem RSβ.toRS {L β : Nat} {P : List De.Atom} {b b' : DS} (h : RSβ L P b b') (hβ : β ≤ L)
    (e : De.setLastB β P = P) : RS L P b b' := by
  have := h.1 β hβ
  rwa [e] at this


/-! ## the pieces of a group at the fine levels (2, 3) -/

theorem hsA_forms (v : Var) (g h : Nat) (first : Bool) (h0 : h ≠ 0) :
    hsA v g h first = [⟨w!"hundert", 2⟩] ∨
    hsA v g h first = [⟨De.unitWord w!"ein" (flag v (cp g 2)) h, 9⟩, ⟨w!"hundert", 2⟩] ∨
    hsA v g h first = [⟨De.unitWord w!"ein" (flag v (cp g 2)) h, 2⟩, ⟨w!"hundert", 2⟩] := by
  unfold hsA
  rw [if_neg (by simpa using h0)]
  split
  · exact Or.inl rfl
  · cases flag v (cp g 8)
    · exact Or.inr (Or.inr rfl)
    · exact Or.inr (Or.inl rfl)

theorem hs_RS (L : Nat) (hL2 : 2 ≤ L) (hL3 : L ≤ 3) (v : Var) (g h : Nat) (first : Bool) (N : Nat) (h0 : h ≠ 0)
    (h9 : h < 10) (hN : N % 1000 = 0) (hf : first = true → N = 0) :
    RSβ L (hsA v g h first) (st N 0 false) (st (N + 100 * h) 0 false) ∧
    RS L (hsA v g h first) (st N 0 false) (st (N + 100 * h) 0 false) := by
  have chunkCase : opensInit L (hsA v g h first) → De.setLastB 2 (hsA v g h first) = hsA v g h first →
      RSβ L (hsA v g h first) (st N 0 false) (st (N + 100 * h) 0 false) ∧
      RS L (hsA v g h first) (st N 0 false) (st (N + 100 * h) 0 false) := by
    intro ho e
    have s0 := hsA_steps 0 v g h first 0 h9 (by decide) (fun _ => rfl)
    rw [Nat.zero_add] at s0
    obtain ⟨f₂, z₂, hr, hf0, hz0⟩ := chunk_RSβ L (hsA v g h first) (chain_hs v g h first h0 h9).1 ho (100 * h) 0 false
      N 3 (by omega) (by omega) hN (Or.inl (Nat.le_refl 3)) s0 (hsA_steps 1 v g h first N h9 hN hf)
    rw [hf0 rfl, hz0 rfl] at hr
    exact ⟨hr, hr.toRS hL2 e⟩
  rcases hsA_forms v g h first h0 with e | e | e
  · exact chunkCase (by rw [e]; trivial) (by rw [e]; rfl)
  · exact chunkCase (by rw [e]; exact ⟨by show L < 9; omega, trivial⟩) (by rw [e]; rfl)
  · rw [e]
    have s1 := unitw_apply 1 (flag v (cp g 2)) h N 0 h0 h9 (by omega)
    have s2 := hundert_apply 1 h (N + h) 1 h0 h9 (by omega)
    have e2 : N + h + 99 * h = N + 100 * h := by omega
    rw [e2] at s2
    have r1 : RS L [(⟨De.unitWord w!"ein" (flag v (cp g 2)) h, 2⟩ : De.Atom)] (st N 0 false) (st (N + h) 1 false) :=
      RS.atom hL2 s1
    have r2 : RSβ L [(⟨w!"hundert", 2⟩ : De.Atom)] (st (N + h) 1 false) (st (N + 100 * h) 0 false) :=
      RSβ.atom (by decide) s2
    exact ⟨RS.appendβ r1 r2 (List.cons_ne_nil _ _), RS.append r1 (RS.atom hL2 s2)⟩


theorem plain_ne_nil {w : Word} {a : Act} (h : Plain w a) : w ≠ [] := by
  intro e
  have := h.2.2.1
  rw [e, show De.vocab.lookup ([] : Word) = none by decide] at this
  cases this

theorem bl_RSβ (L : Nat) (hL2 : 2 ≤ L) (hL3 : L ≤ 3) (v : Var) (g r : Nat) (one : Word) (N : Nat) (h0 : r ≠ 0)
    (h1 : r < 100) (hN : N % 100 = 0) (hone : one = w!"ein" ∨ one = w!"eins") :
    ∃ f z, RSβ L (De.below100 v g r one) (st N 0 false) (st (N + r) f z) ∧ (one = w!"ein" → z = false) := by
  have chunkCase : opensInit L (De.below100 v g r one) →
      ∃ f z, RSβ L (De.below100 v g r one) (st N 0 false) (st (N + r) f z) ∧ (one = w!"ein" → z = false) := by
    intro ho
    have s0 := below100_steps 0 v g r one 0 h0 h1 (by decide) hone
    rw [Nat.zero_add] at s0
    obtain ⟨f₂, z₂, hr, _, hz0⟩ := chunk_RSβ L (De.below100 v g r one) (chain_bl v g r one hone h0 h1) ho r _ _
      N 2 h0 (by omega) hN (Or.inl (by decide)) s0 (below100_steps 1 v g r one N h0 h1 hN hone)
    exact ⟨f₂, z₂, hr, fun h => hz0 (by rw [h]; exact blZ_ein r)⟩
  by_cases h20 : r < 20
  · exact chunkCase (by rw [below100_lt20 v g r one h20]; trivial)
  · by_cases hu : r % 10 = 0
    · exact chunkCase (by rw [below100_tens v g r one h20 hu]; trivial)
    · by_cases hL : L = 2
      · exact chunkCase (opensInit_of_minB L _ (by rw [hL]; exact minB_below100 v g r one))
      · have hL' : L = 3 := by omega
        rw [below100_comp v g r one h20 hu]
        have s1 := unitw_apply 1 (flag v (cp g 1)) (r % 10) N 0 hu (by omega) hN
        have s3 := tensw_apply 1 v g r (N + r % 10) h20 h1 (by omega)
        have e : N + r % 10 + 10 * (r / 10) = N + r := by omega
        rw [e] at s3
        have r1 : RS L [(⟨De.unitWord w!"ein" (flag v (cp g 1)) (r % 10), 3⟩ : De.Atom)] (st N 0 false)
            (st (N + r % 10) 1 false) := RS.atom (by show 3 ≤ L; omega) s1
        have r3 : RSβ L [(⟨De.tensWord v g (r / 10), 3⟩ : De.Atom)] (st (N + r % 10) 0 false) (st (N + r) 0 false) :=
          RSβ.atom (plain_ne_nil (plain_tens v g (r / 10) (by omega) (by omega))) s3
        exact ⟨0, false, RS.appendβ r1 (RSβ.und (by show 3 ≤ L; omega) r3 (List.cons_ne_nil _ _))
          (List.cons_ne_nil _ _), fun _ => rfl⟩

/-- **a group at split level 2 or 3** -/
theorem group_RSβ_fine (L : Nat) (hL2 : 2 ≤ L) (hL3 : L ≤ 3) (v : Var) (g n : Nat) (first : Bool) (one : Word)
    (N : Nat) (n0 : n ≠ 0) (n1 : n < 1000) (hN : N % 1000 = 0) (hf : first = true → N = 0)
    (hone : one = w!"ein" ∨ one = w!"eins") :
    ∃ f z, RSβ L (De.group v g n first one) (st N 0 false) (st (N + n) f z) ∧ (one = w!"ein" → z = false) := by
  rw [group_eq]
  by_cases hr : n % 100 = 0
  · have hl : linkA v g (n / 100) (n % 100) = [] := by
      unfold linkA; rw [if_neg (by simp [hr])]
    have hb : blA v g (n % 100) one = [] := by
      unfold blA; rw [if_pos (by simp [hr])]
    rw [hl, hb, List.append_nil, List.append_nil]
    have := (hs_RS L hL2 hL3 v g (n / 100) first N (by omega) (by omega) hN hf).1
    have e : N + 100 * (n / 100) = N + n := by omega
    rw [e] at this
    exact ⟨0, false, this, fun _ => rfl⟩
  · have hb : blA v g (n % 100) one = De.below100 v g (n % 100) one := by
      unfold blA; rw [if_neg (by simp [hr])]
    rw [hb]
    obtain ⟨f, z, rb, hz⟩ := bl_RSβ L hL2 hL3 v g (n % 100) one (N + 100 * (n / 100)) hr (by omega) (by omega) hone
    have e : N + 100 * (n / 100) + n % 100 = N + n := by omega
    rw [e] at rb
    have hbne : De.below100 v g (n % 100) one ≠ [] := ws_ne_nil (below100_ne_nil v g (n % 100) one)
    refine ⟨f, z, ?_, hz⟩
    have rx : RSβ L (linkA v g (n / 100) (n % 100) ++ De.below100 v g (n % 100) one)
        (st (N + 100 * (n / 100)) 0 false) (st (N + n) f z) := by
      unfold linkA
      split
      · exact RSβ.und hL2 rb hbne
      · exact rb
    by_cases hh : n / 100 = 0
    · have : hsA v g (n / 100) first = [] := by unfold hsA; rw [if_pos (by simp [hh])]
      rw [this, List.nil_append]
      have e0 : N + 100 * (n / 100) = N := by omega
      rw [e0] at rx
      exact rx
    · rw [List.append_assoc]
      exact RS.appendβ (hs_RS L hL2 hL3 v g (n / 100) first N hh (by omega) hN hf).2 rx (by simp [hbne])


/-- **a group at any split level**: its rendering (last boundary cut, or end of text) adds `n` -/
theorem group_RSβ (L : Nat) (hL3 : L ≤ 3) (v : Var) (g n : Nat) (first : Bool) (one : Word)
    (N : Nat) (n0 : n ≠ 0) (n1 : n < 1000) (hN : N % 1000 = 0) (hf : first = true → N = 0)
    (hone : one = w!"ein" ∨ one = w!"eins") :
    ∃ f z, RSβ L (De.group v g n first one) (st N 0 false) (st (N + n) f z) ∧ (one = w!"ein" → z = false) := by
  by_cases hL2 : 2 ≤ L
  · exact group_RSβ_fine L hL2 hL3 v g n first one N n0 n1 hN hf hone
  · have s0 := group_steps 0 v g n first one 0 n1 (by decide) (fun _ => rfl) hone
    rw [Nat.zero_add] at s0
    obtain ⟨f₂, z₂, hr, _, hz0⟩ := chunk_RSβ L (De.group v g n first one) (chain_group v g n first one hone n0 n1)
      (opensInit_of_minB L _ (minB_mono (by omega) (minB_group v g n first one))) n _ _ N 3 n0 (by omega) hN
      (Or.inl (Nat.le_refl 3)) s0 (group_steps 1 v g n first one N n1 hN hf hone)
    exact ⟨f₂, z₂, hr, fun h => hz0 (by rw [h]; exact blZ_ein _)⟩

/-! ## the scaled groups -/

theorem ein_apply2 (N : Nat) (hN : N % 100 = 0) :
    De.applyFuel 2 w!"ein" (st N 0 false) = (none, st (N + 1) 1 false) :=
  unit_apply 1 _ 1 N 0 plain_ein (by decide) (by decide) hN

/-- million / milliarde group (always separate words) at any level -/
theorem scaledM_RS (L : Nat) (hL3 : L ≤ 3) (v : Var) (g n : Nat) (first : Bool) (N : Nat) (hg : g = 2 ∨ g = 3)
    (n1 : n < 1000) (hN : N % 10 ^ (3 * g + 3) = 0) (hf : first = true → N = 0) (hv : EinVariant v) :
    RS L (De.scaled v g n first) (st N 0 false) (st (N + n * 10 ^ (3 * g)) 0 false) := by
  have hg1 : g ≠ 1 := by omega
  have hN3 : N % 1000 = 0 := mod1000_of_pow g N hN
  by_cases hn : n = 0
  · subst hn
    rw [scaled_zero, Nat.zero_mul, Nat.add_zero]
    exact RS.nil L _
  · have hv' : flag v (cp g 5) = true := by
      rcases hg with rfl | rfl
      · exact hv.1
      · exact hv.2
    by_cases h1 : n = 1
    · subst h1
      rw [scaledM_one v g first hg1, hv']
      exact RS.append (P := [_]) (Q := [_]) (RS.atom (Nat.zero_le L) (ein_apply2 N (by omega)))
        (RS.atom (Nat.zero_le L) (scaleM_apply 1 _ g N 1 1 hg (Or.inl rfl) hN (by decide) (by decide)))
    · rw [scaledM_full v g n first hg1 hn h1]
      obtain ⟨f, z, rg, hz⟩ := group_RSβ L hL3 v g n first w!"ein" N hn n1 hN3 hf (Or.inl rfl)
      rw [hz rfl] at rg
      exact RS.append (rg.1 0 (Nat.zero_le L))
        (RS.atom (a := ⟨plW g, 0⟩) (Nat.zero_le L) (scaleM_apply 1 _ g N n f hg (Or.inr rfl) hN hn n1))


theorem chain_scaled1 (v : Var) (n : Nat) (first : Bool) (n0 : n ≠ 0) (n1 : n < 1000) :
    Chain (ws (De.scaled v 1 n first)) ∧
      ∀ hne : ws (De.scaled v 1 n first) ≠ [], (ws (De.scaled v 1 n first)).getLast hne ∈ pats3 := by
  by_cases hc : (n == 1 && first && flag v (cp 1 5)) = true
  · rw [scaled1_drop v n first hc]
    exact ⟨Chain.pat1 tausend_mem, fun _ => tausend_mem⟩
  · rw [scaled1_full v n first n0 hc, ws_append, ws_setLastB]
    refine ⟨(chain_group v 1 n first w!"ein" (Or.inl rfl) n0 n1).snoc_pat tausend_mem, fun hne => ?_⟩
    have e : (ws (De.group v 1 n first w!"ein") ++ ws [(⟨w!"tausend", 1⟩ : De.Atom)]).getLast hne = w!"tausend" :=
      List.getLast_concat
    rw [e]
    exact tausend_mem

theorem minB_scaled1 (v : Var) (n : Nat) (first : Bool) : minB 1 (De.scaled v 1 n first) := by
  by_cases hn : n = 0
  · subst hn; rw [scaled_zero]; exact minB_nil 1
  · by_cases hc : (n == 1 && first && flag v (cp 1 5)) = true
    · rw [scaled1_drop v n first hc]
      intro a ha
      simp only [List.mem_singleton] at ha
      rw [ha]; exact Nat.le_refl 1
    · rw [scaled1_full v n first hn hc]
      refine minB_append (minB_setLastB (by split <;> decide) _ (minB_mono (by decide) (minB_group v 1 n first _))) ?_
      intro a ha
      simp only [List.mem_singleton] at ha
      rw [ha]; exact Nat.le_refl 1

/-- the thousands group at the levels where `tausend` ends a word (1, 2, 3) -/
theorem scaled1_RS (L : Nat) (hL1 : 1 ≤ L) (hL3 : L ≤ 3) (v : Var) (n : Nat) (first : Bool) (N : Nat)
    (n1 : n < 1000) (hN : N % 10 ^ 6 = 0) (hf : first = true → N = 0) (hv : EinVariant v) :
    RS L (De.scaled v 1 n first) (st N 0 false) (st (N + n * 10 ^ 3) 0 false) := by
  have hN3 : N % 1000 = 0 := by omega
  by_cases hn : n = 0
  · subst hn
    rw [scaled_zero, Nat.zero_mul, Nat.add_zero]
    exact RS.nil L _
  · by_cases hc : (n == 1 && first && flag v (cp 1 5)) = true
    · rw [scaled1_drop v n first hc]
      simp only [Bool.and_eq_true, beq_iff_eq] at hc
      have hN0 : N = 0 := hf hc.1.2
      subst hN0
      rw [hc.1.1]
      have := tausend_apply_zero 1 0
      exact RS.atom (a := ⟨w!"tausend", 1⟩) hL1 (by simpa using this)
    · by_cases hβ : (if flag v (cp 1 9) then 2 else 1) ≤ L
      · rw [scaled1_full v n first hn hc]
        obtain ⟨f, z, rg, hz⟩ := group_RSβ L hL3 v 1 n first w!"ein" N hn n1 hN3 hf (Or.inl rfl)
        rw [hz rfl] at rg
        exact RS.append (rg.1 _ hβ) (RS.atom (a := ⟨w!"tausend", 1⟩) hL1 (tausend_apply 1 N n f hN hn n1))
      · -- level 1 and the multiplier glued to `tausend`: one compound
        have hfl : flag v (cp 1 9) = true := by
          cases h : flag v (cp 1 9)
          · rw [h] at hβ; exact absurd hL1 hβ
          · rfl
        have hL : L = 1 := by
          rw [hfl] at hβ
          simp only [if_true] at hβ
          omega
        have hform := scaled1_full v n first hn hc
        rw [hfl] at hform
        simp only [if_true] at hform
        have ho : opensInit L (De.scaled v 1 n first) := by
          rw [hform, hL]
          exact opensInit_snoc 1 _ _ (minB_setLastB (Nat.le_refl 2) _ (minB_group v 1 n first _))
        have s0 := scaled_steps 0 v 1 n first 0 (Or.inl rfl) n1 (by decide) (fun _ => rfl) hv
        rw [Nat.zero_add] at s0
        have hq : n * 10 ^ (3 * 1) < 10 ^ 6 := by omega
        obtain ⟨f₂, z₂, hr, hf0, hz0⟩ := chunk_RSβ L (De.scaled v 1 n first) (chain_scaled1 v n first hn n1).1 ho
          (n * 10 ^ (3 * 1)) 0 false N 6 (by omega) hq hN (Or.inr hN) s0
          (scaled_steps 1 v 1 n first N (Or.inl rfl) n1 hN hf hv)
        rw [hf0 rfl, hz0 rfl] at hr
        refine hr.toRS hL1 ?_
        rw [hform, setLastB_append _ _ _ (List.cons_ne_nil _ _)]
        rfl


/-! ## the whole number -/

/-- the units group (possibly absent) -/
def g0A (v : Var) (g0 : Nat) (first : Bool) : List De.Atom :=
  if g0 == 0 then [] else De.group v 0 g0 first w!"eins"

theorem g0A_zero (v : Var) (first : Bool) : g0A v 0 first = [] := rfl

theorem g0A_pos (v : Var) (g0 : Nat) (first : Bool) (h : g0 ≠ 0) :
    g0A v g0 first = De.group v 0 g0 first w!"eins" := by
  unfold g0A; rw [if_neg (by simpa using h)]

/-- the part below one million at level 0: one compound word -/
theorem low_REnd0 (v : Var) (g1 g0 : Nat) (f1 : Bool) (M : Nat) (h1 : g1 < 1000) (h0 : g0 < 1000)
    (hM : M % 10 ^ 6 = 0) (hf : f1 = true → M = 0) (hv : EinVariant v) :
    ∃ f z, REnd 0 (De.scaled v 1 g1 f1 ++ g0A v g0 (f1 && g1 == 0)) (st M 0 false) (st (M + g1 * 10 ^ 3 + g0) f z) := by
  have lowSteps : ∀ k N, N % 10 ^ 6 = 0 → (f1 = true → N = 0) →
      Steps k (ws (De.scaled v 1 g1 f1 ++ g0A v g0 (f1 && g1 == 0))) (st N 0 false)
        (st (N + (g1 * 10 ^ 3 + g0)) (grF g0) (blZ (g0 % 100) w!"eins")) := by
    intro k N hN hfN
    rw [ws_append]
    have s1 := scaled_steps k v 1 g1 f1 N (Or.inl rfl) h1 hN hfN hv
    by_cases hz : g0 = 0
    · subst hz
      have e1 : grF 0 = 0 := rfl
      have e2 : blZ (0 % 100) w!"eins" = false := rfl
      have e3 : N + (g1 * 10 ^ 3 + 0) = N + g1 * 10 ^ (3 * 1) := by omega
      rw [g0A_zero, e1, e2, e3]
      exact Steps.append s1 (Steps.nil k _)
    · rw [g0A_pos v g0 _ hz]
      have hf0 : (f1 && g1 == 0) = true → N + g1 * 10 ^ (3 * 1) = 0 := by
        intro h
        simp only [Bool.and_eq_true, beq_iff_eq] at h
        rw [hfN h.1, h.2]
      have s0 := group_steps k v 0 g0 (f1 && g1 == 0) w!"eins" (N + g1 * 10 ^ (3 * 1)) h0 (by omega) hf0 (Or.inr rfl)
      rw [Nat.add_assoc] at s0
      exact Steps.append s1 s0
  by_cases hz : g1 = 0 ∧ g0 = 0
  · obtain ⟨rfl, rfl⟩ := hz
    rw [scaled_zero]
    exact ⟨0, false, (RS.nil 0 _).toEnd⟩
  · have hchain : Chain (ws (De.scaled v 1 g1 f1 ++ g0A v g0 (f1 && g1 == 0))) := by
      rw [ws_append]
      by_cases hz0 : g0 = 0
      · subst hz0
        rw [g0A_zero]
        simpa [ws] using (chain_scaled1 v g1 f1 (by omega) h1).1
      · rw [g0A_pos v g0 _ hz0]
        have cg := chain_group v 0 g0 (f1 && g1 == 0) w!"eins" (Or.inr rfl) hz0 h0
        by_cases hz1 : g1 = 0
        · subst hz1
          rw [scaled_zero]
          exact cg
        · obtain ⟨c1, l1⟩ := chain_scaled1 v g1 f1 hz1 h1
          exact Chain.append_last c1 l1 cg
    have hmin : minB 1 (De.scaled v 1 g1 f1 ++ g0A v g0 (f1 && g1 == 0)) := by
      refine minB_append (minB_scaled1 v g1 f1) ?_
      unfold g0A
      split
      · exact minB_nil 1
      · exact minB_mono (by decide) (minB_group v 0 g0 _ _)
    have s0 := lowSteps 0 0 (by decide) (fun _ => rfl)
    rw [Nat.zero_add] at s0
    obtain ⟨f₂, z₂, hr, _, _⟩ := chunk_RSβ 0 _ hchain (opensInit_of_minB 0 _ hmin) (g1 * 10 ^ 3 + g0) _ _ M 6
      (by omega) (by omega) hM (Or.inr hM) s0 (lowSteps 1 M hM hf)
    rw [← Nat.add_assoc] at hr
    exact ⟨f₂, z₂, hr.2⟩

/-- the part below one million at the levels 1, 2, 3 -/
theorem low_REnd (L : Nat) (hL1 : 1 ≤ L) (hL3 : L ≤ 3) (v : Var) (g1 g0 : Nat) (f1 : Bool) (M : Nat)
    (h1 : g1 < 1000) (h0 : g0 < 1000) (hM : M % 10 ^ 6 = 0) (hf : f1 = true → M = 0) (hv : EinVariant v) :
    ∃ f z, REnd L (De.scaled v 1 g1 f1 ++ g0A v g0 (f1 && g1 == 0)) (st M 0 false) (st (M + g1 * 10 ^ 3 + g0) f z) := by
  have r1 := scaled1_RS L hL1 hL3 v g1 f1 M h1 hM hf hv
  by_cases hz : g0 = 0
  · subst hz
    rw [g0A_zero, List.append_nil]
    exact ⟨0, false, r1.toEnd⟩
  · rw [g0A_pos v g0 _ hz]
    have hf0 : (f1 && g1 == 0) = true → M + g1 * 10 ^ 3 = 0 := by
      intro h
      simp only [Bool.and_eq_true, beq_iff_eq] at h
      rw [hf h.1, h.2]
    obtain ⟨f, z, rg, _⟩ := group_RSβ L hL3 v 0 g0 (f1 && g1 == 0) w!"eins" (M + g1 * 10 ^ 3) hz h0 (by omega) hf0
      (Or.inr rfl)
    exact ⟨f, z, RS.append_end r1 rg.2⟩

theorem cardinalAtoms_eq' (v : Var) (n : Nat) :
    De.cardinalAtoms v n =
      De.scaled v 3 (n / 1000000000 % 1000) true ++ De.scaled v 2 (n / 1000000 % 1000) (n / 1000000000 % 1000 == 0) ++
        (De.scaled v 1 (n / 1000 % 1000) (n / 1000000000 % 1000 == 0 && n / 1000000 % 1000 == 0) ++
          g0A v (n % 1000) ((n / 1000000000 % 1000 == 0 && n / 1000000 % 1000 == 0) && n / 1000 % 1000 == 0)) := by
  rw [cardinalAtoms_eq, hiA_isEmpty]
  unfold hiA g0A
  rw [List.append_assoc (De.scaled v 3 _ _ ++ De.scaled v 2 _ _)]

/-- **every rendering of the cardinal** (any split level) is interpreted to the digits of `n` -/
theorem cardinal_REnd (L : Nat) (hL3 : L ≤ 3) (v : Var) (n : Nat) (h : n < 10 ^ 12) (hv : EinVariant v) :
    ∃ f z, REnd L (De.cardinalAtoms v n) (st 0 0 false) (st n f z) := by
  rw [cardinalAtoms_eq']
  obtain ⟨g3, hg3⟩ : ∃ g3, g3 = n / 1000000000 % 1000 := ⟨_, rfl⟩
  obtain ⟨g2, hg2⟩ : ∃ g2, g2 = n / 1000000 % 1000 := ⟨_, rfl⟩
  obtain ⟨g1, hg1⟩ : ∃ g1, g1 = n / 1000 % 1000 := ⟨_, rfl⟩
  obtain ⟨g0, hg0⟩ : ∃ g0, g0 = n % 1000 := ⟨_, rfl⟩
  rw [← hg3, ← hg2, ← hg1, ← hg0]
  have r3 := scaledM_RS L hL3 v 3 g3 true 0 (Or.inr rfl) (by omega) (Nat.zero_mod _) (fun _ => rfl) hv
  have hf2 : (g3 == 0) = true → 0 + g3 * 10 ^ (3 * 3) = 0 := by
    intro hh
    have h0 : g3 = 0 := by simpa using hh
    rw [h0]
  have r2 := scaledM_RS L hL3 v 2 g2 (g3 == 0) (0 + g3 * 10 ^ (3 * 3)) (Or.inl rfl) (by omega) (by omega) hf2 hv
  have hf1 : (g3 == 0 && g2 == 0) = true → 0 + g3 * 10 ^ (3 * 3) + g2 * 10 ^ (3 * 2) = 0 := by
    intro hh
    simp only [Bool.and_eq_true, beq_iff_eq] at hh
    rw [hh.1, hh.2]
  have hsum : 0 + g3 * 10 ^ (3 * 3) + g2 * 10 ^ (3 * 2) + g1 * 10 ^ 3 + g0 = n := by omega
  have hlow : ∃ f z, REnd L (De.scaled v 1 g1 (g3 == 0 && g2 == 0) ++ g0A v g0 ((g3 == 0 && g2 == 0) && g1 == 0))
      (st (0 + g3 * 10 ^ (3 * 3) + g2 * 10 ^ (3 * 2)) 0 false)
      (st (0 + g3 * 10 ^ (3 * 3) + g2 * 10 ^ (3 * 2) + g1 * 10 ^ 3 + g0) f z) := by
    by_cases hL0 : L = 0
    · subst hL0
      exact low_REnd0 v g1 g0 _ _ (by omega) (by omega) (by omega) hf1 hv
    · exact low_REnd L (by omega) hL3 v g1 g0 _ _ (by omega) (by omega) (by omega) hf1 hv
  obtain ⟨f, z, rl⟩ := hlow
  rw [hsum] at rl
  exact ⟨f, z, RS.append_end (RS.append r3 r2) rl⟩

/-- **C01 for German, unbounded**: every cardinal below 10^12, in every spelling variant of the
specification (split level 0–3, glue options, `dreißig|dreissig`, `zwei|zwo`, optional `und`, dropped
leading `ein`) except the value `eine` of `eine Million / Milliarde`, validates to its decimal digits. -/
theorem C01_validate_de (v : T2N.Spec.Var) (n : Nat) (h : n < 10 ^ 12)
    (hv : flag v (cp 2 5) = true ∧ flag v (cp 3 5) = true) :
    T2N.text2digitsWords T2N.De.lang (T2N.Spec.De.cardinal v n) = .ok (T2N.Spec.decChars n) := by
  by_cases hn : n = 0
  · subst hn
    have e : decChars 0 = ['0'] := by
      unfold decChars; rw [decDigits, if_pos (by decide)]; decide
    rw [e]
    show text2digitsWords T2N.De.lang [w!"null"] = _
    decide
  · unfold De.cardinal
    rw [if_neg (by simpa using hn)]
    have hL3 : De.level v ≤ 3 := by
      unfold De.level pick
      rw [if_neg (by decide)]
      omega
    obtain ⟨f, z, W, _, hr, hs⟩ := cardinal_REnd (De.level v) hL3 v n h hv
    rw [hr]
    exact validate_of_steps W n f z hn hs


/-- the fully split spelling (split level 3: every atom its own word, except a multiplier glued to
`hundert` by the option `cp g 8`), all other axes free: special case of `C01_validate_de` -/
theorem C01_validate_de_split3 (v : T2N.Spec.Var) (n : Nat) (h : n < 10 ^ 12) (_hL : T2N.Spec.De.level v = 3)
    (hv : flag v (cp 2 5) = true ∧ flag v (cp 3 5) = true) :
    T2N.text2digitsWords T2N.De.lang (T2N.Spec.De.cardinal v n) = .ok (T2N.Spec.decChars n) :=
  C01_validate_de v n h hv

/-- the hypotheses are satisfiable; instances at the four split levels -/
example : T2N.text2digitsWords T2N.De.lang (T2N.Spec.De.cardinal (fun _ => 1) 123456789012) =
    .ok (T2N.Spec.decChars 123456789012) := C01_validate_de _ _ (by decide) (by decide)
example : T2N.text2digitsWords T2N.De.lang (T2N.Spec.De.cardinal (fun _ => 3) 999999999999) =
    .ok (T2N.Spec.decChars 999999999999) := C01_validate_de _ _ (by decide) (by decide)
example : T2N.text2digitsWords T2N.De.lang (T2N.Spec.De.cardinal (fun i => if i = 7 then 0 else 1) 1001001001) =
    .ok (T2N.Spec.decChars 1001001001) := C01_validate_de _ _ (by decide) (by decide)
example : T2N.text2digitsWords T2N.De.lang (T2N.Spec.De.cardinal (fun i => if i = 7 then 2 else 1) 21121321421) =
    .ok (T2N.Spec.decChars 21121321421) := C01_validate_de _ _ (by decide) (by decide)
example : T2N.Spec.De.level (fun _ => 3) = 3 := by decide

/-- the restriction on `cp 2 5` / `cp 3 5` is necessary: the standard form `eine Million` is rejected
(known defect of the library) -/
theorem C01_de_eine_million_rejected :
    T2N.text2digitsWords T2N.De.lang (T2N.Spec.De.cardinal (fun _ => 0) 1000000) = .err .nan := by decide

end T2N.C01De
