/-
  T2N.Lemmas.PairsFr — the C08 pair rule for French, for ALL pairs `(a, b) ∈ [0,99]²` and both joiners
  (nothing / `et`): the scanner (threshold 0) on `std a (et) std b` finds exactly `expected a b cj`, i.e. the fused
  number `fused a b cj` when the words are a spelling of one number, `0b` when `a` is a spoken zero directly before
  `b`, and otherwise both numbers, in order. Every fusion is a spelling of the fused number (`fused_is_spelling`).

  Structure
  * `PairsFr/Defs`   — `std`, `fused`, `expected`, `norm`, the word-level reference scanner `sim`;
  * `PairsFr/Sim`    — `scan_eq_sim`: scanner = reference scanner (structural, any phrase of ordinary words);
  * `PairsFr/Tables` — four kernel tables of 100 rows (indexed by one number, not by the pair);
  * here             — the decomposition: the state after `std a (et)` is one of
      Z  `a = 0`, no `et`: the zero attaches (`C16_scan_fr`, `C16_zeros_only_scan_fr`);
      F  `et` refused (`a < 10`, or `a` ends in `dix`): `a` emitted, fresh builder, `b` scanned on its own (`C01_scan_fr`);
      N  an open builder holding `a`: a `b` that is ONE hyphenated word is refused by every such builder
         (`comp_refused`: the `put` of its two digits overlaps) and starts a new number; the 28 other `b` are in the table.
-/
import T2N.Lemmas.PairsFr.Tables

namespace T2N.PairsFr
open T2N T2N.Spec

/-! ### the words of the phrase -/

theorem phrase_ok (a b : Nat) (ha : a < 100) (hb : b < 100) (cj : Bool) : ∀ w ∈ phrase a b cj, okW w = true := by
  intro w hw
  unfold phrase at hw
  rw [List.mem_append, List.mem_append] at hw
  rcases hw with (hw | hw) | hw
  · exact List.all_eq_true.mp (words_ok a ha) w hw
  · unfold cjl at hw
    cases cj with
    | false => exact absurd hw (by simp)
    | true =>
      have : w = Spec.Fr.conj := by simpa using hw
      rw [this]; decide
  · exact List.all_eq_true.mp (words_ok b hb) w hw

/-! ### facts about `fused` -/

theorem fused_b {a b c : Nat} {cj : Bool} (h : fused a b cj = some c) : b ≤ 16 ∨ b = 20 ∨ b = 21 := by
  unfold fused at h
  split at h
  · omega
  · split at h
    · omega
    · split at h
      · omega
      · split at h
        · omega
        · split at h
          · omega
          · exact absurd h (by simp)

theorem atom_small : ∀ b, b < 22 → (b ≤ 16 ∨ b = 20 ∨ b = 21) → isAtomB b = true := by decide

theorem fused_atom {a b c : Nat} {cj : Bool} (h : fused a b cj = some c) : isAtomB b = true := by
  have hb := fused_b h
  exact atom_small b (by omega) hb

theorem fused_caseF {a : Nat} (b : Nat) (h : caseF a true = true) : fused a b true = none := by
  have ha : a < 10 ∨ a = 10 ∨ a = 70 ∨ a = 90 := by
    unfold caseF at h
    simp only [Bool.true_and, Bool.or_eq_true, decide_eq_true_eq, beq_iff_eq] at h
    omega
  unfold fused
  rw [if_neg (by simp), if_neg (by simp), if_neg (by omega), if_neg (by omega), if_neg (by omega)]

theorem fused_zero (b : Nat) (cj : Bool) : fused 0 b cj = none := by
  unfold fused
  rw [if_neg (by omega), if_neg (by omega), if_neg (by omega), if_neg (by omega), if_neg (by omega)]

theorem expected_two {a b : Nat} {cj : Bool} (h : fused a b cj = none) (hz : ¬(a = 0 ∧ cj = false)) :
    expected a b cj = [decChars a, decChars b] := by
  unfold expected
  rw [h]
  dsimp only
  rw [if_neg hz]

/-! ### a number scanned on its own -/

theorem sim_std (b : Nat) (hb : b < 100) : sim (std b) = [decChars b] := by
  have h1 := scan_eq_sim (std b) (fun w hw => List.all_eq_true.mp (words_ok b hb) w hw)
  have h2 : occTexts T2N.Fr.lang zeroThr (std b) = some [decChars b] :=
    T2N.ExtFr.C01_scan_fr (tableVar 0) b (by omega)
  rw [h1] at h2
  exact Option.some.inj h2

/-! ### a hyphenated word after an open number -/

/-- the sub-builder of a hyphenated word holding two digits is refused (`Overlap`) by every builder that holds
one or two digits not both zero; the builder is unchanged -/
theorem comp_refused (bS ds : DS) (mk : Marker) (h1 : blk2 bS = true) (h2 : shape2 ds = true) :
    mergeGroup bS ds true mk = (some .overlap, bS) := by
  unfold blk2 at h1
  unfold shape2 at h2
  simp only [Bool.and_eq_true, Bool.not_eq_true', beq_iff_eq, Bool.or_eq_true, decide_eq_true_eq] at h1 h2
  obtain ⟨⟨hfr, hne⟩, hblk⟩ := h1
  obtain ⟨⟨hlen, hnz⟩, hlz⟩ := h2
  have hl : ds.len = 2 := by unfold DS.len; omega
  unfold mergeGroup
  rw [hl]
  rw [if_neg (by simp)]
  have hput : bS.put ds.rbuf.reverse = (some .overlap, bS) := by
    unfold DS.put
    rw [hfr, if_neg Bool.false_ne_true, hne, Bool.false_and, if_neg Bool.false_ne_true, hnz,
      if_neg Bool.false_ne_true, if_neg Bool.false_ne_true, List.length_reverse, hlen]
    by_cases hlt : bS.rbuf.length < 2
    · rw [if_pos hlt]
    · rw [if_neg hlt]
      rcases hblk with hblk | hblk
      · exact absurd hblk hlt
      · rw [hblk, if_neg Bool.false_ne_true]
  rw [hput]

theorem apply_comp (W : Word) (bS ds : DS) (hc : W.contains '-' = true)
    (he : execGroup (T2N.Fr.applyFuel 1) (splitOnChar '-' W) = .ok ds)
    (h1 : blk2 bS = true) (h2 : shape2 ds = true) :
    T2N.Fr.apply W bS = (some .overlap, bS) := by
  show T2N.Fr.applyFuel (1 + 1) W bS = _
  rw [T2N.Fr.applyFuel, if_pos hc, he]
  exact comp_refused bS ds ds.marker h1 h2

theorem blk2_nonempty (b : DS) (h : blk2 b = true) : b.isEmpty = false := by
  unfold blk2 at h
  simp only [Bool.and_eq_true, Bool.not_eq_true'] at h
  unfold DS.isEmpty
  rw [h.1.2, Bool.false_and]

/-! ### the reference scanner on the pair -/

theorem sim_phrase (a b : Nat) (cj : Bool) : sim (phrase a b cj) = fin (simFrom (stA a cj) (std b)) := by
  unfold sim phrase stA
  rw [simFrom_append]

theorem sim_pairs (a b : Nat) (ha : a < 100) (hb : b < 100) (cj : Bool) (hz : ¬(a = 0 ∧ cj = false)) :
    sim (phrase a b cj) = expected a b cj := by
  rw [sim_phrase]
  have hrow := rowA_ok a ha cj
  unfold rowA at hrow
  have h0 : (a == 0 && !cj) = false := by
    cases cj with
    | true => simp
    | false =>
      have : a ≠ 0 := fun h => hz ⟨h, rfl⟩
      simp [this]
  rw [h0, if_neg Bool.false_ne_true] at hrow
  cases hF : caseF a cj with
  | true =>
    -- F: `et` was refused, `a` is out, the builder is fresh
    rw [hF, if_pos rfl] at hrow
    have hcj : cj = true := by
      unfold caseF at hF
      cases cj with
      | true => rfl
      | false => simp at hF
    subst hcj
    have hst : stA a true = ([decChars a], {}) := of_decide_eq_true (by simpa using hrow)
    rw [hst, fin_simFrom_fresh, sim_std b hb, expected_two (fused_caseF b hF) (by simp)]
    rfl
  | false =>
    -- N: an open builder holds `a`
    rw [hF, if_neg Bool.false_ne_true] at hrow
    simp only [Bool.and_eq_true, beq_iff_eq, List.all_eq_true] at hrow
    obtain ⟨⟨⟨hq, hblk⟩, htxt⟩, hatoms⟩ := hrow
    cases hat : isAtomB b with
    | true =>
      have hmem : b ∈ atomBs := by
        unfold isAtomB at hat
        exact List.contains_iff_mem.mp hat
      exact hatoms b hmem
    | false =>
      have hfu : fused a b cj = none := by
        cases hf : fused a b cj with
        | none => rfl
        | some c => rw [fused_atom hf] at hat; exact absurd hat (by simp)
      rw [expected_two hfu hz]
      have hc := comp_ok b hb
      rw [hat, Bool.false_or] at hc
      unfold compOk at hc
      rcases hst : stA a cj with ⟨q, bS⟩
      rw [hst] at hq hblk htxt
      dsimp only at hq hblk htxt
      subst hq
      cases hs : std b with
      | nil => rw [hs] at hc; exact absurd hc (by simp)
      | cons W rest =>
        cases rest with
        | cons x y => rw [hs] at hc; exact absurd hc (by simp)
        | nil =>
          rw [hs] at hc
          dsimp only at hc
          cases he : execGroup (T2N.Fr.applyFuel 1) (splitOnChar '-' W) with
          | error e => rw [he] at hc; simp at hc
          | ok ds =>
            rw [he] at hc
            simp only [Bool.and_eq_true, Bool.not_eq_true', beq_iff_eq] at hc
            obtain ⟨⟨⟨⟨hcW, hsh⟩, hnone⟩, hBne⟩, hBtxt⟩ := hc
            have hap := apply_comp W bS ds hcW he hblk hsh
            have hne := blk2_nonempty bS hblk
            have hstep : stepW ([], bS) W = ([txt bS], (T2N.Fr.apply W {}).2) := by
              unfold stepW
              dsimp only
              rw [hap]
              dsimp only
              rw [hne, if_neg Bool.false_ne_true]
              rfl
            show fin (stepW ([], bS) W) = _
            rw [hstep]
            unfold fin
            dsimp only
            rw [hBne, if_neg Bool.false_ne_true, htxt, hBtxt]
            rfl

/-! ### main theorems -/

/-- **C08, pair rule (fr)**: for all `a, b < 100` and both joiners the scanner finds exactly `expected a b cj` -/
theorem C08_pairs_fr (a b : Nat) (ha : a < 100) (hb : b < 100) (cj : Bool) :
    occTexts T2N.Fr.lang zeroThr (std a ++ (if cj then [Spec.Fr.conj] else []) ++ std b) = some (expected a b cj) := by
  by_cases hz : a = 0 ∧ cj = false
  · -- Z: a spoken zero directly before `b`
    obtain ⟨h0, hcj⟩ := hz
    subst h0; subst hcj
    have hex : expected 0 b false = ['0' :: decChars b] := by
      unfold expected
      rw [fused_zero]
      dsimp only
      rw [if_pos ⟨rfl, rfl⟩]
    rw [hex]
    by_cases hb0 : b = 0
    · subst hb0
      have e : (std 0 ++ (if false = true then [Spec.Fr.conj] else []) ++ std 0) =
          List.replicate 2 Spec.Fr.zeroWord := by decide
      have e2 : ['0' :: decChars 0] = [List.replicate 2 '0'] := by
        have e0 : decDigits 0 = [0] := by rw [decDigits, if_pos (by decide)]
        unfold decChars
        rw [e0]
        rfl
      rw [e, e2]
      exact T2N.ExtFr.C16_zeros_only_scan_fr 2 (by decide)
    · have e : (std 0 ++ (if false = true then [Spec.Fr.conj] else []) ++ std b) =
          List.replicate 1 Spec.Fr.zeroWord ++ Spec.Fr.cardinal (tableVar 0) b := rfl
      rw [e]
      exact T2N.ExtFr.C16_scan_fr (tableVar 0) 1 b (by omega) (by omega)
  · have h1 := scan_eq_sim (phrase a b cj) (phrase_ok a b ha hb cj)
    rw [sim_pairs a b ha hb cj hz] at h1
    exact h1

/-- the rule in the "element of" form of the property: both numbers in order, or the leading-zero reading `0b`, or the
single number named by `fused` (which `C08_fused_is_spelling_fr` shows to be spelled by exactly those words) -/
theorem C08_pairs_shape_fr (a b : Nat) (ha : a < 100) (hb : b < 100) (cj : Bool) :
    occTexts T2N.Fr.lang zeroThr (phrase a b cj) = some [decChars a, decChars b] ∨
    (a = 0 ∧ cj = false ∧ occTexts T2N.Fr.lang zeroThr (phrase a b cj) = some ['0' :: decChars b]) ∨
    (∃ c, fused a b cj = some c ∧ occTexts T2N.Fr.lang zeroThr (phrase a b cj) = some [decChars c]) := by
  have h : occTexts T2N.Fr.lang zeroThr (phrase a b cj) = some (expected a b cj) := C08_pairs_fr a b ha hb cj
  rw [h]
  unfold expected
  cases hf : fused a b cj with
  | some c => exact Or.inr (Or.inr ⟨c, rfl, rfl⟩)
  | none =>
    dsimp only
    by_cases hz : a = 0 ∧ cj = false
    · rw [if_pos hz]; exact Or.inr (Or.inl ⟨hz.1, hz.2, rfl⟩)
    · rw [if_neg hz]; exact Or.inl rfl

/-- **every fusion is a spelling** of the fused number: after normalisation (hyphens opened, `et` dropped, plural `s`
stripped) the words of `std a ++ std b` are the words of the standard spelling of `c` -/
theorem fused_is_spelling_std (a b c : Nat) (cj : Bool) (ha : a < 100) (h : fused a b cj = some c) :
    norm (Spec.Fr.cardinal (tableVar 0) c) = norm (std a ++ std b) := by
  have hb : b < 22 := by have := fused_b h; omega
  have hr := rowS_ok a ha
  unfold rowS at hr
  rw [List.all_eq_true] at hr
  have h1 := hr b (List.mem_range.mpr hb)
  rw [List.all_eq_true] at h1
  have h2 := h1 cj (by cases cj <;> simp)
  rw [h] at h2
  exact eq_of_beq h2

theorem C08_fused_is_spelling_fr (a b c : Nat) (cj : Bool) (ha : a < 100) (_hb : b < 100) (h : fused a b cj = some c) :
    ∃ k, k < 48 ∧ norm (Spec.Fr.cardinal (tableVar k) c) = norm (std a ++ std b) :=
  ⟨0, by decide, fused_is_spelling_std a b c cj ha h⟩

/-- the fused number is below 100 and at least both parts (no hypothesis is vacuous: `fused 20 2 false = some 22`) -/
theorem fused_range (a b c : Nat) (cj : Bool) (h : fused a b cj = some c) : c < 100 ∧ a ≤ c ∧ b ≤ c := by
  unfold fused at h
  split at h
  · have : 60 + b = c := by simpa using h
    omega
  · split at h
    · have : a + b = c := by simpa using h
      omega
    · split at h
      · have : a + b = c := by simpa using h
        omega
      · split at h
        · have : a + b = c := by simpa using h
          omega
        · split at h
          · have : a + b = c := by simpa using h
            omega
          · exact absurd h (by simp)

example : fused 20 2 false = some 22 := by decide
example : fused 20 12 false = none := by decide
example : fused 20 1 false = none ∧ fused 20 1 true = some 21 := by decide
example : fused 4 20 false = some 80 ∧ fused 60 11 true = some 71 ∧ fused 80 16 false = some 96 := by decide

end T2N.PairsFr
