/-
  T2N.Lemmas.Agree — the scanner (`FindNumbers`) and the validator (`text2digits`) agree.

  While a match is open and the parser is not in decimal mode, the parser's integer builder is
  EXACTLY the builder that `execGroupFrom cfg.lang.apply` reaches from `DS.new` over the lowercase
  words of the non-skipped tokens pushed since the match was opened (`foldApply`): the words of the
  span `[mstart, mend)` (from the first to the last accepted word) followed by the words after `mend`,
  each of which was answered `Incomplete`.  When the number ends, the trailing `Incomplete` words and
  the word that was rejected have only touched the blocking flags, so the digit text of the occurrence
  is the digit text `text2digitsWords` computes for the words of the span alone.

  The language enters through the hypotheses `LangAgree` (instantiated for the seven interpreters in
  T2N/Props/C07.lean).
-/
import T2N.Lemmas.Strict
import T2N.Lemmas.LangFacts

namespace T2N

/-! ### slices of the token stream and their words -/

/-- the elements at positions `a ≤ i < b` -/
def slice {α} (l : List α) (a b : Nat) : List α := (l.drop a).take (b - a)

theorem slice_self {α} (l : List α) (a : Nat) : slice l a a = [] := by
  simp [slice]

theorem slice_append_left {α} (l r : List α) (a b : Nat) (hb : b ≤ l.length) :
    slice (l ++ r) a b = slice l a b := by
  unfold slice
  by_cases ha : a ≤ l.length
  · rw [List.drop_append_of_le_length ha]
    apply List.take_append_of_le_length
    rw [List.length_drop]; omega
  · have : b - a = 0 := by omega
    rw [this]; rfl

theorem slice_split {α} (l : List α) (a b c : Nat) (hab : a ≤ b) (hbc : b ≤ c) :
    slice l a c = slice l a b ++ slice l b c := by
  unfold slice
  have h1 : c - a = (b - a) + (c - b) := by omega
  rw [h1, List.take_add, List.drop_drop]
  have h2 : a + (b - a) = b := by omega
  rw [h2]

theorem slice_snoc {α} (l : List α) (t : α) (a : Nat) (ha : a ≤ l.length) :
    slice (l ++ [t]) a (l.length + 1) = slice l a l.length ++ [t] := by
  unfold slice
  rw [List.drop_append_of_le_length ha]
  rw [List.take_of_length_le (by simp [List.length_drop]; omega)]
  rw [List.take_of_length_le (by simp [List.length_drop])]

/-- the words the scanner hands to the parser for the tokens `ts`: the lowercase texts of the tokens
that are not skipped (`-` and white space) -/
def wordsOf (cfg : ScanCfg) (ts : List Tok) : List Word :=
  (ts.filter (fun t => !Scanner.isSkipped cfg t)).map (·.lower)

theorem wordsOf_append (cfg : ScanCfg) (xs ys : List Tok) :
    wordsOf cfg (xs ++ ys) = wordsOf cfg xs ++ wordsOf cfg ys := by
  simp [wordsOf]

/-- **the words of the span** `[a, b)` of the token stream -/
def spanWords (cfg : ScanCfg) (toks : List Tok) (a b : Nat) : List Word := wordsOf cfg (slice toks a b)

theorem spanWords_self (cfg : ScanCfg) (toks : List Tok) (a : Nat) : spanWords cfg toks a a = [] := by
  unfold spanWords; rw [slice_self]; rfl

theorem spanWords_append_left (cfg : ScanCfg) (l r : List Tok) (a b : Nat) (hb : b ≤ l.length) :
    spanWords cfg (l ++ r) a b = spanWords cfg l a b := by
  unfold spanWords; rw [slice_append_left l r a b hb]

theorem spanWords_split (cfg : ScanCfg) (l : List Tok) (a b c : Nat) (hab : a ≤ b) (hbc : b ≤ c) :
    spanWords cfg l a c = spanWords cfg l a b ++ spanWords cfg l b c := by
  unfold spanWords; rw [slice_split l a b c hab hbc, wordsOf_append]

theorem spanWords_snoc_skipped (cfg : ScanCfg) (l : List Tok) (t : Tok) (a : Nat) (ha : a ≤ l.length)
    (hs : Scanner.isSkipped cfg t = true) :
    spanWords cfg (l ++ [t]) a (l.length + 1) = spanWords cfg l a l.length := by
  unfold spanWords; rw [slice_snoc l t a ha, wordsOf_append]
  simp [wordsOf, hs]

theorem spanWords_snoc (cfg : ScanCfg) (l : List Tok) (t : Tok) (a : Nat) (ha : a ≤ l.length)
    (hs : ¬ Scanner.isSkipped cfg t = true) :
    spanWords cfg (l ++ [t]) a (l.length + 1) = spanWords cfg l a l.length ++ [t.lower] := by
  unfold spanWords; rw [slice_snoc l t a ha, wordsOf_append]
  simp [wordsOf, hs]

theorem spanWords_last (cfg : ScanCfg) (l : List Tok) (t : Tok)
    (hs : ¬ Scanner.isSkipped cfg t = true) :
    spanWords cfg (l ++ [t]) l.length (l.length + 1) = [t.lower] := by
  rw [spanWords_snoc cfg l t l.length (Nat.le_refl _) hs, spanWords_self]; rfl

/-! ### folding the interpreter over words -/

/-- apply every word and keep the returned builder whatever the status (this is what both the
scanner and `execGroupFrom` do with an accepted or `Incomplete` word) -/
def foldApply (apply : Word → DS → Res × DS) (ws : List Word) (b : DS) : DS :=
  ws.foldl (fun b w => (apply w b).2) b

/-- every word of `ws` is answered `Incomplete`; the builder reached -/
def incRun (apply : Word → DS → Res × DS) : List Word → DS → Option DS
  | [], b => some b
  | w :: ws, b =>
    match apply w b with
    | (some .incomplete, b') => incRun apply ws b'
    | _ => none

theorem execGroupFrom_cons_ok {apply : Word → DS → Res × DS} {w : Word} {b b' : DS}
    (h : apply w b = (none, b')) (ws : List Word) (inc : Bool) :
    execGroupFrom apply (w :: ws) b inc = execGroupFrom apply ws b' false := by
  simp only [execGroupFrom, h]

theorem execGroupFrom_cons_inc {apply : Word → DS → Res × DS} {w : Word} {b b' : DS}
    (h : apply w b = (some .incomplete, b')) (ws : List Word) (inc : Bool) :
    execGroupFrom apply (w :: ws) b inc = execGroupFrom apply ws b' true := by
  simp only [execGroupFrom, h]

theorem execGroupFrom_cons_err {apply : Word → DS → Res × DS} {w : Word} {b b' : DS} {e : Err}
    (h : apply w b = (some e, b')) (he : e ≠ .incomplete) (ws : List Word) (inc : Bool) :
    execGroupFrom apply (w :: ws) b inc = .error e := by
  cases e with
  | incomplete => exact absurd rfl he
  | overlap => simp only [execGroupFrom, h]
  | nan => simp only [execGroupFrom, h]
  | frozen => simp only [execGroupFrom, h]

/-- a group that validates is a prefix one can continue from -/
theorem execGroupFrom_append (apply : Word → DS → Res × DS) (ys : List Word) :
    ∀ (xs : List Word) (b b0 : DS) (inc : Bool), execGroupFrom apply xs b inc = .ok b0 →
      execGroupFrom apply (xs ++ ys) b inc = execGroupFrom apply ys b0 false := by
  intro xs
  induction xs with
  | nil =>
    intro b b0 inc h
    cases inc with
    | true => simp [execGroupFrom] at h
    | false =>
      simp only [execGroupFrom, Bool.false_eq_true, if_false] at h
      cases h; rfl
  | cons w ws ih =>
    intro b b0 inc h
    cases hr : apply w b with
    | mk r b' =>
      cases r with
      | none =>
        rw [List.cons_append, execGroupFrom_cons_ok hr]
        rw [execGroupFrom_cons_ok hr] at h
        exact ih b' b0 false h
      | some e =>
        by_cases he : e = .incomplete
        · subst he
          rw [List.cons_append, execGroupFrom_cons_inc hr]
          rw [execGroupFrom_cons_inc hr] at h
          exact ih b' b0 true h
        · rw [execGroupFrom_cons_err hr he] at h; cases h

theorem execGroupFrom_ok_fold (apply : Word → DS → Res × DS) :
    ∀ (ws : List Word) (b b0 : DS) (inc : Bool), execGroupFrom apply ws b inc = .ok b0 →
      b0 = foldApply apply ws b := by
  intro ws
  induction ws with
  | nil =>
    intro b b0 inc h
    cases inc with
    | true => simp [execGroupFrom] at h
    | false =>
      simp only [execGroupFrom, Bool.false_eq_true, if_false] at h
      cases h; rfl
  | cons w ws ih =>
    intro b b0 inc h
    cases hr : apply w b with
    | mk r b' =>
      have hf : foldApply apply (w :: ws) b = foldApply apply ws b' := by
        simp only [foldApply, List.foldl_cons, hr]
      rw [hf]
      cases r with
      | none => rw [execGroupFrom_cons_ok hr] at h; exact ih b' b0 false h
      | some e =>
        by_cases he : e = .incomplete
        · subst he; rw [execGroupFrom_cons_inc hr] at h; exact ih b' b0 true h
        · rw [execGroupFrom_cons_err hr he] at h; cases h

theorem foldApply_append (apply : Word → DS → Res × DS) (xs ys : List Word) (b : DS) :
    foldApply apply (xs ++ ys) b = foldApply apply ys (foldApply apply xs b) := by
  simp [foldApply]

theorem incRun_fold (apply : Word → DS → Res × DS) :
    ∀ (ws : List Word) (b b1 : DS), incRun apply ws b = some b1 → b1 = foldApply apply ws b := by
  intro ws
  induction ws with
  | nil => intro b b1 h; simp only [incRun] at h; cases h; rfl
  | cons w ws ih =>
    intro b b1 h
    cases hr : apply w b with
    | mk r b' =>
      have hf : foldApply apply (w :: ws) b = foldApply apply ws b' := by
        simp only [foldApply, List.foldl_cons, hr]
      rw [hf]
      cases r with
      | none => simp [incRun, hr] at h
      | some e =>
        cases e with
        | incomplete => simp only [incRun, hr] at h; exact ih b' b1 h
        | overlap => simp [incRun, hr] at h
        | nan => simp [incRun, hr] at h
        | frozen => simp [incRun, hr] at h

theorem incRun_snoc (apply : Word → DS → Res × DS) (w : Word) (b1 b2 : DS)
    (hw : apply w b1 = (some .incomplete, b2)) :
    ∀ (ys : List Word) (b0 : DS), incRun apply ys b0 = some b1 → incRun apply (ys ++ [w]) b0 = some b2 := by
  intro ys
  induction ys with
  | nil => intro b0 h; simp only [incRun] at h; cases h; simp only [List.nil_append, incRun, hw]
  | cons y ys ih =>
    intro b0 h
    cases hr : apply y b0 with
    | mk r b' =>
      cases r with
      | none => simp [incRun, hr] at h
      | some e =>
        cases e with
        | incomplete =>
          simp only [incRun, hr] at h
          simp only [List.cons_append, incRun, hr]
          exact ih b' h
        | overlap => simp [incRun, hr] at h
        | nan => simp [incRun, hr] at h
        | frozen => simp [incRun, hr] at h

/-- `Incomplete` words followed by an accepted word: the group validates -/
theorem incRun_then_ok (apply : Word → DS → Res × DS) (w : Word) (b1 b2 : DS)
    (hw : apply w b1 = (none, b2)) :
    ∀ (ys : List Word) (b0 : DS) (inc : Bool), incRun apply ys b0 = some b1 →
      execGroupFrom apply (ys ++ [w]) b0 inc = .ok b2 := by
  intro ys
  induction ys with
  | nil =>
    intro b0 inc h; simp only [incRun] at h; cases h
    rw [List.nil_append, execGroupFrom_cons_ok hw]
    simp [execGroupFrom]
  | cons y ys ih =>
    intro b0 inc h
    cases hr : apply y b0 with
    | mk r b' =>
      cases r with
      | none => simp [incRun, hr] at h
      | some e =>
        cases e with
        | incomplete =>
          simp only [incRun, hr] at h
          rw [List.cons_append, execGroupFrom_cons_inc hr]
          exact ih b' true h
        | overlap => simp [incRun, hr] at h
        | nan => simp [incRun, hr] at h
        | frozen => simp [incRun, hr] at h

theorem SameButFlags.trans {a b c : DS} (h1 : SameButFlags a b) (h2 : SameButFlags b c) :
    SameButFlags a c := by
  obtain ⟨a1, a2, a3, a4⟩ := h1
  obtain ⟨b1, b2, b3, b4⟩ := h2
  exact ⟨b1.trans a1, b2.trans a2, b3.trans a3, b4.trans a4⟩

theorem SameButFlags.isEmpty_eq {a b : DS} (h : SameButFlags a b) : b.isEmpty = a.isEmpty := by
  obtain ⟨a1, a2, _, _⟩ := h
  unfold DS.isEmpty; rw [a1, a2]

/-- `Incomplete` words leave no trace but in the flags -/
theorem incRun_same (apply : Word → DS → Res × DS)
    (herr : ∀ w b e, (apply w b).1 = some e → SameButFlags b (apply w b).2) :
    ∀ (ys : List Word) (b0 b1 : DS), incRun apply ys b0 = some b1 → SameButFlags b0 b1 := by
  intro ys
  induction ys with
  | nil => intro b0 b1 h; simp only [incRun] at h; cases h; exact SameButFlags.refl _
  | cons y ys ih =>
    intro b0 b1 h
    cases hr : apply y b0 with
    | mk r b' =>
      cases r with
      | none => simp [incRun, hr] at h
      | some e =>
        have hs : SameButFlags b0 b' := by
          have := herr y b0 e (by rw [hr])
          rw [hr] at this; exact this
        cases e with
        | incomplete =>
          simp only [incRun, hr] at h
          exact hs.trans (ih b' b1 h)
        | overlap => simp [incRun, hr] at h
        | nan => simp [incRun, hr] at h
        | frozen => simp [incRun, hr] at h

/-- the digit text does not depend on the flags (nor on `frozen`) -/
theorem formatW_same (l : Lang) {a b : DS} (h : SameButFlags a b) : l.formatW b = l.formatW a := by
  obtain ⟨h1, h2, _, h4⟩ := h
  have hr : b.render = a.render := by unfold DS.render; rw [h1, h2]
  unfold Lang.formatW renderChars
  rw [hr, h4]

/-! ### what the language must satisfy -/

/-- The facts about a language that make the scanner and the validator agree. All seven built-in
interpreters satisfy them (T2N/Props/C07.lean). -/
structure LangAgree (l : Lang) : Prop where
  /-- a rejected (or `Incomplete`) word leaves no trace but in the blocking flags -/
  err_same : ∀ w b e, (l.apply w b).1 = some e → SameButFlags b (l.apply w b).2
  /-- an accepted word leaves a number -/
  ok_nonempty : ∀ w b, (l.apply w b).1 = none → (l.apply w b).2.isEmpty = false
  /-- a word rejected (or `Incomplete`) on the fresh builder leaves the fresh builder, flags included:
  what precedes a number does not influence how it is read -/
  err_new : ∀ w e, (l.apply w DS.new).1 = some e → (l.apply w DS.new).2 = DS.new
  dec_err : ∀ w d e, (l.applyDecimal w d).1 = some e → (l.applyDecimal w d).2.isEmpty = d.isEmpty
  dec_ok : ∀ w d, (l.applyDecimal w d).1 = none → (l.applyDecimal w d).2.isEmpty = false
  /-- the forced stop `","` is rejected, and not with `Incomplete` -/
  comma_rejected : ∀ b, ∃ e, (l.apply [','] b).1 = some e ∧ e ≠ .incomplete
  /-- … and is not the decimal separator -/
  comma_not_sep : l.isDecSep [','] = false

theorem LangAgree.langOk {l : Lang} (h : LangAgree l) : LangOk l where
  apply_err := fun w b e he => (h.err_same w b e he).isEmpty_eq
  apply_ok := h.ok_nonempty

/-! ### one push of the parser = one step of `execGroupFrom` -/

/-- The three outcomes of `Parser.push` outside decimal mode: the word is accepted; the word is
refused but is the decimal separator after a cardinal (the parser answers `Incomplete` and enters
decimal mode); the word is refused (possibly `Incomplete`). In all three the integer builder becomes
the builder returned by `apply`. -/
theorem Parser.push_nondec_cases (l : Lang) (p : Parser) (w : Word) (hd : p.isDec = false) :
    (∃ b', l.apply w p.int = (none, b') ∧ p.push l w = (none, { p with int := b' })) ∨
    (∃ e b', l.apply w p.int = (some e, b') ∧ l.isDecSep w = true ∧ b'.isEmpty = false ∧
        p.push l w = (some .incomplete, { p with int := b', isDec := true })) ∨
    (∃ e b', l.apply w p.int = (some e, b') ∧ p.push l w = (some e, { p with int := b' })) := by
  unfold Parser.push
  have hnd : ¬ (p.isDec = true) := by simp [hd]
  rw [if_neg hnd]
  cases hr : l.apply w p.int with
  | mk r b' =>
    dsimp only
    cases r with
    | none =>
      refine Or.inl ⟨b', rfl, ?_⟩
      rw [if_neg (by simp)]
    | some e =>
      by_cases hc : ((some e : Res).isSome && !p.isDec && !b'.isEmpty && b'.marker.isNone && l.isDecSep w) = true
      · rw [if_pos hc]
        simp only [Option.isSome_some, hd, Bool.not_false, Bool.true_and, Bool.and_eq_true,
          Bool.not_eq_eq_eq_not, Bool.not_true] at hc
        exact Or.inr (Or.inl ⟨e, b', rfl, hc.2, hc.1.1, rfl⟩)
      · rw [if_neg hc]
        exact Or.inr (Or.inr ⟨e, b', rfl, rfl⟩)

theorem Parser.push_dec (l : Lang) (p : Parser) (w : Word) (hd : p.isDec = true) :
    p.push l w = ((l.applyDecimal w p.dec).1, { p with dec := (l.applyDecimal w p.dec).2 }) := by
  unfold Parser.push
  simp [hd]

/-- an accepted push is a `none` step of `execGroupFrom` on the integer builder -/
theorem Parser.push_ok_step (l : Lang) (p : Parser) (w : Word) (hd : p.isDec = false)
    (h : (p.push l w).1 = none) (ws : List Word) (inc : Bool) :
    (p.push l w).2.isDec = false ∧
    execGroupFrom l.apply (w :: ws) p.int inc = execGroupFrom l.apply ws (p.push l w).2.int false := by
  rcases Parser.push_nondec_cases l p w hd with ⟨b', ha, hp⟩ | ⟨e, b', ha, _, _, hp⟩ | ⟨e, b', ha, hp⟩
  · rw [hp]; exact ⟨hd, execGroupFrom_cons_ok ha ws inc⟩
  · rw [hp] at h; cases h
  · rw [hp] at h; cases h

/-- an `Incomplete` push that stays outside decimal mode is an `Incomplete` step of `execGroupFrom` -/
theorem Parser.push_inc_step (l : Lang) (p : Parser) (w : Word) (hd : p.isDec = false)
    (h : (p.push l w).1 = some .incomplete) (hd' : (p.push l w).2.isDec = false) (ws : List Word) (inc : Bool) :
    execGroupFrom l.apply (w :: ws) p.int inc = execGroupFrom l.apply ws (p.push l w).2.int true := by
  rcases Parser.push_nondec_cases l p w hd with ⟨b', ha, hp⟩ | ⟨e, b', ha, _, _, hp⟩ | ⟨e, b', ha, hp⟩
  · rw [hp] at h; cases h
  · rw [hp] at hd'; cases hd'
  · rw [hp] at h ⊢
    have : e = .incomplete := by injection h
    subst this
    exact execGroupFrom_cons_inc ha ws inc

/-- any other refusal outside decimal mode makes `execGroupFrom` fail with the same error -/
theorem Parser.push_rej_step (l : Lang) (p : Parser) (w : Word) (hd : p.isDec = false) (e : Err)
    (h : (p.push l w).1 = some e) (he : e ≠ .incomplete) (ws : List Word) (inc : Bool) :
    execGroupFrom l.apply (w :: ws) p.int inc = .error e := by
  rcases Parser.push_nondec_cases l p w hd with ⟨b', ha, hp⟩ | ⟨e', b', ha, _, _, hp⟩ | ⟨e', b', ha, hp⟩
  · rw [hp] at h; cases h
  · rw [hp] at h; injection h with h; exact absurd h.symm he
  · rw [hp] at h
    have : e' = e := by injection h
    subst this
    exact execGroupFrom_cons_err ha he ws inc

/-! ### occurrences that agree with the validator -/

/-- the occurrence has a fractional part (it was finished in decimal mode) -/
def Occ.isDecimal (o : Occ) : Prop := ∃ i f, o.value = .dec i f ∧ f ≠ []

/-- the words of the span `[a, b)` validate on their own, and produce the builder `b0` -/
def SpanOk (cfg : ScanCfg) (pre : List Tok) (a b : Nat) (b0 : DS) : Prop :=
  execGroupFrom cfg.lang.apply (spanWords cfg pre a b) DS.new false = .ok b0

/-- a non-decimal occurrence agrees with the validator: the words of its span, interpreted on their
own by `exec_group`, give a number whose text and value are those of the occurrence -/
def Good (cfg : ScanCfg) (pre : List Tok) (o : Occ) : Prop :=
  o.stop ≤ pre.length ∧
  (o.isDecimal ∨ ∃ ds, execGroup cfg.lang.apply (spanWords cfg pre o.start o.stop) = .ok ds ∧
      ds.isEmpty = false ∧ cfg.lang.formatW ds = .ok (o.text, o.value))

theorem Good.mono {cfg : ScanCfg} {pre : List Tok} {o : Occ} (h : Good cfg pre o) (r : List Tok) :
    Good cfg (pre ++ r) o := by
  obtain ⟨h1, h2⟩ := h
  refine ⟨by rw [List.length_append]; omega, ?_⟩
  rw [spanWords_append_left cfg pre r o.start o.stop h1]
  exact h2

/-- a good occurrence validates: `text2digits` on the words of the span gives the same digit text -/
theorem Good.validates {cfg : ScanCfg} {pre : List Tok} {o : Occ} (h : Good cfg pre o) :
    o.isDecimal ∨ text2digitsWords cfg.lang (spanWords cfg pre o.start o.stop) = .ok o.text := by
  rcases h.2 with hd | ⟨ds, h1, h2, h3⟩
  · exact Or.inl hd
  · right
    unfold text2digitsWords
    rw [h1]
    dsimp only
    rw [h2, h3]
    simp

/-- what is known of the parser when a number ends: it ends in decimal mode with decimals, or its
integer part is, up to the flags, what the words of the span produce on their own -/
def Wk (cfg : ScanCfg) (pre : List Tok) (p : Parser) (ms me : Nat) : Prop :=
  (p.isDec = true ∧ p.dec.isEmpty = false) ∨ ∃ b0, SpanOk cfg pre ms me b0 ∧ SameButFlags b0 p.int

theorem render_ne_nil (b : DS) (h : b.isEmpty = false) : b.render ≠ [] := by
  unfold DS.isEmpty at h
  unfold DS.render
  cases hb : b.rbuf with
  | nil =>
    rw [hb] at h
    have hz : b.lz ≠ 0 := by simpa using h
    cases hl : b.lz with
    | zero => exact absurd hl hz
    | succ k => simp [List.replicate_succ]
  | cons x xs => simp

theorem Tracker.numberEnd_mem (t : Tracker) (o : Bool) (tx : Word) (v : Value) (f : Bool) (x : Occ)
    (h : x ∈ (t.numberEnd o tx v f).queue ++ (t.numberEnd o tx v f).onHold.toList) :
    x ∈ t.queue ++ t.onHold.toList ∨ x = ⟨t.mstart, t.mend, tx, v, o⟩ := by
  unfold Tracker.numberEnd at h
  dsimp only at h
  generalize (if o = true then Kind.ordinal else Kind.cardinal) = kind at h
  by_cases hc : (t.last == kind) = true
  · rw [if_pos hc] at h
    dsimp only at h
    simp only [Option.toList, List.append_nil, List.mem_append, List.mem_singleton] at h
    rcases h with (h' | h') | h'
    · exact Or.inl (List.mem_append_left _ h')
    · left; apply List.mem_append_right
      cases hh : t.onHold with
      | none => rw [hh] at h'; cases h'
      | some p => rw [hh] at h'; simpa [Option.toList] using h'
    · exact Or.inr h'
  · rw [if_neg hc] at h
    by_cases hf : f = true
    · rw [if_pos hf] at h
      dsimp only at h
      simp only [Option.toList, List.mem_append, List.mem_singleton] at h
      rcases h with h' | h'
      · exact Or.inl (List.mem_append_left _ h')
      · exact Or.inr h'
    · rw [if_neg hf] at h
      dsimp only at h
      simp only [Option.toList, List.append_nil, List.mem_append, List.mem_singleton] at h
      rcases h with h' | h'
      · exact Or.inl (List.mem_append_left _ h')
      · exact Or.inr h'

/-- ending a number: the parser is fresh again, the match is closed at the old `mend`, and the new
occurrence agrees with the validator -/
theorem numberEnd_agree (cfg : ScanCfg) (pre : List Tok) (s s1 : Scanner)
    (hn : s.parser.hasNumber = true) (hm : s.tracker.mend ≤ pre.length)
    (hwk : Wk cfg pre s.parser s.tracker.mstart s.tracker.mend)
    (hocc : ∀ o ∈ s.tracker.queue ++ s.tracker.onHold.toList, Good cfg pre o)
    (he : s.numberEnd cfg = .ok s1) :
    s1.parser = {} ∧ s1.tracker.mstart = s.tracker.mend ∧ s1.tracker.mend = s.tracker.mend ∧
    (∀ o ∈ s1.tracker.queue ++ s1.tracker.onHold.toList, Good cfg pre o) := by
  unfold Scanner.numberEnd at he
  cases hf : s.parser.finish cfg.lang with
  | error f => rw [hf] at he; cases he
  | ok r =>
    obtain ⟨text, value⟩ := r
    rw [hf] at he
    cases he
    refine ⟨rfl, (Tracker.numberEnd_bounds _ _ _ _ _).1, (Tracker.numberEnd_bounds _ _ _ _ _).2, ?_⟩
    intro o ho
    dsimp only at ho
    rcases Tracker.numberEnd_mem _ _ _ _ _ o ho with h | h
    · exact hocc o h
    · subst h
      refine ⟨hm, ?_⟩
      dsimp only
      by_cases hc : (s.parser.isDec && !s.parser.dec.isEmpty) = true
      · -- finished in decimal mode, with decimals
        left
        unfold Parser.finish at hf
        rw [if_pos hc] at hf
        unfold Lang.formatDecimalW at hf
        have hde : s.parser.dec.isEmpty = false := by
          simp only [Bool.and_eq_true, Bool.not_eq_eq_eq_not, Bool.not_true] at hc
          exact hc.2
        split at hf
        · cases hf
        · cases hf
          exact ⟨_, _, rfl, render_ne_nil _ hde⟩
      · right
        rcases hwk with ⟨h1, h2⟩ | ⟨b0, hsp, hsame⟩
        · rw [h1, h2] at hc; exact absurd rfl hc
        · unfold Parser.finish at hf
          rw [if_neg hc] at hf
          refine ⟨b0, hsp, ?_, ?_⟩
          · rw [← hsame.isEmpty_eq]
            simpa [Parser.hasNumber] using hn
          · rw [← formatW_same cfg.lang hsame]; exact hf

/-! ### the invariant -/

/-- The agreement invariant, on the parser `p`, the open match `[ms, me)` and the decided
occurrences `os`, after the tokens `pre` have been pushed:

* no number held: the integer builder is the fresh one (flags included);
* a number held, not in decimal mode: the words of `[ms, me)` validate on their own to some `b0`, and
  the words after `me` were all answered `Incomplete` and lead from `b0` to EXACTLY the parser's builder;
* a number held, decimal mode, no decimals yet: as before, but only up to the flags (the separator
  itself was refused by `apply`);
* the decided occurrences agree with the validator. -/
def AProp (cfg : ScanCfg) (pre : List Tok) (p : Parser) (ms me : Nat) (os : List Occ) : Prop :=
  (p.hasNumber = false → p.int = DS.new) ∧
  (p.hasNumber = true → p.isDec = false →
    ∃ b0, SpanOk cfg pre ms me b0 ∧
      incRun cfg.lang.apply (spanWords cfg pre me pre.length) b0 = some p.int) ∧
  (p.hasNumber = true → p.isDec = true → p.dec.isEmpty = true →
    ∃ b0, SpanOk cfg pre ms me b0 ∧ SameButFlags b0 p.int) ∧
  (∀ o ∈ os, Good cfg pre o)

def SProp (cfg : ScanCfg) (pre : List Tok) (s : Scanner) : Prop :=
  AProp cfg pre s.parser s.tracker.mstart s.tracker.mend (s.tracker.queue ++ s.tracker.onHold.toList)

structure AInv (cfg : ScanCfg) (pre : List Tok) (s : Scanner) : Prop where
  strict : SInv s
  tr : TrInv s.tracker pre.length
  agree : SProp cfg pre s

theorem AInv.init (cfg : ScanCfg) : AInv cfg [] {} := by
  refine ⟨SInv.init, TrInv.init, ?_, ?_, ?_, ?_⟩
  · intro _; rfl
  · intro h; cases h
  · intro h; cases h
  · intro o ho; cases ho

theorem SProp.outside {cfg : ScanCfg} {pre : List Tok} {s : Scanner} (h : SProp cfg pre s) (tok : Tok) :
    SProp cfg pre (s.outside cfg tok) := by
  unfold Scanner.outside
  split
  · exact h
  · exact h

theorem SProp.setPrev {cfg : ScanCfg} {pre : List Tok} {s : Scanner} (h : SProp cfg pre s) (t : Option Tok) :
    SProp cfg pre { s with previous := t } := h

theorem length_snoc {α} (l : List α) (t : α) : (l ++ [t]).length = l.length + 1 := by simp

/-- no number is held -/
theorem AProp.closed {cfg : ScanCfg} {pre : List Tok} {p : Parser} {os : List Occ} (ms me : Nat)
    (hn : p.hasNumber = false) (hi : p.int = DS.new) (hocc : ∀ o ∈ os, Good cfg pre o) :
    AProp cfg pre p ms me os := by
  refine ⟨fun _ => hi, ?_, ?_, hocc⟩
  · intro h; rw [hn] at h; cases h
  · intro h; rw [hn] at h; cases h

/-- decimal mode with decimals: nothing is claimed -/
theorem AProp.decimals {cfg : ScanCfg} {pre : List Tok} {p : Parser} {os : List Occ} (ms me : Nat)
    (hn : p.hasNumber = true) (hd : p.isDec = true) (hde : p.dec.isEmpty = false)
    (hocc : ∀ o ∈ os, Good cfg pre o) : AProp cfg pre p ms me os := by
  refine ⟨?_, ?_, ?_, hocc⟩
  · intro h; rw [hn] at h; cases h
  · intro _ h; rw [hd] at h; cases h
  · intro _ _ h; rw [hde] at h; cases h

/-- what the invariant says when the number ends -/
theorem AProp.wk {cfg : ScanCfg} (hl : LangAgree cfg.lang) {pre : List Tok} {p : Parser} {ms me : Nat}
    {os : List Occ} (h : AProp cfg pre p ms me os) (hn : p.hasNumber = true) : Wk cfg pre p ms me := by
  obtain ⟨_, hoi, hod, _⟩ := h
  by_cases hd : p.isDec = true
  · by_cases hde : p.dec.isEmpty = true
    · exact Or.inr (hod hn hd hde)
    · exact Or.inl ⟨hd, by simpa using hde⟩
  · have hd' : p.isDec = false := by simpa using hd
    obtain ⟨b0, h1, h2⟩ := hoi hn hd'
    exact Or.inr ⟨b0, h1, incRun_same _ hl.err_same _ _ _ h2⟩

/-- a skipped token -/
theorem AProp.skip {cfg : ScanCfg} {pre : List Tok} {p : Parser} {ms me : Nat} {os : List Occ}
    (h : AProp cfg pre p ms me os) (hme : me ≤ pre.length) (tok : Tok)
    (hs : Scanner.isSkipped cfg tok = true) : AProp cfg (pre ++ [tok]) p ms me os := by
  obtain ⟨hcl, hoi, hod, hocc⟩ := h
  refine ⟨hcl, ?_, ?_, fun o ho => (hocc o ho).mono [tok]⟩
  · intro hn hd
    obtain ⟨b0, h1, h2⟩ := hoi hn hd
    refine ⟨b0, ?_, ?_⟩
    · unfold SpanOk; rw [spanWords_append_left cfg pre [tok] ms me hme]; exact h1
    · rw [length_snoc, spanWords_snoc_skipped cfg pre tok me hme hs]; exact h2
  · intro hn hd hde
    obtain ⟨b0, h1, h2⟩ := hod hn hd hde
    refine ⟨b0, ?_, h2⟩
    unfold SpanOk; rw [spanWords_append_left cfg pre [tok] ms me hme]; exact h1

theorem hasNumber_with_int (b : DS) (d : DS) (x : Bool) :
    ({ int := b, dec := d, isDec := x } : Parser).hasNumber = !b.isEmpty := rfl

/-- outside decimal mode, the token's word is answered `Incomplete` (and the parser stays outside
decimal mode) -/
theorem AProp.incomplete {cfg : ScanCfg} (hl : LangAgree cfg.lang) {pre : List Tok} {p : Parser}
    {ms me : Nat} {os : List Occ} (h : AProp cfg pre p ms me os) (hme : me ≤ pre.length) (tok : Tok)
    (hs : ¬ Scanner.isSkipped cfg tok = true) (hd : p.isDec = false) (b' : DS)
    (ha : cfg.lang.apply tok.lower p.int = (some .incomplete, b')) :
    AProp cfg (pre ++ [tok]) { p with int := b' } ms me os := by
  obtain ⟨hcl, hoi, _, hocc⟩ := h
  have hsame : SameButFlags p.int b' := by
    have := hl.err_same tok.lower p.int .incomplete (by rw [ha])
    rw [ha] at this; exact this
  have hnum : ({ p with int := b' } : Parser).hasNumber = p.hasNumber := by
    show (!b'.isEmpty) = !p.int.isEmpty
    rw [hsame.isEmpty_eq]
  refine ⟨?_, ?_, ?_, fun o ho => (hocc o ho).mono [tok]⟩
  · intro hn
    rw [hnum] at hn
    have hi := hcl hn
    rw [hi] at ha
    show b' = DS.new
    have := hl.err_new tok.lower .incomplete (by rw [ha])
    rw [ha] at this
    exact this
  · intro hn _
    rw [hnum] at hn
    obtain ⟨b0, h1, h2⟩ := hoi hn hd
    refine ⟨b0, ?_, ?_⟩
    · unfold SpanOk; rw [spanWords_append_left cfg pre [tok] ms me hme]; exact h1
    · rw [length_snoc, spanWords_snoc cfg pre tok me hme hs]
      exact incRun_snoc _ _ _ _ ha _ _ h2
  · intro _ hd'
    have : p.isDec = true := hd'
    rw [hd] at this; cases this

/-- outside decimal mode, the word is refused but is the decimal separator: decimal mode is entered -/
theorem AProp.switch {cfg : ScanCfg} (hl : LangAgree cfg.lang) {pre : List Tok} {p : Parser}
    {ms me : Nat} {os : List Occ} (h : AProp cfg pre p ms me os) (hme : me ≤ pre.length) (tok : Tok)
    (hd : p.isDec = false) (w : Word) (e : Err) (b' : DS)
    (ha : cfg.lang.apply w p.int = (some e, b')) (hne : b'.isEmpty = false) :
    AProp cfg (pre ++ [tok]) { p with int := b', isDec := true } ms me os := by
  obtain ⟨_, hoi, _, hocc⟩ := h
  have hsame : SameButFlags p.int b' := by
    have := hl.err_same w p.int e (by rw [ha])
    rw [ha] at this; exact this
  have hnp : p.hasNumber = true := by
    show (!p.int.isEmpty) = true
    rw [← hsame.isEmpty_eq, hne]; rfl
  refine ⟨?_, ?_, ?_, fun o ho => (hocc o ho).mono [tok]⟩
  · intro hn
    have : (!b'.isEmpty) = false := hn
    rw [hne] at this; cases this
  · intro _ hd'; cases hd'
  · intro _ _ _
    obtain ⟨b0, h1, h2⟩ := hoi hnp hd
    refine ⟨b0, ?_, ?_⟩
    · unfold SpanOk; rw [spanWords_append_left cfg pre [tok] ms me hme]; exact h1
    · exact (incRun_same _ hl.err_same _ _ _ h2).trans hsame

/-- decimal mode: a word that is not accepted -/
theorem AProp.decStay {cfg : ScanCfg} {pre : List Tok} {p : Parser}
    {ms me : Nat} {os : List Occ} (h : AProp cfg pre p ms me os) (hme : me ≤ pre.length) (tok : Tok)
    (hd : p.isDec = true) (d' : DS) (hde : d'.isEmpty = p.dec.isEmpty) :
    AProp cfg (pre ++ [tok]) { p with dec := d' } ms me os := by
  obtain ⟨hcl, _, hod, hocc⟩ := h
  refine ⟨hcl, ?_, ?_, fun o ho => (hocc o ho).mono [tok]⟩
  · intro _ hd'
    have : p.isDec = false := hd'
    rw [hd] at this; cases this
  · intro hn _ hde'
    have hde'' : p.dec.isEmpty = true := by rw [← hde]; exact hde'
    obtain ⟨b0, h1, h2⟩ := hod hn hd hde''
    refine ⟨b0, ?_, h2⟩
    unfold SpanOk; rw [spanWords_append_left cfg pre [tok] ms me hme]; exact h1

/-- outside decimal mode, a match is open and the token's word is accepted: the span now ends after
this token, and still validates on its own -/
theorem AProp.extend {cfg : ScanCfg} (hl : LangAgree cfg.lang) {pre : List Tok} {p : Parser}
    {ms me : Nat} {os : List Occ} (h : AProp cfg pre p ms me os) (hms : ms ≤ me) (hme : me ≤ pre.length)
    (tok : Tok) (hs : ¬ Scanner.isSkipped cfg tok = true) (hn : p.hasNumber = true) (hd : p.isDec = false)
    (b' : DS) (ha : cfg.lang.apply tok.lower p.int = (none, b')) :
    AProp cfg (pre ++ [tok]) { p with int := b' } ms (pre.length + 1) os := by
  obtain ⟨_, hoi, _, hocc⟩ := h
  have hne : b'.isEmpty = false := by
    have := hl.ok_nonempty tok.lower p.int (by rw [ha])
    rw [ha] at this; exact this
  refine ⟨?_, ?_, ?_, fun o ho => (hocc o ho).mono [tok]⟩
  · intro hn'
    have : (!b'.isEmpty) = false := hn'
    rw [hne] at this; cases this
  · intro _ _
    obtain ⟨b0, h1, h2⟩ := hoi hn hd
    refine ⟨b', ?_, ?_⟩
    · unfold SpanOk
      rw [spanWords_snoc cfg pre tok ms (by omega) hs, spanWords_split cfg pre ms me pre.length hms hme,
        List.append_assoc, execGroupFrom_append _ _ _ _ _ _ h1]
      exact incRun_then_ok _ _ _ _ ha _ _ _ h2
    · rw [length_snoc, spanWords_self]; rfl
  · intro _ hd'
    have : p.isDec = true := hd'
    rw [hd] at this; cases this

/-- no number is held and the token's word is accepted on the fresh builder: a match opens on this token -/
theorem AProp.opened {cfg : ScanCfg} (hl : LangAgree cfg.lang) {pre : List Tok} {os : List Occ}
    (hocc : ∀ o ∈ os, Good cfg pre o) (tok : Tok) (hs : ¬ Scanner.isSkipped cfg tok = true)
    (p : Parser) (hd : p.isDec = false) (ha : cfg.lang.apply tok.lower DS.new = (none, p.int)) :
    AProp cfg (pre ++ [tok]) p pre.length (pre.length + 1) os := by
  have hne : p.int.isEmpty = false := by
    have := hl.ok_nonempty tok.lower DS.new (by rw [ha])
    rw [ha] at this; exact this
  refine ⟨?_, ?_, ?_, fun o ho => (hocc o ho).mono [tok]⟩
  · intro hn'
    have : (!p.int.isEmpty) = false := hn'
    rw [hne] at this; cases this
  · intro _ _
    refine ⟨p.int, ?_, ?_⟩
    · unfold SpanOk
      rw [spanWords_last cfg pre tok hs, execGroupFrom_cons_ok ha]
      simp [execGroupFrom]
    · rw [length_snoc, spanWords_self]; rfl
  · intro _ hd'; rw [hd] at hd'; cases hd'

/-- a push on a parser that holds no number: the word is accepted on the fresh builder, or the parser
is unchanged -/
theorem Parser.push_closed (l : Lang) (hl : LangAgree l) (p : Parser) (w : Word)
    (hi : p.int = DS.new) (hd : p.isDec = false) :
    (∃ b', l.apply w DS.new = (none, b') ∧ p.push l w = (none, { int := b', dec := p.dec, isDec := false })) ∨
    (∃ e, p.push l w = (some e, p)) := by
  obtain ⟨i, d, x⟩ := p
  have hi' : i = DS.new := hi
  have hd' : x = false := hd
  subst hi' hd'
  rcases Parser.push_nondec_cases l ⟨DS.new, d, false⟩ w rfl with ⟨b', ha, hp⟩ | ⟨e, b', ha, _, hne, _⟩ | ⟨e, b', ha, hp⟩
  · exact Or.inl ⟨b', ha, hp⟩
  · have ha' : l.apply w DS.new = (some e, b') := ha
    have := (hl.err_same w DS.new e (by rw [ha'])).isEmpty_eq
    rw [ha', hne] at this
    cases this
  · have ha' : l.apply w DS.new = (some e, b') := ha
    have := hl.err_new w e (by rw [ha'])
    rw [ha'] at this
    have hb : b' = DS.new := this
    subst hb
    exact Or.inr ⟨e, hp⟩

theorem Tracker.advanced_mend (t : Tracker) (pos : Nat) : (t.advanced pos).mend = pos + 1 := rfl
theorem Tracker.advanced_queue (t : Tracker) (pos : Nat) : (t.advanced pos).queue = t.queue := rfl
theorem Tracker.advanced_onHold (t : Tracker) (pos : Nat) : (t.advanced pos).onHold = t.onHold := rfl

theorem Tracker.advanced_closed (t : Tracker) (pos : Nat) (h : t.mstart = t.mend) :
    (t.advanced pos).mstart = pos := by
  unfold Tracker.advanced
  dsimp only
  rw [if_pos (by simp [h])]

theorem Tracker.advanced_open (t : Tracker) (pos : Nat) (h : t.mstart < t.mend) :
    (t.advanced pos).mstart = t.mstart := by
  unfold Tracker.advanced
  dsimp only
  rw [if_neg (by simp; omega)]

/-- the word tested is the token's word, or the forced stop `","` while a number is held -/
theorem testWord_cases (cfg : ScanCfg) (s : Scanner) (tok : Tok) :
    Scanner.testWord cfg s tok = tok.lower ∨
    (Scanner.testWord cfg s tok = [','] ∧ s.parser.hasNumber = true) := by
  unfold Scanner.testWord
  cases s.previous with
  | none => exact Or.inl rfl
  | some prev =>
    dsimp only
    by_cases hc : (s.parser.hasNumber && cfg.sep tok prev) = true
    · rw [if_pos hc]
      simp only [Bool.and_eq_true] at hc
      exact Or.inr ⟨rfl, hc.1⟩
    · rw [if_neg hc]; exact Or.inl rfl

/-- the `Err(_)` arms of `push` -/
theorem pushRejected_agree (cfg : ScanCfg) (hl : LangAgree cfg.lang) (pre : List Tok) (s s' : Scanner)
    (tok : Tok) (hs : ¬ Scanner.isSkipped cfg tok = true) (hm : s.tracker.mend ≤ pre.length)
    (hcl : s.parser.hasNumber = false → s.parser.int = DS.new)
    (hwk : s.parser.hasNumber = true → Wk cfg pre s.parser s.tracker.mstart s.tracker.mend)
    (hocc : ∀ o ∈ s.tracker.queue ++ s.tracker.onHold.toList, Good cfg pre o)
    (he : Scanner.pushRejected cfg s pre.length tok = .ok s') : SProp cfg (pre ++ [tok]) s' := by
  unfold Scanner.pushRejected at he
  by_cases hn : s.parser.hasNumber = true
  · rw [if_pos hn] at he
    cases h1 : s.numberEnd cfg with
    | error f => rw [h1] at he; cases he
    | ok s1 =>
      rw [h1] at he
      dsimp only at he
      obtain ⟨hp1, hms1, hme1, hocc1⟩ := numberEnd_agree cfg pre s s1 hn hm (hwk hn) hocc h1
      rcases Parser.push_closed cfg.lang hl s1.parser tok.lower (by rw [hp1]; try rfl) (by rw [hp1]; try rfl) with
        ⟨b', ha, hp⟩ | ⟨e, hp⟩
      · rw [hp] at he
        simp only [Option.isNone_none, if_true] at he
        cases he
        show AProp cfg (pre ++ [tok]) _ (s1.tracker.advanced pre.length).mstart
          (s1.tracker.advanced pre.length).mend
          ((s1.tracker.advanced pre.length).queue ++ (s1.tracker.advanced pre.length).onHold.toList)
        rw [Tracker.advanced_closed _ _ (by rw [hms1, hme1]), Tracker.advanced_mend,
          Tracker.advanced_queue, Tracker.advanced_onHold]
        exact AProp.opened hl hocc1 tok hs _ rfl ha
      · rw [hp] at he
        simp only [Option.isNone_some, Bool.false_eq_true, if_false] at he
        cases he
        apply SProp.setPrev
        have hcl1 : SProp cfg (pre ++ [tok]) { s1 with parser := s1.parser } :=
          AProp.closed _ _ (by rw [hp1]; try rfl) (by rw [hp1]; try rfl) (fun o ho => (hocc1 o ho).mono [tok])
        split
        · exact hcl1
        · exact SProp.outside hcl1 tok
  · rw [if_neg hn] at he
    cases he
    apply SProp.setPrev
    apply SProp.outside
    have hn' : s.parser.hasNumber = false := by simpa using hn
    exact AProp.closed _ _ hn' (hcl hn') (fun o ho => (hocc o ho).mono [tok])

/-- the `not_a_number_part` branch of `push` -/
theorem pushNan_agree (cfg : ScanCfg) (hl : LangAgree cfg.lang) (pre : List Tok) (s s' : Scanner)
    (tok : Tok) (h : AInv cfg pre s) (he : Scanner.pushNan cfg s tok = .ok s') :
    SProp cfg (pre ++ [tok]) s' := by
  unfold Scanner.pushNan at he
  have hagree : AProp cfg pre s.parser s.tracker.mstart s.tracker.mend
      (s.tracker.queue ++ s.tracker.onHold.toList) := h.agree
  by_cases hn : s.parser.hasNumber = true
  · rw [if_pos hn] at he
    cases h1 : s.numberEnd cfg with
    | error f => rw [h1] at he; cases he
    | ok s1 =>
      rw [h1] at he
      cases he
      obtain ⟨hp1, _, _, hocc1⟩ := numberEnd_agree cfg pre s s1 hn h.tr.2.1 (hagree.wk hl hn) hagree.2.2.2 h1
      apply SProp.setPrev
      apply SProp.outside
      exact AProp.closed _ _ (by rw [hp1]; try rfl) (by rw [hp1]; try rfl) (fun o ho => (hocc1 o ho).mono [tok])
  · rw [if_neg hn] at he
    cases he
    apply SProp.setPrev
    apply SProp.outside
    have hn' : s.parser.hasNumber = false := by simpa using hn
    exact AProp.closed _ _ hn' (hagree.1 hn') (fun o ho => (hagree.2.2.2 o ho).mono [tok])

/-- **the agreement invariant is preserved by `push`** (the content) -/
theorem push_sprop (cfg : ScanCfg) (hl : LangAgree cfg.lang) (pre : List Tok) (s s' : Scanner) (tok : Tok)
    (h : AInv cfg pre s) (he : s.push cfg pre.length tok = .ok s') : SProp cfg (pre ++ [tok]) s' := by
  have hagree : AProp cfg pre s.parser s.tracker.mstart s.tracker.mend
      (s.tracker.queue ++ s.tracker.onHold.toList) := h.agree
  obtain ⟨hP, hopen, hmsme, _⟩ := h.strict
  have hme : s.tracker.mend ≤ pre.length := h.tr.2.1
  have hocc' : ∀ o ∈ s.tracker.queue ++ s.tracker.onHold.toList, Good cfg (pre ++ [tok]) o :=
    fun o ho => (hagree.2.2.2 o ho).mono [tok]
  unfold Scanner.push at he
  by_cases hs : Scanner.isSkipped cfg tok = true
  · rw [if_pos hs] at he; cases he; exact hagree.skip hme tok hs
  rw [if_neg hs] at he
  by_cases hnan : tok.nan = true
  · rw [if_pos hnan] at he; exact pushNan_agree cfg hl pre s s' tok h he
  rw [if_neg hnan] at he
  dsimp only at he
  cases hpush : s.parser.push cfg.lang (Scanner.testWord cfg s tok) with
  | mk r p' =>
  rw [hpush] at he
  dsimp only at he
  by_cases hd : s.parser.isDec = true
  · -- decimal mode: the integer part and (until a decimal is accepted) the span do not move
    have hn : s.parser.hasNumber = true := hP hd
    rw [Parser.push_dec _ _ _ hd] at hpush
    cases hpush
    have hrej : ∀ e, (cfg.lang.applyDecimal (Scanner.testWord cfg s tok) s.parser.dec).1 = some e →
        ∀ s'', Scanner.pushRejected cfg { s with parser := { s.parser with
          dec := (cfg.lang.applyDecimal (Scanner.testWord cfg s tok) s.parser.dec).2 } } pre.length tok = .ok s'' →
        SProp cfg (pre ++ [tok]) s'' := by
      intro e hr s'' he'
      apply pushRejected_agree cfg hl pre { s with parser := { s.parser with
          dec := (cfg.lang.applyDecimal (Scanner.testWord cfg s tok) s.parser.dec).2 } } s'' tok hs hme ?_ ?_
          hagree.2.2.2 he'
      · intro hn'
        have : s.parser.hasNumber = false := hn'
        rw [hn] at this; cases this
      · intro _
        by_cases hde : (cfg.lang.applyDecimal (Scanner.testWord cfg s tok) s.parser.dec).2.isEmpty = true
        · have hde' : s.parser.dec.isEmpty = true := by rw [← hl.dec_err _ _ e hr]; exact hde
          exact Or.inr (hagree.2.2.1 hn hd hde')
        · exact Or.inl ⟨hd, by simpa using hde⟩
    cases hr : (cfg.lang.applyDecimal (Scanner.testWord cfg s tok) s.parser.dec).1 with
    | none =>
      rw [hr] at he
      cases he
      exact AProp.decimals _ _ hn hd (hl.dec_ok _ _ hr) hocc'
    | some e =>
      rw [hr] at he
      cases e with
      | incomplete =>
        cases he
        exact AProp.decStay hagree hme tok hd _ (hl.dec_err _ _ _ hr)
      | overlap => exact hrej _ hr s' he
      | nan => exact hrej _ hr s' he
      | frozen => exact hrej _ hr s' he
  · have hd' : s.parser.isDec = false := by simpa using hd
    rcases Parser.push_nondec_cases cfg.lang s.parser (Scanner.testWord cfg s tok) hd' with
      ⟨b', ha, hp⟩ | ⟨e, b', ha, hsep, hne, hp⟩ | ⟨e, b', ha, hp⟩
    · -- accepted
      rw [hpush] at hp
      cases hp
      cases he
      have hw : Scanner.testWord cfg s tok = tok.lower := by
        rcases testWord_cases cfg s tok with hw | ⟨hw, _⟩
        · exact hw
        · rw [hw] at ha
          obtain ⟨e, h1, _⟩ := hl.comma_rejected s.parser.int
          rw [ha] at h1; cases h1
      rw [hw] at ha
      show AProp cfg (pre ++ [tok]) _ (s.tracker.advanced pre.length).mstart
        (s.tracker.advanced pre.length).mend
        ((s.tracker.advanced pre.length).queue ++ (s.tracker.advanced pre.length).onHold.toList)
      rw [Tracker.advanced_mend, Tracker.advanced_queue, Tracker.advanced_onHold]
      by_cases hn : s.parser.hasNumber = true
      · rw [Tracker.advanced_open _ _ (hopen.mp hn)]
        exact hagree.extend hl hmsme hme tok hs hn hd' b' ha
      · have hn' : s.parser.hasNumber = false := by simpa using hn
        have heq : s.tracker.mstart = s.tracker.mend := by
          have : ¬ s.tracker.mstart < s.tracker.mend := fun hlt => hn (hopen.mpr hlt)
          omega
        rw [Tracker.advanced_closed _ _ heq]
        rw [hagree.1 hn'] at ha
        exact AProp.opened hl hagree.2.2.2 tok hs _ hd' ha
    · -- refused, but the decimal separator: decimal mode
      rw [hpush] at hp
      cases hp
      cases he
      exact hagree.switch hl hme tok hd' _ e b' ha hne
    · rw [hpush] at hp
      cases hp
      have hsame : SameButFlags s.parser.int b' := by
        have := hl.err_same _ s.parser.int e (by rw [ha])
        rw [ha] at this; exact this
      have hrej : e ≠ .incomplete → ∀ s'', Scanner.pushRejected cfg { s with parser := { s.parser with
          int := b' } } pre.length tok = .ok s'' → SProp cfg (pre ++ [tok]) s'' := by
        intro _ s'' he'
        apply pushRejected_agree cfg hl pre { s with parser := { s.parser with int := b' } } s'' tok hs hme
          ?_ ?_ hagree.2.2.2 he'
        · intro hn'
          have hn1 : (!b'.isEmpty) = false := hn'
          have hn2 : s.parser.hasNumber = false := by
            show (!s.parser.int.isEmpty) = false
            rw [← hsame.isEmpty_eq]; exact hn1
          have hi := hagree.1 hn2
          rw [hi] at ha
          have := hl.err_new _ e (by rw [ha])
          rw [ha] at this
          exact this
        · intro hn'
          have hn1 : (!b'.isEmpty) = true := hn'
          have hn2 : s.parser.hasNumber = true := by
            show (!s.parser.int.isEmpty) = true
            rw [← hsame.isEmpty_eq]; exact hn1
          obtain ⟨b0, h1, h2⟩ := hagree.2.1 hn2 hd'
          exact Or.inr ⟨b0, h1, (incRun_same _ hl.err_same _ _ _ h2).trans hsame⟩
      cases e with
      | incomplete =>
        cases he
        have hw : Scanner.testWord cfg s tok = tok.lower := by
          rcases testWord_cases cfg s tok with hw | ⟨hw, _⟩
          · exact hw
          · rw [hw] at ha
            obtain ⟨e, h1, h2⟩ := hl.comma_rejected s.parser.int
            rw [ha] at h1
            injection h1 with h1
            exact absurd h1.symm h2
        rw [hw] at ha
        exact hagree.incomplete hl hme tok hs hd' b' ha
      | overlap => exact hrej (by intro h; cases h) s' he
      | nan => exact hrej (by intro h; cases h) s' he
      | frozen => exact hrej (by intro h; cases h) s' he

/-- **the agreement invariant is preserved by `push`** -/
theorem push_agree (cfg : ScanCfg) (hl : LangAgree cfg.lang) (pre : List Tok) (s s' : Scanner) (tok : Tok)
    (h : AInv cfg pre s) (he : s.push cfg pre.length tok = .ok s') : AInv cfg (pre ++ [tok]) s' := by
  refine ⟨push_strict cfg hl.langOk s s' pre.length tok h.strict h.tr.2.1 he, ?_, push_sprop cfg hl pre s s' tok h he⟩
  obtain ⟨s'', h1, h2⟩ := push_ok cfg s pre.length tok h.tr
  rw [he] at h1
  cases h1
  rw [length_snoc]
  exact h2

theorem pushAll_agree (cfg : ScanCfg) (hl : LangAgree cfg.lang) :
    ∀ (rest pre : List Tok) (s s' : Scanner), AInv cfg pre s →
      Scanner.pushAll cfg s (enumFrom pre.length rest) = .ok s' → AInv cfg (pre ++ rest) s' := by
  intro rest
  induction rest with
  | nil =>
    intro pre s s' h he
    simp only [enumFrom, Scanner.pushAll] at he
    cases he
    rw [List.append_nil]; exact h
  | cons t ts ih =>
    intro pre s s' h he
    simp only [enumFrom, Scanner.pushAll] at he
    cases h1 : s.push cfg pre.length t with
    | error f => rw [h1] at he; cases he
    | ok s1 =>
      rw [h1] at he
      have h2 := push_agree cfg hl pre s s1 t h h1
      have h3 := ih (pre ++ [t]) s1 s' h2 (by rw [length_snoc]; exact he)
      rw [List.append_assoc] at h3
      exact h3

theorem finalize_agree (cfg : ScanCfg) (hl : LangAgree cfg.lang) (pre : List Tok) (s s' : Scanner)
    (h : AInv cfg pre s) (he : s.finalize cfg = .ok s') : ∀ o ∈ s'.tracker.queue, Good cfg pre o := by
  have hagree : AProp cfg pre s.parser s.tracker.mstart s.tracker.mend
      (s.tracker.queue ++ s.tracker.onHold.toList) := h.agree
  unfold Scanner.finalize at he
  by_cases hn : s.parser.hasNumber = true
  · rw [if_pos hn] at he
    obtain ⟨_, _, _, hocc1⟩ := numberEnd_agree cfg pre s s' hn h.tr.2.1 (hagree.wk hl hn) hagree.2.2.2 he
    exact fun o ho => hocc1 o (List.mem_append_left _ ho)
  · rw [if_neg hn] at he
    cases he
    exact fun o ho => hagree.2.2.2 o (List.mem_append_left _ ho)

/-- every occurrence reported by `find_numbers` is decimal or agrees with the validator -/
theorem findNumbers_agree (cfg : ScanCfg) (hl : LangAgree cfg.lang) (toks : List Tok) (occs : List Occ)
    (h : findNumbers cfg toks = .ok occs) : ∀ o ∈ occs, Good cfg toks o := by
  unfold findNumbers at h
  cases h1 : Scanner.pushAll cfg {} (enumFrom 0 toks) with
  | error f => rw [h1] at h; cases h
  | ok s =>
    rw [h1] at h
    dsimp only at h
    cases h2 : s.finalize cfg with
    | error f => rw [h2] at h; cases h
    | ok s' =>
      rw [h2] at h
      cases h
      have hinv := pushAll_agree cfg hl toks [] {} s (AInv.init cfg) h1
      rw [List.nil_append] at hinv
      exact finalize_agree cfg hl toks s s' hinv h2

/-- the invariant in the form announced: outside decimal mode, while a match is open, the parser's
integer builder is exactly the fold of `apply` from the fresh builder over the words of the
non-skipped tokens pushed since the match was opened -/
theorem AInv.int_eq_fold {cfg : ScanCfg} {pre : List Tok} {s : Scanner} (h : AInv cfg pre s)
    (hn : s.parser.hasNumber = true) (hd : s.parser.isDec = false) :
    s.parser.int = foldApply cfg.lang.apply (spanWords cfg pre s.tracker.mstart pre.length) DS.new := by
  have hagree : AProp cfg pre s.parser s.tracker.mstart s.tracker.mend
      (s.tracker.queue ++ s.tracker.onHold.toList) := h.agree
  obtain ⟨b0, h1, h2⟩ := hagree.2.1 hn hd
  rw [spanWords_split cfg pre _ _ _ h.tr.1 h.tr.2.1, foldApply_append,
    ← execGroupFrom_ok_fold _ _ _ _ _ h1]
  exact incRun_fold _ _ _ _ h2

/-! ### what a validated group says about its words -/

/-- every word is accepted or answered `Incomplete` by the builder it meets -/
def stepsOk (apply : Word → DS → Res × DS) : List Word → DS → Prop
  | [], _ => True
  | w :: ws, b => ((apply w b).1 = none ∨ (apply w b).1 = some .incomplete) ∧ stepsOk apply ws (apply w b).2

theorem execGroupFrom_stepsOk (apply : Word → DS → Res × DS) :
    ∀ (ws : List Word) (b b0 : DS) (inc : Bool), execGroupFrom apply ws b inc = .ok b0 → stepsOk apply ws b := by
  intro ws
  induction ws with
  | nil => intro _ _ _ _; trivial
  | cons w ws ih =>
    intro b b0 inc h
    cases hr : apply w b with
    | mk r b' =>
      cases r with
      | none =>
        rw [execGroupFrom_cons_ok hr] at h
        exact ⟨Or.inl (by rw [hr]), by rw [hr]; exact ih b' b0 false h⟩
      | some e =>
        by_cases he : e = .incomplete
        · subst he
          rw [execGroupFrom_cons_inc hr] at h
          exact ⟨Or.inr (by rw [hr]), by rw [hr]; exact ih b' b0 true h⟩
        · rw [execGroupFrom_cons_err hr he] at h; cases h

/-- the last word of a group that validates is accepted (no dangling conjunction) -/
theorem execGroupFrom_last_ok (apply : Word → DS → Res × DS) (w : Word) :
    ∀ (ws : List Word) (b b0 : DS) (inc : Bool), execGroupFrom apply (ws ++ [w]) b inc = .ok b0 →
      (apply w (foldApply apply ws b)).1 = none := by
  intro ws
  induction ws with
  | nil =>
    intro b b0 inc h
    show (apply w b).1 = none
    cases hr : apply w b with
    | mk r b' =>
      cases r with
      | none => rfl
      | some e =>
        rw [List.nil_append] at h
        by_cases he : e = .incomplete
        · subst he
          rw [execGroupFrom_cons_inc hr] at h
          simp [execGroupFrom] at h
        · rw [execGroupFrom_cons_err hr he] at h; cases h
  | cons y ys ih =>
    intro b b0 inc h
    cases hr : apply y b with
    | mk r b' =>
      have hf : foldApply apply (y :: ys) b = foldApply apply ys b' := by
        simp only [foldApply, List.foldl_cons, hr]
      rw [hf]
      rw [List.cons_append] at h
      cases r with
      | none => rw [execGroupFrom_cons_ok hr] at h; exact ih b' b0 false h
      | some e =>
        by_cases he : e = .incomplete
        · subst he; rw [execGroupFrom_cons_inc hr] at h; exact ih b' b0 true h
        · rw [execGroupFrom_cons_err hr he] at h; cases h

end T2N
