/-
  T2N.Lemmas.ExtNl — extensions of the unbounded Dutch round-trip (T2N.Lemmas.C01Nl):
  leading zeros (C16), digit dictation (C08), decimals (C05), ordinals (C04).
  Language-independent pieces (`setLz`, the builder-operation lemmas, `pushWords`, `push_word`, `dg`, …)
  are reused from T2N.Lemmas.EnExt.
-/
import T2N.Lemmas.C01Nl
import T2N.Lemmas.EnExt
import T2N.Lemmas.SimpleCC
import T2N.Spec.Spellers

namespace T2N.ExtNl
open T2N T2N.DS T2N.Spec T2N.C01Nl
open T2N.C01En (lsb lsb_zero lsb_ne_nil lsb_rev_dec lsb_digit)
open T2N.EnExt (setLz)

/-! ## Part 1 — leading zeros: the Dutch interpreter does not depend on `lz` -/

/-- guards whose value does not depend on the leading-zero counter (`is_free` reads it through
`is_empty`, but its value does not depend on it) -/
def gLz : Guard → Bool
  | .tt => true
  | .neg g => gLz g
  | .and a b => gLz a && gLz b
  | .or a b => gLz a && gLz b
  | .peekEq _ _ => true
  | .peekLt _ _ => true
  | .peekLen _ _ => true
  | .null => true
  | .rangeFree _ _ => true
  | .flag _ => true
  | .markerOrd => true
  | .markerNone => true
  | .groupOne _ => true
  | .free _ => true
  | .empty => false
  | .lenGe _ => false
  | .lenEq _ => false

theorem isFree_lz (b : DS) (j k : Nat) : (setLz k b).isFree j = b.isFree j := by
  unfold DS.isFree DS.isEmpty setLz
  cases hr : b.rbuf with
  | nil => simp [allZero]
  | cons a t => simp

theorem gLz_eval (g : Guard) (b : DS) (k : Nat) (h : gLz g = true) : g.eval (setLz k b) = g.eval b := by
  induction g with
  | tt => rfl
  | neg g ih => simp only [Guard.eval, ih h]
  | and x y ihx ihy =>
    simp only [gLz, Bool.and_eq_true] at h
    simp only [Guard.eval, ihx h.1, ihy h.2]
  | or x y ihx ihy =>
    simp only [gLz, Bool.and_eq_true] at h
    simp only [Guard.eval, ihx h.1, ihy h.2]
  | peekEq _ _ => rfl
  | peekLt _ _ => rfl
  | peekLen _ _ => rfl
  | null => rfl
  | rangeFree _ _ => rfl
  | flag _ => rfl
  | markerOrd => rfl
  | markerNone => rfl
  | groupOne _ => rfl
  | free j => exact isFree_lz b j k
  | empty => exact absurd h Bool.false_ne_true
  | lenGe _ => exact absurd h Bool.false_ne_true
  | lenEq _ => exact absurd h Bool.false_ne_true

/-- instructions all of whose guards are `lz`-independent -/
def okAct : Act → Bool
  | .ite g a b => gLz g && okAct a && okAct b
  | .block _ a => okAct a
  | _ => true

/-- an `lz`-independent instruction that did not add a leading zero does the same on any number of zeros -/
theorem exec_lz (a : Act) (h : okAct a = true) : ∀ (b : DS) (k : Nat), (a.exec b).2.1.lz = b.lz →
    a.exec (setLz k b) = ((a.exec b).1, setLz k (a.exec b).2.1, (a.exec b).2.2) := by
  induction a with
  | put ds => intro b k hl; simp only [Act.exec] at *; rw [EnExt.put_lz b ds k hl]
  | fput ds => intro b k _; simp only [Act.exec]; rw [(EnExt.fput_lz b ds k).1]
  | shift p => intro b k _; simp only [Act.exec]; rw [(EnExt.shift_lz b p k).1]
  | putAt d p => intro b k _; simp only [Act.exec]; rw [(EnExt.putAt_lz b d p k).1]
  | push ds => intro b k _; simp only [Act.exec]; rw [(EnExt.push_lz b ds k).1]
  | fail e => intro b k _; rfl
  | ite g x y ihx ihy =>
    intro b k hl
    simp only [okAct, Bool.and_eq_true] at h
    simp only [Act.exec] at *
    rw [gLz_eval g b k h.1.1]
    by_cases hg : g.eval b = true
    · simp only [if_pos hg] at hl ⊢; exact ihx h.1.2 b k hl
    · simp only [if_neg hg] at hl ⊢; exact ihy h.2 b k hl
  | block m a ih =>
    intro b k hl
    simp only [okAct] at h
    simp only [Act.exec] at *
    rw [ih h b k hl]

theorem vocab_all_ok : Nl.vocab.all (fun p => okAct p.2) = true := by decide

theorem vocab_ok (key : Word) (a : Act) (h : Nl.vocab.lookup key = some a) : okAct a = true :=
  List.all_eq_true.mp vocab_all_ok _ (EnExt.lookup_mem key a _ h)

/-- the post-processing of the plain branch of `apply` (flags, ordinal marker, freeze) -/
def post (w : Word) (t : Res × DS × Nat) : Res × DS :=
  if t.1.isNone then
    if endsWith w w!"te" || endsWith w w!"de" then
      (t.1, { t.2.1 with flags := t.2.2, marker := Nl.morph w, frozen := true })
    else (t.1, { t.2.1 with flags := t.2.2 })
  else (t.1, { t.2.1 with flags := 0 })

theorem applyFuel_plain (f : Nat) (w : Word) (b : DS) (h : isSplittable Nl.patterns w = false) :
    Nl.applyFuel (f + 1) w b = post w (((Nl.vocab.lookup w).getD (.fail .nan)).exec b) := by
  rw [Nl.applyFuel, if_neg (by rw [h]; exact Bool.false_ne_true)]
  rfl

theorem post_fst (w : Word) (t : Res × DS × Nat) : (post w t).1 = t.1 := by
  unfold post; split
  · split <;> rfl
  · rfl

theorem post_lz (w : Word) (t : Res × DS × Nat) : (post w t).2.lz = t.2.1.lz := by
  unfold post; split
  · split <;> rfl
  · rfl

theorem post_setLz (w : Word) (r : Res) (b : DS) (n k : Nat) :
    post w (r, setLz k b, n) = ((post w (r, b, n)).1, setLz k (post w (r, b, n)).2) := by
  unfold post; split
  · split <;> rfl
  · rfl

theorem applyFuel_lz_mono (f : Nat) (w : Word) (b : DS) : b.lz ≤ (Nl.applyFuel f w b).2.lz := by
  cases f with
  | zero => exact Nat.le_refl _
  | succ f =>
    by_cases hc : isSplittable Nl.patterns w = true
    · rw [Nl.applyFuel, if_pos hc]
      cases execGroup (Nl.applyFuel f) (splitWord Nl.patterns w) with
      | error e => exact Nat.le_refl _
      | ok ds => exact EnExt.mergeGroup_lz_mono b ds _
    · rw [applyFuel_plain f w b (by simpa using hc), post_lz]
      exact EnExt.exec_lz_mono _ b

/-- **`lz`-independence of the Dutch interpreter**: a word that is accepted (or `Incomplete`) without
adding a leading zero behaves the same whatever the number of leading zeros -/
theorem applyFuel_lz (f : Nat) (w : Word) (b : DS) (k : Nat)
    (hst : (Nl.applyFuel f w b).1 = none ∨ (Nl.applyFuel f w b).1 = some .incomplete)
    (hlz : (Nl.applyFuel f w b).2.lz = b.lz) :
    Nl.applyFuel f w (setLz k b) = ((Nl.applyFuel f w b).1, setLz k (Nl.applyFuel f w b).2) := by
  cases f with
  | zero => rcases hst with h | h <;> exact absurd h (by simp [Nl.applyFuel])
  | succ f =>
    by_cases hc : isSplittable Nl.patterns w = true
    · rw [Nl.applyFuel, if_pos hc] at hlz ⊢
      rw [Nl.applyFuel, if_pos hc]
      cases hx : execGroup (Nl.applyFuel f) (splitWord Nl.patterns w) with
      | error e => rfl
      | ok ds =>
        rw [hx] at hlz
        exact EnExt.mergeGroup_lz b ds _ k hlz
    · have hc' : isSplittable Nl.patterns w = false := by simpa using hc
      rw [applyFuel_plain f w b hc'] at hst hlz ⊢
      rw [applyFuel_plain f w _ hc']
      rw [post_fst] at hst
      rw [post_lz] at hlz
      cases hlk : Nl.vocab.lookup w with
      | none =>
        rw [hlk] at hst
        rcases hst with h | h <;> exact absurd h (by simp [Act.exec])
      | some a =>
        rw [hlk] at hlz
        simp only [Option.getD_some] at hlz ⊢
        rw [exec_lz a (vocab_ok _ a hlk) b k hlz, post_setLz]

/-! ### run level (generic in the per-word function) -/

/-- the two facts about a per-word function that the run-level lemmas need -/
structure LzInd (ap : Word → DS → Res × DS) : Prop where
  mono : ∀ w b, b.lz ≤ (ap w b).2.lz
  ind : ∀ w b k, ((ap w b).1 = none ∨ (ap w b).1 = some .incomplete) → (ap w b).2.lz = b.lz →
    ap w (setLz k b) = ((ap w b).1, setLz k (ap w b).2)

theorem lzInd_nl (f : Nat) : LzInd (Nl.applyFuel f) :=
  ⟨applyFuel_lz_mono f, fun w b k h1 h2 => applyFuel_lz f w b k h1 h2⟩

theorem lzInd_apply : LzInd Nl.apply := lzInd_nl 2

theorem run_lz_mono {ap : Word → DS → Res × DS} (H : LzInd ap) : ∀ (ws : List Word) (b : DS) (inc : Bool) (r : DS),
    execGroupFrom ap ws b inc = .ok r → b.lz ≤ r.lz := by
  intro ws
  induction ws with
  | nil =>
    intro b inc r h
    rw [execGroupFrom] at h
    cases inc with
    | true => exact absurd h (by simp)
    | false =>
      have : b = r := by simpa using h
      rw [this]; exact Nat.le_refl _
  | cons w ws ih =>
    intro b inc r h
    rw [execGroupFrom] at h
    have hm : b.lz ≤ (ap w b).2.lz := H.mono w b
    rcases hx : ap w b with ⟨st, b1⟩
    rw [hx] at h hm
    cases st with
    | none => exact Nat.le_trans hm (ih b1 false r h)
    | some e =>
      cases e with
      | incomplete => exact Nat.le_trans hm (ih b1 true r h)
      | overlap => exact absurd h (by simp)
      | nan => exact absurd h (by simp)
      | frozen => exact absurd h (by simp)

/-- a run that added no leading zero is reproduced verbatim on `k` leading zeros -/
theorem run_lz_append {ap : Word → DS → Res × DS} (H : LzInd ap) (k : Nat) (rest : List Word) :
    ∀ (ws : List Word) (b : DS) (inc : Bool) (r : DS),
    execGroupFrom ap ws b inc = .ok r → r.lz = b.lz →
    execGroupFrom ap (ws ++ rest) (setLz k b) inc = execGroupFrom ap rest (setLz k r) false := by
  intro ws
  induction ws with
  | nil =>
    intro b inc r h _
    rw [execGroupFrom] at h
    cases inc with
    | true => exact absurd h (by simp)
    | false =>
      have : b = r := by simpa using h
      rw [this]; rfl
  | cons w ws ih =>
    intro b inc r h hl
    rw [execGroupFrom] at h
    rw [List.cons_append, execGroupFrom]
    have hm : b.lz ≤ (ap w b).2.lz := H.mono w b
    have ht := H.ind w b k
    rcases hx : ap w b with ⟨st, b1⟩
    rw [hx] at h hm ht
    dsimp only at ht hm
    cases st with
    | none =>
      have hm2 := run_lz_mono H ws b1 false r h
      have hb1 : b1.lz = b.lz := by omega
      rw [ht (Or.inl rfl) hb1]
      exact ih b1 false r h (by omega)
    | some e =>
      cases e with
      | incomplete =>
        have hm2 := run_lz_mono H ws b1 true r h
        have hb1 : b1.lz = b.lz := by omega
        rw [ht (Or.inr rfl) hb1]
        exact ih b1 true r h (by omega)
      | overlap => exact absurd h (by simp)
      | nan => exact absurd h (by simp)
      | frozen => exact absurd h (by simp)

theorem run_lz {ap : Word → DS → Res × DS} (H : LzInd ap) (k : Nat) (ws : List Word) (b : DS) (inc : Bool) (r : DS)
    (h : execGroupFrom ap ws b inc = .ok r) (hl : r.lz = b.lz) :
    execGroupFrom ap ws (setLz k b) inc = .ok (setLz k r) := by
  have := run_lz_append H k [] ws b inc r h hl
  rw [List.append_nil] at this
  rw [this, execGroupFrom, if_neg Bool.false_ne_true]

/-! ### C16 -/

theorem apply_zero (j : Nat) : Nl.apply Nl.zeroWord (setLz j DS.new) = (none, setLz (j + 1) DS.new) := rfl

theorem zeros_run (rest : List Word) : ∀ (k j : Nat),
    execGroupFrom Nl.apply (List.replicate k Nl.zeroWord ++ rest) (setLz j DS.new) false =
      execGroupFrom Nl.apply rest (setLz (j + k) DS.new) false := by
  intro k
  induction k with
  | zero => intro j; rfl
  | succ k ih =>
    intro j
    rw [List.replicate_succ, List.cons_append, execGroupFrom, apply_zero]
    dsimp only
    rw [ih (j + 1)]
    have : j + 1 + k = j + (k + 1) := by omega
    rw [this]

/-- the run of a non-zero cardinal on the empty builder (from `cardinal_steps`); `fl` = final flags -/
theorem cardinal_run (v : Var) (n : Nat) (hn : n ≠ 0) (h : n < 10 ^ 12) :
    ∃ fl, execGroupFrom Nl.apply (Nl.cardinal v n) DS.new false = .ok (mkf (lsb n) fl) := by
  obtain ⟨fl, hs⟩ := cardinal_steps v n hn h
  have hs := hs []
  rw [List.append_nil, mkf_new] at hs
  refine ⟨fl, ?_⟩
  show execGroupFrom (Nl.applyFuel (1 + 1)) (Nl.cardinal v n) DS.new false = _
  rw [hs, execGroupFrom, if_neg Bool.false_ne_true]

theorem cardinal_run_lz (v : Var) (k n : Nat) (hn : n ≠ 0) (h : n < 10 ^ 12) :
    ∃ fl, execGroupFrom Nl.apply (Nl.cardinal v n) (setLz k DS.new) false = .ok (setLz k (mkf (lsb n) fl)) := by
  obtain ⟨fl, hr⟩ := cardinal_run v n hn h
  exact ⟨fl, run_lz lzInd_apply k _ DS.new false _ hr rfl⟩

/-- the whole run: `k` zeros, then the cardinal -/
theorem zeros_cardinal_run (v : Var) (k n : Nat) (hn : n ≠ 0) (h : n < 10 ^ 12) :
    ∃ fl, execGroupFrom Nl.apply (List.replicate k Nl.zeroWord ++ Nl.cardinal v n) DS.new false =
      .ok (setLz k (mkf (lsb n) fl)) := by
  obtain ⟨fl, hr⟩ := cardinal_run_lz v k n hn h
  refine ⟨fl, ?_⟩
  show execGroupFrom Nl.apply _ (setLz 0 DS.new) false = _
  rw [zeros_run, Nat.zero_add, hr]

/-- rendering of a number with `k` leading zeros (any flags) -/
theorem format_lz (k n fl : Nat) (hn : n ≠ 0) :
    (setLz k (mkf (lsb n) fl)).isEmpty = false ∧
    (setLz k (mkf (lsb n) fl)).render = List.replicate k 0 ++ decDigits n ∧
    Nl.lang.formatW (setLz k (mkf (lsb n) fl)) =
      .ok (List.replicate k '0' ++ decChars n, .dec (List.replicate k 0 ++ decDigits n) []) := by
  have hne := lsb_ne_nil hn
  have hrender : (setLz k (mkf (lsb n) fl)).render = List.replicate k 0 ++ decDigits n := by
    show List.replicate k 0 ++ (lsb n).reverse = _
    rw [lsb_rev_dec n hn]
  refine ⟨?_, hrender, ?_⟩
  · show ((lsb n).isEmpty && k == 0) = false
    cases hl : lsb n with
    | nil => exact absurd hl hne
    | cons a t => rfl
  · have hrne : (setLz k (mkf (lsb n) fl)).render.isEmpty = false := by
      rw [hrender, ← lsb_rev_dec n hn]
      cases hl : lsb n with
      | nil => exact absurd hl hne
      | cons a t => simp
    unfold Lang.formatW
    rw [hrne, if_neg Bool.false_ne_true]
    show Except.ok (renderChars (setLz k (mkf (lsb n) fl)), Value.dec (setLz k (mkf (lsb n) fl)).render []) = _
    unfold renderChars decChars
    rw [hrender, List.map_append, EnExt.replicate_map]
    rfl

/-- **C16 for Dutch, every number of leading zeros** (`0 < n < 10^12`, every variant) -/
theorem C16_validate_nl (v : Spec.Var) (k n : Nat) (hn : 0 < n) (h : n < 10 ^ 12) :
    text2digitsWords Nl.lang (List.replicate k Spec.Nl.zeroWord ++ Spec.Nl.cardinal v n) =
      .ok (List.replicate k '0' ++ decChars n) := by
  have hn' : n ≠ 0 := by omega
  obtain ⟨fl, hr⟩ := zeros_cardinal_run v k n hn' h
  have hex : execGroup Nl.lang.apply (List.replicate k Spec.Nl.zeroWord ++ Spec.Nl.cardinal v n) =
      .ok (setLz k (mkf (lsb n) fl)) := hr
  unfold text2digitsWords
  rw [hex]
  dsimp only
  rw [(format_lz k n fl hn').1, if_neg Bool.false_ne_true, (format_lz k n fl hn').2.2]

example : text2digitsWords Nl.lang (List.replicate 3 Spec.Nl.zeroWord ++ Spec.Nl.cardinal (fun _ => 1) 100045) =
    .ok (List.replicate 3 '0' ++ decChars 100045) := C16_validate_nl _ 3 _ (by decide) (by decide)

theorem zeros_only_run (k : Nat) :
    execGroupFrom Nl.apply (List.replicate k Nl.zeroWord) DS.new false = .ok (setLz k DS.new) := by
  have := zeros_run [] k 0
  rw [List.append_nil, Nat.zero_add] at this
  show execGroupFrom Nl.apply _ (setLz 0 DS.new) false = _
  rw [this, execGroupFrom, if_neg Bool.false_ne_true]

/-- `k ≥ 1` zeros alone validate to `k` digits `0` -/
theorem C16_zeros_only_nl (k : Nat) (hk : 0 < k) :
    text2digitsWords Nl.lang (List.replicate k Spec.Nl.zeroWord) = .ok (List.replicate k '0') := by
  have hex : execGroup Nl.lang.apply (List.replicate k Spec.Nl.zeroWord) = .ok (setLz k DS.new) := zeros_only_run k
  unfold text2digitsWords
  rw [hex]
  dsimp only
  have he : (setLz k DS.new).isEmpty = false := by
    show (([] : List Nat).isEmpty && k == 0) = false
    have : (k == 0) = false := by simp; omega
    rw [this]; rfl
  rw [he, if_neg Bool.false_ne_true]
  have hr : (setLz k DS.new).render = List.replicate k 0 := by
    show List.replicate k 0 ++ [] = _
    rw [List.append_nil]
  unfold Lang.formatW
  have hrne : (setLz k DS.new).render.isEmpty = false := by
    rw [hr]; cases k with
    | zero => omega
    | succ k => rfl
  rw [hrne, if_neg Bool.false_ne_true]
  show ValOut.ok (renderChars (setLz k DS.new)) = _
  unfold renderChars
  rw [hr, EnExt.replicate_map]
  rfl

theorem C16_lone_zero_nl : text2digitsWords Nl.lang [Spec.Nl.zeroWord] = .ok ['0'] :=
  C16_zeros_only_nl 1 (by decide)

/-- `nul` on a builder that holds a non-zero number: `Overlap`; the digits stay, the flags are cleared -/
theorem apply_zero_after (k n fl : Nat) (hn : n ≠ 0) :
    Nl.apply Nl.zeroWord (setLz k (mkf (lsb n) fl)) = (some .overlap, setLz k (mkf (lsb n) 0)) := by
  cases hl : lsb n with
  | nil => exact absurd hl (lsb_ne_nil hn)
  | cons a t => rfl

/-- **C16, `nul` after a number**: after (`k` zeros and) the spelling of `0 < n < 10^12` the builder `b`
refuses `nul` with `Overlap`, and validation of the whole phrase fails with `Overlap` -/
theorem C16_zero_after_nl (v : Spec.Var) (k n : Nat) (hn : 0 < n) (h : n < 10 ^ 12) :
    ∃ b, execGroup Nl.lang.apply (List.replicate k Spec.Nl.zeroWord ++ Spec.Nl.cardinal v n) = .ok b ∧
      (Nl.lang.apply Spec.Nl.zeroWord b).1 = some .overlap ∧
      text2digitsWords Nl.lang (List.replicate k Spec.Nl.zeroWord ++ Spec.Nl.cardinal v n ++ [Spec.Nl.zeroWord]) =
        .err .overlap := by
  have hn' : n ≠ 0 := by omega
  obtain ⟨fl, hr⟩ := cardinal_run_lz v k n hn' h
  obtain ⟨fl0, hr0⟩ := cardinal_run v n hn' h
  have hz := apply_zero_after k n fl0 hn'
  refine ⟨setLz k (mkf (lsb n) fl0), ?_, ?_, ?_⟩
  · show execGroupFrom Nl.apply _ (setLz 0 DS.new) false = _
    rw [zeros_run, Nat.zero_add]
    exact run_lz lzInd_apply k _ DS.new false _ hr0 rfl
  · show (Nl.apply Nl.zeroWord _).1 = _
    rw [hz]
  · unfold text2digitsWords
    have : execGroup Nl.lang.apply (List.replicate k Spec.Nl.zeroWord ++ Spec.Nl.cardinal v n ++ [Spec.Nl.zeroWord]) =
        .error .overlap := by
      show execGroupFrom Nl.apply _ (setLz 0 DS.new) false = _
      rw [List.append_assoc, zeros_run, Nat.zero_add]
      rw [run_lz_append lzInd_apply k [Spec.Nl.zeroWord] _ DS.new false _ hr0 rfl]
      show execGroupFrom Nl.apply [Nl.zeroWord] _ false = _
      rw [execGroupFrom, hz]
    rw [this]

/-! ## Part 2 — lifting an interpreter run to the scanner (generic in the language) -/

open T2N.EnExt (wt skipW pushWords SI St pz pendL grpDigits dg)

/-- accepted (or `Incomplete`) words are neither skipped by the scanner nor the decimal separator -/
def AccOk (l : Lang) : Prop :=
  ∀ w b, ((l.apply w b).1 = none ∨ (l.apply w b).1 = some .incomplete) → skipW w = false ∧ l.isDecSep w = false

/-- **lifting**: a successful interpreter run is reproduced by the scanner, word by word, as one open match -/
theorem lift_run (l : Lang) (hacc : AccOk l) (thr : Nat → Bool) : ∀ (ws : List Word) (b : DS) (inc : Bool) (r : DS),
    execGroupFrom l.apply ws b inc = .ok r → ∀ (s : Scanner) (i : Nat), SI s b →
    ∃ s', pushWords (scanCfg l thr) s i ws = .ok s' ∧ SI s' r := by
  intro ws
  induction ws with
  | nil =>
    intro b inc r h s i hs
    rw [execGroupFrom] at h
    cases inc with
    | true => exact absurd h (by simp)
    | false =>
      have : b = r := by simpa using h
      rw [← this]
      exact ⟨s, rfl, hs⟩
  | cons w ws ih =>
    intro b inc r h s i hs
    rw [execGroupFrom] at h
    obtain ⟨hp, hq, hh⟩ := hs
    rcases hx : l.apply w b with ⟨st, b1⟩
    rw [hx] at h
    have hx' : l.apply w s.parser.int = (st, b1) := by rw [hp]; exact hx
    have hpush : st = none ∨ st = some .incomplete → s.parser.push l w = (st, { int := b1 }) := by
      intro hst
      have hw := hacc w b (by rw [hx]; exact hst)
      rw [EnExt.parser_push_nosep l s.parser w (by rw [hp]) hw.2, hx', hp]
    rw [pushWords]
    cases st with
    | none =>
      have hw := hacc w b (by rw [hx]; exact Or.inl rfl)
      rw [EnExt.push_word l thr s i w hw.1, hpush (Or.inl rfl)]
      exact ih b1 false r h _ (i + 2) ⟨rfl, hq, hh⟩
    | some e =>
      cases e with
      | incomplete =>
        have hw := hacc w b (by rw [hx]; exact Or.inr rfl)
        rw [EnExt.push_word l thr s i w hw.1, hpush (Or.inr rfl)]
        exact ih b1 true r h _ (i + 2) ⟨rfl, hq, hh⟩
      | overlap => exact absurd h (by simp)
      | nan => exact absurd h (by simp)
      | frozen => exact absurd h (by simp)

/-- end of a pending integer-mode number under threshold 0: its text is appended to the queue -/
theorem finalize_run (l : Lang) (s : Scanner) (r : DS) (text : Word) (val : Value) (hs : SI s r)
    (hne : r.isEmpty = false) (hf : l.formatW r = .ok (text, val)) :
    ∃ sf, s.finalize (scanCfg l zeroThr) = .ok sf ∧ sf.parser = {} ∧ sf.tracker.onHold = none ∧
      sf.tracker.queue.map (·.text) = [text] := by
  obtain ⟨hp, hq, hh⟩ := hs
  unfold Scanner.finalize
  have hn : s.parser.hasNumber = true := by
    rw [hp]; show (!r.isEmpty) = true; rw [hne]; rfl
  rw [hn, if_pos rfl]
  unfold Scanner.numberEnd
  have hfin : s.parser.finish (scanCfg l zeroThr).lang = .ok (text, val) := by
    rw [hp]; exact hf
  rw [hfin]
  dsimp only
  rw [EnExt.small_zeroThr, Bool.and_false]
  obtain ⟨t1, t2⟩ := EnExt.tracker_numberEnd s.tracker s.parser.isOrdinal text val hh
  refine ⟨_, rfl, rfl, t1, ?_⟩
  show List.map (·.text) (s.tracker.numberEnd s.parser.isOrdinal text val false).queue = _
  rw [t2, hq]
  rfl

/-- **whatever validates is found by the scanner** (threshold 0): a word list accepted by
`text2digitsWords` yields exactly one occurrence, with the same text -/
theorem scan_of_validate (l : Lang) (hacc : AccOk l) (ws : List Word) (t : Word)
    (h : text2digitsWords l ws = .ok t) : occTexts l zeroThr ws = some [t] := by
  unfold text2digitsWords at h
  cases hx : execGroup l.apply ws with
  | error e => rw [hx] at h; exact absurd h (by simp)
  | ok r =>
    rw [hx] at h
    dsimp only at h
    cases hne : r.isEmpty with
    | true => rw [hne, if_pos rfl] at h; exact absurd h (by simp)
    | false =>
      rw [hne, if_neg Bool.false_ne_true] at h
      cases hf : l.formatW r with
      | error f => rw [hf] at h; exact absurd h (by simp)
      | ok tv =>
        obtain ⟨t', val⟩ := tv
        rw [hf] at h
        have : t' = t := by simpa using h
        subst this
        obtain ⟨s1, e1, hs1⟩ := lift_run l hacc zeroThr ws DS.new false r hx {} 0 ⟨rfl, rfl, rfl⟩
        obtain ⟨sf, e2, _, _, hq⟩ := finalize_run l s1 r t' val hs1 hne hf
        unfold occTexts
        rw [EnExt.findNumbers_words, e1]
        dsimp only
        rw [e2]
        dsimp only
        rw [hq]

/-! ### the Dutch interpreter satisfies `AccOk` -/

theorem pats_ok : Nl.patterns.all (fun p => match p with | [] => false | c :: _ => !simpleIsWs c) = true := by decide

theorem vocab_keys_ok :
    Nl.vocab.all (fun p => match p.1 with | [] => false | c :: _ => !simpleIsWs c) = true := by decide

theorem longestAt_none (pats : List Word) (s : Word) (h : ∀ p ∈ pats, p.isPrefixOf s = false) :
    longestAt pats s = none := by
  unfold longestAt
  generalize (none : Option Nat) = acc
  induction pats generalizing acc with
  | nil => rfl
  | cons p ps ih =>
    rw [List.foldl_cons, h p List.mem_cons_self, Bool.false_and, if_neg Bool.false_ne_true]
    exact ih (fun q hq => h q (List.mem_cons_of_mem _ hq)) acc

theorem longestAt_ws (c : Char) (cs : Word) (hc : simpleIsWs c = true) : longestAt Nl.patterns (c :: cs) = none := by
  apply longestAt_none
  intro p hp
  have := List.all_eq_true.mp pats_ok p hp
  cases p with
  | nil => exact absurd this (by simp)
  | cons x p' =>
    dsimp only at this
    have hx : (x == c) = false := by
      cases hxc : (x == c) with
      | false => rfl
      | true =>
        have : x = c := by simpa using hxc
        subst this
        rw [hc] at this
        exact absurd this (by simp)
    rw [List.isPrefixOf_cons_cons, hx, Bool.false_and]

theorem firstMatch_ws : ∀ (w : Word) (i : Nat), w.all simpleIsWs = true → firstMatch Nl.patterns w i = none := by
  intro w
  induction w with
  | nil => intro i _; rfl
  | cons c cs ih =>
    intro i h
    rw [List.all_cons, Bool.and_eq_true] at h
    rw [firstMatch, longestAt_ws c cs h.1]
    exact ih (i + 1) h.2

/-- a blank word is refused -/
theorem apply_ws (w : Word) (b : DS) (h : w.all simpleIsWs = true) : (Nl.apply w b).1 = some .nan := by
  have hs : isSplittable Nl.patterns w = false := by
    unfold isSplittable
    rw [firstMatch_ws w 0 h]
  show (Nl.applyFuel (1 + 1) w b).1 = _
  rw [applyFuel_plain 1 w b hs, post_fst]
  cases hlk : Nl.vocab.lookup w with
  | none => rfl
  | some a =>
    exfalso
    have hm := EnExt.lookup_mem w a _ hlk
    have hk := List.all_eq_true.mp vocab_keys_ok _ hm
    cases w with
    | nil => exact absurd hk (by simp)
    | cons c cs =>
      dsimp only at hk
      rw [List.all_cons, Bool.and_eq_true] at h
      rw [h.1] at hk
      exact absurd hk (by simp)

theorem accOk_nl : AccOk Nl.lang := by
  intro w b h
  have hnan : (Nl.apply w b).1 = some .nan → False := by
    intro hx
    have h' : (Nl.apply w b).1 = none ∨ (Nl.apply w b).1 = some .incomplete := h
    rw [hx] at h'
    rcases h' with h' | h' <;> exact absurd h' (by simp)
  constructor
  · unfold skipW
    rw [Bool.or_eq_false_iff]
    constructor
    · cases hq : (w == ['-']) with
      | false => rfl
      | true =>
        have : w = ['-'] := by simpa using hq
        subst this
        exact (hnan rfl).elim
    · cases hq : w.all simpleCC.isWhitespace with
      | false => rfl
      | true => exact (hnan (apply_ws w b hq)).elim
  · cases hq : Nl.lang.isDecSep w with
    | false => rfl
    | true =>
      have : w = w!"komma" := by
        have : (w == w!"komma") = true := hq
        simpa using this
      subst this
      exact (hnan rfl).elim

theorem scan_of_validate_nl (ws : List Word) (t : Word) (h : text2digitsWords Nl.lang ws = .ok t) :
    occTexts Nl.lang zeroThr ws = some [t] := scan_of_validate Nl.lang accOk_nl ws t h

/-- scanner form of C01 and C16 -/
theorem C01_scan_nl (v : Spec.Var) (n : Nat) (h : n < 10 ^ 12) :
    occTexts Nl.lang zeroThr (Spec.Nl.cardinal v n) = some [decChars n] :=
  scan_of_validate_nl _ _ (C01_validate_nl v n h)

theorem C16_scan_nl (v : Spec.Var) (k n : Nat) (hn : 0 < n) (h : n < 10 ^ 12) :
    occTexts Nl.lang zeroThr (List.replicate k Spec.Nl.zeroWord ++ Spec.Nl.cardinal v n) =
      some [List.replicate k '0' ++ decChars n] :=
  scan_of_validate_nl _ _ (C16_validate_nl v k n hn h)

theorem C16_zeros_only_scan_nl (k : Nat) (hk : 0 < k) :
    occTexts Nl.lang zeroThr (List.replicate k Spec.Nl.zeroWord) = some [List.replicate k '0'] :=
  scan_of_validate_nl _ _ (C16_zeros_only_nl k hk)

/-! ## Part 3 — scanner steps on an integer-mode number (generic in the language) -/

/-- abstraction of the scanner state: integer-mode parser holding `b`, nothing on hold, texts of the queue -/
def SQ (s : Scanner) (b : DS) (q : List Word) : Prop :=
  s.parser = { int := b } ∧ s.tracker.onHold = none ∧ s.tracker.queue.map (·.text) = q

theorem SQ.of_SI {s : Scanner} {b : DS} (h : SI s b) : SQ s b [] := ⟨h.1, h.2.2, by rw [h.2.1]; rfl⟩

/-- an accepted word -/
theorem step_accept (l : Lang) (thr : Nat → Bool) (s : Scanner) (pos : Nat) (b b' : DS) (q : List Word) (w : Word)
    (hw : skipW w = false ∧ l.isDecSep w = false) (hst : SQ s b q) (ha : l.apply w b = (none, b')) :
    ∃ s', s.push (scanCfg l thr) pos (wt w) = .ok s' ∧ SQ s' b' q := by
  obtain ⟨hp, hh, hq⟩ := hst
  have hpush : s.parser.push l w = (none, { int := b' }) := by
    rw [EnExt.parser_push_nosep l s.parser w (by rw [hp]) hw.2, hp]
    have ha' : l.apply w ({ int := b } : Parser).int = (none, b') := ha
    rw [ha']
  rw [EnExt.push_word l thr s pos w hw.1, hpush]
  exact ⟨_, rfl, rfl, hh, hq⟩

/-- a refused word (threshold 0): the pending number `b1` ends, the word starts the next one -/
theorem step_reject (l : Lang) (s : Scanner) (pos : Nat) (b b1 b2 : DS) (e : Err) (q : List Word) (text : Word)
    (val : Value) (w : Word) (hw : skipW w = false ∧ l.isDecSep w = false) (hst : SQ s b q)
    (ha : l.apply w b = (some e, b1)) (he : e ≠ .incomplete) (hne : b1.isEmpty = false)
    (hf : l.formatW b1 = .ok (text, val)) (hb : l.apply w {} = (none, b2)) :
    ∃ s', s.push (scanCfg l zeroThr) pos (wt w) = .ok s' ∧ SQ s' b2 (q ++ [text]) := by
  obtain ⟨hp, hh, hq⟩ := hst
  have hpush : s.parser.push l w = (some e, { int := b1 }) := by
    rw [EnExt.parser_push_nosep l s.parser w (by rw [hp]) hw.2, hp]
    have ha' : l.apply w ({ int := b } : Parser).int = (some e, b1) := ha
    rw [ha']
  have hrej : s.push (scanCfg l zeroThr) pos (wt w) =
      Scanner.pushRejected (scanCfg l zeroThr) { s with parser := { int := b1 } } pos (wt w) := by
    rw [EnExt.push_word l zeroThr s pos w hw.1, hpush]
    cases e with
    | incomplete => exact absurd rfl he
    | overlap => rfl
    | nan => rfl
    | frozen => rfl
  rw [hrej]
  unfold Scanner.pushRejected
  have hn : ({ s with parser := { int := b1 } } : Scanner).parser.hasNumber = true := by
    show (!b1.isEmpty) = true; rw [hne]; rfl
  rw [if_pos hn]
  unfold Scanner.numberEnd
  have hfin : ({ s with parser := { int := b1 } } : Scanner).parser.finish (scanCfg l zeroThr).lang =
      .ok (text, val) := hf
  rw [hfin]
  dsimp only
  rw [EnExt.small_zeroThr, Bool.and_false]
  have hpush2 : Parser.push (scanCfg l zeroThr).lang {} (wt w).lower = (none, { int := b2 }) := by
    show ({} : Parser).push l w = _
    rw [EnExt.parser_push_nosep l {} w rfl hw.2]
    have hb' : l.apply w ({} : Parser).int = (none, b2) := hb
    rw [hb']
  rw [hpush2]
  obtain ⟨t1, t2⟩ := EnExt.tracker_numberEnd s.tracker b1.isOrdinal text val hh
  refine ⟨_, rfl, rfl, t1, ?_⟩
  show List.map (·.text) (s.tracker.numberEnd b1.isOrdinal text val false).queue = _
  rw [t2, List.map_append, hq]
  rfl

theorem finalize_empty (l : Lang) (thr : Nat → Bool) (s : Scanner) (b : DS) (q : List Word) (hst : SQ s b q)
    (he : b.isEmpty = true) :
    ∃ sf, s.finalize (scanCfg l thr) = .ok sf ∧ sf.tracker.queue.map (·.text) = q := by
  obtain ⟨hp, _, hq⟩ := hst
  unfold Scanner.finalize
  have : s.parser.hasNumber = false := by rw [hp]; show (!b.isEmpty) = false; rw [he]; rfl
  rw [this, if_neg Bool.false_ne_true]
  exact ⟨s, rfl, hq⟩

theorem finalize_pending (l : Lang) (s : Scanner) (b : DS) (q : List Word) (text : Word) (val : Value)
    (hst : SQ s b q) (hne : b.isEmpty = false) (hf : l.formatW b = .ok (text, val)) :
    ∃ sf, s.finalize (scanCfg l zeroThr) = .ok sf ∧ sf.tracker.queue.map (·.text) = q ++ [text] := by
  obtain ⟨hp, hh, hq⟩ := hst
  unfold Scanner.finalize
  have hn : s.parser.hasNumber = true := by
    rw [hp]; show (!b.isEmpty) = true; rw [hne]; rfl
  rw [hn, if_pos rfl]
  unfold Scanner.numberEnd
  have hfin : s.parser.finish (scanCfg l zeroThr).lang = .ok (text, val) := by
    rw [hp]; exact hf
  rw [hfin]
  dsimp only
  rw [EnExt.small_zeroThr, Bool.and_false]
  obtain ⟨_, t2⟩ := EnExt.tracker_numberEnd s.tracker s.parser.isOrdinal text val hh
  refine ⟨_, rfl, ?_⟩
  show List.map (·.text) (s.tracker.numberEnd s.parser.isOrdinal text val false).queue = _
  rw [t2, List.map_append, hq]
  rfl

/-- **C16, `nul` after a number, at the scanner**: the number ends and the zero is a number of its own -/
theorem C16_zero_after_scan_nl (v : Spec.Var) (k n : Nat) (hn : 0 < n) (h : n < 10 ^ 12) :
    occTexts Nl.lang zeroThr (List.replicate k Spec.Nl.zeroWord ++ Spec.Nl.cardinal v n ++ [Spec.Nl.zeroWord]) =
      some [List.replicate k '0' ++ decChars n, ['0']] := by
  have hn' : n ≠ 0 := by omega
  obtain ⟨fl, hrun⟩ := zeros_cardinal_run v k n hn' h
  have hz := apply_zero_after k n fl hn'
  obtain ⟨hne, _, hf⟩ := format_lz k n 0 hn'
  obtain ⟨s1, e1, hs1⟩ := lift_run Nl.lang accOk_nl zeroThr _ DS.new false _ hrun {} 0 ⟨rfl, rfl, rfl⟩
  obtain ⟨s2, e2, hs2⟩ := step_reject Nl.lang s1
    (0 + 2 * (List.replicate k Spec.Nl.zeroWord ++ Spec.Nl.cardinal v n).length)
    _ _ (setLz 1 DS.new) .overlap [] _ _ Spec.Nl.zeroWord ⟨by decide, by decide⟩ (SQ.of_SI hs1) hz
    (by intro hc; cases hc) hne hf rfl
  obtain ⟨sf, e3, hq⟩ := finalize_pending Nl.lang s2 _ _ ['0'] (.dec [0] []) hs2 rfl rfl
  unfold occTexts
  rw [EnExt.findNumbers_words, EnExt.pushWords_append, e1]
  dsimp only
  rw [pushWords, e2]
  dsimp only
  rw [pushWords]
  dsimp only
  rw [e3]
  dsimp only
  rw [hq]
  rfl

/-! ## Part 4 — digit dictation (C08) -/

/-- flags of the builder while digits are dictated: a pending unit has set `TENS` -/
def pfl : Option Nat → Nat
  | none => 0
  | some _ => 1

/-- builder states reached while digits are dictated: `z` leading zeros, then at most one non-zero digit -/
def dsN (z : Nat) (pend : Option Nat) : DS := { rbuf := pendL pend, lz := z, flags := pfl pend }

theorem digitWord_unit (d : Nat) (h0 : d ≠ 0) (h9 : d < 10) : Nl.digitWord d = Nl.unitWord (fun _ => 0) 0 d := by
  have : d = 1 ∨ d = 2 ∨ d = 3 ∨ d = 4 ∨ d = 5 ∨ d = 6 ∨ d = 7 ∨ d = 8 ∨ d = 9 := by omega
  rcases this with rfl | rfl | rfl | rfl | rfl | rfl | rfl | rfl | rfl <;> rfl

theorem apply_zero_empty (z : Nat) : Nl.apply (Nl.digitWord 0) (dsN z none) = (none, dsN (z + 1) none) := rfl

theorem apply_zero_pend (z e : Nat) :
    Nl.apply (Nl.digitWord 0) (dsN z (some e)) = (some .overlap, { rbuf := [e], lz := z }) := rfl

theorem apply_digit_empty (z d : Nat) (h0 : d ≠ 0) (h9 : d < 10) :
    Nl.apply (Nl.digitWord d) (dsN z none) = (none, dsN z (some d)) := by
  rw [digitWord_unit d h0 h9]
  have hx : (T2N.Nl.unit d).exec (dsN z none) = (none, { rbuf := [d], lz := z }, 1) := by
    simp [T2N.Nl.unit, Act.when, Act.exec, Guard.eval, DS.isFree, DS.isEmpty, dsN, pendL, allZero, DS.put, pfl, h0]
  show Nl.applyFuel (1 + 1) _ _ = _
  rw [applyFuel_ok 1 _ _ _ _ _ (plain_unit (fun _ => 0) 0 d h0 h9) hx]
  rfl

theorem apply_digit_pend (z e d : Nat) (he : e ≠ 0) (h0 : d ≠ 0) (h9 : d < 10) :
    Nl.apply (Nl.digitWord d) (dsN z (some e)) = (some .nan, { rbuf := [e], lz := z }) := by
  rw [digitWord_unit d h0 h9]
  have hx : (T2N.Nl.unit d).exec (dsN z (some e)) = (some .nan, dsN z (some e), 0) := by
    simp [T2N.Nl.unit, Act.when, Act.exec, Guard.eval, DS.isFree, DS.isEmpty, dsN, pendL, allZero, he]
  show Nl.applyFuel (1 + 1) _ _ = _
  rw [applyFuel_err 1 _ _ _ _ _ _ (plain_unit (fun _ => 0) 0 d h0 h9) hx]
  rfl

theorem digit_noskip (d : Nat) (h9 : d < 10) :
    skipW (Nl.digitWord d) = false ∧ Nl.lang.isDecSep (Nl.digitWord d) = false := by
  have : d = 0 ∨ d = 1 ∨ d = 2 ∨ d = 3 ∨ d = 4 ∨ d = 5 ∨ d = 6 ∨ d = 7 ∨ d = 8 ∨ d = 9 := by omega
  rcases this with rfl | rfl | rfl | rfl | rfl | rfl | rfl | rfl | rfl | rfl <;> exact ⟨by decide, by decide⟩

/-- rendering of a dictation group (any flags) -/
theorem format_grp (z : Nat) (pend : Option Nat) (fl : Nat) (hne : z ≠ 0 ∨ pend ≠ none) :
    ({ rbuf := pendL pend, lz := z, flags := fl } : DS).isEmpty = false ∧
    Nl.lang.formatW { rbuf := pendL pend, lz := z, flags := fl } =
      .ok ((grpDigits z pend).map digitChar, .dec (grpDigits z pend) []) := by
  have hrd : ({ rbuf := pendL pend, lz := z, flags := fl } : DS).render = grpDigits z pend := by
    cases pend <;> rfl
  have hgne : grpDigits z pend ≠ [] := by
    unfold grpDigits
    rcases hne with h | h
    · cases z with
      | zero => exact absurd rfl h
      | succ z => simp [List.replicate_succ]
    · cases pend with
      | none => exact absurd rfl h
      | some e => simp [pendL]
  constructor
  · show ((pendL pend).isEmpty && z == 0) = false
    rcases hne with h | h
    · have : (z == 0) = false := by simp [h]
      rw [this, Bool.and_false]
    · cases pend with
      | none => exact absurd rfl h
      | some e => rfl
  · unfold Lang.formatW
    rw [hrd]
    cases hg : grpDigits z pend with
    | nil => exact absurd hg hgne
    | cons a t =>
      have : (a :: t).isEmpty = false := rfl
      rw [this, if_neg Bool.false_ne_true]
      show Except.ok (renderChars _, Value.dec _ []) = _
      unfold renderChars
      rw [hrd, hg]

/-- **the scanner on dictated digits**, from any state `(z, pend)` -/
theorem dict_run : ∀ (ds : List Nat), (∀ d ∈ ds, d < 10) → ∀ (s : Scanner) (z : Nat) (pend : Option Nat)
    (q : List Word) (i : Nat), SQ s (dsN z pend) q → (∀ e, pend = some e → e ≠ 0) →
    ∃ s' sf, pushWords (scanCfg Nl.lang zeroThr) s i (ds.map Nl.digitWord) = .ok s' ∧
      s'.finalize (scanCfg Nl.lang zeroThr) = .ok sf ∧
      sf.tracker.queue.map (·.text) = q ++ (dg z pend ds).map (fun g => g.map digitChar) := by
  intro ds
  induction ds with
  | nil =>
    intro _ s z pend q i hst _
    refine ⟨s, ?_⟩
    cases pend with
    | none =>
      by_cases hz : z = 0
      · subst hz
        obtain ⟨sf, h1, h2⟩ := finalize_empty Nl.lang zeroThr s _ q hst rfl
        exact ⟨sf, rfl, h1, by rw [h2]; simp [dg]⟩
      · obtain ⟨hne, hf⟩ := format_grp z none 0 (Or.inl hz)
        obtain ⟨sf, h1, h2⟩ := finalize_pending Nl.lang s _ q _ _ hst hne hf
        exact ⟨sf, rfl, h1, by rw [h2, dg, if_neg hz]; rfl⟩
    | some e =>
      obtain ⟨hne, hf⟩ := format_grp z (some e) 1 (Or.inr (by simp))
      obtain ⟨sf, h1, h2⟩ := finalize_pending Nl.lang s _ q _ _ hst hne hf
      exact ⟨sf, rfl, h1, by rw [h2, dg]; rfl⟩
  | cons d ds ih =>
    intro hds s z pend q i hst hpe
    have hd9 : d < 10 := hds d List.mem_cons_self
    have hds' : ∀ x ∈ ds, x < 10 := fun x hx => hds x (List.mem_cons_of_mem _ hx)
    have hw := digit_noskip d hd9
    rw [List.map_cons, pushWords]
    cases pend with
    | none =>
      by_cases hd : d = 0
      · subst hd
        obtain ⟨s1, e1, st1⟩ := step_accept Nl.lang zeroThr s i _ _ q _ hw hst (apply_zero_empty z)
        obtain ⟨s', sf, r1, r2, r3⟩ := ih hds' s1 (z + 1) none q (i + 2) st1 (fun e h => by simp at h)
        refine ⟨s', sf, by rw [e1]; exact r1, r2, ?_⟩
        rw [r3, dg, if_pos rfl]
      · obtain ⟨s1, e1, st1⟩ := step_accept Nl.lang zeroThr s i _ _ q _ hw hst (apply_digit_empty z d hd hd9)
        obtain ⟨s', sf, r1, r2, r3⟩ := ih hds' s1 z (some d) q (i + 2) st1
          (fun e h => by have : d = e := by simpa using h
                         rw [← this]; exact hd)
        refine ⟨s', sf, by rw [e1]; exact r1, r2, ?_⟩
        rw [r3, dg, if_neg hd]
    | some e =>
      have he : e ≠ 0 := hpe e rfl
      obtain ⟨hne, hf⟩ := format_grp z (some e) 0 (Or.inr (by simp))
      by_cases hd : d = 0
      · subst hd
        obtain ⟨s1, e1, st1⟩ := step_reject Nl.lang s i _ _ (dsN 1 none) .overlap q _ _ _ hw hst
          (apply_zero_pend z e) (by intro hc; cases hc) hne hf (apply_zero_empty 0)
        obtain ⟨s', sf, r1, r2, r3⟩ := ih hds' s1 1 none _ (i + 2) st1 (fun e h => by simp at h)
        refine ⟨s', sf, by rw [e1]; exact r1, r2, ?_⟩
        rw [r3, dg, if_pos rfl, List.map_cons, List.append_assoc]
        rfl
      · obtain ⟨s1, e1, st1⟩ := step_reject Nl.lang s i _ _ (dsN 0 (some d)) .nan q _ _ _ hw hst
          (apply_digit_pend z e d he hd hd9) (by intro hc; cases hc) hne hf (apply_digit_empty 0 d hd hd9)
        obtain ⟨s', sf, r1, r2, r3⟩ := ih hds' s1 0 (some d) _ (i + 2) st1
          (fun e h => by have : d = e := by simpa using h
                         rw [← this]; exact hd)
        refine ⟨s', sf, by rw [e1]; exact r1, r2, ?_⟩
        rw [r3, dg, if_neg hd, List.map_cons, List.append_assoc]
        rfl

/-- **C08 for Dutch, every digit sequence**: the scanner groups dictated digits exactly as
`Spec.dictationGroups` (zeros attach to the following non-zero digit, trailing zeros stand alone) -/
theorem C08_dictation_nl (ds : List Nat) (h : ∀ d ∈ ds, d < 10) :
    occTexts Nl.lang zeroThr (ds.map Spec.Nl.digitWord) =
      some ((dictationGroups ds).map (fun g => g.map digitChar)) := by
  have hst : SQ {} (dsN 0 none) [] := ⟨rfl, rfl, rfl⟩
  obtain ⟨s', sf, r1, r2, r3⟩ := dict_run ds h {} 0 none [] 0 hst (fun e h => by simp at h)
  unfold occTexts
  rw [EnExt.findNumbers_words, r1]
  dsimp only
  rw [r2]
  dsimp only
  rw [r3, EnExt.dg_dictation, List.nil_append]

/-- the same statement on `findNumbers` -/
theorem C08_dictation_nl_occ (ds : List Nat) (h : ∀ d ∈ ds, d < 10) :
    ∃ occs, findNumbers (scanCfg Nl.lang zeroThr) (wordTokens (ds.map Spec.Nl.digitWord)) = .ok occs ∧
      occs.map (·.text) = (dictationGroups ds).map (fun g => g.map digitChar) := by
  have hst : SQ {} (dsN 0 none) [] := ⟨rfl, rfl, rfl⟩
  obtain ⟨s', sf, r1, r2, r3⟩ := dict_run ds h {} 0 none [] 0 hst (fun e h => by simp at h)
  refine ⟨sf.tracker.queue, ?_, by rw [r3, EnExt.dg_dictation, List.nil_append]⟩
  rw [EnExt.findNumbers_words, r1]
  dsimp only
  rw [r2]

example : occTexts Nl.lang zeroThr ([0, 0, 7, 0, 1, 2, 0, 0].map Spec.Nl.digitWord) =
    some [w!"007", w!"01", w!"2", w!"00"] := C08_dictation_nl _ (by decide)

/-! ## Part 5 — decimals (C05) -/

/-- decimal phase: integer part `I`, fraction builder `D`, nothing emitted -/
def SD (s : Scanner) (I D : DS) : Prop :=
  s.parser = { int := I, dec := D, isDec := true } ∧ s.tracker.queue = [] ∧ s.tracker.onHold = none

theorem parser_push_decmode (l : Lang) (p : Parser) (w : Word) (hd : p.isDec = true) :
    p.push l w = ((l.applyDecimal w p.dec).1, { p with dec := (l.applyDecimal w p.dec).2 }) := by
  unfold Parser.push
  rw [hd, if_pos rfl]
  rcases l.applyDecimal w p.dec with ⟨r, d⟩
  simp

/-- **lifting in decimal mode**: a successful run of `applyDecimal` on the fraction builder is reproduced
by the scanner, word by word, inside the open match -/
theorem lift_run_dec (l : Lang)
    (hacc : ∀ w b, ((l.applyDecimal w b).1 = none ∨ (l.applyDecimal w b).1 = some .incomplete) → skipW w = false)
    (thr : Nat → Bool) : ∀ (ws : List Word) (D : DS) (inc : Bool) (R : DS),
    execGroupFrom l.applyDecimal ws D inc = .ok R → ∀ (s : Scanner) (i : Nat) (I : DS), SD s I D →
    ∃ s', pushWords (scanCfg l thr) s i ws = .ok s' ∧ SD s' I R := by
  intro ws
  induction ws with
  | nil =>
    intro D inc R h s i I hs
    rw [execGroupFrom] at h
    cases inc with
    | true => exact absurd h (by simp)
    | false =>
      have : D = R := by simpa using h
      rw [← this]
      exact ⟨s, rfl, hs⟩
  | cons w ws ih =>
    intro D inc R h s i I hs
    rw [execGroupFrom] at h
    obtain ⟨hp, hq, hh⟩ := hs
    rcases hx : l.applyDecimal w D with ⟨st, D1⟩
    rw [hx] at h
    have hpush : s.parser.push l w = (st, { int := I, dec := D1, isDec := true }) := by
      rw [parser_push_decmode l s.parser w (by rw [hp]), hp]
      have hx' : l.applyDecimal w ({ int := I, dec := D, isDec := true } : Parser).dec = (st, D1) := hx
      rw [hx']
    rw [pushWords]
    cases st with
    | none =>
      have hw := hacc w D (by rw [hx]; exact Or.inl rfl)
      rw [EnExt.push_word l thr s i w hw, hpush]
      exact ih D1 false R h _ (i + 2) I ⟨rfl, hq, hh⟩
    | some e =>
      cases e with
      | incomplete =>
        have hw := hacc w D (by rw [hx]; exact Or.inr rfl)
        rw [EnExt.push_word l thr s i w hw, hpush]
        exact ih D1 true R h _ (i + 2) I ⟨rfl, hq, hh⟩
      | overlap => exact absurd h (by simp)
      | nan => exact absurd h (by simp)
      | frozen => exact absurd h (by simp)

theorem parser_push_sep (p : Parser) (hd : p.isDec = false) (hne : p.int.isEmpty = false)
    (hm : p.int.marker = .none) :
    p.push Nl.lang Nl.sepWord =
      (some .incomplete, { p with int := { p.int with flags := 0 }, isDec := true }) := by
  unfold Parser.push
  rw [hd, if_neg Bool.false_ne_true]
  have ha : Nl.lang.apply Nl.sepWord p.int = (some .nan, { p.int with flags := 0 }) := rfl
  rw [ha]
  dsimp only
  have h1 : ({ p.int with flags := 0 } : DS).isEmpty = false := hne
  have h2 : ({ p.int with flags := 0 } : DS).marker = .none := hm
  rw [h1, h2]
  rfl

/-- the separator `komma` after an integer part: the parser switches to decimal mode (the flags of the
integer builder are cleared by the refused `apply`) -/
theorem step_sep (thr : Nat → Bool) (s : Scanner) (i : Nat) (I : DS) (hs : SI s I) (hne : I.isEmpty = false)
    (hm : I.marker = .none) :
    ∃ s', s.push (scanCfg Nl.lang thr) i (wt Nl.sepWord) = .ok s' ∧ SD s' { I with flags := 0 } {} := by
  obtain ⟨hp, hq, hh⟩ := hs
  have hpush : s.parser.push Nl.lang Nl.sepWord =
      (some .incomplete, { int := { I with flags := 0 }, dec := {}, isDec := true }) := by
    rw [parser_push_sep s.parser (by rw [hp]) (by rw [hp]; exact hne) (by rw [hp]; exact hm), hp]
  rw [EnExt.push_word Nl.lang thr s i Nl.sepWord (by decide), hpush]
  exact ⟨_, rfl, rfl, hq, hh⟩

/-- end of a decimal number: exactly one occurrence, whatever the threshold -/
theorem finalize_decimal (l : Lang) (thr : Nat → Bool) (s : Scanner) (I D : DS) (hs : SD s I D)
    (hne : I.isEmpty = false) (hm : I.marker = .none) (hD : D.isEmpty = false) (hDr : D.render ≠ []) :
    ∃ sf a b, s.finalize (scanCfg l thr) = .ok sf ∧
      sf.tracker.queue = [⟨a, b, renderChars I ++ [l.decMark] ++ renderChars D, .dec I.render D.render, false⟩] := by
  obtain ⟨hp, hq, hh⟩ := hs
  unfold Scanner.finalize
  have hn : s.parser.hasNumber = true := by
    rw [hp]; show (!I.isEmpty) = true; rw [hne]; rfl
  rw [hn, if_pos rfl]
  unfold Scanner.numberEnd
  have ho : s.parser.isOrdinal = false := by
    rw [hp]; show I.marker.isOrdinal = false; rw [hm]; rfl
  obtain ⟨x, xs, hrr⟩ : ∃ x xs, D.render = x :: xs := by
    cases hrv : D.render with
    | nil => exact absurd hrv hDr
    | cons x xs => exact ⟨x, xs, rfl⟩
  have hf : s.parser.finish (scanCfg l thr).lang =
      .ok (renderChars I ++ [l.decMark] ++ renderChars D, .dec I.render D.render) := by
    rw [hp]
    unfold Parser.finish
    dsimp only
    rw [hD]
    show ((scanCfg l thr).lang.formatDecimalW I D) = _
    unfold Lang.formatDecimalW
    have hc : (I.render.isEmpty && D.render.isEmpty) = false := by rw [hrr]; simp
    rw [hc, if_neg Bool.false_ne_true]
    rfl
  rw [hf, ho]
  dsimp only
  have hsm : (scanCfg l thr).small (.dec I.render D.render) = false := by
    rw [hrr]; rfl
  rw [hsm, Bool.and_false]
  obtain ⟨_, t2⟩ := EnExt.tracker_numberEnd s.tracker false (renderChars I ++ [l.decMark] ++ renderChars D)
    (.dec I.render D.render) hh
  refine ⟨_, s.tracker.mstart, s.tracker.mend, rfl, ?_⟩
  show (s.tracker.numberEnd false _ _ false).queue = _
  rw [t2, hq]
  rfl

/-! ### the digits of the fraction -/

/-- leading zeros / rest of a digit list, as computed by `Spec.Nl.fraction` -/
theorem split_zeros (ds : List Nat) : ∃ k rest, ds = List.replicate k 0 ++ rest ∧
    ds.takeWhile (· == 0) = List.replicate k 0 ∧ ds.dropWhile (· == 0) = rest ∧
    (∀ d t, rest = d :: t → d ≠ 0) := by
  induction ds with
  | nil => exact ⟨0, [], rfl, rfl, rfl, fun _ _ h => by cases h⟩
  | cons a ds ih =>
    by_cases ha : a = 0
    · subst ha
      obtain ⟨k, rest, h1, h2, h3, h4⟩ := ih
      refine ⟨k + 1, rest, ?_, ?_, ?_, h4⟩
      · rw [List.replicate_succ, List.cons_append, ← h1]
      · rw [List.takeWhile_cons, if_pos (by rfl), h2, List.replicate_succ]
      · rw [List.dropWhile_cons, if_pos (by rfl), h3]
    · refine ⟨0, a :: ds, rfl, ?_, ?_, ?_⟩
      · rw [List.takeWhile_cons, if_neg (by simp [ha])]; rfl
      · rw [List.dropWhile_cons, if_neg (by simp [ha])]
      · intro d t h; cases h; exact ha

theorem decDigits_step (a x : Nat) (ha : a ≠ 0) (hx : x < 10) : decDigits (10 * a + x) = decDigits a ++ [x] := by
  rw [decDigits, if_neg (by omega)]
  have h1 : (10 * a + x) / 10 = a := by omega
  have h2 : (10 * a + x) % 10 = x := by omega
  rw [h1, h2]

theorem decDigits_foldl : ∀ (l : List Nat) (a : Nat), a ≠ 0 → (∀ d ∈ l, d < 10) →
    decDigits (l.foldl (fun a d => 10 * a + d) a) = decDigits a ++ l ∧
      l.foldl (fun a d => 10 * a + d) a < (a + 1) * 10 ^ l.length := by
  intro l
  induction l with
  | nil => intro a _ _; exact ⟨by simp, by simp⟩
  | cons x l ih =>
    intro a ha hl
    have hx : x < 10 := hl x List.mem_cons_self
    obtain ⟨i1, i2⟩ := ih (10 * a + x) (by omega) (fun d hd => hl d (List.mem_cons_of_mem _ hd))
    rw [List.foldl_cons]
    refine ⟨by rw [i1, decDigits_step a x ha hx, List.append_assoc]; rfl, ?_⟩
    refine Nat.lt_of_lt_of_le i2 ?_
    rw [List.length_cons, Nat.pow_succ, Nat.mul_comm (10 ^ l.length) 10, ← Nat.mul_assoc]
    exact Nat.mul_le_mul_right _ (by omega)

/-- the value read from digits without leading zero spells back to those digits -/
theorem rest_value (d : Nat) (t : List Nat) (hd : d ≠ 0) (h9 : ∀ x ∈ d :: t, x < 10) :
    decDigits ((d :: t).foldl (fun a x => 10 * a + x) 0) = d :: t ∧
      (d :: t).foldl (fun a x => 10 * a + x) 0 ≠ 0 ∧
      (d :: t).foldl (fun a x => 10 * a + x) 0 < 10 ^ (d :: t).length := by
  have hd9 : d < 10 := h9 d List.mem_cons_self
  have e : (d :: t).foldl (fun a x => 10 * a + x) 0 = t.foldl (fun a x => 10 * a + x) d := by
    rw [List.foldl_cons, Nat.mul_zero, Nat.zero_add]
  obtain ⟨i1, i2⟩ := decDigits_foldl t d hd (fun x hx => h9 x (List.mem_cons_of_mem _ hx))
  have hdd : decDigits d = [d] := by rw [decDigits, if_pos hd9]
  rw [e]
  refine ⟨by rw [i1, hdd]; rfl, ?_, ?_⟩
  · intro h0
    rw [h0] at i1
    have : decDigits 0 = [0] := by rw [decDigits, if_pos (by decide)]
    rw [this, hdd] at i1
    have : 0 = d := by simpa using congrArg List.head? i1
    exact hd this.symm
  · refine Nat.lt_of_lt_of_le i2 ?_
    rw [List.length_cons, Nat.pow_succ, Nat.mul_comm (10 ^ t.length) 10]
    exact Nat.mul_le_mul_right _ (by omega)

theorem map_const_nul (zs : List Nat) : zs.map (fun _ => w!"nul") = List.replicate zs.length w!"nul" := by
  induction zs with
  | nil => rfl
  | cons a t ih => rw [List.map_cons, ih, List.length_cons, List.replicate_succ]

/-- the fraction words and the builder they produce -/
theorem fraction_run (v : Var) (ds : List Nat) (hds : ds ≠ []) (h9 : ∀ d ∈ ds, d < 10)
    (hlen : (ds.dropWhile (· == 0)).length ≤ 12) :
    ∃ D, execGroupFrom Nl.lang.applyDecimal (Nl.fraction v ds) DS.new false = .ok D ∧
      D.isEmpty = false ∧ D.render = ds := by
  obtain ⟨k, rest, h1, h2, h3, h4⟩ := split_zeros ds
  have hfr : Nl.fraction v ds = List.replicate k Nl.zeroWord ++
      (if rest.isEmpty then [] else Nl.cardinal (fun i => v (i + 64)) (rest.foldl (fun a d => 10 * a + d) 0)) := by
    unfold Nl.fraction
    dsimp only
    rw [h2, h3, map_const_nul, List.length_replicate]
    rfl
  rw [hfr]
  cases rest with
  | nil =>
    rw [List.append_nil] at h1
    refine ⟨setLz k DS.new, ?_, ?_, ?_⟩
    · show execGroupFrom Nl.apply (List.replicate k Nl.zeroWord ++ []) DS.new false = _
      rw [List.append_nil]; exact zeros_only_run k
    · show (([] : List Nat).isEmpty && k == 0) = false
      have : k ≠ 0 := by intro hk; subst hk; exact hds h1
      simp [this]
    · show List.replicate k 0 ++ [] = ds
      rw [List.append_nil, h1]
  | cons d t =>
    have hd : d ≠ 0 := h4 d t rfl
    have h9' : ∀ x ∈ d :: t, x < 10 := by
      intro x hx; apply h9; rw [h1]; exact List.mem_append_right _ hx
    obtain ⟨r1, r2, r3⟩ := rest_value d t hd h9'
    have hlt : (d :: t).foldl (fun a x => 10 * a + x) 0 < 10 ^ 12 := by
      rw [h3] at hlen
      exact Nat.lt_of_lt_of_le r3 (Nat.pow_le_pow_right (by decide) hlen)
    obtain ⟨fl, hr⟩ := zeros_cardinal_run (fun i => v (i + 64)) k _ r2 hlt
    obtain ⟨f1, f2, _⟩ := format_lz k _ fl r2
    refine ⟨_, hr, f1, ?_⟩
    rw [f2, r1, h1]

/-- **C05 for Dutch**: integer part `n < 10^12`, any non-empty fraction whose part after the leading zeros
has at most 12 digits (the specification reads it as ONE cardinal), any threshold: exactly one occurrence,
whose text is `<digits of n>,<fraction digits>` -/
theorem C05_decimal_nl_occ (v : Spec.Var) (n : Nat) (ds : List Nat) (thr : Nat → Bool) (h : n < 10 ^ 12)
    (hds : ds ≠ []) (h9 : ∀ d ∈ ds, d < 10) (hlen : (ds.dropWhile (· == 0)).length ≤ 12) :
    ∃ a b, findNumbers (scanCfg Nl.lang thr)
        (wordTokens (Spec.Nl.cardinal v n ++ [Spec.Nl.sepWord] ++ Spec.Nl.fraction v ds)) =
      .ok [⟨a, b, decChars n ++ [','] ++ ds.map digitChar, .dec (decDigits n) ds, false⟩] := by
  -- the integer part as an interpreter run
  obtain ⟨I, hrun, hne, hm, hrd⟩ : ∃ I, execGroupFrom Nl.apply (Nl.cardinal v n) DS.new false = .ok I ∧
      I.isEmpty = false ∧ I.marker = .none ∧ I.render = decDigits n := by
    by_cases hn : n = 0
    · subst hn
      have e0 : decDigits 0 = [0] := by rw [decDigits, if_pos (by decide)]
      refine ⟨setLz 1 DS.new, rfl, rfl, rfl, ?_⟩
      rw [e0]; rfl
    · obtain ⟨fl, hr⟩ := cardinal_run v n hn h
      obtain ⟨f1, f2, _⟩ := format_lz 0 n fl hn
      exact ⟨_, hr, f1, rfl, f2⟩
  obtain ⟨D, hfrun, hD, hDr⟩ := fraction_run v ds hds h9 hlen
  have hs0 : SI {} DS.new := ⟨rfl, rfl, rfl⟩
  obtain ⟨s1, e1, hs1⟩ := lift_run Nl.lang accOk_nl thr _ _ _ _ hrun {} 0 hs0
  obtain ⟨s2, e2, hs2⟩ := step_sep thr s1 (0 + 2 * (Nl.cardinal v n).length) I hs1 hne hm
  obtain ⟨s3, e3, hs3⟩ := lift_run_dec Nl.lang (fun w b hb => (accOk_nl w b hb).1) thr _ _ _ _ hfrun s2
    (0 + 2 * (Nl.cardinal v n).length + 2) _ hs2
  obtain ⟨sf, a, b, e4, hq⟩ := finalize_decimal Nl.lang thr s3 _ D hs3 hne hm hD
    (by rw [hDr]; exact hds)
  have hrI : ({ I with flags := 0 } : DS).render = decDigits n := hrd
  have hcI : renderChars ({ I with flags := 0 } : DS) = decChars n := by
    unfold renderChars decChars; rw [hrI]
  have hcD : renderChars D = ds.map digitChar := by unfold renderChars; rw [hDr]
  rw [hcI, hrI, hcD, hDr] at hq
  refine ⟨a, b, ?_⟩
  rw [EnExt.findNumbers_words, List.append_assoc, EnExt.pushWords_append, e1]
  dsimp only
  rw [List.singleton_append, pushWords, e2]
  dsimp only
  rw [e3]
  dsimp only
  rw [e4]
  dsimp only
  rw [hq]
  rfl

theorem C05_decimal_nl (v : Spec.Var) (n : Nat) (ds : List Nat) (thr : Nat → Bool) (h : n < 10 ^ 12)
    (hds : ds ≠ []) (h9 : ∀ d ∈ ds, d < 10) (hlen : (ds.dropWhile (· == 0)).length ≤ 12) :
    occTexts Nl.lang thr (Spec.Nl.cardinal v n ++ [Spec.Nl.sepWord] ++ Spec.Nl.fraction v ds) =
      some [decChars n ++ [Spec.Nl.decMark] ++ ds.map digitChar] := by
  obtain ⟨a, b, e⟩ := C05_decimal_nl_occ v n ds thr h hds h9 hlen
  unfold occTexts
  rw [e]
  rfl

example : occTexts Nl.lang (fun _ => true) (Spec.Nl.cardinal (fun _ => 0) 0 ++ [Spec.Nl.sepWord] ++
    Spec.Nl.fraction (fun _ => 0) [0, 0, 7, 5]) = some [decChars 0 ++ [','] ++ w!"0075"] :=
  C05_decimal_nl (fun _ => 0) 0 [0, 0, 7, 5] (fun _ => true) (by decide) (by decide) (by decide) (by decide)

/-- without the bound on the fraction the statement is false: the specification reads the digits after
the leading zeros as one cardinal `< 10^12`; for `1000000000000` it spells nothing at all -/
theorem C05_decimal_nl_long_counterexample :
    occTexts Nl.lang zeroThr (Spec.Nl.cardinal (fun _ => 0) 1 ++ [Spec.Nl.sepWord] ++
      Spec.Nl.fraction (fun _ => 0) [1, 0, 0, 0, 0, 0, 0, 0, 0, 0, 0, 0, 0]) = some [['1']] := by decide +kernel

/-! ## Part 6 — ordinals (C04)

The ordinal of `n` is the cardinal with its last ATOM made ordinal (`-de` / `-ste`). The last word of the
cardinal is the concatenation of atoms `init ++ [a]`; the last word of the ordinal is the concatenation of
`init ++ [a']`. Both pass the local splitter checks, the atoms `a` and `a'` are bound to the same
instruction, and `a'` sets the ordinal marker and freezes the builder. -/

def ste : Word := w!"ste"

/-! ### splitter checks when the last atom is replaced -/

theorem chainTo_mono : ∀ (as : List Word) (n n' : Option Word),
    (∀ x, as.getLast? = some x → atomOk x n = true → atomOk x n' = true) →
    chainTo as n = true → chainTo as n' = true
  | [], _, _, _, _ => rfl
  | [a], _, _, h, hc => h a rfl hc
  | a :: b :: t, n, n', h, hc => by
    rw [chainTo, Bool.and_eq_true] at hc ⊢
    exact ⟨hc.1, chainTo_mono (b :: t) n n' (fun x hx => h x (by rw [List.getLast?_cons_cons]; exact hx)) hc.2⟩

/-- a pattern atom `b` and its ordinal `b ++ "ste"` (also a pattern) are interchangeable as successors -/
theorem atomOk_ste (x b : Word) (h2 : 2 ≤ b.length) (hp : isPat b = true) (hp' : isPat (b ++ ste) = true)
    (h : atomOk x (some b) = true) : atomOk x (some (b ++ ste)) = true := by
  unfold atomOk at h ⊢
  dsimp only at h ⊢
  rw [List.take_append_of_le_length h2, hp']
  rw [hp] at h
  have hl : decide (2 ≤ (b ++ ste).length) = true := by
    rw [List.length_append]; simp; omega
  have hl0 : decide (2 ≤ b.length) = true := by simpa using h2
  rw [hl]
  rw [hl0] at h
  exact h

def ordUnitWs : List Word := Nl.ordUnitWords.drop 1
def ordTensWs : List Word := tensWs.map (· ++ ste)
def ordLowWs : List Word := ordUnitWs ++ ordTensWs
def ordScaleWs : List Word := (w!"honderd" :: scaleWs).map (· ++ ste)

set_option maxRecDepth 100000 in
theorem tbl_o1 : ([w!"honderd", w!"duizend"].all fun p => ordLowWs.all fun a => atomOk p (some a)) = true := by
  decide +kernel
set_option maxRecDepth 100000 in
theorem tbl_o2 : ([w!"en", w!"ën"].all fun l => ordTensWs.all fun t => atomOk l (some t)) = true := by
  decide +kernel
set_option maxRecDepth 100000 in
theorem tbl_oend : ((ordLowWs ++ ordScaleWs).all fun a => atomOk a none) = true := by decide +kernel
set_option maxRecDepth 100000 in
theorem tbl_opat : ((w!"honderd" :: scaleWs).all fun b => decide (2 ≤ b.length) && isPat b && isPat (b ++ ste)) = true := by
  decide +kernel

theorem scale_ste (x b : Word) (hb : b ∈ w!"honderd" :: scaleWs) (h : atomOk x (some b) = true) :
    atomOk x (some (b ++ ste)) = true := by
  have := mem_all tbl_opat hb
  simp only [Bool.and_eq_true, decide_eq_true_eq] at this
  exact atomOk_ste x b this.1.1 this.1.2 this.2 h

theorem oend_low {a : Word} (h : a ∈ ordLowWs) : atomOk a none = true :=
  mem_all tbl_oend (List.mem_append_left _ h)

theorem oend_scale {b : Word} (h : b ∈ w!"honderd" :: scaleWs) : atomOk (b ++ ste) none = true :=
  mem_all tbl_oend (List.mem_append_right _ (List.mem_map.mpr ⟨b, h, rfl⟩))

/-- `as` ends with the atom `a`; replacing it by `a'` keeps the splitter checks valid (up to the end of
the word); either nothing precedes `a`, or the first atom is unchanged -/
def Tail (as : List Word) (a a' : Word) : Prop :=
  ∃ init, as = init ++ [a] ∧ chainTo (init ++ [a']) none = true ∧
    (init = [] ∨ headOpt (init ++ [a']) none = headOpt as none)

theorem Tail.single (a a' : Word) (h : atomOk a' none = true) : Tail [a] a a' :=
  ⟨[], rfl, h, Or.inl rfl⟩

theorem Tail.prepend {as : List Word} {a a' : Word} (xs : List Word) (ht : Tail as a a')
    (hx : chainTo xs (headOpt as none) = true) (hl : chainTo xs (some a') = true) : Tail (xs ++ as) a a' := by
  obtain ⟨init, e, hc, hh⟩ := ht
  refine ⟨xs ++ init, by rw [e, List.append_assoc], ?_, ?_⟩
  · rw [List.append_assoc, chainTo_append, hc, Bool.and_true]
    rcases hh with rfl | hh
    · exact hl
    · rw [hh]; exact hx
  · cases xs with
    | nil =>
      rcases hh with rfl | hh
      · exact Or.inl rfl
      · exact Or.inr hh
    | cons x xs' => exact Or.inr rfl

theorem Tail.last {as : List Word} {a a' : Word} (ht : Tail as a a') : as.getLast? = some a := by
  obtain ⟨init, e, _, _⟩ := ht
  rw [e, List.getLast?_concat]

/-- the word list `ws` ends with a word that is the concatenation of atoms `init ++ [a]`, and `init ++ [a']`
passes the splitter checks as well -/
def WTail (ws : List Word) (a a' : Word) : Prop :=
  ∃ pre init, ws = pre ++ [concat (init ++ [a])] ∧ chainTo (init ++ [a]) none = true ∧
    chainTo (init ++ [a']) none = true

theorem WTail.of_tail {as : List Word} {a a' : Word} (ht : Tail as a a') (hc : chainTo as none = true) :
    WTail [concat as] a a' := by
  obtain ⟨init, e, hc', _⟩ := ht
  exact ⟨[], init, by rw [e]; rfl, by rw [← e]; exact hc, hc'⟩

theorem WTail.prepend {ws : List Word} {a a' : Word} (xs : List Word) (h : WTail ws a a') : WTail (xs ++ ws) a a' := by
  obtain ⟨pre, init, e, h1, h2⟩ := h
  exact ⟨xs ++ pre, init, by rw [e, List.append_assoc], h1, h2⟩

theorem WTail.atom (pre : List Word) (a a' : Word) (h : atomOk a none = true) (h' : atomOk a' none = true) :
    WTail (pre ++ [a]) a a' :=
  ⟨pre, [], by rw [List.nil_append, concat_single], h, h'⟩

/-! ### the last atom of the part below 100, of a group, of a group with its scale word -/

def lastB (v : Var) (g r : Nat) : Word := if r < 20 then Nl.unitWord v g r else Nl.tensWord (r / 10)
def ordB (r : Nat) : Word := if r < 20 then Nl.ordUnitWords.getD r [] else Nl.tensWord (r / 10) ++ ste
def rsInit (v : Var) (g r : Nat) (l : Word) : List Word :=
  if r < 20 then [] else if r % 10 = 0 then [] else [Nl.unitWord v g (r % 10), l]

theorem rsAtoms_split (v : Var) (g r : Nat) (l : Word) (h0 : r ≠ 0) :
    rsAtoms v g r l = rsInit v g r l ++ [lastB v g r] := by
  unfold rsAtoms rsInit lastB
  rw [if_neg h0]
  by_cases h20 : r < 20
  · rw [if_pos h20, if_pos h20, if_pos h20]; rfl
  · rw [if_neg h20, if_neg h20, if_neg h20]
    by_cases hu : r % 10 = 0
    · rw [if_pos hu, if_pos hu]; rfl
    · rw [if_neg hu, if_neg hu]; rfl

theorem lastB_low (v : Var) (g r : Nat) (h0 : r ≠ 0) (h1 : r < 100) : lastB v g r ∈ lowWs := by
  unfold lastB
  by_cases h20 : r < 20
  · rw [if_pos h20]
    by_cases h10 : r < 10
    · exact low_unit (mem_unit v g r h0 h10)
    · obtain ⟨b, rfl⟩ : ∃ b, r = 10 + b := ⟨r - 10, by omega⟩
      exact low_teen (mem_teen v g b (by omega))
  · rw [if_neg h20]
    exact low_tens (mem_tens _ (by omega) (by omega))

theorem ordUnit_mem (r : Nat) (h0 : r ≠ 0) (h20 : r < 20) : Nl.ordUnitWords.getD r [] ∈ ordUnitWs := by
  have : r = 1 ∨ r = 2 ∨ r = 3 ∨ r = 4 ∨ r = 5 ∨ r = 6 ∨ r = 7 ∨ r = 8 ∨ r = 9 ∨ r = 10 ∨ r = 11 ∨ r = 12 ∨
      r = 13 ∨ r = 14 ∨ r = 15 ∨ r = 16 ∨ r = 17 ∨ r = 18 ∨ r = 19 := by omega
  rcases this with rfl | rfl | rfl | rfl | rfl | rfl | rfl | rfl | rfl | rfl | rfl | rfl | rfl | rfl | rfl | rfl |
    rfl | rfl | rfl <;> decide

theorem ordTens_mem (t : Nat) (h2 : 2 ≤ t) (h9 : t < 10) : Nl.tensWord t ++ ste ∈ ordTensWs :=
  List.mem_map.mpr ⟨_, mem_tens t h2 h9, rfl⟩

theorem ordB_low (r : Nat) (h0 : r ≠ 0) (h1 : r < 100) : ordB r ∈ ordLowWs := by
  unfold ordB
  by_cases h20 : r < 20
  · rw [if_pos h20]; exact List.mem_append_left _ (ordUnit_mem r h0 h20)
  · rw [if_neg h20]; exact List.mem_append_right _ (ordTens_mem _ (by omega) (by omega))

theorem tail_rs (v : Var) (g r : Nat) (h0 : r ≠ 0) (h1 : r < 100) :
    Tail (rsAtoms v g r (Nl.linkWord v g (r % 10))) (lastB v g r) (ordB r) := by
  refine ⟨rsInit v g r (Nl.linkWord v g (r % 10)), rsAtoms_split v g r _ h0, ?_, ?_⟩
  · unfold rsInit
    by_cases h20 : r < 20
    · rw [if_pos h20]; exact oend_low (ordB_low r h0 h1)
    · rw [if_neg h20]
      by_cases hu : r % 10 = 0
      · rw [if_pos hu]; exact oend_low (ordB_low r h0 h1)
      · rw [if_neg hu]
        have e : ordB r = Nl.tensWord (r / 10) ++ ste := by unfold ordB; rw [if_neg h20]
        rw [e]
        show (atomOk _ (some _) && (atomOk _ (some _) && atomOk _ none)) = true
        have ht := ordTens_mem (r / 10) (by omega) (by omega)
        have a1 : atomOk (Nl.unitWord v g (r % 10)) (some (Nl.linkWord v g (r % 10))) = true :=
          mem_all tbl_link (mem_link v g (r % 10) hu (by omega))
        have a2 : atomOk (Nl.linkWord v g (r % 10)) (some (Nl.tensWord (r / 10) ++ ste)) = true := by
          have hl : Nl.linkWord v g (r % 10) ∈ [w!"en", w!"ën"] := by
            rcases link_cases v g (r % 10) with e | e <;> rw [e] <;> decide
          exact mem_all (mem_all tbl_o2 hl) ht
        rw [a1, a2, oend_low (List.mem_append_right _ ht)]; rfl
  · rw [rsAtoms_split v g r _ h0]
    unfold rsInit
    by_cases h20 : r < 20
    · rw [if_pos h20]; exact Or.inl rfl
    · rw [if_neg h20]
      by_cases hu : r % 10 = 0
      · rw [if_pos hu]; exact Or.inl rfl
      · rw [if_neg hu]; exact Or.inr rfl

theorem honderd_mem : w!"honderd" ∈ w!"honderd" :: scaleWs := List.mem_cons_self

theorem tail_hs (v : Var) (g h : Nat) (h0 : h ≠ 0) (h9 : h < 10) :
    Tail (hsAtoms v g h) w!"honderd" (w!"honderd" ++ ste) := by
  unfold hsAtoms
  rw [if_neg h0]
  by_cases h1 : h = 1
  · rw [if_pos h1]; exact Tail.single _ _ (oend_scale honderd_mem)
  · rw [if_neg h1]
    refine ⟨[Nl.unitWord v g h], rfl, ?_, Or.inr rfl⟩
    show (atomOk _ (some _) && atomOk _ none) = true
    rw [scale_ste _ _ honderd_mem (mem_all tbl_uh (mem_unit v g h h0 h9)), oend_scale honderd_mem]; rfl

theorem hs_last (v : Var) (g h : Nat) (x : Word) (hx : (hsAtoms v g h).getLast? = some x) : x = w!"honderd" := by
  unfold hsAtoms at hx
  by_cases h0 : h = 0
  · rw [if_pos h0] at hx; cases hx
  · rw [if_neg h0] at hx
    by_cases h1 : h = 1
    · rw [if_pos h1] at hx; exact (Option.some.inj hx).symm
    · rw [if_neg h1] at hx; exact (Option.some.inj hx).symm

def lastG (v : Var) (g n : Nat) : Word := if n % 100 = 0 then w!"honderd" else lastB v g (n % 100)
def ordG (n : Nat) : Word := if n % 100 = 0 then w!"honderd" ++ ste else ordB (n % 100)

theorem rsAtoms_zero (v : Var) (g : Nat) (l : Word) : rsAtoms v g 0 l = [] := by
  unfold rsAtoms; rw [if_pos rfl]

theorem tail_group (v : Var) (g n : Nat) (h0 : n ≠ 0) (h1 : n < 1000) :
    Tail (groupAtoms v g n) (lastG v g n) (ordG n) := by
  unfold lastG ordG
  by_cases hr : n % 100 = 0
  · rw [if_pos hr, if_pos hr]
    unfold groupAtoms
    rw [hr, rsAtoms_zero, List.append_nil]
    exact tail_hs v g (n / 100) (by omega) (by omega)
  · rw [if_neg hr, if_neg hr]
    have hc := chain_group v g n none h1 none_mem_ends
    unfold groupAtoms at hc ⊢
    rw [chainTo_append, Bool.and_eq_true] at hc
    refine Tail.prepend _ (tail_rs v g (n % 100) hr (by omega)) hc.1 ?_
    refine chainTo_mono _ none _ ?_ (chain_hs v g (n / 100) none (by omega) none_mem_afterH)
    intro x hx _
    rw [hs_last v g _ x hx]
    exact mem_all (mem_all tbl_o1 (by decide)) (ordB_low _ hr (by omega))

theorem lastG_mem (v : Var) (g n : Nat) (_h1 : n < 1000) : lastG v g n ∈ w!"honderd" :: lowWs := by
  unfold lastG
  by_cases hr : n % 100 = 0
  · rw [if_pos hr]; exact List.mem_cons_self
  · rw [if_neg hr]; exact List.mem_cons_of_mem _ (lastB_low v g _ hr (by omega))

theorem scaleWord_mem' (j : Nat) : Nl.scaleWord j ∈ w!"honderd" :: scaleWs :=
  List.mem_cons_of_mem _ (scaleWord_mem j)

theorem tail_scaled (v : Var) (j g : Nat) (hj : j = 1 ∨ j = 2 ∨ j = 3) (_g0 : g ≠ 0) (g1 : g < 1000) :
    Tail (scaledAtoms v j g) (Nl.scaleWord j) (Nl.scaleWord j ++ ste) := by
  have hs := Tail.single (Nl.scaleWord j) (Nl.scaleWord j ++ ste) (oend_scale (scaleWord_mem' j))
  unfold scaledAtoms
  by_cases hc : (j == 1 && g == 1) = true
  · rw [if_pos hc]; exact hs
  · rw [if_neg hc]
    have hch := chain_group v j g (some (Nl.scaleWord j)) g1 (scaleWord_cases j hj).1
    refine Tail.prepend _ hs hch ?_
    exact chainTo_mono _ _ _ (fun x _ hx => scale_ste x _ (scaleWord_mem' j) hx) hch

theorem scaled_last (v : Var) (j g : Nat) : (scaledAtoms v j g).getLast? = some (Nl.scaleWord j) := by
  unfold scaledAtoms
  split
  · rfl
  · rw [List.getLast?_concat]

/-- `duizend` may be followed by the ordinal form of the last atom of a group -/
theorem duizend_ordG (n : Nat) (_h0 : n ≠ 0) (_h1 : n < 1000) : atomOk w!"duizend" (some (ordG n)) = true := by
  unfold ordG
  by_cases hr : n % 100 = 0
  · rw [if_pos hr]
    exact scale_ste _ _ honderd_mem (mem_all tbl_D (by decide))
  · rw [if_neg hr]
    exact mem_all (mem_all tbl_o1 (by decide)) (ordB_low _ hr (by omega))

/-! ### the last word of a group, of a group with its scale word, of a cardinal -/

theorem atomOk_honderd_none : atomOk w!"honderd" none = true := mem_all tbl_H none_mem_afterH

theorem wtail_hs_atoms (v : Var) (g h : Nat) (h0 : h ≠ 0) :
    WTail (hsAtoms v g h) w!"honderd" (w!"honderd" ++ ste) := by
  have : ∃ pre, hsAtoms v g h = pre ++ [w!"honderd"] := by
    unfold hsAtoms
    rw [if_neg h0]
    split
    · exact ⟨[], rfl⟩
    · exact ⟨[_], rfl⟩
  obtain ⟨pre, e⟩ := this
  rw [e]
  exact WTail.atom _ _ _ atomOk_honderd_none (oend_scale honderd_mem)

theorem wtail_group (v : Var) (g n : Nat) (h0 : n ≠ 0) (h1 : n < 1000) :
    WTail (Nl.group v g n) (lastG v g n) (ordG n) := by
  have hh : n % 100 = 0 → n / 100 ≠ 0 := by omega
  have hrsW : n % 100 ≠ 0 → WTail (rsW v g (n % 100)) (lastB v g (n % 100)) (ordB (n % 100)) := by
    intro hr
    unfold rsW
    rw [if_neg hr]
    exact WTail.of_tail (tail_rs v g _ hr (by omega)) (chain_rs v g _ none (by omega) none_mem_ends)
  have hrs0 : n % 100 = 0 → rsW v g (n % 100) = [] := by
    intro hr; unfold rsW; rw [if_pos hr]
  rcases pick4 v (cp g 1) with hl | hl | hl | hl
  · rw [group_lvl0 v g n h0 hl]
    exact WTail.of_tail (tail_group v g n h0 h1) (chain_group v g n none h1 none_mem_ends)
  · rw [group_lvl1 v g n hl]
    unfold lastG ordG
    by_cases hr : n % 100 = 0
    · rw [if_pos hr, if_pos hr, hrs0 hr, List.append_nil]
      have e2 : hsW v g (n / 100) = [concat (hsAtoms v g (n / 100))] := by unfold hsW; rw [if_neg (hh hr)]
      rw [e2]
      exact WTail.of_tail (tail_hs v g _ (hh hr) (by omega)) (chain_hs v g _ none (by omega) none_mem_afterH)
    · rw [if_neg hr, if_neg hr]; exact WTail.prepend _ (hrsW hr)
  · rw [group_lvl2 v g n hl]
    unfold lastG ordG
    by_cases hr : n % 100 = 0
    · rw [if_pos hr, if_pos hr, hrs0 hr, List.append_nil]
      exact wtail_hs_atoms v g _ (hh hr)
    · rw [if_neg hr, if_neg hr]; exact WTail.prepend _ (hrsW hr)
  · rw [group_lvl3 v g n hl]
    unfold lastG ordG
    by_cases hr : n % 100 = 0
    · rw [if_pos hr, if_pos hr, hr, rsAtoms_zero, List.append_nil]
      exact wtail_hs_atoms v g _ (hh hr)
    · rw [if_neg hr, if_neg hr, rsAtoms_split v g _ _ hr, ← List.append_assoc]
      exact WTail.atom _ _ _ (atomOk_low_end (lastB_low v g _ hr (by omega)) none_mem_ends)
        (oend_low (ordB_low _ hr (by omega)))

theorem wtail_scaled (v : Var) (j g : Nat) (hj : j = 1 ∨ j = 2 ∨ j = 3) (g0 : g ≠ 0) (g1 : g < 1000) :
    WTail (Nl.scaled v j g) (Nl.scaleWord j) (Nl.scaleWord j ++ ste) := by
  rcases scaled_cases v j g g0 with e | ⟨_, e⟩
  · rw [e]; exact WTail.of_tail (tail_scaled v j g hj g0 g1) (chain_scaled v j g none hj g1 (Or.inl rfl))
  · rw [e]; exact WTail.atom _ _ _ (scaleWord_cases j hj).2 (oend_scale (scaleWord_mem' j))

/-- the last atom of the spelling of the cardinal `n`, and its ordinal form -/
def lastA (v : Var) (n : Nat) : Word :=
  if n % 1000 ≠ 0 then lastG v 0 (n % 1000)
  else if n / 1000 % 1000 ≠ 0 then Nl.scaleWord 1
  else if n / 1000000 % 1000 ≠ 0 then Nl.scaleWord 2 else Nl.scaleWord 3

def ordA (n : Nat) : Word :=
  if n % 1000 ≠ 0 then ordG (n % 1000)
  else if n / 1000 % 1000 ≠ 0 then Nl.scaleWord 1 ++ ste
  else if n / 1000000 % 1000 ≠ 0 then Nl.scaleWord 2 ++ ste else Nl.scaleWord 3 ++ ste

theorem scaled_zero (v : Var) (j : Nat) : Nl.scaled v j 0 = [] := by unfold Nl.scaled; rfl

/-- **the last word of a cardinal**: concatenation of atoms ending with `lastA v n`, and the same atoms
ending with `ordA n` pass the splitter checks -/
theorem wtail_cardinal (v : Var) (n : Nat) (hn : n ≠ 0) (h : n < 10 ^ 12) :
    WTail (Nl.cardinal v n) (lastA v n) (ordA n) := by
  unfold Nl.cardinal lastA ordA
  have hn' : (n == 0) = false := by simp [hn]
  rw [hn', if_neg Bool.false_ne_true]
  dsimp only
  obtain ⟨g3, hg3⟩ : ∃ g3, g3 = n / 1000000000 % 1000 := ⟨_, rfl⟩
  obtain ⟨g2, hg2⟩ : ∃ g2, g2 = n / 1000000 % 1000 := ⟨_, rfl⟩
  obtain ⟨g1, hg1⟩ : ∃ g1, g1 = n / 1000 % 1000 := ⟨_, rfl⟩
  obtain ⟨g0, hg0⟩ : ∃ g0, g0 = n % 1000 := ⟨_, rfl⟩
  rw [← hg3, ← hg2, ← hg1, ← hg0]
  have b3 : g3 < 1000 := by omega
  have b2 : g2 < 1000 := by omega
  have b1 : g1 < 1000 := by omega
  have b0 : g0 < 1000 := by omega
  by_cases hz0 : g0 = 0
  · have hz0' : (g0 == 0) = true := by simp [hz0]
    rw [if_pos hz0']
    have hl : ((Nl.scaled v 1 g1).length == 1 && ([] : List Word).length == 1 && flag v (cp 1 2)) = false := by
      simp
    have nz0 : ¬ (g0 ≠ 0) := fun hh => hh hz0
    rw [hl, if_neg Bool.false_ne_true, List.append_nil, if_neg nz0, if_neg nz0]
    by_cases hz1 : g1 = 0
    · have nz1 : ¬ (g1 ≠ 0) := fun hh => hh hz1
      rw [if_neg nz1, if_neg nz1, hz1, scaled_zero, List.append_nil]
      by_cases hz2 : g2 = 0
      · have nz2 : ¬ (g2 ≠ 0) := fun hh => hh hz2
        rw [if_neg nz2, if_neg nz2, hz2, scaled_zero, List.append_nil]
        have hz3 : g3 ≠ 0 := by omega
        exact wtail_scaled v 3 g3 (Or.inr (Or.inr rfl)) hz3 b3
      · rw [if_pos hz2, if_pos hz2]
        exact WTail.prepend _ (wtail_scaled v 2 g2 (Or.inr (Or.inl rfl)) hz2 b2)
    · rw [if_pos hz1, if_pos hz1]
      exact WTail.prepend _ (wtail_scaled v 1 g1 (Or.inl rfl) hz1 b1)
  · have hz0' : ¬ ((g0 == 0) = true) := by simp [hz0]
    rw [if_neg hz0', if_pos hz0, if_pos hz0]
    by_cases hc : ((Nl.scaled v 1 g1).length == 1 && (Nl.group v 0 g0).length == 1 && flag v (cp 1 2)) = true
    · rw [if_pos hc]
      simp only [Bool.and_eq_true, beq_iff_eq] at hc
      obtain ⟨hg1ne, ep1⟩ := scaled_single v 1 g1 hc.1.1
      have ep0 := group_single v 0 g0 hz0 hc.1.2
      rw [ep1, ep0, fuse_eq _ (by simp)]
      have ec : concat ([concat (scaledAtoms v 1 g1)] ++ [concat (groupAtoms v 0 g0)]) =
          concat (scaledAtoms v 1 g1 ++ groupAtoms v 0 g0) := by
        rw [concat_append, concat_single, concat_single, concat_append]
      rw [ec]
      have hx : chainTo (scaledAtoms v 1 g1) (headOpt (groupAtoms v 0 g0) none) = true :=
        chain_scaled v 1 g1 _ (Or.inl rfl) b1 (Or.inr ⟨rfl, group_head v 0 g0 hz0 b0⟩)
      have hchain : chainTo (scaledAtoms v 1 g1 ++ groupAtoms v 0 g0) none = true := by
        rw [chainTo_append, chain_group v 0 g0 none b0 none_mem_ends, Bool.and_true]
        exact hx
      have hlo : chainTo (scaledAtoms v 1 g1) (some (ordG g0)) = true := by
        refine chainTo_mono _ none _ ?_ (chain_scaled v 1 g1 none (Or.inl rfl) b1 (Or.inl rfl))
        intro x hxl _
        rw [scaled_last] at hxl
        rw [← Option.some.inj hxl]
        exact duizend_ordG g0 hz0 b0
      exact WTail.prepend _ (WTail.of_tail (Tail.prepend _ (tail_group v 0 g0 hz0 b0) hx hlo) hchain)
    · rw [if_neg hc]
      exact WTail.prepend _ (wtail_group v 0 g0 hz0 b0)

/-! ### the ordinal atoms: same instruction, ordinal marker, freeze -/

open T2N.EnExt (mark OrdPair)

/-- `w'` is an ordinal form (not splittable) bound to instruction `a` -/
def OrdW (w' : Word) (a : Act) : Prop :=
  isSplittable Nl.patterns w' = false ∧ Nl.vocab.lookup w' = some a ∧
    (endsWith w' w!"te" || endsWith w' w!"de") = true ∧ Nl.morph w' = .ordinal .nlE

theorem ord_of_plain (f : Nat) (w w' : Word) (a : Act) (b b' : DS) (hp : Plain w a) (ho : OrdW w' a)
    (h : Nl.applyFuel (f + 1) w b = (none, b')) : Nl.applyFuel (f + 1) w' b = (none, mark .nlE b') := by
  rw [applyFuel_plain f w b hp.1, hp.2.1] at h
  rw [applyFuel_plain f w' b ho.1, ho.2.1]
  simp only [Option.getD_some] at h ⊢
  unfold post at h ⊢
  rw [hp.2.2] at h
  rw [ho.2.2.1, ho.2.2.2]
  rcases hx : a.exec b with ⟨r, b1, tb⟩
  rw [hx] at h
  dsimp only at h ⊢
  cases r with
  | some e => exact absurd (congrArg Prod.fst h) (by simp)
  | none =>
    simp only [Option.isNone_none, if_true, Bool.false_eq_true, if_false] at h ⊢
    have h2 := congrArg Prod.snd h
    dsimp only at h2
    rw [← h2]
    rfl

theorem OrdPair.of_plain (f : Nat) {w w' : Word} {a : Act} (hp : Plain w a) (ho : OrdW w' a) :
    OrdPair (Nl.applyFuel (f + 1)) w w' .nlE := fun b b' h => ord_of_plain f w w' a b b' hp ho h

/-- a compound word: making the last atom ordinal marks the whole compound -/
theorem OrdPair.compound (init : List Word) (a a' : Word) (hne : init ≠ [])
    (hc : chainTo (init ++ [a]) none = true) (hc' : chainTo (init ++ [a']) none = true)
    (hp : OrdPair (Nl.applyFuel 1) a a' .nlE) :
    OrdPair Nl.apply (concat (init ++ [a])) (concat (init ++ [a'])) .nlE := by
  intro b b' h
  have hs : ∀ z, chainTo (init ++ [z]) none = true → isSplittable Nl.patterns (concat (init ++ [z])) = true := by
    intro z hz
    match init, hne, hz with
    | [x], _, hz => exact isSplittable_chain x z [] hz
    | x :: y :: t, _, hz => exact isSplittable_chain x y (t ++ [z]) hz
  rw [Nl.apply, Nl.applyFuel, if_pos (hs a hc), splitWord_chain _ hc] at h
  rw [Nl.apply, Nl.applyFuel, if_pos (hs a' hc'), splitWord_chain _ hc']
  cases hx : execGroup (Nl.applyFuel 1) (init ++ [a]) with
  | error e =>
    rw [hx] at h
    exact absurd (congrArg Prod.fst h) (by simp)
  | ok ds =>
    rw [hx] at h
    have hx' : execGroup (Nl.applyFuel 1) (init ++ [a']) = .ok (mark .nlE ds) :=
      EnExt.swap_last (Nl.applyFuel 1) a a' .nlE hp init DS.new false ds hx
    rw [hx']
    exact EnExt.mergeGroup_mark b ds b' _ .nlE h

theorem ord_unit (d : Nat) (h0 : d ≠ 0) (h9 : d < 10) : OrdW (Nl.ordUnitWords.getD d []) (T2N.Nl.unit d) := by
  have : d = 1 ∨ d = 2 ∨ d = 3 ∨ d = 4 ∨ d = 5 ∨ d = 6 ∨ d = 7 ∨ d = 8 ∨ d = 9 := by omega
  rcases this with rfl | rfl | rfl | rfl | rfl | rfl | rfl | rfl | rfl <;>
    exact ⟨by decide, by rfl, by decide, by decide⟩

theorem ord_teen (b : Nat) (h9 : b < 10) : OrdW (Nl.ordUnitWords.getD (10 + b) []) (.put [1, b]) := by
  have : b = 0 ∨ b = 1 ∨ b = 2 ∨ b = 3 ∨ b = 4 ∨ b = 5 ∨ b = 6 ∨ b = 7 ∨ b = 8 ∨ b = 9 := by omega
  rcases this with rfl | rfl | rfl | rfl | rfl | rfl | rfl | rfl | rfl | rfl <;>
    exact ⟨by decide, by rfl, by decide, by decide⟩

theorem ord_tens (t : Nat) (h2 : 2 ≤ t) (h9 : t < 10) : OrdW (Nl.tensWord t ++ ste) (T2N.Nl.tens t) := by
  have : t = 2 ∨ t = 3 ∨ t = 4 ∨ t = 5 ∨ t = 6 ∨ t = 7 ∨ t = 8 ∨ t = 9 := by omega
  rcases this with rfl | rfl | rfl | rfl | rfl | rfl | rfl | rfl <;>
    exact ⟨by decide, by rfl, by decide, by decide⟩

theorem ord_honderd : OrdW (w!"honderd" ++ ste) T2N.Nl.hundred := ⟨by decide, by rfl, by decide, by decide⟩
theorem ord_duizend : OrdW (w!"duizend" ++ ste) T2N.Nl.thousand := ⟨by decide, by rfl, by decide, by decide⟩
theorem ord_miljoen : OrdW (w!"miljoen" ++ ste) (.when (.rangeFree 6 8) (.shift 6)) :=
  ⟨by decide, by rfl, by decide, by decide⟩
theorem ord_miljard : OrdW (w!"miljard" ++ ste) (.shift 9) := ⟨by decide, by rfl, by decide, by decide⟩

/-- the last atom of a cardinal and its ordinal form are bound to the same instruction -/
theorem atom_ord (v : Var) (n : Nat) : ∃ act, Plain (lastA v n) act ∧ OrdW (ordA n) act := by
  unfold lastA ordA
  by_cases h0 : n % 1000 ≠ 0
  · rw [if_pos h0, if_pos h0]
    unfold lastG ordG
    by_cases hr : n % 1000 % 100 = 0
    · rw [if_pos hr, if_pos hr]; exact ⟨_, plain_honderd, ord_honderd⟩
    · rw [if_neg hr, if_neg hr]
      unfold lastB ordB
      by_cases h20 : n % 1000 % 100 < 20
      · rw [if_pos h20, if_pos h20]
        by_cases h10 : n % 1000 % 100 < 10
        · exact ⟨_, plain_unit v 0 _ hr h10, ord_unit _ hr h10⟩
        · obtain ⟨b, hb⟩ : ∃ b, n % 1000 % 100 = 10 + b := ⟨n % 1000 % 100 - 10, by omega⟩
          rw [hb]
          exact ⟨_, plain_teen v 0 b (by omega), ord_teen b (by omega)⟩
      · rw [if_neg h20, if_neg h20]
        exact ⟨_, plain_tens _ (by omega) (by omega), ord_tens _ (by omega) (by omega)⟩
  · rw [if_neg h0, if_neg h0]
    by_cases h1 : n / 1000 % 1000 ≠ 0
    · rw [if_pos h1, if_pos h1]; exact ⟨_, plain_duizend, ord_duizend⟩
    · rw [if_neg h1, if_neg h1]
      by_cases h2 : n / 1000000 % 1000 ≠ 0
      · rw [if_pos h2, if_pos h2]; exact ⟨_, plain_miljoen, ord_miljoen⟩
      · rw [if_neg h2, if_neg h2]; exact ⟨_, plain_miljard, ord_miljard⟩

/-! ### the specification's ordinal in terms of atoms -/

/-- the new last word, as computed by `Spec.Nl.ordinal` -/
def specNew (v : Var) (n : Nat) (last : Word) : Word :=
  if n % 100 != 0 && n % 100 < 20 then
    last.take (last.length - (Nl.unitWord v 0 (n % 100)).length) ++ Nl.ordUnitWords.getD (n % 100) []
  else last ++ w!"ste"

theorem ordinal_eq (v : Var) (n : Nat) (pre : List Word) (last : Word)
    (h : (if n == 1000000 && !flag v (cp 2 5) then [w!"miljoen"] else Nl.cardinal v n) = pre ++ [last]) :
    Nl.ordinal v n = pre ++ [specNew v n last] := by
  unfold Nl.ordinal
  dsimp only
  rw [h, List.reverse_append, List.reverse_singleton, List.singleton_append]
  dsimp only
  rw [List.reverse_cons, List.reverse_reverse]
  rfl

theorem specNew_concat (v : Var) (n : Nat) (init : List Word) :
    specNew v n (concat (init ++ [lastA v n])) = concat (init ++ [ordA n]) := by
  rw [concat_append, concat_append, concat_single, concat_single]
  have e : n % 1000 % 100 = n % 100 := by omega
  unfold specNew
  by_cases hc : (n % 100 != 0 && decide (n % 100 < 20)) = true
  · rw [if_pos hc]
    simp only [Bool.and_eq_true, bne_iff_ne, ne_eq, decide_eq_true_eq] at hc
    have h0 : n % 1000 ≠ 0 := by omega
    have hl : lastA v n = Nl.unitWord v 0 (n % 100) := by
      unfold lastA lastG lastB
      rw [if_pos h0, e, if_neg hc.1, if_pos hc.2]
    have ho : ordA n = Nl.ordUnitWords.getD (n % 100) [] := by
      unfold ordA ordG ordB
      rw [if_pos h0, e, if_neg hc.1, if_pos hc.2]
    rw [hl, ho, List.length_append, Nat.add_sub_cancel, List.take_left' rfl]
  · rw [if_neg hc]
    have ho : ordA n = lastA v n ++ ste := by
      unfold ordA lastA
      by_cases h0 : n % 1000 ≠ 0
      · rw [if_pos h0, if_pos h0]
        unfold ordG lastG
        rw [e]
        by_cases hr : n % 100 = 0
        · rw [if_pos hr, if_pos hr]
        · rw [if_neg hr, if_neg hr]
          unfold ordB lastB
          have h20 : ¬ n % 100 < 20 := by
            intro h20; apply hc; simp [hr, h20]
          rw [if_neg h20, if_neg h20]
      · rw [if_neg h0, if_neg h0]
        split
        · rfl
        · split <;> rfl
    rw [ho, List.append_assoc]
    rfl

/-- the run of the ordinal of `n`: the digits of `n`, marked ordinal and frozen -/
theorem ordinal_run (v : Var) (n : Nat) (hn : n ≠ 0) (h : n < 10 ^ 12) :
    ∃ fl, execGroupFrom Nl.apply (Nl.ordinal v n) DS.new false = .ok (mark .nlE (mkf (lsb n) fl)) := by
  have key : ∃ fl, execGroupFrom Nl.apply
        (if n == 1000000 && !flag v (cp 2 5) then [w!"miljoen"] else Nl.cardinal v n) DS.new false =
          .ok (mkf (lsb n) fl) ∧
      WTail (if n == 1000000 && !flag v (cp 2 5) then [w!"miljoen"] else Nl.cardinal v n) (lastA v n) (ordA n) := by
    by_cases hc : (n == 1000000 && !flag v (cp 2 5)) = true
    · rw [if_pos hc]
      simp only [Bool.and_eq_true, beq_iff_eq] at hc
      have hn6 : n = 10 ^ 6 := hc.1
      subst hn6
      refine ⟨0, ?_, ?_⟩
      · rw [lsb_pow 6]; rfl
      · exact WTail.atom [] (Nl.scaleWord 2) (Nl.scaleWord 2 ++ ste) (scaleWord_cases 2 (Or.inr (Or.inl rfl))).2
          (oend_scale (scaleWord_mem' 2))
    · rw [if_neg hc]
      obtain ⟨fl, hr⟩ := cardinal_run v n hn h
      exact ⟨fl, hr, wtail_cardinal v n hn h⟩
  obtain ⟨fl, hrun, pre, init, e, hc1, hc2⟩ := key
  have ho : Nl.ordinal v n = pre ++ [concat (init ++ [ordA n])] := by
    rw [ordinal_eq v n pre _ e, specNew_concat]
  obtain ⟨act, hp, hw⟩ := atom_ord v n
  have hpair : OrdPair Nl.apply (concat (init ++ [lastA v n])) (concat (init ++ [ordA n])) .nlE := by
    cases init with
    | nil =>
      rw [List.nil_append, List.nil_append, concat_single, concat_single]
      exact OrdPair.of_plain 1 hp hw
    | cons x t => exact OrdPair.compound (x :: t) _ _ (by simp) hc1 hc2 (OrdPair.of_plain 0 hp hw)
  rw [ho]
  rw [e] at hrun
  exact ⟨fl, EnExt.swap_last Nl.apply _ _ _ hpair pre DS.new false _ hrun⟩

theorem marker_chars : Mk.nlE.chars = Spec.Nl.ordinalMarker := by decide

/-- **C04 for Dutch, unbounded** (`0 < n < 10^12`; the specification spells ordinals up to `10^6`): the
ordinal of `n` in every accepted spelling variant validates to the digits of `n` followed by `e` -/
theorem C04_validate_nl' (v : Spec.Var) (n : Nat) (hn : 0 < n) (h : n < 10 ^ 12) :
    text2digitsWords Nl.lang (Spec.Nl.ordinal v n) = .ok (decChars n ++ Spec.Nl.ordinalMarker) := by
  have hn' : n ≠ 0 := by omega
  obtain ⟨fl, hrun⟩ := ordinal_run v n hn' h
  have hex : execGroup Nl.lang.apply (Spec.Nl.ordinal v n) = .ok (mark .nlE (mkf (lsb n) fl)) := hrun
  have hne := lsb_ne_nil hn'
  have hemp : (mark .nlE (mkf (lsb n) fl)).isEmpty = false := by
    show ((lsb n).isEmpty && (0 : Nat) == 0) = false
    cases hl : lsb n with
    | nil => exact absurd hl hne
    | cons a t => rfl
  have hrender : (mark .nlE (mkf (lsb n) fl)).render = decDigits n := by
    show List.replicate 0 0 ++ (lsb n).reverse = _
    rw [lsb_rev_dec n hn']; rfl
  have hrne : (mark .nlE (mkf (lsb n) fl)).render.isEmpty = false := by
    rw [hrender, ← lsb_rev_dec n hn']
    cases hl : lsb n with
    | nil => exact absurd hl hne
    | cons a t => simp
  unfold text2digitsWords
  rw [hex]
  dsimp only
  rw [hemp, if_neg Bool.false_ne_true]
  unfold Lang.formatW
  rw [hrne, if_neg Bool.false_ne_true]
  show ValOut.ok (renderChars (mark .nlE (mkf (lsb n) fl)) ++ Mk.nlE.chars) = _
  unfold renderChars decChars
  rw [hrender, marker_chars]

/-- **C04 in the uniform face of the speller**: every rank `0 < n ≤ 10^6`, every inflection index -/
theorem C04_validate_nl (v : Spec.Var) (n i : Nat) (ws : List Word) (mk : Word)
    (hs : Spec.Nl.speller.ordinal v n i = some (ws, mk)) :
    text2digitsWords Nl.lang ws = .ok (decChars n ++ mk) := by
  have hs' : (if (n == 0 || decide (n > 1000000)) = true then none
      else if (i == 0) = true then some (Spec.Nl.ordinal v n, Spec.Nl.ordinalMarker) else none) = some (ws, mk) := hs
  by_cases hc : (n == 0 || decide (n > 1000000)) = true
  · rw [if_pos hc] at hs'; cases hs'
  · rw [if_neg hc] at hs'
    by_cases hi : (i == 0) = true
    · rw [if_pos hi] at hs'
      have := Option.some.inj hs'
      simp only [Bool.or_eq_true, beq_iff_eq, decide_eq_true_eq, not_or] at hc
      rw [← (Prod.mk.inj this).1, ← (Prod.mk.inj this).2]
      exact C04_validate_nl' v n (by omega) (by omega)
    · rw [if_neg hi] at hs'; cases hs'

theorem C04_scan_nl (v : Spec.Var) (n : Nat) (hn : 0 < n) (h : n < 10 ^ 12) :
    occTexts Nl.lang zeroThr (Spec.Nl.ordinal v n) = some [decChars n ++ Spec.Nl.ordinalMarker] :=
  scan_of_validate_nl _ _ (C04_validate_nl' v n hn h)

example : text2digitsWords Nl.lang (Spec.Nl.ordinal (fun _ => 0) 323) = .ok (decChars 323 ++ w!"e") :=
  C04_validate_nl' _ 323 (by decide) (by decide)
example : text2digitsWords Nl.lang (Spec.Nl.ordinal (fun _ => 1) 1000000) = .ok (decChars 1000000 ++ w!"e") :=
  C04_validate_nl _ 1000000 0 _ _ rfl

end T2N.ExtNl
