/-
  T2N.Lemmas.C01Nl — the unbounded cardinal round-trip for Dutch (property C01):
  for every `n < 10^12` and EVERY variant function `v` (no restriction), validating `Spec.Nl.cardinal v n`
  with the model of the Dutch interpreter yields the decimal digits of `n`.

  Structure of the proof (language-independent digit lemmas are imported from `T2N.Lemmas.C01En`)
  * states `mkf (lsb N) f`: buffer = digits of `N`, `flags = f` (1 = `Excludable::TENS`);
  * word-step lemmas in frame form, any fuel: `unit_apply` (sets TENS), `en_apply` (Incomplete, clears the
    flags), `tens_apply` (`put_digit_at`, needs TENS clear; `tens_blocked`), `teen_apply`, `honderd_apply_mul` /
    `honderd_apply_one` (`honderd_after_lone_one`: refused), `duizend_apply_mul` / `duizend_apply_one`
    (`duizend_after_lone_one`), `miljoen_apply`, `miljard_apply`;
  * the splitter: `chain_split` / `splitWord_chain` / `isSplittable_chain` — a concatenation of atoms whose
    adjacent pairs pass the local Boolean check `atomOk` (no pattern match crosses or extends over a
    boundary; only the first two characters of the next atom matter) is split by leftmost-longest matching
    exactly into its atoms. The pairs the speller can produce are checked by kernel evaluation
    (`tbl_H`, `tbl_D`, `tbl_end`, `tbl_uh`, `tbl_link`, `tbl_lt`, `tbl_M`; < 300 pairs in total);
  * `Steps k ws N f N' f'` (with fuel `k+1`), atoms of a group (`group_atoms_steps`), `compound_apply`
    (atoms on a fresh builder, then `mergeGroup` = `put` of the whole number; flags untouched);
  * the words of the speller as concatenations of atom segments (`group_lvl0` … `group_lvl3`,
    `scaled_cases`), `group_steps`, `scaled_steps`, `cardinal_steps`, `C01_validate_nl`.
-/
import T2N.Model.Nl
import T2N.Model.Scanner
import T2N.Spec.SpellNl
import T2N.Lemmas.C01En

namespace T2N.C01Nl
open T2N T2N.Spec T2N.C01En

/-! ## builder states with flags -/

/-- the builder states reached while interpreting a Dutch cardinal: `rbuf` and `flags` -/
def mkf (r : List Nat) (f : Nat) : DS := { rbuf := r, flags := f }

theorem mkf_zero (r : List Nat) : mkf r 0 = mk r := rfl

theorem mkf_new : mkf (lsb 0) 0 = DS.new := by rw [lsb_zero]; rfl

def setF (b : DS) (f : Nat) : DS := { b with flags := f }

theorem setF_mk (r : List Nat) (f : Nat) : setF (mk r) f = mkf r f := rfl

theorem put_setF (b : DS) (f : Nat) (ds : List Nat) :
    (setF b f).put ds = ((b.put ds).1, setF (b.put ds).2 f) := by
  unfold DS.put setF
  dsimp only
  repeat' split
  all_goals rfl

theorem shift_setF (b : DS) (f : Nat) (p : Nat) :
    (setF b f).shift p = ((b.shift p).1, setF (b.shift p).2 f) := by
  unfold DS.shift setF
  dsimp only
  generalize DS.shiftBuf (if b.rbuf.isEmpty then [1] else b.rbuf) p = o
  cases o <;> by_cases h1 : b.frozen = true <;> by_cases h2 : (p == 0) = true <;> simp [h1, h2]

theorem putDigitAt_setF (b : DS) (f : Nat) (d p : Nat) :
    (setF b f).putDigitAt d p = ((b.putDigitAt d p).1, setF (b.putDigitAt d p).2 f) := by
  unfold DS.putDigitAt setF
  dsimp only
  repeat' split
  all_goals rfl

theorem put_mkf {r r' : List Nat} {ds : List Nat} (f : Nat) (h : (mk r).put ds = (none, mk r')) :
    (mkf r f).put ds = (none, mkf r' f) := by
  rw [← setF_mk, put_setF, h]; rfl

theorem shift_mkf {r r' : List Nat} {p : Nat} (f : Nat) (h : (mk r).shift p = (none, mk r')) :
    (mkf r f).shift p = (none, mkf r' f) := by
  rw [← setF_mk, shift_setF, h]; rfl

theorem putDigitAt_mkf {r r' : List Nat} {d p : Nat} (f : Nat) (h : (mk r).putDigitAt d p = (none, mk r')) :
    (mkf r f).putDigitAt d p = (none, mkf r' f) := by
  rw [← setF_mk, putDigitAt_setF, h]; rfl


/-! ## plain (non-splittable) words -/

/-- `w` is not splittable, bound to instruction `a`, and does not end in `te` / `de` -/
def Plain (w : Word) (a : Act) : Prop :=
  isSplittable Nl.patterns w = false ∧ Nl.vocab.lookup w = some a ∧
    (endsWith w w!"te" || endsWith w w!"de") = false

theorem applyFuel_ok (k : Nat) (w : Word) (a : Act) (b b' : DS) (tb : Nat) (h : Plain w a)
    (he : a.exec b = (none, b', tb)) : Nl.applyFuel (k + 1) w b = (none, { b' with flags := tb }) := by
  obtain ⟨h1, h2, h3⟩ := h
  rw [Nl.applyFuel, if_neg (by rw [h1]; exact Bool.false_ne_true)]
  dsimp only
  rw [h2, h3]
  simp [he]

theorem applyFuel_err (k : Nat) (w : Word) (a : Act) (b b' : DS) (tb : Nat) (e : Err) (h : Plain w a)
    (he : a.exec b = (some e, b', tb)) : Nl.applyFuel (k + 1) w b = (some e, { b' with flags := 0 }) := by
  obtain ⟨h1, h2, h3⟩ := h
  rw [Nl.applyFuel, if_neg (by rw [h1]; exact Bool.false_ne_true)]
  dsimp only
  rw [h2, h3]
  simp [he]

theorem unitWord_ne1 (v : Var) (g n : Nat) (h : n ≠ 1) : Nl.unitWord v g n = Nl.unitWords.getD n [] := by
  unfold Nl.unitWord
  rw [if_neg (by simp [h])]

theorem plain_unit (v : Var) (g d : Nat) (h0 : d ≠ 0) (h9 : d < 10) : Plain (Nl.unitWord v g d) (T2N.Nl.unit d) := by
  have : d = 1 ∨ d = 2 ∨ d = 3 ∨ d = 4 ∨ d = 5 ∨ d = 6 ∨ d = 7 ∨ d = 8 ∨ d = 9 := by omega
  rcases this with rfl | rfl | rfl | rfl | rfl | rfl | rfl | rfl | rfl
  · unfold Nl.unitWord
    cases flag v (cp g 3) <;> exact ⟨by decide, by rfl, by decide⟩
  all_goals (rw [unitWord_ne1 v g _ (by decide)]; exact ⟨by decide, by rfl, by decide⟩)

theorem plain_teen (v : Var) (g b : Nat) (h9 : b < 10) : Plain (Nl.unitWord v g (10 + b)) (.put [1, b]) := by
  rw [unitWord_ne1 v g _ (by omega)]
  have : b = 0 ∨ b = 1 ∨ b = 2 ∨ b = 3 ∨ b = 4 ∨ b = 5 ∨ b = 6 ∨ b = 7 ∨ b = 8 ∨ b = 9 := by omega
  rcases this with rfl | rfl | rfl | rfl | rfl | rfl | rfl | rfl | rfl | rfl <;>
    exact ⟨by decide, by rfl, by decide⟩

theorem plain_tens (t : Nat) (h2 : 2 ≤ t) (h9 : t < 10) : Plain (Nl.tensWord t) (T2N.Nl.tens t) := by
  have : t = 2 ∨ t = 3 ∨ t = 4 ∨ t = 5 ∨ t = 6 ∨ t = 7 ∨ t = 8 ∨ t = 9 := by omega
  rcases this with rfl | rfl | rfl | rfl | rfl | rfl | rfl | rfl <;>
    exact ⟨by decide, by rfl, by decide⟩

theorem plain_en : Plain w!"en" (.fail .incomplete) := ⟨by decide, by rfl, by decide⟩
theorem plain_en' : Plain w!"ën" (.fail .incomplete) := ⟨by decide, by rfl, by decide⟩
theorem plain_honderd : Plain w!"honderd" T2N.Nl.hundred := ⟨by decide, by rfl, by decide⟩
theorem plain_duizend : Plain w!"duizend" T2N.Nl.thousand := ⟨by decide, by rfl, by decide⟩
theorem plain_miljoen : Plain w!"miljoen" (.when (.rangeFree 6 8) (.shift 6)) := ⟨by decide, by rfl, by decide⟩
theorem plain_miljard : Plain w!"miljard" (.shift 9) := ⟨by decide, by rfl, by decide⟩


/-! ## arithmetic form of the builder operations -/

theorem free2_lsb (N f : Nat) (hN : N % 100 = 0) : (Guard.free 2).eval (mkf (lsb N) f) = true := by
  by_cases hz : N = 0
  · subst hz; rw [lsb_zero]; rfl
  · obtain ⟨m, rfl⟩ : ∃ m, N = 0 + 10 * (0 + 10 * m) := ⟨N / 100, by omega⟩
    rw [lsb_cons 0 _ (by decide) (Or.inr (by omega)), lsb_cons 0 m (by decide) (Or.inr (by omega))]
    simp [Guard.eval, DS.isFree, mkf, allZero]

/-- `put_digit_at(t, 1)` on a state whose tens position is free -/
theorem putAt_lsb (t N : Nat) (h0 : t ≠ 0) (h9 : t < 10) (hN : N % 100 < 10) :
    (mk (lsb N)).putDigitAt t 1 = (none, mk (lsb (N + 10 * t))) := by
  by_cases hz : N = 0
  · subst hz
    have e : 0 + 10 * t = 0 + 10 * (t + 10 * 0) := by omega
    rw [e, lsb_cons 0 _ (by decide) (Or.inr (by omega)), lsb_cons t 0 h9 (Or.inl h0), lsb_zero]
    simp [DS.putDigitAt, mk, h0]
  · by_cases h10 : N < 10
    · have e : N + 10 * t = N + 10 * (t + 10 * 0) := by omega
      rw [e, lsb_cons N _ h10 (Or.inl hz), lsb_cons t 0 h9 (Or.inl h0), lsb_zero, lsb_digit N h10 hz]
      simp [DS.putDigitAt, mk, h0]
    · obtain ⟨u, m, rfl, hu, hm⟩ : ∃ u m, N = u + 10 * (0 + 10 * m) ∧ u < 10 ∧ m ≠ 0 :=
        ⟨N % 10, N / 100, by omega, by omega, by omega⟩
      have e : u + 10 * (0 + 10 * m) + 10 * t = u + 10 * (t + 10 * m) := by omega
      rw [e, lsb_cons u _ hu (Or.inr (by omega)), lsb_cons 0 m (by decide) (Or.inr hm),
        lsb_cons u _ hu (Or.inr (by omega)), lsb_cons t m h9 (Or.inl h0)]
      simp [DS.putDigitAt, mk, h0]

theorem peek2_ne (N f : Nat) (h : N ≠ 1) : ((mkf (lsb N) f).peek 2 == [1]) = false := by
  by_cases hz : N = 0
  · subst hz; rw [lsb_zero]; rfl
  · by_cases h10 : N < 10
    · rw [lsb_digit N h10 hz]
      simp [DS.peek, mkf, h]
    · obtain ⟨a, c, ha, hc, rfl⟩ : ∃ a c, a < 10 ∧ c ≠ 0 ∧ N = a + 10 * c := ⟨N % 10, N / 10, by omega, by omega, by omega⟩
      rw [lsb_cons a c ha (Or.inr hc), lsb_pos hc]
      simp [DS.peek, mkf]

/-- `shift p` of a state whose positions `0 .. q-1` (`p < q`) are free: the implicit `1` -/
theorem shift_implicit (p : Nat) (t : List Nat) (hp : p ≠ 0) :
    (mk (List.replicate p 0 ++ 0 :: t)).shift p = (none, mk (List.replicate p 0 ++ 1 :: t)) := by
  rw [shift_eq _ _ rfl hp]
  have hr : (if (mk (List.replicate p 0 ++ 0 :: t)).rbuf.isEmpty then [1]
      else (mk (List.replicate p 0 ++ 0 :: t)).rbuf) = List.replicate p 0 ++ 0 :: t := by
    show (if (List.replicate p 0 ++ 0 :: t).isEmpty then [1] else _) = _
    rw [if_neg (by simp)]; rfl
  rw [hr]
  unfold DS.shiftBuf
  rw [if_neg (by simp)]
  dsimp only
  have hl : (List.replicate p 0).length = p := by simp
  rw [List.take_left' hl]
  have hsig : DS.shiftSig (List.replicate p 0) = [1] := by
    unfold DS.shiftSig
    have := dropWhile_replicate_zero p []
    rw [List.append_nil] at this
    simp [this]
  rw [hsig, List.drop_left' hl]
  have h1 : (0 :: t).take [1].length = [0] := rfl
  rw [h1, if_pos (by simp [allZero])]
  have hd : (List.replicate p 0 ++ 0 :: t).drop (p + [1].length) = t := by
    have : List.replicate p 0 ++ 0 :: t = (List.replicate p 0 ++ [0]) ++ t := by simp
    rw [this]
    exact List.drop_left' (by simp)
  rw [hd]
  simp [mk]

theorem lsb_pow (p : Nat) : lsb (10 ^ p) = List.replicate p 0 ++ [1] := by
  have := lsb_mul_pow 1 p (by decide)
  rw [lsb_digit 1 (by decide) (by decide), Nat.one_mul] at this
  exact this

theorem shift_one (p q N : Nat) (hp : p ≠ 0) (hq : p < q) (hN : N % 10 ^ q = 0) :
    (mk (lsb N)).shift p = (none, mk (lsb (N + 10 ^ p))) := by
  by_cases hz : N = 0
  · subst hz
    rw [lsb_zero, Nat.zero_add, lsb_pow, shift_empty p hp]
  · obtain ⟨A, rfl⟩ : ∃ A, N = 10 ^ q * A := ⟨N / 10 ^ q, by
      rw [Nat.mul_comm, Nat.div_mul_cancel (Nat.dvd_of_mod_eq_zero hN)]⟩
    have hA : A ≠ 0 := by intro h; subst h; exact hz rfl
    have hlt : 10 ^ p < 10 ^ q := Nat.pow_lt_pow_right (by decide) hq
    rw [Nat.add_comm, lsb_add_pow q (10 ^ p) A hA hlt, lsb_pow, Nat.mul_comm, lsb_mul_pow A q hA]
    have e1 : List.replicate q 0 = List.replicate p 0 ++ 0 :: List.replicate (q - p - 1) 0 := by
      have : q = p + (1 + (q - p - 1)) := by omega
      conv => lhs; rw [this]
      rw [← List.replicate_append_replicate, ← List.replicate_append_replicate]; rfl
    have e2 : (List.replicate p 0 ++ [1]).length = p + 1 := by simp
    rw [e2, e1, List.append_assoc, List.cons_append, shift_implicit p _ hp]
    have e3 : q - (p + 1) = q - p - 1 := by omega
    rw [e3]
    simp

theorem hundred_shift (d N : Nat) (h0 : d ≠ 0) (h9 : d < 10) (hN : N % 1000 = d) :
    (mk (lsb N)).shift 2 = (none, mk (lsb (N + 99 * d))) := by
  by_cases hz : N = d
  · subst hz
    have e : N + 99 * N = N * 10 ^ 2 := by omega
    rw [e, lsb_mul_pow N 2 h0, lsb_digit N h9 h0, shift_top [N] 2 (by simp) (by simp) (by decide)]
  · obtain ⟨m, rfl⟩ : ∃ m, N = d + 10 * (0 + 10 * (0 + 10 * m)) := ⟨N / 1000, by omega⟩
    have hm : m ≠ 0 := by omega
    have e : d + 10 * (0 + 10 * (0 + 10 * m)) + 99 * d = 0 + 10 * (0 + 10 * (d + 10 * m)) := by omega
    rw [e, lsb_cons d _ h9 (Or.inl h0), lsb_cons 0 _ (by decide) (Or.inr (by omega)),
      lsb_cons 0 m (by decide) (Or.inr hm), lsb_cons 0 _ (by decide) (Or.inr (by omega)),
      lsb_cons 0 _ (by decide) (Or.inr (by omega)), lsb_cons d m h9 (Or.inl h0)]
    have hs : DS.shiftSig ([d] ++ List.replicate 1 0) = [d] := by
      simp [DS.shiftSig, h0]
    exact shift_frame [d] (lsb m) 1 hs (by simp)


/-! ## word-step lemmas (frame form: arbitrary higher part, any fuel ≥ 1)

State = `(N, f)`: the buffer holds the digits of `N`, `flags = f` (`1` = `Excludable::TENS`). -/

/-- unit word `d` (1..9, `een` or `één`): adds `d`, sets the flag TENS -/
theorem unit_apply (k : Nat) (v : Var) (g d N f : Nat) (h0 : d ≠ 0) (h9 : d < 10) (hN : N % 100 = 0) :
    Nl.applyFuel (k + 1) (Nl.unitWord v g d) (mkf (lsb N) f) = (none, mkf (lsb (N + d)) 1) := by
  have he : (T2N.Nl.unit d).exec (mkf (lsb N) f) = (none, mkf (lsb (N + d)) f, 1) := by
    simp only [T2N.Nl.unit, Act.when, Act.exec]
    rw [if_pos (free2_lsb N f hN), put_mkf f (put1_lsb d N h0 h9 (by omega))]
  rw [applyFuel_ok k _ _ _ _ _ (plain_unit v g d h0 h9) he]; rfl

/-- `en` / `ën`: always `Incomplete`; the builder keeps its digits, the flags are cleared -/
theorem en_apply (k : Nat) (l : Word) (hl : l = w!"en" ∨ l = w!"ën") (N f : Nat) :
    Nl.applyFuel (k + 1) l (mkf (lsb N) f) = (some .incomplete, mkf (lsb N) 0) := by
  have he : (Act.fail Err.incomplete).exec (mkf (lsb N) f) = (some .incomplete, mkf (lsb N) f, 0) := rfl
  rcases hl with rfl | rfl
  · rw [applyFuel_err k _ _ _ _ _ _ plain_en he]; rfl
  · rw [applyFuel_err k _ _ _ _ _ _ plain_en' he]; rfl

/-- tens word (`twintig` … `negentig`) via `put_digit_at(t, 1)`: needs the flag TENS clear and the
tens position free (a unit may already be present) -/
theorem tens_apply (k t N : Nat) (h2 : 2 ≤ t) (h9 : t < 10) (hN : N % 100 < 10) :
    Nl.applyFuel (k + 1) (Nl.tensWord t) (mkf (lsb N) 0) = (none, mkf (lsb (N + 10 * t)) 0) := by
  have he : (T2N.Nl.tens t).exec (mkf (lsb N) 0) = (none, mkf (lsb (N + 10 * t)) 0, 0) := by
    simp only [T2N.Nl.tens, Act.when, Act.exec]
    have hg : (Guard.neg (.flag 1)).eval (mkf (lsb N) 0) = true := by
      simp [Guard.eval, hasBits, mkf]
    rw [if_pos hg, putDigitAt_mkf 0 (putAt_lsb t N (by omega) h9 hN)]
  rw [applyFuel_ok k _ _ _ _ _ (plain_tens t h2 h9) he]; rfl

/-- a tens word directly after a unit word is refused (flag TENS set) -/
theorem tens_blocked (k t N : Nat) (h2 : 2 ≤ t) (h9 : t < 10) :
    (Nl.applyFuel (k + 1) (Nl.tensWord t) (mkf (lsb N) 1)).1 = some .nan := by
  have he : (T2N.Nl.tens t).exec (mkf (lsb N) 1) = (some .nan, mkf (lsb N) 1, 0) := by
    simp only [T2N.Nl.tens, Act.when, Act.exec]
    have hg : (Guard.neg (.flag 1)).eval (mkf (lsb N) 1) = false := by
      simp [Guard.eval, hasBits, mkf]
    rw [if_neg (by rw [hg]; exact Bool.false_ne_true)]
  rw [applyFuel_err k _ _ _ _ _ _ (plain_tens t h2 h9) he]

/-- `tien` … `negentien` -/
theorem teen_apply (k : Nat) (v : Var) (g b N f : Nat) (hb : b < 10) (hN : N % 100 = 0) :
    Nl.applyFuel (k + 1) (Nl.unitWord v g (10 + b)) (mkf (lsb N) f) = (none, mkf (lsb (N + (10 + b))) 0) := by
  have he : (Act.put [1, b]).exec (mkf (lsb N) f) = (none, mkf (lsb (N + (10 + b))) f, 0) := by
    simp only [Act.exec]
    rw [put_mkf f (put2_lsb 1 b N (by decide) (by decide) hb hN)]
  rw [applyFuel_ok k _ _ _ _ _ (plain_teen v g b hb) he]; rfl

theorem hundred_guard (N f : Nat) (h1 : N ≠ 1) :
    (Guard.and (.peekLen 2 1) (.peekEq 2 [1])).eval (mkf (lsb N) f) = false := by
  simp only [Guard.eval]
  rw [peek2_ne N f h1, Bool.and_false]

/-- `honderd` after a multiplier `d` (2..9; also 1 unless the buffer is exactly `1`) -/
theorem honderd_apply_mul (k d N f : Nat) (h0 : d ≠ 0) (h9 : d < 10) (hN : N % 1000 = d) (h1 : N ≠ 1) :
    Nl.applyFuel (k + 1) w!"honderd" (mkf (lsb N) f) = (none, mkf (lsb (N + 99 * d)) 0) := by
  have he : T2N.Nl.hundred.exec (mkf (lsb N) f) = (none, mkf (lsb (N + 99 * d)) f, 0) := by
    simp only [T2N.Nl.hundred, Act.exec]
    rw [if_neg (by rw [hundred_guard N f h1]; exact Bool.false_ne_true),
      shift_mkf f (hundred_shift d N h0 h9 hN)]
  rw [applyFuel_ok k _ _ _ _ _ plain_honderd he]; rfl

/-- `honderd` without multiplier: the implicit `1` -/
theorem honderd_apply_one (k N f : Nat) (hN : N % 1000 = 0) :
    Nl.applyFuel (k + 1) w!"honderd" (mkf (lsb N) f) = (none, mkf (lsb (N + 100)) 0) := by
  have he : T2N.Nl.hundred.exec (mkf (lsb N) f) = (none, mkf (lsb (N + 100)) f, 0) := by
    simp only [T2N.Nl.hundred, Act.exec]
    rw [if_neg (by rw [hundred_guard N f (by omega)]; exact Bool.false_ne_true),
      shift_mkf f (shift_one 2 3 N (by decide) (by decide) hN)]
  rw [applyFuel_ok k _ _ _ _ _ plain_honderd he]; rfl

/-- `een honderd` on an empty builder is refused -/
theorem honderd_after_lone_one (k f : Nat) :
    (Nl.applyFuel (k + 1) w!"honderd" (mkf (lsb 1) f)).1 = some .overlap := by
  have he : T2N.Nl.hundred.exec (mkf (lsb 1) f) = (some .overlap, mkf (lsb 1) f, 0) := by
    rw [lsb_digit 1 (by decide) (by decide)]; rfl
  rw [applyFuel_err k _ _ _ _ _ _ plain_honderd he]

theorem rangeFree_mkf (r : List Nat) (f s e : Nat) : (mkf r f).rangeFree s e = (mk r).rangeFree s e := rfl

theorem exists_mul_of_mod {N q : Nat} (hN : N % 10 ^ q = 0) : ∃ A, N = 10 ^ q * A :=
  ⟨N / 10 ^ q, by rw [Nat.mul_comm, Nat.div_mul_cancel (Nat.dvd_of_mod_eq_zero hN)]⟩

theorem thousand_guards (N0 g f : Nat) (hN : N0 % 10 ^ 6 = 0) (g1 : g < 1000) (h1 : N0 + g ≠ 1) :
    (Guard.rangeFree 3 5).eval (mkf (lsb (N0 + g)) f) = true ∧
      (Guard.peekEq 2 [1]).eval (mkf (lsb (N0 + g)) f) = false := by
  refine ⟨?_, peek2_ne _ f h1⟩
  obtain ⟨A, rfl⟩ := exists_mul_of_mod hN
  rw [Nat.add_comm]
  exact rangeFree_lsb 3 g A (by decide) g1

/-- `duizend` after a multiplier group `g` (1..999; not a lone `1`) -/
theorem duizend_apply_mul (k N0 g f : Nat) (hN : N0 % 10 ^ 6 = 0) (g0 : g ≠ 0) (g1 : g < 1000) (h1 : N0 + g ≠ 1) :
    Nl.applyFuel (k + 1) w!"duizend" (mkf (lsb (N0 + g)) f) = (none, mkf (lsb (N0 + g * 1000)) 0) := by
  have he : T2N.Nl.thousand.exec (mkf (lsb (N0 + g)) f) = (none, mkf (lsb (N0 + g * 1000)) f, 0) := by
    obtain ⟨hg1, hg2⟩ := thousand_guards N0 g f hN g1 h1
    simp only [T2N.Nl.thousand, Act.when, Act.exec]
    rw [if_pos hg1, if_neg (by rw [hg2]; exact Bool.false_ne_true)]
    obtain ⟨A, rfl⟩ := exists_mul_of_mod hN
    have hs := shift_lsb 3 g A (by decide) g0 g1
    rw [Nat.add_comm _ g, Nat.add_comm _ (g * 1000), shift_mkf f hs]
  rw [applyFuel_ok k _ _ _ _ _ plain_duizend he]; rfl

/-- `duizend` without multiplier -/
theorem duizend_apply_one (k N0 f : Nat) (hN : N0 % 10 ^ 6 = 0) :
    Nl.applyFuel (k + 1) w!"duizend" (mkf (lsb N0) f) = (none, mkf (lsb (N0 + 1000)) 0) := by
  have he : T2N.Nl.thousand.exec (mkf (lsb N0) f) = (none, mkf (lsb (N0 + 1000)) f, 0) := by
    obtain ⟨hg1, hg2⟩ := thousand_guards N0 0 f hN (by decide) (by omega)
    rw [Nat.add_zero] at hg1 hg2
    simp only [T2N.Nl.thousand, Act.when, Act.exec]
    rw [if_pos hg1, if_neg (by rw [hg2]; exact Bool.false_ne_true),
      shift_mkf f (shift_one 3 6 N0 (by decide) (by decide) hN)]
  rw [applyFuel_ok k _ _ _ _ _ plain_duizend he]; rfl

/-- `een duizend` on an empty builder is refused -/
theorem duizend_after_lone_one (k f : Nat) :
    (Nl.applyFuel (k + 1) w!"duizend" (mkf (lsb 1) f)).1 = some .overlap := by
  have he : T2N.Nl.thousand.exec (mkf (lsb 1) f) = (some .overlap, mkf (lsb 1) f, 0) := by
    rw [lsb_digit 1 (by decide) (by decide)]; rfl
  rw [applyFuel_err k _ _ _ _ _ _ plain_duizend he]

theorem miljoen_apply (k N0 g f : Nat) (hN : N0 % 10 ^ 9 = 0) (g0 : g ≠ 0) (g1 : g < 1000) :
    Nl.applyFuel (k + 1) w!"miljoen" (mkf (lsb (N0 + g)) f) = (none, mkf (lsb (N0 + g * 10 ^ 6)) 0) := by
  have he : (Act.when (.rangeFree 6 8) (.shift 6)).exec (mkf (lsb (N0 + g)) f) =
      (none, mkf (lsb (N0 + g * 10 ^ 6)) f, 0) := by
    obtain ⟨A, rfl⟩ := exists_mul_of_mod hN
    have hg : (Guard.rangeFree 6 8).eval (mkf (lsb (10 ^ 9 * A + g)) f) = true := by
      rw [Nat.add_comm]; exact rangeFree_lsb 6 g A (by decide) g1
    simp only [Act.when, Act.exec]
    have hs := shift_lsb 6 g A (by decide) g0 g1
    rw [if_pos hg, Nat.add_comm _ g, Nat.add_comm _ (g * 10 ^ 6), shift_mkf f hs]
  rw [applyFuel_ok k _ _ _ _ _ plain_miljoen he]; rfl

theorem miljard_apply (k N0 g f : Nat) (hN : N0 % 10 ^ 12 = 0) (g0 : g ≠ 0) (g1 : g < 1000) :
    Nl.applyFuel (k + 1) w!"miljard" (mkf (lsb (N0 + g)) f) = (none, mkf (lsb (N0 + g * 10 ^ 9)) 0) := by
  have he : (Act.shift 9).exec (mkf (lsb (N0 + g)) f) = (none, mkf (lsb (N0 + g * 10 ^ 9)) f, 0) := by
    obtain ⟨A, rfl⟩ := exists_mul_of_mod hN
    simp only [Act.exec]
    have hs := shift_lsb 9 g A (by decide) g0 g1
    rw [Nat.add_comm _ g, Nat.add_comm _ (g * 10 ^ 9), shift_mkf f hs]
  rw [applyFuel_ok k _ _ _ _ _ plain_miljard he]; rfl


/-! ## the splitter: leftmost-longest matching on concatenations of atoms -/

/-- concatenation of words (what `Spec.Nl.fuse` produces) -/
def concat (ws : List Word) : Word := ws.foldr (· ++ ·) []

theorem concat_cons (a : Word) (t : List Word) : concat (a :: t) = a ++ concat t := rfl

theorem concat_append (as bs : List Word) : concat (as ++ bs) = concat as ++ concat bs := by
  induction as with
  | nil => rfl
  | cons a t ih => rw [List.cons_append, concat_cons, concat_cons, ih, List.append_assoc]

theorem concat_single (a : Word) : concat [a] = a := by
  show a ++ [] = a
  rw [List.append_nil]

theorem isPrefixOf_append (p s rest : Word) :
    p.isPrefixOf (s ++ rest) = (p.isPrefixOf s || (s.isPrefixOf p && (p.drop s.length).isPrefixOf rest)) := by
  induction s generalizing p with
  | nil => cases p <;> simp
  | cons a s ih =>
    cases p with
    | nil => simp
    | cons c p =>
      by_cases hca : c = a
      · subst hca; simp [ih]
      · have hac : ¬ a = c := fun h => hca h.symm
        have h1 : (c == a) = false := by simp [hca]
        have h2 : (a == c) = false := by simp [hac]
        simp only [List.cons_append, List.isPrefixOf_cons_cons, h1, h2, Bool.false_and, Bool.or_false]

theorem isPrefixOf_take (n : Nat) : ∀ (q rest : Word), q.isPrefixOf rest = true →
    (q.take n).isPrefixOf (rest.take n) = true := by
  induction n with
  | zero => intro q rest _; simp
  | succ n ih =>
    intro q rest h
    cases q with
    | nil => simp
    | cons c q =>
      cases rest with
      | nil => simp at h
      | cons d rest =>
        simp only [List.isPrefixOf_cons_cons, Bool.and_eq_true] at h
        simp only [List.take_succ_cons, List.isPrefixOf_cons_cons, Bool.and_eq_true]
        exact ⟨h.1, ih q rest h.2⟩

/-- no pattern that properly extends `s` continues with the first two characters `r2` of what follows -/
def noExt (pats : List Word) (s r2 : Word) : Bool :=
  pats.all fun p => !(s.isPrefixOf p && !(p.isPrefixOf s) && ((p.drop s.length).take 2).isPrefixOf r2)

theorem longestAt_congr (pats : List Word) (x y : Word) (h : ∀ p ∈ pats, p.isPrefixOf x = p.isPrefixOf y) :
    longestAt pats x = longestAt pats y := by
  unfold longestAt
  generalize (none : Option Nat) = acc
  induction pats generalizing acc with
  | nil => rfl
  | cons p ps ih =>
    rw [List.foldl_cons, List.foldl_cons, h p List.mem_cons_self]
    exact ih (fun q hq => h q (List.mem_cons_of_mem _ hq)) _

theorem longestAt_append (pats : List Word) (s rest : Word) (h : noExt pats s (rest.take 2) = true) :
    longestAt pats (s ++ rest) = longestAt pats s := by
  apply longestAt_congr
  intro p hp
  have hc := List.all_eq_true.mp h p hp
  rw [isPrefixOf_append]
  cases h1 : p.isPrefixOf s with
  | true => rfl
  | false =>
    rw [Bool.false_or]
    cases h2 : s.isPrefixOf p with
    | false => rfl
    | true =>
      rw [Bool.true_and]
      cases h3 : (p.drop s.length).isPrefixOf rest with
      | false => rfl
      | true =>
        have := isPrefixOf_take 2 _ _ h3
        rw [h1, h2, this] at hc
        exact absurd hc (by decide)

abbrev P : List Word := Nl.patterns

/-- from a piece boundary with a pending gap, `rest` (empty or beginning with a match) splits into `ps` -/
def Sp (rest : Word) (ps : List Word) : Prop :=
  ∀ f gap, rest.length ≤ f →
    splitWordFuel P f rest gap = (if gap.isEmpty then [] else [gap.reverse]) ++ ps

/-- from a piece boundary without pending gap, `rest` splits into `ps` -/
def SpG (rest : Word) (ps : List Word) : Prop :=
  ∀ f, rest.length ≤ f → splitWordFuel P f rest [] = ps

theorem Sp.toG {rest : Word} {ps : List Word} (h : Sp rest ps) : SpG rest ps := by
  intro f hf
  have := h f [] hf
  simpa using this

theorem Sp.nil : Sp [] [] := by
  intro f gap _
  cases f <;> simp [splitWordFuel]

theorem pat_cons (A rest : Word) (ps : List Word) (hne : A ≠ [])
    (hA : longestAt P (A ++ rest) = some A.length) (hr : SpG rest ps) : Sp (A ++ rest) (A :: ps) := by
  intro f gap hf
  obtain ⟨c, cs, rfl⟩ := List.exists_cons_of_ne_nil hne
  cases f with
  | zero => simp at hf
  | succ f =>
    rw [List.cons_append] at hA ⊢
    rw [splitWordFuel, hA]
    dsimp only
    rw [← List.cons_append, List.take_left' rfl, List.drop_left' rfl, hr f (by simp at hf; omega)]
    simp

/-- no non-empty suffix of `s`, continued by `rest`, starts with a match -/
def GapRun (rest : Word) : Word → Prop
  | [] => True
  | c :: s => longestAt P (c :: s ++ rest) = none ∧ GapRun rest s

theorem gap_run (rest : Word) (ps : List Word) (hr : Sp rest ps) : ∀ (s gap : Word) (f : Nat),
    GapRun rest s → (s ++ rest).length ≤ f →
    splitWordFuel P f (s ++ rest) gap =
      (if (s.reverse ++ gap).isEmpty then [] else [(s.reverse ++ gap).reverse]) ++ ps := by
  intro s
  induction s with
  | nil => intro gap f _ hf; exact hr f gap hf
  | cons c s ih =>
    intro gap f hs hf
    cases f with
    | zero => simp at hf
    | succ f =>
      have h0 := hs.1
      rw [List.cons_append] at h0 ⊢
      rw [splitWordFuel, h0]
      dsimp only
      rw [ih (c :: gap) f hs.2 (by simp at hf ⊢; omega)]
      simp

theorem firstMatch_gap (rest : Word) : ∀ (s : Word) (i : Nat),
    GapRun rest s →
    firstMatch P (s ++ rest) i = firstMatch P rest (i + s.length) := by
  intro s
  induction s with
  | nil => intro i _; rfl
  | cons c s ih =>
    intro i hs
    have h0 := hs.1
    rw [List.cons_append] at h0 ⊢
    rw [firstMatch, h0]
    dsimp only
    rw [ih (i + 1) hs.2]
    simp only [List.length_cons]
    congr 1; omega

/-- every non-empty suffix of the gap atom `a` starts no match, whatever follows (first two characters `r2`) -/
def gapOk : Word → Word → Bool
  | [], _ => true
  | c :: s, r2 => longestAt P (c :: s) == none && noExt P (c :: s) r2 && gapOk s r2

theorem gapOk_spec (rest : Word) : ∀ (a : Word), gapOk a (rest.take 2) = true → GapRun rest a := by
  intro a
  induction a with
  | nil => intro _; trivial
  | cons c s ih =>
    intro h
    rw [gapOk, Bool.and_eq_true, Bool.and_eq_true, beq_iff_eq] at h
    exact ⟨by rw [longestAt_append P (c :: s) rest h.1.2, h.1.1], ih h.2⟩

theorem gap_cons (A rest : Word) (ps : List Word) (hne : A ≠ []) (h : gapOk A (rest.take 2) = true)
    (hr : Sp rest ps) : SpG (A ++ rest) (A :: ps) := by
  intro f hf
  rw [gap_run rest ps hr A [] f (gapOk_spec rest A h) hf]
  have : (A.reverse ++ []).isEmpty = false := by
    cases A with
    | nil => exact absurd rfl hne
    | cons c cs => simp
  rw [this]
  simp

/-- `a` is a pattern and no longer pattern starts with it -/
def isPat (a : Word) : Bool := longestAt P a == some a.length

/-- local condition on the atom `a` followed by the atom `nxt` (or by the end of the word) -/
def atomOk (a : Word) (nxt : Option Word) : Bool :=
  match nxt with
  | none => !a.isEmpty && (if isPat a then noExt P a [] else gapOk a [])
  | some b => !a.isEmpty && decide (2 ≤ b.length) &&
      (if isPat a then noExt P a (b.take 2) else isPat b && gapOk a (b.take 2))

def chainTo : List Word → Option Word → Bool
  | [], _ => true
  | [a], nxt => atomOk a nxt
  | a :: b :: t, nxt => atomOk a (some b) && chainTo (b :: t) nxt

def headOpt (bs : List Word) (nxt : Option Word) : Option Word :=
  match bs with
  | [] => nxt
  | b :: _ => some b

theorem chainTo_append (as bs : List Word) (nxt : Option Word) :
    chainTo (as ++ bs) nxt = (chainTo as (headOpt bs nxt) && chainTo bs nxt) := by
  induction as with
  | nil => simp [chainTo]
  | cons a t ih =>
    cases t with
    | nil =>
      cases bs with
      | nil => simp [chainTo, headOpt]
      | cons b bs => simp [chainTo, headOpt]
    | cons a' t =>
      rw [List.cons_append, List.cons_append, chainTo, ← List.cons_append, ih, chainTo, Bool.and_assoc]

theorem chainTo_cons (a : Word) (t : List Word) (nxt : Option Word) :
    chainTo (a :: t) nxt = (atomOk a (headOpt t nxt) && chainTo t nxt) := by
  have := chainTo_append [a] t nxt
  rw [List.singleton_append] at this
  rw [this]; rfl

def headPat (as : List Word) : Prop :=
  match as with
  | [] => True
  | a :: _ => isPat a = true

theorem take2_concat (b : Word) (t : List Word) (hb : 2 ≤ b.length) : (concat (b :: t)).take 2 = b.take 2 := by
  rw [concat_cons, List.take_append_of_le_length hb]

/-- the first two characters of what follows `a` in the chain -/
theorem atomOk_unfold (a : Word) (t : List Word) (h : atomOk a (headOpt t none) = true) :
    a ≠ [] ∧ (isPat a = true → noExt P a ((concat t).take 2) = true) ∧
      (isPat a = false → headPat t ∧ gapOk a ((concat t).take 2) = true) := by
  cases t with
  | nil =>
    simp only [headOpt, atomOk, Bool.and_eq_true, Bool.not_eq_true'] at h
    have hne : a ≠ [] := by intro e; subst e; simp at h
    refine ⟨hne, ?_, ?_⟩
    · intro hp; rw [hp] at h; simpa [concat] using h.2
    · intro hp; rw [hp] at h; exact ⟨trivial, by simpa [concat] using h.2⟩
  | cons b t =>
    simp only [headOpt, atomOk, Bool.and_eq_true, Bool.not_eq_true', decide_eq_true_eq] at h
    have hne : a ≠ [] := by intro e; subst e; simp at h
    rw [take2_concat b t h.1.2]
    refine ⟨hne, ?_, ?_⟩
    · intro hp; rw [hp] at h; simpa using h.2
    · intro hp; rw [hp] at h
      have h2 := h.2
      simp only [Bool.false_eq_true, if_false, Bool.and_eq_true] at h2
      exact ⟨h2.1, h2.2⟩

/-- **structural splitter lemma**: a concatenation of atoms whose adjacent pairs pass the local check
`atomOk` is split by the leftmost-longest splitter exactly into its atoms -/
theorem chain_split : ∀ (as : List Word), chainTo as none = true →
    SpG (concat as) as ∧ (headPat as → Sp (concat as) as) := by
  intro as
  induction as with
  | nil => intro _; exact ⟨Sp.nil.toG, fun _ => Sp.nil⟩
  | cons a t ih =>
    intro h
    rw [chainTo_cons, Bool.and_eq_true] at h
    obtain ⟨hne, hp, hg⟩ := atomOk_unfold a t h.1
    obtain ⟨ih1, ih2⟩ := ih h.2
    rw [concat_cons]
    cases hpa : isPat a with
    | true =>
      have hl : longestAt P (a ++ concat t) = some a.length := by
        rw [longestAt_append P a _ (hp hpa)]
        simpa [isPat] using hpa
      have := pat_cons a (concat t) t hne hl ih1
      exact ⟨this.toG, fun _ => this⟩
    | false =>
      obtain ⟨hh, hgo⟩ := hg hpa
      refine ⟨gap_cons a (concat t) t hne hgo (ih2 hh), ?_⟩
      intro hh'
      simp only [headPat] at hh'
      rw [hpa] at hh'
      exact absurd hh' (by decide)

theorem splitWord_chain (as : List Word) (h : chainTo as none = true) : splitWord P (concat as) = as :=
  (chain_split as h).1 _ (Nat.le_succ _)

theorem firstMatch_pat (a rest : Word) (i : Nat) (hne : a ≠ []) (hl : longestAt P (a ++ rest) = some a.length) :
    firstMatch P (a ++ rest) i = some (i, i + a.length) := by
  obtain ⟨c, cs, rfl⟩ := List.exists_cons_of_ne_nil hne
  rw [List.cons_append] at hl ⊢
  rw [firstMatch, hl]

theorem isSplittable_chain (a b : Word) (t : List Word) (h : chainTo (a :: b :: t) none = true) :
    isSplittable P (concat (a :: b :: t)) = true := by
  rw [chainTo_cons, Bool.and_eq_true] at h
  obtain ⟨hne, hp, hg⟩ := atomOk_unfold a (b :: t) h.1
  have h2 := h.2
  rw [chainTo_cons, Bool.and_eq_true] at h2
  obtain ⟨hneb, hpb, _⟩ := atomOk_unfold b t h2.1
  have hblen : 0 < b.length := List.length_pos_iff.mpr hneb
  unfold isSplittable
  cases hpa : isPat a with
  | true =>
    have hl : longestAt P (a ++ concat (b :: t)) = some a.length := by
      rw [longestAt_append P a _ (hp hpa)]
      simpa [isPat] using hpa
    rw [concat_cons, firstMatch_pat a _ 0 hne hl]
    simp only [concat_cons, List.length_append, Nat.zero_add]
    simp; omega
  | false =>
    obtain ⟨hh, hgo⟩ := hg hpa
    have hpb' : isPat b = true := hh
    have hl : longestAt P (b ++ concat t) = some b.length := by
      rw [longestAt_append P b _ (hpb hpb')]
      simpa [isPat] using hpb'
    rw [concat_cons, firstMatch_gap _ a 0 (gapOk_spec _ a hgo), concat_cons, firstMatch_pat b _ _ hneb hl]
    have : 0 < a.length := List.length_pos_iff.mpr hne
    simp; omega



/-! ## the atoms of the speller and the kernel-checked table of adjacent pairs -/

def unitWs : List Word := [w!"een", w!"één", w!"twee", w!"drie", w!"vier", w!"vijf", w!"zes", w!"zeven",
  w!"acht", w!"negen"]
def teenWs : List Word := [w!"tien", w!"elf", w!"twaalf", w!"dertien", w!"veertien", w!"vijftien", w!"zestien",
  w!"zeventien", w!"achttien", w!"negentien"]
def tensWs : List Word := [w!"twintig", w!"dertig", w!"veertig", w!"vijftig", w!"zestig", w!"zeventig",
  w!"tachtig", w!"negentig"]
def scaleWs : List Word := [w!"duizend", w!"miljoen", w!"miljard"]
/-- what may follow a complete group: the end of the word or a scale word -/
def ends : List (Option Word) := none :: scaleWs.map some
/-- the words below 100 that are single atoms -/
def lowWs : List Word := unitWs ++ teenWs ++ tensWs
def afterH : List (Option Word) := none :: (scaleWs ++ lowWs).map some
def afterD : List (Option Word) := none :: (w!"honderd" :: lowWs).map some
/-- unit followed by its link in an attached tens-unit compound (`tweeen…` is not spelled) -/
def linkPairs : List (Word × Word) := [(w!"een", w!"en"), (w!"één", w!"en"), (w!"twee", w!"ën"),
  (w!"drie", w!"en"), (w!"drie", w!"ën"), (w!"vier", w!"en"), (w!"vijf", w!"en"), (w!"zes", w!"en"),
  (w!"zeven", w!"en"), (w!"acht", w!"en"), (w!"negen", w!"en")]

set_option maxRecDepth 100000 in
theorem tbl_H : (afterH.all fun n => atomOk w!"honderd" n) = true := by decide +kernel
set_option maxRecDepth 100000 in
theorem tbl_D : (afterD.all fun n => atomOk w!"duizend" n) = true := by decide +kernel
set_option maxRecDepth 100000 in
theorem tbl_end : ((w!"honderd" :: lowWs).all fun a => ends.all fun n => atomOk a n) = true := by decide +kernel
set_option maxRecDepth 100000 in
theorem tbl_uh : (unitWs.all fun a => atomOk a (some w!"honderd")) = true := by decide +kernel
set_option maxRecDepth 100000 in
theorem tbl_link : (linkPairs.all fun p => atomOk p.1 (some p.2)) = true := by decide +kernel
set_option maxRecDepth 100000 in
theorem tbl_lt : ([w!"en", w!"ën"].all fun l => tensWs.all fun t => atomOk l (some t)) = true := by decide +kernel
set_option maxRecDepth 100000 in
theorem tbl_M : (atomOk w!"miljoen" none && atomOk w!"miljard" none) = true := by decide +kernel

theorem mem_unit (v : Var) (g d : Nat) (h0 : d ≠ 0) (h9 : d < 10) : Nl.unitWord v g d ∈ unitWs := by
  have : d = 1 ∨ d = 2 ∨ d = 3 ∨ d = 4 ∨ d = 5 ∨ d = 6 ∨ d = 7 ∨ d = 8 ∨ d = 9 := by omega
  rcases this with rfl | rfl | rfl | rfl | rfl | rfl | rfl | rfl | rfl
  · unfold Nl.unitWord
    cases flag v (cp g 3) <;> decide
  all_goals (rw [unitWord_ne1 v g _ (by decide)]; decide)

theorem mem_teen (v : Var) (g b : Nat) (h9 : b < 10) : Nl.unitWord v g (10 + b) ∈ teenWs := by
  rw [unitWord_ne1 v g _ (by omega)]
  have : b = 0 ∨ b = 1 ∨ b = 2 ∨ b = 3 ∨ b = 4 ∨ b = 5 ∨ b = 6 ∨ b = 7 ∨ b = 8 ∨ b = 9 := by omega
  rcases this with rfl | rfl | rfl | rfl | rfl | rfl | rfl | rfl | rfl | rfl <;> decide

theorem mem_tens (t : Nat) (h2 : 2 ≤ t) (h9 : t < 10) : Nl.tensWord t ∈ tensWs := by
  have : t = 2 ∨ t = 3 ∨ t = 4 ∨ t = 5 ∨ t = 6 ∨ t = 7 ∨ t = 8 ∨ t = 9 := by omega
  rcases this with rfl | rfl | rfl | rfl | rfl | rfl | rfl | rfl <;> decide

theorem linkWord_en (v : Var) (g u : Nat) (h2 : u ≠ 2) (h3 : u ≠ 3) : Nl.linkWord v g u = w!"en" := by
  unfold Nl.linkWord
  rw [if_neg (by simp [h2]), if_neg (by simp [h3])]

theorem mem_link (v : Var) (g u : Nat) (h0 : u ≠ 0) (h9 : u < 10) :
    (Nl.unitWord v g u, Nl.linkWord v g u) ∈ linkPairs := by
  have : u = 1 ∨ u = 2 ∨ u = 3 ∨ u = 4 ∨ u = 5 ∨ u = 6 ∨ u = 7 ∨ u = 8 ∨ u = 9 := by omega
  rcases this with rfl | rfl | rfl | rfl | rfl | rfl | rfl | rfl | rfl
  · rw [linkWord_en v g 1 (by decide) (by decide)]
    unfold Nl.unitWord
    cases flag v (cp g 3) <;> decide
  · rw [unitWord_ne1 v g _ (by decide)]
    have : Nl.linkWord v g 2 = w!"ën" := rfl
    rw [this]; decide
  · rw [unitWord_ne1 v g _ (by decide)]
    have : Nl.linkWord v g 3 = if flag v (cp g 4) then w!"en" else w!"ën" := rfl
    rw [this]
    cases flag v (cp g 4) <;> decide
  all_goals (rw [unitWord_ne1 v g _ (by decide), linkWord_en v g _ (by decide) (by decide)]; decide)

theorem link_cases (v : Var) (g u : Nat) : Nl.linkWord v g u = w!"en" ∨ Nl.linkWord v g u = w!"ën" := by
  unfold Nl.linkWord
  by_cases h2 : (u == 2) = true
  · rw [if_pos h2]; exact Or.inr rfl
  · rw [if_neg h2]
    by_cases h3 : (u == 3) = true
    · rw [if_pos h3]; cases flag v (cp g 4)
      · exact Or.inr rfl
      · exact Or.inl rfl
    · rw [if_neg h3]; exact Or.inl rfl

theorem scaleWord_mem (k : Nat) : Nl.scaleWord k ∈ scaleWs := by
  unfold Nl.scaleWord
  split <;> decide

/-! ### the atoms of a group -/

def hsAtoms (v : Var) (g h : Nat) : List Word :=
  if h = 0 then [] else if h = 1 then [w!"honderd"] else [Nl.unitWord v g h, w!"honderd"]

/-- below 100, with link word `l` -/
def rsAtoms (v : Var) (g r : Nat) (l : Word) : List Word :=
  if r = 0 then [] else if r < 20 then [Nl.unitWord v g r]
  else if r % 10 = 0 then [Nl.tensWord (r / 10)]
  else [Nl.unitWord v g (r % 10), l, Nl.tensWord (r / 10)]

/-- the atoms of the attached spelling of the group `n` -/
def groupAtoms (v : Var) (g n : Nat) : List Word :=
  hsAtoms v g (n / 100) ++ rsAtoms v g (n % 100) (Nl.linkWord v g (n % 100 % 10))

theorem mem_all {α} {l : List α} {p : α → Bool} (h : l.all p = true) {x : α} (hx : x ∈ l) : p x = true :=
  List.all_eq_true.mp h x hx

theorem ends_sub_afterH {n : Option Word} (h : n ∈ ends) : n ∈ afterH := by
  simp only [ends, afterH, List.mem_cons, List.mem_map, List.mem_append] at h ⊢
  rcases h with h | ⟨a, ha, rfl⟩
  · exact Or.inl h
  · exact Or.inr ⟨a, Or.inl ha, rfl⟩

theorem low_unit {a : Word} (h : a ∈ unitWs) : a ∈ lowWs := by
  simp only [lowWs, List.mem_append]; exact Or.inl (Or.inl h)
theorem low_teen {a : Word} (h : a ∈ teenWs) : a ∈ lowWs := by
  simp only [lowWs, List.mem_append]; exact Or.inl (Or.inr h)
theorem low_tens {a : Word} (h : a ∈ tensWs) : a ∈ lowWs := by
  simp only [lowWs, List.mem_append]; exact Or.inr h

theorem low_afterH {a : Word} (h : a ∈ lowWs) : some a ∈ afterH := by
  simp only [afterH, List.mem_cons, List.mem_map, List.mem_append]
  exact Or.inr ⟨a, Or.inr h, rfl⟩
theorem low_afterD {a : Word} (h : a ∈ lowWs) : some a ∈ afterD := by
  simp only [afterD, List.mem_cons, List.mem_map]
  exact Or.inr ⟨a, Or.inr h, rfl⟩

theorem atomOk_low_end {a : Word} {n : Option Word} (ha : a ∈ lowWs) (hn : n ∈ ends) : atomOk a n = true :=
  mem_all (mem_all tbl_end (List.mem_cons_of_mem _ ha)) hn

/-- the first atom of the part below 100 (or what follows, if that part is empty) -/
theorem rs_head (v : Var) (g r : Nat) (l : Word) (nxt : Option Word) (h1 : r < 100) :
    (r = 0 ∧ headOpt (rsAtoms v g r l) nxt = nxt) ∨ (r ≠ 0 ∧ ∃ a, a ∈ lowWs ∧ headOpt (rsAtoms v g r l) nxt = some a) := by
  unfold rsAtoms
  by_cases h0 : r = 0
  · rw [if_pos h0]; exact Or.inl ⟨h0, rfl⟩
  · rw [if_neg h0]
    right
    refine ⟨h0, ?_⟩
    by_cases h20 : r < 20
    · rw [if_pos h20]
      refine ⟨_, ?_, rfl⟩
      by_cases h10 : r < 10
      · exact low_unit (mem_unit v g r h0 h10)
      · obtain ⟨b, rfl⟩ : ∃ b, r = 10 + b := ⟨r - 10, by omega⟩
        exact low_teen (mem_teen v g b (by omega))
    · rw [if_neg h20]
      by_cases hu : r % 10 = 0
      · rw [if_pos hu]; exact ⟨_, low_tens (mem_tens _ (by omega) (by omega)), rfl⟩
      · rw [if_neg hu]; exact ⟨_, low_unit (mem_unit v g _ hu (by omega)), rfl⟩

theorem chain_rs (v : Var) (g r : Nat) (nxt : Option Word) (h1 : r < 100) (hn : nxt ∈ ends) :
    chainTo (rsAtoms v g r (Nl.linkWord v g (r % 10))) nxt = true := by
  unfold rsAtoms
  by_cases h0 : r = 0
  · rw [if_pos h0]; rfl
  · rw [if_neg h0]
    by_cases h20 : r < 20
    · rw [if_pos h20]
      show atomOk _ nxt = true
      by_cases h10 : r < 10
      · exact atomOk_low_end (low_unit (mem_unit v g r h0 h10)) hn
      · obtain ⟨b, rfl⟩ : ∃ b, r = 10 + b := ⟨r - 10, by omega⟩
        exact atomOk_low_end (low_teen (mem_teen v g b (by omega))) hn
    · rw [if_neg h20]
      have ht := mem_tens (r / 10) (by omega) (by omega)
      by_cases hu : r % 10 = 0
      · rw [if_pos hu]
        exact atomOk_low_end (low_tens ht) hn
      · rw [if_neg hu]
        show (atomOk _ (some _) && (atomOk _ (some _) && atomOk _ nxt)) = true
        have a1 : atomOk (Nl.unitWord v g (r % 10)) (some (Nl.linkWord v g (r % 10))) = true :=
          mem_all tbl_link (mem_link v g (r % 10) hu (by omega))
        have a2 : atomOk (Nl.linkWord v g (r % 10)) (some (Nl.tensWord (r / 10))) = true := by
          have hl : Nl.linkWord v g (r % 10) ∈ [w!"en", w!"ën"] := by
            rcases link_cases v g (r % 10) with e | e <;> rw [e] <;> decide
          exact mem_all (mem_all tbl_lt hl) ht
        rw [a1, a2, atomOk_low_end (low_tens ht) hn]; rfl

theorem chain_hs (v : Var) (g h : Nat) (nxt : Option Word) (h9 : h < 10) (hn : nxt ∈ afterH) :
    chainTo (hsAtoms v g h) nxt = true := by
  unfold hsAtoms
  by_cases h0 : h = 0
  · rw [if_pos h0]; rfl
  · rw [if_neg h0]
    by_cases h1 : h = 1
    · rw [if_pos h1]; exact mem_all tbl_H hn
    · rw [if_neg h1]
      show (atomOk _ (some _) && atomOk _ nxt) = true
      rw [mem_all tbl_uh (mem_unit v g h h0 h9), mem_all tbl_H hn]; rfl

/-- the atoms of a group, followed by the end of the word or a scale word, pass the local checks -/
theorem chain_group (v : Var) (g n : Nat) (nxt : Option Word) (h1 : n < 1000) (hn : nxt ∈ ends) :
    chainTo (groupAtoms v g n) nxt = true := by
  unfold groupAtoms
  rw [chainTo_append, chain_rs v g (n % 100) nxt (by omega) hn, Bool.and_true]
  apply chain_hs v g (n / 100) _ (by omega)
  rcases rs_head v g (n % 100) (Nl.linkWord v g (n % 100 % 10)) nxt (by omega) with ⟨_, e⟩ | ⟨_, a, ha, e⟩
  · rw [e]; exact ends_sub_afterH hn
  · rw [e]; exact low_afterH ha

/-- the first atom of a non-empty group may follow `duizend` -/
theorem group_head (v : Var) (g n : Nat) (h0 : n ≠ 0) (h1 : n < 1000) :
    headOpt (groupAtoms v g n) none ∈ afterD := by
  unfold groupAtoms hsAtoms
  by_cases hh0 : n / 100 = 0
  · rw [if_pos hh0, List.nil_append]
    rcases rs_head v g (n % 100) (Nl.linkWord v g (n % 100 % 10)) none (by omega) with ⟨hr, _⟩ | ⟨_, a, ha, e⟩
    · omega
    · rw [e]; exact low_afterD ha
  · rw [if_neg hh0]
    by_cases hh1 : n / 100 = 1
    · rw [if_pos hh1]
      show some w!"honderd" ∈ afterD
      decide
    · rw [if_neg hh1]
      exact low_afterD (low_unit (mem_unit v g _ hh0 (by omega)))



/-! ## sequences of words -/

/-- running `ws` (then anything) with `applyFuel (k+1)` from state `(N, f)` is running the rest from `(N', f')` -/
def Steps (k : Nat) (ws : List Word) (N f N' f' : Nat) : Prop :=
  ∀ rest, execGroupFrom (Nl.applyFuel (k + 1)) (ws ++ rest) (mkf (lsb N) f) false =
    execGroupFrom (Nl.applyFuel (k + 1)) rest (mkf (lsb N') f') false

theorem Steps.nil (k N f : Nat) : Steps k [] N f N f := fun _ => rfl

theorem Steps.append {k : Nat} {a b : List Word} {N f N' f' N'' f'' : Nat} (h1 : Steps k a N f N' f')
    (h2 : Steps k b N' f' N'' f'') : Steps k (a ++ b) N f N'' f'' := by
  intro rest; rw [List.append_assoc, h1, h2]

theorem Steps.single {k : Nat} {w : Word} {N f N' f' : Nat}
    (h : Nl.applyFuel (k + 1) w (mkf (lsb N) f) = (none, mkf (lsb N') f')) : Steps k [w] N f N' f' := by
  intro rest
  rw [List.singleton_append, execGroupFrom, h]

theorem Steps.cast {k : Nat} {ws : List Word} {N f N' f' M : Nat} (h : Steps k ws N f N' f') (e : N' = M) :
    Steps k ws N f M f' := e ▸ h

/-- link word + tens word: `Incomplete`, then the tens digit is written above the unit -/
theorem Steps.link (k : Nat) (l : Word) (hl : l = w!"en" ∨ l = w!"ën") (t N f : Nat) (h2 : 2 ≤ t) (h9 : t < 10)
    (hN : N % 100 < 10) : Steps k [l, Nl.tensWord t] N f (N + 10 * t) 0 := by
  intro rest
  rw [List.cons_append, List.cons_append, List.nil_append, execGroupFrom, en_apply k l hl N f]
  dsimp only
  rw [execGroupFrom, tens_apply k t N h2 h9 hN]

theorem hs_steps (k : Nat) (v : Var) (g h N : Nat) (h9 : h < 10) (hN : N % 1000 = 0) :
    Steps k (hsAtoms v g h) N 0 (N + 100 * h) 0 := by
  unfold hsAtoms
  by_cases h0 : h = 0
  · rw [if_pos h0]; exact (Steps.nil k N 0).cast (by omega)
  · rw [if_neg h0]
    by_cases h1 : h = 1
    · rw [if_pos h1]
      exact (Steps.single (honderd_apply_one k N 0 hN)).cast (by omega)
    · rw [if_neg h1]
      have s1 : Steps k [Nl.unitWord v g h] N 0 (N + h) 1 :=
        Steps.single (unit_apply k v g h N 0 h0 h9 (by omega))
      have s2 : Steps k [w!"honderd"] (N + h) 1 (N + h + 99 * h) 0 :=
        Steps.single (honderd_apply_mul k h (N + h) 1 h0 h9 (by omega) (by omega))
      exact (Steps.append s1 s2).cast (by omega)

theorem rs_steps (k : Nat) (v : Var) (g r : Nat) (l : Word) (hl : l = w!"en" ∨ l = w!"ën") (N : Nat)
    (h1 : r < 100) (hN : N % 100 = 0) : ∃ fl, Steps k (rsAtoms v g r l) N 0 (N + r) fl := by
  unfold rsAtoms
  by_cases h0 : r = 0
  · rw [if_pos h0]; exact ⟨0, (Steps.nil k N 0).cast (by omega)⟩
  · rw [if_neg h0]
    by_cases h20 : r < 20
    · rw [if_pos h20]
      by_cases h10 : r < 10
      · exact ⟨1, Steps.single (unit_apply k v g r N 0 h0 h10 hN)⟩
      · obtain ⟨b, rfl⟩ : ∃ b, r = 10 + b := ⟨r - 10, by omega⟩
        exact ⟨0, Steps.single (teen_apply k v g b N 0 (by omega) hN)⟩
    · rw [if_neg h20]
      by_cases hu : r % 10 = 0
      · rw [if_pos hu]
        exact ⟨0, (Steps.single (tens_apply k (r / 10) N (by omega) (by omega) (by omega))).cast (by omega)⟩
      · rw [if_neg hu]
        have s1 : Steps k [Nl.unitWord v g (r % 10)] N 0 (N + r % 10) 1 :=
          Steps.single (unit_apply k v g (r % 10) N 0 hu (by omega) hN)
        have s2 := Steps.link k l hl (r / 10) (N + r % 10) 1 (by omega) (by omega) (by omega)
        exact ⟨0, (Steps.append s1 s2).cast (by omega)⟩

/-- **per-group theorem on atoms**: the atoms of the group `n` (any fuel, arbitrary higher part) add `n` -/
theorem group_atoms_steps (k : Nat) (v : Var) (g n N : Nat) (_h1 : n < 1000) (hN : N % 1000 = 0) :
    ∃ fl, Steps k (groupAtoms v g n) N 0 (N + n) fl := by
  unfold groupAtoms
  have s1 := hs_steps k v g (n / 100) N (by omega) hN
  obtain ⟨fl, s2⟩ := rs_steps k v g (n % 100) _ (link_cases v g (n % 100 % 10)) (N + 100 * (n / 100))
    (by omega) (by omega)
  exact ⟨fl, (Steps.append s1 s2).cast (by omega)⟩

theorem groupAtoms_ne_nil (v : Var) (g n : Nat) (h0 : n ≠ 0) (_h1 : n < 1000) : groupAtoms v g n ≠ [] := by
  unfold groupAtoms hsAtoms rsAtoms
  by_cases hh : n / 100 = 0
  · rw [if_pos hh, if_neg (by omega)]
    split
    · simp
    · split <;> simp
  · rw [if_neg hh]
    split <;> simp

theorem scale_steps (k j N0 g f : Nat) (hj : j = 1 ∨ j = 2 ∨ j = 3) (hN : N0 % 10 ^ (3 * j + 3) = 0)
    (g0 : g ≠ 0) (g1 : g < 1000) (h1 : j = 1 → N0 + g ≠ 1) :
    Steps k [Nl.scaleWord j] (N0 + g) f (N0 + g * 10 ^ (3 * j)) 0 := by
  rcases hj with rfl | rfl | rfl
  · exact Steps.single (duizend_apply_mul k N0 g f hN g0 g1 (h1 rfl))
  · exact Steps.single (miljoen_apply k N0 g f hN g0 g1)
  · exact Steps.single (miljard_apply k N0 g f hN g0 g1)

/-- the atoms of the group `g` of rank `j ≥ 1` with its scale word (`duizend` alone for 1000) -/
def scaledAtoms (v : Var) (j g : Nat) : List Word :=
  if (j == 1 && g == 1) = true then [Nl.scaleWord j] else groupAtoms v j g ++ [Nl.scaleWord j]

theorem scaledAtoms_steps (k : Nat) (v : Var) (j g N : Nat) (hj : j = 1 ∨ j = 2 ∨ j = 3) (g0 : g ≠ 0)
    (g1 : g < 1000) (hN : N % 10 ^ (3 * j + 3) = 0) :
    Steps k (scaledAtoms v j g) N 0 (N + g * 10 ^ (3 * j)) 0 := by
  unfold scaledAtoms
  by_cases hc : (j == 1 && g == 1) = true
  · rw [if_pos hc]
    simp only [Bool.and_eq_true, beq_iff_eq] at hc
    obtain ⟨rfl, rfl⟩ := hc
    exact (Steps.single (duizend_apply_one k N 0 hN)).cast (by omega)
  · rw [if_neg hc]
    obtain ⟨fl, s1⟩ := group_atoms_steps k v j g N g1 (mod1000_of_pow j N hN)
    refine Steps.append s1 (scale_steps k j N g fl hj hN g0 g1 ?_)
    intro hj1
    have : g ≠ 1 := by
      intro hg; apply hc; simp [hj1, hg]
    omega

/-! ## compound words -/

theorem mod_pow_le (N a b : Nat) (hab : a ≤ b) (h : N % 10 ^ b = 0) : N % 10 ^ a = 0 := by
  have h1 : 10 ^ a ∣ 10 ^ b := Nat.pow_dvd_pow 10 hab
  exact Nat.mod_eq_zero_of_dvd (Nat.dvd_trans h1 (Nat.dvd_of_mod_eq_zero h))

/-- `put` of a whole number `G` (as the compound branch does) into free low positions -/
theorem put_lsb (G N q : Nat) (hG0 : G ≠ 0) (hG : G < 10 ^ q) (hN : N % 10 ^ q = 0) :
    (mk (lsb N)).put (lsb G).reverse = (none, mk (lsb (N + G))) := by
  obtain ⟨x, t, ex, hx⟩ := lsb_rev_head G hG0
  have hlen := lsb_length_le q G hG
  have hnz : ((lsb G).reverse == [0]) = false := by
    rw [ex]
    cases t with
    | nil => simp [hx]
    | cons _ _ => simp
  have haz : allZero (lsb G).reverse = false := by
    rw [ex]; simp [allZero, hx]
  unfold DS.put
  have hfr : (mk (lsb N)).frozen = false := rfl
  rw [if_neg (by rw [hfr]; exact Bool.false_ne_true), hnz, Bool.and_false, if_neg Bool.false_ne_true,
    if_neg (by rw [haz]; exact Bool.false_ne_true)]
  by_cases hz : N = 0
  · subst hz
    rw [lsb_zero, Nat.zero_add]
    have : (mk []).rbuf.isEmpty = true := rfl
    rw [if_pos this, List.reverse_reverse]; rfl
  · obtain ⟨A, rfl⟩ := exists_mul_of_mod hN
    have hA : A ≠ 0 := by intro h; subst h; exact hz rfl
    rw [Nat.add_comm, lsb_add_pow q G A hA hG, Nat.mul_comm, lsb_mul_pow A q hA]
    have hr : (mk (List.replicate q 0 ++ lsb A)).rbuf = List.replicate q 0 ++ lsb A := rfl
    rw [hr, if_neg (by simp; intro h; have := Nat.pos_of_ne_zero (fun e : q = 0 => by subst e; simp at hG; omega); omega),
      if_neg (by simp; omega)]
    have e1 : List.replicate q 0 = List.replicate (lsb G).length 0 ++ List.replicate (q - (lsb G).length) 0 := by
      rw [List.replicate_append_replicate]; congr 1; omega
    have htk : (List.replicate q 0 ++ lsb A).take (lsb G).reverse.length = List.replicate (lsb G).length 0 := by
      rw [e1, List.append_assoc, List.length_reverse]
      exact List.take_left' (by simp)
    have hdr : (List.replicate q 0 ++ lsb A).drop (lsb G).reverse.length =
        List.replicate (q - (lsb G).length) 0 ++ lsb A := by
      rw [e1, List.append_assoc, List.length_reverse]
      exact List.drop_left' (by simp)
    rw [htk, hdr, if_pos (by simp [allZero]), List.reverse_reverse]
    simp [mk]

theorem mergeGroup_lsb (G fl N f q : Nat) (hG0 : G ≠ 0) (hG : G < 10 ^ q) (hN : N % 10 ^ q = 0)
    (hq : q ≤ 3 ∨ 6 ≤ q) :
    mergeGroup (mkf (lsb N) f) (mkf (lsb G) fl) false (mkf (lsb G) fl).marker = (none, mkf (lsb (N + G)) f) := by
  unfold mergeGroup
  have hc : ((mkf (lsb G) fl).len > 3 && (mkf (lsb G) fl).len ≤ 6 && !(mkf (lsb N) f).rangeFree 3 5) = false := by
    rcases hq with hq | hq
    · have hlen := lsb_length_le q G hG
      have : (mkf (lsb G) fl).len = (lsb G).length := rfl
      rw [this]
      have : decide ((lsb G).length > 3) = false := by simp; omega
      rw [this]; rfl
    · have hN6 := mod_pow_le N 6 q hq hN
      obtain ⟨A, rfl⟩ := exists_mul_of_mod hN6
      have := rangeFree_lsb 3 0 A (by decide) (by decide)
      rw [Nat.zero_add] at this
      rw [rangeFree_mkf, this]
      simp
  rw [hc, if_neg Bool.false_ne_true]
  have hp : (mkf (lsb N) f).put (mkf (lsb G) fl).rbuf.reverse = (none, mkf (lsb (N + G)) f) :=
    put_mkf f (put_lsb G N q hG0 hG hN)
  rw [hp]
  rfl

/-- **compound step**: a word that is the concatenation of at least two atoms passing the local splitter
checks, whose atoms interpreted on a fresh builder give `G`, adds `G` (the flags are not touched) -/
theorem compound_apply (as : List Word) (G fl N f q : Nat) (hlen : 2 ≤ as.length) (hc : chainTo as none = true)
    (hin : Steps 0 as 0 0 G fl) (hG0 : G ≠ 0) (hG : G < 10 ^ q) (hN : N % 10 ^ q = 0) (hq : q ≤ 3 ∨ 6 ≤ q) :
    Nl.apply (concat as) (mkf (lsb N) f) = (none, mkf (lsb (N + G)) f) := by
  have hs : isSplittable Nl.patterns (concat as) = true := by
    match as, hlen, hc with
    | a :: b :: t, _, hc => exact isSplittable_chain a b t hc
  have hex : execGroup (Nl.applyFuel 1) as = .ok (mkf (lsb G) fl) := by
    have := hin []
    rw [List.append_nil, mkf_new] at this
    show execGroupFrom (Nl.applyFuel (0 + 1)) as DS.new false = _
    rw [this, execGroupFrom, if_neg Bool.false_ne_true]
  show Nl.applyFuel 2 (concat as) (mkf (lsb N) f) = _
  rw [Nl.applyFuel, if_pos hs, splitWord_chain as hc, hex]
  exact mergeGroup_lsb G fl N f q hG0 hG hN hq

/-- a word made of the atoms `as` (one plain word, or a compound), given what the atoms do -/
theorem word_steps (as : List Word) (G N q : Nat) (hne : as ≠ []) (hc : chainTo as none = true)
    (hin : ∃ fl, Steps 0 as 0 0 G fl) (hout : ∃ fl, Steps 1 as N 0 (N + G) fl)
    (hG0 : G ≠ 0) (hG : G < 10 ^ q) (hN : N % 10 ^ q = 0) (hq : q ≤ 3 ∨ 6 ≤ q) :
    ∃ fl, Steps 1 [concat as] N 0 (N + G) fl := by
  match as, hne with
  | [a], _ => rw [concat_single]; exact hout
  | a :: b :: t, _ =>
    obtain ⟨fl, hin⟩ := hin
    exact ⟨0, Steps.single (compound_apply (a :: b :: t) G fl N 0 q (by simp) hc hin hG0 hG hN hq)⟩



/-! ## the words of the speller in terms of atoms -/

theorem fuse_eq (ws : List Word) (h : ws ≠ []) : Nl.fuse ws = [concat ws] := by
  unfold Nl.fuse
  cases ws with
  | nil => exact absurd rfl h
  | cons a t => rfl

theorem single_eq (ws : List Word) (h : ws.length = 1) : ws = [concat ws] := by
  match ws, h with
  | [w], _ => rw [concat_single]

theorem below100_split (v : Var) (g r : Nat) (h0 : r ≠ 0) : Nl.below100 v g r true = rsAtoms v g r w!"en" := by
  unfold Nl.below100 rsAtoms
  rw [if_neg h0]
  by_cases h20 : r < 20
  · rw [if_pos h20, if_pos h20]
  · rw [if_neg h20, if_neg h20]
    dsimp only
    by_cases hu : r % 10 = 0
    · rw [if_pos hu, if_pos (by simp [hu])]
    · rw [if_neg hu, if_neg (by simp [hu]), if_pos rfl]

theorem below100_att (v : Var) (g r : Nat) (h0 : r ≠ 0) :
    Nl.below100 v g r false = [concat (rsAtoms v g r (Nl.linkWord v g (r % 10)))] := by
  unfold Nl.below100 rsAtoms
  rw [if_neg h0]
  by_cases h20 : r < 20
  · rw [if_pos h20, if_pos h20, concat_single]
  · rw [if_neg h20, if_neg h20]
    dsimp only
    by_cases hu : r % 10 = 0
    · rw [if_pos hu, if_pos (by simp [hu]), concat_single]
    · rw [if_neg hu, if_neg (by simp [hu]), if_neg Bool.false_ne_true]
      simp [concat]

/-- the hundreds word(s) at split level ≤ 1 -/
def hsW (v : Var) (g h : Nat) : List Word := if h = 0 then [] else [concat (hsAtoms v g h)]
/-- the word below 100 at split level ≤ 2 -/
def rsW (v : Var) (g r : Nat) : List Word :=
  if r = 0 then [] else [concat (rsAtoms v g r (Nl.linkWord v g (r % 10)))]

theorem group_lvl0 (v : Var) (g n : Nat) (h0 : n ≠ 0) (hl : pick v (cp g 1) 4 = 0) :
    Nl.group v g n = [concat (groupAtoms v g n)] := by
  unfold Nl.group
  simp only [hl]
  by_cases hh0 : n / 100 = 0 <;> by_cases hh1 : n / 100 = 1 <;> by_cases hr : n % 100 = 0 <;>
    simp [hh0, hh1, hr, groupAtoms, hsAtoms, rsAtoms, below100_att, Nl.fuse, concat]
  all_goals omega

theorem group_lvl1 (v : Var) (g n : Nat) (hl : pick v (cp g 1) 4 = 1) :
    Nl.group v g n = hsW v g (n / 100) ++ rsW v g (n % 100) := by
  unfold Nl.group
  simp only [hl]
  by_cases hh0 : n / 100 = 0 <;> by_cases hh1 : n / 100 = 1 <;> by_cases hr : n % 100 = 0 <;>
    simp [hh0, hh1, hr, hsW, rsW, hsAtoms, below100_att, concat]

theorem group_lvl2 (v : Var) (g n : Nat) (hl : pick v (cp g 1) 4 = 2) :
    Nl.group v g n = hsAtoms v g (n / 100) ++ rsW v g (n % 100) := by
  unfold Nl.group
  simp only [hl]
  by_cases hh0 : n / 100 = 0 <;> by_cases hh1 : n / 100 = 1 <;> by_cases hr : n % 100 = 0 <;>
    simp [hh0, hh1, hr, rsW, hsAtoms, below100_att]

theorem group_lvl3 (v : Var) (g n : Nat) (hl : pick v (cp g 1) 4 = 3) :
    Nl.group v g n = hsAtoms v g (n / 100) ++ rsAtoms v g (n % 100) w!"en" := by
  unfold Nl.group
  simp only [hl]
  by_cases hh0 : n / 100 = 0 <;> by_cases hh1 : n / 100 = 1 <;> by_cases hr : n % 100 = 0 <;>
    simp [hh0, hh1, hr, hsAtoms, below100_split]
  all_goals simp [rsAtoms]

theorem pick4 (v : Var) (i : Nat) : pick v i 4 = 0 ∨ pick v i 4 = 1 ∨ pick v i 4 = 2 ∨ pick v i 4 = 3 := by
  unfold pick
  rw [if_neg (by decide)]
  omega


/-! ## the words of a group -/

theorem none_mem_ends : (none : Option Word) ∈ ends := by decide
theorem none_mem_afterH : (none : Option Word) ∈ afterH := List.mem_cons_self
theorem none_mem_afterD : (none : Option Word) ∈ afterD := List.mem_cons_self

theorem rsAtoms_ne_nil (v : Var) (g r : Nat) (l : Word) (h0 : r ≠ 0) : rsAtoms v g r l ≠ [] := by
  unfold rsAtoms
  rw [if_neg h0]
  split
  · simp
  · split <;> simp

theorem hsAtoms_ne_nil (v : Var) (g h : Nat) (h0 : h ≠ 0) : hsAtoms v g h ≠ [] := by
  unfold hsAtoms
  rw [if_neg h0]
  split <;> simp

theorem hsW_steps (v : Var) (g h N : Nat) (h9 : h < 10) (hN : N % 1000 = 0) :
    Steps 1 (hsW v g h) N 0 (N + 100 * h) 0 := by
  unfold hsW
  by_cases h0 : h = 0
  · rw [if_pos h0]; exact (Steps.nil 1 N 0).cast (by omega)
  · rw [if_neg h0]
    by_cases h1 : h = 1
    · have : hsAtoms v g h = [w!"honderd"] := by unfold hsAtoms; rw [if_neg h0, if_pos h1]
      rw [this, concat_single]
      exact (Steps.single (honderd_apply_one 1 N 0 hN)).cast (by omega)
    · have hlen : 2 ≤ (hsAtoms v g h).length := by
        unfold hsAtoms; rw [if_neg h0, if_neg h1]; simp
      have hin := hs_steps 0 v g h 0 h9 (by decide)
      rw [Nat.zero_add] at hin
      exact Steps.single (compound_apply (hsAtoms v g h) (100 * h) 0 N 0 3 hlen
        (chain_hs v g h none h9 none_mem_afterH) hin (by omega) (by omega) hN (Or.inl (Nat.le_refl 3)))

theorem rsW_steps (v : Var) (g r N : Nat) (h1 : r < 100) (hN : N % 100 = 0) :
    ∃ fl, Steps 1 (rsW v g r) N 0 (N + r) fl := by
  unfold rsW
  by_cases h0 : r = 0
  · rw [if_pos h0]; exact ⟨0, (Steps.nil 1 N 0).cast (by omega)⟩
  · rw [if_neg h0]
    have hin := rs_steps 0 v g r _ (link_cases v g (r % 10)) 0 h1 (by decide)
    rw [Nat.zero_add] at hin
    exact word_steps _ r N 2 (rsAtoms_ne_nil v g r _ h0) (chain_rs v g r none h1 none_mem_ends) hin
      (rs_steps 1 v g r _ (link_cases v g (r % 10)) N h1 hN) h0 (by omega) hN (Or.inl (by decide))

/-- **per-group theorem**: the words of the group `1 ≤ n ≤ 999`, at every split level, on a state whose
three low positions are free (arbitrary higher part, flags clear) add `n` -/
theorem group_steps (v : Var) (g n N : Nat) (h0 : n ≠ 0) (h1 : n < 1000) (hN : N % 1000 = 0) :
    ∃ fl, Steps 1 (Nl.group v g n) N 0 (N + n) fl := by
  have hrs : ∃ fl, Steps 1 (rsW v g (n % 100)) (N + 100 * (n / 100)) 0 (N + 100 * (n / 100) + n % 100) fl :=
    rsW_steps v g (n % 100) _ (by omega) (by omega)
  rcases pick4 v (cp g 1) with hl | hl | hl | hl
  · rw [group_lvl0 v g n h0 hl]
    have hin := group_atoms_steps 0 v g n 0 h1 (by decide)
    rw [Nat.zero_add] at hin
    exact word_steps _ n N 3 (groupAtoms_ne_nil v g n h0 h1) (chain_group v g n none h1 none_mem_ends) hin
      (group_atoms_steps 1 v g n N h1 hN) h0 (by omega) hN (Or.inl (by decide))
  · rw [group_lvl1 v g n hl]
    obtain ⟨fl, s2⟩ := hrs
    exact ⟨fl, (Steps.append (hsW_steps v g (n / 100) N (by omega) hN) s2).cast (by omega)⟩
  · rw [group_lvl2 v g n hl]
    obtain ⟨fl, s2⟩ := hrs
    exact ⟨fl, (Steps.append (hs_steps 1 v g (n / 100) N (by omega) hN) s2).cast (by omega)⟩
  · rw [group_lvl3 v g n hl]
    obtain ⟨fl, s2⟩ := rs_steps 1 v g (n % 100) w!"en" (Or.inl rfl) (N + 100 * (n / 100)) (by omega) (by omega)
    exact ⟨fl, (Steps.append (hs_steps 1 v g (n / 100) N (by omega) hN) s2).cast (by omega)⟩

theorem concat_hsW (v : Var) (g h : Nat) : concat (hsW v g h) = concat (hsAtoms v g h) := by
  unfold hsW
  by_cases h0 : h = 0
  · rw [if_pos h0]; unfold hsAtoms; rw [if_pos h0]
  · rw [if_neg h0, concat_single]

theorem concat_rsW (v : Var) (g r : Nat) :
    concat (rsW v g r) = concat (rsAtoms v g r (Nl.linkWord v g (r % 10))) := by
  unfold rsW
  by_cases h0 : r = 0
  · rw [if_pos h0]; unfold rsAtoms; rw [if_pos h0]
  · rw [if_neg h0, concat_single]

theorem rsAtoms_short (v : Var) (g r : Nat) (l l' : Word) (h : (rsAtoms v g r l).length ≤ 1) :
    rsAtoms v g r l = rsAtoms v g r l' := by
  unfold rsAtoms at h ⊢
  by_cases h0 : r = 0
  · rw [if_pos h0, if_pos h0]
  · rw [if_neg h0] at h ⊢; rw [if_neg h0]
    by_cases h20 : r < 20
    · rw [if_pos h20, if_pos h20]
    · rw [if_neg h20] at h ⊢; rw [if_neg h20]
      by_cases hu : r % 10 = 0
      · rw [if_pos hu, if_pos hu]
      · rw [if_neg hu] at h; simp at h

/-- a group spelled as ONE word is the concatenation of its atoms -/
theorem group_single (v : Var) (g n : Nat) (h0 : n ≠ 0) (hlen : (Nl.group v g n).length = 1) :
    Nl.group v g n = [concat (groupAtoms v g n)] := by
  rw [single_eq _ hlen]
  congr 1
  rcases pick4 v (cp g 1) with hl | hl | hl | hl
  · rw [group_lvl0 v g n h0 hl, concat_single]
  · rw [group_lvl1 v g n hl, concat_append, concat_hsW, concat_rsW, ← concat_append]; rfl
  · rw [group_lvl2 v g n hl, concat_append, concat_rsW, ← concat_append]; rfl
  · rw [group_lvl3 v g n hl] at hlen ⊢
    have : (rsAtoms v g (n % 100) w!"en").length ≤ 1 := by
      rw [List.length_append] at hlen; omega
    rw [rsAtoms_short v g (n % 100) w!"en" (Nl.linkWord v g (n % 100 % 10)) this]; rfl

theorem group_ne_nil (v : Var) (g n : Nat) (h0 : n ≠ 0) : Nl.group v g n ≠ [] := by
  have key : ∀ (a b : List Word), (n / 100 ≠ 0 → a ≠ []) → (n % 100 ≠ 0 → b ≠ []) → a ++ b ≠ [] := by
    intro a b ha hb hab
    obtain ⟨ea, eb⟩ := List.append_eq_nil_iff.mp hab
    by_cases hh : n / 100 = 0
    · exact hb (by omega) eb
    · exact ha hh ea
  have hW : n / 100 ≠ 0 → hsW v g (n / 100) ≠ [] := by intro h; unfold hsW; rw [if_neg h]; simp
  have rW : n % 100 ≠ 0 → rsW v g (n % 100) ≠ [] := by intro h; unfold rsW; rw [if_neg h]; simp
  rcases pick4 v (cp g 1) with hl | hl | hl | hl
  · rw [group_lvl0 v g n h0 hl]; simp
  · rw [group_lvl1 v g n hl]; exact key _ _ hW rW
  · rw [group_lvl2 v g n hl]; exact key _ _ (hsAtoms_ne_nil v g _) rW
  · rw [group_lvl3 v g n hl]; exact key _ _ (hsAtoms_ne_nil v g _) (rsAtoms_ne_nil v g _ _)



/-! ## groups with their scale word -/

theorem scaleWord_cases (j : Nat) (hj : j = 1 ∨ j = 2 ∨ j = 3) :
    some (Nl.scaleWord j) ∈ ends ∧ atomOk (Nl.scaleWord j) none = true := by
  have hM := tbl_M
  rw [Bool.and_eq_true] at hM
  rcases hj with rfl | rfl | rfl
  · exact ⟨by decide, mem_all tbl_D none_mem_afterD⟩
  · exact ⟨by decide, hM.1⟩
  · exact ⟨by decide, hM.2⟩

/-- local checks for a group with its scale word; what follows is the end of the word, or (after
`duizend`) the first atom of the units group -/
theorem chain_scaled (v : Var) (j g : Nat) (nxt : Option Word) (hj : j = 1 ∨ j = 2 ∨ j = 3) (g1 : g < 1000)
    (hn : nxt = none ∨ (j = 1 ∧ nxt ∈ afterD)) : chainTo (scaledAtoms v j g) nxt = true := by
  have hlast : atomOk (Nl.scaleWord j) nxt = true := by
    rcases hn with rfl | ⟨rfl, hn⟩
    · exact (scaleWord_cases j hj).2
    · exact mem_all tbl_D hn
  unfold scaledAtoms
  by_cases hc : (j == 1 && g == 1) = true
  · rw [if_pos hc]; exact hlast
  · rw [if_neg hc, chainTo_append]
    have : chainTo [Nl.scaleWord j] nxt = atomOk (Nl.scaleWord j) nxt := rfl
    rw [this, hlast, Bool.and_true]
    exact chain_group v j g _ g1 (scaleWord_cases j hj).1

theorem scaledAtoms_len (v : Var) (j g : Nat) (g0 : g ≠ 0) (g1 : g < 1000) (hc : ¬ (j == 1 && g == 1) = true) :
    2 ≤ (scaledAtoms v j g).length := by
  unfold scaledAtoms
  rw [if_neg hc, List.length_append]
  have := List.length_pos_iff.mpr (groupAtoms_ne_nil v j g g0 g1)
  simp; omega

theorem scaledAtoms_ne_nil (v : Var) (j g : Nat) : scaledAtoms v j g ≠ [] := by
  unfold scaledAtoms
  split <;> simp

theorem pow_scale_lt (j g : Nat) (g1 : g < 1000) : g * 10 ^ (3 * j) < 10 ^ (3 * j + 3) := by
  rw [Nat.pow_add, Nat.mul_comm (10 ^ (3 * j))]
  exact Nat.mul_lt_mul_of_pos_right (by omega) (Nat.pow_pos (by decide))

/-- the shape of `scaled`: one word (concatenation of the atoms incl. the scale word), or the words of
the group followed by the separate scale word -/
theorem scaled_cases (v : Var) (j g : Nat) (g0 : g ≠ 0) :
    Nl.scaled v j g = [concat (scaledAtoms v j g)] ∨
      (¬ (j == 1 && g == 1) = true ∧ Nl.scaled v j g = Nl.group v j g ++ [Nl.scaleWord j]) := by
  unfold Nl.scaled scaledAtoms
  rw [if_neg (by simp [g0])]
  by_cases hc : (j == 1 && g == 1) = true
  · rw [if_pos hc, if_pos hc, concat_single]; exact Or.inl rfl
  · rw [if_neg hc, if_neg hc]
    dsimp only
    by_cases ha : ((Nl.group v j g).length == 1 && ((j == 1) != flag v (cp j 0))) = true
    · rw [if_pos ha]
      left
      simp only [Bool.and_eq_true, beq_iff_eq] at ha
      rw [fuse_eq _ (by simp), group_single v j g g0 ha.1, concat_append, concat_single, concat_append]
    · rw [if_neg ha]
      exact Or.inr ⟨hc, rfl⟩

theorem scaled_steps (v : Var) (j g N : Nat) (hj : j = 1 ∨ j = 2 ∨ j = 3) (g1 : g < 1000)
    (hN : N % 10 ^ (3 * j + 3) = 0) : Steps 1 (Nl.scaled v j g) N 0 (N + g * 10 ^ (3 * j)) 0 := by
  by_cases g0 : g = 0
  · subst g0
    have : Nl.scaled v j 0 = [] := by unfold Nl.scaled; rfl
    rw [this]
    exact (Steps.nil 1 N 0).cast (by simp)
  · rcases scaled_cases v j g g0 with e | ⟨hc, e⟩
    · rw [e]
      by_cases hc : (j == 1 && g == 1) = true
      · have : scaledAtoms v j g = [Nl.scaleWord j] := by unfold scaledAtoms; rw [if_pos hc]
        rw [this, concat_single, ← this]
        exact scaledAtoms_steps 1 v j g N hj g0 g1 hN
      · have hin := scaledAtoms_steps 0 v j g 0 hj g0 g1 (Nat.zero_mod _)
        rw [Nat.zero_add] at hin
        exact Steps.single (compound_apply _ _ 0 N 0 (3 * j + 3) (scaledAtoms_len v j g g0 g1 hc)
          (chain_scaled v j g none hj g1 (Or.inl rfl)) hin
          (Nat.mul_ne_zero g0 (Nat.pos_iff_ne_zero.mp (Nat.pow_pos (by decide))))
          (pow_scale_lt j g g1) hN (Or.inr (by omega)))
    · rw [e]
      obtain ⟨fl, s1⟩ := group_steps v j g N g0 g1 (mod1000_of_pow j N hN)
      refine Steps.append s1 (scale_steps 1 j N g fl hj hN g0 g1 ?_)
      intro hj1
      have : g ≠ 1 := by intro hg; apply hc; simp [hj1, hg]
      omega

theorem scaled_single (v : Var) (j g : Nat) (hlen : (Nl.scaled v j g).length = 1) :
    g ≠ 0 ∧ Nl.scaled v j g = [concat (scaledAtoms v j g)] := by
  have g0 : g ≠ 0 := by
    intro h; subst h
    have : Nl.scaled v j 0 = [] := by unfold Nl.scaled; rfl
    rw [this] at hlen; simp at hlen
  refine ⟨g0, ?_⟩
  rcases scaled_cases v j g g0 with e | ⟨_, e⟩
  · exact e
  · rw [e, List.length_append, List.length_singleton] at hlen
    have := List.length_pos_iff.mpr (group_ne_nil v j g g0)
    omega

/-! ## composition over the four groups -/

theorem cardinal_steps (v : Var) (n : Nat) (hn : n ≠ 0) (h : n < 10 ^ 12) :
    ∃ fl, Steps 1 (Nl.cardinal v n) 0 0 n fl := by
  unfold Nl.cardinal
  have hn' : (n == 0) = false := by simp [hn]
  rw [hn', if_neg Bool.false_ne_true]
  dsimp only
  obtain ⟨g3, hg3⟩ : ∃ g3, g3 = n / 1000000000 % 1000 := ⟨_, rfl⟩
  obtain ⟨g2, hg2⟩ : ∃ g2, g2 = n / 1000000 % 1000 := ⟨_, rfl⟩
  obtain ⟨g1, hg1⟩ : ∃ g1, g1 = n / 1000 % 1000 := ⟨_, rfl⟩
  obtain ⟨g0, hg0⟩ : ∃ g0, g0 = n % 1000 := ⟨_, rfl⟩
  rw [← hg3, ← hg2, ← hg1, ← hg0]
  have e3 : (10 : Nat) ^ (3 * 3) = 1000000000 := by decide
  have e2 : (10 : Nat) ^ (3 * 2) = 1000000 := by decide
  have e1 : (10 : Nat) ^ (3 * 1) = 1000 := by decide
  have f3 : (10 : Nat) ^ (3 * 3 + 3) = 1000000000000 := by decide
  have f2 : (10 : Nat) ^ (3 * 2 + 3) = 1000000000 := by decide
  have f1 : (10 : Nat) ^ (3 * 1 + 3) = 1000000 := by decide
  have e6 : (10 : Nat) ^ 6 = 1000000 := by decide
  have s3 := scaled_steps v 3 g3 0 (Or.inr (Or.inr rfl)) (by omega) (Nat.zero_mod _)
  have s2 := scaled_steps v 2 g2 (0 + g3 * 10 ^ (3 * 3)) (Or.inr (Or.inl rfl)) (by omega) (by omega)
  have shi := Steps.append s3 s2
  rw [e3, e2] at shi
  generalize hH : 0 + g3 * 1000000000 + g2 * 1000000 = H at shi
  have hH6 : H % 1000000 = 0 := by omega
  have hsum : H + g1 * 1000 + g0 = n := by omega
  have s1 := scaled_steps v 1 g1 H (Or.inl rfl) (by omega) (by omega)
  rw [e1] at s1
  by_cases hz0 : g0 = 0
  · have hz0' : (g0 == 0) = true := by simp [hz0]
    rw [if_pos hz0']
    have hl : ((Nl.scaled v 1 g1).length == 1 && ([] : List Word).length == 1 && flag v (cp 1 2)) = false := by
      simp
    rw [hl, if_neg Bool.false_ne_true, List.append_nil]
    exact ⟨0, (Steps.append shi s1).cast (by omega)⟩
  · have hz0' : ¬ ((g0 == 0) = true) := by simp [hz0]
    rw [if_neg hz0']
    by_cases hc : ((Nl.scaled v 1 g1).length == 1 && (Nl.group v 0 g0).length == 1 && flag v (cp 1 2)) = true
    · rw [if_pos hc]
      simp only [Bool.and_eq_true, beq_iff_eq] at hc
      obtain ⟨hg1ne, ep1⟩ := scaled_single v 1 g1 hc.1.1
      have ep0 := group_single v 0 g0 hz0 hc.1.2
      rw [ep1, ep0, fuse_eq _ (by simp)]
      have ec : concat ([concat (scaledAtoms v 1 g1)] ++ [concat (groupAtoms v 0 g0)]) =
          concat (scaledAtoms v 1 g1 ++ groupAtoms v 0 g0) := by
        rw [concat_append, concat_single, concat_single, concat_append]
      rw [ec]
      -- the atoms on a fresh builder
      have i1 := scaledAtoms_steps 0 v 1 g1 0 (Or.inl rfl) hg1ne (by omega) (Nat.zero_mod _)
      obtain ⟨fl, i0⟩ := group_atoms_steps 0 v 0 g0 (0 + g1 * 10 ^ (3 * 1)) (by omega) (by omega)
      have hin := Steps.append i1 i0
      rw [e1, Nat.zero_add] at hin
      have hchain : chainTo (scaledAtoms v 1 g1 ++ groupAtoms v 0 g0) none = true := by
        rw [chainTo_append, chain_group v 0 g0 none (by omega) none_mem_ends, Bool.and_true]
        exact chain_scaled v 1 g1 _ (Or.inl rfl) (by omega)
          (Or.inr ⟨rfl, group_head v 0 g0 hz0 (by omega)⟩)
      have hlen : 2 ≤ (scaledAtoms v 1 g1 ++ groupAtoms v 0 g0).length := by
        rw [List.length_append]
        have a := List.length_pos_iff.mpr (scaledAtoms_ne_nil v 1 g1)
        have b := List.length_pos_iff.mpr (groupAtoms_ne_nil v 0 g0 hz0 (by omega))
        omega
      have sw := Steps.single (compound_apply _ (g1 * 1000 + g0) fl H 0 6 hlen hchain hin (by omega)
        (by omega) (by omega) (Or.inr (Nat.le_refl 6)))
      exact ⟨0, (Steps.append shi sw).cast (by omega)⟩
    · rw [if_neg hc]
      obtain ⟨fl, s0⟩ := group_steps v 0 g0 (H + g1 * 1000) hz0 (by omega) (by omega)
      exact ⟨fl, (Steps.append (Steps.append shi s1) s0).cast (by omega)⟩



/-- **C01 for Dutch, unbounded**: every cardinal below 10^12, in every accepted spelling variant (scale
word attached or separate, every split level of every group, units group attached after `duizend`,
`een` | `één`, trema kept or dropped after `drie`), validates to its decimal digits. No restriction on `v`. -/
theorem C01_validate_nl (v : T2N.Spec.Var) (n : Nat) (h : n < 10 ^ 12) :
    T2N.text2digitsWords T2N.Nl.lang (T2N.Spec.Nl.cardinal v n) = .ok (T2N.Spec.decChars n) := by
  by_cases hn : n = 0
  · subst hn
    have e : decChars 0 = ['0'] := by
      unfold decChars; rw [decDigits, if_pos (by decide)]; decide
    rw [e]
    show text2digitsWords T2N.Nl.lang [w!"nul"] = _
    decide
  · obtain ⟨fl, hs⟩ := cardinal_steps v n hn h
    have hs := hs []
    rw [List.append_nil, mkf_new] at hs
    have hex : execGroup T2N.Nl.lang.apply (Nl.cardinal v n) = .ok (mkf (lsb n) fl) := by
      show execGroupFrom (T2N.Nl.applyFuel (1 + 1)) (Nl.cardinal v n) DS.new false = _
      rw [hs, execGroupFrom, if_neg Bool.false_ne_true]
    have hne := lsb_ne_nil hn
    have hemp : (mkf (lsb n) fl).isEmpty = false := by
      show ((lsb n).isEmpty && (0 : Nat) == 0) = false
      cases hl : lsb n with
      | nil => exact absurd hl hne
      | cons a t => rfl
    have hrender : (mkf (lsb n) fl).render = decDigits n := by
      show List.replicate 0 0 ++ (lsb n).reverse = _
      rw [lsb_rev_dec n hn]; rfl
    have hrne : (mkf (lsb n) fl).render.isEmpty = false := by
      rw [hrender, ← lsb_rev_dec n hn]
      cases hl : lsb n with
      | nil => exact absurd hl hne
      | cons a t => simp
    unfold text2digitsWords
    rw [hex]
    dsimp only
    rw [hemp, if_neg Bool.false_ne_true]
    unfold Lang.formatW
    rw [hrne, if_neg Bool.false_ne_true]
    show ValOut.ok (renderChars (mkf (lsb n) fl)) = _
    unfold renderChars decChars
    rw [hrender]

/-- the fully split spelling (split level 3 in every group, every scale word separate: the word
splitter is never involved, every word is a single atom) — an instance of `C01_validate_nl` -/
theorem C01_validate_nl_split3 (v : T2N.Spec.Var) (n : Nat) (h : n < 10 ^ 12)
    (_hv : ∀ g, pick v (cp g 1) 4 = 3) :
    T2N.text2digitsWords T2N.Nl.lang (T2N.Spec.Nl.cardinal v n) = .ok (T2N.Spec.decChars n) :=
  C01_validate_nl v n h

/-- instances: the standard spelling, every switch on, a mixed variant -/
example : T2N.text2digitsWords T2N.Nl.lang (T2N.Spec.Nl.cardinal (fun _ => 0) 347625728221) =
    .ok (T2N.Spec.decChars 347625728221) := C01_validate_nl _ _ (by decide)
example : T2N.text2digitsWords T2N.Nl.lang (T2N.Spec.Nl.cardinal (fun _ => 1) 123456789012) =
    .ok (T2N.Spec.decChars 123456789012) := C01_validate_nl _ _ (by decide)
/-- the hypothesis of `C01_validate_nl_split3` is satisfiable -/
example : ∀ g, pick (fun _ => 3) (cp g 1) 4 = 3 := fun _ => rfl


end T2N.C01Nl
