/-
  T2N.Lemmas.ExtEs — extensions of the unbounded Spanish round-trip (T2N.Lemmas.C01Es):
  leading zeros (C16), digit dictation (C08), decimals (C05), ordinals (C04).
  Template: T2N.Lemmas.EnExt (whose language-independent lemmas are reused).
-/
import T2N.Lemmas.C01Es
import T2N.Lemmas.EnExt
import T2N.Lemmas.LangFacts
import T2N.Lemmas.Lift
import T2N.Lemmas.SimpleCC
import T2N.Spec.Spellers

namespace T2N.ExtEs
open T2N T2N.DS T2N.Spec
open T2N.C01En (lsb lsb_zero lsb_pos lsb_cons lsb_digit lsb_ne_nil lsb_rev_dec lsb_length_ge2 lsb_mul_pow
  lsb_add_pow lsb_length_le mk mk_nil put1_lsb put2_lsb shift_empty shift_top shift_lsb rangeFree_lsb)
open T2N.C01Es (Plain Steps cardinal_steps plain_unit plain_one put3_lsb)
open T2N.EnExt (setLz gLz okAct exec_lz exec_lz_mono lookup_mem replicate_map wt skipW pushWords findNumbers_words
  push_word parser_push_nosep tracker_numberEnd numberEnd_int pendL pz St grpDigits dg dg_dictation pushWords_append
  SI SD small_zeroThr)

/-! ## Part 0 — the shape of `Es.apply` -/

/-- the post-processing of `Es.apply`: on success the marker of the word is recorded (and a fraction
word freezes the builder) -/
def post (m : Marker) (t : Res × DS × Nat) : Res × DS :=
  if t.1.isNone then
    (t.1, if m.isFraction then ({ t.2.1 with marker := m } : DS).freeze else { t.2.1 with marker := m })
  else (t.1, t.2.1)

/-- the marker-compatibility test at the head of `Es.apply` -/
def clash (w : Word) (b : DS) : Bool := !b.isEmpty && Es.morph w != b.marker && !(Es.morph w).isFraction

theorem apply_eq (w : Word) (b : DS) :
    Es.apply w b = if clash w b = true then (some .overlap, b)
      else post (Es.morph w) (((Es.vocab.lookup (Es.lemmatize w)).getD (.fail .nan)).exec b) := by
  unfold Es.apply clash post
  dsimp only

theorem post_fst (m : Marker) (t : Res × DS × Nat) : (post m t).1 = t.1 := by
  unfold post; split <;> rfl

theorem post_lz (m : Marker) (t : Res × DS × Nat) : (post m t).2.lz = t.2.1.lz := by
  unfold post
  split
  · dsimp only; split <;> rfl
  · rfl

theorem post_setLz (m : Marker) (r : Res) (b : DS) (n k : Nat) :
    post m (r, setLz k b, n) = ((post m (r, b, n)).1, setLz k (post m (r, b, n)).2) := by
  unfold post
  dsimp only
  split
  · split <;> rfl
  · rfl

theorem post_marker (m : Marker) (t : Res × DS × Nat) (h : t.1 = none) : (post m t).2.marker = m := by
  unfold post
  rw [h]
  dsimp only [Option.isNone_none]
  rw [if_pos rfl]
  dsimp only
  split <;> rfl

/-! ## Part 1 — leading zeros: the Spanish interpreter reads `lz` only through `is_empty` -/

set_option maxRecDepth 100000 in
theorem vocab_all_ok : Es.vocab.all (fun p => okAct p.2 || p.1 == w!"y") = true := by decide

theorem vocab_ok (key : Word) (a : Act) (h : Es.vocab.lookup key = some a) : okAct a = true ∨ key = w!"y" := by
  have hm := lookup_mem key a _ h
  have := List.all_eq_true.mp vocab_all_ok _ hm
  simp only [Bool.or_eq_true, beq_iff_eq] at this
  exact this

theorem apply_lz_mono (w : Word) (b : DS) : b.lz ≤ (Es.apply w b).2.lz := by
  rw [apply_eq]
  split
  · exact Nat.le_refl _
  · rw [post_lz]; exact exec_lz_mono _ b

theorem isEmpty_setLz (b : DS) (k : Nat) (hk : b.lz ≤ k) (h : b.isEmpty = false) : (setLz k b).isEmpty = false := by
  unfold DS.isEmpty at *
  show (b.rbuf.isEmpty && k == 0) = false
  cases hr : b.rbuf.isEmpty with
  | false => rfl
  | true =>
    rw [hr] at h
    have : b.lz ≠ 0 := by simpa using h
    have : k ≠ 0 := by omega
    simp [this]

/-- **`lz`-independence of the Spanish interpreter**: a word that is accepted (or `Incomplete`) without
adding a leading zero behaves the same whatever the number of leading zeros — provided that, if the
builder is empty, the marker of the word is that of the builder (a non-empty builder has already
passed this test: leading zeros make the builder non-empty). -/
theorem apply_lz (w : Word) (b : DS) (k : Nat) (hk : b.lz ≤ k)
    (h0 : b.isEmpty = true → Es.morph w = b.marker)
    (hst : (Es.apply w b).1 = none ∨ (Es.apply w b).1 = some .incomplete)
    (hlz : (Es.apply w b).2.lz = b.lz) :
    Es.apply w (setLz k b) = ((Es.apply w b).1, setLz k (Es.apply w b).2) := by
  rw [apply_eq] at hst hlz ⊢
  rw [apply_eq]
  by_cases hc : clash w b = true
  · rw [if_pos hc] at hst
    rcases hst with h | h <;> exact absurd h (by simp)
  · rw [if_neg hc] at hst hlz ⊢
    have hc' : clash w (setLz k b) = false := by
      unfold clash at hc ⊢
      have em : (setLz k b).marker = b.marker := rfl
      rw [em]
      cases he : b.isEmpty with
      | true =>
        have : (Es.morph w != b.marker) = false := by rw [h0 he]; simp
        rw [this]; simp
      | false =>
        rw [he] at hc
        rw [isEmpty_setLz b k hk he]
        simpa using hc
    rw [hc', if_neg Bool.false_ne_true]
    rw [post_fst] at hst
    rw [post_lz] at hlz
    cases hlk : Es.vocab.lookup (Es.lemmatize w) with
    | none =>
      rw [hlk] at hst
      rcases hst with h | h <;> exact absurd h (by simp [Act.exec])
    | some a =>
      rw [hlk] at hst hlz
      simp only [Option.getD_some] at hst hlz ⊢
      have e : a.exec (setLz k b) = ((a.exec b).1, setLz k (a.exec b).2.1, (a.exec b).2.2) := by
        rcases vocab_ok _ a hlk with hok | hy
        · exact exec_lz a hok b k hlz
        · rw [hy] at hlk
          have ea : a = .when (.lenGe 2) (.fail .incomplete) := by
            have : Es.vocab.lookup w!"y" = some (.when (.lenGe 2) (.fail .incomplete)) := by rfl
            rw [this] at hlk
            exact (Option.some.inj hlk).symm
          subst ea
          simp only [Act.when, Act.exec] at hst ⊢
          by_cases hg : (Guard.lenGe 2).eval b = true
          · have hg' : (Guard.lenGe 2).eval (setLz k b) = true := by
              simp only [Guard.eval, DS.len, setLz, ge_iff_le, decide_eq_true_eq] at hg ⊢
              omega
            simp only [if_pos hg, if_pos hg']
          · simp only [if_neg hg] at hst
            rcases hst with h | h <;> exact absurd h (by simp)
      rw [e, post_setLz]

/-! ### run level -/

set_option maxRecDepth 100000 in
theorem vocab_all_noinc : Es.vocab.all (fun p => T2N.Lift.actNoInc p.2 || p.1 == w!"y") = true := by decide

/-- `Incomplete` is only answered by `y`, which wants two digits in the builder -/
theorem inc_nonempty (w : Word) (b : DS) (h : (Es.apply w b).1 = some .incomplete) : b.isEmpty = false := by
  rw [apply_eq] at h
  by_cases hc : clash w b = true
  · rw [if_pos hc] at h; exact absurd h (by simp)
  · rw [if_neg hc, post_fst] at h
    cases hlk : Es.vocab.lookup (Es.lemmatize w) with
    | none => rw [hlk] at h; exact absurd h (by simp [Act.exec])
    | some a =>
      rw [hlk] at h
      simp only [Option.getD_some] at h
      have hm := lookup_mem _ a _ hlk
      have := List.all_eq_true.mp vocab_all_noinc _ hm
      simp only [Bool.or_eq_true, beq_iff_eq] at this
      rcases this with hn | hy
      · exact absurd h (T2N.Lift.exec_noInc a b hn)
      · rw [hy] at hlk
        have ea : a = .when (.lenGe 2) (.fail .incomplete) := by
          have : Es.vocab.lookup w!"y" = some (.when (.lenGe 2) (.fail .incomplete)) := by rfl
          rw [this] at hlk
          exact (Option.some.inj hlk).symm
        subst ea
        simp only [Act.when, Act.exec] at h
        by_cases hg : (Guard.lenGe 2).eval b = true
        · simp only [Guard.eval, DS.len, ge_iff_le, decide_eq_true_eq] at hg
          unfold DS.isEmpty
          cases hr : b.rbuf with
          | nil =>
            rw [hr] at hg
            have : b.lz ≠ 0 := by simp at hg; omega
            simp [this]
          | cons x t => rfl
        · rw [if_neg hg] at h; exact absurd h (by simp)

theorem run_lz_mono : ∀ (ws : List Word) (b : DS) (inc : Bool) (r : DS),
    execGroupFrom Es.apply ws b inc = .ok r → b.lz ≤ r.lz := by
  intro ws
  induction ws with
  | nil =>
    intro b inc r h
    rw [execGroupFrom] at h
    cases inc with
    | true => exact absurd h (by simp)
    | false =>
      have : b = r := by simpa using h
      rw [this]; exact Nat.le_refl _
  | cons w ws ih =>
    intro b inc r h
    rw [execGroupFrom] at h
    have hm : b.lz ≤ (Es.apply w b).2.lz := apply_lz_mono w b
    rcases hx : Es.apply w b with ⟨st, b1⟩
    rw [hx] at h hm
    cases st with
    | none => exact Nat.le_trans hm (ih b1 false r h)
    | some e =>
      cases e with
      | incomplete => exact Nat.le_trans hm (ih b1 true r h)
      | overlap => exact absurd h (by simp)
      | nan => exact absurd h (by simp)
      | frozen => exact absurd h (by simp)

/-- a run that added no leading zero is reproduced verbatim on `k` leading zeros (if the builder is
empty, the first word must carry the marker of the builder) -/
theorem run_lz_append (k : Nat) (rest : List Word) : ∀ (ws : List Word) (b : DS) (inc : Bool) (r : DS), b.lz ≤ k →
    (b.isEmpty = true → ∀ w ∈ ws.head?, Es.morph w = b.marker) →
    execGroupFrom Es.apply ws b inc = .ok r → r.lz = b.lz →
    execGroupFrom Es.apply (ws ++ rest) (setLz k b) inc = execGroupFrom Es.apply rest (setLz k r) false := by
  intro ws
  induction ws with
  | nil =>
    intro b inc r _ _ h _
    rw [execGroupFrom] at h
    cases inc with
    | true => exact absurd h (by simp)
    | false =>
      have : b = r := by simpa using h
      rw [this]; rfl
  | cons w ws ih =>
    intro b inc r hk h0 h hl
    rw [execGroupFrom] at h
    rw [List.cons_append, execGroupFrom]
    have hm : b.lz ≤ (Es.apply w b).2.lz := apply_lz_mono w b
    have ht := apply_lz w b k hk (fun he => h0 he w (by simp))
    rcases hx : Es.apply w b with ⟨st, b1⟩
    rw [hx] at h hm ht
    dsimp only at ht hm
    cases st with
    | none =>
      have hm2 := run_lz_mono ws b1 false r h
      have hb1 : b1.lz = b.lz := by omega
      have e : Es.apply w (setLz k b) = (none, setLz k b1) := ht (Or.inl rfl) hb1
      have hne : b1.isEmpty = false := by
        have := Es.apply_ok_nonempty w b (by rw [hx])
        rw [hx] at this; exact this
      rw [e]
      exact ih b1 false r (by omega) (fun he => by rw [hne] at he; cases he) h (by omega)
    | some e =>
      cases e with
      | incomplete =>
        have hm2 := run_lz_mono ws b1 true r h
        have hb1 : b1.lz = b.lz := by omega
        have e : Es.apply w (setLz k b) = (some .incomplete, setLz k b1) := ht (Or.inr rfl) hb1
        have hne : b1.isEmpty = false := by
          have h1 := inc_nonempty w b (by rw [hx])
          have h2 := (Es.apply_err_same w b .incomplete (by rw [hx])).isEmpty_eq
          rw [hx] at h2
          rw [h2]; exact h1
        rw [e]
        exact ih b1 true r (by omega) (fun he => by rw [hne] at he; cases he) h (by omega)
      | overlap => exact absurd h (by simp)
      | nan => exact absurd h (by simp)
      | frozen => exact absurd h (by simp)

theorem run_lz (k : Nat) (ws : List Word) (b : DS) (inc : Bool) (r : DS) (hk : b.lz ≤ k)
    (h0 : b.isEmpty = true → ∀ w ∈ ws.head?, Es.morph w = b.marker)
    (h : execGroupFrom Es.apply ws b inc = .ok r) (hl : r.lz = b.lz) :
    execGroupFrom Es.apply ws (setLz k b) inc = .ok (setLz k r) := by
  have := run_lz_append k [] ws b inc r hk h0 h hl
  rw [List.append_nil] at this
  rw [this, execGroupFrom, if_neg Bool.false_ne_true]

/-! ### the marker along a run -/

/-- an accepted word on a non-empty builder carries the marker of the builder or is a fraction word;
the builder takes the marker of the word -/
theorem apply_ok_marker (w : Word) (b b1 : DS) (h : Es.apply w b = (none, b1)) :
    b1.marker = Es.morph w ∧ (b.isEmpty = false → Es.morph w = b.marker ∨ (Es.morph w).isFraction = true) := by
  rw [apply_eq] at h
  by_cases hc : clash w b = true
  · rw [if_pos hc] at h; exact absurd (congrArg Prod.fst h) (by simp)
  · rw [if_neg hc] at h
    constructor
    · have h1 : (post (Es.morph w) (((Es.vocab.lookup (Es.lemmatize w)).getD (.fail .nan)).exec b)).1 = none :=
        congrArg Prod.fst h
      have h2 := congrArg Prod.snd h
      dsimp only at h2
      rw [post_fst] at h1
      rw [← h2]
      exact post_marker _ _ h1
    · intro hne
      unfold clash at hc
      rw [hne] at hc
      cases hf : (Es.morph w).isFraction with
      | true => exact Or.inr rfl
      | false =>
        rw [hf] at hc
        left
        simpa using hc

theorem run_marker : ∀ (ws : List Word) (b : DS) (inc : Bool) (r : DS), b.isEmpty = false →
    execGroupFrom Es.apply ws b inc = .ok r → b.marker ≠ .none → r.marker ≠ .none := by
  intro ws
  induction ws with
  | nil =>
    intro b inc r _ h hm
    rw [execGroupFrom] at h
    cases inc with
    | true => exact absurd h (by simp)
    | false =>
      have : b = r := by simpa using h
      rw [← this]; exact hm
  | cons w ws ih =>
    intro b inc r hne h hm
    rw [execGroupFrom] at h
    rcases hx : Es.apply w b with ⟨st, b1⟩
    rw [hx] at h
    cases st with
    | none =>
      obtain ⟨m1, m2⟩ := apply_ok_marker w b b1 hx
      have hne1 : b1.isEmpty = false := by
        have := Es.apply_ok_nonempty w b (by rw [hx])
        rw [hx] at this; exact this
      refine ih b1 false r hne1 h ?_
      rw [m1]
      rcases m2 hne with e | e
      · rw [e]; exact hm
      · intro hmm; rw [hmm] at e; cases e
    | some e =>
      cases e with
      | incomplete =>
        have hs := Es.apply_err_same w b .incomplete (by rw [hx])
        rw [hx] at hs
        refine ih b1 true r (by rw [hs.isEmpty_eq]; exact hne) h ?_
        rw [hs.2.2.2]; exact hm
      | overlap => exact absurd h (by simp)
      | nan => exact absurd h (by simp)
      | frozen => exact absurd h (by simp)

/-- the first word of a run from the empty builder that ends without marker carries no marker -/
theorem run_head_morph (ws : List Word) (r : DS) (h : execGroupFrom Es.apply ws DS.new false = .ok r)
    (hr : r.marker = .none) : ∀ w ∈ ws.head?, Es.morph w = .none := by
  intro w hw
  cases ws with
  | nil => simp at hw
  | cons w' ws' =>
    have : w' = w := by simpa using hw
    subst this
    rw [execGroupFrom] at h
    rcases hx : Es.apply w' DS.new with ⟨st, b1⟩
    rw [hx] at h
    cases st with
    | none =>
      obtain ⟨m1, _⟩ := apply_ok_marker w' DS.new b1 hx
      have hne1 : b1.isEmpty = false := by
        have := Es.apply_ok_nonempty w' DS.new (by rw [hx])
        rw [hx] at this; exact this
      cases hm : Es.morph w' with
      | none => rfl
      | ordinal m =>
        exact absurd hr (run_marker ws' b1 false r hne1 h (by rw [m1, hm]; simp))
      | fraction m =>
        exact absurd hr (run_marker ws' b1 false r hne1 h (by rw [m1, hm]; simp))
    | some e =>
      cases e with
      | incomplete =>
        have := inc_nonempty w' DS.new (by rw [hx])
        exact absurd this (by decide)
      | overlap => exact absurd h (by simp)
      | nan => exact absurd h (by simp)
      | frozen => exact absurd h (by simp)

/-! ### C16 -/

theorem apply_zero_lz (j : Nat) : Es.apply Es.zeroWord (setLz j DS.new) = (none, setLz (j + 1) DS.new) := by
  rw [apply_eq]
  have hc : clash Es.zeroWord (setLz j DS.new) = false := by
    unfold clash
    have : (Es.morph Es.zeroWord != (setLz j DS.new).marker) = false := by
      show (Es.morph Es.zeroWord != Marker.none) = false
      decide
    rw [this]; simp
  rw [hc, if_neg Bool.false_ne_true]
  rfl

theorem zeros_run (rest : List Word) : ∀ (k j : Nat),
    execGroupFrom Es.apply (List.replicate k Es.zeroWord ++ rest) (setLz j DS.new) false =
      execGroupFrom Es.apply rest (setLz (j + k) DS.new) false := by
  intro k
  induction k with
  | zero => intro j; rfl
  | succ k ih =>
    intro j
    rw [List.replicate_succ, List.cons_append, execGroupFrom, apply_zero_lz]
    dsimp only
    rw [ih (j + 1)]
    have : j + 1 + k = j + (k + 1) := by omega
    rw [this]

/-- the run of a non-zero cardinal on the empty builder (from `cardinal_steps`) -/
theorem cardinal_run (v : Var) (n : Nat) (hn : n ≠ 0) (h : n < 10 ^ 12) :
    execGroupFrom Es.apply (Es.cardinal v n) DS.new false = .ok (mk (lsb n)) := by
  have hs := cardinal_steps v n hn h []
  rw [List.append_nil, lsb_zero, mk_nil] at hs
  rw [hs, execGroupFrom, if_neg Bool.false_ne_true]

theorem cardinal_head (v : Var) (n : Nat) (hn : n ≠ 0) (h : n < 10 ^ 12) :
    ∀ w ∈ (Es.cardinal v n).head?, Es.morph w = .none :=
  run_head_morph _ _ (cardinal_run v n hn h) rfl

theorem cardinal_run_lz (v : Var) (k n : Nat) (hn : n ≠ 0) (h : n < 10 ^ 12) :
    execGroupFrom Es.apply (Es.cardinal v n) (setLz k DS.new) false = .ok (setLz k (mk (lsb n))) :=
  run_lz k _ DS.new false _ (Nat.zero_le _) (fun _ => cardinal_head v n hn h) (cardinal_run v n hn h) rfl

/-- rendering of a number with `k` leading zeros -/
theorem format_lz (k n : Nat) (hn : n ≠ 0) :
    (setLz k (mk (lsb n))).isEmpty = false ∧
    Es.lang.formatW (setLz k (mk (lsb n))) =
      .ok (List.replicate k '0' ++ decChars n, .dec (List.replicate k 0 ++ decDigits n) []) := by
  have hne := lsb_ne_nil hn
  have hrender : (setLz k (mk (lsb n))).render = List.replicate k 0 ++ decDigits n := by
    show List.replicate k 0 ++ (lsb n).reverse = _
    rw [lsb_rev_dec n hn]
  constructor
  · show ((lsb n).isEmpty && k == 0) = false
    cases hl : lsb n with
    | nil => exact absurd hl hne
    | cons a t => rfl
  · have hrne : (setLz k (mk (lsb n))).render.isEmpty = false := by
      rw [hrender, ← lsb_rev_dec n hn]
      cases hl : lsb n with
      | nil => exact absurd hl hne
      | cons a t => simp
    unfold Lang.formatW
    rw [hrne, if_neg Bool.false_ne_true]
    show Except.ok (renderChars (setLz k (mk (lsb n))), Value.dec (setLz k (mk (lsb n))).render []) = _
    unfold renderChars decChars
    rw [hrender, List.map_append, replicate_map]
    rfl

/-- **C16 for Spanish, every number of leading zeros** (`0 < n < 10^12`, every variant) -/
theorem C16_validate_es (v : Spec.Var) (k n : Nat) (hn : 0 < n) (h : n < 10 ^ 12) :
    text2digitsWords Es.lang (List.replicate k Spec.Es.zeroWord ++ Spec.Es.cardinal v n) =
      .ok (List.replicate k '0' ++ decChars n) := by
  have hn' : n ≠ 0 := by omega
  have hex : execGroup Es.lang.apply (List.replicate k Spec.Es.zeroWord ++ Spec.Es.cardinal v n) =
      .ok (setLz k (mk (lsb n))) := by
    show execGroupFrom Es.apply _ (setLz 0 DS.new) false = _
    rw [zeros_run, Nat.zero_add, cardinal_run_lz v k n hn' h]
  unfold text2digitsWords
  rw [hex]
  dsimp only
  rw [(format_lz k n hn').1, if_neg Bool.false_ne_true, (format_lz k n hn').2]

example : text2digitsWords Es.lang (List.replicate 3 Spec.Es.zeroWord ++ Spec.Es.cardinal (fun _ => 1) 100045) =
    .ok (List.replicate 3 '0' ++ decChars 100045) := C16_validate_es _ 3 _ (by decide) (by decide)

/-- `k ≥ 1` zeros alone validate to `k` digits `0` -/
theorem C16_zeros_only_es (k : Nat) (hk : 0 < k) :
    text2digitsWords Es.lang (List.replicate k Spec.Es.zeroWord) = .ok (List.replicate k '0') := by
  have hex : execGroup Es.lang.apply (List.replicate k Spec.Es.zeroWord) = .ok (setLz k DS.new) := by
    have := zeros_run [] k 0
    rw [List.append_nil, Nat.zero_add] at this
    show execGroupFrom Es.apply _ (setLz 0 DS.new) false = _
    rw [this, execGroupFrom, if_neg Bool.false_ne_true]
  unfold text2digitsWords
  rw [hex]
  dsimp only
  have he : (setLz k DS.new).isEmpty = false := by
    show (([] : List Nat).isEmpty && k == 0) = false
    have : (k == 0) = false := by simp; omega
    rw [this]; rfl
  rw [he, if_neg Bool.false_ne_true]
  have hr : (setLz k DS.new).render = List.replicate k 0 := by
    show List.replicate k 0 ++ [] = _
    rw [List.append_nil]
  unfold Lang.formatW
  have hrne : (setLz k DS.new).render.isEmpty = false := by
    rw [hr]; cases k with
    | zero => omega
    | succ k => rfl
  rw [hrne, if_neg Bool.false_ne_true]
  show ValOut.ok (renderChars (setLz k DS.new)) = _
  unfold renderChars
  rw [hr, replicate_map]
  rfl

theorem C16_lone_zero_es : text2digitsWords Es.lang [Spec.Es.zeroWord] = .ok ['0'] :=
  C16_zeros_only_es 1 (by decide)

/-- `cero` on a builder that holds digits (marker `none`) is refused with `Overlap` -/
theorem apply_zero_after (k n : Nat) (hn : n ≠ 0) :
    Es.apply Spec.Es.zeroWord (setLz k (mk (lsb n))) = (some .overlap, setLz k (mk (lsb n))) := by
  rw [apply_eq]
  have hc : clash Es.zeroWord (setLz k (mk (lsb n))) = false := by
    unfold clash
    have : (Es.morph Es.zeroWord != (setLz k (mk (lsb n))).marker) = false := by
      show (Es.morph Es.zeroWord != Marker.none) = false
      decide
    rw [this]; simp
  rw [hc, if_neg Bool.false_ne_true]
  cases hl : lsb n with
  | nil => exact absurd hl (lsb_ne_nil hn)
  | cons a t => rfl

/-- `cero` after a non-zero number is refused with `Overlap` and leaves the builder unchanged
(whatever the number of leading zeros said before) -/
theorem C16_zero_after_es (v : Spec.Var) (k n : Nat) (hn : 0 < n) (h : n < 10 ^ 12) :
    ∃ b, execGroup Es.lang.apply (List.replicate k Spec.Es.zeroWord ++ Spec.Es.cardinal v n) = .ok b ∧
      Es.lang.apply Spec.Es.zeroWord b = (some .overlap, b) ∧
      text2digitsWords Es.lang (List.replicate k Spec.Es.zeroWord ++ Spec.Es.cardinal v n ++ [Spec.Es.zeroWord]) =
        .err .overlap := by
  have hn' : n ≠ 0 := by omega
  have hz := apply_zero_after k n hn'
  refine ⟨setLz k (mk (lsb n)), ?_, hz, ?_⟩
  · show execGroupFrom Es.apply _ (setLz 0 DS.new) false = _
    rw [zeros_run, Nat.zero_add, cardinal_run_lz v k n hn' h]
  · unfold text2digitsWords
    have : execGroup Es.lang.apply (List.replicate k Spec.Es.zeroWord ++ Spec.Es.cardinal v n ++ [Spec.Es.zeroWord]) =
        .error .overlap := by
      show execGroupFrom Es.apply _ (setLz 0 DS.new) false = _
      rw [List.append_assoc, zeros_run, Nat.zero_add]
      rw [run_lz_append k [Spec.Es.zeroWord] _ DS.new false _ (Nat.zero_le _) (fun _ => cardinal_head v n hn' h)
        (cardinal_run v n hn' h) rfl, execGroupFrom, hz]
    rw [this]

/-! ## Part 2 — digit dictation (C08) -/

theorem clash_none (w : Word) (b : DS) (hw : Es.morph w = .none) (hb : b.marker = .none) : clash w b = false := by
  unfold clash
  rw [hw, hb]
  simp

/-- a plain word on any builder without marker: its instruction runs, the marker stays `none` -/
theorem apply_plain_gen (w : Word) (a : Act) (b : DS) (h : Plain w a) (hb : b.marker = .none) :
    Es.apply w b = post .none (a.exec b) := by
  rw [apply_eq, clash_none w b h.1 hb, if_neg Bool.false_ne_true, h.1, h.2]
  rfl

theorem plain_digit (d : Nat) (h0 : d ≠ 0) (h9 : d < 10) : Plain (Es.digitWord d) (T2N.Es.unit d) := by
  by_cases h1 : d = 1
  · subst h1; exact plain_one 0
  · exact plain_unit d (by omega) h9

theorem apply_zero_empty (z : Nat) :
    Es.apply (Es.digitWord 0) { rbuf := [], lz := z } = (none, { rbuf := [], lz := z + 1 }) := apply_zero_lz z

theorem apply_zero_pend (z e : Nat) :
    Es.apply (Es.digitWord 0) { rbuf := [e], lz := z } = (some .overlap, { rbuf := [e], lz := z }) := by
  rw [apply_eq, clash_none _ _ (by decide) rfl, if_neg Bool.false_ne_true]
  rfl

theorem apply_digit_empty (z d : Nat) (h0 : d ≠ 0) (h9 : d < 10) :
    Es.apply (Es.digitWord d) { rbuf := [], lz := z } = (none, { rbuf := [d], lz := z }) := by
  rw [apply_plain_gen _ _ _ (plain_digit d h0 h9) rfl]
  have : d = 1 ∨ d = 2 ∨ d = 3 ∨ d = 4 ∨ d = 5 ∨ d = 6 ∨ d = 7 ∨ d = 8 ∨ d = 9 := by omega
  rcases this with rfl | rfl | rfl | rfl | rfl | rfl | rfl | rfl | rfl <;> rfl

theorem apply_digit_pend (z e d : Nat) (he : e ≠ 0) (h0 : d ≠ 0) (h9 : d < 10) :
    Es.apply (Es.digitWord d) { rbuf := [e], lz := z } = (some .overlap, { rbuf := [e], lz := z }) := by
  rw [apply_plain_gen _ _ _ (plain_digit d h0 h9) rfl]
  simp [post, T2N.Es.unit, Act.when, Act.exec, Guard.eval, DS.peek, DS.put, allZero, he, h0]

theorem digit_noskip (d : Nat) (h9 : d < 10) :
    skipW (Es.digitWord d) = false ∧ Es.lang.isDecSep (Es.digitWord d) = false := by
  have : d = 0 ∨ d = 1 ∨ d = 2 ∨ d = 3 ∨ d = 4 ∨ d = 5 ∨ d = 6 ∨ d = 7 ∨ d = 8 ∨ d = 9 := by omega
  rcases this with rfl | rfl | rfl | rfl | rfl | rfl | rfl | rfl | rfl | rfl <;> exact ⟨by decide, by decide⟩

/-! ### scanner steps -/

/-- an accepted digit word -/
theorem step_accept (s : Scanner) (pos z z' : Nat) (pend pend' : Option Nat) (q : List Word) (w : Word)
    (hw : skipW w = false ∧ Es.lang.isDecSep w = false) (hst : St s z pend q)
    (ha : Es.apply w { rbuf := pendL pend, lz := z } = (none, { rbuf := pendL pend', lz := z' })) :
    ∃ s', s.push (scanCfg Es.lang zeroThr) pos (wt w) = .ok s' ∧ St s' z' pend' q := by
  obtain ⟨hp, hh, hq⟩ := hst
  have hpush : s.parser.push Es.lang w = (none, pz z' pend') := by
    rw [parser_push_nosep Es.lang s.parser w (by rw [hp]; rfl) hw.2, hp]
    have ha' : Es.lang.apply w (pz z pend).int = (none, { rbuf := pendL pend', lz := z' }) := ha
    rw [ha']; rfl
  rw [push_word Es.lang zeroThr s pos w hw.1, hpush]
  exact ⟨_, rfl, rfl, hh, hq⟩

/-- a refused digit word: the pending number ends, the word starts the next one -/
theorem step_reject (s : Scanner) (pos z z' e : Nat) (pend' : Option Nat) (q : List Word) (w : Word)
    (hw : skipW w = false ∧ Es.lang.isDecSep w = false) (hst : St s z (some e) q)
    (ha : Es.apply w { rbuf := [e], lz := z } = (some .overlap, { rbuf := [e], lz := z }))
    (hb : Es.apply w {} = (none, { rbuf := pendL pend', lz := z' })) :
    ∃ s', s.push (scanCfg Es.lang zeroThr) pos (wt w) = .ok s' ∧
      St s' z' pend' (q ++ [(grpDigits z (some e)).map digitChar]) := by
  obtain ⟨hp, hh, hq⟩ := hst
  have hpush : s.parser.push Es.lang w = (some .overlap, pz z (some e)) := by
    rw [parser_push_nosep Es.lang s.parser w (by rw [hp]; rfl) hw.2, hp]
    have ha' : Es.lang.apply w (pz z (some e)).int = (some .overlap, { rbuf := [e], lz := z }) := ha
    rw [ha']; rfl
  rw [push_word Es.lang zeroThr s pos w hw.1, hpush]
  dsimp only
  unfold Scanner.pushRejected
  have hn : ({ s with parser := pz z (some e) } : Scanner).parser.hasNumber = true := rfl
  rw [if_pos hn]
  have hr : (pz z (some e)).int.render.isEmpty = false := by
    show (List.replicate z 0 ++ [e]).isEmpty = false
    simp
  rw [numberEnd_int _ _ rfl rfl hr]
  dsimp only
  have hpush2 : ({} : Parser).push Es.lang w = (none, pz z' pend') := by
    rw [parser_push_nosep Es.lang {} w rfl hw.2]
    have hb' : Es.lang.apply w ({} : Parser).int = (none, { rbuf := pendL pend', lz := z' }) := hb
    rw [hb']; rfl
  have hpush2' : Parser.push (scanCfg Es.lang zeroThr).lang {} (wt w).lower = (none, pz z' pend') := hpush2
  rw [hpush2']
  have hforget : ((utf8Len (renderChars (pz z (some e)).int) == 1 || false) &&
      (scanCfg Es.lang zeroThr).small (Value.dec (pz z (some e)).int.render [])) = false := by
    have : (scanCfg Es.lang zeroThr).small (Value.dec (pz z (some e)).int.render []) = false := rfl
    rw [this, Bool.and_false]
  rw [hforget]
  obtain ⟨t1, t2⟩ := tracker_numberEnd s.tracker false (renderChars (pz z (some e)).int)
    (Value.dec (pz z (some e)).int.render []) hh
  refine ⟨_, rfl, rfl, t1, ?_⟩
  show List.map (·.text) (s.tracker.numberEnd false (renderChars (pz z (some e)).int)
    (Value.dec (pz z (some e)).int.render []) false).queue = _
  rw [t2, List.map_append, hq]
  rfl

theorem finalize_empty (s : Scanner) (q : List Word) (hst : St s 0 none q) :
    ∃ sf, s.finalize (scanCfg Es.lang zeroThr) = .ok sf ∧ sf.tracker.queue.map (·.text) = q := by
  obtain ⟨hp, _, hq⟩ := hst
  unfold Scanner.finalize
  have : s.parser.hasNumber = false := by rw [hp]; rfl
  rw [this, if_neg Bool.false_ne_true]
  exact ⟨s, rfl, hq⟩

theorem finalize_pending (s : Scanner) (z : Nat) (pend : Option Nat) (q : List Word) (hst : St s z pend q)
    (hne : z ≠ 0 ∨ pend ≠ none) :
    ∃ sf, s.finalize (scanCfg Es.lang zeroThr) = .ok sf ∧
      sf.tracker.queue.map (·.text) = q ++ [(grpDigits z pend).map digitChar] := by
  obtain ⟨hp, hh, hq⟩ := hst
  unfold Scanner.finalize
  have hgne : grpDigits z pend ≠ [] := by
    unfold grpDigits
    rcases hne with h | h
    · cases z with
      | zero => exact absurd rfl h
      | succ z => simp [List.replicate_succ]
    · cases pend with
      | none => exact absurd rfl h
      | some e => simp [pendL]
  have hrd : (pz z pend).int.render = grpDigits z pend := by
    cases pend <;> rfl
  have hn : s.parser.hasNumber = true := by
    rw [hp]
    show (!(((pendL pend).isEmpty) && z == 0)) = true
    rcases hne with h | h
    · have : (z == 0) = false := by simp [h]
      rw [this, Bool.and_false]; rfl
    · cases pend with
      | none => exact absurd rfl h
      | some e => rfl
  have hr : s.parser.int.render.isEmpty = false := by
    rw [hp, hrd]
    cases hg : grpDigits z pend with
    | nil => exact absurd hg hgne
    | cons a t => rfl
  rw [hn, if_pos rfl, numberEnd_int _ s (by rw [hp]; rfl) (by rw [hp]; rfl) hr]
  have hforget : ((utf8Len (renderChars s.parser.int) == 1 || false) &&
      (scanCfg Es.lang zeroThr).small (Value.dec s.parser.int.render [])) = false := by
    have : (scanCfg Es.lang zeroThr).small (Value.dec s.parser.int.render []) = false := rfl
    rw [this, Bool.and_false]
  rw [hforget]
  obtain ⟨_, t2⟩ := tracker_numberEnd s.tracker false (renderChars s.parser.int) (Value.dec s.parser.int.render []) hh
  refine ⟨_, rfl, ?_⟩
  show List.map (·.text) (s.tracker.numberEnd false (renderChars s.parser.int)
    (Value.dec s.parser.int.render []) false).queue = _
  rw [t2, List.map_append, hq]
  show _ ++ [renderChars s.parser.int] = _
  unfold renderChars
  rw [hp, hrd]

/-- **the scanner on dictated digits**, from any state `(z, pend)` -/
theorem dict_run : ∀ (ds : List Nat), (∀ d ∈ ds, d < 10) → ∀ (s : Scanner) (z : Nat) (pend : Option Nat)
    (q : List Word) (i : Nat), St s z pend q → (∀ e, pend = some e → e ≠ 0) →
    ∃ s' sf, pushWords (scanCfg Es.lang zeroThr) s i (ds.map Es.digitWord) = .ok s' ∧
      s'.finalize (scanCfg Es.lang zeroThr) = .ok sf ∧
      sf.tracker.queue.map (·.text) = q ++ (dg z pend ds).map (fun g => g.map digitChar) := by
  intro ds
  induction ds with
  | nil =>
    intro _ s z pend q i hst _
    refine ⟨s, ?_⟩
    cases pend with
    | none =>
      by_cases hz : z = 0
      · subst hz
        obtain ⟨sf, h1, h2⟩ := finalize_empty s q hst
        exact ⟨sf, rfl, h1, by rw [h2]; simp [dg]⟩
      · obtain ⟨sf, h1, h2⟩ := finalize_pending s z none q hst (Or.inl hz)
        exact ⟨sf, rfl, h1, by rw [h2, dg, if_neg hz]; rfl⟩
    | some e =>
      obtain ⟨sf, h1, h2⟩ := finalize_pending s z (some e) q hst (Or.inr (by simp))
      exact ⟨sf, rfl, h1, by rw [h2, dg]; rfl⟩
  | cons d ds ih =>
    intro hds s z pend q i hst hpe
    have hd9 : d < 10 := hds d List.mem_cons_self
    have hds' : ∀ x ∈ ds, x < 10 := fun x hx => hds x (List.mem_cons_of_mem _ hx)
    have hw := digit_noskip d hd9
    rw [List.map_cons, pushWords]
    cases pend with
    | none =>
      by_cases hd : d = 0
      · subst hd
        obtain ⟨s1, e1, st1⟩ := step_accept s i z (z + 1) none none q _ hw hst (apply_zero_empty z)
        obtain ⟨s', sf, r1, r2, r3⟩ := ih hds' s1 (z + 1) none q (i + 2) st1 (fun e h => by simp at h)
        refine ⟨s', sf, by rw [e1]; exact r1, r2, ?_⟩
        rw [r3, dg, if_pos rfl]
      · obtain ⟨s1, e1, st1⟩ := step_accept s i z z none (some d) q _ hw hst (apply_digit_empty z d hd hd9)
        obtain ⟨s', sf, r1, r2, r3⟩ := ih hds' s1 z (some d) q (i + 2) st1
          (fun e h => by have : d = e := by simpa using h
                         rw [← this]; exact hd)
        refine ⟨s', sf, by rw [e1]; exact r1, r2, ?_⟩
        rw [r3, dg, if_neg hd]
    | some e =>
      have he : e ≠ 0 := hpe e rfl
      by_cases hd : d = 0
      · subst hd
        obtain ⟨s1, e1, st1⟩ := step_reject s i z 1 e none q _ hw hst (apply_zero_pend z e) (apply_zero_empty 0)
        obtain ⟨s', sf, r1, r2, r3⟩ := ih hds' s1 1 none _ (i + 2) st1 (fun e h => by simp at h)
        refine ⟨s', sf, by rw [e1]; exact r1, r2, ?_⟩
        rw [r3, dg, if_pos rfl, List.map_cons, List.append_assoc]
        rfl
      · obtain ⟨s1, e1, st1⟩ := step_reject s i z 0 e (some d) q _ hw hst (apply_digit_pend z e d he hd hd9)
          (apply_digit_empty 0 d hd hd9)
        obtain ⟨s', sf, r1, r2, r3⟩ := ih hds' s1 0 (some d) _ (i + 2) st1
          (fun e h => by have : d = e := by simpa using h
                         rw [← this]; exact hd)
        refine ⟨s', sf, by rw [e1]; exact r1, r2, ?_⟩
        rw [r3, dg, if_neg hd, List.map_cons, List.append_assoc]
        rfl

/-- **C08 for Spanish, every digit sequence**: the scanner groups dictated digits exactly as
`Spec.dictationGroups` (zeros attach to the following non-zero digit, trailing zeros stand alone) -/
theorem C08_dictation_es (ds : List Nat) (h : ∀ d ∈ ds, d < 10) :
    occTexts Es.lang zeroThr (ds.map Spec.Es.digitWord) =
      some ((dictationGroups ds).map (fun g => g.map digitChar)) := by
  have hst : St {} 0 none [] := ⟨rfl, rfl, rfl⟩
  obtain ⟨s', sf, r1, r2, r3⟩ := dict_run ds h {} 0 none [] 0 hst (fun e h => by simp at h)
  unfold occTexts
  rw [findNumbers_words, r1]
  dsimp only
  rw [r2]
  dsimp only
  rw [r3, dg_dictation, List.nil_append]

/-- the same statement on `findNumbers` -/
theorem C08_dictation_es_occ (ds : List Nat) (h : ∀ d ∈ ds, d < 10) :
    ∃ occs, findNumbers (scanCfg Es.lang zeroThr) (wordTokens (ds.map Spec.Es.digitWord)) = .ok occs ∧
      occs.map (·.text) = (dictationGroups ds).map (fun g => g.map digitChar) := by
  have hst : St {} 0 none [] := ⟨rfl, rfl, rfl⟩
  obtain ⟨s', sf, r1, r2, r3⟩ := dict_run ds h {} 0 none [] 0 hst (fun e h => by simp at h)
  refine ⟨sf.tracker.queue, ?_, by rw [r3, dg_dictation, List.nil_append]⟩
  rw [findNumbers_words, r1]
  dsimp only
  rw [r2]

example : occTexts Es.lang zeroThr ([0, 0, 7, 0, 1, 2, 0, 0].map Spec.Es.digitWord) =
    some [w!"007", w!"01", w!"2", w!"00"] := C08_dictation_es _ (by decide)

/-! ## Part 3 — lifting an interpreter run to the scanner -/

set_option maxRecDepth 100000 in
theorem vocab_keys_ok : Es.vocab.all (fun p => !p.1.isEmpty && p.1.all (fun c => !simpleIsWs c)) = true := by decide

theorem endsWith_mem (w suf : Word) (c : Char) (hc : c ∈ suf) (h : endsWith w suf = true) : c ∈ w := by
  unfold endsWith at h
  exact (List.isSuffixOf_iff_suffix.mp h).subset hc

theorem lemmatize_ws (w : Word) (h : w.all simpleIsWs = true) : Es.lemmatize w = w := by
  have hs : 's' ∉ w := by
    intro hm
    have := List.all_eq_true.mp h 's' hm
    exact absurd this (by decide)
  have e1 : endsWith w w!"os" = false := by
    cases hq : endsWith w w!"os" with
    | false => rfl
    | true => exact absurd (endsWith_mem w _ 's' (by simp) hq) hs
  have e2 : endsWith w w!"as" = false := by
    cases hq : endsWith w w!"as" with
    | false => rfl
    | true => exact absurd (endsWith_mem w _ 's' (by simp) hq) hs
  have e3 : endsWith w w!"es" = false := by
    cases hq : endsWith w w!"es" with
    | false => rfl
    | true => exact absurd (endsWith_mem w _ 's' (by simp) hq) hs
  unfold Es.lemmatize
  rw [e1, e2, e3]
  rfl

/-- an accepted (or `Incomplete`) word is in the vocabulary -/
theorem accepted_lookup (w : Word) (b : DS)
    (h : (Es.apply w b).1 = none ∨ (Es.apply w b).1 = some .incomplete) :
    ∃ a, Es.vocab.lookup (Es.lemmatize w) = some a := by
  rw [apply_eq] at h
  by_cases hc : clash w b = true
  · rw [if_pos hc] at h
    rcases h with h | h <;> exact absurd h (by simp)
  · rw [if_neg hc, post_fst] at h
    cases hlk : Es.vocab.lookup (Es.lemmatize w) with
    | none =>
      rw [hlk] at h
      rcases h with h | h <;> exact absurd h (by simp [Act.exec])
    | some a => exact ⟨a, rfl⟩

/-- a word that the interpreter accepts (or answers `Incomplete` to) is neither skipped by the scanner
nor the decimal separator -/
theorem accepted_word (w : Word) (b : DS)
    (h : (Es.apply w b).1 = none ∨ (Es.apply w b).1 = some .incomplete) :
    skipW w = false ∧ Es.lang.isDecSep w = false := by
  obtain ⟨a, hlk⟩ := accepted_lookup w b h
  constructor
  · unfold skipW
    rw [Bool.or_eq_false_iff]
    constructor
    · cases hq : (w == ['-']) with
      | false => rfl
      | true =>
        have : w = ['-'] := by simpa using hq
        subst this
        have hn : Es.vocab.lookup (Es.lemmatize ['-']) = none := by decide
        rw [hn] at hlk; cases hlk
    · cases hq : w.all simpleCC.isWhitespace with
      | false => rfl
      | true =>
        exfalso
        have hq' : w.all simpleIsWs = true := hq
        rw [lemmatize_ws w hq'] at hlk
        have hm := lookup_mem _ a _ hlk
        have hk := List.all_eq_true.mp vocab_keys_ok _ hm
        simp only [Bool.and_eq_true, Bool.not_eq_true'] at hk
        cases w with
        | nil => exact absurd hk.1 (by simp)
        | cons c t =>
          have h1 : simpleIsWs c = true := (List.all_eq_true.mp hq') c List.mem_cons_self
          have h2 := (List.all_eq_true.mp hk.2) c List.mem_cons_self
          rw [h1] at h2
          exact absurd h2 (by decide)
  · cases hq : Es.lang.isDecSep w with
    | false => rfl
    | true =>
      have : w = w!"coma" := by
        have : (w == w!"coma") = true := hq
        simpa using this
      subst this
      have hn : Es.vocab.lookup (Es.lemmatize w!"coma") = none := by decide
      rw [hn] at hlk; cases hlk

/-- **lifting**: a successful interpreter run is reproduced by the scanner, word by word, as one open match -/
theorem lift_run (thr : Nat → Bool) : ∀ (ws : List Word) (b : DS) (inc : Bool) (r : DS),
    execGroupFrom Es.apply ws b inc = .ok r → ∀ (s : Scanner) (i : Nat), SI s b →
    ∃ s', pushWords (scanCfg Es.lang thr) s i ws = .ok s' ∧ SI s' r := by
  intro ws
  induction ws with
  | nil =>
    intro b inc r h s i hs
    rw [execGroupFrom] at h
    cases inc with
    | true => exact absurd h (by simp)
    | false =>
      have : b = r := by simpa using h
      rw [← this]
      exact ⟨s, rfl, hs⟩
  | cons w ws ih =>
    intro b inc r h s i hs
    rw [execGroupFrom] at h
    obtain ⟨hp, hq, hh⟩ := hs
    rcases hx : Es.apply w b with ⟨st, b1⟩
    rw [hx] at h
    have hx' : Es.lang.apply w s.parser.int = (st, b1) := by rw [hp]; exact hx
    have hpush : st = none ∨ st = some .incomplete → s.parser.push Es.lang w = (st, { int := b1 }) := by
      intro hst
      have hw := accepted_word w b (by rw [hx]; exact hst)
      rw [parser_push_nosep Es.lang s.parser w (by rw [hp]) hw.2, hx', hp]
    rw [pushWords]
    cases st with
    | none =>
      have hw := accepted_word w b (by rw [hx]; exact Or.inl rfl)
      rw [push_word Es.lang thr s i w hw.1, hpush (Or.inl rfl)]
      exact ih b1 false r h _ (i + 2) ⟨rfl, hq, hh⟩
    | some e =>
      cases e with
      | incomplete =>
        have hw := accepted_word w b (by rw [hx]; exact Or.inr rfl)
        rw [push_word Es.lang thr s i w hw.1, hpush (Or.inr rfl)]
        exact ih b1 true r h _ (i + 2) ⟨rfl, hq, hh⟩
      | overlap => exact absurd h (by simp)
      | nan => exact absurd h (by simp)
      | frozen => exact absurd h (by simp)

/-- end of a pending integer-mode number under threshold 0: its text is appended to the queue -/
theorem finalize_run (s : Scanner) (r : DS) (text : Word) (val : Value) (hs : SI s r) (hne : r.isEmpty = false)
    (hf : Es.lang.formatW r = .ok (text, val)) :
    ∃ sf, s.finalize (scanCfg Es.lang zeroThr) = .ok sf ∧ sf.parser = {} ∧ sf.tracker.onHold = none ∧
      sf.tracker.queue.map (·.text) = [text] := by
  obtain ⟨hp, hq, hh⟩ := hs
  unfold Scanner.finalize
  have hn : s.parser.hasNumber = true := by
    rw [hp]; show (!r.isEmpty) = true; rw [hne]; rfl
  rw [hn, if_pos rfl]
  unfold Scanner.numberEnd
  have hfin : s.parser.finish (scanCfg Es.lang zeroThr).lang = .ok (text, val) := by
    rw [hp]; exact hf
  rw [hfin]
  dsimp only
  rw [small_zeroThr, Bool.and_false]
  obtain ⟨t1, t2⟩ := tracker_numberEnd s.tracker s.parser.isOrdinal text val hh
  refine ⟨_, rfl, rfl, t1, ?_⟩
  show List.map (·.text) (s.tracker.numberEnd s.parser.isOrdinal text val false).queue = _
  rw [t2, hq]
  rfl

/-- **whatever validates is found by the scanner** (Spanish, threshold 0): a word list accepted by
`text2digitsWords` yields exactly one occurrence, with the same text -/
theorem scan_of_validate (ws : List Word) (t : Word) (h : text2digitsWords Es.lang ws = .ok t) :
    occTexts Es.lang zeroThr ws = some [t] := by
  unfold text2digitsWords at h
  cases hx : execGroup Es.lang.apply ws with
  | error e => rw [hx] at h; exact absurd h (by simp)
  | ok r =>
    rw [hx] at h
    dsimp only at h
    cases hne : r.isEmpty with
    | true => rw [hne, if_pos rfl] at h; exact absurd h (by simp)
    | false =>
      rw [hne, if_neg Bool.false_ne_true] at h
      cases hf : Es.lang.formatW r with
      | error f => rw [hf] at h; exact absurd h (by simp)
      | ok tv =>
        obtain ⟨t', val⟩ := tv
        rw [hf] at h
        have : t' = t := by simpa using h
        subst this
        obtain ⟨s1, e1, hs1⟩ := lift_run zeroThr ws DS.new false r hx {} 0 ⟨rfl, rfl, rfl⟩
        obtain ⟨sf, e2, _, _, hq⟩ := finalize_run s1 r t' val hs1 hne hf
        unfold occTexts
        rw [findNumbers_words, e1]
        dsimp only
        rw [e2]
        dsimp only
        rw [hq]

/-- a word refused while an integer-mode number is open: that number is emitted and the word starts
the next one -/
theorem step_reject_run (s : Scanner) (pos z' : Nat) (pend' : Option Nat) (r : DS) (text : Word) (val : Value)
    (w : Word) (hw : skipW w = false ∧ Es.lang.isDecSep w = false) (hs : SI s r) (hne : r.isEmpty = false)
    (hf : Es.lang.formatW r = .ok (text, val))
    (ha : Es.apply w r = (some .overlap, r))
    (hb : Es.apply w {} = (none, { rbuf := pendL pend', lz := z' })) :
    ∃ s', s.push (scanCfg Es.lang zeroThr) pos (wt w) = .ok s' ∧ St s' z' pend' [text] := by
  obtain ⟨hp, hq, hh⟩ := hs
  have hpush : s.parser.push Es.lang w = (some .overlap, { int := r }) := by
    rw [parser_push_nosep Es.lang s.parser w (by rw [hp]) hw.2, hp]
    have ha' : Es.lang.apply w ({ int := r } : Parser).int = (some .overlap, r) := ha
    rw [ha']
  rw [push_word Es.lang zeroThr s pos w hw.1, hpush]
  dsimp only
  unfold Scanner.pushRejected
  have hn : ({ s with parser := { int := r } } : Scanner).parser.hasNumber = true := by
    show (!r.isEmpty) = true; rw [hne]; rfl
  rw [if_pos hn]
  unfold Scanner.numberEnd
  have hfin : ({ s with parser := { int := r } } : Scanner).parser.finish (scanCfg Es.lang zeroThr).lang =
      .ok (text, val) := hf
  rw [hfin]
  dsimp only
  rw [small_zeroThr, Bool.and_false]
  have hpush2 : Parser.push (scanCfg Es.lang zeroThr).lang {} (wt w).lower = (none, pz z' pend') := by
    show ({} : Parser).push Es.lang w = _
    rw [parser_push_nosep Es.lang {} w rfl hw.2]
    have hb' : Es.lang.apply w ({} : Parser).int = (none, { rbuf := pendL pend', lz := z' }) := hb
    rw [hb']; rfl
  rw [hpush2]
  obtain ⟨t1, t2⟩ := tracker_numberEnd s.tracker r.isOrdinal text val hh
  refine ⟨_, rfl, rfl, t1, ?_⟩
  show List.map (·.text) (s.tracker.numberEnd r.isOrdinal text val false).queue = _
  rw [t2, hq]
  rfl

/-- **C16, `cero` after a number, at the scanner**: the number ends and the zero is a number of its own -/
theorem C16_zero_after_scan_es (v : Spec.Var) (k n : Nat) (hn : 0 < n) (h : n < 10 ^ 12) :
    occTexts Es.lang zeroThr (List.replicate k Spec.Es.zeroWord ++ Spec.Es.cardinal v n ++ [Spec.Es.zeroWord]) =
      some [List.replicate k '0' ++ decChars n, ['0']] := by
  have hn' : n ≠ 0 := by omega
  have hrun : execGroupFrom Es.apply (List.replicate k Spec.Es.zeroWord ++ Spec.Es.cardinal v n) DS.new false =
      .ok (setLz k (mk (lsb n))) := by
    show execGroupFrom Es.apply _ (setLz 0 DS.new) false = _
    rw [zeros_run, Nat.zero_add, cardinal_run_lz v k n hn' h]
  have hz := apply_zero_after k n hn'
  obtain ⟨hne, hf⟩ := format_lz k n hn'
  obtain ⟨s1, e1, hs1⟩ := lift_run zeroThr _ DS.new false _ hrun {} 0 ⟨rfl, rfl, rfl⟩
  obtain ⟨s2, e2, hs2⟩ := step_reject_run s1 (0 + 2 * (List.replicate k Spec.Es.zeroWord ++ Spec.Es.cardinal v n).length)
    1 none _ _ _ Spec.Es.zeroWord ⟨by decide, by decide⟩ hs1 hne hf hz (apply_zero_empty 0)
  obtain ⟨sf, e3, hq⟩ := finalize_pending s2 1 none _ hs2 (Or.inl (by decide))
  unfold occTexts
  rw [findNumbers_words, pushWords_append, e1]
  dsimp only
  rw [pushWords, e2]
  dsimp only
  rw [pushWords]
  dsimp only
  rw [e3]
  dsimp only
  rw [hq]
  rfl

theorem C01_scan_es (v : Spec.Var) (n : Nat) (h : n < 10 ^ 12) :
    occTexts Es.lang zeroThr (Spec.Es.cardinal v n) = some [decChars n] :=
  scan_of_validate _ _ (T2N.C01Es.C01_validate_es v n h)

theorem C16_scan_es (v : Spec.Var) (k n : Nat) (hn : 0 < n) (h : n < 10 ^ 12) :
    occTexts Es.lang zeroThr (List.replicate k Spec.Es.zeroWord ++ Spec.Es.cardinal v n) =
      some [List.replicate k '0' ++ decChars n] :=
  scan_of_validate _ _ (C16_validate_es v k n hn h)

theorem C16_zeros_only_scan_es (k : Nat) (hk : 0 < k) :
    occTexts Es.lang zeroThr (List.replicate k Spec.Es.zeroWord) = some [List.replicate k '0'] :=
  scan_of_validate _ _ (C16_zeros_only_es k hk)

example : occTexts Es.lang zeroThr (List.replicate 2 Spec.Es.zeroWord ++ Spec.Es.cardinal (fun _ => 1) 21031 ++
    [Spec.Es.zeroWord]) = some [List.replicate 2 '0' ++ decChars 21031, ['0']] :=
  C16_zero_after_scan_es _ 2 _ (by decide) (by decide)

/-! ## Part 4 — decimals (C05)

In Spanish `apply_decimal` is `apply`: the fraction is read like an integer (`cero cero siete`,
`catorce`, `ciento veinticinco`) into the second builder; the specification spells the leading zeros one
by one and the remaining digits as ONE cardinal, so those remaining digits must number at most twelve. -/

/-- decimal phase: integer part `I`, fraction builder `D`, nothing emitted -/
def SDec (s : Scanner) (I D : DS) : Prop :=
  s.parser = { int := I, dec := D, isDec := true } ∧ s.tracker.queue = [] ∧ s.tracker.onHold = none

/-- lifting of a run of the fraction builder -/
theorem lift_run_dec (thr : Nat → Bool) (I : DS) : ∀ (ws : List Word) (b : DS) (inc : Bool) (r : DS),
    execGroupFrom Es.apply ws b inc = .ok r → ∀ (s : Scanner) (i : Nat), SDec s I b →
    ∃ s', pushWords (scanCfg Es.lang thr) s i ws = .ok s' ∧ SDec s' I r := by
  intro ws
  induction ws with
  | nil =>
    intro b inc r h s i hs
    rw [execGroupFrom] at h
    cases inc with
    | true => exact absurd h (by simp)
    | false =>
      have : b = r := by simpa using h
      rw [← this]
      exact ⟨s, rfl, hs⟩
  | cons w ws ih =>
    intro b inc r h s i hs
    rw [execGroupFrom] at h
    obtain ⟨hp, hq, hh⟩ := hs
    rcases hx : Es.apply w b with ⟨st, b1⟩
    rw [hx] at h
    have hpush : s.parser.push Es.lang w = (st, { int := I, dec := b1, isDec := true }) := by
      rw [T2N.Parser.push_dec Es.lang s.parser w (by rw [hp]), hp]
      have : Es.lang.applyDecimal w ({ int := I, dec := b, isDec := true } : Parser).dec = (st, b1) := hx
      rw [this]
    rw [pushWords]
    cases st with
    | none =>
      have hw := accepted_word w b (by rw [hx]; exact Or.inl rfl)
      rw [push_word Es.lang thr s i w hw.1, hpush]
      exact ih b1 false r h _ (i + 2) ⟨rfl, hq, hh⟩
    | some e =>
      cases e with
      | incomplete =>
        have hw := accepted_word w b (by rw [hx]; exact Or.inr rfl)
        rw [push_word Es.lang thr s i w hw.1, hpush]
        exact ih b1 true r h _ (i + 2) ⟨rfl, hq, hh⟩
      | overlap => exact absurd h (by simp)
      | nan => exact absurd h (by simp)
      | frozen => exact absurd h (by simp)

theorem apply_sep (b : DS) (hm : b.marker = .none) : Es.apply Es.sepWord b = (some .nan, b) := by
  rw [apply_eq, clash_none _ _ (by decide) hm, if_neg Bool.false_ne_true]
  have hn : Es.vocab.lookup (Es.lemmatize Es.sepWord) = none := by decide
  rw [hn]
  rfl

theorem parser_push_sep (p : Parser) (hd : p.isDec = false) (hne : p.int.isEmpty = false)
    (hm : p.int.marker = .none) :
    p.push Es.lang Es.sepWord = (some .incomplete, { p with isDec := true }) := by
  unfold Parser.push
  rw [hd, if_neg Bool.false_ne_true]
  have ha : Es.lang.apply Es.sepWord p.int = (some .nan, p.int) := apply_sep p.int hm
  rw [ha]
  dsimp only
  rw [hne, hm]
  rfl

theorem step_coma (thr : Nat → Bool) (s : Scanner) (i : Nat) (I : DS) (hs : SI s I) (hne : I.isEmpty = false)
    (hm : I.marker = .none) :
    ∃ s', s.push (scanCfg Es.lang thr) i (wt Es.sepWord) = .ok s' ∧ SDec s' I {} := by
  obtain ⟨hp, hq, hh⟩ := hs
  have hpush : s.parser.push Es.lang Es.sepWord = (some .incomplete, { int := I, dec := {}, isDec := true }) := by
    rw [parser_push_sep s.parser (by rw [hp]) (by rw [hp]; exact hne) (by rw [hp]; exact hm), hp]
  rw [push_word Es.lang thr s i Es.sepWord (by decide), hpush]
  exact ⟨_, rfl, rfl, hq, hh⟩

/-- end of a decimal number: exactly one occurrence, whatever the threshold -/
theorem finalize_decimal (thr : Nat → Bool) (s : Scanner) (I D : DS) (hs : SDec s I D)
    (hne : I.isEmpty = false) (hm : I.marker = .none) (hD : D.isEmpty = false) :
    ∃ sf a b, s.finalize (scanCfg Es.lang thr) = .ok sf ∧
      sf.tracker.queue = [⟨a, b, renderChars I ++ [','] ++ renderChars D, .dec I.render D.render, false⟩] := by
  obtain ⟨hp, hq, hh⟩ := hs
  unfold Scanner.finalize
  have hn : s.parser.hasNumber = true := by
    rw [hp]; show (!I.isEmpty) = true; rw [hne]; rfl
  rw [hn, if_pos rfl]
  unfold Scanner.numberEnd
  have ho : s.parser.isOrdinal = false := by
    rw [hp]; show I.marker.isOrdinal = false; rw [hm]; rfl
  obtain ⟨x, xs, hrr⟩ : ∃ x xs, D.render = x :: xs := by
    cases hrv : D.render with
    | nil => exact absurd hrv (T2N.render_ne_nil D hD)
    | cons x xs => exact ⟨x, xs, rfl⟩
  have hf : s.parser.finish (scanCfg Es.lang thr).lang =
      .ok (renderChars I ++ [','] ++ renderChars D, .dec I.render D.render) := by
    rw [hp]
    unfold Parser.finish
    dsimp only
    rw [hD]
    show ((scanCfg Es.lang thr).lang.formatDecimalW I D) = _
    unfold Lang.formatDecimalW
    have hc : (I.render.isEmpty && D.render.isEmpty) = false := by rw [hrr]; simp
    rw [hc, if_neg Bool.false_ne_true]
    rfl
  rw [hf, ho]
  dsimp only
  have hsm : (scanCfg Es.lang thr).small (.dec I.render D.render) = false := by
    rw [hrr]; rfl
  rw [hsm, Bool.and_false]
  obtain ⟨_, t2⟩ := tracker_numberEnd s.tracker false (renderChars I ++ [','] ++ renderChars D)
    (.dec I.render D.render) hh
  refine ⟨_, s.tracker.mstart, s.tracker.mend, rfl, ?_⟩
  show (s.tracker.numberEnd false _ _ false).queue = _
  rw [t2, hq]
  rfl

/-! ### the value of a digit string -/

theorem decDigits_snoc (a d : Nat) (ha : a ≠ 0) (hd : d < 10) : decDigits (10 * a + d) = decDigits a ++ [d] := by
  rw [decDigits, if_neg (by omega)]
  have e1 : (10 * a + d) / 10 = a := by omega
  have e2 : (10 * a + d) % 10 = d := by omega
  rw [e1, e2]

theorem dec_foldl : ∀ (ds : List Nat) (acc : Nat), (∀ d ∈ ds, d < 10) → acc ≠ 0 →
    decDigits (ds.foldl (fun acc d => 10 * acc + d) acc) = decDigits acc ++ ds ∧
    ds.foldl (fun acc d => 10 * acc + d) acc ≠ 0 ∧
    ds.foldl (fun acc d => 10 * acc + d) acc < (acc + 1) * 10 ^ ds.length := by
  intro ds
  induction ds with
  | nil => intro acc _ h; exact ⟨by simp, h, by simp⟩
  | cons d ds ih =>
    intro acc hds hacc
    have hd : d < 10 := hds d List.mem_cons_self
    obtain ⟨i1, i2, i3⟩ := ih (10 * acc + d) (fun x hx => hds x (List.mem_cons_of_mem _ hx)) (by omega)
    rw [List.foldl_cons]
    refine ⟨?_, i2, ?_⟩
    · rw [i1, decDigits_snoc acc d hacc hd, List.append_assoc]; rfl
    · have : (10 * acc + d + 1) * 10 ^ ds.length ≤ (acc + 1) * 10 ^ (d :: ds).length := by
        rw [List.length_cons, Nat.pow_succ, ← Nat.mul_assoc, Nat.mul_right_comm]
        apply Nat.mul_le_mul_right
        omega
      omega

/-- a digit string without leading zero: its value has exactly these digits -/
theorem digitsValue_spec (x : Nat) (t : List Nat) (hx : x ≠ 0) (h9 : ∀ d ∈ x :: t, d < 10) :
    decDigits (Es.digitsValue (x :: t)) = x :: t ∧ Es.digitsValue (x :: t) ≠ 0 ∧
      Es.digitsValue (x :: t) < 10 ^ (t.length + 1) := by
  have hx9 : x < 10 := h9 x List.mem_cons_self
  obtain ⟨i1, i2, i3⟩ := dec_foldl t x (fun d hd => h9 d (List.mem_cons_of_mem _ hd)) hx
  have e : Es.digitsValue (x :: t) = t.foldl (fun acc d => 10 * acc + d) x := by
    unfold Es.digitsValue
    rw [List.foldl_cons, Nat.mul_zero, Nat.zero_add]
  rw [e]
  refine ⟨?_, i2, ?_⟩
  · rw [i1, decDigits, if_pos hx9]; rfl
  · have : (x + 1) * 10 ^ t.length ≤ 10 ^ (t.length + 1) := by
      rw [Nat.pow_succ, Nat.mul_comm]
      apply Nat.mul_le_mul_left
      omega
    omega

theorem takeWhile_zero (ds : List Nat) : ds.takeWhile (· == 0) = List.replicate (ds.takeWhile (· == 0)).length 0 := by
  induction ds with
  | nil => rfl
  | cons d ds ih =>
    by_cases hd : d = 0
    · subst hd
      rw [List.takeWhile_cons_of_pos (by rfl), List.length_cons, List.replicate_succ, ← ih]
    · rw [List.takeWhile_cons_of_neg (by simpa using hd)]; rfl

theorem dropWhile_head (ds : List Nat) : ∀ x t, ds.dropWhile (· == 0) = x :: t → x ≠ 0 := by
  induction ds with
  | nil => intro x t h; cases h
  | cons d ds ih =>
    intro x t h
    by_cases hd : d = 0
    · subst hd
      rw [List.dropWhile_cons_of_pos (by rfl)] at h
      exact ih x t h
    · rw [List.dropWhile_cons_of_neg (by simpa using hd)] at h
      have : d = x := by injection h
      rw [← this]; exact hd

/-- **the fraction builder**: the spelled fraction of `ds` (zeros one by one, the rest as one cardinal of
at most twelve digits) runs to a builder that renders `ds` -/
theorem fraction_run (v : Var) (ds : List Nat) (hds : ds ≠ []) (h9 : ∀ d ∈ ds, d < 10)
    (hlen : (ds.dropWhile (· == 0)).length ≤ 12) :
    ∃ D, execGroupFrom Es.apply (Es.fraction v ds) DS.new false = .ok D ∧ D.isEmpty = false ∧ D.render = ds := by
  unfold Es.fraction
  dsimp only
  have hz := takeWhile_zero ds
  have hsplit : ds.takeWhile (· == 0) ++ ds.dropWhile (· == 0) = ds := List.takeWhile_append_dropWhile
  generalize hzs : ds.takeWhile (· == 0) = zs at hz hsplit
  generalize hrs : ds.dropWhile (· == 0) = rest at hlen hsplit
  have hmap : zs.map (fun _ => w!"cero") = List.replicate zs.length Es.zeroWord := by
    rw [hz, List.map_replicate, List.length_replicate]; rfl
  rw [hmap]
  have hstart : (DS.new : DS) = setLz 0 DS.new := rfl
  rw [hstart, zeros_run, Nat.zero_add]
  cases rest with
  | nil =>
    have hds' : ds = zs := by rw [← hsplit, List.append_nil]
    have hzne : zs.length ≠ 0 := by
      intro h0
      have : zs = [] := List.eq_nil_of_length_eq_zero h0
      rw [this] at hds'; exact hds hds'
    refine ⟨setLz zs.length DS.new, rfl, ?_, ?_⟩
    · show (([] : List Nat).isEmpty && zs.length == 0) = false
      simp [hzne]
    · show List.replicate zs.length 0 ++ [] = ds
      rw [List.append_nil, ← hz, hds']
  | cons x t =>
    have hx : x ≠ 0 := dropWhile_head ds x t hrs
    have h9' : ∀ d ∈ x :: t, d < 10 := by
      intro d hd
      apply h9 d
      rw [← hsplit]
      exact List.mem_append_right _ hd
    obtain ⟨d1, d2, d3⟩ := digitsValue_spec x t hx h9'
    have hlt : Es.digitsValue (x :: t) < 10 ^ 12 := by
      have h1 : t.length + 1 ≤ 12 := by simpa using hlen
      exact Nat.lt_of_lt_of_le d3 (Nat.pow_le_pow_right (by decide) h1)
    have hne : ((x :: t).isEmpty) = false := rfl
    rw [hne, if_neg Bool.false_ne_true, cardinal_run_lz v zs.length _ d2 hlt]
    refine ⟨_, rfl, (format_lz zs.length _ d2).1, ?_⟩
    show List.replicate zs.length 0 ++ (lsb (Es.digitsValue (x :: t))).reverse = ds
    rw [lsb_rev_dec _ d2, d1, ← hz, hsplit]

/-- **C05 for Spanish**: integer part `n < 10^12`, any non-empty fraction whose digits after the leading
zeros number at most twelve (they are spelled as ONE cardinal), any threshold: exactly one occurrence,
whose text is `<digits of n>,<fraction digits>` -/
theorem C05_decimal_es_occ (v : Spec.Var) (n : Nat) (ds : List Nat) (thr : Nat → Bool) (h : n < 10 ^ 12)
    (hds : ds ≠ []) (h9 : ∀ d ∈ ds, d < 10) (hlen : (ds.dropWhile (· == 0)).length ≤ 12) :
    ∃ a b, findNumbers (scanCfg Es.lang thr)
        (wordTokens (Spec.Es.cardinal v n ++ [Spec.Es.sepWord] ++ Spec.Es.fraction v ds)) =
      .ok [⟨a, b, decChars n ++ [','] ++ ds.map digitChar, .dec (decDigits n) ds, false⟩] := by
  -- the integer part as an interpreter run
  obtain ⟨I, hrun, hne, hm, hrc, hrd⟩ : ∃ I, execGroupFrom Es.apply (Es.cardinal v n) DS.new false = .ok I ∧
      I.isEmpty = false ∧ I.marker = .none ∧ renderChars I = decChars n ∧ I.render = decDigits n := by
    by_cases hn : n = 0
    · subst hn
      have e0 : decDigits 0 = [0] := by rw [decDigits, if_pos (by decide)]
      refine ⟨setLz 1 DS.new, ?_, rfl, rfl, ?_, ?_⟩
      · have := zeros_run [] 1 0
        rw [List.append_nil] at this
        exact this
      · unfold decChars; rw [e0]; rfl
      · rw [e0]; rfl
    · refine ⟨C01En.mk (lsb n), cardinal_run v n hn h, ?_, rfl, ?_, ?_⟩
      · have := (format_lz 0 n hn).1; exact this
      · have hr : (C01En.mk (lsb n)).render = decDigits n := by
          show List.replicate 0 0 ++ (lsb n).reverse = _
          rw [lsb_rev_dec n hn]; rfl
        unfold renderChars decChars; rw [hr]
      · show List.replicate 0 0 ++ (lsb n).reverse = _
        rw [lsb_rev_dec n hn]; rfl
  obtain ⟨D, hfr, hDne, hDr⟩ := fraction_run v ds hds h9 hlen
  have hs0 : SI {} DS.new := ⟨rfl, rfl, rfl⟩
  obtain ⟨s1, e1, hs1⟩ := lift_run thr _ _ _ _ hrun {} 0 hs0
  obtain ⟨s2, e2, hs2⟩ := step_coma thr s1 (0 + 2 * (Es.cardinal v n).length) I hs1 hne hm
  obtain ⟨s3, e3, hs3⟩ := lift_run_dec thr I _ _ _ _ hfr s2 (0 + 2 * (Es.cardinal v n).length + 2) hs2
  obtain ⟨sf, a, b, e4, hq⟩ := finalize_decimal thr s3 I D hs3 hne hm hDne
  have hDc : renderChars D = ds.map digitChar := by unfold renderChars; rw [hDr]
  rw [hrc, hDr, hrd, hDc] at hq
  refine ⟨a, b, ?_⟩
  rw [findNumbers_words, List.append_assoc, pushWords_append, e1]
  dsimp only
  rw [List.singleton_append, pushWords, e2]
  dsimp only
  rw [e3]
  dsimp only
  rw [e4]
  dsimp only
  rw [hq]

theorem C05_decimal_es (v : Spec.Var) (n : Nat) (ds : List Nat) (thr : Nat → Bool) (h : n < 10 ^ 12)
    (hds : ds ≠ []) (h9 : ∀ d ∈ ds, d < 10) (hlen : (ds.dropWhile (· == 0)).length ≤ 12) :
    occTexts Es.lang thr (Spec.Es.cardinal v n ++ [Spec.Es.sepWord] ++ Spec.Es.fraction v ds) =
      some [decChars n ++ [Spec.Es.decMark] ++ ds.map digitChar] := by
  obtain ⟨a, b, e⟩ := C05_decimal_es_occ v n ds thr h hds h9 hlen
  unfold occTexts
  rw [e]
  rfl

/-- the bound on the fraction cannot be dropped: `Spec.Es.cardinal` is only defined below `10^12` (a
thirteen-digit fraction `1000000000000` is spelled by the empty word list, leaving `cero coma` = `0`);
this is a limit of the specification speller, not a defect of the library -/
theorem C05_long_fraction_es :
    occTexts Es.lang zeroThr (Spec.Es.cardinal (fun _ => 0) 0 ++ [Spec.Es.sepWord] ++
      Spec.Es.fraction (fun _ => 0) [1, 0, 0, 0, 0, 0, 0, 0, 0, 0, 0, 0, 0]) = some [w!"0"] := by decide

/-- the hypotheses are satisfiable: `cero coma cero cero siete`, `tres coma ciento cuarenta y uno` -/
example : occTexts Es.lang (fun _ => true) (Spec.Es.cardinal (fun _ => 0) 0 ++ [Spec.Es.sepWord] ++
    Spec.Es.fraction (fun _ => 0) [0, 0, 7]) = some [decChars 0 ++ [','] ++ w!"007"] :=
  C05_decimal_es (fun _ => 0) 0 [0, 0, 7] (fun _ => true) (by decide) (by decide) (by decide) (by decide)

example : occTexts Es.lang zeroThr (Spec.Es.cardinal (fun _ => 1) 3 ++ [Spec.Es.sepWord] ++
    Spec.Es.fraction (fun _ => 1) [1, 4, 1]) = some [decChars 3 ++ [','] ++ w!"141"] :=
  C05_decimal_es (fun _ => 1) 3 [1, 4, 1] zeroThr (by decide) (by decide) (by decide) (by decide)

/-! ## Part 5 — ordinals (C04)

A Spanish ordinal is not a cardinal with its last word changed: every word is an ordinal form
(`milésimo centésimo vigésimo tercero`), all words agree in gender and number, each carries the marker
(`º ª ᵒˢ ᵃˢ`), and the interpreter refuses a word whose marker differs from that of the (non-empty)
builder. The builder states are `so mk N`: the digits of `N` with marker `mk`. -/

def setMk (m : Marker) (b : DS) : DS := { b with marker := m }

/-- digits of `N`, marker `m` -/
def so (m : Marker) (N : Nat) : DS := setMk m (C01En.mk (lsb N))

theorem put_mk (b : DS) (ds : List Nat) (m : Marker) :
    (setMk m b).put ds = ((b.put ds).1, setMk m (b.put ds).2) := by
  unfold DS.put setMk
  dsimp only
  repeat' (split <;> try rfl)

/-- `w` is an ordinal form with marker `m`, bound to instruction `a` -/
def OrdW (w : Word) (a : Act) (m : Mk) : Prop :=
  Es.morph w = .ordinal m ∧ Es.vocab.lookup (Es.lemmatize w) = some a

theorem apply_ord (w : Word) (a : Act) (m : Mk) (b : DS) (h : OrdW w a m)
    (hb : b.isEmpty = true ∨ b.marker = .ordinal m) : Es.apply w b = post (.ordinal m) (a.exec b) := by
  have hc : clash w b = false := by
    unfold clash
    rw [h.1]
    rcases hb with hb | hb
    · rw [hb]; rfl
    · rw [hb]; simp
  rw [apply_eq, hc, if_neg Bool.false_ne_true, h.1, h.2]
  rfl

theorem so_pre (m : Mk) (mk0 : Marker) (N : Nat) (hpre : N = 0 ∨ mk0 = .ordinal m) :
    (so mk0 N).isEmpty = true ∨ (so mk0 N).marker = .ordinal m := by
  rcases hpre with h | h
  · left; subst h
    show ((lsb 0).isEmpty && (0 : Nat) == 0) = true
    rw [lsb_zero]; rfl
  · right; exact h

/-- an ordinal word bound to a `put`: the arithmetic of the cardinal development carries over -/
theorem ord_put_apply (w : Word) (ds : List Nat) (m : Mk) (N N' : Nat) (mk0 : Marker) (hw : OrdW w (.put ds) m)
    (hpre : N = 0 ∨ mk0 = .ordinal m) (hput : (C01En.mk (lsb N)).put ds = (none, C01En.mk (lsb N'))) :
    Es.apply w (so mk0 N) = (none, so (.ordinal m) N') := by
  rw [apply_ord w _ m _ hw (so_pre m mk0 N hpre)]
  simp only [Act.exec]
  unfold so
  rw [put_mk, hput]
  rfl

/-- masculine `segundo(s)`: only after another ordinal word -/
theorem ord_segundo_apply (w : Word) (m : Mk) (N : Nat) (hw : OrdW w (.when .markerOrd (.put [2])) m)
    (hN : N % 10 = 0) : Es.apply w (so (.ordinal m) N) = (none, so (.ordinal m) (N + 2)) := by
  rw [apply_ord w _ m _ hw (Or.inr rfl)]
  simp only [Act.when, Act.exec]
  have hg : Guard.markerOrd.eval (so (.ordinal m) N) = true := rfl
  rw [if_pos hg]
  unfold so
  rw [put_mk, put1_lsb 2 N (by decide) (by decide) hN]
  rfl

theorem lsb_1000 : lsb 1000 = [0, 0, 0, 1] := by
  have := lsb_mul_pow 1 3 (by decide)
  rw [lsb_digit 1 (by decide) (by decide)] at this
  exact this

/-- `milésimo` (always the first word) -/
theorem ord_mil_apply (w : Word) (m : Mk) (mk0 : Marker) (hw : OrdW w T2N.Es.mil m) :
    Es.apply w (so mk0 0) = (none, so (.ordinal m) 1000) := by
  rw [apply_ord w _ m _ hw (so_pre m mk0 0 (Or.inl rfl))]
  unfold so
  rw [lsb_1000, lsb_zero]
  rfl

/-! ### sequences of ordinal words -/

def OSteps (m : Mk) (ws : List Word) (N N' : Nat) : Prop :=
  ∀ rest mk0, (N = 0 ∨ mk0 = .ordinal m) → ∃ mk1, (N' = 0 ∨ mk1 = .ordinal m) ∧
    execGroupFrom Es.apply (ws ++ rest) (so mk0 N) false = execGroupFrom Es.apply rest (so mk1 N') false

theorem OSteps.nil (m : Mk) (N : Nat) : OSteps m [] N N := fun _ mk0 h => ⟨mk0, h, rfl⟩

theorem OSteps.append {m : Mk} {a b : List Word} {N N' N'' : Nat} (h1 : OSteps m a N N') (h2 : OSteps m b N' N'') :
    OSteps m (a ++ b) N N'' := by
  intro rest mk0 hpre
  obtain ⟨mk1, p1, e1⟩ := h1 (b ++ rest) mk0 hpre
  obtain ⟨mk2, p2, e2⟩ := h2 rest mk1 p1
  exact ⟨mk2, p2, by rw [List.append_assoc, e1, e2]⟩

theorem OSteps.single {m : Mk} {w : Word} {N N' : Nat}
    (h : ∀ mk0, (N = 0 ∨ mk0 = .ordinal m) → Es.apply w (so mk0 N) = (none, so (.ordinal m) N')) :
    OSteps m [w] N N' := by
  intro rest mk0 hpre
  refine ⟨.ordinal m, Or.inr rfl, ?_⟩
  rw [List.singleton_append, execGroupFrom, h mk0 hpre]

theorem OSteps.cast {m : Mk} {ws : List Word} {N N' M : Nat} (h : OSteps m ws N N') (e : N' = M) :
    OSteps m ws N M := e ▸ h

/-! ### the ordinal vocabulary, inflected -/

/-- marker of inflection `i < 4` -/
def mkI (i : Nat) : Mk :=
  match i with
  | 0 => .mo | 1 => .fa | 2 => .mos | _ => .fas

theorem i_cases (i : Nat) (hi : i < 4) : i = 0 ∨ i = 1 ∨ i = 2 ∨ i = 3 := by omega

theorem ordW_unit (d i : Nat) (h0 : d ≠ 0) (h9 : d < 10) (h2 : d ≠ 2) (hi : i < 4) :
    OrdW (Es.inflect i (Es.ordUnitWords.getD d [])) (.put [d]) (mkI i) := by
  have : d = 1 ∨ d = 3 ∨ d = 4 ∨ d = 5 ∨ d = 6 ∨ d = 7 ∨ d = 8 ∨ d = 9 := by omega
  rcases this with rfl | rfl | rfl | rfl | rfl | rfl | rfl | rfl <;>
    rcases i_cases i hi with rfl | rfl | rfl | rfl <;> exact ⟨by decide, by rfl⟩

theorem ordW_segundo (i : Nat) (hi : i = 0 ∨ i = 2) :
    OrdW (Es.inflect i (Es.ordUnitWords.getD 2 [])) (.when .markerOrd (.put [2])) (mkI i) := by
  rcases hi with rfl | rfl <;> exact ⟨by decide, by rfl⟩

theorem ordW_segunda (i : Nat) (hi : i = 1 ∨ i = 3) :
    OrdW (Es.inflect i (Es.ordUnitWords.getD 2 [])) (.put [2]) (mkI i) := by
  rcases hi with rfl | rfl <;> exact ⟨by decide, by rfl⟩

theorem ordW_teen (k i : Nat) (h0 : k ≠ 0) (h9 : k < 10) (hi : i < 4) :
    OrdW (Es.inflect i (Es.ordTeenWords.getD k [])) (.put [1, k]) (mkI i) := by
  have : k = 1 ∨ k = 2 ∨ k = 3 ∨ k = 4 ∨ k = 5 ∨ k = 6 ∨ k = 7 ∨ k = 8 ∨ k = 9 := by omega
  rcases this with rfl | rfl | rfl | rfl | rfl | rfl | rfl | rfl | rfl <;>
    rcases i_cases i hi with rfl | rfl | rfl | rfl <;> exact ⟨by decide, by rfl⟩

theorem ordW_undecimo (i : Nat) (hi : i < 4) : OrdW (Es.inflect i w!"undécimo") (.put [1, 1]) (mkI i) := by
  rcases i_cases i hi with rfl | rfl | rfl | rfl <;> exact ⟨by decide, by rfl⟩

theorem ordW_duodecimo (i : Nat) (hi : i < 4) : OrdW (Es.inflect i w!"duodécimo") (.put [1, 2]) (mkI i) := by
  rcases i_cases i hi with rfl | rfl | rfl | rfl <;> exact ⟨by decide, by rfl⟩

theorem ordW_tens (t i : Nat) (h0 : t ≠ 0) (h9 : t < 10) (hi : i < 4) :
    OrdW (Es.inflect i (Es.ordTensWords.getD t [])) (.put [t, 0]) (mkI i) := by
  have : t = 1 ∨ t = 2 ∨ t = 3 ∨ t = 4 ∨ t = 5 ∨ t = 6 ∨ t = 7 ∨ t = 8 ∨ t = 9 := by omega
  rcases this with rfl | rfl | rfl | rfl | rfl | rfl | rfl | rfl | rfl <;>
    rcases i_cases i hi with rfl | rfl | rfl | rfl <;> exact ⟨by decide, by rfl⟩

theorem ordW_hundred (h i : Nat) (h0 : h ≠ 0) (h9 : h < 10) (hi : i < 4) :
    OrdW (Es.inflect i (Es.ordHundredWords.getD h [])) (.put [h, 0, 0]) (mkI i) := by
  have : h = 1 ∨ h = 2 ∨ h = 3 ∨ h = 4 ∨ h = 5 ∨ h = 6 ∨ h = 7 ∨ h = 8 ∨ h = 9 := by omega
  rcases this with rfl | rfl | rfl | rfl | rfl | rfl | rfl | rfl | rfl <;>
    rcases i_cases i hi with rfl | rfl | rfl | rfl <;> exact ⟨by decide, by rfl⟩

theorem ordW_mil (i : Nat) (hi : i < 4) : OrdW (Es.inflect i w!"milésimo") T2N.Es.mil (mkI i) := by
  rcases i_cases i hi with rfl | rfl | rfl | rfl <;> exact ⟨by decide, by rfl⟩

/-! ### word steps -/

/-- a unit ordinal `primero` … `noveno` on a state whose units position is free; masculine `segundo`
needs an ordinal word before it -/
theorem ord_unit_steps (d i N : Nat) (h0 : d ≠ 0) (h9 : d < 10) (hi : i < 4) (hN : N % 10 = 0)
    (h2 : d = 2 → N ≠ 0 ∨ i = 1 ∨ i = 3) :
    OSteps (mkI i) [Es.inflect i (Es.ordUnitWords.getD d [])] N (N + d) := by
  by_cases hd : d = 2
  · subst hd
    by_cases hf : i = 1 ∨ i = 3
    · exact OSteps.single fun mk0 hpre =>
        ord_put_apply _ _ _ N _ mk0 (ordW_segunda i hf) hpre (put1_lsb 2 N (by decide) (by decide) hN)
    · have hm : i = 0 ∨ i = 2 := by omega
      have hN0 : N ≠ 0 := by
        rcases h2 rfl with h | h | h
        · exact h
        · exact absurd (Or.inl h) hf
        · exact absurd (Or.inr h) hf
      refine OSteps.single fun mk0 hpre => ?_
      have : mk0 = .ordinal (mkI i) := by
        rcases hpre with h | h
        · exact absurd h hN0
        · exact h
      rw [this]
      exact ord_segundo_apply _ _ N (ordW_segundo i hm) hN
  · exact OSteps.single fun mk0 hpre =>
      ord_put_apply _ _ _ N _ mk0 (ordW_unit d i h0 h9 hd hi) hpre (put1_lsb d N h0 h9 hN)

theorem ord_put2_steps (w : Word) (a b i N : Nat) (hw : OrdW w (.put [a, b]) (mkI i)) (h0 : a ≠ 0) (h9 : a < 10)
    (hb : b < 10) (hN : N % 100 = 0) : OSteps (mkI i) [w] N (N + (10 * a + b)) :=
  OSteps.single fun mk0 hpre => ord_put_apply _ _ _ N _ mk0 hw hpre (put2_lsb a b N h0 h9 hb hN)

/-- `1 ≤ r ≤ 99` as an ordinal, every inflection, every variant (`undécimo` | `decimoprimero` |
`décimo primero` …) -/
theorem ordBelow100_steps (v : Var) (r i N : Nat) (h0 : r ≠ 0) (h1 : r < 100) (hi : i < 4) (hN : N % 100 = 0)
    (h2 : r = 2 → N ≠ 0 ∨ i = 1 ∨ i = 3) :
    OSteps (mkI i) ((Es.ordBelow100 v r).map (Es.inflect i)) N (N + r) := by
  have hdec : OSteps (mkI i) [Es.inflect i w!"décimo"] N (N + 10) :=
    ord_put2_steps _ 1 0 i N (ordW_tens 1 i (by decide) (by decide) hi) (by decide) (by decide) (by decide) hN
  have hsplit : ∀ u, u ≠ 0 → u < 10 →
      OSteps (mkI i) [Es.inflect i w!"décimo", Es.inflect i (Es.ordUnitWords.getD u [])] N (N + (10 + u)) := by
    intro u u0 u9
    have s2 := ord_unit_steps u i (N + 10) u0 u9 hi (by omega) (fun _ => Or.inl (by omega))
    exact (OSteps.append hdec s2).cast (by omega)
  have hcomp : ∀ u, u ≠ 0 → u < 10 →
      OSteps (mkI i) [Es.inflect i (Es.ordTeenWords.getD u [])] N (N + (10 + u)) := by
    intro u u0 u9
    exact (ord_put2_steps _ 1 u i N (ordW_teen u i u0 u9 hi) (by decide) (by decide) u9 hN)
  unfold Es.ordBelow100
  by_cases h10 : r < 10
  · rw [if_pos h10]
    exact ord_unit_steps r i N h0 h10 hi (by omega) h2
  · rw [if_neg h10]
    by_cases e10 : r = 10
    · subst e10
      rw [if_pos (by decide)]
      exact hdec
    · rw [if_neg (by simp [e10])]
      by_cases h20 : r < 20
      · rw [if_pos h20]
        dsimp only
        by_cases e11 : r = 11
        · subst e11
          rw [if_pos (by decide)]
          have hk : pick v (cp 0 8) 3 = 0 ∨ pick v (cp 0 8) 3 = 1 ∨ 2 ≤ pick v (cp 0 8) 3 := by omega
          rcases hk with hk | hk | hk
          · rw [hk]
            exact ord_put2_steps _ 1 1 i N (ordW_undecimo i hi) (by decide) (by decide) (by decide) hN
          · rw [hk]
            exact hcomp 1 (by decide) (by decide)
          · obtain ⟨k, hk'⟩ : ∃ k, pick v (cp 0 8) 3 = k + 2 := ⟨pick v (cp 0 8) 3 - 2, by omega⟩
            rw [hk']
            exact hsplit 1 (by decide) (by decide)
        · rw [if_neg (by simp [e11])]
          by_cases e12 : r = 12
          · subst e12
            rw [if_pos (by decide)]
            have hk : pick v (cp 0 8) 3 = 0 ∨ pick v (cp 0 8) 3 = 1 ∨ 2 ≤ pick v (cp 0 8) 3 := by omega
            rcases hk with hk | hk | hk
            · rw [hk]
              exact ord_put2_steps _ 1 2 i N (ordW_duodecimo i hi) (by decide) (by decide) (by decide) hN
            · rw [hk]
              exact hcomp 2 (by decide) (by decide)
            · obtain ⟨k, hk'⟩ : ∃ k, pick v (cp 0 8) 3 = k + 2 := ⟨pick v (cp 0 8) 3 - 2, by omega⟩
              rw [hk']
              exact hsplit 2 (by decide) (by decide)
          · rw [if_neg (by simp [e12])]
            cases hf : flag v (cp 0 8)
            · rw [if_neg Bool.false_ne_true]
              exact (hcomp (r - 10) (by omega) (by omega)).cast (by omega)
            · rw [if_pos rfl]
              exact (hsplit (r - 10) (by omega) (by omega)).cast (by omega)
      · rw [if_neg h20]
        dsimp only
        have st : OSteps (mkI i) [Es.inflect i (Es.ordTensWords.getD (r / 10) [])] N (N + 10 * (r / 10)) :=
          (ord_put2_steps _ (r / 10) 0 i N (ordW_tens (r / 10) i (by omega) (by omega) hi) (by omega) (by omega)
            (by decide) hN).cast (by omega)
        by_cases hu : r % 10 = 0
        · rw [if_pos (by simp [hu]), List.append_nil]
          exact st.cast (by omega)
        · rw [if_neg (by simp [hu])]
          have su := ord_unit_steps (r % 10) i (N + 10 * (r / 10)) hu (by omega) hi (by omega)
            (fun _ => Or.inl (by omega))
          exact (OSteps.append st su).cast (by omega)

/-- **the whole ordinal** `1 ≤ n ≤ 1999` (masculine `segundo(s)` alone excluded: it is the time unit) -/
theorem ordinalBase_steps (v : Var) (n i : Nat) (_h0 : n ≠ 0) (h1 : n ≤ 1999) (hi : i < 4)
    (h2 : n = 2 → i = 1 ∨ i = 3) :
    OSteps (mkI i) ((Es.ordinalBase v n).map (Es.inflect i)) 0 n := by
  unfold Es.ordinalBase
  dsimp only
  rw [List.map_append, List.map_append]
  have sk : OSteps (mkI i) ((if (n / 1000 == 0) = true then [] else [w!"milésimo"]).map (Es.inflect i)) 0
      (1000 * (n / 1000)) := by
    by_cases hk : n / 1000 = 0
    · rw [if_pos (by simp [hk]), hk]
      exact OSteps.nil _ _
    · rw [if_neg (by simp [hk])]
      have : n / 1000 = 1 := by omega
      rw [this]
      exact OSteps.single fun mk0 _ => ord_mil_apply _ _ mk0 (ordW_mil i hi)
  have sh : OSteps (mkI i) ((if (n / 100 % 10 == 0) = true then []
      else [Es.ordHundredWords.getD (n / 100 % 10) []]).map (Es.inflect i))
      (1000 * (n / 1000)) (1000 * (n / 1000) + 100 * (n / 100 % 10)) := by
    by_cases hh : n / 100 % 10 = 0
    · rw [if_pos (by simp [hh]), hh]
      exact OSteps.nil _ _
    · rw [if_neg (by simp [hh])]
      exact OSteps.single fun mk0 hpre =>
        ord_put_apply _ _ _ _ _ mk0 (ordW_hundred (n / 100 % 10) i hh (by omega) hi) hpre
          (put3_lsb (n / 100 % 10) _ hh (by omega) (by omega))
  have shi := OSteps.append sk sh
  generalize (List.map (Es.inflect i) (if (n / 1000 == 0) = true then [] else [w!"milésimo"]) ++
      List.map (Es.inflect i) (if (n / 100 % 10 == 0) = true then []
        else [Es.ordHundredWords.getD (n / 100 % 10) []])) = hiw at shi
  by_cases hr : n % 100 = 0
  · rw [if_pos (by simp [hr]), List.map_nil, List.append_nil]
    exact shi.cast (by omega)
  · rw [if_neg (by simp [hr])]
    have hNz : n % 100 = 2 → 1000 * (n / 1000) + 100 * (n / 100 % 10) ≠ 0 ∨ i = 1 ∨ i = 3 := by
      intro e
      by_cases hn2 : n = 2
      · rcases h2 hn2 with h | h
        · exact Or.inr (Or.inl h)
        · exact Or.inr (Or.inr h)
      · exact Or.inl (by omega)
    have sr := ordBelow100_steps v (n % 100) i (1000 * (n / 1000) + 100 * (n / 100 % 10)) hr (by omega) hi
      (by omega) hNz
    exact (OSteps.append shi sr).cast (by omega)

theorem marker_chars (i : Nat) (hi : i < 4) : (mkI i).chars = Es.marker i := by
  rcases i_cases i hi with rfl | rfl | rfl | rfl <;> decide

theorem decChars_one : decChars 1 = ['1'] := by
  unfold decChars; rw [decDigits, if_pos (by decide)]; rfl

/-- the run of an inflected ordinal -/
theorem ordinal_run (v : Var) (n i : Nat) (h0 : n ≠ 0) (h1 : n ≤ 1999) (hi : i < 4) (h2 : n = 2 → i = 1 ∨ i = 3) :
    execGroupFrom Es.apply ((Es.ordinalBase v n).map (Es.inflect i)) DS.new false =
      .ok (so (.ordinal (mkI i)) n) := by
  obtain ⟨mk1, p1, e1⟩ := ordinalBase_steps v n i h0 h1 hi h2 [] .none (Or.inl rfl)
  have hmk : mk1 = .ordinal (mkI i) := by
    rcases p1 with h | h
    · exact absurd h h0
    · exact h
  rw [List.append_nil, hmk] at e1
  have hstart : so .none 0 = DS.new := by
    unfold so; rw [lsb_zero]; rfl
  rw [hstart] at e1
  rw [e1, execGroupFrom, if_neg Bool.false_ne_true]

/-- **C04 for Spanish, the whole range of the specification** (`1 ≤ n ≤ 1999`): every rank, every variant
(`undécimo` | `decimoprimero` | `décimo primero`, …), every inflection `i` (masculine / feminine, singular /
plural; the apocope `primer`, `i = 4`, only for rank 1 — see `C04_primer_compound_rejected_es`): whatever
`Spec.Es.ordinal` spells validates to the digits of `n` followed by the expected marker.

Full statement (FALSE for `i = 4`, `n ≠ 1`: the library refuses `vigésimo primer`):
`Es.ordinal v n i = some (ws, mk) → text2digitsWords Es.lang ws = .ok (decChars n ++ mk)`. -/
theorem C04_validate_es (v : Spec.Var) (n i : Nat) (ws : List Word) (mk : Word) (hi4 : i = 4 → n = 1)
    (h : Spec.Es.ordinal v n i = some (ws, mk)) :
    text2digitsWords Es.lang ws = .ok (decChars n ++ mk) := by
  unfold Es.ordinal at h
  by_cases hc : (n == 0 || decide (n > 1999) || decide (i > 4)) = true
  · rw [if_pos hc] at h; cases h
  · rw [if_neg hc] at h
    have hr : n ≠ 0 ∧ n ≤ 1999 ∧ i ≤ 4 := by
      simp only [Bool.or_eq_true, beq_iff_eq, decide_eq_true_eq, not_or] at hc
      omega
    obtain ⟨h0, h1, hi⟩ := hr
    by_cases hc2 : (n == 2 && (i == 0 || i == 2)) = true
    · rw [if_pos hc2] at h; cases h
    · rw [if_neg hc2] at h
      have h2 : n = 2 → i ≠ 0 ∧ i ≠ 2 := by
        intro hn
        simp only [Bool.and_eq_true, Bool.or_eq_true, beq_iff_eq, not_and, not_or] at hc2
        exact hc2 hn
      dsimp only at h
      by_cases e4 : i = 4
      · have hn1 : n = 1 := hi4 e4
        subst e4; subst hn1
        have : ws = [w!"primer"] ∧ mk = w!".ᵉʳ" := by
          have h' : some ([w!"primer"], w!".ᵉʳ") = some (ws, mk) := h
          injection h' with h'
          injection h' with a b
          exact ⟨a.symm, b.symm⟩
        rw [this.1, this.2, decChars_one]
        decide
      · have hi' : i < 4 := by omega
        rw [if_neg (by simp [e4])] at h
        have hws : ws = (Es.ordinalBase v n).map (Es.inflect i) ∧ mk = Es.marker i := by
          injection h with h
          injection h with a b
          exact ⟨a.symm, b.symm⟩
        rw [hws.1, hws.2]
        have hex : execGroup Es.lang.apply ((Es.ordinalBase v n).map (Es.inflect i)) =
            .ok (so (.ordinal (mkI i)) n) :=
          ordinal_run v n i h0 h1 hi' (fun hn => by have := h2 hn; omega)
        have hne := lsb_ne_nil h0
        have hemp : (so (.ordinal (mkI i)) n).isEmpty = false := by
          show ((lsb n).isEmpty && (0 : Nat) == 0) = false
          cases hl : lsb n with
          | nil => exact absurd hl hne
          | cons a t => rfl
        have hrender : (so (.ordinal (mkI i)) n).render = decDigits n := by
          show List.replicate 0 0 ++ (lsb n).reverse = _
          rw [lsb_rev_dec n h0]; rfl
        have hrne : (so (.ordinal (mkI i)) n).render.isEmpty = false := by
          rw [hrender, ← lsb_rev_dec n h0]
          cases hl : lsb n with
          | nil => exact absurd hl hne
          | cons a t => simp
        unfold text2digitsWords
        rw [hex]
        dsimp only
        rw [hemp, if_neg Bool.false_ne_true]
        unfold Lang.formatW
        rw [hrne, if_neg Bool.false_ne_true]
        show ValOut.ok (renderChars (so (.ordinal (mkI i)) n) ++ (mkI i).chars) = _
        unfold renderChars decChars
        rw [hrender, marker_chars i hi']

/-- the uniform face: `Spec.Es.speller.ordinal` -/
theorem C04_validate_es_speller (v : Spec.Var) (n i : Nat) (ws : List Word) (mk : Word) (hi4 : i = 4 → n = 1)
    (h : Spec.Es.speller.ordinal v n i = some (ws, mk)) :
    text2digitsWords Es.lang ws = .ok (decChars n ++ mk) := C04_validate_es v n i ws mk hi4 h

theorem C04_scan_es (v : Spec.Var) (n i : Nat) (ws : List Word) (mk : Word) (hi4 : i = 4 → n = 1)
    (h : Spec.Es.ordinal v n i = some (ws, mk)) :
    occTexts Es.lang zeroThr ws = some [decChars n ++ mk] :=
  scan_of_validate _ _ (C04_validate_es v n i ws mk hi4 h)

/-- **the known finding**: a compound ordinal ending in the apocope `primer` is spelled by the
specification (`vigésimo primer`, inflection 4 of rank 21) and refused by the library with `Overlap`
(`primer` carries the marker `.ᵉʳ`, the builder holds `º`): the hypothesis `i = 4 → n = 1` of
`C04_validate_es` cannot be dropped -/
theorem C04_primer_compound_rejected_es :
    Spec.Es.ordinal (fun _ => 0) 21 4 = some ([w!"vigésimo", w!"primer"], w!".ᵉʳ") ∧
    text2digitsWords Es.lang [w!"vigésimo", w!"primer"] = .err .overlap := by decide

/-- replacing the last word `w` of an accepted group by a word `w'` that every non-empty builder accepting
`w` refuses with `Overlap` makes the group fail with `Overlap` -/
theorem swap_last_reject (w w' : Word)
    (hw : ∀ b', b'.isEmpty = false → (Es.apply w b').1 = none → Es.apply w' b' = (some .overlap, b')) :
    ∀ (pre : List Word) (b : DS) (inc : Bool) (r : DS), (pre ≠ [] ∨ b.isEmpty = false) →
      execGroupFrom Es.apply (pre ++ [w]) b inc = .ok r →
      execGroupFrom Es.apply (pre ++ [w']) b inc = .error .overlap := by
  intro pre
  induction pre with
  | nil =>
    intro b inc r hne h
    have hb : b.isEmpty = false := by
      rcases hne with h' | h'
      · exact absurd rfl h'
      · exact h'
    rw [List.nil_append, execGroupFrom] at h ⊢
    rcases hx : Es.apply w b with ⟨st, b1⟩
    rw [hx] at h
    cases st with
    | none => rw [hw b hb (by rw [hx])]
    | some e =>
      cases e with
      | incomplete =>
        dsimp only at h
        rw [execGroupFrom, if_pos rfl] at h
        exact absurd h (by simp)
      | overlap => exact absurd h (by simp)
      | nan => exact absurd h (by simp)
      | frozen => exact absurd h (by simp)
  | cons x pre ih =>
    intro b inc r _ h
    rw [List.cons_append, execGroupFrom] at h ⊢
    rcases hx : Es.apply x b with ⟨st, b1⟩
    rw [hx] at h
    cases st with
    | none =>
      have hne1 : b1.isEmpty = false := by
        have := Es.apply_ok_nonempty x b (by rw [hx])
        rw [hx] at this; exact this
      exact ih b1 false r (Or.inr hne1) h
    | some e =>
      cases e with
      | incomplete =>
        have hne1 : b1.isEmpty = false := by
          have h1 := inc_nonempty x b (by rw [hx])
          have h2 := (Es.apply_err_same x b .incomplete (by rw [hx])).isEmpty_eq
          rw [hx] at h2
          rw [h2]; exact h1
        exact ih b1 true r (Or.inr hne1) h
      | overlap => exact absurd h (by simp)
      | nan => exact absurd h (by simp)
      | frozen => exact absurd h (by simp)

/-- a non-empty builder that accepts `primero` holds the marker `º`, so it refuses `primer` (`.ᵉʳ`) -/
theorem primer_after_primero (b' : DS) (hne : b'.isEmpty = false) (h : (Es.apply w!"primero" b').1 = none) :
    Es.apply w!"primer" b' = (some .overlap, b') := by
  rcases hx : Es.apply w!"primero" b' with ⟨st, b1⟩
  rw [hx] at h
  dsimp only at h
  subst h
  obtain ⟨_, m2⟩ := apply_ok_marker _ b' b1 hx
  have hm : b'.marker = .ordinal .mo := by
    rcases m2 hne with e | e
    · rw [← e]; decide
    · exact absurd e (by decide)
  rw [apply_eq]
  have hc : clash w!"primer" b' = true := by
    unfold clash
    rw [hne, hm]
    decide
  rw [if_pos hc]

/-- **the known finding, in general**: for EVERY rank `n ≠ 1` and every variant, whenever the specification
spells the apocopated form (inflection 4: the last word of the ordinal is `primero` — `vigésimo primer`,
`centésimo primer`, `décimo primer`, `milésimo noningentésimo nonagésimo primer`, …) the library refuses it
with `Overlap` -/
theorem C04_primer_compound_rejected_es_all (v : Spec.Var) (n : Nat) (ws : List Word) (mk : Word) (hn : n ≠ 1)
    (h : Spec.Es.ordinal v n 4 = some (ws, mk)) : text2digitsWords Es.lang ws = .err .overlap := by
  by_cases hn2 : n = 2
  · subst hn2
    have : Spec.Es.ordinal v 2 4 = none := by rfl
    rw [this] at h; cases h
  · unfold Es.ordinal at h
    by_cases hc : (n == 0 || decide (n > 1999) || decide (4 > 4)) = true
    · rw [if_pos hc] at h; cases h
    · rw [if_neg hc] at h
      have hr : n ≠ 0 ∧ n ≤ 1999 := by
        simp only [Bool.or_eq_true, beq_iff_eq, decide_eq_true_eq, not_or] at hc
        omega
      obtain ⟨h0, h1⟩ := hr
      rw [if_neg (by simp)] at h
      dsimp only at h
      rw [if_pos (by decide)] at h
      have hrun := ordinal_run v n 0 h0 h1 (by decide) (fun e => absurd e hn2)
      have hid : (Es.ordinalBase v n).map (Es.inflect 0) = Es.ordinalBase v n := by
        have : Es.inflect 0 = id := by funext w; rfl
        rw [this, List.map_id]
      rw [hid] at hrun
      cases hrev : (Es.ordinalBase v n).reverse with
      | nil => rw [hrev] at h; cases h
      | cons last rest =>
        rw [hrev] at h
        dsimp only at h
        by_cases hl : (last == w!"primero") = true
        · rw [if_pos hl] at h
          have hlast : last = w!"primero" := by simpa using hl
          subst hlast
          have hws : ws = rest.reverse ++ [w!"primer"] := by
            injection h with h
            injection h with a _
            rw [← a, List.reverse_cons]
          have hbase : Es.ordinalBase v n = rest.reverse ++ [w!"primero"] := by
            have := congrArg List.reverse hrev
            rw [List.reverse_reverse, List.reverse_cons] at this
            exact this
          rw [hbase] at hrun
          have hpre : rest.reverse ≠ [] := by
            intro hnil
            rw [hnil, List.nil_append] at hrun
            have h1' : execGroupFrom Es.apply [w!"primero"] DS.new false =
                .ok { rbuf := [1], marker := .ordinal .mo } := by rfl
            rw [h1'] at hrun
            have hb : (so (.ordinal .mo) n).rbuf = [1] := by
              have := congrArg (fun x => match x with | Except.ok d => d.rbuf | _ => []) hrun
              exact this.symm
            have hb' : lsb n = [1] := hb
            by_cases h10 : n < 10
            · rw [lsb_digit n h10 h0] at hb'
              have : n = 1 := by simpa using hb'
              exact hn this
            · have := lsb_length_ge2 (n := n) (by omega)
              rw [hb'] at this
              simp at this
          have hrej := swap_last_reject w!"primero" w!"primer" primer_after_primero rest.reverse DS.new false _
            (Or.inl hpre) hrun
          unfold text2digitsWords
          rw [hws]
          show (match execGroupFrom Es.apply (rest.reverse ++ [w!"primer"]) DS.new false with
            | .error e => ValOut.err e
            | .ok ds => _) = _
          rw [hrej]
        · rw [if_neg hl] at h; cases h

example : text2digitsWords Es.lang [w!"centésimo", w!"primer"] = .err .overlap :=
  C04_primer_compound_rejected_es_all (fun _ => 0) 101 _ w!".ᵉʳ" (by decide) (by decide)
example : text2digitsWords Es.lang [w!"décimo", w!"primer"] = .err .overlap :=
  C04_primer_compound_rejected_es_all (fun _ => 2) 11 _ w!".ᵉʳ" (by decide) (by decide)

/-- the hypotheses are satisfiable: `milésimas noningentésimas nonagésimas novenas`, `décimo segundo`,
`primer` -/
example : text2digitsWords Es.lang [w!"milésimas", w!"noningentésimas", w!"nonagésimas", w!"novenas"] =
    .ok (decChars 1999 ++ w!"ᵃˢ") :=
  C04_validate_es (fun _ => 0) 1999 3 _ _ (by decide) (by decide)
example : text2digitsWords Es.lang [w!"décimo", w!"segundo"] = .ok (decChars 12 ++ w!"º") :=
  C04_validate_es (fun _ => 2) 12 0 _ _ (by decide) (by decide)
example : text2digitsWords Es.lang [w!"primer"] = .ok (decChars 1 ++ w!".ᵉʳ") :=
  C04_validate_es (fun _ => 0) 1 4 _ _ (fun _ => rfl) (by decide)

end T2N.ExtEs
